(** C09 — modular exponentiation, multi-exponentiation and linear combination of Montgomery-form values are exact.
    Statements only (proofs: Proofs/Pow*P.v); every statement is for ALL limb counts of modulus, bases and exponents,
    all word values, every exponent_bits k >= 0 (k = 0 included), every number of bases and every number of terms.

    Limb level in the model (Model/Pow.v): starting limb / window / mask from exponent_bits, the constant-time table
    scans, the 4-bit window loops over limbs, windows and bases, the boxed ladder with its two final conditional
    subtractions, the whole interleaved sum of products with its two-level carry (hi, hi_carry), sub_mod_with_carry,
    the three window drivers.  Value level (limb-level model and proofs are property C08's business): Montgomery
    multiplication / squaring, almost-Montgomery multiplication, the parameters one / mod_neg_inv / mod_leading_zeros,
    conversion into Montgomery form and retrieve.  The ladder theorems are therefore stated for ANY multiplication
    that satisfies the contract [monty_mul_contract] / [amm_contract] (suffix _given_monty_mul / _given_amm), the
    contract is proved for the value-level functions, and the API theorems and the table theorem, which use those
    functions, are unconditional. *)
From CB Require Import Model.Limbs Model.AddSub Model.ModArith Model.Cmp Model.Pow
  Proofs.WordP Proofs.LimbsP Proofs.ModArithTablesP Proofs.PowMathP Proofs.PowLadderP Proofs.PowFixedP Proofs.PowBoxedP
  Proofs.PowLincombP Proofs.PowApiP Proofs.PowTablesP.
From Coq Require Import ZArith List String.
Import ListNotations.
Open Scope Z_scope.
Open Scope list_scope.
Notation length := List.length.

(* ------------------------------------------------------------------ *)
(** * the constant-time table scans read entry [idx] *)

Theorem C09_ct_lookup_is_nth : forall (n : nat) (powers : list (list Z)) (idx : Z),
  table_wf n powers -> Z.of_nat (length powers) <= B -> 0 <= idx < Z.of_nat (length powers) ->
  ct_lookup powers idx = nth (Z.to_nat idx) powers [].
Proof. exact ct_lookup_spec. Qed.

Theorem C09_boxed_lookup_is_nth : forall (n : nat) (powers : list (list Z)) (idx : Z),
  table_wf n powers -> Z.of_nat (length powers) <= B -> 0 <= idx < Z.of_nat (length powers) ->
  boxed_lookup powers idx = nth (Z.to_nat idx) powers [].
Proof. exact boxed_lookup_spec. Qed.

(* ------------------------------------------------------------------ *)
(** * MontyForm / ConstMontyForm: the shared 4-bit fixed-window ladder
      [Mf n m z]: z is a canonical n-limb residue (z < m);  [V m rinv z] = z * rinv mod m, the represented integer *)

(** pow_bounded_exp: base^(exponent mod 2^k) mod m in canonical form, for every k >= 0 and every exponent width *)
Theorem C09_pow_ladder_given_monty_mul : forall (n : nat) (m rinv : Z), 0 < m ->
  forall (mmul : list Z -> list Z -> list Z) (msq : list Z -> list Z),
  monty_mul_contract n m rinv mmul -> monty_sq_contract n m rinv msq ->
  forall one : list Z, Mf n m one -> V m rinv one = 1 mod m ->
  forall (x e : list Z) (k : Z), 0 <= k -> Mf n m x -> wf e ->
  Mf n m (pow_montgomery_form mmul msq one x e k) /\
  V m rinv (pow_montgomery_form mmul msq one x e k) = (V m rinv x ^ (eval e mod 2 ^ k)) mod m.
Proof. exact pow_ladder_correct. Qed.

(** exponent_bits = 0 returns the parameter [one] itself *)
Theorem C09_pow_zero_bits : forall (mmul : list Z -> list Z -> list Z) (msq : list Z -> list Z) (one x e : list Z),
  pow_montgomery_form mmul msq one x e 0 = one.
Proof. exact pow_zero_bits. Qed.

(** inherent pow and the Pow blanket impl of src/traits.rs (exponent_bits = BITS(exponent)): base^exponent mod m *)
Theorem C09_pow_full_given_monty_mul : forall (n : nat) (m rinv : Z), 0 < m ->
  forall (mmul : list Z -> list Z -> list Z) (msq : list Z -> list Z),
  monty_mul_contract n m rinv mmul -> monty_sq_contract n m rinv msq ->
  forall one : list Z, Mf n m one -> V m rinv one = 1 mod m ->
  forall x e : list Z, Mf n m x -> wf e ->
  Mf n m (pow_full mmul msq one x e) /\ V m rinv (pow_full mmul msq one x e) = (V m rinv x ^ eval e) mod m.
Proof. exact pow_full_correct. Qed.

(** MultiExponentiateBoundedExp on arrays: the product of the individual powers, for every number of bases *)
Theorem C09_multi_exp_array_given_monty_mul : forall (n : nat) (m rinv : Z), 0 < m ->
  forall (mmul : list Z -> list Z -> list Z) (msq : list Z -> list Z),
  monty_mul_contract n m rinv mmul -> monty_sq_contract n m rinv msq ->
  forall one : list Z, Mf n m one -> V m rinv one = 1 mod m ->
  forall (bes : list (list Z * list Z)) (k : Z), 0 <= k -> Forall (be_ok n m) bes ->
  Mf n m (multi_exp_array mmul msq one bes k) /\
  V m rinv (multi_exp_array mmul msq one bes k) = prod_pow m rinv bes k mod m.
Proof. exact multi_exp_array_correct. Qed.

(** ... and on slices *)
Theorem C09_multi_exp_slice_given_monty_mul : forall (n : nat) (m rinv : Z), 0 < m ->
  forall (mmul : list Z -> list Z -> list Z) (msq : list Z -> list Z),
  monty_mul_contract n m rinv mmul -> monty_sq_contract n m rinv msq ->
  forall one : list Z, Mf n m one -> V m rinv one = 1 mod m ->
  forall (bes : list (list Z * list Z)) (k : Z), 0 <= k -> Forall (be_ok n m) bes ->
  Mf n m (multi_exp_slice mmul msq one bes k) /\
  V m rinv (multi_exp_slice mmul msq one bes k) = prod_pow m rinv bes k mod m.
Proof. exact multi_exp_slice_correct. Qed.

(** the slice front returns the limbs of the array front, unconditionally *)
Theorem C09_slice_is_array : forall (mmul : list Z -> list Z -> list Z) (msq : list Z -> list Z) (one : list Z)
  (bes : list (list Z * list Z)) (k : Z),
  multi_exp_slice mmul msq one bes k = multi_exp_array mmul msq one bes k.
Proof. exact slice_is_array. Qed.

(** the contract holds for the value-level Montgomery multiplication used in the op table *)
Theorem C09_monty_mul_value_level : forall (n : nat) (m rinv : Z) (x y : list Z), 0 < m <= Bn n ->
  Mf n m (mmul_v n m rinv x y) /\ eval (mmul_v n m rinv x y) mod m = (eval x * eval y * rinv) mod m.
Proof. exact mmul_v_ok. Qed.

(* ------------------------------------------------------------------ *)
(** * BoxedMontyForm: ladder on almost-reduced values, two final conditional subtractions *)

(** the result is FULLY reduced (canonical) and is base^(exponent mod 2^k) mod m: the accumulator is below 3m at the
    exit of the ladder, so two conditional subtractions suffice *)
Theorem C09_boxed_pow_reduced_given_amm : forall (n : nat) (m rinv : Z), 0 < m -> n <> 0%nat ->
  forall amm : list Z -> list Z -> list Z, amm_contract n m rinv amm ->
  forall mL : list Z, Bf n mL -> eval mL = m ->
  forall one : list Z, Mf n m one -> V m rinv one = 1 mod m ->
  forall (x e : list Z) (k : Z), 0 <= k -> Mf n m x -> wf e ->
  Mf n m (boxed_pow_montgomery_form amm mL one x e k) /\
  V m rinv (boxed_pow_montgomery_form amm mL one x e k) = (V m rinv x ^ (eval e mod 2 ^ k)) mod m.
Proof. exact boxed_pow_reduced. Qed.

(** the contract holds for the value-level almost-Montgomery multiplication ((x*y + q*m)/R, one overflow subtraction) *)
Theorem C09_amm_value_level : forall (n : nat) (m : Z) (x y : list Z), 0 < m <= Bn n -> Z.odd m = true ->
  Bf n x -> Bf n y ->
  Bf n (amm_v n m (mg_neg_inv_full n m) x y) /\
  V m (mg_rinv n m) (amm_v n m (mg_neg_inv_full n m) x y) = (V m (mg_rinv n m) x * V m (mg_rinv n m) y) mod m /\
  eval (amm_v n m (mg_neg_inv_full n m) x y) * Bn n < eval x * eval y + m * Bn n.
Proof. exact amm_v_ok. Qed.

(* ------------------------------------------------------------------ *)
(** * lincomb: Longa's interleaved sum of products, limb level *)

(** the macro returns EXACTLY (sum a_i*b_i + Q*m) / R in (u, hi_carry): no carry of the two-level accumulator is lost,
    for any number of terms below 2^64 - 4 *)
Theorem C09_longa_exact : forall (n : nat) (mL : list Z) (ninv : Z),
  wf mL -> length mL = n -> n <> 0%nat -> (eval mL * ninv + 1) mod B = 0 ->
  forall (prods : list (list Z * list Z)) (u : list Z) (c : Z),
  Forall (term_ok n) prods -> Z.of_nat (length prods) + 4 < B ->
  longa_lincomb prods mL ninv = (u, c) ->
  wf u /\ length u = n /\ 0 <= c /\
  exists Q : Z, 0 <= Q < Bn n /\ (eval u + Bn n * c) * Bn n = lin_sum prods + Q * eval mL.
Proof. exact longa_exact. Qed.

(** the accumulation bound: while the sum of the products stays below m*R the value is below 2m and hi_carry <= 1 *)
Theorem C09_lincomb_window_bound : forall (n : nat) (mL : list Z) (ninv : Z),
  wf mL -> length mL = n -> n <> 0%nat -> (eval mL * ninv + 1) mod B = 0 ->
  forall (prods : list (list Z * list Z)) (u : list Z) (c : Z),
  Forall (term_ok n) prods -> Z.of_nat (length prods) + 4 < B ->
  0 < eval mL <= Bn n -> lin_sum prods < eval mL * Bn n ->
  longa_lincomb prods mL ninv = (u, c) ->
  0 <= eval u + Bn n * c < 2 * eval mL /\ 0 <= c <= 1 /\
  ((eval u + Bn n * c) * Bn n) mod eval mL = lin_sum prods mod eval mL /\ wf u /\ length u = n.
Proof. exact lincomb_window_bound. Qed.

(** ... which holds for ANY number of reduced terms within one window: count <= 2^lz, lz <= the leading zero bits of m *)
Theorem C09_lincomb_count_bound : forall (n : nat) (mL : list Z) (ninv lz : Z),
  wf mL -> length mL = n -> n <> 0%nat -> (eval mL * ninv + 1) mod B = 0 -> 0 < eval mL ->
  0 <= lz <= 63 -> eval mL * 2 ^ lz <= Bn n ->
  forall (w : list (list Z * list Z)) (u : list Z) (c : Z),
  Forall (mterm_ok n mL) w -> Z.of_nat (length w) <= 2 ^ lz ->
  longa_lincomb w mL ninv = (u, c) ->
  0 <= c <= 1 /\ 0 <= eval u + Bn n * c < 2 * eval mL /\
  ((eval u + Bn n * c) * Bn n) mod eval mL = lin_sum w mod eval mL /\ wf u /\ length u = n.
Proof. exact lincomb_count_bound. Qed.

(** sub_mod_with_carry on a value below 2p with carry <= 1: the residue, in both build profiles (no debug assertion) *)
Theorem C09_sub_mod_with_carry_correct : forall (dbg : bool) (a : list Z) (carry : Z) (p : list Z),
  wf a -> wf p -> length a = length p -> length a <> 0%nat -> 0 <= carry <= 1 -> 0 < eval p ->
  0 <= eval a + Bn (length a) * carry < 2 * eval p ->
  exists r : list Z, sub_mod_with_carry dbg a carry p p = Some r /\
    eval r = (eval a + Bn (length a) * carry) mod eval p /\ wf r /\ length r = length a.
Proof. exact smwc_spec. Qed.

(** lincomb_monty_form / lincomb_const_monty_form: never panics, canonical result z with z*R = sum a_i*b_i (mod m),
    for ANY number of terms (more than one accumulation window included) *)
Theorem C09_lincomb_fixed_correct : forall (n : nat) (mL : list Z) (ninv lz : Z),
  wf mL -> length mL = n -> n <> 0%nat -> (eval mL * ninv + 1) mod B = 0 -> 0 < eval mL ->
  0 <= lz <= 63 -> eval mL * 2 ^ lz <= Bn n ->
  forall (dbg : bool) (prods : list (list Z * list Z)), Forall (mterm_ok n mL) prods ->
  exists z : list Z, lincomb_fixed dbg prods mL ninv lz = Some z /\ Mf n (eval mL) z /\
    (eval z * Bn n) mod eval mL = lin_sum prods mod eval mL.
Proof. exact lincomb_fixed_correct. Qed.

(** lincomb_boxed_monty_form (in-place sbb / conditional adc forms) returns the same limbs *)
Theorem C09_lincomb_boxed_is_fixed : forall (n : nat) (mL : list Z) (ninv lz : Z),
  wf mL -> length mL = n -> n <> 0%nat -> (eval mL * ninv + 1) mod B = 0 -> 0 < eval mL ->
  0 <= lz <= 63 -> eval mL * 2 ^ lz <= Bn n ->
  forall (dbg : bool) (prods : list (list Z * list Z)), Forall (mterm_ok n mL) prods ->
  lincomb_boxed dbg prods mL ninv lz = lincomb_fixed dbg prods mL ninv lz.
Proof. exact lincomb_boxed_correct. Qed.

(* ------------------------------------------------------------------ *)
(** * API level: plain integers in, the pair (as_montgomery(), retrieve()) out; unconditional
      [sp_out n m v] = Val [to_limbs n (v * R mod m); to_limbs n v] *)

(** the value-level parameters have their defining properties *)
Theorem C09_param_rinv : forall (n : nat) (m : Z), 0 < m -> Z.odd m = true ->
  0 <= mg_rinv n m < m /\ (Bn n * mg_rinv n m) mod m = 1 mod m.
Proof. exact mg_rinv_spec. Qed.

Theorem C09_param_mod_neg_inv : forall m : Z, 0 < m -> Z.odd m = true ->
  is_word (mg_neg_inv m) /\ (m * mg_neg_inv m + 1) mod B = 0.
Proof. exact mg_neg_inv_spec. Qed.

Theorem C09_param_mod_leading_zeros : forall mL : list Z, wf mL -> length mL <> 0%nat -> Z.odd (eval mL) = true ->
  0 <= mg_lz (length mL) (eval mL) <= 63 /\ eval mL * 2 ^ mg_lz (length mL) (eval mL) <= Bn (length mL).
Proof. exact mg_lz_spec. Qed.

(** MontyForm / ConstMontyForm ::new(x).pow_bounded_exp(e, k), 0 <= k <= BITS(e) *)
Theorem C09_api_pow_fixed_correct : forall mL : list Z, wf mL -> length mL <> 0%nat -> Z.odd (eval mL) = true ->
  forall (x e : list Z) (k : Z), wf x -> wf e -> 0 <= k <= bitsZ e ->
  api_pow_fixed mL x e k = sp_out (length mL) (eval mL) ((eval x ^ (eval e mod 2 ^ k)) mod eval mL).
Proof. exact api_pow_fixed_correct. Qed.

(** BoxedMontyForm::new(x).pow_bounded_exp(e, k) *)
Theorem C09_api_pow_boxed_correct : forall mL : list Z, wf mL -> length mL <> 0%nat -> Z.odd (eval mL) = true ->
  forall (x e : list Z) (k : Z), wf x -> wf e -> 0 <= k <= bitsZ e ->
  api_pow_boxed mL x e k = sp_out (length mL) (eval mL) ((eval x ^ (eval e mod 2 ^ k)) mod eval mL).
Proof. exact api_pow_boxed_correct. Qed.

(** the compile-time / runtime implementation and the boxed one agree *)
Theorem C09_api_pow_agree : forall mL : list Z, wf mL -> length mL <> 0%nat -> Z.odd (eval mL) = true ->
  forall (x e : list Z) (k : Z), wf x -> wf e -> 0 <= k <= bitsZ e ->
  api_pow_boxed mL x e k = api_pow_fixed mL x e k.
Proof. exact api_pow_agree. Qed.

(** multi_exponentiate_bounded_exp on arrays (slice = false) and slices (slice = true): the product of the powers *)
Theorem C09_api_multiexp_correct : forall mL : list Z, wf mL -> length mL <> 0%nat -> Z.odd (eval mL) = true ->
  forall (slice : bool) (k : Z) (bes : list (list Z * list Z)), 0 <= k ->
  Forall (fun be : list Z * list Z => wf (fst be) /\ wf (snd be) /\ k <= bitsZ (snd be)) bes ->
  api_multiexp_fixed slice mL k bes = sp_out (length mL) (eval mL) (prod_spec bes k mod eval mL).
Proof. exact api_multiexp_correct. Qed.

(** lincomb_vartime: sum a_i*b_i mod m for any positive number of terms, fixed (boxed = false) and boxed, both profiles *)
Theorem C09_api_lincomb_correct : forall mL : list Z, wf mL -> length mL <> 0%nat -> Z.odd (eval mL) = true ->
  forall (boxed dbg : bool) (terms : list (list Z * list Z)), terms <> [] ->
  Forall (fun ab : list Z * list Z => wf (fst ab) /\ wf (snd ab)) terms ->
  api_lincomb boxed dbg mL terms = sp_out (length mL) (eval mL) (sum_prods terms mod eval mL).
Proof. exact api_lincomb_correct. Qed.

Theorem C09_api_lincomb_agree : forall mL : list Z, wf mL -> length mL <> 0%nat -> Z.odd (eval mL) = true ->
  forall (dbg : bool) (terms : list (list Z * list Z)), terms <> [] ->
  Forall (fun ab : list Z * list Z => wf (fst ab) /\ wf (snd ab)) terms ->
  api_lincomb true dbg mL terms = api_lincomb false dbg mL terms.
Proof. exact api_lincomb_agree. Qed.

(** the square-and-multiply function used by the specification table is Z.pow mod m *)
Theorem C09_spec_powmod : forall a e m : Z, 0 <= e -> powmod a e m = (a ^ e) mod m.
Proof. exact powmod_correct. Qed.

(* ------------------------------------------------------------------ *)
(** * the table theorem: model = spec for EVERY entry of the C09 op table wherever the specification is defined *)

Theorem C09_tables_agree : forall (dbg : bool) (a : list (list Z)) (k : string),
  wf_args a -> In k pow_keys -> S9 k dbg a <> Unsupported -> M9 k dbg a = S9 k dbg a.
Proof. exact tables_agree_pow. Qed.

Theorem C09_table_keys : map fst ops_pow_model = pow_keys /\ map fst ops_pow_spec = pow_keys.
Proof. exact pow_keys_complete. Qed.

(* ------------------------------------------------------------------ *)
(** * non-vacuity: concrete multi-limb values (Python's pow() gives the same numbers) *)

Definition ex_m2 : list Z := [18446744073709551615; 9223372036854775807].          (* 2^127 - 1: one leading zero bit *)
Definition ex_x : list Z := [3; 5].
Definition ex_e2 : list Z := [18364758544493064720; 11].
Definition ex_e3 : list Z := [18364758544493064720; 11; 3735928559].

(* the hypotheses of the API theorems hold for these values; the exponent has bits above k = 66 *)
Example C09_ex_hyps :
  (wfb ex_m2 && negb (Nat.eqb (length ex_m2) 0) && Z.odd (eval ex_m2) && wfb ex_x && wfb ex_e2 && wfb ex_e3 &&
   negb (eval ex_e2 mod 2 ^ 66 =? eval ex_e2) && (mg_lz 2 (eval ex_m2) =? 1))%bool = true.
Proof. vm_compute. reflexivity. Qed.

(* k = 66: two bits of the second exponent limb, bits above k set on purpose *)
Example C09_ex_pow_fixed : api_pow_fixed ex_m2 ex_x ex_e2 66 =
  Val [[15317306170624477791; 3039544339650418143]; [16882025122167014703; 6131458188252596975]].
Proof. vm_compute. reflexivity. Qed.
Example C09_ex_pow_boxed : api_pow_boxed ex_m2 ex_x ex_e2 66 =
  Val [[15317306170624477791; 3039544339650418143]; [16882025122167014703; 6131458188252596975]].
Proof. vm_compute. reflexivity. Qed.
(* exponent wider than the base, k = 131 *)
Example C09_ex_pow_wide_exponent : api_pow_boxed ex_m2 ex_x ex_e3 131 =
  Val [[13047163761547753632; 8322090444885024762]; [6523581880773876816; 4161045222442512381]]
  /\ api_pow_fixed ex_m2 ex_x ex_e3 131 = api_pow_boxed ex_m2 ex_x ex_e3 131.
Proof. vm_compute. split; reflexivity. Qed.
(* k = 0: one (Montgomery representative R mod m = 2) *)
Example C09_ex_pow_zero_bits : api_pow_fixed ex_m2 ex_x ex_e3 0 = Val [[2; 0]; [1; 0]]
  /\ api_pow_boxed ex_m2 ex_x ex_e3 0 = Val [[2; 0]; [1; 0]].
Proof. vm_compute. split; reflexivity. Qed.
(* k > BITS(exponent): the limb index is out of bounds *)
Example C09_ex_pow_k_too_large : api_pow_fixed ex_m2 ex_x ex_e2 129 = PanicV.
Proof. vm_compute. reflexivity. Qed.
(* 3^(6 mod 4) * 5^(6 mod 4) = 225 with exponent_bits = 2 (the top window is masked for EVERY base) *)
Example C09_ex_multiexp : api_multiexp_fixed true ex_m2 2 [([3; 0], [6; 0]); ([5; 0], [6; 0])] = Val [[450; 0]; [225; 0]]
  /\ api_multiexp_fixed false ex_m2 2 [([3; 0], [6; 0]); ([5; 0], [6; 0])] = Val [[450; 0]; [225; 0]].
Proof. vm_compute. split; reflexivity. Qed.
(* three terms whose Montgomery representatives are m-1, m-2, m-3 against a window of 2^1 = 2 terms *)
Definition ex_terms : list (list Z * list Z) :=
  [([18446744073709551615; 4611686018427387903], [18446744073709551615; 4611686018427387903]);
   ([18446744073709551614; 9223372036854775807], [18446744073709551614; 9223372036854775807]);
   ([18446744073709551614; 4611686018427387903], [18446744073709551615; 4611686018427387903])].
Example C09_ex_lincomb : api_lincomb false true ex_m2 ex_terms = Val [[4; 0]; [2; 0]]
  /\ api_lincomb true true ex_m2 ex_terms = Val [[4; 0]; [2; 0]]
  /\ sum_prods ex_terms mod eval ex_m2 = 2.
Proof. vm_compute. repeat split; reflexivity. Qed.
(* the carry paths are real: modulus 2^128 - 3 (no leading zero, window = 1 term): one term (m-1)^2 ends with
   hi_carry = 1; two terms in one accumulation (beyond the window) would end with hi_carry = 2 *)
Definition ex_m0 : list Z := [18446744073709551613; 18446744073709551615].
Definition ex_a0 : list Z := [18446744073709551612; 18446744073709551615].
Example C09_ex_hi_carry : mg_lz 2 (eval ex_m0) = 0
  /\ snd (longa_lincomb [(ex_a0, ex_a0)] ex_m0 (mg_neg_inv (eval ex_m0))) = 1
  /\ snd (longa_lincomb [(ex_a0, ex_a0); (ex_a0, ex_a0)] ex_m0 (mg_neg_inv (eval ex_m0))) = 2.
Proof. vm_compute. repeat split; reflexivity. Qed.
(* the table entries on these inputs *)
Example C09_ex_table : M9 "pow.boxed" false [ex_m2; ex_x; ex_e3; [131]] = S9 "pow.boxed" false [ex_m2; ex_x; ex_e3; [131]]
  /\ S9 "pow.boxed" false [ex_m2; ex_x; ex_e3; [131]] <> Unsupported.
Proof. vm_compute. split; [reflexivity | discriminate]. Qed.

(* ------------------------------------------------------------------ *)
(** * audit trailer: the statements as the kernel sees them, then the assumptions of every theorem
      (the checker matches the Print Assumptions verdicts in order, so nothing may be printed between them) *)
Check C09_ct_lookup_is_nth.
Check C09_boxed_lookup_is_nth.
Check C09_pow_ladder_given_monty_mul.
Check C09_pow_zero_bits.
Check C09_pow_full_given_monty_mul.
Check C09_multi_exp_array_given_monty_mul.
Check C09_multi_exp_slice_given_monty_mul.
Check C09_slice_is_array.
Check C09_monty_mul_value_level.
Check C09_boxed_pow_reduced_given_amm.
Check C09_amm_value_level.
Check C09_longa_exact.
Check C09_lincomb_window_bound.
Check C09_lincomb_count_bound.
Check C09_sub_mod_with_carry_correct.
Check C09_lincomb_fixed_correct.
Check C09_lincomb_boxed_is_fixed.
Check C09_param_rinv.
Check C09_param_mod_neg_inv.
Check C09_param_mod_leading_zeros.
Check C09_api_pow_fixed_correct.
Check C09_api_pow_boxed_correct.
Check C09_api_pow_agree.
Check C09_api_multiexp_correct.
Check C09_api_lincomb_correct.
Check C09_api_lincomb_agree.
Check C09_spec_powmod.
Check C09_tables_agree.
Check C09_table_keys.
Print Assumptions C09_ct_lookup_is_nth.
Print Assumptions C09_boxed_lookup_is_nth.
Print Assumptions C09_pow_ladder_given_monty_mul.
Print Assumptions C09_pow_zero_bits.
Print Assumptions C09_pow_full_given_monty_mul.
Print Assumptions C09_multi_exp_array_given_monty_mul.
Print Assumptions C09_multi_exp_slice_given_monty_mul.
Print Assumptions C09_slice_is_array.
Print Assumptions C09_monty_mul_value_level.
Print Assumptions C09_boxed_pow_reduced_given_amm.
Print Assumptions C09_amm_value_level.
Print Assumptions C09_longa_exact.
Print Assumptions C09_lincomb_window_bound.
Print Assumptions C09_lincomb_count_bound.
Print Assumptions C09_sub_mod_with_carry_correct.
Print Assumptions C09_lincomb_fixed_correct.
Print Assumptions C09_lincomb_boxed_is_fixed.
Print Assumptions C09_param_rinv.
Print Assumptions C09_param_mod_neg_inv.
Print Assumptions C09_param_mod_leading_zeros.
Print Assumptions C09_api_pow_fixed_correct.
Print Assumptions C09_api_pow_boxed_correct.
Print Assumptions C09_api_pow_agree.
Print Assumptions C09_api_multiexp_correct.
Print Assumptions C09_api_lincomb_correct.
Print Assumptions C09_api_lincomb_agree.
Print Assumptions C09_spec_powmod.
Print Assumptions C09_tables_agree.
Print Assumptions C09_table_keys.
