(** C04 — addition, subtraction, negation: exact result and exact carry/overflow report.
    Only statements, each closed by [exact] of a lemma from Proofs/, pinned by [Check]. 
    All statements quantify over every limb count (list length) and every word value. *)
From CB Require Import Model.Limbs Model.AddSub Proofs.WordP Proofs.LimbsP Proofs.AddSubP.
From Coq Require Import ZArith List.
Open Scope Z_scope.

(** carry-in primitive: exact for every carry word, including carries larger than one *)
Theorem C04_adc_word_exact : forall a b c r co,
  is_word a -> is_word b -> is_word c -> adc a b c = (r, co) ->
  r + B * co = a + b + c /\ is_word r /\ 0 <= co <= 2.
Proof. exact adc_exact. Qed.
Print Assumptions C04_adc_word_exact.

(** borrow-in primitive: the incoming borrow counts iff its top bit is set; outgoing borrow is 0 or MAX *)
Theorem C04_sbb_word_exact : forall a b bw r bo,
  is_word a -> is_word b -> is_word bw -> sbb a b bw = (r, bo) ->
  is_word r /\ ((bo = 0 /\ a - b - bin bw = r) \/ (bo = MAXW /\ a - b - bin bw = r - B)).
Proof. exact sbb_exact. Qed.
Print Assumptions C04_sbb_word_exact.

(** multiply-accumulate primitive: exact, the high word never overflows *)
Theorem C04_mac_word_exact : forall a b c carry lo hi,
  is_word a -> is_word b -> is_word c -> is_word carry -> mac a b c carry = (lo, hi) ->
  lo + B * hi = a + b * c + carry /\ is_word lo /\ is_word hi.
Proof. exact mac_exact. Qed.
Print Assumptions C04_mac_word_exact.

(** Uint::adc over any number of limbs *)
Theorem C04_uint_adc_exact : forall a b c r co,
  wf a -> wf b -> length a = length b -> is_word c -> uint_adc a b c = (r, co) ->
  eval r + Bn (length a) * co = eval a + eval b + c /\ wf r /\ length r = length a /\ is_word co.
Proof. exact uint_adc_spec. Qed.
Print Assumptions C04_uint_adc_exact.

(** Uint::sbb over any (non-zero) number of limbs *)
Theorem C04_uint_sbb_exact : forall a b bw r bo,
  wf a -> wf b -> length a = length b -> length a <> 0%nat -> is_word bw -> uint_sbb a b bw = (r, bo) ->
  eval r - Bn (length a) * bout bo = eval a - eval b - bin bw /\ wf r /\ length r = length a /\ is_borrow bo.
Proof. exact uint_sbb_spec. Qed.
Print Assumptions C04_uint_sbb_exact.

Theorem C04_wrapping_add : forall a b,
  wf a -> wf b -> length a = length b ->
  eval (uint_wrapping_add a b) = (eval a + eval b) mod Bn (length a) /\ wf (uint_wrapping_add a b)
  /\ length (uint_wrapping_add a b) = length a.
Proof. exact wrapping_add_spec. Qed.
Print Assumptions C04_wrapping_add.

(** checked forms are [Some] exactly when the true result fits *)
Theorem C04_checked_add : forall a b,
  wf a -> wf b -> length a = length b ->
  match uint_checked_add a b with
  | Some r => eval r = eval a + eval b /\ wf r /\ length r = length a
  | None => Bn (length a) <= eval a + eval b
  end.
Proof. exact checked_add_spec. Qed.
Print Assumptions C04_checked_add.

Theorem C04_checked_sub : forall a b,
  wf a -> wf b -> length a = length b ->
  match uint_checked_sub a b with
  | Some r => eval r = eval a - eval b /\ wf r /\ length r = length a
  | None => eval a < eval b
  end.
Proof. exact checked_sub_spec. Qed.
Print Assumptions C04_checked_sub.

Theorem C04_saturating_add : forall a b,
  wf a -> wf b -> length a = length b ->
  eval (uint_saturating_add a b) = Z.min (eval a + eval b) (Bn (length a) - 1).
Proof. exact saturating_add_spec. Qed.
Print Assumptions C04_saturating_add.

Theorem C04_saturating_sub : forall a b,
  wf a -> wf b -> length a = length b ->
  eval (uint_saturating_sub a b) = Z.max 0 (eval a - eval b).
Proof. exact saturating_sub_spec. Qed.
Print Assumptions C04_saturating_sub.

Theorem C04_carrying_neg : forall a r c,
  wf a -> uint_carrying_neg a = (r, c) ->
  eval r = (- eval a) mod Bn (length a) /\ wf r /\ length r = length a /\
  choice_to_bool c = (eval a =? 0).
Proof. exact carrying_neg_spec. Qed.
Print Assumptions C04_carrying_neg.

(** BoxedUint: operands of different precisions are zero-extended to the wider one *)
Theorem C04_boxed_adc_exact : forall a b c r co,
  wf a -> wf b -> is_word c -> boxed_adc a b c = (r, co) ->
  let n := Nat.max (length a) (length b) in
  eval r + Bn n * co = eval a + eval b + c /\ wf r /\ length r = n /\ is_word co.
Proof. exact boxed_adc_spec. Qed.
Print Assumptions C04_boxed_adc_exact.

Theorem C04_boxed_sbb_exact : forall a b bw r bo,
  wf a -> wf b -> is_word bw -> (length a <> 0 \/ length b <> 0)%nat -> boxed_sbb a b bw = (r, bo) ->
  let n := Nat.max (length a) (length b) in
  eval r - Bn n * bout bo = eval a - eval b - bin bw /\ wf r /\ length r = n /\ is_borrow bo.
Proof. exact boxed_sbb_spec. Qed.
Print Assumptions C04_boxed_sbb_exact.

(** non-vacuity: a 3-limb full-width carry propagation (MAX + 1) and a 0 - 1 borrow *)
Example C04_nonvacuous :
  uint_adc [MAXW; MAXW; MAXW] [1; 0; 0] 0 = ([0; 0; 0], 1) /\
  uint_sbb [0; 0; 0] [1; 0; 0] 0 = ([MAXW; MAXW; MAXW], MAXW) /\
  uint_checked_add [MAXW; MAXW] [1; 0] = None /\ uint_checked_sub [5; 7] [6; 7] = None.
Proof. vm_compute. repeat split; reflexivity. Qed.
