(** C10: modular inversion and gcd (safegcd / Bernstein-Yang, inv_mod2k, CRT inv_mod, Uint::gcd, Int wrappers,
    Montgomery inverters).  Statements only; all proofs are in Proofs/SafeGcd*P.v, InvMod2kP.v, LimbConvertP.v.
    PARTIAL: convergence of the divsteps iteration within iterations(f_bits, g_bits) jumps (Bernstein-Yang 2019,
    Theorem 11.2) is not proved; it is the named hypothesis of every `_partial` theorem, in one of three equivalent forms:
      [converged vartime boxed adj m a]   the driver of this very call ended with g = 0 (Some (d, f, true));
      [sg_converged boxed f g L = true]   the flag the model computes for (f, g) (implies the former: C10_converged_of_reported_flag);
      [conv_ok key args]                  the op "conv:<key>" of the model table reports 1 (the table theorem).
    ./check evaluates the flag on every generated case.  Everything else (is_some -> inverse correct, gcd preserved, limb
    arithmetic, normalisation, CRT, inv_mod2k) is proved outright. *)
From CB Require Import Model.Limbs Model.AddSub Model.SafeGcd Proofs.WordP Proofs.LimbsP Proofs.BitsP
  Proofs.SafeGcdArithP Proofs.SafeGcdJumpP Proofs.SafeGcdUnsatP Proofs.SafeGcdStepP Proofs.SafeGcdDivstepsP
  Proofs.SafeGcdCoreP Proofs.InvMod2kP Proofs.LimbConvertP Proofs.SafeGcdInvP Proofs.SafeGcdConvP Proofs.SafeGcdUintP
  Proofs.SafeGcdWrapP Proofs.SafeGcdTablesP Proofs.SafeGcdMainP.
From Coq Require Import ZArith Lia List Bool String.
Open Scope Z_scope.
Notation length := List.length.

Theorem C10_inv_mod2_62_correct :
  forall v : Z,
  0 <= v < P64 -> Z.odd v = true -> 0 <= inv_mod2_62 v < P62 /\ (v * inv_mod2_62 v) mod P62 = 1.
Proof. exact inv_mod2_62_correct. Qed.
Print Assumptions C10_inv_mod2_62_correct.

Theorem C10_spec_modinv_is_inverse :
  forall a m : Z, 0 < m -> 0 <= modinv a m < m /\ (a * modinv a m) mod m = Z.gcd a m mod m.
Proof. exact modinv_spec. Qed.
Print Assumptions C10_spec_modinv_is_inverse.

Theorem C10_spec_inverse_unique :
  forall m a c x y : Z,
  0 < m ->
  Z.gcd a m = 1 ->
  (a * x) mod m = c mod m -> (a * y) mod m = c mod m -> 0 <= x < m -> 0 <= y < m -> x = y.
Proof. exact inv_unique. Qed.
Print Assumptions C10_spec_inverse_unique.

Theorem C10_unsat_add :
  forall a b : list Z,
  wf62 a ->
  wf62 b ->
  length a = length b ->
  wf62 (u_add a b) /\
  length (u_add a b) = length a /\
  uval (u_add a b) = (uval a + uval b) mod M62 (length a).
Proof. exact u_add_spec. Qed.
Print Assumptions C10_unsat_add.

Theorem C10_unsat_mul :
  forall (a : list Z) (c : Z),
  wf62 a ->
  - P63 < c < P63 ->
  wf62 (u_mul a c) /\
  length (u_mul a c) = length a /\
  uval (u_mul a c) = (uval a * c) mod M62 (length a).
Proof. exact u_mul_spec. Qed.
Print Assumptions C10_unsat_mul.

Theorem C10_unsat_neg :
  forall a : list Z,
  wf62 a ->
  wf62 (u_neg a) /\
  length (u_neg a) = length a /\
  uval (u_neg a) = - uval a mod M62 (length a).
Proof. exact u_neg_spec. Qed.
Print Assumptions C10_unsat_neg.

Theorem C10_unsat_shr :
  forall a : list Z,
  wf62 a ->
  (0 < length a)%nat ->
  wf62 (u_shr a) /\
  length (u_shr a) = length a /\ sval (u_shr a) = sval a / P62.
Proof. exact u_shr_spec. Qed.
Print Assumptions C10_unsat_shr.

Theorem C10_unsat_is_negative :
  forall a : list Z, wf62 a -> a <> [] -> u_is_negative a = (sval a <? 0).
Proof. exact u_is_negative_sval. Qed.
Print Assumptions C10_unsat_is_negative.

Theorem C10_unsat_eq :
  forall a b : list Z,
  wf62 a -> wf62 b -> length a = length b -> u_eq a b = (sval a =? sval b).
Proof. exact u_eq_sval. Qed.
Print Assumptions C10_unsat_eq.

Theorem C10_from_uint_exact :
  forall (L : nat) (x : list Z),
  wf x ->
  64 * lenZ x <= 62 * Z.of_nat L ->
  wf62 (from_uint L x) /\ length (from_uint L x) = L /\ uval (from_uint L x) = eval x.
Proof. exact from_uint_spec. Qed.
Print Assumptions C10_from_uint_exact.

Theorem C10_to_uint_exact :
  forall (n : nat) (u : list Z),
  wf62 u ->
  64 * Z.of_nat n <= 62 * lenZ u ->
  wf (to_uint n u) /\ length (to_uint n u) = n /\ eval (to_uint n u) = uval u mod Bn n.
Proof. exact to_uint_spec. Qed.
Print Assumptions C10_to_uint_exact.

Theorem C10_unsat_roundtrip :
  forall (x : list Z) (n : nat),
  wf x -> length x = n -> to_uint n (from_uint (unsat_nlimbs n) x) = x.
Proof. exact unsat_roundtrip. Qed.
Print Assumptions C10_unsat_roundtrip.

Theorem C10_jump_matrix :
  forall f0 g0 delta d' t00 t01 t10 t11 : Z,
  0 <= f0 < P62 ->
  0 <= g0 < P62 ->
  Z.odd f0 = true \/ 0 < delta /\ Z.odd g0 = true ->
  Z.abs delta + 62 <= P62 ->
  jump f0 g0 delta = (d', (t00, t01, t10, t11)) ->
  exists f' g' : Z,
  t00 * f0 + t01 * g0 = P62 * f' /\
  t10 * f0 + t11 * g0 = P62 * g' /\
  Z.abs t00 + Z.abs t01 <= P62 /\
  Z.abs t10 + Z.abs t11 <= P62 /\
  t00 * t11 - t01 * t10 = P62 /\
  Z.even t00 = true /\ Z.even t01 = true /\ Z.odd f' = true /\ Z.abs d' <= Z.abs delta + 62.
Proof. exact jump_matrix_eq. Qed.
Print Assumptions C10_jump_matrix.

Theorem C10_jump_g_zero :
  forall f0 delta : Z, - P62 <= delta <= P62 -> jump f0 0 delta = (delta + 62, (P62, 0, 0, 1)).
Proof. exact jump_g0. Qed.
Print Assumptions C10_jump_g_zero.

Theorem C10_divstep_gcd_inv :
  forall F G delta Bd : Z,
  PRE F G delta ->
  Z.abs delta + 62 <= P62 ->
  Z.abs F <= Bd ->
  Z.abs G <= Bd ->
  let
  '(delta', (t00, t01, t10, t11)) := jump (F mod P62) (G mod P62) delta in
  exists F' G' : Z,
  t00 * F + t01 * G = P62 * F' /\
  t10 * F + t11 * G = P62 * G' /\
  Z.abs t00 + Z.abs t01 <= P62 /\
  Z.abs t10 + Z.abs t11 <= P62 /\
  (Z.odd F' = true \/ G' = 0) /\
  Z.abs F' <= Bd /\ Z.abs G' <= Bd /\ Z.gcd F' G' = Z.gcd F G /\ Z.abs delta' <= Z.abs delta + 62.
Proof. exact divstep_gcd_inv. Qed.
Print Assumptions C10_divstep_gcd_inv.

Theorem C10_fg_update :
  forall (f g : list Z) (t00 t01 t10 t11 F' G' : Z),
  wf62 f ->
  wf62 g ->
  length f = length g ->
  (0 < length f)%nat ->
  Z.abs t00 + Z.abs t01 <= P62 ->
  Z.abs t10 + Z.abs t11 <= P62 ->
  t00 * sval f + t01 * sval g = P62 * F' ->
  t10 * sval f + t11 * sval g = P62 * G' ->
  - M62 (length f) <= 2 * (P62 * F') < M62 (length f) ->
  - M62 (length f) <= 2 * (P62 * G') < M62 (length f) ->
  wf62 (fst (fg f g (t00, t01, t10, t11))) /\
  wf62 (snd (fg f g (t00, t01, t10, t11))) /\
  length (fst (fg f g (t00, t01, t10, t11))) = length f /\
  length (snd (fg f g (t00, t01, t10, t11))) = length f /\
  sval (fst (fg f g (t00, t01, t10, t11))) = F' /\ sval (snd (fg f g (t00, t01, t10, t11))) = G'.
Proof. exact fg_spec. Qed.
Print Assumptions C10_fg_update.

Theorem C10_de_update :
  forall (mL : list Z) (inverse m a A ub : Z),
  wf62 mL ->
  (0 < length mL)%nat ->
  sval mL = m ->
  0 < m ->
  Z.odd m = true ->
  4 * P62 * m <= M62 (length mL) ->
  (hd 0 mL * inverse) mod P62 = 1 ->
  m - 1 <= ub <= m ->
  forall (t00 t01 t10 t11 : Z) (d e : list Z) (F G F' G' : Z),
  wf62 d ->
  wf62 e ->
  length d = length mL ->
  length e = length mL ->
  Z.abs t00 + Z.abs t01 <= P62 ->
  Z.abs t10 + Z.abs t11 <= P62 ->
  t00 * F + t01 * G = P62 * F' ->
  t10 * F + t11 * G = P62 * G' ->
  -2 * m < sval d <= ub ->
  -2 * m < sval e <= ub ->
  cg m (sval d * a) (F * A) ->
  cg m (sval e * a) (G * A) ->
  let d' := fst (de mL inverse (t00, t01, t10, t11) d e) in
  let e' := snd (de mL inverse (t00, t01, t10, t11) d e) in
  wf62 d' /\
  wf62 e' /\
  length d' = length mL /\
  length e' = length mL /\
  -2 * m < sval d' <= ub /\
  -2 * m < sval e' <= ub /\ cg m (sval d' * a) (F' * A) /\ cg m (sval e' * a) (G' * A).
Proof. exact de_spec. Qed.
Print Assumptions C10_de_update.

Theorem C10_divstep_state_inv :
  forall (mL : list Z) (inverse m a A ub : Z) (L : nat),
  wf62 mL ->
  length mL = L ->
  (0 < L)%nat ->
  sval mL = m ->
  0 < m ->
  Z.odd m = true ->
  4 * P62 * m <= M62 L ->
  (hd 0 mL * inverse) mod P62 = 1 ->
  m - 1 <= ub <= m ->
  forall G0 Bd : Z,
  2 * P62 * Bd < M62 L ->
  forall (K delta : Z) (d e f g : list Z) (delta' : Z) (d' e' f' g' : list Z),
  K + 62 <= P62 ->
  FGI G0 Bd K L delta f g ->
  DEI m a A ub L d e f g ->
  divstep1 mL inverse (delta, d, e, f, g) = (delta', d', e', f', g') ->
  FGI G0 Bd (K + 62) L delta' f' g' /\ DEI m a A ub L d' e' f' g'.
Proof. exact divstep1_de. Qed.
Print Assumptions C10_divstep_state_inv.

Theorem C10_divsteps_loop_inv :
  forall (mL : list Z) (inverse m a A ub : Z) (L : nat),
  wf62 mL ->
  length mL = L ->
  (0 < L)%nat ->
  sval mL = m ->
  0 < m ->
  Z.odd m = true ->
  4 * P62 * m <= M62 L ->
  (hd 0 mL * inverse) mod P62 = 1 ->
  m - 1 <= ub <= m ->
  forall G0 Bd : Z,
  2 * P62 * Bd < M62 L ->
  forall (n : nat) (K delta : Z) (d e f g : list Z) (delta' : Z) (d' e' f' g' : list Z),
  K + 62 * Z.of_nat n <= P62 ->
  FGI G0 Bd K L delta f g ->
  DEI m a A ub L d e f g ->
  divsteps_loop n mL inverse (delta, d, e, f, g) = (delta', d', e', f', g') ->
  FGI G0 Bd (K + 62 * Z.of_nat n) L delta' f' g' /\ DEI m a A ub L d' e' f' g'.
Proof. exact divsteps_loop_de. Qed.
Print Assumptions C10_divsteps_loop_inv.

Theorem C10_final_normalisation :
  forall (mL v : list Z) (negate : bool) (m ub : Z),
  wf62 mL ->
  wf62 v ->
  length v = length mL ->
  (0 < length mL)%nat ->
  sval mL = m ->
  0 < m ->
  8 * m <= M62 (length mL) ->
  m - 1 <= ub <= m ->
  -2 * m < sval v <= ub ->
  let r := sg_norm mL v negate in
  wf62 r /\
  length r = length mL /\
  0 <= sval r <= ub /\ u_is_negative r = false /\ cg m (sval r) (if negate then - sval v else sval v).
Proof. exact sg_norm_spec. Qed.
Print Assumptions C10_final_normalisation.

Theorem C10_safegcd_inv_partial :
  forall (dbg vartime boxed : bool) (adj m a : list Z) (n : nat),
  wf m ->
  wf a ->
  wf adj ->
  length m = n ->
  length a = n ->
  length adj = n ->
  (0 < n)%nat ->
  Z.of_nat n <= 2 ^ 32 ->
  Z.odd (eval m) = true ->
  eval adj < eval m ->
  converged vartime boxed adj m a ->
  exists (x : list Z) (is_some : bool),
  sg_inv dbg vartime boxed adj m a = SgOk x is_some /\
  wf x /\
  length x = n /\
  (is_some = true <-> Z.gcd (eval a) (eval m) = 1) /\
  (is_some = true -> (eval a * eval x) mod eval m = eval adj mod eval m /\ 0 <= eval x < eval m).
Proof. exact safegcd_inv_partial. Qed.
Print Assumptions C10_safegcd_inv_partial.

Theorem C10_safegcd_inv_is_some_partial :
  forall (dbg vartime boxed : bool) (adj m a : list Z) (n : nat),
  wf m ->
  wf a ->
  wf adj ->
  length m = n ->
  length a = n ->
  length adj = n ->
  (0 < n)%nat ->
  Z.of_nat n <= 2 ^ 32 ->
  Z.odd (eval m) = true ->
  eval adj <= eval m ->
  converged vartime boxed adj m a ->
  exists (x : list Z) (is_some : bool),
  sg_inv dbg vartime boxed adj m a = SgOk x is_some /\
  (is_some = true <-> Z.gcd (eval a) (eval m) = 1).
Proof. exact safegcd_inv_is_some_partial. Qed.
Print Assumptions C10_safegcd_inv_is_some_partial.

Theorem C10_safegcd_inv_sound :
  forall (dbg vartime boxed : bool) (adj m a : list Z) (n : nat) (x : list Z),
  wf m ->
  wf a ->
  wf adj ->
  length m = n ->
  length a = n ->
  length adj = n ->
  (0 < n)%nat ->
  Z.of_nat n <= 2 ^ 32 ->
  Z.odd (eval m) = true ->
  eval adj < eval m ->
  sg_inv dbg vartime boxed adj m a = SgOk x true ->
  Z.gcd (eval a) (eval m) = 1 /\
  (eval a * eval x) mod eval m = eval adj mod eval m /\
  0 <= eval x < eval m /\ wf x /\ length x = n.
Proof. exact safegcd_inv_sound. Qed.
Print Assumptions C10_safegcd_inv_sound.

Theorem C10_safegcd_gcd_partial :
  forall (dbg vartime boxed : bool) (f g : list Z) (n : nat),
  wf f ->
  wf g ->
  length f = n ->
  length g = n ->
  (0 < n)%nat ->
  Z.of_nat n <= 2 ^ 32 ->
  Z.odd (eval f) = true \/ Z.odd (eval g) = true \/ eval g = 0 ->
  gcd_converged vartime boxed f g ->
  sg_gcd dbg vartime boxed f g = SgOk (to_limbs n (Z.gcd (eval f) (eval g))) true.
Proof. exact safegcd_gcd_partial. Qed.
Print Assumptions C10_safegcd_gcd_partial.

Theorem C10_gcd_partial :
  forall (dbg boxed : bool) (a b : list Z) (n : nat),
  wf a ->
  wf b ->
  length a = n ->
  length b = n ->
  (0 < n)%nat ->
  Z.of_nat n <= 2 ^ 32 ->
  uint_gcd_converged boxed a b = true ->
  uint_gcd dbg boxed a b = SgOk (to_limbs n (Z.gcd (eval a) (eval b))) true.
Proof. exact gcd_partial. Qed.
Print Assumptions C10_gcd_partial.

Theorem C10_gcd_vartime_partial :
  forall (a b : list Z) (n : nat) (dbg boxed : bool),
  wf a ->
  wf b ->
  length a = n ->
  length b = n ->
  (0 < n)%nat ->
  Z.of_nat n <= 2 ^ 32 ->
  (if Z.odd (eval a) then sg_converged boxed a b (unsat_nlimbs n) else uint_gcd_converged boxed a b) =
  true -> uint_gcd_vartime dbg boxed a b = SgOk (to_limbs n (Z.gcd (eval a) (eval b))) true.
Proof. exact uint_gcd_vartime_partial. Qed.
Print Assumptions C10_gcd_vartime_partial.

Theorem C10_gcd_ct_vartime_agree_partial :
  forall (dbg boxed : bool) (a b : list Z) (n : nat),
  wf a ->
  wf b ->
  length a = n ->
  length b = n ->
  (0 < n)%nat ->
  Z.of_nat n <= 2 ^ 32 ->
  uint_gcd_converged boxed a b = true ->
  conv_gcd_vt boxed a b = true -> uint_gcd_vartime dbg boxed a b = uint_gcd dbg boxed a b.
Proof. exact gcd_ct_vartime_agree_partial. Qed.
Print Assumptions C10_gcd_ct_vartime_agree_partial.

Theorem C10_inv_mod2k_correct :
  forall (n : nat) (a k : Z),
  (0 < n)%nat ->
  0 <= a ->
  0 <= k <= 64 * Z.of_nat n ->
  inv_mod2k_ct n a k = inv_mod2k_vartime n a k /\
  inv_mod2k_full_vartime n a k =
  (if snd (inv_mod2k_vartime n a k) then Some (fst (inv_mod2k_vartime n a k)) else None) /\
  (snd (inv_mod2k_vartime n a k) = true <-> Z.gcd a (2 ^ k) = 1) /\
  (snd (inv_mod2k_vartime n a k) = true ->
  let x := fst (inv_mod2k_vartime n a k) in
  0 <= x < 2 ^ k /\ (a * x) mod 2 ^ k = 1 mod 2 ^ k /\ x = modinv a (2 ^ k)).
Proof. exact inv_mod2k_correct. Qed.
Print Assumptions C10_inv_mod2k_correct.

Theorem C10_inv_mod_crt_recombination :
  forall s k ai b mi av T mv : Z,
  Z.odd s = true ->
  0 < s ->
  0 <= k ->
  mv = s * 2 ^ k ->
  2 <= mv ->
  0 <= ai <= s ->
  0 <= T < 2 ^ k ->
  cg s (av * ai) 1 ->
  cg (2 ^ k) (av * b) 1 ->
  cg (2 ^ k) (s * mi) 1 ->
  cg (2 ^ k) T ((b - ai) * mi) -> 0 <= ai + s * T < mv /\ cg mv (av * (ai + s * T)) 1.
Proof. exact crt_value. Qed.
Print Assumptions C10_inv_mod_crt_recombination.

Theorem C10_inv_mod_partial :
  forall (dbg boxed : bool) (a m : list Z) (n : nat),
  wf a ->
  wf m ->
  length a = n ->
  length m = n ->
  (0 < n)%nat ->
  Z.of_nat n <= 2 ^ 32 ->
  0 < eval m ->
  conv_inv boxed (odd_part m) a = true ->
  exists (x : list Z) (is_some : bool),
  uint_inv_mod dbg boxed a m = SgOk x is_some /\
  wf x /\
  length x = n /\
  (is_some = true <-> Z.gcd (eval a) (eval m) = 1) /\
  (is_some = true -> 2 <= eval m -> (eval a * eval x) mod eval m = 1 /\ 0 <= eval x < eval m).
Proof. exact inv_mod_partial. Qed.
Print Assumptions C10_inv_mod_partial.

Theorem C10_int_inv_sign_fix :
  forall (mv sa : Z) (n : nat),
  2 <= mv < Bn n ->
  Z.gcd (Z.abs sa) mv = 1 ->
  (if sa <? 0 then (mv - modinv (Z.abs sa) mv) mod Bn n else modinv (Z.abs sa) mv) = modinv sa mv.
Proof. exact int_fix_value. Qed.
Print Assumptions C10_int_inv_sign_fix.

Theorem C10_int_inv_sign_wrapper :
  forall (r : sgres) (m : list Z) (n : nat) (sa : Z),
  wf m ->
  length m = n ->
  2 <= eval m ->
  out_sg r = spec_inv n (Z.abs sa) (eval m) ->
  out_sg (int_fix_sign (sa <? 0) m r) = spec_inv n sa (eval m).
Proof. exact out_int_fix. Qed.
Print Assumptions C10_int_inv_sign_wrapper.

Theorem C10_monty_inv_partial :
  forall (dbg vartime boxed : bool) (a m : list Z) (n : nat),
  wf a ->
  wf m ->
  length m = n ->
  (0 < n)%nat ->
  Z.of_nat n <= 2 ^ 32 ->
  Z.odd (eval m) = true ->
  1 < eval m ->
  conv_inv boxed m (monty_arg a m) = true ->
  out_sg (monty_inv dbg vartime boxed a m) = spec_inv n (eval a) (eval m).
Proof. exact out_monty_inv. Qed.
Print Assumptions C10_monty_inv_partial.

Theorem C10_converged_of_reported_flag :
  forall (vartime boxed : bool) (adj m a : list Z),
  sg_converged boxed m a (unsat_nlimbs (length m)) = true ->
  converged vartime boxed adj m a.
Proof. exact converged_of_flag. Qed.
Print Assumptions C10_converged_of_reported_flag.

Theorem C10_gcd_converged_of_reported_flag :
  forall (vartime boxed : bool) (f g : list Z),
  sg_converged boxed f g (unsat_nlimbs (length f)) = true ->
  gcd_converged vartime boxed f g.
Proof. exact gcd_converged_of_flag. Qed.
Print Assumptions C10_gcd_converged_of_reported_flag.

Theorem C10_convergence_independent_of_de :
  forall (boxed : bool) (e0 : list Z) (inv0 : Z) (vartime : bool) (e f0 g : list Z) (inverse : Z),
  (exists d f : list Z, sg_core false boxed e0 f0 g inv0 = Some (d, f, true)) ->
  sg_conv vartime boxed e f0 g inverse.
Proof. exact sg_conv_of_flag. Qed.
Print Assumptions C10_convergence_independent_of_de.

Theorem C10_tables_agree_partial :
  forall (k : string) (dbg : bool) (a : list (list Z)),
  In k safegcd_keys ->
  wf_args a ->
  typed10 a ->
  modulus_nonzero k a -> conv_ok k a -> S10 k dbg a <> Unsupported -> M10 k dbg a = S10 k dbg a.
Proof. exact safegcd_tables_agree_partial. Qed.
Print Assumptions C10_tables_agree_partial.

Theorem C10_table_keys :
  safegcd_keys =
  ["uint.inv_odd_mod"; "uint.inv_odd_mod_vartime"; "uint.inv_adj"; "uint.inv_adj_vartime";
  "uint.inv_mod"; "uint.inv_odd_is_some"; "uint.inv_is_some"; "boxed.inv_odd_is_some";
  "boxed.inv_is_some"; "int.inv_odd_is_some"; "int.inv_is_some"; "uint.inv_mod2k";
  "uint.inv_mod2k_vartime"; "uint.inv_mod2k_full64"; "uint.gcd"; "uint.gcd_vartime"; "odd.gcd_vartime";
  "uint.safegcd_converged"; "uint.gcd_converged"; "boxed.gcd_converged"; "int.inv_odd_mod";
  "int.inv_mod"; "int.gcd"; "int.gcd_vartime"; "int.gcd_uint"; "int.gcd_uint_vartime"; "uint.gcd_int";
  "uint.gcd_int_vartime"; "boxed.inv_odd_mod"; "boxed.inv_odd_mod_vartime"; "boxed.inv_mod";
  "boxed.inv_mod2k"; "boxed.inv_mod2k_vartime"; "boxed.inv_mod2k_full64"; "boxed.gcd";
  "boxed.gcd_vartime"; "boxed_odd.gcd"; "boxed_odd.gcd_vartime"; "boxed.safegcd_converged";
  "monty.inv"; "monty.inv_vartime"; "boxedmonty.inv"; "boxedmonty.inv_vartime"].
Proof. exact safegcd_keys_eq. Qed.
Print Assumptions C10_table_keys.

Theorem C10_inv_mod_zero_modulus_original_refuted :
  exists a m : list Z,
  uint_inv_mod_original false false a m = SgPanic /\
  out_sg (uint_inv_mod false false a m) = NoneV /\ Z.gcd (eval a) (eval m) <> 1.
Proof. exact inv_mod_zero_modulus_original_refuted. Qed.
Print Assumptions C10_inv_mod_zero_modulus_original_refuted.

(* ---- non-vacuity: concrete multi-limb values, evaluated by vm_compute ---- *)
(* 2 limbs: m = 7 * 2^64 + 13 (odd), a = 3 * 2^64 + 5: the reported flag is 1, an inverse is returned, and it is one *)
Example C10_ex_inv_two_limbs :
  sg_converged false [13; 7] [5; 3] (unsat_nlimbs 2) = true /\
  sg_inv true false false (ones_limbs 2) [13; 7] [5; 3] = SgOk [4611686018427387912; 5] true /\
  (eval [5; 3] * eval [4611686018427387912; 5]) mod eval [13; 7] = 1 /\ eval [4611686018427387912; 5] < eval [13; 7].
Proof. vm_compute. repeat split; reflexivity. Qed.
(* a non-invertible input: gcd(3 * 5, 5 * (2^64 + 1)) = 5 *)
Example C10_ex_not_invertible :
  sg_converged false [5; 5] [15; 0] (unsat_nlimbs 2) = true /\
  sg_inv true true false (ones_limbs 2) [5; 5] [15; 0] = SgOk [6148914691236517209; 3] false /\ Z.gcd (eval [15; 0]) (eval [5; 5]) = 5.
Proof. vm_compute. repeat split; reflexivity. Qed.
(* Uint::gcd with a common power of two, 3 limbs: gcd(6 * 2^64, 4 * 2^128 + 10 * 2^64) = 2 * 2^64 *)
Example C10_ex_gcd_three_limbs :
  uint_gcd_converged false [0; 6; 0] [0; 10; 4] = true /\
  uint_gcd true false [0; 6; 0] [0; 10; 4] = SgOk [0; 2; 0] true /\ Z.gcd (eval [0; 6; 0]) (eval [0; 10; 4]) = eval [0; 2; 0].
Proof. vm_compute. repeat split; reflexivity. Qed.
Example C10_ex_gcd_zeros : uint_gcd true false [0; 0] [0; 0] = SgOk [0; 0] true /\ uint_gcd true false [0; 0] [0; 9] = SgOk [0; 9] true.
Proof. vm_compute. split; reflexivity. Qed.
(* even modulus 8 * 2^64 through the table: the inverse of 3, and a value sharing the factor 2 *)
Example C10_ex_table_inv_mod :
  conv_ok "uint.inv_mod" [[3; 0]; [0; 8]] /\
  M10 "uint.inv_mod" true [[3; 0]; [0; 8]] = Val [[12297829382473034411; 2]] /\
  S10 "uint.inv_mod" true [[3; 0]; [0; 8]] = Val [[12297829382473034411; 2]] /\
  (3 * eval [12297829382473034411; 2]) mod eval [0; 8] = 1 /\
  M10 "uint.inv_mod" true [[6; 0]; [0; 8]] = NoneV.
Proof. vm_compute. repeat split; reflexivity. Qed.
(* the hypotheses of the table theorem are satisfiable and it yields the concrete equation: gcd(-12, 18) = 6 *)
Example C10_ex_table_theorem_applies :
  M10 "int.gcd" false [[18446744073709551604; 18446744073709551615]; [18; 0]] = Val [[6; 0]].
Proof.
  rewrite (C10_tables_agree_partial "int.gcd" false [[18446744073709551604; 18446744073709551615]; [18; 0]]).
  - vm_compute. reflexivity.
  - rewrite safegcd_keys_eq. cbn. tauto.
  - unfold wf_args, wf. repeat (apply Forall_cons || apply Forall_nil); vm_compute; split; congruence.
  - vm_compute. discriminate.
  - intros [H|H]; discriminate.
  - vm_compute. reflexivity.
  - vm_compute. discriminate.
Qed.
