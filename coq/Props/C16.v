(** C16 -- byte, hex, word and primitive conversions are lossless, positional and strict.
    Only statements, each closed by [exact] of a lemma from Proofs/Conv*P.v. All statements quantify over
    every limb count (list length), every word / byte value and every string length.
    Notation: [eval] little-endian limbs -> Z, [evalb b] little-endian digits in base b -> Z,
    [wfd b] "all digits in [0, b)", byte and hex strings are lists of byte values. *)
From CB Require Import Model.Limbs Model.Conv Proofs.WordP Proofs.LimbsP Proofs.ConvDigitsP Proofs.ConvBytesP
  Proofs.ConvHexP Proofs.ConvBoxedP Proofs.ConvCopyP Proofs.ConvP.
From Coq Require Import ZArith List.
Import ListNotations.
Open Scope Z_scope.
Open Scope list_scope.

(** the branch-free i16 nibble decoder, on ALL 256 byte values: the digit for [0-9A-Fa-f], 0xFFFF otherwise
    (in particular for '/', ':', '@', 'G', '`', 'g' and every byte >= 0x80) *)
Theorem C16_decode_nibble_all_bytes : forall c, 0 <= c < 256 ->
  decode_nibble c = match hexval c with Some d => d | None => 65535 end.
Proof. exact decode_nibble_spec. Qed.
Print Assumptions C16_decode_nibble_all_bytes.

(** ... and none of its intermediate i16 values overflows (so debug and release builds agree) *)
Theorem C16_decode_nibble_no_i16_overflow : forall c, 0 <= c < 256 -> nibble_i16_ok c = true.
Proof. exact decode_nibble_no_overflow. Qed.
Print Assumptions C16_decode_nibble_no_i16_overflow.

(** decode_hex_byte on all 65536 character pairs: error word 0 and byte 16 h + l exactly for two hex digits *)
Theorem C16_decode_hex_byte : forall c0 c1 r e, 0 <= c0 < 256 -> 0 <= c1 < 256 -> decode_hex_byte c0 c1 = (r, e) ->
  0 <= r < 256 /\
  match hexval c0, hexval c1 with
  | Some h, Some l => r = 16 * h + l /\ e = 0
  | _, _ => 0 < e
  end.
Proof. exact decode_hex_byte_spec. Qed.
Print Assumptions C16_decode_hex_byte.

(** positional: big-endian byte i of the 8n-byte encoding is floor(x / 256^(8n-1-i)) mod 256 *)
Theorem C16_be_positional : forall ls i, wf ls -> (i < 8 * length ls)%nat ->
  nth i (uint_to_be_bytes ls) 0 = (eval ls / 256 ^ (Z.of_nat (8 * length ls) - 1 - Z.of_nat i)) mod 256.
Proof. exact be_positional. Qed.
Print Assumptions C16_be_positional.

Theorem C16_le_positional : forall ls i, wf ls -> (i < 8 * length ls)%nat ->
  nth i (uint_to_le_bytes ls) 0 = (eval ls / 256 ^ Z.of_nat i) mod 256.
Proof. exact le_positional. Qed.
Print Assumptions C16_le_positional.

Theorem C16_be_is_reversed_le : forall ls, uint_to_be_bytes ls = rev (uint_to_le_bytes ls).
Proof. exact be_le_mirror. Qed.
Print Assumptions C16_be_is_reversed_le.

(** the "value of a big-endian digit string" (Horner form) used by the specification table is the positional value *)
Theorem C16_horner_is_positional_value : forall b ds, horner b ds = evalb b (rev ds).
Proof. exact horner_evalb. Qed.
Print Assumptions C16_horner_is_positional_value.

(** decoders: accepted exactly at the stated size; the value is the positional value of the bytes *)
Theorem C16_from_be_slice : forall n bs r, wfd 256 bs -> uint_from_be_slice n bs = Some r ->
  length bs = (8 * n)%nat /\ wf r /\ length r = n /\ eval r = evalb 256 (rev bs).
Proof. exact from_be_slice_spec. Qed.
Print Assumptions C16_from_be_slice.

Theorem C16_from_le_slice : forall n bs r, wfd 256 bs -> uint_from_le_slice n bs = Some r ->
  length bs = (8 * n)%nat /\ wf r /\ length r = n /\ eval r = evalb 256 bs.
Proof. exact from_le_slice_spec. Qed.
Print Assumptions C16_from_le_slice.

Theorem C16_from_be_slice_strict : forall n bs, uint_from_be_slice n bs = None <-> length bs <> (8 * n)%nat.
Proof. exact from_be_slice_len. Qed.
Print Assumptions C16_from_be_slice_strict.

Theorem C16_from_le_slice_strict : forall n bs, uint_from_le_slice n bs = None <-> length bs <> (8 * n)%nat.
Proof. exact from_le_slice_len. Qed.
Print Assumptions C16_from_le_slice_strict.

(** mutually inverse, both directions, both byte orders *)
Theorem C16_be_roundtrip : forall ls, wf ls -> uint_from_be_slice (length ls) (uint_to_be_bytes ls) = Some ls.
Proof. exact be_roundtrip. Qed.
Print Assumptions C16_be_roundtrip.

Theorem C16_le_roundtrip : forall ls, wf ls -> uint_from_le_slice (length ls) (uint_to_le_bytes ls) = Some ls.
Proof. exact le_roundtrip. Qed.
Print Assumptions C16_le_roundtrip.

Theorem C16_be_roundtrip_bytes : forall n bs r, wfd 256 bs -> uint_from_be_slice n bs = Some r -> uint_to_be_bytes r = bs.
Proof. exact be_roundtrip_bytes. Qed.
Print Assumptions C16_be_roundtrip_bytes.

Theorem C16_le_roundtrip_bytes : forall n bs r, wfd 256 bs -> uint_from_le_slice n bs = Some r -> uint_to_le_bytes r = bs.
Proof. exact le_roundtrip_bytes. Qed.
Print Assumptions C16_le_roundtrip_bytes.

(** strict hex decoding (Uint / Int from_be_hex, from_le_hex): exactly three outcomes, characterised by
    the length and by "every character is a hex digit"; the value is positional *)
Theorem C16_hex_decode_strict_be : forall n cs, wfd 256 cs ->
  match uint_from_be_hex n cs with
  | HexLen => length cs <> (16 * n)%nat
  | HexInvalid => length cs = (16 * n)%nat /\ hexvals cs = None
  | HexOk r => length cs = (16 * n)%nat /\
               exists ds, hexvals cs = Some ds /\ wf r /\ length r = n /\ eval r = evalb 16 (rev ds)
  end.
Proof. exact from_be_hex_spec. Qed.
Print Assumptions C16_hex_decode_strict_be.

Theorem C16_hex_decode_strict_le : forall n cs, wfd 256 cs ->
  match uint_from_le_hex n cs with
  | HexLen => length cs <> (16 * n)%nat
  | HexInvalid => length cs = (16 * n)%nat /\ hexvals cs = None
  | HexOk r => length cs = (16 * n)%nat /\
               exists ds, hexvals cs = Some ds /\ wf r /\ length r = n /\ eval r = evalb 256 (nib_pairs ds)
  end.
Proof. exact from_le_hex_spec. Qed.
Print Assumptions C16_hex_decode_strict_le.

(** Display / LowerHex / UpperHex / Binary are positional, and hex formatting (either case) is inverted by from_be_hex *)
Theorem C16_fmt_hex_positional : forall u ls i, wf ls -> (i < 16 * length ls)%nat ->
  nth i (uint_fmt_hex u ls) 0 = hexchar u ((eval ls / 16 ^ (Z.of_nat (16 * length ls) - 1 - Z.of_nat i)) mod 16).
Proof. exact fmt_hex_positional. Qed.
Print Assumptions C16_fmt_hex_positional.

Theorem C16_fmt_bin_positional : forall ls i, wf ls -> (i < 64 * length ls)%nat ->
  nth i (uint_fmt_bin ls) 0 = 48 + (eval ls / 2 ^ (Z.of_nat (64 * length ls) - 1 - Z.of_nat i)) mod 2.
Proof. exact fmt_bin_positional. Qed.
Print Assumptions C16_fmt_bin_positional.

Theorem C16_hex_roundtrip : forall u ls, wf ls -> uint_from_be_hex (length ls) (uint_fmt_hex u ls) = HexOk ls.
Proof. exact hex_roundtrip. Qed.
Print Assumptions C16_hex_roundtrip.

(** BoxedUint::from_be_slice / from_le_slice, closed form for every precision >= 0 and every byte string:
    InputSize exactly when the input is longer than the precision rounded up to bytes, Precision exactly
    when the value is >= 2^bits_precision, otherwise the value at the precision rounded up to limbs *)
Theorem C16_boxed_decode_err_iff : forall (be : bool) bs p, wfd 256 bs -> 0 <= p ->
  let v := evalb 256 (if be then rev bs else bs) in
  boxed_from_slice be bs p =
    if Nat.eqb (length bs) 0 && (p =? 0) then Val [[0]]
    else if (p + 7) / 8 <? Z.of_nat (length bs) then ErrV E_InputSize
    else if 2 ^ p <=? v then ErrV E_Precision
    else Val [to_limbs (limbs_for_precision p) v].
Proof. exact boxed_from_slice_spec. Qed.
Print Assumptions C16_boxed_decode_err_iff.

Theorem C16_boxed_be_roundtrip : forall ls, wf ls -> (1 <= length ls)%nat ->
  boxed_from_slice true (uint_to_be_bytes ls) (64 * Z.of_nat (length ls)) = Val [ls].
Proof. exact boxed_be_roundtrip. Qed.
Print Assumptions C16_boxed_be_roundtrip.

(** bits_precision < bits() (the precision test of the boxed decoders) iff the value is >= 2^precision *)
Theorem C16_boxed_bits_test : forall ls p, wf ls -> 0 <= p -> (p <? boxed_bits ls) = (2 ^ p <=? eval ls).
Proof. exact bits_spec. Qed.
Print Assumptions C16_boxed_bits_test.

(** concat / split: pure limb concatenation, mutually inverse, value = lo + 2^(64 L) hi *)
Theorem C16_concat : forall lo hi,
  uint_concat_mixed lo hi (length lo + length hi) = lo ++ hi /\
  eval (uint_concat_mixed lo hi (length lo + length hi)) = eval lo + Bn (length lo) * eval hi.
Proof. exact concat_spec. Qed.
Print Assumptions C16_concat.

Theorem C16_split : forall a l lo hi, wf a -> (l <= length a)%nat -> uint_split_mixed a l (length a - l) = (lo, hi) ->
  length lo = l /\ length hi = (length a - l)%nat /\ wf lo /\ wf hi /\
  eval lo = eval a mod Bn l /\ eval hi = eval a / Bn l /\ lo ++ hi = a.
Proof. exact split_spec. Qed.
Print Assumptions C16_split.

Theorem C16_split_concat_inverse : forall lo hi, uint_split_mixed (lo ++ hi) (length lo) (length hi) = (lo, hi).
Proof. exact split_concat. Qed.
Print Assumptions C16_split_concat_inverse.

Theorem C16_concat_split_inverse : forall a l lo hi, (l <= length a)%nat ->
  uint_split_mixed a l (length a - l) = (lo, hi) -> uint_concat_mixed lo hi (length lo + length hi) = a.
Proof. exact concat_split. Qed.
Print Assumptions C16_concat_split_inverse.

(** resize: value modulo 2^(64 T) (so preserved when widening) *)
Theorem C16_resize : forall a t, wf a ->
  wf (uint_resize a t) /\ length (uint_resize a t) = t /\ eval (uint_resize a t) = eval a mod Bn t.
Proof. exact uint_resize_spec. Qed.
Print Assumptions C16_resize.

(** Int::resize: the signed value modulo 2^(64 T); widening preserves the signed value (sign extension),
    narrowing keeps the low limbs *)
Theorem C16_int_resize : forall a t, wf a -> (1 <= length a)%nat ->
  wf (int_resize a t) /\ length (int_resize a t) = t /\ eval (int_resize a t) = seval a mod Bn t.
Proof. exact int_resize_spec. Qed.
Print Assumptions C16_int_resize.

Theorem C16_int_resize_sign_extends : forall a t, wf a -> (1 <= length a <= t)%nat -> seval (int_resize a t) = seval a.
Proof. exact int_resize_widen. Qed.
Print Assumptions C16_int_resize_sign_extends.

Theorem C16_int_resize_truncates : forall a t, wf a -> (1 <= length a)%nat -> (t <= length a)%nat ->
  eval (int_resize a t) = eval a mod Bn t.
Proof. exact int_resize_narrow. Qed.
Print Assumptions C16_int_resize_truncates.

(** BoxedUint::widen / shorten: panic exactly outside the documented range, otherwise value preserved /
    reduced modulo the new width, precision rounded up to limbs *)
Theorem C16_widen : forall a p r, wf a -> (1 <= length a)%nat -> boxed_widen a p = Some r ->
  64 * Z.of_nat (length a) <= p /\ wf r /\ length r = limbs_for_precision p /\ eval r = eval a.
Proof. exact boxed_widen_spec. Qed.
Print Assumptions C16_widen.

Theorem C16_widen_panics_iff : forall a p, (1 <= length a)%nat -> boxed_widen a p = None <-> p < 64 * Z.of_nat (length a).
Proof. exact boxed_widen_panics. Qed.
Print Assumptions C16_widen_panics_iff.

Theorem C16_shorten : forall a p r, wf a -> 1 <= p -> boxed_shorten a p = Some r ->
  p <= 64 * Z.of_nat (length a) /\ wf r /\ length r = limbs_for_precision p /\
  eval r = eval a mod Bn (limbs_for_precision p).
Proof. exact boxed_shorten_spec. Qed.
Print Assumptions C16_shorten.

Theorem C16_shorten_panics_iff : forall a p, 1 <= p -> boxed_shorten a p = None <-> 64 * Z.of_nat (length a) < p.
Proof. exact boxed_shorten_panics. Qed.
Print Assumptions C16_shorten_panics_iff.

(** primitive conversions *)
Theorem C16_from_small_prim : forall n v r, is_word v -> uint_from_small n v = Some r ->
  (1 <= n)%nat /\ wf r /\ length r = n /\ eval r = v.
Proof. exact uint_from_small_spec. Qed.
Print Assumptions C16_from_small_prim.

Theorem C16_from_u128 : forall n v r, 0 <= v < B * B -> uint_from_u128 n v = Some r ->
  (2 <= n)%nat /\ wf r /\ length r = n /\ eval r = v.
Proof. exact uint_from_u128_spec. Qed.
Print Assumptions C16_from_u128.

Theorem C16_from_u128_panics_iff : forall n v, uint_from_u128 n v = None <-> (n < 2)%nat.
Proof. exact uint_from_u128_panics. Qed.
Print Assumptions C16_from_u128_panics_iff.

Theorem C16_u128_roundtrip : forall v, 0 <= v < B * B ->
  match uint_from_u128 2 v with Some r => u128_of_limbs r = v | None => False end.
Proof. exact u128_roundtrip. Qed.
Print Assumptions C16_u128_roundtrip.

Theorem C16_int_from_small_prim : forall k n v r, 1 <= k <= 64 -> 0 <= v < 2 ^ k -> int_from_small k n v = Some r ->
  (1 <= n)%nat /\ wf r /\ length r = n /\ eval r = sp_signed k v mod Bn n.
Proof. exact int_from_small_spec. Qed.
Print Assumptions C16_int_from_small_prim.

(** from_i128: panics exactly for fewer than two limbs; otherwise the two's complement encoding of the signed
    value at the target width, and the signed value is preserved *)
Theorem C16_int_from_i128 : forall n v r, 0 <= v < 2 ^ 128 -> int_from_i128 n v = Some r ->
  (2 <= n)%nat /\ wf r /\ length r = n /\ eval r = sp_signed 128 v mod Bn n.
Proof. exact int_from_i128_spec. Qed.
Print Assumptions C16_int_from_i128.

Theorem C16_int_from_i128_panics_iff : forall n v, int_from_i128 n v = None <-> (n < 2)%nat.
Proof. exact int_from_i128_panics. Qed.
Print Assumptions C16_int_from_i128_panics_iff.

Theorem C16_int_from_i128_value : forall n v r, 0 <= v < 2 ^ 128 -> int_from_i128 n v = Some r ->
  seval r = sp_signed 128 v.
Proof. exact int_from_i128_value. Qed.
Print Assumptions C16_int_from_i128_value.

(** serde payload (bincode framing of the little-endian bytes): deserialize inverts serialize *)
Theorem C16_serde_roundtrip : forall ls, wf ls -> Z.of_nat (8 * length ls) < B ->
  uint_serde_de (length ls) (uint_serde_ser ls) = Val [ls].
Proof. exact serde_roundtrip. Qed.
Print Assumptions C16_serde_roundtrip.

Theorem C16_serde_de_strict : forall n bs r, wfd 256 bs -> uint_serde_de n bs = Val [r] ->
  (8 + 8 * n <= length bs)%nat /\ evalb 256 (firstn 8 bs) = Z.of_nat (8 * n) /\
  wf r /\ length r = n /\ eval r = evalb 256 (firstn (8 * n) (skipn 8 bs)).
Proof. exact serde_de_strict. Qed.
Print Assumptions C16_serde_de_strict.

(** BoxedUint::from_be_hex at ANY precision p: exactly 16 * ceil(p/64) hex characters are accepted; the result
    has ceil(p/64) limbs and the positional value; at whole-limb precisions it is the fixed-width decoder *)
Theorem C16_boxed_hex_decode_strict : forall p cs, wfd 256 cs ->
  let n := Z.to_nat ((p + 63) / 64) in
  match boxed_from_be_hex p cs with
  | HexLen => length cs <> (16 * n)%nat
  | HexInvalid => length cs = (16 * n)%nat /\ hexvals cs = None
  | HexOk r => length cs = (16 * n)%nat /\
               exists ds, hexvals cs = Some ds /\ wf r /\ length r = n /\ eval r = evalb 16 (rev ds)
  end.
Proof. exact boxed_from_be_hex_spec. Qed.
Print Assumptions C16_boxed_hex_decode_strict.

Theorem C16_boxed_hex_whole_limbs : forall n cs, boxed_from_be_hex (64 * Z.of_nat n) cs = uint_from_be_hex n cs.
Proof. exact boxed_from_be_hex_whole_limbs. Qed.
Print Assumptions C16_boxed_hex_whole_limbs.

Theorem C16_boxed_le_roundtrip : forall ls, wf ls -> (1 <= length ls)%nat ->
  boxed_from_slice false (uint_to_le_bytes ls) (64 * Z.of_nat (length ls)) = Val [ls].
Proof. exact boxed_le_roundtrip. Qed.
Print Assumptions C16_boxed_le_roundtrip.

(** NonZero decoders (from_{be,le}_bytes, from_{be,le}_byte_array): positional decoding in the named byte
    order; panic exactly at a wrong size, none exactly for the value zero *)
Theorem C16_nonzero_from_le : forall n bs, wfd 256 bs ->
  match nonzero_from_le n bs with
  | PanicV => length bs <> (8 * n)%nat
  | NoneV => length bs = (8 * n)%nat /\ evalb 256 bs = 0
  | Val [r] => length bs = (8 * n)%nat /\ wf r /\ length r = n /\ eval r = evalb 256 bs /\ eval r <> 0
  | _ => False
  end.
Proof. exact nonzero_from_le_spec. Qed.
Print Assumptions C16_nonzero_from_le.

Theorem C16_nonzero_from_be : forall n bs, wfd 256 bs ->
  match nonzero_from_be n bs with
  | PanicV => length bs <> (8 * n)%nat
  | NoneV => length bs = (8 * n)%nat /\ evalb 256 (rev bs) = 0
  | Val [r] => length bs = (8 * n)%nat /\ wf r /\ length r = n /\ eval r = evalb 256 (rev bs) /\ eval r <> 0
  | _ => False
  end.
Proof. exact nonzero_from_be_spec. Qed.
Print Assumptions C16_nonzero_from_be.

(** Odd hex decoders: strict positional hex decoding in the named byte order, accepted exactly when the value is odd *)
Theorem C16_odd_from_le_hex : forall n cs, wfd 256 cs ->
  match odd_from_le_hex n cs with
  | Val [r] => length cs = (16 * n)%nat /\
               exists ds, hexvals cs = Some ds /\ wf r /\ length r = n /\
                          eval r = evalb 256 (nib_pairs ds) /\ Z.odd (eval r) = true
  | PanicV => length cs <> (16 * n)%nat \/ hexvals cs = None \/
              exists ds, hexvals cs = Some ds /\ Z.odd (evalb 256 (nib_pairs ds)) = false
  | _ => False
  end.
Proof. exact odd_from_le_hex_spec. Qed.
Print Assumptions C16_odd_from_le_hex.

Theorem C16_odd_from_be_hex : forall n cs, wfd 256 cs ->
  match odd_from_be_hex n cs with
  | Val [r] => length cs = (16 * n)%nat /\
               exists ds, hexvals cs = Some ds /\ wf r /\ length r = n /\
                          eval r = evalb 16 (rev ds) /\ Z.odd (eval r) = true
  | PanicV => length cs <> (16 * n)%nat \/ hexvals cs = None \/
              exists ds, hexvals cs = Some ds /\ Z.odd (evalb 16 (rev ds)) = false
  | _ => False
  end.
Proof. exact odd_from_be_hex_spec. Qed.
Print Assumptions C16_odd_from_be_hex.

(** non-vacuity: concrete encodings / decodings, an invalid character next to each accepted range,
    a precision error at exactly 2^precision, sign extension of -2 *)
Example C16_nonvacuous :
  uint_to_be_bytes [1; 2] = [0; 0; 0; 0; 0; 0; 0; 2; 0; 0; 0; 0; 0; 0; 0; 1] /\
  uint_from_be_hex 1 [48; 49; 50; 51; 52; 53; 54; 55; 56; 57; 97; 66; 99; 68; 101; 70] = HexOk [81985529216486895] /\
  uint_from_be_hex 1 [48; 49; 50; 51; 52; 53; 54; 55; 56; 57; 97; 66; 99; 68; 101; 71] = HexInvalid /\
  map decode_nibble [47; 58; 64; 71; 96; 103; 128; 255] = repeat 65535 8 /\
  boxed_from_slice true [2; 0] 9 = ErrV E_Precision /\ boxed_from_slice true [1; 255] 9 = Val [[511]] /\
  boxed_from_slice true [0; 1; 255] 9 = ErrV E_InputSize /\
  int_resize [MAXW - 1] 2 = [MAXW - 1; MAXW] /\ uint_split_mixed [1; 2; 3] 1 2 = ([1], [2; 3]) /\
  nonzero_from_le 1 [1; 0; 0; 0; 0; 0; 0; 0] = Val [[1]] /\ nonzero_from_le 1 [0; 0; 0; 0; 0; 0; 0; 0] = NoneV /\
  odd_from_le_hex 1 [48; 50; 48; 48; 48; 48; 48; 48; 48; 48; 48; 48; 48; 48; 48; 49] = PanicV /\
  odd_from_le_hex 1 [48; 49; 48; 48; 48; 48; 48; 48; 48; 48; 48; 48; 48; 48; 48; 50] = Val [[2 ^ 57 + 1]] /\
  int_from_i128 1 (2 ^ 64) = None /\ int_from_i128 2 (2 ^ 128 - 2) = Some [MAXW - 1; MAXW] /\
  boxed_from_be_hex 100 (repeat 48 32) = HexOk [0; 0] /\ boxed_from_be_hex 100 (repeat 48 16) = HexLen.
Proof. vm_compute. repeat split; reflexivity. Qed.
