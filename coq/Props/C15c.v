(** C15 (continued, 2) -- the glue routes around the Montgomery forms (harness/src/ops/c15s.rs). The correspondence
    check maps every such route (params() / Monty::params, as_montgomery_mut, is_zero / is_nonzero, bits_precision,
    ConstantTimeEq, serde, Zeroize, the Debug front of the inverters) to a model op; where no model op of another area
    describes the route it maps to a key of Model/Glue2.v. For each of the 10 keys of [ops_glue2_model] /
    [ops_glue2_spec], in both profiles and for all well-formed argument lists that meet the typing side condition of
    the key, the model entry (what the Rust code does) returns exactly what the spec entry (the documented result in
    plain Z / list terms) returns.
    [run_tab t k dbg a] = the table lookup of Model/Api.v; [wf_args a] = every limb of every argument is a 64-bit word;
    [gtypedb glue2_tbl_ty k a] = the side condition of key k (Proofs/Glue2TablesP.v): "glue2.cmf_serde_de": the
    MODULUS argument has LIMBS limbs; "glue2.params_ct_eq_lz": the two mod_leading_zeros arguments are u32 values (until
    finding F34 was repaired in /repo d240cb2 the key needed "same mod_leading_zeros"); the other 8 keys have no side condition.
    Statements only; proofs in Proofs/Glue2TablesP.v. *)
From CB Require Import Model.Limbs Model.Glue2 Proofs.TotalityP Proofs.GlueTablesP Proofs.Glue2TablesP.
From Coq Require Import ZArith List String.
Open Scope Z_scope.
Open Scope string_scope.

Theorem C15_glue2_tables_agree : forall k dbg a,
  In k (map fst ops_glue2_model) -> wf_args a -> gtypedb glue2_tbl_ty k a = true ->
  run_tab ops_glue2_spec k dbg a <> Unsupported ->
  run_tab ops_glue2_model k dbg a = run_tab ops_glue2_spec k dbg a.
Proof. exact glue2_tables_agree. Qed.
Print Assumptions C15_glue2_tables_agree.

Theorem C15_glue2_tables_key_set :
  map fst ops_glue2_spec = map fst ops_glue2_model /\ List.length (map fst ops_glue2_model) = 10%nat.
Proof. exact glue2_key_set. Qed.
Print Assumptions C15_glue2_tables_key_set.

(** `ConstantTimeEq for MontyParams` compares mod_leading_zeros too (repaired code, finding F34): two parameter sets of the
    modulus 3 that differ only there (62 and 61) are neither ct_eq nor ==; with equal fields they are ct_eq *)
Theorem C15_glue2_params_ct_eq_sees_lz :
  run_tab ops_glue2_model "glue2.params_ct_eq_lz" false [[3]; [62]; [61]] = Val [[0]] /\
  run_tab ops_glue2_spec "glue2.params_ct_eq_lz" false [[3]; [62]; [61]] = Val [[0]] /\
  run_tab ops_glue2_model "glue2.params_eq_lz" false [[3]; [62]; [61]] = Val [[0]] /\
  run_tab ops_glue2_model "glue2.params_ct_eq_lz" false [[3]; [62]; [62]] = Val [[1]].
Proof. exact params_ct_eq_sees_lz. Qed.
Print Assumptions C15_glue2_params_ct_eq_sees_lz.

(** the ConstMontyForm decoder rejects a representative >= MODULUS (MODULUS = 5: 4 decodes, 5 / 6 / 2^64 - 1 are errors) *)
Theorem C15_glue2_cmf_serde_de_boundary :
  let pay v := ([8; 0; 0; 0; 0; 0; 0; 0] ++ v)%list in
  let run t v := run_tab t "glue2.cmf_serde_de" false [pay v; [1]; [5]] in
  run ops_glue2_model [4; 0; 0; 0; 0; 0; 0; 0] = Val [[4]] /\ run ops_glue2_spec [4; 0; 0; 0; 0; 0; 0; 0] = Val [[4]] /\
  run ops_glue2_model [5; 0; 0; 0; 0; 0; 0; 0] = ErrV 0 /\ run ops_glue2_spec [5; 0; 0; 0; 0; 0; 0; 0] = ErrV 0 /\
  run ops_glue2_model [6; 0; 0; 0; 0; 0; 0; 0] = ErrV 0 /\ run ops_glue2_spec [6; 0; 0; 0; 0; 0; 0; 0] = ErrV 0 /\
  run ops_glue2_model [255; 255; 255; 255; 255; 255; 255; 255] = ErrV 0 /\
  run ops_glue2_spec [255; 255; 255; 255; 255; 255; 255; 255] = ErrV 0.
Proof. exact cmf_serde_de_boundary. Qed.
Print Assumptions C15_glue2_cmf_serde_de_boundary.

(** non-vacuity: the lookups find functions and return non-trivial values *)
Example C15_glue2_tables_nonvacuous :
  run_tab ops_glue2_model "glue2.params_ct_eq" false [[3]; [3]] = Val [[1]] /\
  run_tab ops_glue2_spec "glue2.params_ct_eq" false [[3]; [3]] = Val [[1]] /\
  run_tab ops_glue2_model "glue2.params_ct_eq" false [[3]; [5]] = Val [[0]] /\
  run_tab ops_glue2_spec "glue2.params_ct_eq" false [[3]; [5]] = Val [[0]] /\
  run_tab ops_glue2_model "glue2.monty_ct_eq" false [[7; 0]; [2; 0]; [7; 0]; [2; 0]] = Val [[1]] /\
  run_tab ops_glue2_model "glue2.monty_ct_eq" false [[7; 0]; [2; 0]; [7; 0]; [2; 1]] = Val [[0]] /\
  run_tab ops_glue2_spec "glue2.monty_ct_eq" false [[7; 0]; [2; 0]; [9; 0]; [2; 0]] = Val [[0]] /\
  run_tab ops_glue2_model "glue2.zeroize_monty_form" false [[7; 0]; [2; 0]] = Val [[0; 0]; [0; 0]; [0; 0]; [0; 0]; [0; 0]; [0]; [0]] /\
  run_tab ops_glue2_model "glue2.zeroize_boxed_form" false [[3]; [2]] = Val [[0]; [3]; [1]; [1]; [1]; [6148914691236517205]; [62]] /\
  run_tab ops_glue2_spec "glue2.zeroize_boxed_form" false [[3]; [2]] = Val [[0]; [3]; [1]; [1]; [1]; [6148914691236517205]; [62]] /\
  run_tab ops_glue2_model "glue2.form_bits_precision" false [[1; 2; 3]; [0; 0; 0]] = Val [[192]] /\
  run_tab ops_glue2_spec "glue2.cmf_serde_de" false [[8; 0; 0]; [1]; [5]] = ErrV 0 /\
  run_tab ops_glue2_model "no.such.key" false [[1]] = Unsupported.
Proof. vm_compute. repeat split; reflexivity. Qed.
