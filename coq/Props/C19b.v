(** C19 (continued) — the two op tables of Model/Rand.v that the correspondence check evaluates agree on EVERY key.
    For each of the 11 keys of [ops_rand_model] / [ops_rand_spec] (Random for Limb / Uint; RandomBits for Uint and
    BoxedUint with the precision / length errors, in the returning, panicking and error-field-reporting modes; RandomMod
    for Uint, BoxedUint and Limb; NonZero<Uint>, NonZero residue, Odd<Uint>, Odd<BoxedUint>), in both profiles and for
    ALL well-formed argument lists, the model entry (limb / byte-level model of the Rust samplers on a replay stream,
    including the outcome plumbing: value, words consumed, bytes requested, RNG exhaustion as panic or Err(9), error
    codes and fields) returns exactly what the spec entry (plain Z arithmetic on the stream) returns, wherever the spec
    entry is defined.
    [run_tab t k dbg a] = the table lookup of Model/Api.v; [wf_args a] = every limb of every argument is a 64-bit word.
    This area needs NO typing side condition: limb counts, bit lengths, precisions and the fallible / mode selectors
    may be arbitrary words.  [rand_dom k a] (Proofs/RandTablesP.v) is the exact domain of the spec entries: a non-zero
    modulus; at least one limb for NonZero / Odd<Uint>; precision < 2^32 for BoxedUint RandomBits once the length check
    passed; 1 <= bit_length < 2^32 for Odd<BoxedUint>.
    Statements only; proofs in Proofs/RandTablesP.v. *)
From CB Require Import Model.Limbs Model.AddSub Model.Rand Proofs.TotalityP Proofs.RandTablesP.
From Coq Require Import ZArith List String.
Open Scope Z_scope.
Open Scope string_scope.

(** every key of the C11 key list [rand_keys], which is the whole key set of both tables (C19_tables_key_set) *)
Theorem C19_tables_agree : forall k dbg a,
  In k rand_keys -> wf_args a -> run_tab ops_rand_spec k dbg a <> Unsupported ->
  run_tab ops_rand_model k dbg a = run_tab ops_rand_spec k dbg a.
Proof. exact rand_tables_agree. Qed.
Print Assumptions C19_tables_agree.

(** the same with the key list taken from the table itself: nothing is left out *)
Theorem C19_tables_agree_table_keys : forall k dbg a,
  In k (map fst ops_rand_model) -> wf_args a -> run_tab ops_rand_spec k dbg a <> Unsupported ->
  run_tab ops_rand_model k dbg a = run_tab ops_rand_spec k dbg a.
Proof. exact rand_tables_agree_table_keys. Qed.
Print Assumptions C19_tables_agree_table_keys.

Theorem C19_tables_key_set :
  map fst ops_rand_model = rand_keys /\ map fst ops_rand_spec = rand_keys /\ List.length rand_keys = 11%nat.
Proof. exact rand_key_set. Qed.
Print Assumptions C19_tables_key_set.

(** the domain hypothesis of C19_tables_agree, made explicit: the spec entry is defined exactly on [rand_dom] *)
Theorem C19_tables_spec_domain : forall k dbg a, In k rand_keys ->
  (run_tab ops_rand_spec k dbg a <> Unsupported <-> rand_dom k a = true).
Proof. exact rand_spec_defined_iff. Qed.
Print Assumptions C19_tables_spec_domain.

(** non-vacuity: the lookups find functions and return non-trivial values.  RandomMod with the two-limb modulus
    3 * 2^64 + 1: the first candidate is rejected by the full comparison, the second accepted after 4 words = 32 bytes;
    an all-ones stream is exhausted: panic in the infallible form, Err(9) in the try_ form.  A 96-bit RandomBits request
    reads 8 + 4 bytes; a precision mismatch reported with its fields (mode 2); bit_length > precision panics in the
    panicking wrapper.  Odd<BoxedUint> with 70 bits forces bit 0 and panics on a one-word stream; bit_length 0 is
    outside the documented domain (the model returns the "odd" value 1 of a 0-bit request).  Limb::random_mod 256
    requests 2 bytes per attempt.  NonZero skips the all-zero block.  A zero modulus is outside the domain; an unknown
    key is Unsupported *)
Example C19_tables_nonvacuous :
  run_tab ops_rand_model "uint.random_mod" false [[MAXW; 5; 3; 0; 7]; [1; 3]; [0]] = Val [[0; 3]; [4]; [32]] /\
  run_tab ops_rand_spec "uint.random_mod" false [[MAXW; 5; 3; 0; 7]; [1; 3]; [0]] = Val [[0; 3]; [4]; [32]] /\
  run_tab ops_rand_model "boxed.random_mod" false [[MAXW; MAXW; MAXW]; [1; 3]; [0]] = PanicV /\
  run_tab ops_rand_spec "boxed.random_mod" false [[MAXW; MAXW; MAXW]; [1; 3]; [0]] = PanicV /\
  run_tab ops_rand_model "boxed.random_mod" false [[MAXW; MAXW; MAXW]; [1; 3]; [1]] = ErrV 9 /\
  run_tab ops_rand_model "uint.random_bits" false
    [[12297829382473034410; 14757395258967641292]; [2]; [96]; [128]; [0]]
    = Val [[12297829382473034410; 3435973836]; [2]; [12]] /\
  run_tab ops_rand_spec "uint.random_bits" false
    [[12297829382473034410; 14757395258967641292]; [2]; [96]; [128]; [0]]
    = Val [[12297829382473034410; 3435973836]; [2]; [12]] /\
  run_tab ops_rand_model "uint.random_bits" false [[1; 2]; [2]; [96]; [127]; [2]] = Val [[1; 127; 128]] /\
  run_tab ops_rand_spec "uint.random_bits" false [[1; 2]; [2]; [96]; [127]; [2]] = Val [[1; 127; 128]] /\
  run_tab ops_rand_model "boxed.random_bits" false [[1; 2]; [129]; [128]; [1]] = PanicV /\
  run_tab ops_rand_spec "boxed.random_bits" false [[1; 2]; [129]; [128]; [1]] = PanicV /\
  run_tab ops_rand_model "odd_boxed.random" false [[12297829382473034410; 14757395258967641292]; [70]]
    = Val [[12297829382473034411; 12]; [2]; [12]] /\
  run_tab ops_rand_spec "odd_boxed.random" false [[12297829382473034410; 14757395258967641292]; [70]]
    = Val [[12297829382473034411; 12]; [2]; [12]] /\
  run_tab ops_rand_model "odd_boxed.random" false [[12297829382473034410]; [70]] = PanicV /\
  run_tab ops_rand_spec "odd_boxed.random" false [[12297829382473034410]; [70]] = PanicV /\
  run_tab ops_rand_model "odd_boxed.random" false [[12297829382473034410]; [0]] = Val [[1]; [0]; [0]] /\
  run_tab ops_rand_spec "odd_boxed.random" false [[12297829382473034410]; [0]] = Unsupported /\
  run_tab ops_rand_model "limb.random_mod" false [[511; 255]; [256]; [0]] = Val [[255]; [2]; [4]] /\
  run_tab ops_rand_spec "limb.random_mod" false [[511; 255]; [256]; [0]] = Val [[255]; [2]; [4]] /\
  run_tab ops_rand_model "nonzero_uint.random" false [[0; 0; 0; 9; 4]; [2]; [1]] = Val [[0; 9]; [4]; [32]] /\
  run_tab ops_rand_spec "nonzero_uint.random" false [[0; 0; 0; 9; 4]; [2]; [1]] = Val [[0; 9]; [4]; [32]] /\
  run_tab ops_rand_spec "uint.random_mod" false [[1]; [0; 0]; [1]] = Unsupported /\
  rand_dom "uint.random_mod" [[1]; [0; 0]; [1]] = false /\
  rand_dom "uint.random_mod" [[MAXW; 5; 3; 0; 7]; [1; 3]; [0]] = true /\
  run_tab ops_rand_model "no.such.key" false [[1]] = Unsupported.
Proof. vm_compute. repeat split; reflexivity. Qed.
