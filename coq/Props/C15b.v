(** C15 (continued) -- the glue routes. The correspondence check maps every glue route of the crate (operators by value /
    by reference / assigning on Checked<T> and Wrapping<T>, conversions, serde, formatting and AsRef fronts of the wrapper
    types, trait fronts) to a model op; where no model op of another area describes the route it maps to a key of
    Model/Glue.v. For each of the 23 keys of [ops_glue_model] / [ops_glue_spec], in both profiles and for all
    well-formed argument lists that meet the typing side condition of the key, the model entry (what the Rust code does)
    returns exactly what the spec entry (the documented result in plain Z / list terms) returns.
    [run_tab t k dbg a] = the table lookup of Model/Api.v; [wf_args a] = every limb of every argument is a 64-bit word;
    [gtypedb glue_tbl_ty k a] = the side condition of key k (Proofs/GlueTablesP.v): the two halves of a wide value have
    one limb count (2 keys); the other 21 keys have no side condition ("glue.zero_like_wrapping_boxed" needed a one-limb
    restriction until finding F32 was repaired in /repo 526c7f5). Statements only; proofs in Proofs/GlueTablesP.v. *)
From CB Require Import Model.Limbs Model.Glue Proofs.TotalityP Proofs.GlueTablesP.
From Coq Require Import ZArith List String.
Open Scope Z_scope.
Open Scope string_scope.

Theorem C15_glue_tables_agree : forall k dbg a,
  In k (map fst ops_glue_model) -> wf_args a -> gtypedb glue_tbl_ty k a = true ->
  run_tab ops_glue_spec k dbg a <> Unsupported ->
  run_tab ops_glue_model k dbg a = run_tab ops_glue_spec k dbg a.
Proof. exact glue_tables_agree. Qed.
Print Assumptions C15_glue_tables_agree.

Theorem C15_glue_tables_key_set :
  map fst ops_glue_spec = map fst ops_glue_model /\ List.length (map fst ops_glue_model) = 23%nat.
Proof. exact glue_key_set. Qed.
Print Assumptions C15_glue_tables_key_set.

(** Zero::zero_like / Zero::set_zero on Wrapping<BoxedUint> keep the operand's precision (repaired code, finding F32) *)
Theorem C15_glue_zero_like_wrapping_boxed_keeps_precision :
  run_tab ops_glue_model "glue.zero_like_wrapping_boxed" false [[5; 6]] = Val [[0; 0]] /\
  run_tab ops_glue_spec "glue.zero_like_wrapping_boxed" false [[5; 6]] = Val [[0; 0]].
Proof. exact zero_like_wrapping_boxed_keeps_precision. Qed.
Print Assumptions C15_glue_zero_like_wrapping_boxed_keeps_precision.

(** non-vacuity: the lookups find functions and return non-trivial values *)
Example C15_glue_tables_nonvacuous :
  run_tab ops_glue_model "glue.one" false [[3]] = Val [[1; 0; 0]] /\
  run_tab ops_glue_spec "glue.one" false [[3]] = Val [[1; 0; 0]] /\
  run_tab ops_glue_model "glue.max_boxed" false [[65]] = Val [[MAXW; MAXW]] /\
  run_tab ops_glue_model "glue.from_limb_like" false [[7]; [1; 2; 3]] = Val [[7; 0; 0]] /\
  run_tab ops_glue_model "glue.recip_select" false [[3]; [0]; [1]] = Val [[MAXW]; [0]; [1]] /\
  run_tab ops_glue_spec "glue.recip_default" false [[0]] = Val [[MAXW]; [0]; [1]] /\
  run_tab ops_glue_model "glue.checked_ser" false [[5]; [1]] = Val [[1; 8; 0; 0; 0; 0; 0; 0; 0; 5; 0; 0; 0; 0; 0; 0; 0]] /\
  run_tab ops_glue_model "glue.checked_de" false [[0]; [1]] = NoneV /\
  run_tab ops_glue_model "glue.checked_de" false [[2]; [1]] = ErrV 0 /\
  run_tab ops_glue_model "glue.shl_wide_expect" false [[1]; [0]; [128]] = PanicV /\
  run_tab ops_glue_spec "glue.shl_wide_expect" false [[1]; [0]; [128]] = PanicV /\
  run_tab ops_glue_model "glue.fmt_octal" false [[511]; [1]] = Val [[48; 111; 55; 55; 55]] /\
  run_tab ops_glue_model "no.such.key" false [[1]] = Unsupported.
Proof. vm_compute. repeat split; reflexivity. Qed.
