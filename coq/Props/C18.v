(** C18 -- DER and RLP integer codecs are canonical and fail closed.
    Only statements, each closed by [exact] of a lemma from Proofs/Der*P.v, Proofs/RlpCodecP.v.
    Everything quantifies over ALL limb counts n (list lengths), all values and all octet strings.
    Notation: octet strings are lists of byte values, [wfd 256 bs] = "every element in [0, 256)";
    [bev bs] = value of a big-endian string; [eval] little-endian limbs -> Z; [Bn n] = 2^(64 n);
    [res] = Ok v | Er kind | Pn (panic);  decoders take [fx]: false = the code as found, true = the code with
    tools/fix_C18_1.diff (DER) / tools/fix_C18_2.diff (RLP);
    [sp_der_encode x] / [sp_rlp_encode x] = the canonical encodings written with Z.log2, /, mod (Model/Der.v);
    [LEN_MAX] = der's Length::MAX = 2^28 - 1; [USIZE] = 2^64. *)
From CB Require Import Model.Limbs Model.Conv Model.Der Proofs.WordP Proofs.LimbsP Proofs.ConvDigitsP
  Proofs.DerSpecP Proofs.DerCodecP Proofs.DerRoutesP Proofs.RlpCodecP Proofs.DerFinalP Proofs.DerRefuteP Proofs.DerTablesP.
From Coq Require Import ZArith List String.
Import ListNotations.
Open Scope Z_scope.
Open Scope list_scope.
Notation length := List.length.

(* ================================================================ the specification itself *)
(** the k-octet big-endian string of the spec is positional: octet i = floor(x / 256^(k-1-i)) mod 256 *)
Theorem C18_sp_be_positional : forall k x i, (i < Z.to_nat k)%nat ->
  nth i (sp_be k x) 0 = (x / 256 ^ (k - 1 - Z.of_nat i)) mod 256.
Proof. exact sp_be_positional. Qed.
Print Assumptions C18_sp_be_positional.

(** the executable decoding spec of the table is "the value whose canonical encoding is the input" *)
Theorem C18_sp_der_decode_iff : forall n bs v, wfd 256 bs ->
  sp_der_decode n bs = Some v <-> (0 <= v < Bn n /\ bs = sp_der_encode v).
Proof. exact sp_der_decode_iff. Qed.
Print Assumptions C18_sp_der_decode_iff.
Theorem C18_sp_rlp_decode_iff : forall n bs v, wfd 256 bs ->
  sp_rlp_decode n bs = Some v <-> (0 <= v < Bn n /\ bs = sp_rlp_encode v).
Proof. exact sp_rlp_decode_iff. Qed.
Print Assumptions C18_sp_rlp_decode_iff.

(** both canonical encodings are injective (an integer has one encoding, an encoding one integer) *)
Theorem C18_sp_der_encode_injective : forall x y, 0 <= x -> 0 <= y -> sp_der_encode x = sp_der_encode y -> x = y.
Proof. exact sp_der_encode_inj. Qed.
Print Assumptions C18_sp_der_encode_injective.
Theorem C18_sp_rlp_encode_injective : forall x y, 0 <= x -> 0 <= y -> sp_rlp_encode x = sp_rlp_encode y -> x = y.
Proof. exact sp_rlp_encode_inj. Qed.
Print Assumptions C18_sp_rlp_encode_injective.

(** a DER content is canonical (der_canonb) iff it is non-empty, its sign bit is clear and its first nine bits are
    not all zero -- and then it is THE content of its value *)
Theorem C18_der_canonical_content_spec : forall c, der_canonb c = true <->
  exists b rest, c = b :: rest /\ b < 128 /\ (rest = [] \/ b <> 0 \/ exists d r, rest = d :: r /\ 128 <= d).
Proof. exact der_canonb_spec. Qed.
Print Assumptions C18_der_canonical_content_spec.
Theorem C18_der_canonical_content_unique : forall c, wfd 256 c -> der_canonb c = true -> sp_der_content (bev c) = c.
Proof. exact canon_unique. Qed.
Print Assumptions C18_der_canonical_content_unique.

(* ================================================================ DER *)
(** encoder = specification, for every width the der crate can frame (1 + 5 + 8N + 1 <= Length::MAX) *)
Theorem C18_der_encode_spec : forall ls, wf ls -> (1 <= length ls)%nat -> 8 * Z.of_nat (length ls) + 7 <= LEN_MAX ->
  der_encode ls = Ok (sp_der_encode (eval ls)).
Proof. exact der_encode_ok. Qed.
Print Assumptions C18_der_encode_spec.

(** minimal: tag 02, minimal definite length, content = canonical two's complement of the non-negative value *)
Theorem C18_der_encode_minimal : forall ls, wf ls -> (1 <= length ls)%nat -> 8 * Z.of_nat (length ls) + 7 <= LEN_MAX ->
  exists c, der_encode ls = Ok (2 :: sp_der_length (lenZ c) ++ c) /\ wfd 256 c /\ bev c = eval ls /\ der_canonb c = true.
Proof. exact der_encode_minimal. Qed.
Print Assumptions C18_der_encode_minimal.
Theorem C18_der_length_minimal : forall k, 0 <= k <= LEN_MAX ->
  (k < 128 /\ sp_der_length k = [k]) \/
  (128 <= k /\ exists lb, sp_der_length k = (128 + lenZ lb) :: lb /\ wfd 256 lb /\ lb <> [] /\ no_lead0 lb /\ bev lb = k).
Proof. exact der_length_minimal. Qed.
Print Assumptions C18_der_length_minimal.

(** round trip (holds for the code as found and for the repaired code) *)
Theorem C18_der_roundtrip : forall fx ls, wf ls -> (1 <= length ls)%nat -> 8 * Z.of_nat (length ls) + 7 <= LEN_MAX ->
  exists bs, der_encode ls = Ok bs /\ der_decode fx (length ls) bs = Ok ls.
Proof. exact der_roundtrip_model. Qed.
Print Assumptions C18_der_roundtrip.

(** canonical: whatever decodes is exactly what the encoder writes for the decoded value (so: unique, injective) *)
Theorem C18_der_canonical : forall fx n bs v, wfd 256 bs -> der_decode fx n bs = Ok v -> der_encode v = Ok bs.
Proof. exact der_canonical. Qed.
Print Assumptions C18_der_canonical.
Theorem C18_der_decode_sound : forall fx n bs v, wfd 256 bs -> der_decode fx n bs = Ok v ->
  wf v /\ length v = n /\ 0 <= eval v < Bn n /\ v = to_limbs n (eval v) /\ bs = sp_der_encode (eval v) /\ lenZ bs <= LEN_MAX.
Proof. exact der_decode_sound. Qed.
Print Assumptions C18_der_decode_sound.
Theorem C18_der_decode_injective : forall fx n bs1 bs2 v, wfd 256 bs1 -> wfd 256 bs2 ->
  der_decode fx n bs1 = Ok v -> der_decode fx n bs2 = Ok v -> bs1 = bs2.
Proof. exact der_decode_injective. Qed.
Print Assumptions C18_der_decode_injective.
(** complete: every canonical encoding of a value that fits decodes to it *)
Theorem C18_der_decode_complete : forall fx n x, (1 <= n)%nat -> 0 <= x < Bn n -> lenZ (sp_der_encode x) <= LEN_MAX ->
  der_decode fx n (sp_der_encode x) = Ok (to_limbs n x).
Proof. exact der_decode_complete. Qed.
Print Assumptions C18_der_decode_complete.

(** THE DEFECT (F8): in the code as found, the canonical encoding of ANY value that does not fit the target panics *)
Theorem C18_der_fail_closed_refuted :
  exists n bs, Forall (fun c => 0 <= c < 256) bs /\ der_decode false n bs = Pn.
Proof. exact der_oversize_refuted. Qed.
Print Assumptions C18_der_fail_closed_refuted.
Theorem C18_der_oversize_panics_before_fix : forall n x, Bn n <= x -> lenZ (sp_der_encode x) <= LEN_MAX ->
  der_decode false n (sp_der_encode x) = Pn.
Proof. exact der_oversize_panics. Qed.
Print Assumptions C18_der_oversize_panics_before_fix.
(** ... repaired: it is the error Length *)
Theorem C18_der_oversize_err : forall n x, Bn n <= x -> lenZ (sp_der_encode x) <= LEN_MAX ->
  der_decode true n (sp_der_encode x) = Er E_Length.
Proof. exact der_oversize_err. Qed.
Print Assumptions C18_der_oversize_err.
(** fail closed (repaired code), for EVERY octet string: the canonical encoding of a value that fits, or an error *)
Theorem C18_der_fail_closed : forall n bs, wfd 256 bs ->
  (exists v, der_decode true n bs = Ok v /\ wf v /\ length v = n /\ bs = sp_der_encode (eval v)) \/
  (exists e, der_decode true n bs = Er e).
Proof. exact der_fail_closed. Qed.
Print Assumptions C18_der_fail_closed.
Theorem C18_der_never_panics : forall n bs, der_decode true n bs <> Pn.
Proof. exact der_decode_nopn. Qed.
Print Assumptions C18_der_never_panics.
(** the repair changes nothing else *)
Theorem C18_der_fix_conservative : forall n bs, wfd 256 bs -> der_decode false n bs <> Pn ->
  der_decode true n bs = der_decode false n bs.
Proof. exact der_fix_conservative. Qed.
Print Assumptions C18_der_fix_conservative.
(** TryFrom<AnyRef> accepts the same strings with the same result; no DER route panics *)
Theorem C18_der_from_any_same : forall n bs v, wfd 256 bs -> (der_from_any true n bs = Ok v <-> der_decode true n bs = Ok v).
Proof. exact der_from_any_same. Qed.
Print Assumptions C18_der_from_any_same.
Theorem C18_der_routes_never_panic : forall n bs tb hlen,
  der_from_any true n bs <> Pn /\ der_from_any_parts true n tb bs <> Pn /\ der_from_uintref true n bs <> Pn /\
  der_decode_value true n hlen bs <> Pn.
Proof.
  intros. repeat split; [apply der_from_any_nopn | apply der_from_any_parts_nopn | apply der_from_uintref_nopn | apply der_decode_value_nopn].
Qed.
Print Assumptions C18_der_routes_never_panic.

(* ================================================================ RLP *)
Theorem C18_rlp_encode_spec : forall ls, wf ls -> 8 * Z.of_nat (length ls) < 4294967296 ->
  rlp_encode ls = sp_rlp_encode (eval ls).
Proof. exact rlp_encode_spec. Qed.
Print Assumptions C18_rlp_encode_spec.
(** minimal: payload without leading zero; header one of: none (single octet < 0x80), 0x80+len (len <= 55, not a single
    octet < 0x80), 0xb7+lenlen followed by the length without leading zero, and then the length exceeds 55 *)
Theorem C18_rlp_encode_minimal : forall ls, wf ls -> 8 * Z.of_nat (length ls) < 4294967296 ->
  exists hdr d, rlp_encode ls = hdr ++ d /\ wfd 256 d /\ no_lead0 d /\ bev d = eval ls /\ rlp_shape true hdr d.
Proof. exact rlp_encode_minimal. Qed.
Print Assumptions C18_rlp_encode_minimal.
Theorem C18_rlp_roundtrip : forall fx ls, wf ls -> 8 * Z.of_nat (length ls) < 4294967296 ->
  rlp_decode fx (length ls) (rlp_encode ls) = Ok ls.
Proof. exact rlp_roundtrip. Qed.
Print Assumptions C18_rlp_roundtrip.

(** THE DEFECTS (F28) of the code as found: a long-form prefix before a short payload, and trailing octets, are accepted *)
Theorem C18_rlp_canonical_refuted_long_form :
  rlp_decode false 1 [184; 1; 5] = Ok [5] /\ rlp_encode [5] = [5] /\ rlp_decode false 1 [5] = Ok [5].
Proof. exact rlp_canonical_refuted_long_form. Qed.
Print Assumptions C18_rlp_canonical_refuted_long_form.
Theorem C18_rlp_canonical_refuted_trailing :
  rlp_decode false 1 [5; 0] = Ok [5] /\ rlp_encode [5] = [5].
Proof. exact rlp_canonical_refuted_trailing. Qed.
Print Assumptions C18_rlp_canonical_refuted_trailing.

(** repaired: canonical, injective *)
Theorem C18_rlp_canonical : forall n bs v, wfd 256 bs -> 8 * Z.of_nat n < 4294967296 ->
  rlp_decode true n bs = Ok v -> rlp_encode v = bs.
Proof. exact rlp_canonical. Qed.
Print Assumptions C18_rlp_canonical.
Theorem C18_rlp_decode_sound : forall n bs v, wfd 256 bs -> rlp_decode true n bs = Ok v ->
  wf v /\ length v = n /\ 0 <= eval v < Bn n /\ v = to_limbs n (eval v) /\ bs = sp_rlp_encode (eval v).
Proof. exact rlp_decode_sound. Qed.
Print Assumptions C18_rlp_decode_sound.
Theorem C18_rlp_decode_injective : forall n bs1 bs2 v, wfd 256 bs1 -> wfd 256 bs2 ->
  rlp_decode true n bs1 = Ok v -> rlp_decode true n bs2 = Ok v -> bs1 = bs2.
Proof. exact rlp_decode_injective. Qed.
Print Assumptions C18_rlp_decode_injective.
Theorem C18_rlp_decode_complete : forall fx n x, 0 <= x < Bn n -> lenZ (sp_rlp_encode x) < USIZE ->
  rlp_decode fx n (sp_rlp_encode x) = Ok (to_limbs n x).
Proof. exact rlp_decode_complete. Qed.
Print Assumptions C18_rlp_decode_complete.
(** oversize is the error RlpIsTooBig (before and after the repair) *)
Theorem C18_rlp_oversize_err : forall fx n x, Bn n <= x -> lenZ (sp_rlp_encode x) < USIZE ->
  rlp_decode fx n (sp_rlp_encode x) = Er R_IsTooBig.
Proof. exact rlp_oversize_err. Qed.
Print Assumptions C18_rlp_oversize_err.
(** fail closed, for EVERY octet string *)
Theorem C18_rlp_fail_closed : forall n bs, wfd 256 bs ->
  (exists v, rlp_decode true n bs = Ok v /\ wf v /\ length v = n /\ bs = sp_rlp_encode (eval v)) \/
  (exists e, rlp_decode true n bs = Er e).
Proof. exact rlp_fail_closed. Qed.
Print Assumptions C18_rlp_fail_closed.
Theorem C18_rlp_never_panics : forall fx n bs, rlp_decode fx n bs <> Pn.
Proof. exact rlp_decode_nopn. Qed.
Print Assumptions C18_rlp_never_panics.
(** the repair only rejects more *)
Theorem C18_rlp_fix_conservative : forall n bs v, rlp_decode true n bs = Ok v -> rlp_decode false n bs = Ok v.
Proof. exact rlp_fix_conservative. Qed.
Print Assumptions C18_rlp_fix_conservative.

(** inside a list (Rlp::val_at): the first item is cut out by its header and decoded the same way, whatever follows *)
Theorem C18_rlp_list_item : forall fx n x rest, 0 <= x -> lenZ (sp_rlp_encode x ++ rest) < USIZE ->
  rlp_decode_item fx n (sp_rlp_encode x ++ rest) = rlp_decode fx n (sp_rlp_encode x).
Proof. exact rlp_decode_item_run. Qed.
Print Assumptions C18_rlp_list_item.

(* ================================================================ the op tables *)
Theorem C18_tables_agree : forall dbg a k, In k der_keys -> run_op18 ops_der_spec k dbg a <> Unsupported ->
  run_op18 ops_der_model k dbg a = run_op18 ops_der_spec k dbg a.
Proof. exact tables_agree_der. Qed.
Print Assumptions C18_tables_agree.

(* ================================================================ non-vacuity *)
Example C18_ex_der_encode : der_encode [18446744073709551615] = Ok [2; 9; 0; 255; 255; 255; 255; 255; 255; 255; 255].
Proof. vm_compute. reflexivity. Qed.
Example C18_ex_der_decode : der_decode true 1 [2; 9; 0; 255; 255; 255; 255; 255; 255; 255; 255] = Ok [18446744073709551615].
Proof. vm_compute. reflexivity. Qed.
Example C18_ex_der_oversize : der_decode true 1 [2; 9; 1; 0; 0; 0; 0; 0; 0; 0; 0] = Er E_Length /\
                              der_decode false 1 [2; 9; 1; 0; 0; 0; 0; 0; 0; 0; 0] = Pn.
Proof. vm_compute. repeat split. Qed.
Example C18_ex_der_noncanonical : der_decode true 1 [2; 2; 0; 127] = Er E_Noncanonical /\ der_decode true 1 [2; 1; 128] = Er E_Value /\
                                  der_decode true 1 [2; 129; 1; 5] = Er E_Length /\ der_decode true 1 [2; 1; 5; 0] = Er E_TrailingData.
Proof. vm_compute. repeat split. Qed.
Example C18_ex_rlp : rlp_encode [0] = [128] /\ rlp_encode [1024] = [130; 4; 0] /\ rlp_decode true 1 [130; 4; 0] = Ok [1024] /\
                     rlp_decode true 1 [0] = Er R_InvalidIndirection /\ rlp_decode true 1 [184; 1; 5] = Er R_InvalidIndirection /\
                     rlp_decode true 1 [5; 0] = Er R_IsTooBig.
Proof. vm_compute. repeat split. Qed.
Example C18_ex_tables : run_op18 ops_der_spec "der.from_der" false [[2; 1; 5]; [1]] = Val [[5]] /\
                        run_op18 ops_der_model "der.from_der" false [[2; 1; 5]; [1]] = Val [[5]].
Proof. vm_compute. repeat split. Qed.
