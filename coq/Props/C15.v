(** C15 — all routes agree. Where two DIFFERENT algorithms serve the same operation, their agreement is a corollary
    of both being proved equal to the specification. *)
From CB Require Import Model.Limbs Model.AddSub Model.Mul Proofs.WordP Proofs.LimbsP Proofs.AddSubP.
From Coq Require Import ZArith List Lia.
Open Scope Z_scope.

(** BoxedUint carry chains on equal precisions are the fixed-width chains *)
Lemma boxed_adc_eq_uint a b c : length a = length b -> boxed_adc a b c = uint_adc a b c.
Proof.
  intros H. unfold boxed_adc, uint_adc. rewrite <- H, Nat.max_id, resize_same. rewrite H at 1. rewrite resize_same. reflexivity.
Qed.
Lemma boxed_sbb_eq_uint a b c : length a = length b -> boxed_sbb a b c = uint_sbb a b c.
Proof.
  intros H. unfold boxed_sbb, uint_sbb. rewrite <- H, Nat.max_id, resize_same. rewrite H at 1. rewrite resize_same. reflexivity.
Qed.

Theorem C15_boxed_adc_is_uint_adc : forall a b c, length a = length b -> boxed_adc a b c = uint_adc a b c.
Proof. exact boxed_adc_eq_uint. Qed.
Print Assumptions C15_boxed_adc_is_uint_adc.

Theorem C15_boxed_sbb_is_uint_sbb : forall a b c, length a = length b -> boxed_sbb a b c = uint_sbb a b c.
Proof. exact boxed_sbb_eq_uint. Qed.
Print Assumptions C15_boxed_sbb_is_uint_sbb.
