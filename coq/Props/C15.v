(** C15 — all routes agree. Where two DIFFERENT algorithms serve the same operation, their agreement is a corollary
    of both being proved equal to the specification. *)
From CB Require Import Model.Limbs Model.AddSub Model.Mul Model.Div Model.Sqrt Model.Cmp Proofs.WordP Proofs.LimbsP Proofs.AddSubP Proofs.RoutesP.
From Coq Require Import ZArith List Lia.
Open Scope Z_scope.

(** BoxedUint carry chains on equal precisions are the fixed-width chains *)
Lemma boxed_adc_eq_uint a b c : length a = length b -> boxed_adc a b c = uint_adc a b c.
Proof.
  intros H. unfold boxed_adc, uint_adc. rewrite <- H, Nat.max_id, resize_same. rewrite H at 1. rewrite resize_same. reflexivity.
Qed.
Lemma boxed_sbb_eq_uint a b c : length a = length b -> boxed_sbb a b c = uint_sbb a b c.
Proof.
  intros H. unfold boxed_sbb, uint_sbb. rewrite <- H, Nat.max_id, resize_same. rewrite H at 1. rewrite resize_same. reflexivity.
Qed.

Theorem C15_boxed_adc_is_uint_adc : forall a b c, length a = length b -> boxed_adc a b c = uint_adc a b c.
Proof. exact boxed_adc_eq_uint. Qed.
Print Assumptions C15_boxed_adc_is_uint_adc.

Theorem C15_boxed_sbb_is_uint_sbb : forall a b c, length a = length b -> boxed_sbb a b c = uint_sbb a b c.
Proof. exact boxed_sbb_eq_uint. Qed.
Print Assumptions C15_boxed_sbb_is_uint_sbb.

(* ---------------- different algorithms, same operation: corollaries of the owning model = spec theorems ---------------- *)

(** Uint::div_rem (constant time) and Uint::div_rem_vartime return the same quotient and remainder limbs *)
Theorem C15_div_ct_is_vartime : forall x y, wf x -> wf y -> length y = length x -> eval y <> 0 ->
  uint_div_rem x y = Some (div_rem_vartime x y).
Proof. exact div_ct_eq_vartime. Qed.
Print Assumptions C15_div_ct_is_vartime.

(** BoxedUint::div_rem = Uint::div_rem at equal precision *)
Theorem C15_boxed_div_is_uint_div : forall x y, wf x -> wf y -> length y = length x -> eval y <> 0 ->
  boxed_div_rem x y = uint_div_rem x y.
Proof. exact boxed_div_eq_uint. Qed.
Print Assumptions C15_boxed_div_is_uint_div.

(** BoxedUint::div_rem_vartime = Uint::div_rem_vartime for every pair of widths *)
Theorem C15_boxed_div_vartime_is_uint_div_vartime : forall x y, wf x -> wf y -> eval y <> 0 ->
  boxed_div_rem_vartime x y = Some (div_rem_vartime x y).
Proof. exact boxed_div_vartime_eq_uint. Qed.
Print Assumptions C15_boxed_div_vartime_is_uint_div_vartime.

Theorem C15_boxed_rem_vartime_is_rem : forall x y, wf x -> wf y -> eval y <> 0 ->
  boxed_rem_vartime x y = Some (snd (div_rem_vartime x y)).
Proof. exact boxed_rem_vartime_eq. Qed.
Print Assumptions C15_boxed_rem_vartime_is_rem.

(** rem_wide_vartime with a zero high half = the ordinary remainder *)
Theorem C15_rem_wide_zero_hi_is_rem : forall lo y, wf lo -> wf y -> length y = length lo -> eval y <> 0 ->
  rem_wide_vartime lo (zeros (length lo)) y = snd (div_rem_vartime lo y).
Proof. exact rem_wide_zero_hi_eq. Qed.
Print Assumptions C15_rem_wide_zero_hi_is_rem.

(** fixed-size Karatsuba at every level = schoolbook; the Uint dispatch = schoolbook; boxed Karatsuba = schoolbook = fixed *)
Theorem C15_karatsuba_is_schoolbook : forall l x y m, wf x -> wf y -> length x = (2 ^ l * m)%nat -> length y = length x ->
  kmul l x y = split_at (length x) (schoolbook_mul x y).
Proof. exact kmul_eq_schoolbook. Qed.
Print Assumptions C15_karatsuba_is_schoolbook.

Theorem C15_uint_mul_is_schoolbook : forall x y, wf x -> wf y ->
  uint_split_mul x y = split_at (length x) (schoolbook_mul x y).
Proof. exact uint_split_mul_eq_schoolbook. Qed.
Print Assumptions C15_uint_mul_is_schoolbook.

Theorem C15_boxed_mul_is_schoolbook : forall x y, wf x -> wf y -> boxed_mul x y = schoolbook_mul x y.
Proof. exact boxed_mul_eq_schoolbook. Qed.
Print Assumptions C15_boxed_mul_is_schoolbook.

Theorem C15_boxed_mul_is_fixed_mul : forall x y lo hi, wf x -> wf y -> uint_split_mul x y = (lo, hi) ->
  boxed_mul x y = lo ++ hi.
Proof. exact boxed_mul_eq_fixed. Qed.
Print Assumptions C15_boxed_mul_is_fixed_mul.

Theorem C15_squares_agree : forall x, wf x ->
  schoolbook_sq x = schoolbook_mul x x /\ boxed_square x = schoolbook_mul x x.
Proof. exact squares_agree. Qed.
Print Assumptions C15_squares_agree.

(** the four square-root routes (fixed / boxed, constant-time / vartime) return the same limbs *)
Theorem C15_sqrt_routes_agree : forall a, wf a -> length a <> 0%nat ->
  uint_sqrt_vartime a = uint_sqrt a /\ boxed_sqrt a = uint_sqrt a /\ boxed_sqrt_vartime a = uint_sqrt a.
Proof. exact sqrt_routes_agree. Qed.
Print Assumptions C15_sqrt_routes_agree.

(** cmp, cmp_vartime and the boxed cmp_vartime agree *)
Theorem C15_cmp_routes_agree : forall a b, wf a -> wf b -> length a = length b ->
  uint_cmp_vartime a b = uint_cmp a b /\ boxed_cmp_vartime a b = uint_cmp a b.
Proof. exact cmp_routes_agree. Qed.
Print Assumptions C15_cmp_routes_agree.

(** non-vacuity: the routes really are different algorithms that meet on concrete inputs (Karatsuba level 1 with a
    negative middle term; a division that needs the add-back) *)
Example C15_nonvacuous :
  kmul 1 [1; MAXW] [MAXW; 1] = split_at 2 (schoolbook_mul [1; MAXW] [MAXW; 1]) /\
  uint_div_rem [MAXW; MAXW; MAXW - 1] [MAXW; MAXW; 0] = Some (div_rem_vartime [MAXW; MAXW; MAXW - 1] [MAXW; MAXW; 0]) /\
  uint_sqrt [0; 1] = uint_sqrt_vartime [0; 1].
Proof. vm_compute. repeat split; reflexivity. Qed.
