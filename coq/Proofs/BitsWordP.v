(** C05, word level: powers of two, disjoint OR, word shifts, u32 / word comparison masks,
    leading / trailing zero counts, bits of [x + B * r]. *)
From CB Require Import Model.Limbs Model.AddSub Model.Bits Proofs.WordP Proofs.LimbsP.
From Coq Require Import ZArith Lia List Bool.
Open Scope Z_scope.

(* ------------------------------------------------------------------ powers of two *)
Lemma pow2_pos k : 0 <= k -> 0 < 2 ^ k.
Proof. intros. apply Z.pow_pos_nonneg; lia. Qed.

Lemma pow2_split a b : 0 <= a -> 0 <= b -> 2 ^ (a + b) = 2 ^ a * 2 ^ b.
Proof. intros. apply Z.pow_add_r; lia. Qed.

Lemma B_split k : 0 <= k <= 64 -> B = 2 ^ k * 2 ^ (64 - k).
Proof. intros. rewrite B_val, <- pow2_split by lia. f_equal. lia. Qed.

Lemma pow2_le a b : 0 <= a <= b -> 2 ^ a <= 2 ^ b.
Proof. intros. apply Z.pow_le_mono_r; lia. Qed.

Lemma pow2_lt a b : 0 <= a < b -> 2 ^ a < 2 ^ b.
Proof. intros. apply Z.pow_lt_mono_r; lia. Qed.

Lemma Bn_pow n : Bn n = 2 ^ (64 * Z.of_nat n).
Proof.
  induction n.
  - rewrite Bn_0. reflexivity.
  - rewrite Bn_S, IHn, B_val, <- pow2_split by lia. f_equal. lia.
Qed.

(* ------------------------------------------------------------------ bits and bounds *)
Lemma high_bits_false a n i : 0 <= a < 2 ^ n -> n <= i -> Z.testbit a i = false.
Proof.
  intros Ha Hi. destruct (Z_lt_ge_dec n 0) as [Hn|Hn].
  - rewrite Z.pow_neg_r in Ha by lia. lia.
  - rewrite <- (Z.mod_small a (2 ^ n)) by lia. apply Z.mod_pow2_bits_high. lia.
Qed.

Lemma bounded_by_bits a n : 0 <= n -> 0 <= a -> (forall i, n <= i -> Z.testbit a i = false) -> a < 2 ^ n.
Proof.
  intros Hn Ha Hb.
  assert (E : a mod 2 ^ n = a).
  { apply Z.bits_inj'. intros i Hi. destruct (Z_lt_ge_dec i n).
    - apply Z.mod_pow2_bits_low. lia.
    - rewrite Z.mod_pow2_bits_high by lia. symmetry. apply Hb. lia. }
  rewrite <- E. apply Z.mod_pos_bound. apply pow2_pos. lia.
Qed.

Lemma land_bound a b n : 0 <= n -> 0 <= a < 2 ^ n -> 0 <= b -> 0 <= Z.land a b < 2 ^ n.
Proof.
  intros Hn Ha Hb. assert (0 <= Z.land a b) by (apply Z.land_nonneg; lia).
  split; [assumption|]. apply bounded_by_bits; try lia.
  intros i Hi. rewrite Z.land_spec, (high_bits_false a n i) by lia. reflexivity.
Qed.

Lemma lor_bound a b n : 0 <= n -> 0 <= a < 2 ^ n -> 0 <= b < 2 ^ n -> 0 <= Z.lor a b < 2 ^ n.
Proof.
  intros Hn Ha Hb. assert (0 <= Z.lor a b) by (apply Z.lor_nonneg; lia).
  split; [assumption|]. apply bounded_by_bits; try lia.
  intros i Hi. rewrite Z.lor_spec, (high_bits_false a n i), (high_bits_false b n i) by lia. reflexivity.
Qed.

Lemma lxor_bound a b n : 0 <= n -> 0 <= a < 2 ^ n -> 0 <= b < 2 ^ n -> 0 <= Z.lxor a b < 2 ^ n.
Proof.
  intros Hn Ha Hb. assert (0 <= Z.lxor a b) by (apply Z.lxor_nonneg; lia).
  split; [assumption|]. apply bounded_by_bits; try lia.
  intros i Hi. rewrite Z.lxor_spec, (high_bits_false a n i), (high_bits_false b n i) by lia. reflexivity.
Qed.

(** OR of two values with disjoint bit ranges is their sum *)
Lemma lor_add_disjoint y c k : 0 <= k -> 0 <= c < 2 ^ k -> Z.lor (y * 2 ^ k) c = y * 2 ^ k + c.
Proof.
  intros Hk Hc.
  assert (E : Z.land (y * 2 ^ k) c = 0); [|rewrite <- (Z.lxor_lor _ _ E); symmetry; apply Z.add_nocarry_lxor, E].
  apply Z.bits_inj'. intros i Hi. rewrite Z.land_spec, Z.bits_0.
  destruct (Z_lt_ge_dec i k).
  - rewrite Z.mul_pow2_bits_low by lia. reflexivity.
  - rewrite (high_bits_false c k i) by lia. apply andb_false_r.
Qed.

(** top bit of a w-bit value *)
Lemma top_bit_testbit v w : 0 < w -> 0 <= v < 2 ^ w -> v / 2 ^ (w - 1) = b2z (Z.testbit v (w - 1)).
Proof.
  intros Hw Hv. rewrite Z.testbit_spec' by lia.
  symmetry. apply Z.mod_small.
  pose proof (pow2_pos (w - 1) ltac:(lia)).
  split; [apply Z.div_pos; lia|]. apply Z.div_lt_upper_bound; [lia|].
  replace (2 ^ (w - 1) * 2) with (2 ^ w); [lia|].
  replace w with (w - 1 + 1) at 1 by lia. rewrite pow2_split by lia. reflexivity.
Qed.

Lemma top_bit_ge v w : 0 < w -> 0 <= v < 2 ^ w -> v / 2 ^ (w - 1) = if 2 ^ (w - 1) <=? v then 1 else 0.
Proof.
  intros Hw Hv. pose proof (pow2_pos (w - 1) ltac:(lia)).
  assert (E : 2 ^ w = 2 ^ (w - 1) * 2).
  { replace w with (w - 1 + 1) at 1 by lia. rewrite pow2_split by lia. reflexivity. }
  destruct (Z.leb_spec (2 ^ (w - 1)) v).
  - assert (Hq : v / 2 ^ (w - 1) = 1 /\ v mod 2 ^ (w - 1) = v - 2 ^ (w - 1)).
    { apply div_mod_unique_pos; lia. } tauto.
  - apply Z.div_small. lia.
Qed.

(* ------------------------------------------------------------------ word shifts *)
(** x << r : the low part of the product and the bits shifted out at the top *)
Lemma wshl_split x r : 0 <= x -> 0 <= r <= 64 ->
  x * 2 ^ r = B * (x / 2 ^ (64 - r)) + wshl x r /\ 0 <= wshl x r < B /\
  wshl x r = (x mod 2 ^ (64 - r)) * 2 ^ r.
Proof.
  intros Hx Hr. unfold wshl, wrap.
  pose proof (pow2_pos r ltac:(lia)). pose proof (pow2_pos (64 - r) ltac:(lia)).
  pose proof (B_split r Hr) as HB.
  pose proof (Z.div_mod x (2 ^ (64 - r)) ltac:(lia)) as Hdm.
  pose proof (Z.mod_pos_bound x (2 ^ (64 - r)) ltac:(lia)) as Hmb.
  set (q := x / 2 ^ (64 - r)) in *. set (m := x mod 2 ^ (64 - r)) in *.
  assert (Hlt : 0 <= m * 2 ^ r < B).
  { split; [apply Z.mul_nonneg_nonneg; lia|]. rewrite HB, (Z.mul_comm (2 ^ r)).
    apply Z.mul_lt_mono_pos_r; lia. }
  assert (Hq : (x * 2 ^ r) / B = q /\ (x * 2 ^ r) mod B = m * 2 ^ r).
  { apply div_mod_unique_pos; [lia|]. rewrite Hdm at 1. rewrite HB. ring. }
  destruct Hq as [Hq1 Hq2]. rewrite Hq2. repeat split; try lia.
Qed.

Lemma wshr_bound x r : 0 <= x < B -> 0 <= r <= 64 -> 0 <= wshr x r < 2 ^ (64 - r).
Proof.
  intros Hx Hr. unfold wshr. pose proof (pow2_pos r ltac:(lia)).
  split; [apply Z.div_pos; lia|]. apply Z.div_lt_upper_bound; [lia|].
  rewrite <- B_split by lia. lia.
Qed.

Lemma is_word_wshl x r : 0 <= x -> 0 <= r <= 64 -> is_word (wshl x r).
Proof. intros. unfold is_word. apply wshl_split; assumption. Qed.

Lemma is_word_wshr x r : is_word x -> 0 <= r <= 64 -> is_word (wshr x r).
Proof.
  unfold is_word. intros Hx Hr. pose proof (wshr_bound x r Hx Hr).
  pose proof (pow2_le (64 - r) 64 ltac:(lia)). rewrite <- B_val in *. lia.
Qed.

Lemma is_word_wor a b : is_word a -> is_word b -> is_word (wor a b).
Proof. unfold is_word, wor. rewrite B_val. intros. apply lor_bound; lia. Qed.
Lemma is_word_wand a b : is_word a -> is_word b -> is_word (wand a b).
Proof. unfold is_word, wand. rewrite B_val. intros. apply land_bound; lia. Qed.
Lemma is_word_wxor a b : is_word a -> is_word b -> is_word (wxor a b).
Proof. unfold is_word, wxor. rewrite B_val. intros. apply lxor_bound; lia. Qed.
Lemma is_word_wnot a : is_word a -> is_word (wnot a).
Proof. unfold is_word, wnot. pose proof MAXW_val. lia. Qed.
Lemma is_word_MAXW : is_word MAXW.
Proof. unfold is_word. pose proof MAXW_val. pose proof B_gt1. lia. Qed.
Lemma is_word_0' : is_word 0.
Proof. unfold is_word. pose proof B_gt1. lia. Qed.

(* ------------------------------------------------------------------ choices *)
Definition is_choice (c : Z) : Prop := c = 0 \/ c = MAXW.
Lemma choice_of_bool_is_choice b : is_choice (choice_of_bool b).
Proof. destruct b; [right|left]; reflexivity. Qed.
Lemma choice_to_bool_of_bool b : choice_to_bool (choice_of_bool b) = b.
Proof. destruct b; reflexivity. Qed.
Lemma choice_not_bool b : choice_not (choice_of_bool b) = choice_of_bool (negb b).
Proof. destruct b; vm_compute; reflexivity. Qed.
Lemma choice_and_bool a b : choice_and (choice_of_bool a) (choice_of_bool b) = choice_of_bool (a && b).
Proof. destruct a, b; vm_compute; reflexivity. Qed.
Lemma from_u32_lsb_bool (b : bool) : from_u32_lsb (b2z b) = choice_of_bool b.
Proof. destruct b; vm_compute; reflexivity. Qed.
Lemma choice_MAXW_iff b : choice_of_bool b =? MAXW = b.
Proof. destruct b; vm_compute; reflexivity. Qed.

Lemma if_true_u32_bool b x : 0 <= x < U32 -> if_true_u32 (choice_of_bool b) x = if b then x else 0.
Proof.
  intros Hx. unfold if_true_u32. destruct b.
  - change (as_u32_mask (choice_of_bool true)) with (Z.ones 32). rewrite Z.land_ones by lia.
    apply Z.mod_small. exact Hx.
  - change (as_u32_mask (choice_of_bool false)) with 0. apply Z.land_0_r.
Qed.

Lemma if_true_word_bool b x : is_word x -> if_true_word (choice_of_bool b) x = if b then x else 0.
Proof.
  intros Hx. unfold if_true_word. destruct b; simpl.
  - rewrite Z.land_comm. apply land_MAXW. exact Hx.
  - apply Z.land_0_r.
Qed.

(* ------------------------------------------------------------------ v != 0 mask, any width *)
Lemma nonzero_top w v : 0 < w -> 0 <= v < 2 ^ w ->
  Z.lor v ((- v) mod 2 ^ w) / 2 ^ (w - 1) = if v =? 0 then 0 else 1.
Proof.
  intros Hw Hv. pose proof (pow2_pos w ltac:(lia)). pose proof (pow2_pos (w - 1) ltac:(lia)).
  assert (E : 2 ^ w = 2 ^ (w - 1) * 2).
  { replace w with (w - 1 + 1) at 1 by lia. rewrite pow2_split by lia. reflexivity. }
  destruct (Z.eqb_spec v 0) as [->|Hnz].
  - simpl. rewrite Z.mod_0_l by lia. reflexivity.
  - assert (Hm : (- v) mod 2 ^ w = 2 ^ w - v).
    { symmetry. apply (Z.mod_unique_pos (- v) (2 ^ w) (-1)); lia. }
    rewrite Hm.
    pose proof (lor_bound v (2 ^ w - v) w ltac:(lia) ltac:(lia) ltac:(lia)) as Hb.
    rewrite top_bit_testbit by lia.
    rewrite Z.lor_spec.
    pose proof (top_bit_testbit v w Hw Hv) as T1. rewrite top_bit_ge in T1 by lia.
    pose proof (top_bit_testbit (2 ^ w - v) w Hw ltac:(lia)) as T2. rewrite top_bit_ge in T2 by lia.
    destruct (Z.leb_spec (2 ^ (w - 1)) v); destruct (Z.leb_spec (2 ^ (w - 1)) (2 ^ w - v));
      destruct (Z.testbit v (w - 1)); destruct (Z.testbit (2 ^ w - v) (w - 1)); simpl in *; try lia; reflexivity.
Qed.

Lemma from_word_nonzero_bool v : is_word v -> from_word_nonzero v = choice_of_bool (negb (v =? 0)).
Proof.
  unfold is_word. intros Hv. unfold from_word_nonzero, wor, wneg, wrap. rewrite B_val in *.
  change 63 with (64 - 1). rewrite nonzero_top by lia.
  destruct (v =? 0); vm_compute; reflexivity.
Qed.

Lemma from_u32_nonzero_bool v : 0 <= v < U32 -> from_u32_nonzero v = choice_of_bool (negb (v =? 0)).
Proof.
  unfold U32. intros Hv. unfold from_u32_nonzero, u32_wneg, U32.
  change 31 with (32 - 1). rewrite nonzero_top by lia.
  destruct (v =? 0); vm_compute; reflexivity.
Qed.

Lemma from_u32_eq_bool x y : 0 <= x < U32 -> 0 <= y < U32 -> from_u32_eq x y = choice_of_bool (x =? y).
Proof.
  unfold U32. intros Hx Hy. unfold from_u32_eq.
  rewrite from_u32_nonzero_bool by (unfold U32; apply lxor_bound; lia).
  fold (choice_not (choice_of_bool (negb (Z.lxor x y =? 0)))). rewrite choice_not_bool, negb_involutive.
  f_equal. destruct (Z.eqb_spec x y) as [->|Hne].
  - rewrite Z.lxor_nilpotent. reflexivity.
  - destruct (Z.eqb_spec (Z.lxor x y) 0) as [E|]; [|reflexivity]. apply Z.lxor_eq in E. contradiction.
Qed.

Lemma from_word_eq_bool x y : is_word x -> is_word y -> from_word_eq x y = choice_of_bool (x =? y).
Proof.
  intros Hx Hy. unfold from_word_eq.
  rewrite from_word_nonzero_bool by (apply is_word_wxor; assumption).
  fold (choice_not (choice_of_bool (negb (wxor x y =? 0)))). rewrite choice_not_bool, negb_involutive.
  f_equal. unfold wxor. destruct (Z.eqb_spec x y) as [->|Hne].
  - rewrite Z.lxor_nilpotent. reflexivity.
  - destruct (Z.eqb_spec (Z.lxor x y) 0) as [E|]; [|reflexivity]. apply Z.lxor_eq in E. contradiction.
Qed.

(* ------------------------------------------------------------------ x < y mask (Hacker's Delight 2-12) *)
Lemma from_u32_lt_bool x y : 0 <= x < U32 -> 0 <= y < U32 -> from_u32_lt x y = choice_of_bool (x <? y).
Proof.
  unfold U32. intros Hx Hy. unfold from_u32_lt, u32_not, u32_wsub, U32.
  set (nx := 2 ^ 32 - 1 - x). set (d := (x - y) mod 2 ^ 32).
  assert (Hnx : 0 <= nx < 2 ^ 32) by (unfold nx; lia).
  assert (Hd : 0 <= d < 2 ^ 32) by (apply Z.mod_pos_bound; lia).
  assert (Hdv : d = if x <? y then x - y + 2 ^ 32 else x - y).
  { unfold d. destruct (Z.ltb_spec x y).
    - symmetry. apply (Z.mod_unique_pos (x - y) (2 ^ 32) (-1)); lia.
    - apply Z.mod_small. lia. }
  pose proof (land_bound nx y 32 ltac:(lia) Hnx ltac:(lia)) as B1.
  pose proof (lor_bound nx y 32 ltac:(lia) Hnx Hy) as B2.
  pose proof (land_bound (Z.lor nx y) d 32 ltac:(lia) B2 ltac:(lia)) as B3.
  pose proof (lor_bound _ _ 32 ltac:(lia) B1 B3) as B4.
  change 31 with (32 - 1). rewrite top_bit_testbit by lia.
  rewrite Z.lor_spec, !Z.land_spec, Z.lor_spec.
  pose proof (top_bit_testbit nx 32 ltac:(lia) Hnx) as Tn. rewrite top_bit_ge in Tn by lia.
  pose proof (top_bit_testbit y 32 ltac:(lia) Hy) as Ty. rewrite top_bit_ge in Ty by lia.
  pose proof (top_bit_testbit d 32 ltac:(lia) Hd) as Td. rewrite top_bit_ge in Td by lia.
  change (32 - 1) with 31 in *.
  rewrite <- from_u32_lsb_bool. f_equal.
  assert (P31 : 2 ^ 31 = 2147483648) by reflexivity. assert (P32 : 2 ^ 32 = 4294967296) by reflexivity.
  destruct (Z.ltb_spec x y);
  destruct (Z.leb_spec (2 ^ 31) nx); destruct (Z.leb_spec (2 ^ 31) y); destruct (Z.leb_spec (2 ^ 31) d);
    destruct (Z.testbit nx 31); destruct (Z.testbit y 31); destruct (Z.testbit d 31);
    simpl in Tn, Ty, Td; try discriminate; simpl; try reflexivity; exfalso; unfold nx in *; lia.
Qed.

(* ------------------------------------------------------------------ bits of x + B * r *)
Lemma testbit_word_cons x r i : is_word x -> 0 <= i ->
  Z.testbit (x + B * r) i = if i <? 64 then Z.testbit x i else Z.testbit r (i - 64).
Proof.
  unfold is_word. intros Hx Hi. pose proof B_pos.
  assert (Hq : (x + B * r) / B = r /\ (x + B * r) mod B = x) by (apply div_mod_unique_pos; lia).
  destruct Hq as [Hq1 Hq2]. rewrite B_val in Hq1, Hq2.
  destruct (Z.ltb_spec i 64).
  - rewrite <- Hq2 at 2. rewrite B_val. symmetry. apply Z.mod_pow2_bits_low. lia.
  - rewrite <- Hq1 at 2. rewrite B_val. rewrite Z.div_pow2_bits by lia. f_equal. lia.
Qed.

(** the binary expansion of a limb list: bit i of the value is bit (i mod 64) of limb (i / 64) *)
Lemma testbit_eval ls : wf ls -> forall i, 0 <= i ->
  Z.testbit (eval ls) i = Z.testbit (nthz ls (Z.to_nat (i / 64))) (i mod 64).
Proof.
  induction ls as [|x ls IH]; intros Hw i Hi.
  - simpl. unfold nthz. destruct (Z.to_nat (i / 64)); simpl; rewrite !Z.bits_0; reflexivity.
  - apply wf_cons in Hw. destruct Hw as [Hx Hl]. cbn [eval].
    rewrite testbit_word_cons by assumption.
    destruct (Z.ltb_spec i 64).
    + rewrite Z.div_small, Z.mod_small by lia. reflexivity.
    + rewrite IH by (auto; lia).
      assert (Hq : i / 64 = (i - 64) / 64 + 1 /\ i mod 64 = (i - 64) mod 64).
      { pose proof (Z.div_mod (i - 64) 64 ltac:(lia)). pose proof (Z.mod_pos_bound (i - 64) 64 ltac:(lia)).
        apply div_mod_unique_pos; lia. }
      destruct Hq as [-> ->].
      assert (0 <= (i - 64) / 64) by (apply Z.div_pos; lia).
      rewrite Z2Nat.inj_add by lia. rewrite Nat.add_comm. reflexivity.
Qed.

Lemma testbit_eval_high ls i : wf ls -> 64 * Z.of_nat (length ls) <= i -> Z.testbit (eval ls) i = false.
Proof.
  intros Hw Hi. pose proof (eval_bounds ls Hw) as Hb. rewrite Bn_pow in Hb.
  apply (high_bits_false _ (64 * Z.of_nat (length ls))); lia.
Qed.

(* ------------------------------------------------------------------ bit length, leading zeros *)
Lemma bitlen_spec x : 0 < x -> 2 ^ (bitlen x - 1) <= x < 2 ^ bitlen x /\ 0 < bitlen x.
Proof.
  intros Hx. unfold bitlen. destruct (Z.leb_spec x 0); [lia|].
  pose proof (Z.log2_spec x Hx). pose proof (Z.log2_nonneg x).
  replace (Z.log2 x + 1 - 1) with (Z.log2 x) by lia. replace (Z.log2 x + 1) with (Z.succ (Z.log2 x)) by lia.
  lia.
Qed.

Lemma bitlen_unique x k : 0 < k -> 2 ^ (k - 1) <= x < 2 ^ k -> bitlen x = k.
Proof.
  intros Hk Hx. pose proof (pow2_pos (k - 1) ltac:(lia)).
  unfold bitlen. destruct (Z.leb_spec x 0); [lia|].
  rewrite (Z.log2_unique x (k - 1)); try lia. replace (Z.succ (k - 1)) with k by lia. lia.
Qed.

Lemma bitlen_0 : bitlen 0 = 0. Proof. reflexivity. Qed.

Lemma bitlen_bound x n : 0 <= n -> 0 <= x < 2 ^ n -> 0 <= bitlen x <= n.
Proof.
  intros Hn Hx. destruct (Z.eq_dec x 0) as [->|]; [rewrite bitlen_0; lia|].
  pose proof (bitlen_spec x ltac:(lia)) as [[H1 H2] H3].
  split; [lia|]. destruct (Z_le_gt_dec (bitlen x) n); [assumption|].
  pose proof (pow2_le n (bitlen x - 1) ltac:(lia)). lia.
Qed.

Lemma bitlen_zero_iff x : 0 <= x -> (bitlen x = 0 <-> x = 0).
Proof.
  intros Hx. split; [|intros ->; reflexivity].
  intros E. destruct (Z.eq_dec x 0); [assumption|]. pose proof (bitlen_spec x ltac:(lia)). lia.
Qed.

Lemma spec_bits_bitlen v : spec_bits v = bitlen v. Proof. reflexivity. Qed.

(** bit length of [x + B * e] *)
Lemma bitlen_cons x e : is_word x -> 0 <= e ->
  bitlen (x + B * e) = if e =? 0 then bitlen x else 64 + bitlen e.
Proof.
  unfold is_word. intros Hx He. destruct (Z.eqb_spec e 0) as [->|Hnz]; [f_equal; lia|].
  pose proof (bitlen_spec e ltac:(lia)) as [[H1 H2] H3].
  apply bitlen_unique; [lia|].
  replace (64 + bitlen e - 1) with (64 + (bitlen e - 1)) by lia.
  rewrite !pow2_split by lia. rewrite <- B_val. pose proof B_pos.
  split.
  - assert (B * 2 ^ (bitlen e - 1) <= B * e) by (apply Z.mul_le_mono_nonneg_l; lia). lia.
  - assert (B * (e + 1) <= B * 2 ^ bitlen e) by (apply Z.mul_le_mono_nonneg_l; lia). lia.
Qed.

Lemma wlz_range x : is_word x -> 0 <= wlz x <= 64.
Proof.
  unfold is_word, wlz. rewrite B_val. intros Hx. pose proof (bitlen_bound x 64 ltac:(lia) Hx). lia.
Qed.

(* ------------------------------------------------------------------ trailing zeros / ones of a word *)
Lemma ctz_fuel_spec f : forall x, 0 < x < 2 ^ Z.of_nat f ->
  let t := ctz_fuel f x in
  0 <= t < Z.of_nat f /\ Z.testbit x t = true /\ forall i, 0 <= i < t -> Z.testbit x i = false.
Proof.
  induction f as [|f IH]; intros x Hx.
  - simpl in Hx. lia.
  - cbn [ctz_fuel]. destruct (Z.odd x) eqn:Eo.
    + cbn zeta. repeat split; try lia. rewrite Z.bit0_odd. exact Eo.
    + assert (He : x = 2 * (x / 2)).
      { pose proof (Z.div_mod x 2 ltac:(lia)) as Hd. rewrite Zmod_odd, Eo in Hd. lia. }
      assert (Hx2 : 0 < x / 2 < 2 ^ Z.of_nat f).
      { rewrite Nat2Z.inj_succ, Z.pow_succ_r in Hx by lia. lia. }
      specialize (IH (x / 2) Hx2). cbn zeta in IH. destruct IH as (Ht & Hb & Hl).
      cbn zeta. set (t := ctz_fuel f (x / 2)) in *.
      repeat split; try lia.
      * rewrite He. replace (1 + t) with (Z.succ t) by lia. rewrite Z.testbit_even_succ by lia. exact Hb.
      * intros i Hi. destruct (Z.eq_dec i 0) as [->|].
        -- rewrite Z.bit0_odd. exact Eo.
        -- rewrite He. replace i with (Z.succ (i - 1)) by lia. rewrite Z.testbit_even_succ by lia.
           apply Hl. lia.
Qed.

(** [wtz x] is the index of the lowest set bit, or 64 for 0 *)
Lemma wtz_spec x : is_word x ->
  0 <= wtz x <= 64 /\ (wtz x = 64 <-> x = 0) /\
  (x <> 0 -> Z.testbit x (wtz x) = true) /\ forall i, 0 <= i < wtz x -> Z.testbit x i = false.
Proof.
  unfold is_word. rewrite B_val. intros Hx. unfold wtz. destruct (Z.eqb_spec x 0) as [->|Hnz].
  - repeat split; try lia. intros i _. apply Z.bits_0.
  - pose proof (ctz_fuel_spec 64 x ltac:(change (Z.of_nat 64) with 64; lia)) as H. cbn zeta in H.
    change (Z.of_nat 64) with 64 in H. destruct H as (Ht & Hb & Hl).
    repeat split; try lia; auto.
Qed.

Lemma wnot_testbit x i : is_word x -> 0 <= i < 64 -> Z.testbit (wnot x) i = negb (Z.testbit x i).
Proof.
  unfold is_word. intros Hx Hi. unfold wnot. rewrite MAXW_val.
  replace (B - 1 - x) with (Z.lnot x + 1 * B) by (unfold Z.lnot; lia).
  rewrite <- (Z.mod_pow2_bits_low _ 64) by lia. rewrite <- B_val.
  pose proof B_pos. rewrite Z.mod_add by lia. rewrite B_val, Z.mod_pow2_bits_low by lia.
  apply Z.lnot_spec. lia.
Qed.

Lemma wto_spec x : is_word x ->
  0 <= wto x <= 64 /\ (wto x = 64 <-> x = MAXW) /\
  (x <> MAXW -> Z.testbit x (wto x) = false) /\ forall i, 0 <= i < wto x -> Z.testbit x i = true.
Proof.
  intros Hx. unfold wto. pose proof (wtz_spec (wnot x) (is_word_wnot x Hx)) as (H1 & H2 & H3 & H4).
  assert (Hz : wnot x = 0 <-> x = MAXW) by (unfold wnot; lia).
  repeat split; try lia.
  - intros Hne. assert (Hnz : wnot x <> 0) by (intros E; apply Hne, Hz, E).
    specialize (H3 Hnz). assert (wtz (wnot x) <> 64) by (intros E; apply Hnz, H2, E).
    rewrite wnot_testbit in H3 by (auto; lia). destruct (Z.testbit x (wtz (wnot x))); [discriminate|reflexivity].
  - intros i Hi. specialize (H4 i Hi). rewrite wnot_testbit in H4 by (auto; lia).
    destruct (Z.testbit x i); [reflexivity|discriminate].
Qed.

(* ------------------------------------------------------------------ single-bit masks *)
Lemma land_pow2 x k : 0 <= k -> Z.land x (2 ^ k) = if Z.testbit x k then 2 ^ k else 0.
Proof.
  intros Hk. apply Z.bits_inj'. intros i Hi. rewrite Z.land_spec, Z.pow2_bits_eqb by lia.
  destruct (Z.eqb_spec k i) as [->|Hne].
  - rewrite andb_true_r. destruct (Z.testbit x i) eqn:E; [rewrite Z.pow2_bits_true by lia|rewrite Z.bits_0]; reflexivity.
  - rewrite andb_false_r. destruct (Z.testbit x k); [rewrite Z.pow2_bits_false by lia|rewrite Z.bits_0]; reflexivity.
Qed.

Lemma wshl_1 k : 0 <= k < 64 -> wshl 1 k = 2 ^ k.
Proof.
  intros Hk. unfold wshl, wrap. rewrite Z.mul_1_l. apply Z.mod_small.
  pose proof (pow2_pos k ltac:(lia)). pose proof (pow2_lt k 64 ltac:(lia)). rewrite B_val. lia.
Qed.
