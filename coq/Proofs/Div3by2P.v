(** C02: the 3-by-2 quotient estimate (Knuth's Algorithm D step D3 / Theorem B) as coded in div3by2. *)
From CB Require Import Model.Limbs Model.Div Proofs.WordP Proofs.LimbsP Proofs.DivP.
From Coq Require Import ZArith Lia List.
Open Scope Z_scope.

(** one correction round is an exact test of [q * V <= U] *)
Lemma div3by2_round_spec d v0 u0 T q rem :
  0 < d < B -> is_word v0 -> is_word u0 -> 0 <= q < B -> 0 <= rem -> q * d + rem = T ->
  div3by2_round v0 d u0 (q, rem) =
    if q * (d * B + v0) <=? T * B + u0 then (q, rem) else (q - 1, rem + d).
Proof.
  unfold is_word. intros Hd Hv0 Hu0 Hq Hrem HT. pose proof B_gt1 as HB. pose proof BB_val as HBB.
  unfold div3by2_round, sel, wsub, wrap, wrap2.
  assert (Hqv : 0 <= q * v0) by (apply Z.mul_nonneg_nonneg; lia).
  assert (Hqv2 : q * v0 <= (B - 1) * (B - 1)).
  { transitivity ((B - 1) * v0); [apply Z.mul_le_mono_nonneg_r; lia | apply Z.mul_le_mono_nonneg_l; lia]. }
  assert (HE : q * (d * B + v0) - (T * B + u0) = q * v0 - (rem * B + u0)).
  { subst T. ring. }
  destruct (Z_lt_ge_dec rem B) as [Hlt|Hge].
  - assert (Hdiv : rem / B = 0) by (apply Z.div_small; lia).
    rewrite Hdiv. change (0 =? 0) with true. cbn [negb orb].
    assert (Hrb : 0 <= rem * B) by (apply Z.mul_nonneg_nonneg; lia).
    assert (Hrb2 : rem * B <= (B - 1) * B) by (apply Z.mul_le_mono_nonneg_r; lia).
    rewrite (Z.mod_small (rem * B) BB) by (rewrite HBB; lia).
    destruct (q * v0 <=? rem * B + u0) eqn:E1.
    + apply Z.leb_le in E1. assert (q * (d * B + v0) <=? T * B + u0 = true) as -> by (apply Z.leb_le; lia).
      reflexivity.
    + apply Z.leb_gt in E1. assert (q * (d * B + v0) <=? T * B + u0 = false) as -> by (apply Z.leb_gt; lia).
      assert (q <> 0) by (intros ->; lia).
      rewrite Z.mod_small by lia. reflexivity.
  - assert (Hdiv : 1 <= rem / B) by (apply Z.div_le_lower_bound; lia).
    assert (rem / B =? 0 = false) as -> by (apply Z.eqb_neq; lia). cbn [negb orb].
    assert (B * B <= rem * B) by (apply Z.mul_le_mono_nonneg_r; lia).
    assert (q * (d * B + v0) <=? T * B + u0 = true) as -> by (apply Z.leb_le; lia).
    reflexivity.
Qed.

Definition U3 (u2 u1 u0 : Z) : Z := u2 * B * B + u1 * B + u0.

(** The estimate is the exact quotient of the top three dividend limbs by the top two divisor limbs,
    capped at B - 1 (the cap can only bind when u2 = d). *)
Theorem div3by2_correct u2 u1 u0 rc v0 :
  normalized (r_d rc) -> recip_ok (r_d rc) (r_v rc) ->
  is_word u1 -> is_word u0 -> is_word v0 -> 0 <= u2 <= r_d rc ->
  div3by2 u2 u1 u0 rc v0 = Z.min (U3 u2 u1 u0 / (r_d rc * B + v0)) (B - 1).
Proof.
  intros Hn Hrec Hu1 Hu0 Hv0 Hu2. pose proof B_gt1 as HB.
  set (d := r_d rc) in *. set (V := d * B + v0).
  assert (Hd : 0 < d < B) by (destruct Hn; lia).
  assert (Hd2 : B <= 2 * d) by (destruct Hn; lia).
  set (T := u2 * B + u1).
  assert (HU : U3 u2 u1 u0 = T * B + u0) by (unfold U3, T; ring).
  rewrite HU.
  (* the initial estimate *)
  assert (Hinit : exists q0 rem0,
    (let '(quo, rem) := div2by1 (sel (u2 =? d) u2 0) u1 rc in
     (sel (u2 =? d) quo MAXW, if u2 =? d then u2 + u1 else rem)) = (q0, rem0)
    /\ 0 <= q0 < B /\ 0 <= rem0 /\ q0 * d + rem0 = T
    /\ ((u2 < d /\ rem0 < d) \/ (u2 = d /\ q0 = B - 1))).
  { unfold sel. destruct (u2 =? d) eqn:Em.
    - apply Z.eqb_eq in Em.
      destruct (div2by1 0 u1 rc) as [quo rem]. exists MAXW, (u2 + u1).
      rewrite MAXW_val. unfold is_word in Hu1. unfold T. split; [reflexivity|].
      repeat split; lia.
    - apply Z.eqb_neq in Em.
      pose proof (div2by1_correct u2 u1 rc Hu1 ltac:(fold d; lia) Hn Hrec) as H.
      destruct (div2by1 u2 u1 rc) as [quo rem]. fold d in H. destruct H as (He & Hr & Hq).
      exists quo, rem. split; [reflexivity|]. unfold T. repeat split; try lia. }
  destruct Hinit as (q0 & rem0 & Einit & Hq0 & Hrem0 & HT & Hcase).
  unfold div3by2. fold d.
  destruct (div2by1 (sel (u2 =? d) u2 0) u1 rc) as [quo rem]. rewrite Einit. clear Einit.
  unfold is_word in *.
  assert (HV : 0 < V) by (unfold V; nia).
  assert (HUpos : 0 <= T * B + u0) by (unfold T; nia).
  rewrite (div3by2_round_spec d v0 u0 T q0 rem0) by (unfold is_word; auto; lia).
  fold V.
  (* characterisation of the result r *)
  assert (Hgoal : forall r, r * V <= T * B + u0 -> 0 <= r <= B - 1 ->
            (T * B + u0 < (r + 1) * V \/ r = B - 1) -> r = Z.min ((T * B + u0) / V) (B - 1)).
  { intros r H1 H2 H3.
    assert (Hle : r <= (T * B + u0) / V) by (apply Z.div_le_lower_bound; lia).
    destruct H3 as [H3| ->]; [|lia].
    assert ((T * B + u0) / V < r + 1) by (apply Z.div_lt_upper_bound; lia). lia. }
  (* the first estimate is not too small *)
  assert (Hup : T * B + u0 < (q0 + 1) * V \/ q0 = B - 1).
  { destruct Hcase as [[Hlt Hr]|[_ Hm]]; [left|right; assumption].
    assert ((T + 1) * B <= (q0 + 1) * d * B) by (apply Z.mul_le_mono_nonneg_r; lia).
    assert (0 <= (q0 + 1) * v0) by (apply Z.mul_nonneg_nonneg; lia).
    unfold V. lia. }
  destruct (q0 * V <=? T * B + u0) eqn:E1.
  - apply Z.leb_le in E1. cbn [fst].
    rewrite (div3by2_round_spec d v0 u0 T q0 rem0) by (unfold is_word; auto; lia). fold V.
    apply Z.leb_le in E1. rewrite E1. cbn [fst]. apply Z.leb_le in E1.
    apply Hgoal; lia.
  - apply Z.leb_gt in E1.
    assert (Hq1 : 1 <= q0) by (destruct (Z_lt_ge_dec q0 1); [assert (q0 = 0) by lia; subst q0; lia | lia]).
    rewrite (div3by2_round_spec d v0 u0 T (q0 - 1) (rem0 + d)) by (unfold is_word; auto; lia). fold V.
    destruct ((q0 - 1) * V <=? T * B + u0) eqn:E2; cbn [fst].
    + apply Z.leb_le in E2. apply Hgoal; try lia.
    + apply Z.leb_gt in E2.
      assert (Hq2 : q0 <> 1) by (intros ->; replace ((1 - 1) * V) with 0 in E2 by ring; lia).
      apply Hgoal; try lia.
      * (* Theorem B: two corrections are enough *)
        assert (Hqd : q0 * d <= T) by lia.
        assert (Hv : (q0 - 1 - 1) * v0 <= (B - 1) * (B - 1)).
        { destruct (Z_lt_ge_dec (q0 - 1 - 1) 0).
          - assert ((q0 - 1 - 1) * v0 <= 0) by (apply Z.mul_nonpos_nonneg; lia).
            assert (0 <= (B - 1) * (B - 1)) by (apply Z.mul_nonneg_nonneg; lia). lia.
          - transitivity ((B - 1) * v0); [apply Z.mul_le_mono_nonneg_r; lia | apply Z.mul_le_mono_nonneg_l; lia]. }
        assert (Hdd : B * B <= 2 * d * B) by (apply Z.mul_le_mono_nonneg_r; lia).
        assert (Hm : (q0 - 1 - 1) * V = (q0 * d) * B - 2 * d * B + (q0 - 1 - 1) * v0) by (unfold V; ring).
        assert (q0 * d * B <= T * B) by (apply Z.mul_le_mono_nonneg_r; lia).
        lia.
Qed.

(** when the leading dividend limb is below the leading divisor limb the cap does not bind *)
Corollary div3by2_exact u2 u1 u0 rc v0 :
  normalized (r_d rc) -> recip_ok (r_d rc) (r_v rc) ->
  is_word u1 -> is_word u0 -> is_word v0 -> 0 <= u2 <= r_d rc ->
  U3 u2 u1 u0 < (r_d rc * B + v0) * B ->
  div3by2 u2 u1 u0 rc v0 = U3 u2 u1 u0 / (r_d rc * B + v0).
Proof.
  intros Hn Hrec Hu1 Hu0 Hv0 Hu2 Hlt. rewrite div3by2_correct by assumption.
  apply Z.min_l. pose proof B_gt1. destruct Hn. unfold is_word in *.
  assert (0 < r_d rc * B + v0) by nia.
  assert (U3 u2 u1 u0 / (r_d rc * B + v0) < B) by (apply Z.div_lt_upper_bound; lia). lia.
Qed.

Lemma div3by2_word u2 u1 u0 rc v0 :
  normalized (r_d rc) -> recip_ok (r_d rc) (r_v rc) ->
  is_word u1 -> is_word u0 -> is_word v0 -> 0 <= u2 <= r_d rc ->
  is_word (div3by2 u2 u1 u0 rc v0).
Proof.
  intros Hn Hrec Hu1 Hu0 Hv0 Hu2. rewrite div3by2_correct by assumption.
  pose proof B_gt1. destruct Hn. unfold is_word, U3 in *.
  assert (0 < r_d rc * B + v0) by nia.
  assert (0 <= (u2 * B * B + u1 * B + u0) / (r_d rc * B + v0)) by (apply Z.div_pos; nia).
  lia.
Qed.
