(** C02: bit-length bookkeeping of the divisor, and the vartime normalisation / denormalisation shifts. *)
From CB Require Import Model.Limbs Model.Div Proofs.WordP Proofs.LimbsP Proofs.BitsP Proofs.DivP Proofs.Rem2kP
  Proofs.KnuthStepP.
From Coq Require Import ZArith Lia List.
Open Scope Z_scope.

(* ---------- bits_of ---------- *)
Lemma bits_of_spec v : 0 < v -> 1 <= bits_of v /\ 2 ^ (bits_of v - 1) <= v < 2 ^ bits_of v.
Proof.
  intros Hv. unfold bits_of. assert (v <=? 0 = false) as -> by (apply Z.leb_gt; lia).
  pose proof (Z.log2_nonneg v). pose proof (Z.log2_spec v Hv) as [H1 H2].
  replace (Z.log2 v + 1 - 1) with (Z.log2 v) by lia. replace (Z.log2 v + 1) with (Z.succ (Z.log2 v)) by lia.
  repeat split; lia.
Qed.

Lemma bits_of_0 v : v <= 0 -> bits_of v = 0.
Proof. intros. unfold bits_of. assert (v <=? 0 = true) as -> by (apply Z.leb_le; lia). reflexivity. Qed.

(** number of significant limbs and the normalising shift, as computed by the division routines *)
Definition nlimbs (v : Z) : nat := Z.to_nat ((bits_of v + 63) / 64).
Definition nshift (v : Z) : Z := (64 - bits_of v mod 64) mod 64.

Lemma nlimbs_spec v : 0 < v ->
  (1 <= nlimbs v)%nat /\ 0 <= nshift v < 64 /\ nshift v = 64 * Z.of_nat (nlimbs v) - bits_of v /\
  Bn (nlimbs v - 1) <= v < Bn (nlimbs v) /\ Bn (nlimbs v) <= 2 * (v * 2 ^ nshift v) /\ v * 2 ^ nshift v < Bn (nlimbs v).
Proof.
  intros Hv. destruct (bits_of_spec v Hv) as (Hb1 & Hlo & Hhi). unfold nlimbs, nshift.
  set (b := bits_of v) in *.
  pose proof (Z.div_mod (b + 63) 64 ltac:(lia)) as Hdm. pose proof (Z.mod_pos_bound (b + 63) 64 ltac:(lia)) as Hmb.
  set (k := (b + 63) / 64) in *. set (t := (b + 63) mod 64) in *.
  assert (Hk : 1 <= k) by lia.
  (* b = 64 (k - 1) + (t + 1), 1 <= t + 1 <= 64 *)
  assert (Hbm : b mod 64 = (t + 1) mod 64).
  { replace b with ((t + 1) + (k - 1) * 64) by lia. apply Z.mod_add. lia. }
  assert (Hsh : (64 - b mod 64) mod 64 = 63 - t).
  { rewrite Hbm. destruct (Z.eq_dec t 63) as [->|Hne].
    - reflexivity.
    - rewrite (Z.mod_small (t + 1) 64) by lia. rewrite Z.mod_small by lia. lia. }
  rewrite Hsh. rewrite Z2Nat.id by lia.
  assert (Hnat : Z.of_nat (Z.to_nat k - 1) = k - 1) by lia.
  rewrite !Bn_pow2. rewrite Hnat, Z2Nat.id by lia.
  assert (Hs : 63 - t = 64 * k - b) by lia.
  split; [lia|]. split; [lia|]. split; [lia|].
  assert (Hp1 : 2 ^ (64 * (k - 1)) <= 2 ^ (b - 1)) by (apply Z.pow_le_mono_r; lia).
  assert (Hp2 : 2 ^ b <= 2 ^ (64 * k)) by (apply Z.pow_le_mono_r; lia).
  assert (Hp3 : 2 ^ (64 * k) = 2 ^ b * 2 ^ (63 - t)) by (rewrite <- Z.pow_add_r by lia; f_equal; lia).
  assert (Hp4 : 2 ^ b = 2 * 2 ^ (b - 1)) by (rewrite <- Z.pow_succ_r by lia; f_equal; lia).
  assert (Hp5 : 0 < 2 ^ (63 - t)) by (apply Z.pow_pos_nonneg; lia).
  split; [lia|]. rewrite Hp3, Hp4. split.
  - assert (2 ^ (b - 1) * 2 ^ (63 - t) <= v * 2 ^ (63 - t)) by (apply Z.mul_le_mono_nonneg_r; lia). lia.
  - rewrite <- Hp4. apply Z.mul_lt_mono_pos_r; lia.
Qed.

Lemma nlimbs_le_length y : wf y -> 0 < eval y -> (nlimbs (eval y) <= length y)%nat.
Proof.
  intros Hw Hp. destruct (nlimbs_spec _ Hp) as (H1 & _ & _ & [Hlo _] & _).
  pose proof (eval_bounds y Hw) as Hb.
  destruct (le_lt_dec (nlimbs (eval y)) (length y)) as [|Hgt]; [assumption|].
  assert (Bn (length y) <= Bn (nlimbs (eval y) - 1)) by (apply Bn_le; lia). lia.
Qed.

(** the top 64 significant bits of a positive integer, left-aligned: the normalised leading divisor limb *)
Definition top64 (v : Z) : Z := (v * 2 ^ 64) / 2 ^ bits_of v.

Lemma top64_shifted v : 0 < v -> top64 v = (v * 2 ^ nshift v) / Bn (nlimbs v - 1).
Proof.
  intros Hv. destruct (nlimbs_spec v Hv) as (H1 & Hs & Hse & _). destruct (bits_of_spec v Hv) as (Hb1 & _).
  unfold top64. rewrite Bn_pow2.
  set (a := nshift v) in *. set (k := nlimbs v) in *.
  assert (Hb : bits_of v = 64 * Z.of_nat (k - 1) + (64 - a)) by lia.
  rewrite Hb. rewrite Z.pow_add_r by lia.
  replace (2 ^ 64) with (2 ^ a * 2 ^ (64 - a)) by (rewrite <- Z.pow_add_r by lia; f_equal; lia).
  rewrite Z.mul_assoc.
  assert (0 < 2 ^ (64 - a)) by (apply Z.pow_pos_nonneg; lia).
  assert (0 < 2 ^ (64 * Z.of_nat (k - 1))) by (apply Z.pow_pos_nonneg; lia).
  rewrite Z.div_mul_cancel_r by lia. reflexivity.
Qed.

Lemma top64_normalized v : 0 < v -> normalized (top64 v).
Proof.
  intros Hv. rewrite top64_shifted by assumption.
  destruct (nlimbs_spec v Hv) as (H1 & Hs & Hse & _ & Hlo & Hhi).
  set (V := v * 2 ^ nshift v) in *. set (k := nlimbs v) in *.
  assert (Hk : Bn k = B * Bn (k - 1)) by (rewrite <- Bn_S; f_equal; lia).
  pose proof (Bn_pos (k - 1)) as Hp. pose proof B_gt1. pose proof B_half.
  pose proof (Z.div_mod V (Bn (k - 1)) ltac:(lia)) as Hdm. pose proof (Z.mod_pos_bound V (Bn (k - 1)) Hp) as Hmb.
  set (q := V / Bn (k - 1)) in *. unfold normalized. split.
  - destruct (Z_lt_ge_dec (2 * q) B) as [Hlt|]; [|lia]. exfalso.
    assert (2 * q + 2 <= B) by lia.
    assert (Bn (k - 1) * (2 * q + 2) <= Bn (k - 1) * B) by (apply Z.mul_le_mono_nonneg_l; lia). lia.
  - apply Z.div_lt_upper_bound; lia.
Qed.

(** the top limb of a limb list *)
Lemma eval_snoc l a : eval (l ++ [a]) = eval l + Bn (length l) * a.
Proof. rewrite eval_app. cbn [eval]. ring. Qed.

Lemma top_limb_div l a : wf l -> (eval (l ++ [a])) / Bn (length l) = a.
Proof.
  intros Hw. rewrite eval_snoc. pose proof (eval_bounds l Hw). pose proof (Bn_pos (length l)).
  apply (div_mod_unique_pos (Bn (length l)) a (eval l)); lia.
Qed.

(* ---------- Reciprocal::new on an already normalised limb ---------- *)
Lemma recip_new_normalized d : normalized d -> recip_new d = {| r_d := d; r_shift := 0; r_v := reciprocal d |}.
Proof.
  intros [H1 H2]. pose proof B_half. pose proof B_val. pose proof p63_pos.
  assert (Hd : 0 < d) by lia.
  assert (Hl : Z.log2 d = 63).
  { apply Z.log2_unique; [lia|]. split; [lia|]. replace (63 + 1) with 64 by lia. lia. }
  unfold recip_new, leading_zeros_word, bits_of. assert (d <=? 0 = false) as -> by (apply Z.leb_gt; lia).
  rewrite Hl. replace (64 - (63 + 1)) with 0 by lia.
  assert (Hw : wshl d 0 = d) by (unfold wshl, wrap; rewrite Z.pow_0_r, Z.mul_1_r; apply Z.mod_small; lia).
  rewrite Hw. reflexivity.
Qed.

Lemma recip_new_top64 d : 0 < d < B -> r_d (recip_new d) = top64 d.
Proof.
  intros Hd. unfold recip_new, top64, leading_zeros_word. cbn [r_d].
  destruct (bits_of_spec d ltac:(lia)) as (Hb1 & Hlo & Hhi). set (b := bits_of d) in *.
  assert (Hb64 : b <= 64).
  { destruct (Z_lt_ge_dec 64 b); [|lia]. assert (2 ^ 64 <= 2 ^ (b - 1)) by (apply Z.pow_le_mono_r; lia).
    rewrite B_val in Hd. lia. }
  assert (Hp : 2 ^ 64 = 2 ^ (64 - b) * 2 ^ b) by (rewrite <- Z.pow_add_r by lia; f_equal; lia).
  assert (0 < 2 ^ b) by (apply Z.pow_pos_nonneg; lia).
  assert (0 < 2 ^ (64 - b)) by (apply Z.pow_pos_nonneg; lia).
  unfold wshl, wrap. rewrite Z.mod_small.
  - rewrite Hp, Z.mul_assoc, Z.div_mul by lia. reflexivity.
  - rewrite B_val, Hp. split; [apply Z.mul_nonneg_nonneg; lia|]. rewrite (Z.mul_comm d). apply Z.mul_lt_mono_pos_l; lia.
Qed.

(* ---------- shl_limb_vartime ---------- *)
Lemma shl_limb_vartime_full x s : wf x -> 0 <= s < 64 ->
  let '(r, c) := shl_limb_vartime x s (length x) in
  eval r + Bn (length x) * c = eval x * 2 ^ s /\ wf r /\ length r = length x /\ 0 <= c < 2 ^ s.
Proof.
  intros Hw Hs. unfold shl_limb_vartime. destruct (s =? 0) eqn:Es.
  - apply Z.eqb_eq in Es. subst s. rewrite Z.pow_0_r. repeat split; auto; lia.
  - rewrite firstn_all, Nat.sub_diag.
    pose proof (shl_limb_correct x s Hw Hs) as H. destruct (shl_limb x s) as [r c].
    destruct H as (He & Hwr & Hl & Hc). cbn [zeros repeat]. rewrite app_nil_r. auto.
Qed.

(** the low k limbs hold the whole value and the shifted value still fits k limbs *)
Lemma shl_limb_vartime_low y s k : wf y -> 0 <= s < 64 -> (k <= length y)%nat -> eval y * 2 ^ s < Bn k ->
  exists yw yb, fst (shl_limb_vartime y s k) = yw ++ yb /\ length yw = k /\ wf yw /\ wf yb /\
    eval yw = eval y * 2 ^ s /\ eval yb = 0 /\ length (yw ++ yb) = length y.
Proof.
  intros Hw Hs Hk Hfit. pose proof (Bn_pos k) as HBk.
  assert (H2s : 0 < 2 ^ s) by (apply Z.pow_pos_nonneg; lia).
  pose proof (eval_firstn_skipn k y) as Hsplit. rewrite firstn_length_le in Hsplit by assumption.
  pose proof (eval_bounds _ (wf_firstn k y Hw)) as Hbf. rewrite firstn_length_le in Hbf by assumption.
  pose proof (eval_nonneg _ (wf_skipn k y Hw)) as Hbs.
  assert (Hy1 : eval y < Bn k).
  { assert (eval y * 1 <= eval y * 2 ^ s) by (apply Z.mul_le_mono_nonneg_l; [apply eval_nonneg; assumption | lia]). lia. }
  assert (Hsk : eval (skipn k y) = 0).
  { destruct (Z.eq_dec (eval (skipn k y)) 0) as [|Hne]; [assumption|]. exfalso.
    assert (Bn k * 1 <= Bn k * eval (skipn k y)) by (apply Z.mul_le_mono_nonneg_l; lia). lia. }
  assert (Hfe : eval (firstn k y) = eval y) by lia.
  unfold shl_limb_vartime. destruct (s =? 0) eqn:Es.
  - apply Z.eqb_eq in Es. subst s. cbn [fst]. exists (firstn k y), (skipn k y).
    rewrite firstn_skipn, Z.pow_0_r, Z.mul_1_r.
    repeat split; auto using wf_firstn, wf_skipn. apply firstn_length_le. assumption.
  - pose proof (shl_limb_correct (firstn k y) s (wf_firstn k y Hw) Hs) as H.
    destruct (shl_limb (firstn k y) s) as [r c]. rewrite firstn_length_le in H by assumption.
    destruct H as (He & Hwr & Hl & Hc). cbn [fst].
    pose proof (eval_bounds r Hwr) as Hbr. rewrite Hl in Hbr.
    assert (Hc0 : c = 0).
    { destruct (Z.eq_dec c 0) as [|Hne]; [assumption|]. exfalso.
      assert (Bn k * 1 <= Bn k * c) by (apply Z.mul_le_mono_nonneg_l; lia). rewrite Hfe in He. lia. }
    exists r, (zeros (length y - k)). subst c.
    repeat split; auto using wf_zeros, eval_zeros.
    + rewrite Hfe in He. lia.
    + rewrite app_length, length_zeros. lia.
Qed.

(* ---------- shr_limb_go / shr_limb_vartime ---------- *)
Lemma shr_limb_go_correct s : 0 < s < 64 -> forall x, wf x ->
  eval (shr_limb_go x s) * 2 ^ s + (hd 0 x) mod 2 ^ s = eval x /\ wf (shr_limb_go x s) /\
  length (shr_limb_go x s) = length x.
Proof.
  intros Hs x. induction x as [|wd r IH]; intros Hw.
  - cbn [shr_limb_go eval hd length]. rewrite Z.mod_0_l by (apply Z.pow_nonzero; lia). split; [lia|]. split; [apply wf_nil|reflexivity].
  - apply wf_cons in Hw. destruct Hw as [Hwd Hr]. specialize (IH Hr). destruct IH as (IHe & IHw & IHl).
    assert (H2s : 0 < 2 ^ s) by (apply Z.pow_pos_nonneg; lia).
    assert (H2t : 0 < 2 ^ (64 - s)) by (apply Z.pow_pos_nonneg; lia).
    assert (Hp : B = 2 ^ (64 - s) * 2 ^ s) by (rewrite B_val, <- Z.pow_add_r by lia; f_equal; lia).
    pose proof (Z.div_mod wd (2 ^ s) ltac:(lia)) as Hdm. pose proof (Z.mod_pos_bound wd (2 ^ s) H2s) as Hmb.
    assert (Hq : 0 <= wd / 2 ^ s < 2 ^ (64 - s)).
    { unfold is_word in Hwd. split; [apply Z.div_pos; lia | apply Z.div_lt_upper_bound; lia]. }
    assert (Hle : 2 ^ (64 - s) <= B).
    { assert (2 ^ (64 - s) * 1 <= 2 ^ (64 - s) * 2 ^ s) by (apply Z.mul_le_mono_nonneg_l; lia). lia. }
    cbn [shr_limb_go hd eval length]. destruct r as [|nx r'].
    + cbn [shr_limb_go eval]. rewrite Z.lor_0_r. split; [lia|]. split; [|reflexivity].
      apply wf_cons. split; [unfold is_word in *; lia | apply wf_nil].
    + apply wf_cons in Hr. destruct Hr as [Hnx Hr'].
      destruct (wshl_split nx (64 - s) Hnx ltac:(lia)) as (Hsplit & Hhi & k & Hk & Hk0).
      replace (64 - (64 - s)) with s in * by lia.
      assert (Hlor : Z.lor (wd / 2 ^ s) (wshl nx (64 - s)) = wshl nx (64 - s) + wd / 2 ^ s).
      { rewrite Z.lor_comm, Hk. apply lor_disjoint; lia. }
      rewrite Hlor. cbn [hd] in IHe.
      pose proof (Z.div_mod nx (2 ^ s) ltac:(lia)) as Hdn.
      assert (Hws : wshl nx (64 - s) * 2 ^ s = B * (nx mod 2 ^ s)).
      { assert (nx * 2 ^ (64 - s) * 2 ^ s = (nx / 2 ^ s * B + wshl nx (64 - s)) * 2 ^ s) by (rewrite Hsplit; reflexivity).
        replace (nx * 2 ^ (64 - s) * 2 ^ s) with (nx * B) in * by (rewrite Hp; ring). lia. }
      split; [|split].
      * set (E := eval (shr_limb_go (nx :: r') s)) in *. lia.
      * apply wf_cons. split; [|assumption]. unfold is_word.
        assert (0 <= wshl nx (64 - s)) by (rewrite Hk; apply Z.mul_nonneg_nonneg; lia).
        assert (wshl nx (64 - s) + 2 ^ (64 - s) <= B).
        { assert (Hlt : k * 2 ^ (64 - s) < B) by (rewrite <- Hk; unfold wshl, wrap; pose proof B_pos; apply Z.mod_pos_bound; lia).
          rewrite Hk. rewrite Hp in *. assert (k < 2 ^ s) by (apply (Z.mul_lt_mono_pos_l (2 ^ (64 - s))); lia).
          assert ((k + 1) * 2 ^ (64 - s) <= 2 ^ s * 2 ^ (64 - s)) by (apply Z.mul_le_mono_nonneg_r; lia). lia. }
        lia.
      * cbn [length] in *. lia.
Qed.

Lemma shr_limb_go_div s x : 0 < s < 64 -> wf x -> eval (shr_limb_go x s) = eval x / 2 ^ s.
Proof.
  intros Hs Hw. destruct (shr_limb_go_correct s Hs x Hw) as (He & _).
  assert (H2s : 0 < 2 ^ s) by (apply Z.pow_pos_nonneg; lia).
  pose proof (Z.mod_pos_bound (hd 0 x) (2 ^ s) H2s).
  symmetry. apply (div_mod_unique_pos (2 ^ s) _ (hd 0 x mod 2 ^ s)); lia.
Qed.

(** r = rl ++ tail, |rl| = k, the tail is worth 0: the shifted list is worth eval rl / 2^s and keeps length/wf *)
Lemma shr_limb_vartime_correct rl tl s : wf rl -> wf tl -> eval tl = 0 -> 0 <= s < 64 ->
  let r := shr_limb_vartime (rl ++ tl) s (length rl) in
  eval r = eval rl / 2 ^ s /\ wf r /\ length r = length (rl ++ tl).
Proof.
  intros Hrl Htl Het Hs. unfold shr_limb_vartime. destruct (s =? 0) eqn:Es.
  - apply Z.eqb_eq in Es. subst s. cbv zeta. rewrite eval_app, Het, Z.pow_0_r, Z.div_1_r.
    split; [lia|]. split; [apply wf_app; auto | reflexivity].
  - apply Z.eqb_neq in Es. assert (Hs' : 0 < s < 64) by lia. cbv zeta.
    rewrite firstn_app, Nat.sub_diag, firstn_all. cbn [firstn]. rewrite app_nil_r.
    destruct (shr_limb_go_correct s Hs' rl Hrl) as (_ & Hw & Hl).
    rewrite eval_app, eval_zeros, shr_limb_go_div by assumption.
    split; [lia|]. split; [apply wf_app; auto using wf_zeros|].
    rewrite !app_length, length_zeros, Hl. lia.
Qed.
