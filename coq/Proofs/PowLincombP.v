(** C09 proofs, part 5: src/modular/lincomb.rs, limb level.
    impl_longa_monty_lincomb! returns EXACTLY (sum a_i*b_i + Q*m) / R in (u, hi_carry): no carry of the two-level
    accumulator (hi, hi_carry) is ever lost, for any number of terms below 2^64 - 2.  When the terms of one call
    satisfy sum a_i*b_i < m*R (guaranteed by count <= 2^leading_zeros) the value is below 2m, so hi_carry <= 1 and the
    single conditional subtraction of sub_mod_with_carry returns the canonical residue; the window drivers of the
    three representations therefore return the canonical sum for ANY number of terms. *)
From CB Require Import Model.Limbs Model.AddSub Model.ModArith Model.Cmp Model.Pow
  Proofs.WordP Proofs.LimbsP Proofs.AddSubP Proofs.WordPredP Proofs.CmpWordP Proofs.CmpP
  Proofs.ModArithP Proofs.PowMathP Proofs.PowLadderP Proofs.PowFixedP.
From Coq Require Import ZArith Lia List Bool.
Open Scope Z_scope.
Notation length := List.length.

Ltac inv_triple E := apply pair_equal_spec in E; let E1 := fresh E in destruct E as [E1 <-]; inv_pair E1.

(* ------------------------------------------------------------------ *)
(** * one multiply-accumulate row *)

Lemma mac_row_spec u : forall b aj carry r cf,
  wf u -> wf b -> length u = length b -> is_word aj -> is_word carry ->
  mac_row u b aj carry = (r, cf) ->
  eval r + Bn (length u) * cf = eval u + aj * eval b + carry /\ wf r /\ length r = length u /\ is_word cf.
Proof.
  induction u as [|x u IH]; intros b aj carry r cf Hu Hb Hl Ha Hc E.
  - destruct b; [|discriminate]. cbn [mac_row] in E. inv_pair E. cbn [eval length]. rewrite Bn_0.
    split; [lia|]. split; [apply wf_nil|]. split; [reflexivity | assumption].
  - destruct b as [|y b]; [discriminate|]. cbn [length] in Hl.
    apply wf_cons in Hu. destruct Hu as [Hx Hu]. apply wf_cons in Hb. destruct Hb as [Hy Hb].
    cbn [mac_row] in E. destruct (mac x aj y carry) as [v cy] eqn:E1.
    destruct (mac_row u b aj cy) as [r' cf'] eqn:E2. inv_pair E.
    pose proof (mac_exact _ _ _ _ _ _ Hx Ha Hy Hc E1) as (H1 & Hv & Hcy).
    destruct (IH b aj cy r' cf' Hu Hb ltac:(lia) Ha Hcy E2) as (H2 & Hr & Hlr & Hcf).
    cbn [eval length]. rewrite Bn_S.
    split; [|split; [apply wf_cons; split; assumption | split; [lia | assumption]]].
    replace (aj * (y + B * eval b)) with (aj * y + B * (aj * eval b)) by ring. nia.
Qed.

Lemma red_row_is_mac_row u : forall m q carry, red_row u m q carry = mac_row u m q carry.
Proof.
  induction u as [|x u IH]; intros m q carry; [destruct m; reflexivity|].
  destruct m as [|y m]; [reflexivity|]. cbn [red_row mac_row]. destruct (mac x q y carry) as [v cy]. rewrite IH. reflexivity.
Qed.

(* ------------------------------------------------------------------ *)
(** * sums *)

Fixpoint row_sum (prods : list (list Z * list Z)) (j : nat) : Z :=
  match prods with [] => 0 | ab :: r => nthz (fst ab) j * eval (snd ab) + row_sum r j end.
(** sum of (a_i mod B^j) * b_i : what has been accumulated after j outer iterations *)
Fixpoint part_sum (prods : list (list Z * list Z)) (j : nat) : Z :=
  match prods with [] => 0 | ab :: r => (eval (fst ab) mod Bn j) * eval (snd ab) + part_sum r j end.
Fixpoint lin_sum (prods : list (list Z * list Z)) : Z :=
  match prods with [] => 0 | ab :: r => eval (fst ab) * eval (snd ab) + lin_sum r end.

Definition term_ok (n : nat) (ab : list Z * list Z) : Prop :=
  wf (fst ab) /\ length (fst ab) = n /\ wf (snd ab) /\ length (snd ab) = n.

Lemma part_sum_0 prods : part_sum prods 0 = 0.
Proof. induction prods as [|ab r IH]; [reflexivity|]. cbn [part_sum]. rewrite IH, Bn_0, Z.mod_1_r. lia. Qed.

Lemma part_sum_S prods j : Forall (fun ab => wf (fst ab)) prods ->
  part_sum prods (S j) = part_sum prods j + Bn j * row_sum prods j.
Proof.
  induction prods as [|ab r IH]; intros H; [cbn; lia|].
  inversion H as [|ab' r' Ha Hr]; subst. cbn [part_sum row_sum]. rewrite IH by assumption.
  rewrite nthz_eval by assumption. rewrite Bn_S. pose proof (Bn_pos j). pose proof B_pos.
  rewrite (Z.mul_comm B (Bn j)). rewrite Z.rem_mul_r by lia. ring.
Qed.

Lemma part_sum_full n prods : Forall (term_ok n) prods -> part_sum prods n = lin_sum prods.
Proof.
  induction prods as [|ab r IH]; intros H; [reflexivity|].
  inversion H as [|ab' r' (Ha & Hla & _) Hr]; subst ab' r'. cbn [part_sum lin_sum]. rewrite IH by assumption.
  pose proof (eval_bounds _ Ha) as Hb. rewrite Hla in Hb. rewrite Z.mod_small by assumption. reflexivity.
Qed.

Lemma lin_sum_app p q : lin_sum (p ++ q) = lin_sum p + lin_sum q.
Proof. induction p as [|ab r IH]; [reflexivity|]. cbn [app lin_sum]. rewrite IH. lia. Qed.

Lemma lin_sum_nonneg n prods : Forall (term_ok n) prods -> 0 <= lin_sum prods.
Proof.
  induction prods as [|ab r IH]; intros H; [cbn; lia|].
  inversion H as [|ab' r' (Ha & _ & Hb & _) Hr]; subst ab' r'. cbn [lin_sum]. specialize (IH Hr).
  pose proof (eval_nonneg _ Ha). pose proof (eval_nonneg _ Hb).
  assert (0 <= eval (fst ab) * eval (snd ab)) by (apply Z.mul_nonneg_nonneg; assumption). lia.
Qed.

(* ------------------------------------------------------------------ *)
(** * the accumulation over the terms: (u, hi, hi_carry) is a three-level exact accumulator *)

Section Acc.
Variable n : nat.

Lemma acc_terms_spec j prods : forall u hi hic u' hi' hic',
  Forall (term_ok n) prods -> wf u -> length u = n -> is_word hi -> 0 <= hic ->
  hic + Z.of_nat (length prods) < B ->
  acc_terms prods j u hi hic = (u', hi', hic') ->
  eval u' + Bn n * (hi' + B * hic') = eval u + Bn n * (hi + B * hic) + row_sum prods j
  /\ wf u' /\ length u' = n /\ is_word hi' /\ hic <= hic' <= hic + Z.of_nat (length prods).
Proof.
  induction prods as [|[a b] r IH]; intros u hi hic u' hi' hic' Hp Hu Hl Hhi Hc Hlen E.
  - cbn [acc_terms] in E. inv_triple E. cbn [row_sum length]. split; [lia|]. split; [assumption|]. split; [assumption|]. split; [assumption | lia].
  - inversion Hp as [|ab' r' (Ha & Hla & Hb & Hlb) Hr]; subst ab' r'. cbn [fst snd] in *.
    cbn [acc_terms] in E. cbn [length] in Hlen. rewrite Nat2Z.inj_succ in Hlen.
    destruct (mac_row u b (nthz a j) 0) as [u1 carry] eqn:E1.
    destruct (adc hi carry 0) as [hi1 c1] eqn:E2.
    assert (Haj : is_word (nthz a j)) by (rewrite nthz_eval by assumption; apply is_word_mod).
    destruct (mac_row_spec u b (nthz a j) 0 u1 carry Hu Hb ltac:(lia) Haj is_word_0 E1) as (H1 & Hu1 & Hl1 & Hcy).
    destruct (adc_exact hi carry 0 hi1 c1 Hhi Hcy is_word_0 E2) as (H2 & Hhi1 & _).
    pose proof (adc_carry_small hi carry 0 hi1 c1 Hhi Hcy ltac:(lia) E2) as Hc1.
    assert (Hw : wadd hic c1 = hic + c1) by (unfold wadd, wrap; apply Z.mod_small; lia).
    rewrite Hw in E.
    destruct (IH u1 hi1 (hic + c1) u' hi' hic' Hr Hu1 ltac:(lia) Hhi1 ltac:(lia) ltac:(lia) E) as (H3 & Hu' & Hl' & Hhi' & Hr').
    cbn [row_sum fst snd length]. rewrite Nat2Z.inj_succ.
    split; [|split; [assumption|]; split; [assumption|]; split; [assumption | lia]].
    rewrite H3. rewrite Hl in H1. nia.
Qed.
End Acc.

(* ------------------------------------------------------------------ *)
(** * one Montgomery reduction step: divide the accumulator by B exactly *)

Section Red.
Variable n : nat.
Variables (mL : list Z) (ninv : Z).
Hypothesis HmL : wf mL.
Hypothesis HmLn : length mL = n.
Hypothesis Hninv : is_word ninv.
Hypothesis Hinv : (eval mL * ninv + 1) mod B = 0.

Lemma red_step_spec u hi hic u2 hic2 : wf u -> length u = n -> n <> 0%nat -> is_word hi -> 0 <= hic -> hic + 2 < B ->
  red_step u mL ninv hi hic = (u2, hic2) ->
  exists q, 0 <= q < B /\
  B * (eval u2 + Bn n * hic2) = eval u + Bn n * (hi + B * hic) + q * eval mL
  /\ wf u2 /\ length u2 = n /\ hic <= hic2 <= hic + 2.
Proof.
  intros Hu Hl Hn Hhi Hc Hcb E. unfold red_step in E.
  destruct u as [|u0 ut]; [cbn [length] in Hl; lia|].
  destruct mL as [|m0 mt] eqn:EmL; [cbn [length] in HmLn; lia|].
  apply wf_cons in Hu. destruct Hu as [Hu0 Hut]. apply wf_cons in HmL. destruct HmL as [Hm0 Hmt].
  set (q := wmul u0 ninv) in *.
  assert (Hq : is_word q) by (unfold q, wmul, wrap; apply is_word_mod).
  destruct (mac u0 q m0 0) as [lo carry] eqn:E1.
  destruct (red_row ut mt q carry) as [r carry'] eqn:E2.
  destruct (adc hi carry' 0) as [top c2] eqn:E3. inv_pair E.
  pose proof (mac_exact _ _ _ _ _ _ Hu0 Hq Hm0 is_word_0 E1) as (H1 & Hlo & Hcy).
  (* the low word cancels *)
  assert (Hlo0 : lo = 0).
  { assert (Hz : (u0 + q * m0) mod B = 0).
    { unfold q, wmul, wrap. rewrite Zplus_mod, mulmod_l, <- Zplus_mod.
      replace (u0 + u0 * ninv * m0) with (u0 * (m0 * ninv + 1)) by ring.
      assert (Hm0' : (m0 * ninv + 1) mod B = 0).
      { rewrite <- Hinv. cbn [eval]. replace ((m0 + B * eval mt) * ninv + 1) with (m0 * ninv + 1 + (eval mt * ninv) * B) by ring.
        symmetry. apply Z.mod_add. pose proof B_pos. lia. }
      rewrite <- mulmod_r, Hm0', Z.mul_0_r. apply Zmod_0_l. }
    unfold is_word in Hlo. pose proof B_pos as HBp.
    assert (Hlm : lo mod B = 0).
    { replace lo with (u0 + q * m0 + (- carry) * B) by lia. rewrite Z.mod_add by lia. assumption. }
    rewrite Z.mod_small in Hlm by lia. assumption. }
  subst lo. rewrite red_row_is_mac_row in E2. cbn [length] in Hl, HmLn.
  destruct (mac_row_spec ut mt q carry r carry' Hut Hmt ltac:(lia) Hq Hcy E2) as (H2 & Hr & Hlr & Hcy').
  destruct (adc_exact hi carry' 0 top c2 Hhi Hcy' is_word_0 E3) as (H3 & Htop & _).
  pose proof (adc_carry_small hi carry' 0 top c2 Hhi Hcy' ltac:(lia) E3) as Hc2.
  assert (Hw : wadd hic c2 = hic + c2) by (unfold wadd, wrap; apply Z.mod_small; lia).
  rewrite Hw. exists q. split; [exact Hq|].
  assert (Hn' : n = S (length ut)) by lia.
  split; [|split; [apply wf_app; split; [assumption | apply wf_cons; split; [assumption | apply wf_nil]]
                  | split; [rewrite app_length; cbn [length]; lia | lia]]].
  rewrite eval_app. cbn [eval]. rewrite Hlr. rewrite Hn', Bn_S. set (R' := Bn (length ut)) in *.
  nia.
Qed.
End Red.

(* ------------------------------------------------------------------ *)
(** * the whole macro: exact division by R of (sum a_i*b_i + Q*m) *)

Section Longa.
Variable n : nat.
Variables (mL : list Z) (ninv : Z).
Hypothesis HmL : wf mL.
Hypothesis HmLn : length mL = n.
Hypothesis Hn : n <> 0%nat.
Hypothesis Hninv : is_word ninv.
Hypothesis Hinv : (eval mL * ninv + 1) mod B = 0.
Notation M := (eval mL).
Notation R := (Bn n).

Lemma lincomb_loop_spec prods : Forall (term_ok n) prods -> Z.of_nat (length prods) + 4 < B ->
  forall cnt j u hic u' hic', (j + cnt = n)%nat -> wf u -> length u = n ->
  0 <= hic <= Z.of_nat (length prods) + 2 ->
  (exists Q, 0 <= Q < Bn j /\ (eval u + R * hic) * Bn j = part_sum prods j + Q * M) ->
  lincomb_loop prods mL ninv j cnt u hic = (u', hic') ->
  wf u' /\ length u' = n /\ 0 <= hic' /\
  exists Q, 0 <= Q < R /\ (eval u' + R * hic') * R = part_sum prods n + Q * M.
Proof.
  intros Hp Hlen. induction cnt as [|c IH]; intros j u hic u' hic' Hj Hu Hl Hc HQ E.
  - cbn [lincomb_loop] in E. inv_pair E. replace j with n in HQ by lia.
    split; [assumption|]. split; [assumption|]. split; [lia | exact HQ].
  - cbn [lincomb_loop] in E.
    destruct (acc_terms prods j u hic 0) as [[u1 hi] hic1] eqn:E1.
    destruct (red_step u1 mL ninv hi hic1) as [u2 hic2] eqn:E2.
    assert (Hhw : is_word hic) by (unfold is_word; lia).
    destruct (acc_terms_spec n j prods u hic 0 u1 hi hic1 Hp Hu Hl Hhw ltac:(lia) ltac:(lia) E1)
      as (H1 & Hu1 & Hl1 & Hhi & Hc1).
    destruct (red_step_spec n mL ninv HmL HmLn Hinv u1 hi hic1 u2 hic2 Hu1 Hl1 Hn Hhi ltac:(lia) ltac:(lia) E2)
      as (q & Hq & H2 & Hu2 & Hl2 & Hc2).
    apply (IH (S j) u2 hic2 u' hic'); try assumption; try lia.
    destruct HQ as (Q & HQr & HQe).
    exists (Q + q * Bn j). pose proof (Bn_pos j) as Hbj. rewrite Bn_S.
    split.
    + split; [assert (0 <= q * Bn j) by (apply Z.mul_nonneg_nonneg; lia); lia|].
      assert (q * Bn j <= (B - 1) * Bn j) by (apply Z.mul_le_mono_nonneg_r; lia). lia.
    + rewrite part_sum_S.
      2:{ apply Forall_impl with (2 := Hp). intros ab (Ha & _). exact Ha. }
      replace ((eval u2 + R * hic2) * (B * Bn j)) with (B * (eval u2 + R * hic2) * Bn j) by ring.
      rewrite H2, H1. replace (hic + B * 0) with hic by lia.
      replace ((eval u + R * hic + row_sum prods j + q * M) * Bn j)
        with ((eval u + R * hic) * Bn j + Bn j * row_sum prods j + q * Bn j * M) by ring.
      rewrite HQe. ring.
Qed.

(** hi_carry never loses a carry: the returned pair is the exact quotient *)
Theorem longa_exact prods u c : Forall (term_ok n) prods -> Z.of_nat (length prods) + 4 < B ->
  longa_lincomb prods mL ninv = (u, c) ->
  wf u /\ length u = n /\ 0 <= c /\
  exists Q, 0 <= Q < R /\ (eval u + R * c) * R = lin_sum prods + Q * M.
Proof.
  intros Hp Hlen E. unfold longa_lincomb in E. rewrite HmLn in E.
  destruct (lincomb_loop_spec prods Hp Hlen n 0%nat (zeros n) 0 u c ltac:(lia) (wf_zeros n) (length_zeros n) ltac:(lia)) as (H1 & H2 & H3 & Q & HQ & HE); try assumption.
  - exists 0. rewrite Bn_0, eval_zeros, part_sum_0. lia.
  - rewrite (part_sum_full n) in HE by assumption. split; [assumption|]. split; [assumption|]. split; [assumption|].
    exists Q. split; assumption.
Qed.

(** inside one window (sum < m*R) the accumulator stays below 2m: hi_carry <= 1 *)
Theorem lincomb_window_bound prods u c : Forall (term_ok n) prods -> Z.of_nat (length prods) + 4 < B ->
  0 < M <= R -> lin_sum prods < M * R ->
  longa_lincomb prods mL ninv = (u, c) ->
  0 <= eval u + R * c < 2 * M /\ 0 <= c <= 1 /\ ((eval u + R * c) * R) mod M = lin_sum prods mod M
  /\ wf u /\ length u = n.
Proof.
  intros Hp Hlen HM Hs E. destruct (longa_exact prods u c Hp Hlen E) as (Hu & Hl & Hc & Q & HQ & HE).
  pose proof (eval_bounds u Hu) as Bu. rewrite Hl in Bu. pose proof (Bn_pos n) as HR.
  assert (HQM : Q * M <= (R - 1) * M) by (apply Z.mul_le_mono_nonneg_r; lia).
  assert (HW : eval u + R * c < 2 * M).
  { apply Z.mul_lt_mono_pos_r with R; [assumption|]. rewrite HE. lia. }
  assert (Hc1 : c <= 1).
  { destruct (Z_le_gt_dec c 1); [assumption|]. assert (R * 2 <= R * c) by (apply Z.mul_le_mono_nonneg_l; lia). lia. }
  split; [split; [assert (0 <= R * c) by (apply Z.mul_nonneg_nonneg; lia); lia | assumption]|].
  split; [lia|]. split; [rewrite HE; apply Z.mod_add; lia|]. split; assumption.
Qed.
End Longa.

(* ------------------------------------------------------------------ *)
(** * sub_mod_with_carry *)

Lemma carry_mask_0 b : is_word b -> carry_mask 0 b = b.
Proof. intros Hb. unfold carry_mask. change (wnot (wneg 0)) with MAXW. apply wand_MAXW_l. assumption. Qed.
Lemma carry_mask_1 b : carry_mask 1 b = 0.
Proof. unfold carry_mask. change (wnot (wneg 1)) with 0. apply wand_0_l. Qed.

Lemma smwc_spec dbg a carry p : wf a -> wf p -> length a = length p -> length a <> 0%nat -> 0 <= carry <= 1 ->
  0 < eval p -> 0 <= eval a + Bn (length a) * carry < 2 * eval p ->
  exists r, sub_mod_with_carry dbg a carry p p = Some r /\
            eval r = (eval a + Bn (length a) * carry) mod eval p /\ wf r /\ length r = length a.
Proof.
  intros Ha Hp Hl Hn Hc Hp0 HV. unfold sub_mod_with_carry.
  replace (dbg && (1 <? carry))%bool with false by (symmetry; apply andb_false_iff; right; apply Z.ltb_ge; lia).
  destruct (sbb_limbs a p 0) as [out borrow] eqn:E.
  pose proof (sbb_limbs_correct a p 0 out borrow Ha Hp Hl is_word_0 E) as (Hw & Hlo & [(Hz & _)|(_ & Hib & He)]); [contradiction|].
  rewrite bin_0 in He.
  pose proof (eval_bounds a Ha) as Ba. pose proof (eval_bounds p Hp) as Bp. rewrite <- Hl in Bp.
  pose proof (eval_bounds out Hw) as Bo. rewrite Hlo in Bo. set (N := Bn (length a)) in *.
  assert (Hmask : is_borrow (carry_mask carry borrow) /\
                  bout (carry_mask carry borrow) = if carry =? 0 then bout borrow else 0).
  { assert (carry = 0 \/ carry = 1) as [-> | ->] by lia.
    - rewrite carry_mask_0 by (apply is_borrow_word; assumption). split; [assumption | reflexivity].
    - rewrite carry_mask_1. split; [left; reflexivity | reflexivity]. }
  destruct Hmask as [Him Hbm].
  pose proof (bitand_limb_borrow p _ Hp Him) as (Hpe & Hpw & Hpl).
  pose proof (wrapping_add_spec out (bitand_limb p (carry_mask carry borrow)) Hw Hpw ltac:(lia)) as (Hre & Hrw & Hrl).
  eexists. split; [reflexivity|]. split; [|split; [assumption | lia]].
  rewrite Hre, Hpe, Hbm, Hlo. fold N.
  assert (carry = 0 \/ carry = 1) as [-> | ->] by lia.
  - change (0 =? 0) with true. cbv iota. replace (eval a + N * 0) with (eval a) by lia.
    destruct Hib as [-> | ->]; rewrite ?bout_0, ?bout_MAXW in *.
    + rewrite (mod_once (eval a)) by lia. rewrite Z.mod_small by lia. lia.
    + rewrite (Z.mod_small (eval a)) by lia. symmetry. apply (Z.mod_unique_pos _ N 1); lia.
  - change (1 =? 0) with false. cbv iota.
    destruct Hib as [-> | ->]; rewrite ?bout_0, ?bout_MAXW in *.
    + lia.
    + rewrite (mod_once (eval a + N * 1)) by lia. rewrite Z.mod_small by lia. lia.
Qed.

(** the boxed variant (sbb_assign, conditional_adc_assign) computes the same limbs *)
Lemma boxed_smwc_eq dbg a carry p : wf a -> wf p -> length a = length p -> length a <> 0%nat -> 0 <= carry <= 1 ->
  boxed_sub_mod_with_carry dbg a carry p p = sub_mod_with_carry dbg a carry p p.
Proof.
  intros Ha Hp Hl Hn Hc. unfold boxed_sub_mod_with_carry, sub_mod_with_carry.
  destruct (dbg && (1 <? carry))%bool; [reflexivity|].
  destruct (sbb_limbs a p 0) as [out borrow] eqn:E.
  pose proof (sbb_limbs_correct a p 0 out borrow Ha Hp Hl is_word_0 E) as (Hw & Hlo & [(Hz & _)|(_ & Hib & He)]); [contradiction|].
  f_equal. unfold uint_wrapping_add. f_equal. f_equal. f_equal.
  assert (carry = 0 \/ carry = 1) as [-> | ->] by lia.
  - rewrite carry_mask_0 by (apply is_borrow_word; assumption).
    destruct Hib as [-> | ->]; vm_compute; reflexivity.
  - rewrite carry_mask_1. vm_compute. reflexivity.
Qed.

(* ------------------------------------------------------------------ *)
(** * the three drivers: any number of terms *)

Section Drivers.
Variable n : nat.
Variables (mL : list Z) (ninv lz : Z).
Hypothesis HmL : wf mL.
Hypothesis HmLn : length mL = n.
Hypothesis Hn : n <> 0%nat.
Hypothesis Hninv : is_word ninv.
Hypothesis Hinv : (eval mL * ninv + 1) mod B = 0.
Notation M := (eval mL).
Notation R := (Bn n).
Hypothesis HM : 0 < M.
Hypothesis Hlz : 0 <= lz <= 63.
Hypothesis Hlzm : M * 2 ^ lz <= R.          (* lz does not exceed the real number of leading zero bits *)

Definition mterm_ok (ab : list Z * list Z) : Prop := Mf n M (fst ab) /\ Mf n M (snd ab).

Lemma mterm_term prods : Forall mterm_ok prods -> Forall (term_ok n) prods.
Proof.
  intros H. apply Forall_impl with (2 := H). intros ab ((H1 & H2 & _) & (H3 & H4 & _)). repeat split; assumption.
Qed.

Lemma lin_sum_bound prods : Forall mterm_ok prods -> lin_sum prods <= Z.of_nat (length prods) * ((M - 1) * (M - 1)).
Proof.
  induction prods as [|ab r IH]; intros H; [cbn; lia|].
  inversion H as [|ab' r' ((Ha & _ & Hla) & (Hb & _ & Hlb)) Hr]; subst ab' r'. specialize (IH Hr).
  cbn [lin_sum length]. rewrite Nat2Z.inj_succ.
  pose proof (eval_nonneg _ Ha). pose proof (eval_nonneg _ Hb).
  assert (eval (fst ab) * eval (snd ab) <= (M - 1) * (M - 1)) by (apply Z.mul_le_mono_nonneg; lia).
  lia.
Qed.

Lemma pow_lz_range : 1 <= 2 ^ lz <= 2 ^ 63.
Proof.
  split; [assert (0 < 2 ^ lz) by (apply Z.pow_pos_nonneg; lia); lia | apply Z.pow_le_mono_r; lia].
Qed.

Lemma MleR : M <= R.
Proof.
  pose proof pow_lz_range. assert (M * 1 <= M * 2 ^ lz) by (apply Z.mul_le_mono_nonneg_l; lia). lia.
Qed.

(** one accumulation window followed by sub_mod_with_carry *)
Lemma window_ok dbg w : Forall mterm_ok w -> Z.of_nat (length w) <= 2 ^ lz ->
  exists buf, (let '(u, c) := longa_lincomb w mL ninv in sub_mod_with_carry dbg u c mL mL) = Some buf /\
              Mf n M buf /\ (eval buf * R) mod M = lin_sum w mod M.
Proof.
  intros Hw Hlen. pose proof pow_lz_range as Hp. pose proof MleR as HMR. pose proof (Bn_pos n) as HR.
  assert (HlenB : Z.of_nat (length w) + 4 < B) by (rewrite B_val; change (2 ^ 64) with (2 * 2 ^ 63); change (2 ^ 63) with 9223372036854775808 in *; lia).
  assert (Hsum : lin_sum w < M * R).
  { pose proof (lin_sum_bound w Hw) as Hb.
    assert (H1 : Z.of_nat (length w) * ((M - 1) * (M - 1)) <= 2 ^ lz * ((M - 1) * (M - 1))).
    { apply Z.mul_le_mono_nonneg_r; [apply Z.mul_nonneg_nonneg; lia | assumption]. }
    assert (H2 : 2 ^ lz * ((M - 1) * (M - 1)) <= (M * 2 ^ lz) * (M - 1)).
    { replace (2 ^ lz * ((M - 1) * (M - 1))) with ((M - 1) * 2 ^ lz * (M - 1)) by ring.
      apply Z.mul_le_mono_nonneg_r; [lia|]. apply Z.mul_le_mono_nonneg_r; lia. }
    assert (H3 : M * 2 ^ lz * (M - 1) <= R * (M - 1)) by (apply Z.mul_le_mono_nonneg_r; lia).
    assert (H4 : R * (M - 1) < M * R) by lia. lia. }
  destruct (longa_lincomb w mL ninv) as [u c] eqn:E.
  destruct (lincomb_window_bound n mL ninv HmL HmLn Hn Hinv w u c (mterm_term w Hw) HlenB ltac:(lia) Hsum E)
    as (HW & Hc & Hcong & Hu & Hl).
  destruct (smwc_spec dbg u c mL Hu HmL ltac:(lia) ltac:(lia) Hc HM ltac:(rewrite Hl; exact HW)) as (r & Hr & Her & Hrw & Hrl).
  exists r. split; [exact Hr|]. rewrite Hl in Her.
  pose proof (Z.mod_pos_bound (eval u + R * c) M HM).
  split; [split; [assumption | split; [lia | lia]]|].
  rewrite Her, mulmod_l. exact Hcong.
Qed.

(** the accumulation bound in terms of the term count: at most 2^lz terms below m keep the two-level carry at <= 1
    (no word of the accumulator (u, hi, hi_carry) overflows) and the reduced value below 2m *)
Theorem lincomb_count_bound w u c : Forall mterm_ok w -> Z.of_nat (length w) <= 2 ^ lz ->
  longa_lincomb w mL ninv = (u, c) ->
  0 <= c <= 1 /\ 0 <= eval u + R * c < 2 * M /\ ((eval u + R * c) * R) mod M = lin_sum w mod M /\ wf u /\ length u = n.
Proof.
  intros Hw Hlen E. pose proof pow_lz_range as Hp. pose proof MleR as HMR. pose proof (Bn_pos n) as HR.
  assert (HlenB : Z.of_nat (length w) + 4 < B) by (rewrite B_val; change (2 ^ 64) with (2 * 2 ^ 63); change (2 ^ 63) with 9223372036854775808 in *; lia).
  assert (Hsum : lin_sum w < M * R).
  { pose proof (lin_sum_bound w Hw) as Hb.
    assert (H1 : Z.of_nat (length w) * ((M - 1) * (M - 1)) <= 2 ^ lz * ((M - 1) * (M - 1))).
    { apply Z.mul_le_mono_nonneg_r; [apply Z.mul_nonneg_nonneg; lia | assumption]. }
    assert (H2 : 2 ^ lz * ((M - 1) * (M - 1)) <= (M * 2 ^ lz) * (M - 1)).
    { replace (2 ^ lz * ((M - 1) * (M - 1))) with ((M - 1) * 2 ^ lz * (M - 1)) by ring.
      apply Z.mul_le_mono_nonneg_r; [lia|]. apply Z.mul_le_mono_nonneg_r; lia. }
    assert (H3 : M * 2 ^ lz * (M - 1) <= R * (M - 1)) by (apply Z.mul_le_mono_nonneg_r; lia).
    assert (H4 : R * (M - 1) < M * R) by lia. lia. }
  destruct (lincomb_window_bound n mL ninv HmL HmLn Hn Hinv w u c (mterm_term w Hw) HlenB ltac:(lia) Hsum E)
    as (HW & Hc & Hcong & Hu & Hl).
  split; [exact Hc|]. split; [exact HW|]. split; [exact Hcong|]. split; assumption.
Qed.

Lemma firstn_skipn_Forall {A} (P : A -> Prop) c l : Forall P l -> Forall P (firstn c l) /\ Forall P (skipn c l).
Proof. intros H. rewrite <- (firstn_skipn c l) in H. apply Forall_app in H. exact H. Qed.

Lemma split_count_range prods : prods <> [] ->
  (1 <= split_count prods (2 ^ lz) <= length prods)%nat /\ Z.of_nat (split_count prods (2 ^ lz)) <= 2 ^ lz.
Proof.
  intros Hne. pose proof pow_lz_range. unfold split_count.
  assert (0 < length prods)%nat by (destruct prods; [contradiction | cbn [length]; lia]). lia.
Qed.

Lemma lincomb_windows_spec dbg : forall fuel prods ret, (length prods <= fuel)%nat -> Forall mterm_ok prods -> Mf n M ret ->
  exists z, lincomb_windows fuel dbg prods mL ninv (2 ^ lz) ret = Some z /\ Mf n M z /\
            (eval z * R) mod M = (eval ret * R + lin_sum prods) mod M.
Proof.
  induction fuel as [|f IH]; intros prods ret Hf Hp Hret.
  - destruct prods; [|cbn [length] in Hf; lia]. cbn [lincomb_windows lin_sum]. exists ret. rewrite Z.add_0_r. split; [reflexivity|]. split; [assumption | reflexivity].
  - destruct prods as [|ab0 rest0] eqn:Ep.
    + cbn [lincomb_windows lin_sum]. exists ret. rewrite Z.add_0_r. split; [reflexivity|]. split; [assumption | reflexivity].
    + rewrite <- Ep in *. assert (Hne : prods <> []) by (rewrite Ep; discriminate).
      replace (lincomb_windows (S f) dbg prods mL ninv (2 ^ lz) ret) with
        (let count := split_count prods (2 ^ lz) in
         let '(buf, carry) := longa_lincomb (firstn count prods) mL ninv in
         match sub_mod_with_carry dbg buf carry mL mL with
         | None => None
         | Some buf' => lincomb_windows f dbg (skipn count prods) mL ninv (2 ^ lz) (add_mod ret buf' mL)
         end) by (rewrite Ep; reflexivity).
      cbv zeta. destruct (split_count_range prods Hne) as [Hc1 Hc2]. set (count := split_count prods (2 ^ lz)) in *.
      destruct (firstn_skipn_Forall mterm_ok count prods Hp) as [Hw Hr].
      destruct (window_ok dbg (firstn count prods) Hw ltac:(rewrite firstn_length_le by lia; assumption)) as (buf & Hb & Hbm & Hbc).
      destruct (longa_lincomb (firstn count prods) mL ninv) as [u c]. rewrite Hb.
      destruct Hret as (Hrw & Hrl & Hrlt). destruct Hbm as (Hbw & Hbl & Hblt).
      destruct (add_mod_correct ret buf mL Hrw Hbw HmL ltac:(lia) ltac:(lia) Hrlt Hblt) as (Hae & Haw & Hal).
      assert (Hret' : Mf n M (add_mod ret buf mL)).
      { split; [assumption|]. split; [lia|]. rewrite Hae. apply Z.mod_pos_bound. assumption. }
      destruct (IH (skipn count prods) (add_mod ret buf mL) ltac:(rewrite skipn_length; lia) Hr Hret') as (z & Hz & Hzm & Hzc).
      exists z. split; [exact Hz|]. split; [exact Hzm|].
      assert (Hsplit : lin_sum prods = lin_sum (firstn count prods) + lin_sum (skipn count prods)) by (rewrite <- lin_sum_app, firstn_skipn; reflexivity).
      rewrite Hzc, Hae, Hsplit.
      rewrite Zplus_mod, mulmod_l, <- Zplus_mod.
      replace ((eval ret + eval buf) * R + lin_sum (skipn count prods)) with (eval buf * R + (eval ret * R + lin_sum (skipn count prods))) by ring.
      rewrite Zplus_mod, Hbc, <- Zplus_mod. f_equal. ring.
Qed.

(** lincomb_monty_form / lincomb_const_monty_form: canonical, and R * result = sum a_i*b_i (mod m), ANY term count *)
Theorem lincomb_fixed_correct dbg prods : Forall mterm_ok prods ->
  exists z, lincomb_fixed dbg prods mL ninv lz = Some z /\ Mf n M z /\ (eval z * R) mod M = lin_sum prods mod M.
Proof.
  intros Hp. unfold lincomb_fixed. cbv zeta.
  destruct (Z.leb_spec (Z.of_nat (length prods)) (2 ^ lz)) as [Hle|Hgt].
  - apply (window_ok dbg prods Hp Hle).
  - rewrite HmLn.
    destruct (lincomb_windows_spec dbg (length prods) prods (zeros n) (le_n _) Hp) as (z & Hz & Hzm & Hzc).
    { split; [apply wf_zeros|]. split; [apply length_zeros | rewrite eval_zeros; assumption]. }
    exists z. split; [exact Hz|]. split; [exact Hzm|]. rewrite Hzc, eval_zeros. f_equal.
Qed.

(** BoxedMontyForm: the in-place forms give the same limbs *)
Lemma boxed_add_step dbg ret buf : Mf n M ret -> Mf n M buf ->
  (let '(s, c) := adc_limbs ret buf 0 in boxed_sub_mod_with_carry dbg s c mL mL) = Some (add_mod ret buf mL).
Proof.
  intros (Hrw & Hrl & Hrlt) (Hbw & Hbl & Hblt).
  destruct (adc_limbs ret buf 0) as [s c] eqn:E.
  pose proof (adc_limbs_correct ret buf 0 s c Hrw Hbw ltac:(lia) is_word_0 E) as (He & Hs & Hls & Hco & Hsm).
  specialize (Hsm ltac:(lia)). unfold is_word in Hco.
  pose proof (eval_nonneg ret Hrw). pose proof (eval_nonneg buf Hbw).
  rewrite boxed_smwc_eq by (try assumption; lia).
  destruct (smwc_spec dbg s c mL Hs HmL ltac:(lia) ltac:(lia) ltac:(lia) HM ltac:(rewrite Hls; lia)) as (r & Hr & Her & Hrw' & Hrl').
  rewrite Hr. f_equal.
  destruct (add_mod_correct ret buf mL Hrw Hbw HmL ltac:(lia) ltac:(lia) Hrlt Hblt) as (Hae & Haw & Hal).
  apply eval_inj; try assumption; [lia|]. rewrite Her, Hae, Hls. f_equal. lia.
Qed.

Lemma boxed_windows_eq dbg : forall fuel prods ret, Forall mterm_ok prods -> Mf n M ret ->
  boxed_lincomb_windows fuel dbg prods mL ninv (2 ^ lz) ret = lincomb_windows fuel dbg prods mL ninv (2 ^ lz) ret.
Proof.
  induction fuel as [|f IH]; intros prods ret Hp Hret; [reflexivity|].
  destruct prods as [|ab0 rest0] eqn:Ep; [reflexivity|].
  rewrite <- Ep in *. assert (Hne : prods <> []) by (rewrite Ep; discriminate).
  replace (boxed_lincomb_windows (S f) dbg prods mL ninv (2 ^ lz) ret) with
    (let count := split_count prods (2 ^ lz) in
     let '(buf, carry) := longa_lincomb (firstn count prods) mL ninv in
     match boxed_sub_mod_with_carry dbg buf carry mL mL with
     | None => None
     | Some buf' =>
         let '(s, c) := adc_limbs ret buf' 0 in
         match boxed_sub_mod_with_carry dbg s c mL mL with
         | None => None
         | Some ret' => boxed_lincomb_windows f dbg (skipn count prods) mL ninv (2 ^ lz) ret'
         end
     end) by (rewrite Ep; reflexivity).
  replace (lincomb_windows (S f) dbg prods mL ninv (2 ^ lz) ret) with
    (let count := split_count prods (2 ^ lz) in
     let '(buf, carry) := longa_lincomb (firstn count prods) mL ninv in
     match sub_mod_with_carry dbg buf carry mL mL with
     | None => None
     | Some buf' => lincomb_windows f dbg (skipn count prods) mL ninv (2 ^ lz) (add_mod ret buf' mL)
     end) by (rewrite Ep; reflexivity).
  cbv zeta. destruct (split_count_range prods Hne) as [Hc1 Hc2]. set (count := split_count prods (2 ^ lz)) in *.
  destruct (firstn_skipn_Forall mterm_ok count prods Hp) as [Hw Hr].
  destruct (window_ok dbg (firstn count prods) Hw ltac:(rewrite firstn_length_le by lia; assumption)) as (buf & Hb & Hbm & Hbc).
  destruct (longa_lincomb (firstn count prods) mL ninv) as [u c] eqn:El.
  assert (Hbox : boxed_sub_mod_with_carry dbg u c mL mL = sub_mod_with_carry dbg u c mL mL).
  { pose proof pow_lz_range as Hpw. pose proof MleR. pose proof (Bn_pos n).
    assert (HlenB : Z.of_nat (length (firstn count prods)) + 4 < B).
    { rewrite firstn_length_le by lia. rewrite B_val; change (2 ^ 64) with (2 * 2 ^ 63); change (2 ^ 63) with 9223372036854775808 in *; lia. }
    destruct (longa_exact n mL ninv HmL HmLn Hn Hinv (firstn count prods) u c (mterm_term _ Hw) HlenB El) as (Hu & Hl & Hc0 & _).
    destruct (Z_le_gt_dec c 1) as [Hc1'|Hc1'].
    - apply boxed_smwc_eq; try assumption; lia.
    - unfold boxed_sub_mod_with_carry, sub_mod_with_carry.
      destruct dbg; cbn [andb].
      + replace (1 <? c) with true by (symmetry; apply Z.ltb_lt; lia). reflexivity.
      + exfalso. (* c > 1 is impossible inside a window *)
        assert (Hsum : lin_sum (firstn count prods) < M * R).
        { pose proof (lin_sum_bound _ Hw) as Hb0. rewrite firstn_length_le in Hb0 by lia.
          assert (H1 : Z.of_nat count * ((M - 1) * (M - 1)) <= 2 ^ lz * ((M - 1) * (M - 1))).
          { apply Z.mul_le_mono_nonneg_r; [apply Z.mul_nonneg_nonneg; lia | assumption]. }
          assert (H2 : 2 ^ lz * ((M - 1) * (M - 1)) <= (M * 2 ^ lz) * (M - 1)).
          { replace (2 ^ lz * ((M - 1) * (M - 1))) with ((M - 1) * 2 ^ lz * (M - 1)) by ring.
            apply Z.mul_le_mono_nonneg_r; [lia|]. apply Z.mul_le_mono_nonneg_r; lia. }
          assert (H3 : M * 2 ^ lz * (M - 1) <= R * (M - 1)) by (apply Z.mul_le_mono_nonneg_r; lia).
          lia. }
        destruct (lincomb_window_bound n mL ninv HmL HmLn Hn Hinv _ u c (mterm_term _ Hw) HlenB ltac:(lia) Hsum El) as (_ & Hcc & _).
        lia. }
  rewrite Hbox, Hb.
  pose proof (boxed_add_step dbg ret buf Hret Hbm) as Hstep.
  destruct (adc_limbs ret buf 0) as [s cs] eqn:Ea. rewrite Hstep.
  destruct Hret as (Hrw & Hrl & Hrlt). destruct Hbm as (Hbw & Hbl & Hblt).
  destruct (add_mod_correct ret buf mL Hrw Hbw HmL ltac:(lia) ltac:(lia) Hrlt Hblt) as (Hae & Haw & Hal).
  apply IH; [assumption|].
  split; [assumption|]. split; [lia|]. rewrite Hae. apply Z.mod_pos_bound. assumption.
Qed.

Theorem lincomb_boxed_correct dbg prods : Forall mterm_ok prods ->
  lincomb_boxed dbg prods mL ninv lz = lincomb_fixed dbg prods mL ninv lz.
Proof.
  intros Hp. unfold lincomb_boxed, lincomb_fixed. cbv zeta.
  destruct (Z.leb_spec (Z.of_nat (length prods)) (2 ^ lz)) as [Hle|Hgt].
  - destruct (longa_lincomb prods mL ninv) as [u c] eqn:El.
    pose proof pow_lz_range as Hpw. pose proof MleR. pose proof (Bn_pos n).
    assert (HlenB : Z.of_nat (length prods) + 4 < B).
    { rewrite B_val; change (2 ^ 64) with (2 * 2 ^ 63); change (2 ^ 63) with 9223372036854775808 in *; lia. }
    destruct (window_ok dbg prods Hp Hle) as (buf & Hb & _). rewrite El in Hb.
    destruct (longa_exact n mL ninv HmL HmLn Hn Hinv prods u c (mterm_term _ Hp) HlenB El) as (Hu & Hl & Hc0 & _).
    destruct (Z_le_gt_dec c 1) as [Hc1'|Hc1'].
    + apply boxed_smwc_eq; try assumption; lia.
    + unfold boxed_sub_mod_with_carry, sub_mod_with_carry in *.
      destruct dbg; cbn [andb] in *.
      * replace (1 <? c) with true by (symmetry; apply Z.ltb_lt; lia). reflexivity.
      * exfalso.
        assert (Hsum : lin_sum prods < M * R).
        { pose proof (lin_sum_bound _ Hp) as Hb0.
          assert (H1 : Z.of_nat (length prods) * ((M - 1) * (M - 1)) <= 2 ^ lz * ((M - 1) * (M - 1))).
          { apply Z.mul_le_mono_nonneg_r; [apply Z.mul_nonneg_nonneg; lia | assumption]. }
          assert (H2 : 2 ^ lz * ((M - 1) * (M - 1)) <= (M * 2 ^ lz) * (M - 1)).
          { replace (2 ^ lz * ((M - 1) * (M - 1))) with ((M - 1) * 2 ^ lz * (M - 1)) by ring.
            apply Z.mul_le_mono_nonneg_r; [lia|]. apply Z.mul_le_mono_nonneg_r; lia. }
          assert (H3 : M * 2 ^ lz * (M - 1) <= R * (M - 1)) by (apply Z.mul_le_mono_nonneg_r; lia).
          lia. }
        destruct (lincomb_window_bound n mL ninv HmL HmLn Hn Hinv _ u c (mterm_term _ Hp) HlenB ltac:(lia) Hsum El) as (_ & Hcc & _).
        lia.
  - rewrite HmLn. apply boxed_windows_eq; [assumption|].
    split; [apply wf_zeros|]. split; [apply length_zeros | rewrite eval_zeros; assumption].
Qed.
End Drivers.
