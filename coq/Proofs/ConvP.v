(** C16 proofs, part 6: statements in the form used by Props/C16.v (corollaries of parts 1-5). *)
From CB Require Import Model.Limbs Model.Conv Proofs.WordP Proofs.LimbsP Proofs.ConvDigitsP Proofs.ConvBytesP
  Proofs.ConvHexP Proofs.ConvBoxedP Proofs.ConvCopyP.
From Coq Require Import ZArith Lia List Bool.
Import ListNotations.
Open Scope Z_scope.
Open Scope list_scope.

Lemma concat_spec lo hi :
  uint_concat_mixed lo hi (length lo + length hi) = lo ++ hi /\
  eval (uint_concat_mixed lo hi (length lo + length hi)) = eval lo + Bn (length lo) * eval hi.
Proof. rewrite uint_concat_mixed_app. split; [reflexivity | apply eval_app]. Qed.

Lemma split_spec a l lo hi : wf a -> (l <= length a)%nat -> uint_split_mixed a l (length a - l) = (lo, hi) ->
  length lo = l /\ length hi = (length a - l)%nat /\ wf lo /\ wf hi /\
  eval lo = eval a mod Bn l /\ eval hi = eval a / Bn l /\ lo ++ hi = a.
Proof.
  intros Hw Hl E. rewrite uint_split_mixed_eq in E by assumption. inv_pair E.
  destruct (firstn_skipn_eval a l Hw Hl) as [E1 E2].
  split; [apply firstn_length_le; assumption|]. split; [rewrite skipn_length; reflexivity|].
  split; [apply wf_firstn; assumption|]. split; [apply wf_skipn; assumption|].
  split; [assumption|]. split; [assumption | apply firstn_skipn].
Qed.

Lemma split_concat lo hi : uint_split_mixed (lo ++ hi) (length lo) (length hi) = (lo, hi).
Proof.
  replace (length hi) with (length (lo ++ hi) - length lo)%nat by (rewrite app_length; lia).
  rewrite uint_split_mixed_eq by (rewrite app_length; lia).
  rewrite firstn_app_len, skipn_app_len by reflexivity. reflexivity.
Qed.

Lemma concat_split a l lo hi : (l <= length a)%nat -> uint_split_mixed a l (length a - l) = (lo, hi) ->
  uint_concat_mixed lo hi (length lo + length hi) = a.
Proof.
  intros Hl E. rewrite uint_split_mixed_eq in E by assumption. inv_pair E.
  rewrite uint_concat_mixed_app. apply firstn_skipn.
Qed.

(** widening an Int preserves the signed value *)
Lemma int_resize_widen a t : wf a -> (1 <= length a <= t)%nat -> seval (int_resize a t) = seval a.
Proof.
  intros Hw Hn. destruct (int_resize_spec a t Hw ltac:(lia)) as (Hwr & Hlr & Her).
  pose proof (eval_bounds a Hw) as Hb. pose proof (Bn_le (length a) t ltac:(lia)) as Hle.
  pose proof (Bn_pos (length a)) as Hp.
  unfold seval at 1. rewrite Hlr, Her.
  unfold seval. destruct (Z.ltb_spec (2 * eval a) (Bn (length a))) as [Hnn|Hneg].
  - rewrite Z.mod_small by lia. destruct (Z.ltb_spec (2 * eval a) (Bn t)); lia.
  - assert (E : (eval a - Bn (length a)) mod Bn t = eval a - Bn (length a) + Bn t).
    { symmetry. apply (Z.mod_unique_pos _ _ (-1)); lia. }
    rewrite E. destruct (Z.ltb_spec (2 * (eval a - Bn (length a) + Bn t)) (Bn t)); lia.
Qed.

(** narrowing keeps the low limbs (two's complement truncation) *)
Lemma int_resize_narrow a t : wf a -> (1 <= length a)%nat -> (t <= length a)%nat ->
  eval (int_resize a t) = eval a mod Bn t.
Proof.
  intros Hw Hn Ht. destruct (int_resize_spec a t Hw Hn) as (_ & _ & ->).
  unfold seval. destruct (Z.ltb_spec (2 * eval a) (Bn (length a))); [reflexivity|].
  assert (Hn' : Bn (length a) = Bn t * Bn (length a - t)) by (rewrite <- Bn_add; f_equal; lia).
  rewrite Hn'. replace (eval a - Bn t * Bn (length a - t)) with (eval a + (- Bn (length a - t)) * Bn t) by ring.
  apply Z_mod_plus_full.
Qed.

(** From<U128> for u128 inverts from_u128 *)
Lemma u128_roundtrip v : 0 <= v < B * B ->
  match uint_from_u128 2 v with Some r => u128_of_limbs r = v | None => False end.
Proof.
  intros Hv. unfold uint_from_u128. cbn [Nat.ltb Nat.leb Nat.sub zeros repeat].
  rewrite land_MAXW_mod. pose proof B_pos.
  pose proof (Z.div_mod v B ltac:(lia)). pose proof (Z.mod_pos_bound v B ltac:(lia)).
  assert (0 <= v / B < B) by (split; [apply Z.div_pos; lia | apply Z.div_lt_upper_bound; lia]).
  rewrite u128_of_limbs_spec by (unfold is_word; lia). lia.
Qed.

(** BoxedUint::from_be_hex: exactly 16 * ceil(p/64) hex characters are accepted, the result has ceil(p/64)
    limbs and the positional value *)
Lemma boxed_from_be_hex_spec p cs : wfd 256 cs ->
  let n := Z.to_nat ((p + 63) / 64) in
  match boxed_from_be_hex p cs with
  | HexLen => length cs <> (16 * n)%nat
  | HexInvalid => length cs = (16 * n)%nat /\ hexvals cs = None
  | HexOk r => length cs = (16 * n)%nat /\
               exists ds, hexvals cs = Some ds /\ wf r /\ length r = n /\ eval r = evalb 16 (rev ds)
  end.
Proof.
  intros Hw n. unfold boxed_from_be_hex. rewrite limbs_for_precision_eq. apply from_be_hex_spec. assumption.
Qed.

Lemma boxed_from_be_hex_whole_limbs n cs : boxed_from_be_hex (64 * Z.of_nat n) cs = uint_from_be_hex n cs.
Proof.
  unfold boxed_from_be_hex. rewrite limbs_for_precision_eq.
  assert (Hq : (64 * Z.of_nat n + 63) / 64 = Z.of_nat n).
  { apply (proj1 (div_mod_unique_pos 64 (Z.of_nat n) 63 (64 * Z.of_nat n + 63) ltac:(lia) ltac:(lia))). }
  rewrite Hq, Nat2Z.id. reflexivity.
Qed.

Theorem boxed_le_roundtrip ls : wf ls -> (1 <= length ls)%nat ->
  boxed_from_slice false (uint_to_le_bytes ls) (64 * Z.of_nat (length ls)) = Val [ls].
Proof.
  intros Hw Hn.
  pose proof (boxed_from_slice_spec false (uint_to_le_bytes ls) (64 * Z.of_nat (length ls))
                (wfd_uint_to_le_bytes ls Hw) ltac:(lia)) as S. cbv zeta in S. rewrite S.
  rewrite length_uint_to_le_bytes by assumption.
  destruct (Nat.eqb_spec (8 * length ls) 0); [lia|]. cbn [andb].
  assert (Hq : (64 * Z.of_nat (length ls) + 7) / 8 = 8 * Z.of_nat (length ls)).
  { apply (proj1 (div_mod_unique_pos 8 (8 * Z.of_nat (length ls)) 7 (64 * Z.of_nat (length ls) + 7) ltac:(lia) ltac:(lia))). }
  rewrite Hq. destruct (Z.ltb_spec (8 * Z.of_nat (length ls)) (Z.of_nat (8 * length ls))); [lia|].
  rewrite uint_to_le_bytes_digits, evalb_digits, <- Bn_256 by (assumption || reflexivity).
  pose proof (eval_bounds ls Hw) as Hb. rewrite Z.mod_small by assumption.
  assert (HB : Bn (length ls) = 2 ^ (64 * Z.of_nat (length ls))) by (rewrite Bn_2; f_equal; lia).
  rewrite <- HB. destruct (Z.leb_spec (Bn (length ls)) (eval ls)); [lia|].
  rewrite limbs_for_precision_eq.
  assert (Hq2 : (64 * Z.of_nat (length ls) + 63) / 64 = Z.of_nat (length ls)).
  { apply (proj1 (div_mod_unique_pos 64 (Z.of_nat (length ls)) 63 (64 * Z.of_nat (length ls) + 63) ltac:(lia) ltac:(lia))). }
  rewrite Hq2, Nat2Z.id, to_limbs_eval by assumption. reflexivity.
Qed.

(** the serde decoder accepts only a payload whose length field is 8n and that carries 8n bytes *)
Lemma serde_de_strict n bs r : wfd 256 bs -> uint_serde_de n bs = Val [r] ->
  (8 + 8 * n <= length bs)%nat /\ evalb 256 (firstn 8 bs) = Z.of_nat (8 * n) /\ wf r /\ length r = n /\ eval r = evalb 256 (firstn (8 * n) (skipn 8 bs)).
Proof.
  intros Hw. unfold uint_serde_de, word_from_le_bytes.
  destruct (Nat.ltb_spec (length bs) 8); [discriminate|].
  destruct (Z.ltb_spec (Z.of_nat (length (skipn 8 bs))) (evalb 256 (firstn 8 bs))) as [|Hlen]; [discriminate|].
  destruct (Z.eqb_spec (evalb 256 (firstn 8 bs)) (Z.of_nat (8 * n))) as [He|]; cbn [negb]; [|discriminate].
  destruct (uint_from_le_slice n (firstn (8 * n) (skipn 8 bs))) as [r'|] eqn:E; [|discriminate].
  intros H'. injection H' as <-.
  destruct (from_le_slice_spec _ _ _ (wfd_firstn 256 _ _ (wfd_skipn 256 8 bs Hw)) E) as (_ & H1 & H2 & H3).
  rewrite skipn_length in Hlen. split; [lia|]. auto.
Qed.

(* ---- NonZero / Odd decoders ---- *)
Lemma is_zero_limbs_eval r : wf r -> is_zero_limbs r = true <-> eval r = 0.
Proof.
  unfold is_zero_limbs. induction r as [|x r IH]; intros Hw; cbn [forallb eval]; [tauto|].
  apply wf_cons in Hw. destruct Hw as [Hx Hw]. specialize (IH Hw).
  pose proof (eval_nonneg r Hw). unfold is_word in Hx. pose proof B_pos.
  rewrite andb_true_iff, Z.eqb_eq, IH. split; [intros [-> ->]; lia | intros E; split; nia].
Qed.

(** NonZero::from_le_bytes / from_le_byte_array: little-endian positional decoding, none exactly for zero *)
Lemma nonzero_from_le_spec n bs : wfd 256 bs ->
  match nonzero_from_le n bs with
  | PanicV => length bs <> (8 * n)%nat
  | NoneV => length bs = (8 * n)%nat /\ evalb 256 bs = 0
  | Val [r] => length bs = (8 * n)%nat /\ wf r /\ length r = n /\ eval r = evalb 256 bs /\ eval r <> 0
  | _ => False
  end.
Proof.
  intros Hw. unfold nonzero_from_le, nonzero_new.
  destruct (uint_from_le_slice n bs) as [r|] eqn:E; [|apply from_le_slice_len; assumption].
  destruct (from_le_slice_spec n bs r Hw E) as (Hl & Hwr & Hlr & Her).
  pose proof (is_zero_limbs_eval r Hwr) as Z0.
  destruct (is_zero_limbs r).
  - split; [assumption|]. rewrite <- Her. apply Z0. reflexivity.
  - repeat split; try assumption. intros E0. apply Z0 in E0. discriminate.
Qed.
Lemma nonzero_from_be_spec n bs : wfd 256 bs ->
  match nonzero_from_be n bs with
  | PanicV => length bs <> (8 * n)%nat
  | NoneV => length bs = (8 * n)%nat /\ evalb 256 (rev bs) = 0
  | Val [r] => length bs = (8 * n)%nat /\ wf r /\ length r = n /\ eval r = evalb 256 (rev bs) /\ eval r <> 0
  | _ => False
  end.
Proof.
  intros Hw. unfold nonzero_from_be, nonzero_new.
  destruct (uint_from_be_slice n bs) as [r|] eqn:E; [|apply from_be_slice_len; assumption].
  destruct (from_be_slice_spec n bs r Hw E) as (Hl & Hwr & Hlr & Her).
  pose proof (is_zero_limbs_eval r Hwr) as Z0.
  destruct (is_zero_limbs r).
  - split; [assumption|]. rewrite <- Her. apply Z0. reflexivity.
  - repeat split; try assumption. intros E0. apply Z0 in E0. discriminate.
Qed.

Lemma odd_low_limb r : Z.odd (nthz r 0) = Z.odd (eval r).
Proof.
  destruct r as [|x r]; [reflexivity|]. unfold nthz. cbn [nth eval].
  rewrite Z.odd_add, Z.odd_mul. rewrite B_val at 1. change (Z.odd (2 ^ 64)) with false.
  cbn [andb]. rewrite xorb_false_r. reflexivity.
Qed.

(** Odd::from_le_hex: strict little-endian hex decoding; accepted exactly when, in addition, the value is odd *)
Lemma odd_from_le_hex_spec n cs : wfd 256 cs ->
  match odd_from_le_hex n cs with
  | Val [r] => length cs = (16 * n)%nat /\
               exists ds, hexvals cs = Some ds /\ wf r /\ length r = n /\
                          eval r = evalb 256 (nib_pairs ds) /\ Z.odd (eval r) = true
  | PanicV => length cs <> (16 * n)%nat \/ hexvals cs = None \/
              exists ds, hexvals cs = Some ds /\ Z.odd (evalb 256 (nib_pairs ds)) = false
  | _ => False
  end.
Proof.
  intros Hw. unfold odd_from_le_hex, odd_new. pose proof (from_le_hex_spec n cs Hw) as S.
  destruct (uint_from_le_hex n cs) as [r| |].
  - destruct S as (Hl & ds & Hh & Hwr & Hlr & Her). rewrite odd_low_limb.
    destruct (Z.odd (eval r)) eqn:Eo.
    + split; [assumption|]. exists ds. auto.
    + right. right. exists ds. rewrite <- Her. auto.
  - right. left. tauto.
  - left. assumption.
Qed.
Lemma odd_from_be_hex_spec n cs : wfd 256 cs ->
  match odd_from_be_hex n cs with
  | Val [r] => length cs = (16 * n)%nat /\
               exists ds, hexvals cs = Some ds /\ wf r /\ length r = n /\
                          eval r = evalb 16 (rev ds) /\ Z.odd (eval r) = true
  | PanicV => length cs <> (16 * n)%nat \/ hexvals cs = None \/
              exists ds, hexvals cs = Some ds /\ Z.odd (evalb 16 (rev ds)) = false
  | _ => False
  end.
Proof.
  intros Hw. unfold odd_from_be_hex, odd_new. pose proof (from_be_hex_spec n cs Hw) as S.
  destruct (uint_from_be_hex n cs) as [r| |].
  - destruct S as (Hl & ds & Hh & Hwr & Hlr & Her). rewrite odd_low_limb.
    destruct (Z.odd (eval r)) eqn:Eo.
    + split; [assumption|]. exists ds. auto.
    + right. right. exists ds. rewrite <- Her. auto.
  - right. left. tauto.
  - left. assumption.
Qed.
