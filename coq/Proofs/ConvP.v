(** C16 proofs, part 6: statements in the form used by Props/C16.v (corollaries of parts 1-5). *)
From CB Require Import Model.Limbs Model.Conv Proofs.WordP Proofs.LimbsP Proofs.ConvDigitsP Proofs.ConvBytesP
  Proofs.ConvHexP Proofs.ConvBoxedP Proofs.ConvCopyP.
From Coq Require Import ZArith Lia List Bool.
Import ListNotations.
Open Scope Z_scope.
Open Scope list_scope.

Lemma concat_spec lo hi :
  uint_concat_mixed lo hi (length lo + length hi) = lo ++ hi /\
  eval (uint_concat_mixed lo hi (length lo + length hi)) = eval lo + Bn (length lo) * eval hi.
Proof. rewrite uint_concat_mixed_app. split; [reflexivity | apply eval_app]. Qed.

Lemma split_spec a l lo hi : wf a -> (l <= length a)%nat -> uint_split_mixed a l (length a - l) = (lo, hi) ->
  length lo = l /\ length hi = (length a - l)%nat /\ wf lo /\ wf hi /\
  eval lo = eval a mod Bn l /\ eval hi = eval a / Bn l /\ lo ++ hi = a.
Proof.
  intros Hw Hl E. rewrite uint_split_mixed_eq in E by assumption. inv_pair E.
  destruct (firstn_skipn_eval a l Hw Hl) as [E1 E2].
  split; [apply firstn_length_le; assumption|]. split; [rewrite skipn_length; reflexivity|].
  split; [apply wf_firstn; assumption|]. split; [apply wf_skipn; assumption|].
  split; [assumption|]. split; [assumption | apply firstn_skipn].
Qed.

Lemma split_concat lo hi : uint_split_mixed (lo ++ hi) (length lo) (length hi) = (lo, hi).
Proof.
  replace (length hi) with (length (lo ++ hi) - length lo)%nat by (rewrite app_length; lia).
  rewrite uint_split_mixed_eq by (rewrite app_length; lia).
  rewrite firstn_app_len, skipn_app_len by reflexivity. reflexivity.
Qed.

Lemma concat_split a l lo hi : (l <= length a)%nat -> uint_split_mixed a l (length a - l) = (lo, hi) ->
  uint_concat_mixed lo hi (length lo + length hi) = a.
Proof.
  intros Hl E. rewrite uint_split_mixed_eq in E by assumption. inv_pair E.
  rewrite uint_concat_mixed_app. apply firstn_skipn.
Qed.

(** widening an Int preserves the signed value *)
Lemma int_resize_widen a t : wf a -> (1 <= length a <= t)%nat -> seval (int_resize a t) = seval a.
Proof.
  intros Hw Hn. destruct (int_resize_spec a t Hw ltac:(lia)) as (Hwr & Hlr & Her).
  pose proof (eval_bounds a Hw) as Hb. pose proof (Bn_le (length a) t ltac:(lia)) as Hle.
  pose proof (Bn_pos (length a)) as Hp.
  unfold seval at 1. rewrite Hlr, Her.
  unfold seval. destruct (Z.ltb_spec (2 * eval a) (Bn (length a))) as [Hnn|Hneg].
  - rewrite Z.mod_small by lia. destruct (Z.ltb_spec (2 * eval a) (Bn t)); lia.
  - assert (E : (eval a - Bn (length a)) mod Bn t = eval a - Bn (length a) + Bn t).
    { symmetry. apply (Z.mod_unique_pos _ _ (-1)); lia. }
    rewrite E. destruct (Z.ltb_spec (2 * (eval a - Bn (length a) + Bn t)) (Bn t)); lia.
Qed.

(** narrowing keeps the low limbs (two's complement truncation) *)
Lemma int_resize_narrow a t : wf a -> (1 <= length a)%nat -> (t <= length a)%nat ->
  eval (int_resize a t) = eval a mod Bn t.
Proof.
  intros Hw Hn Ht. destruct (int_resize_spec a t Hw Hn) as (_ & _ & ->).
  unfold seval. destruct (Z.ltb_spec (2 * eval a) (Bn (length a))); [reflexivity|].
  assert (Hn' : Bn (length a) = Bn t * Bn (length a - t)) by (rewrite <- Bn_add; f_equal; lia).
  rewrite Hn'. replace (eval a - Bn t * Bn (length a - t)) with (eval a + (- Bn (length a - t)) * Bn t) by ring.
  apply Z_mod_plus_full.
Qed.

(** From<U128> for u128 inverts from_u128 *)
Lemma u128_roundtrip v : 0 <= v < B * B ->
  match uint_from_u128 2 v with Some r => u128_of_limbs r = v | None => False end.
Proof.
  intros Hv. unfold uint_from_u128. cbn [Nat.ltb Nat.leb Nat.sub zeros repeat].
  rewrite land_MAXW_mod. pose proof B_pos.
  pose proof (Z.div_mod v B ltac:(lia)). pose proof (Z.mod_pos_bound v B ltac:(lia)).
  assert (0 <= v / B < B) by (split; [apply Z.div_pos; lia | apply Z.div_lt_upper_bound; lia]).
  rewrite u128_of_limbs_spec by (unfold is_word; lia). lia.
Qed.

(** BoxedUint::from_be_hex at a precision of n whole limbs is the fixed-width decoder of n limbs *)
Lemma boxed_from_be_hex_whole_limbs n cs : boxed_from_be_hex (64 * Z.of_nat n) cs = uint_from_be_hex n cs.
Proof.
  unfold boxed_from_be_hex. rewrite Z.mul_comm, Z.div_mul by lia. rewrite Nat2Z.id. reflexivity.
Qed.

Theorem boxed_le_roundtrip ls : wf ls -> (1 <= length ls)%nat ->
  boxed_from_slice false (uint_to_le_bytes ls) (64 * Z.of_nat (length ls)) = Val [ls].
Proof.
  intros Hw Hn.
  pose proof (boxed_from_slice_spec false (uint_to_le_bytes ls) (64 * Z.of_nat (length ls))
                (wfd_uint_to_le_bytes ls Hw) ltac:(lia)) as S. cbv zeta in S. rewrite S.
  rewrite length_uint_to_le_bytes by assumption.
  destruct (Nat.eqb_spec (8 * length ls) 0); [lia|]. cbn [andb].
  assert (Hq : (64 * Z.of_nat (length ls) + 7) / 8 = 8 * Z.of_nat (length ls)).
  { apply (proj1 (div_mod_unique_pos 8 (8 * Z.of_nat (length ls)) 7 (64 * Z.of_nat (length ls) + 7) ltac:(lia) ltac:(lia))). }
  rewrite Hq. destruct (Z.ltb_spec (8 * Z.of_nat (length ls)) (Z.of_nat (8 * length ls))); [lia|].
  rewrite uint_to_le_bytes_digits, evalb_digits, <- Bn_256 by (assumption || reflexivity).
  pose proof (eval_bounds ls Hw) as Hb. rewrite Z.mod_small by assumption.
  assert (HB : Bn (length ls) = 2 ^ (64 * Z.of_nat (length ls))) by (rewrite Bn_2; f_equal; lia).
  rewrite <- HB. destruct (Z.leb_spec (Bn (length ls)) (eval ls)); [lia|].
  rewrite limbs_for_precision_eq.
  assert (Hq2 : (64 * Z.of_nat (length ls) + 63) / 64 = Z.of_nat (length ls)).
  { apply (proj1 (div_mod_unique_pos 64 (Z.of_nat (length ls)) 63 (64 * Z.of_nat (length ls) + 63) ltac:(lia) ltac:(lia))). }
  rewrite Hq2, Nat2Z.id, to_limbs_eval by assumption. reflexivity.
Qed.

(** the serde decoder accepts only a payload whose length field is 8n and that carries 8n bytes *)
Lemma serde_de_strict n bs r : wfd 256 bs -> uint_serde_de n bs = Val [r] ->
  (8 + 8 * n <= length bs)%nat /\ evalb 256 (firstn 8 bs) = Z.of_nat (8 * n) /\ wf r /\ length r = n /\ eval r = evalb 256 (firstn (8 * n) (skipn 8 bs)).
Proof.
  intros Hw. unfold uint_serde_de, word_from_le_bytes.
  destruct (Nat.ltb_spec (length bs) 8); [discriminate|].
  destruct (Z.ltb_spec (Z.of_nat (length (skipn 8 bs))) (evalb 256 (firstn 8 bs))) as [|Hlen]; [discriminate|].
  destruct (Z.eqb_spec (evalb 256 (firstn 8 bs)) (Z.of_nat (8 * n))) as [He|]; cbn [negb]; [|discriminate].
  destruct (uint_from_le_slice n (firstn (8 * n) (skipn 8 bs))) as [r'|] eqn:E; [|discriminate].
  intros H'. injection H' as <-.
  destruct (from_le_slice_spec _ _ _ (wfd_firstn 256 _ _ (wfd_skipn 256 8 bs Hw)) E) as (_ & H1 & H2 & H3).
  rewrite skipn_length in Hlen. split; [lia|]. auto.
Qed.

(* ---- the model reproduces four behaviours of /repo that contradict the property ---- *)
Open Scope string_scope.
Definition run_both (op : string) (args : list (list Z)) : option (outcome * outcome) :=
  match lookup op ops_conv_model, lookup op ops_conv_spec with
  | Some f, Some g => Some (f false args, g false args)
  | _, _ => None
  end.

(* NonZero::from_le_byte_array reads its input big-endian *)
Lemma nonzero_le_byte_array_refuted :
  run_both "nonzero.from_le_byte_array" [[1; 0; 0; 0; 0; 0; 0; 0]; [1]] = Some (Val [[2 ^ 56]], Val [[1]]).
Proof. vm_compute. reflexivity. Qed.
(* Odd::from_le_hex reads its input big-endian: "0200000000000001" is the even value 2 + 2^56 in little
   endian (documented: panic) but is accepted as the odd big-endian value *)
Lemma odd_le_hex_refuted :
  run_both "odd.from_le_hex" [[48; 50; 48; 48; 48; 48; 48; 48; 48; 48; 48; 48; 48; 48; 48; 49]; [1]]
  = Some (Val [[2 ^ 57 + 1]], PanicV).
Proof. vm_compute. reflexivity. Qed.
(* Int::<1>::from_i128(2^64) = 0: silent truncation *)
Lemma int_from_i128_truncates_refuted :
  int_from_i128 1 (2 ^ 64) = [0] /\ run_both "int.from_prim" [[0; 1]; [128]; [1]] = Some (Val [[0]], PanicV).
Proof. vm_compute. split; reflexivity. Qed.
(* BoxedUint::from_be_hex rounds the precision down: precision 100 yields a 64-bit value, the 128-bit
   sized input is rejected by the size assertion, and precision 63 yields a value without limbs *)
Lemma boxed_from_be_hex_precision_refuted :
  boxed_from_be_hex 100 (repeat 48 16) = HexOk [0] /\ boxed_from_be_hex 100 (repeat 48 32) = HexLen /\
  boxed_from_be_hex 63 [] = HexOk [].
Proof. vm_compute. repeat split; reflexivity. Qed.
