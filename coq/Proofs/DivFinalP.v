(** C02: the division theorems with the reciprocal hypothesis discharged by [reciprocal_correct]. *)
From CB Require Import Model.Limbs Model.Div Proofs.WordP Proofs.LimbsP Proofs.BitsP Proofs.DivP Proofs.Rem2kP
  Proofs.Div3by2P Proofs.KnuthStepP Proofs.DivShiftP Proofs.DivVtP Proofs.DivBoxedP Proofs.RemWideP Proofs.DivCtP
  Proofs.RecipP.
From Coq Require Import ZArith Lia List.
Open Scope Z_scope.

Lemma normalized_range d : normalized d <-> 2 ^ 63 <= d < 2 ^ 64.
Proof. unfold normalized. pose proof B_half. pose proof B_val. lia. Qed.

Lemma recip_ok_normalized d : normalized d -> recip_ok d (reciprocal d).
Proof. intros H. apply reciprocal_correct. apply normalized_range. assumption. Qed.

Lemma recip_ok_top64 v : 0 < v -> recip_ok (top64 v) (reciprocal (top64 v)).
Proof. intros H. apply recip_ok_normalized. apply top64_normalized. assumption. Qed.

(** Reciprocal::new is correct for every non-zero limb *)
Theorem recip_new_correct d : 0 < d < B -> recip_for d (recip_new d).
Proof.
  intros Hd. apply recip_new_for; [assumption|]. rewrite recip_new_top64 by assumption. apply recip_ok_top64. lia.
Qed.

Theorem div_rem_limb_total u d : wf u -> 0 < d < B ->
  let '(q, r) := div_rem_limb_with_reciprocal u (recip_new d) in
  eval u = eval q * d + r /\ 0 <= r < d /\ wf q /\ length q = length u.
Proof. intros Hw Hd. apply div_rem_limb_correct; [assumption | lia | apply recip_new_correct; assumption]. Qed.

Theorem div_rem_vartime_total x0 y0 q r :
  wf x0 -> wf y0 -> eval y0 <> 0 -> div_rem_vartime x0 y0 = (q, r) ->
  eval x0 = eval q * eval y0 + eval r /\ 0 <= eval r < eval y0 /\
  length q = length x0 /\ length r = length y0 /\ wf q /\ wf r.
Proof.
  intros Hx Hy Hnz. apply div_rem_vartime_correct; auto. apply recip_ok_top64. pose proof (eval_nonneg y0 Hy). lia.
Qed.

(** quotient and remainder as Z.div / Z.modulo *)
Corollary div_rem_vartime_divmod x0 y0 q r :
  wf x0 -> wf y0 -> eval y0 <> 0 -> div_rem_vartime x0 y0 = (q, r) ->
  eval q = eval x0 / eval y0 /\ eval r = eval x0 mod eval y0.
Proof.
  intros Hx Hy Hnz E. destruct (div_rem_vartime_total x0 y0 q r Hx Hy Hnz E) as (He & Hr & _).
  assert (H : eval x0 / eval y0 = eval q /\ eval x0 mod eval y0 = eval r) by (apply div_mod_unique_pos; lia).
  destruct H; split; congruence.
Qed.

Theorem boxed_div_rem_in_place_total x0 y0 q r :
  wf x0 -> wf y0 -> (2 <= length y0)%nat -> nthz y0 (length y0 - 1) <> 0 ->
  boxed_div_rem_in_place x0 y0 = (q, r) ->
  eval x0 = eval q * eval y0 + eval r /\ 0 <= eval r < eval y0 /\
  length q = length x0 /\ length r = length y0 /\ wf q /\ wf r.
Proof.
  intros Hx Hy Hl Ht. apply boxed_div_rem_in_place_correct; auto. apply recip_ok_top64.
  destruct (list_snoc y0 (length y0 - 1)) as (l & t & E & Hll); [lia|].
  assert (Hnt : nthz y0 (length y0 - 1) = t).
  { rewrite E at 1. replace (l ++ [t]) with (l ++ t :: []) by reflexivity. apply nthz_app_mid. assumption. }
  rewrite Hnt in Ht. rewrite E in Hy. apply wf_app in Hy. destruct Hy as [Hwl Hwt]. apply wf_cons in Hwt. destruct Hwt as [Hwt _].
  rewrite E, eval_snoc. pose proof (eval_nonneg l Hwl). pose proof (Bn_pos (length l)). unfold is_word in Hwt.
  assert (0 < Bn (length l) * t) by (apply Z.mul_pos_pos; lia). lia.
Qed.

Theorem boxed_div_rem_vartime_total x0 y0 :
  wf x0 -> wf y0 -> eval y0 <> 0 ->
  exists q r, boxed_div_rem_vartime x0 y0 = Some (q, r) /\
  eval x0 = eval q * eval y0 + eval r /\ 0 <= eval r < eval y0 /\
  length q = length x0 /\ length r = length y0 /\ wf q /\ wf r.
Proof.
  intros Hx Hy Hnz. apply boxed_div_rem_vartime_correct; auto. apply recip_ok_top64. pose proof (eval_nonneg y0 Hy). lia.
Qed.

Theorem boxed_rem_vartime_total x0 y0 :
  wf x0 -> wf y0 -> eval y0 <> 0 ->
  exists r, boxed_rem_vartime x0 y0 = Some r /\
  eval r = eval x0 mod eval y0 /\ length r = length y0 /\ wf r.
Proof.
  intros Hx Hy Hnz. apply boxed_rem_vartime_correct; auto. apply recip_ok_top64. pose proof (eval_nonneg y0 Hy). lia.
Qed.

Theorem uint_div_rem_total x0 y0 :
  wf x0 -> wf y0 -> length y0 = length x0 -> eval y0 <> 0 ->
  exists q r, uint_div_rem x0 y0 = Some (q, r) /\
  eval x0 = eval q * eval y0 + eval r /\ 0 <= eval r < eval y0 /\
  length q = length x0 /\ length r = length x0 /\ wf q /\ wf r.
Proof.
  intros Hx Hy Hl Hnz. apply uint_div_rem_correct; auto. apply recip_ok_top64. pose proof (eval_nonneg y0 Hy). lia.
Qed.

(** the boxed constant-time division is the same routine behind an equal-precision check *)
Theorem boxed_div_rem_total x0 y0 :
  wf x0 -> wf y0 -> length y0 = length x0 -> eval y0 <> 0 ->
  exists q r, boxed_div_rem x0 y0 = Some (q, r) /\
  eval x0 = eval q * eval y0 + eval r /\ 0 <= eval r < eval y0 /\
  length q = length x0 /\ length r = length x0 /\ wf q /\ wf r.
Proof.
  intros Hx Hy Hl Hnz. unfold boxed_div_rem. rewrite Hl, Nat.eqb_refl. cbn [negb].
  apply uint_div_rem_total; assumption.
Qed.

Theorem rem_wide_vartime_total lo hi y0 :
  wf lo -> wf hi -> wf y0 -> length hi = length lo -> length y0 = length lo -> eval y0 <> 0 ->
  let r := rem_wide_vartime lo hi y0 in
  eval r = (eval lo + Bn (length lo) * eval hi) mod eval y0 /\ length r = length lo /\ wf r.
Proof.
  intros Hlo Hhi Hy Hl1 Hl2 Hnz. pose proof (eval_nonneg y0 Hy).
  apply rem_wide_vartime_correct; auto.
  - rewrite <- Hl2. apply nlimbs_le_length; [assumption | lia].
  - apply recip_ok_top64. lia.
Qed.
