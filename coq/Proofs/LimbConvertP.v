(** C10: correctness of the bit-repacking loop [limb_convert] (impl_limb_convert!),
    hence of [from_uint] (64 -> 62 bit limbs) and [to_uint] (62 -> 64 bit limbs). *)
From CB Require Import Model.Limbs Model.AddSub Model.SafeGcd Proofs.WordP Proofs.LimbsP Proofs.BitsP
  Proofs.SafeGcdArithP Proofs.SafeGcdUnsatP.
From Coq Require Import ZArith Lia List Bool.
Import ListNotations.
Open Scope Z_scope.

(* ---------- powers of two: div / mod splitting ---------- *)
Lemma rem_pow2_split x a b : 0 <= a -> 0 <= b ->
  x mod 2 ^ (a + b) = x mod 2 ^ a + 2 ^ a * ((x / 2 ^ a) mod 2 ^ b).
Proof.
  intros. rewrite Z.pow_add_r by lia. apply Z.rem_mul_r.
  - apply Z.pow_nonzero; lia.
  - apply pow2_pos; lia.
Qed.

Lemma div_div_pow2 x a b : 0 <= a -> 0 <= b -> x / 2 ^ (a + b) = x / 2 ^ a / 2 ^ b.
Proof.
  intros. rewrite Z.pow_add_r by lia. symmetry. apply Z.div_div.
  - apply Z.pow_nonzero; lia.
  - apply pow2_pos; lia.
Qed.

Lemma div_mod_pow2 a i n : 0 <= i <= n -> (a / 2 ^ i) mod 2 ^ (n - i) = (a mod 2 ^ n) / 2 ^ i.
Proof.
  intros H. assert (E : 2 ^ n = 2 ^ (i + (n - i))) by (f_equal; lia).
  rewrite E, rem_pow2_split by lia.
  pose proof (pow2_pos i ltac:(lia)) as P. pose proof (Z.mod_pos_bound a (2 ^ i) P) as R.
  apply Z.div_unique_pos with (r := a mod 2 ^ i); lia.
Qed.

Lemma mul_pow2_mod d o n : 0 <= o <= n -> (d * 2 ^ o) mod 2 ^ n = (d mod 2 ^ (n - o)) * 2 ^ o.
Proof.
  intros H. assert (E : 2 ^ n = 2 ^ (n - o) * 2 ^ o) by (rewrite <- Z.pow_add_r by lia; f_equal; lia).
  rewrite E. apply Z.mul_mod_distr_r; apply Z.pow_nonzero; lia.
Qed.

(* advancing a bit position by c <= distance to the next multiple of b *)
Lemma pos_adv b bits c : 0 < b -> 0 <= bits -> 0 < c <= b - bits mod b ->
  (c = b - bits mod b /\ (bits + c) / b = bits / b + 1 /\ (bits + c) mod b = 0) \/
  (c < b - bits mod b /\ (bits + c) / b = bits / b /\ (bits + c) mod b = bits mod b + c).
Proof.
  intros Hb Hbits Hc. pose proof (Z.div_mod bits b ltac:(lia)) as E.
  pose proof (Z.mod_pos_bound bits b Hb) as R.
  destruct (Z.eq_dec c (b - bits mod b)) as [e|ne]; [left|right]; (split; [lia|]).
  - apply (div_mod_unique_pos b (bits / b + 1) 0); lia.
  - apply (div_mod_unique_pos b (bits / b) (bits mod b + c)); lia.
Qed.

(* ---------- value of a list of b-bit limbs ---------- *)
Fixpoint valb (b : Z) (ls : list Z) : Z :=
  match ls with [] => 0 | x :: r => x + 2 ^ b * valb b r end.
Definition inr (b : Z) (ls : list Z) : Prop := Forall (fun x => 0 <= x < 2 ^ b) ls.
(* value of the low b bits of every limb (bits above b are garbage) *)
Fixpoint W (b : Z) (ls : list Z) : Z :=
  match ls with [] => 0 | x :: r => x mod 2 ^ b + 2 ^ b * W b r end.

Lemma nthz_nil k : nthz [] k = 0.
Proof. destruct k; reflexivity. Qed.

Lemma valb_nth b ls : 0 < b -> inr b ls ->
  forall k : nat, (valb b ls / 2 ^ (b * Z.of_nat k)) mod 2 ^ b = nthz ls k.
Proof.
  intros Hb H. induction H as [|x r Hx Hr IH]; intros k.
  - cbn [valb]. rewrite Z.div_0_l, Z.mod_0_l, nthz_nil; try reflexivity; apply Z.pow_nonzero; nia.
  - pose proof (pow2_pos b ltac:(lia)) as P. destruct k as [|k].
    + cbn [valb nthz nth]. change (Z.of_nat 0) with 0. rewrite Z.mul_0_r, Z.pow_0_r, Z.div_1_r.
      rewrite Z.mul_comm, Z_mod_plus_full. apply Z.mod_small; lia.
    + change (nthz (x :: r) (S k)) with (nthz r k).
      replace (b * Z.of_nat (S k)) with (b + b * Z.of_nat k) by lia.
      rewrite div_div_pow2 by nia. cbn [valb].
      replace ((x + 2 ^ b * valb b r) / 2 ^ b) with (valb b r); [apply IH|].
      apply Z.div_unique_pos with (r := x); lia.
Qed.

(* the bits of the input that start at position [bits], up to the end of the current input limb *)
Lemma chunk b ls bits : 0 < b -> inr b ls -> 0 <= bits ->
  (valb b ls / 2 ^ bits) mod 2 ^ (b - bits mod b) = nthz ls (Z.to_nat (bits / b)) / 2 ^ (bits mod b).
Proof.
  intros Hb H Hbits.
  pose proof (Z.div_mod bits b ltac:(lia)) as E. pose proof (Z.mod_pos_bound bits b Hb) as R.
  pose proof (Z.div_pos bits b Hbits Hb) as K.
  pose proof (valb_nth b ls Hb H (Z.to_nat (bits / b))) as N. rewrite Z2Nat.id in N by assumption.
  rewrite <- N. rewrite E at 1. rewrite div_div_pow2 by nia. apply div_mod_pow2. lia.
Qed.

(* ---------- upd ---------- *)
Lemma length_upd f : forall ls k, length (upd k f ls) = length ls.
Proof. induction ls as [|x r IH]; intros k; [destruct k; reflexivity|]. destruct k; cbn [upd length]; [reflexivity|]. rewrite IH. reflexivity. Qed.

Lemma nthz_upd_same f : forall ls k, (k < length ls)%nat -> nthz (upd k f ls) k = f (nthz ls k).
Proof.
  induction ls as [|x r IH]; intros k Hk; cbn [length] in Hk; [lia|].
  destruct k; cbn [upd nthz nth]; [reflexivity|]. apply IH. lia.
Qed.

Lemma nthz_upd_other f : forall ls k j, j <> k -> nthz (upd k f ls) j = nthz ls j.
Proof.
  induction ls as [|x r IH]; intros k j Hj; [destruct k; reflexivity|].
  destruct k; destruct j; cbn [upd nthz nth]; try reflexivity; try lia.
  apply IH. lia.
Qed.

Lemma W_upd b f : 0 <= b -> forall ls k, (k < length ls)%nat ->
  W b (upd k f ls) = W b ls + (f (nthz ls k) mod 2 ^ b - nthz ls k mod 2 ^ b) * 2 ^ (b * Z.of_nat k).
Proof.
  intros Hb. induction ls as [|x r IH]; intros k Hk; cbn [length] in Hk; [lia|].
  destruct k.
  - cbn [upd W nthz nth]. change (Z.of_nat 0) with 0. rewrite Z.mul_0_r, Z.pow_0_r. ring.
  - cbn [upd W]. change (nthz (x :: r) (S k)) with (nthz r k). rewrite IH by lia.
    replace (b * Z.of_nat (S k)) with (b + b * Z.of_nat k) by lia.
    rewrite Z.pow_add_r by nia. ring.
Qed.

Lemma nthz_zeros n : forall k, nthz (zeros n) k = 0.
Proof. induction n as [|n IH]; intros k; [apply nthz_nil|]. destruct k; [reflexivity|]. apply IH. Qed.

Lemma W_zeros b n : W b (zeros n) = 0.
Proof.
  induction n as [|n IH]; [reflexivity|]. change (zeros (S n)) with (0 :: zeros n).
  cbn [W]. rewrite IH, Zmod_0_l. lia.
Qed.

(* ---------- one update of the current output limb ---------- *)
Lemma limb_upd d o ob x : 0 < ob <= 64 -> 0 <= o < ob -> 0 <= x < 2 ^ o -> 0 <= d ->
  (Z.lor x (u64 (d * 2 ^ o))) mod 2 ^ ob = x + (d mod 2 ^ (ob - o)) * 2 ^ o /\
  (forall c, 0 <= c -> o + c <= ob -> d < 2 ^ c -> 0 <= Z.lor x (u64 (d * 2 ^ o)) < 2 ^ (o + c)).
Proof.
  intros Hob Ho Hx Hd.
  assert (Ev : u64 (d * 2 ^ o) = (d mod 2 ^ (64 - o)) * 2 ^ o).
  { unfold u64. rewrite P64_pow. apply mul_pow2_mod. lia. }
  assert (Ey : Z.lor x (u64 (d * 2 ^ o)) = (d mod 2 ^ (64 - o)) * 2 ^ o + x).
  { rewrite Ev, Z.lor_comm. apply lor_disjoint; lia. }
  pose proof (pow2_pos o ltac:(lia)) as Po.
  split.
  - rewrite Ey. rewrite <- Z.add_mod_idemp_l by (apply Z.pow_nonzero; lia).
    rewrite <- Ev. unfold u64. rewrite P64_pow, mod_pow2_mod_pow2 by lia. rewrite mul_pow2_mod by lia.
    pose proof (Z.mod_pos_bound d (2 ^ (ob - o)) (pow2_pos (ob - o) ltac:(lia))) as R.
    assert (E2 : 2 ^ ob = 2 ^ (ob - o) * 2 ^ o) by (rewrite <- Z.pow_add_r by lia; f_equal; lia).
    set (q := d mod 2 ^ (ob - o)) in *.
    pose proof (Z.mul_le_mono_nonneg_r q (2 ^ (ob - o) - 1) (2 ^ o) ltac:(lia) ltac:(lia)) as M.
    pose proof (Z.mul_nonneg_nonneg q (2 ^ o) ltac:(lia) ltac:(lia)) as M0.
    rewrite Z.mod_small; lia.
  - intros c Hc Hoc Hdc. rewrite Ey.
    assert (2 ^ c <= 2 ^ (64 - o)) by (apply Z.pow_le_mono_r; lia).
    rewrite (Z.mod_small d) by lia.
    assert (E2 : 2 ^ (o + c) = 2 ^ c * 2 ^ o) by (rewrite <- Z.pow_add_r by lia; f_equal; lia).
    pose proof (Z.mul_le_mono_nonneg_r d (2 ^ c - 1) (2 ^ o) ltac:(lia) ltac:(lia)) as M.
    pose proof (Z.mul_nonneg_nonneg d (2 ^ o) ltac:(lia) ltac:(lia)) as M0.
    lia.
Qed.

(* ---------- mask_first ---------- *)
Lemma mask_first_spec b : 0 <= b -> forall ls k, (forall j, (k <= j)%nat -> nthz ls j = 0) ->
  valb b (mask_first k (2 ^ b - 1) ls) = W b ls /\ inr b (mask_first k (2 ^ b - 1) ls) /\
  length (mask_first k (2 ^ b - 1) ls) = length ls.
Proof.
  intros Hb. pose proof (pow2_pos b Hb) as P.
  induction ls as [|x r IH]; intros k H.
  - destruct k; cbn [mask_first valb W]; repeat split; constructor.
  - destruct k.
    + assert (x = 0) as -> by (apply (H 0%nat); lia).
      destruct (IH 0%nat) as (I1 & I2 & I3). { intros j _. apply (H (S j)). lia. }
      assert (E : mask_first 0 (2 ^ b - 1) r = r) by (destruct r; reflexivity). rewrite E in *.
      cbn [mask_first valb W length]. rewrite I1, Zmod_0_l. repeat split; try lia.
      constructor; [lia | assumption].
    + destruct (IH k) as (I1 & I2 & I3). { intros j Hj. apply (H (S j)). lia. }
      cbn [mask_first valb W length].
      assert (E : Z.land x (2 ^ b - 1) = x mod 2 ^ b).
      { rewrite <- Z.land_ones by assumption. f_equal. rewrite Z.ones_equiv. lia. }
      rewrite E, I1, I3. repeat split.
      constructor; [apply Z.mod_pos_bound; lia | assumption].
Qed.

(* ---------- the loop ---------- *)
Section LC.
Variables (ib ob : Z) (inp : list Z) (olen : nat) (total : Z).
Hypothesis Hib : 0 < ib <= 64.
Hypothesis Hob : 0 < ob <= 64.
Hypothesis Hinp : inr ib inp.
Hypothesis Htotal : total = Z.min (lenZ inp * ib) (Z.of_nat olen * ob).

Definition INV (bits : Z) (out : list Z) : Prop :=
  length out = olen /\ 0 <= bits <= total /\
  W ob out = valb ib inp mod 2 ^ bits /\
  0 <= nthz out (Z.to_nat (bits / ob)) < 2 ^ (bits mod ob) /\
  (forall j : nat, bits / ob < Z.of_nat j -> nthz out j = 0).

Definition meas (bits : Z) : Z := (lenZ inp - bits / ib) + (Z.of_nat olen - bits / ob).

Lemma total_nonneg : 0 <= total.
Proof. unfold lenZ in Htotal. nia. Qed.

Lemma meas_nonneg bits : 0 <= bits <= total -> 0 <= meas bits.
Proof.
  intros H. unfold meas.
  assert (bits / ib <= lenZ inp) by (apply Z.div_le_upper_bound; lia).
  assert (bits / ob <= Z.of_nat olen) by (apply Z.div_le_upper_bound; lia).
  lia.
Qed.

Lemma step bits out : INV bits out -> bits < total ->
  INV (bits + Z.min (ib - bits mod ib) (ob - bits mod ob))
      (upd (Z.to_nat (bits / ob))
           (fun x => Z.lor x (u64 ((nthz inp (Z.to_nat (bits / ib)) / 2 ^ (bits mod ib)) * 2 ^ (bits mod ob)))) out) /\
  meas (bits + Z.min (ib - bits mod ib) (ob - bits mod ob)) < meas bits.
Proof.
  intros (Hlen & Hb & HW & Hc & Hd) Hlt.
  assert (Hib0 : 0 < ib) by lia. assert (Hob0 : 0 < ob) by lia. assert (Hbits : 0 <= bits) by lia.
  pose proof (Z.mod_pos_bound bits ib Hib0) as Ri. pose proof (Z.mod_pos_bound bits ob Hob0) as Ro.
  pose proof (Z.div_mod bits ib ltac:(lia)) as Ei. pose proof (Z.div_mod bits ob ltac:(lia)) as Eo.
  pose proof (Z.div_pos bits ib Hbits Hib0) as Ki. pose proof (Z.div_pos bits ob Hbits Hob0) as Ko.
  assert (Hk : bits / ib < lenZ inp) by (apply Z.div_lt_upper_bound; lia).
  assert (Hj : bits / ob < Z.of_nat olen) by (apply Z.div_lt_upper_bound; lia).
  pose proof (chunk ib inp bits Hib0 Hinp Hbits) as Hch.
  set (k := bits / ib) in *. set (i := bits mod ib) in *.
  set (jc := bits / ob) in *. set (o := bits mod ob) in *.
  set (d := nthz inp (Z.to_nat k) / 2 ^ i) in *.
  set (c := Z.min (ib - i) (ob - o)).
  assert (Hcr : 0 < c /\ c <= ib - i /\ c <= ob - o /\ (c = ib - i \/ c = ob - o)) by (unfold c; lia).
  clearbody c.
  assert (Hdr : 0 <= d < 2 ^ (ib - i)).
  { rewrite <- Hch. apply Z.mod_pos_bound. apply pow2_pos. lia. }
  set (x := nthz out (Z.to_nat jc)) in *.
  destruct (limb_upd d o ob x Hob Ro Hc ltac:(lia)) as [Hy1 Hy2].
  set (y := Z.lor x (u64 (d * 2 ^ o))) in *.
  assert (Hjn : (Z.to_nat jc < length out)%nat) by lia.
  assert (Ejn : Z.of_nat (Z.to_nat jc) = jc) by (apply Z2Nat.id; lia).
  (* bits + c stays below total *)
  assert (Hle : bits + c <= total).
  { pose proof (Z.mul_le_mono_nonneg_l (k + 1) (lenZ inp) ib ltac:(lia) ltac:(lia)).
    pose proof (Z.mul_le_mono_nonneg_l (jc + 1) (Z.of_nat olen) ob ltac:(lia) ltac:(lia)).
    lia. }
  (* the new value *)
  assert (HW' : W ob (upd (Z.to_nat jc) (fun x0 => Z.lor x0 (u64 (d * 2 ^ o))) out)
                = valb ib inp mod 2 ^ (bits + c)).
  { rewrite W_upd by lia. fold x. fold y. rewrite Hy1, HW.
    assert (2 ^ o <= 2 ^ ob) by (apply Z.pow_le_mono_r; lia).
    rewrite (Z.mod_small x) by lia.
    rewrite rem_pow2_split by lia.
    assert (Ed : (valb ib inp / 2 ^ bits) mod 2 ^ c = d mod 2 ^ (ob - o)).
    { rewrite <- (mod_pow2_mod_pow2 _ c (ib - i)) by lia. rewrite Hch.
      destruct (Z.eq_dec c (ob - o)) as [->|ne]; [reflexivity|].
      assert (c = ib - i) as -> by lia.
      assert (2 ^ (ib - i) <= 2 ^ (ob - o)) by (apply Z.pow_le_mono_r; lia).
      rewrite !Z.mod_small by lia. reflexivity. }
    rewrite Ed, Ejn.
    assert (Ep : 2 ^ bits = 2 ^ o * 2 ^ (ob * jc)).
    { rewrite <- Z.pow_add_r by nia. f_equal. lia. }
    rewrite Ep. ring. }
  split.
  - split; [rewrite length_upd; assumption|]. split; [lia|]. split; [exact HW'|].
    destruct (pos_adv ob bits c Hob0 Hbits ltac:(lia)) as [(Ec & Ediv & Emod) | (Ec & Ediv & Emod)];
      fold jc in Ediv; fold o in Emod, Ec; rewrite Ediv, Emod.
    + (* the output limb is complete *)
      assert (Z.to_nat (jc + 1) <> Z.to_nat jc) by lia.
      split.
      * rewrite nthz_upd_other by assumption. rewrite Hd by lia. change (2 ^ 0) with 1. lia.
      * intros j Hjj. rewrite nthz_upd_other by lia. apply Hd. lia.
    + (* the input limb is exhausted first *)
      assert (Eci : c = ib - i) by lia.
      split.
      * rewrite nthz_upd_same by assumption. fold x. fold y. apply Hy2; try lia. rewrite Eci. apply Hdr.
      * intros j Hjj. rewrite nthz_upd_other by lia. apply Hd. lia.
  - unfold meas. fold k. fold jc.
    destruct (pos_adv ob bits c Hob0 Hbits ltac:(lia)) as [(Ec & Ediv & Emod) | (Ec & Ediv & Emod)];
    destruct (pos_adv ib bits c Hib0 Hbits ltac:(lia)) as [(Fc & Fdiv & Fmod) | (Fc & Fdiv & Fmod)];
      fold jc in Ediv; fold k in Fdiv; fold o in Ec; fold i in Fc; lia.
Qed.

Lemma loop_inv : forall fuel bits out, INV bits out -> meas bits < Z.of_nat fuel ->
  INV total (lc_loop fuel ib ob total bits inp out).
Proof.
  induction fuel as [|fuel IH]; intros bits out HI Hm.
  - exfalso. destruct HI as (_ & Hb & _). pose proof (meas_nonneg bits Hb). lia.
  - cbn [lc_loop]. destruct (Z.ltb_spec bits total) as [Hlt|Hge].
    + cbv zeta. destruct (step bits out HI Hlt) as [HI' Hm']. apply IH; [exact HI'|lia].
    + assert (bits = total) as <- by (destruct HI as (_ & Hb & _); lia). exact HI.
Qed.

Lemma inv_init : INV 0 (zeros olen).
Proof.
  pose proof total_nonneg.
  split; [apply length_zeros|]. split; [lia|]. split; [|split].
  - rewrite W_zeros. change (2 ^ 0) with 1. rewrite Z.mod_1_r. reflexivity.
  - rewrite nthz_zeros. rewrite Z.mod_0_l by lia. change (2 ^ 0) with 1. lia.
  - intros j _. apply nthz_zeros.
Qed.

Theorem limb_convert_spec :
  inr ob (limb_convert ib ob inp olen) /\ length (limb_convert ib ob inp olen) = olen /\
  valb ob (limb_convert ib ob inp olen) = valb ib inp mod 2 ^ total.
Proof.
  unfold limb_convert. cbv zeta. rewrite <- Htotal.
  assert (HI : INV total (lc_loop (length inp + olen + 1) ib ob total 0 inp (zeros olen))).
  { apply loop_inv; [apply inv_init|]. unfold meas, lenZ. rewrite !Z.div_0_l by lia. lia. }
  set (out := lc_loop (length inp + olen + 1) ib ob total 0 inp (zeros olen)) in *.
  destruct HI as (Hlen & Hb & HW & Hc & Hd).
  assert (Hob0 : 0 < ob) by lia.
  pose proof (Z.mod_pos_bound total ob Hob0) as Ro.
  pose proof (Z.div_pos total ob ltac:(lia) Hob0) as Ko.
  destruct (mask_first_spec ob ltac:(lia) out
              (Z.to_nat (total / ob + (if 0 <? total mod ob then 1 else 0)))) as (M1 & M2 & M3).
  { intros j Hj. destruct (Z.ltb_spec 0 (total mod ob)) as [Hpos|Hz].
    - apply Hd. lia.
    - assert (E0 : total mod ob = 0) by lia. rewrite E0 in Hc. change (2 ^ 0) with 1 in Hc.
      destruct (Z.eq_dec (Z.of_nat j) (total / ob)) as [e|ne].
      + rewrite <- e, Nat2Z.id in Hc. lia.
      + apply Hd. lia. }
  split; [exact M2|]. split; [lia|]. rewrite M1. exact HW.
Qed.
End LC.

(* ---------- instances: 64 <-> 62 bit limbs ---------- *)
Lemma valb62_uval ls : valb 62 ls = uval ls.
Proof. induction ls as [|x r IH]; [reflexivity|]. cbn [valb uval]. rewrite IH, P62_pow. reflexivity. Qed.

Lemma valb64_eval ls : valb 64 ls = eval ls.
Proof. induction ls as [|x r IH]; [reflexivity|]. cbn [valb eval]. rewrite IH, B_val. reflexivity. Qed.

Lemma inr62_wf62 ls : inr 62 ls <-> wf62 ls.
Proof. unfold inr, wf62. rewrite P62_pow. reflexivity. Qed.

Lemma inr64_wf ls : inr 64 ls <-> wf ls.
Proof.
  unfold inr, wf. split; apply Forall_impl; intros a; unfold is_word; rewrite B_val; trivial.
Qed.

Lemma Bn_pow2' n : Bn n = 2 ^ (64 * Z.of_nat n).
Proof.
  induction n as [|n IH]; [reflexivity|].
  rewrite Bn_S, IH, B_val, <- Z.pow_add_r by lia. f_equal. lia.
Qed.

Theorem from_uint_spec L x : wf x -> 64 * lenZ x <= 62 * Z.of_nat L ->
  wf62 (from_uint L x) /\ length (from_uint L x) = L /\ uval (from_uint L x) = eval x.
Proof.
  intros Hx Hlen. unfold from_uint.
  destruct (limb_convert_spec 64 62 x L (64 * lenZ x) ltac:(lia) ltac:(lia)) as (H1 & H2 & H3).
  - apply inr64_wf. exact Hx.
  - lia.
  - split; [apply inr62_wf62; exact H1|]. split; [exact H2|].
    rewrite <- valb62_uval, H3, valb64_eval.
    pose proof (eval_bounds x Hx) as Hb. rewrite Bn_pow2' in Hb. fold (lenZ x) in Hb.
    apply Z.mod_small. exact Hb.
Qed.

Theorem to_uint_spec n u : wf62 u -> 64 * Z.of_nat n <= 62 * lenZ u ->
  wf (to_uint n u) /\ length (to_uint n u) = n /\ eval (to_uint n u) = uval u mod Bn n.
Proof.
  intros Hu Hlen. unfold to_uint.
  destruct (limb_convert_spec 62 64 u n (64 * Z.of_nat n) ltac:(lia) ltac:(lia)) as (H1 & H2 & H3).
  - apply inr62_wf62. exact Hu.
  - lia.
  - split; [apply inr64_wf; exact H1|]. split; [exact H2|].
    rewrite <- valb64_eval, H3, valb62_uval, Bn_pow2'. reflexivity.
Qed.

