(** Lemmas about the word-level primitives (Model/Word.v). *)
From CB Require Import Model.Word.
From Coq Require Import ZArith Lia List.
Open Scope Z_scope.

Lemma B_gt1 : 1 < B. Proof. reflexivity. Qed.
Lemma B_pos : 0 < B. Proof. reflexivity. Qed.
Lemma B_gt4 : 4 < B. Proof. reflexivity. Qed.
Lemma B_val : B = 2 ^ 64. Proof. reflexivity. Qed.
Lemma B_half : B = 2 * 2 ^ 63. Proof. reflexivity. Qed.
Lemma BB_val : BB = B * B. Proof. reflexivity. Qed.
Lemma MAXW_val : MAXW = B - 1. Proof. reflexivity. Qed.
Lemma p63_pos : 0 < 2 ^ 63. Proof. reflexivity. Qed.
Global Opaque B.

Ltac inv_pair E := apply pair_equal_spec in E; destruct E as [<- <-].
Ltac word_facts := pose proof B_gt1; pose proof B_half; pose proof p63_pos.

Lemma is_word_mod x : is_word (x mod B).
Proof. unfold is_word. pose proof B_pos. apply Z.mod_pos_bound; lia. Qed.

Lemma div_small_pos a b : 0 <= a < b -> a / b = 0.
Proof. intros; apply Z.div_small; lia. Qed.

Lemma mod_small' a : 0 <= a < B -> a mod B = a.
Proof. intros; apply Z.mod_small; lia. Qed.

(** [x = q * b + r] with [0 <= r < b] determines the quotient and the remainder *)
Lemma div_mod_unique_pos b q r x : 0 <= r < b -> x = q * b + r -> x / b = q /\ x mod b = r.
Proof.
  intros Hr Hx. assert (0 < b) by lia.
  split; [symmetry; apply (Z.div_unique_pos x b q r); lia
         | symmetry; apply (Z.mod_unique_pos x b q r); lia].
Qed.

(* ---- adc ---- *)
Lemma adc_exact a b c r co :
  is_word a -> is_word b -> is_word c -> adc a b c = (r, co) ->
  r + B * co = a + b + c /\ is_word r /\ 0 <= co <= 2.
Proof.
  unfold is_word, adc. intros Ha Hb Hc E. inv_pair E.
  pose proof B_pos.
  pose proof (Z.div_mod (a + b + c) B ltac:(lia)).
  pose proof (Z.mod_pos_bound (a + b + c) B ltac:(lia)).
  repeat split; try lia.
  - apply Z.div_pos; lia.
  - apply Z.lt_succ_r. apply Z.div_lt_upper_bound; lia.
Qed.

Lemma adc_carry_small a b c r co :
  is_word a -> is_word b -> 0 <= c <= 1 -> adc a b c = (r, co) -> 0 <= co <= 1.
Proof.
  unfold is_word, adc. intros Ha Hb Hc E. inv_pair E.
  pose proof B_pos. split.
  - apply Z.div_pos; lia.
  - apply Z.lt_succ_r. apply Z.div_lt_upper_bound; lia.
Qed.

(* ---- sbb: borrow-in counts iff the top bit of the incoming word is set; borrow-out is 0 or MAX ---- *)
Definition bin (bw : Z) : Z := bw / 2 ^ 63.

Lemma bin_range bw : is_word bw -> 0 <= bin bw <= 1.
Proof.
  unfold is_word, bin. intros. word_facts. split.
  - apply Z.div_pos; lia.
  - apply Z.lt_succ_r. apply Z.div_lt_upper_bound; lia.
Qed.

Lemma bin_0 : bin 0 = 0. Proof. reflexivity. Qed.
Lemma bin_MAXW : bin MAXW = 1. Proof. reflexivity. Qed.

Lemma sbb_exact a b bw r bo :
  is_word a -> is_word b -> is_word bw -> sbb a b bw = (r, bo) ->
  is_word r /\ ((bo = 0 /\ a - b - bin bw = r) \/ (bo = MAXW /\ a - b - bin bw = r - B)).
Proof.
  unfold is_word, sbb, wrap2. intros Ha Hb Hbw E. inv_pair E.
  pose proof (bin_range bw Hbw) as Hbi. fold (bin bw).
  set (d := a - (b + bin bw)).
  pose proof B_gt1. pose proof BB_val. pose proof MAXW_val.
  assert (0 < BB) by nia.
  destruct (Z_lt_ge_dec d 0) as [Hn|Hp].
  - (* borrow *)
    assert (Hm : d mod BB = d + BB).
    { symmetry. apply (Z.mod_unique d BB (-1) (d + BB)); [left; nia|lia]. }
    rewrite Hm.
    assert (Hq : (d + BB) / B = B - 1 /\ (d + BB) mod B = d + B).
    { apply div_mod_unique_pos; [unfold d; lia | nia]. }
    destruct Hq as [-> ->]. split; [unfold d; lia|]. right. split; [lia | unfold d; lia].
  - assert (Hm : d mod BB = d) by (apply Z.mod_small; unfold d in *; nia).
    rewrite Hm.
    assert (Hq : d / B = 0 /\ d mod B = d).
    { apply div_mod_unique_pos; unfold d in *; lia. }
    destruct Hq as [-> ->]. split; [unfold d in *; lia|]. left. split; [reflexivity | unfold d; lia].
Qed.

(* ---- mac ---- *)
Lemma mac_exact a b c carry lo hi :
  is_word a -> is_word b -> is_word c -> is_word carry -> mac a b c carry = (lo, hi) ->
  lo + B * hi = a + b * c + carry /\ is_word lo /\ is_word hi.
Proof.
  unfold is_word, mac, wadd, wrap. intros Ha Hb Hc Hk E. inv_pair E.
  pose proof B_gt1.
  set (ret := a + b * c).
  assert (Hbc : 0 <= b * c <= (B - 1) * (B - 1)) by nia.
  assert (Hret : 0 <= ret <= B * B - B) by (unfold ret; nia).
  pose proof (Z.div_mod ret B ltac:(lia)) as Hdm.
  pose proof (Z.mod_pos_bound ret B ltac:(lia)) as Hmb.
  assert (Hhi : 0 <= ret / B <= B - 1).
  { split; [apply Z.div_pos; lia | apply Z.lt_succ_r; apply Z.div_lt_upper_bound; nia]. }
  set (s := ret mod B + carry).
  pose proof (Z.div_mod s B ltac:(lia)) as Hsdm.
  pose proof (Z.mod_pos_bound s B ltac:(lia)) as Hsmb.
  assert (Hc' : 0 <= s / B <= 1).
  { split; [apply Z.div_pos; unfold s; lia | apply Z.lt_succ_r; apply Z.div_lt_upper_bound; unfold s; lia]. }
  (* hi + c' does not wrap: the total fits two words *)
  assert (Htot : ret / B + s / B < B).
  { assert (B * (ret / B) + B * (s / B) + s mod B = a + b * c + carry) by (unfold s, ret in *; lia).
    assert (a + b * c + carry <= B * B - 1) by nia.
    destruct (Z_lt_ge_dec (ret / B + s / B) B); [assumption|].
    assert (B * B <= B * (ret / B + s / B)) by (apply Z.mul_le_mono_nonneg_l; lia). lia. }
  rewrite (Z.mod_small (ret / B + s / B) B) by lia.
  repeat split; try lia.
Qed.

(* ---- masks ---- *)
Lemma wneg_0 : wneg 0 = 0. Proof. reflexivity. Qed.
Lemma wneg_1 : wneg 1 = MAXW. Proof. reflexivity. Qed.
Lemma from_word_lsb_bool (b : bool) : from_word_lsb (if b then 1 else 0) = choice_of_bool b.
Proof. destruct b; reflexivity. Qed.

Lemma land_MAXW x : is_word x -> Z.land MAXW x = x.
Proof.
  unfold is_word. intros H. rewrite MAXW_val, B_val in *.
  change (2 ^ 64 - 1) with (Z.ones 64). rewrite Z.land_comm, Z.land_ones by lia.
  apply Z.mod_small. lia.
Qed.

Lemma select_word_0 a b : select_word 0 a b = a.
Proof. unfold select_word, wxor, wand. rewrite Z.land_0_l, Z.lxor_0_r. reflexivity. Qed.

Lemma select_word_MAXW a b : is_word a -> is_word b -> select_word MAXW a b = b.
Proof.
  intros Ha Hb. unfold select_word, wxor, wand.
  assert (Hx : is_word (Z.lxor a b)).
  { unfold is_word in *. rewrite B_val in *. split.
    - apply Z.lxor_nonneg. lia.
    - destruct (Z.eq_dec (Z.lxor a b) 0) as [->|Hnz]; [lia|].
      apply Z.log2_lt_pow2. { pose proof (Z.lxor_nonneg a b). lia. }
      eapply Z.le_lt_trans. apply Z.log2_lxor; lia.
      apply Z.max_lub_lt.
      + destruct (Z.eq_dec a 0) as [->|]; [reflexivity|]. apply Z.log2_lt_pow2; lia.
      + destruct (Z.eq_dec b 0) as [->|]; [reflexivity|]. apply Z.log2_lt_pow2; lia. }
  rewrite land_MAXW by assumption.
  rewrite <- Z.lxor_assoc, Z.lxor_nilpotent, Z.lxor_0_l. reflexivity.
Qed.

Lemma select_word_choice c a b :
  is_word a -> is_word b -> select_word (choice_of_bool c) a b = if c then b else a.
Proof. destruct c; simpl; [apply select_word_MAXW | intros; apply select_word_0]. Qed.
