(** C09 proofs, part 6: from integers to (as_montgomery(), retrieve()).  The model entries of the op table, instantiated
    with the value-level Montgomery multiplication / AMM, return exactly the limb lists of the specification:
    base^(exponent mod 2^k) mod m, the product of the powers, the sum of the products. *)
From CB Require Import Model.Limbs Model.AddSub Model.ModArith Model.Cmp Model.Pow
  Proofs.WordP Proofs.LimbsP Proofs.AddSubP Proofs.PowMathP Proofs.PowLadderP Proofs.PowFixedP Proofs.PowBoxedP
  Proofs.PowLincombP.
From Coq Require Import ZArith Lia List Bool.
Open Scope Z_scope.
Notation length := List.length.

Section Api.
Variable mL : list Z.
Hypothesis HmL : wf mL.
Hypothesis Hn : length mL <> 0%nat.
Hypothesis Hodd : Z.odd (eval mL) = true.
Notation n := (length mL).
Notation m := (eval mL).
Notation rinv := (mg_rinv n m).
Notation R := (Bn n).
Notation V := (V m rinv).
Notation mm := (mmul_v n m rinv).
Notation one := (to_limbs n (mg_one n m)).

Lemma m_range : 0 < m <= R.
Proof.
  pose proof (eval_bounds mL HmL). split; [|lia].
  destruct (Z.eq_dec m 0) as [E|E]; [rewrite E in Hodd; discriminate | lia].
Qed.
Lemma m_pos : 0 < m. Proof. apply m_range. Qed.

Lemma mm_mul x y : Mf n m x -> Mf n m y -> Mf n m (mm x y) /\ eval (mm x y) mod m = (eval x * eval y * rinv) mod m.
Proof. intros _ _. apply mmul_v_ok. apply m_range. Qed.
Lemma mm_sq x : Mf n m x -> Mf n m (mm x x) /\ eval (mm x x) mod m = (eval x * eval x * rinv) mod m.
Proof. intros _. apply mmul_v_ok. apply m_range. Qed.

(** the outcome of an API call whose Montgomery form [z] is canonical and has value [v] *)
Lemma api_out_spec z v : Mf n m z -> V z = v mod m -> api_out n m rinv z = sp_out n m (v mod m).
Proof.
  intros Hz Hv. destruct (canonical_out n m m_range Hodd z v Hz Hv) as [E1 E2].
  unfold api_out, sp_out. rewrite E2. rewrite E1 at 1. reflexivity.
Qed.

(** pow / pow_bounded_exp of MontyForm and ConstMontyForm *)
Theorem api_pow_fixed_correct x e k : wf x -> wf e -> 0 <= k <= bitsZ e ->
  api_pow_fixed mL x e k = sp_out n m ((eval x ^ (eval e mod 2 ^ k)) mod m).
Proof.
  intros Hx He Hk. unfold api_pow_fixed.
  replace (bitsZ e <? k) with false by (symmetry; apply Z.ltb_ge; lia).
  destruct (V_one n m m_range Hodd) as [H1 V1]. destruct (V_to_monty n m m_range Hodd x) as [Hxm Vx].
  destruct (pow_ladder_correct n m rinv m_pos mm (fun z => mm z z) mm_mul mm_sq one H1 V1 (to_monty_v n m x) e k ltac:(lia) Hxm He)
    as [Hz Vz].
  apply api_out_spec; [exact Hz|]. rewrite Vz, Vx. apply powmod_mod.
  apply Z.mod_pos_bound. apply Z.pow_pos_nonneg; lia.
Qed.

(** BoxedMontyForm::pow_bounded_exp *)
Theorem api_pow_boxed_correct x e k : wf x -> wf e -> 0 <= k <= bitsZ e ->
  api_pow_boxed mL x e k = sp_out n m ((eval x ^ (eval e mod 2 ^ k)) mod m).
Proof.
  intros Hx He Hk. unfold api_pow_boxed.
  replace (bitsZ e <? k) with false by (symmetry; apply Z.ltb_ge; lia).
  destruct (V_one n m m_range Hodd) as [H1 V1]. destruct (V_to_monty n m m_range Hodd x) as [Hxm Vx].
  destruct (boxed_pow_reduced n m rinv m_pos Hn (amm_v n m (mg_neg_inv_full n m))
              (fun a b Ha Hb => amm_v_ok n m a b m_range Hodd Ha Hb) mL (conj HmL eq_refl) eq_refl one H1 V1
              (to_monty_v n m x) e k ltac:(lia) Hxm He) as [Hz Vz].
  apply api_out_spec; [exact Hz|]. rewrite Vz, Vx. apply powmod_mod.
  apply Z.mod_pos_bound. apply Z.pow_pos_nonneg; lia.
Qed.

(** the three representations agree *)
Corollary api_pow_agree x e k : wf x -> wf e -> 0 <= k <= bitsZ e -> api_pow_boxed mL x e k = api_pow_fixed mL x e k.
Proof. intros. rewrite api_pow_fixed_correct, api_pow_boxed_correct by assumption. reflexivity. Qed.

(** multi-exponentiation *)
Fixpoint prod_spec (bes : list (list Z * list Z)) (k : Z) : Z :=
  match bes with [] => 1 | be :: r => eval (fst be) ^ (eval (snd be) mod 2 ^ k) * prod_spec r k end.

Lemma prod_pow_map bes k : 0 <= k ->
  prod_pow m rinv (map (fun be => (to_monty_v n m (fst be), snd be)) bes) k mod m = prod_spec bes k mod m.
Proof.
  intros Hk. induction bes as [|be r IH]; [reflexivity|].
  cbn [map prod_pow prod_spec fst snd]. apply mul_cong; [|exact IH].
  destruct (V_to_monty n m m_range Hodd (fst be)) as [_ Vx]. rewrite Vx. apply powmod_mod.
  apply Z.mod_pos_bound. apply Z.pow_pos_nonneg; lia.
Qed.

Lemma existsb_forallb_false {A} (f g : A -> bool) l : (forall x, g x = true -> f x = false) -> forallb g l = true -> existsb f l = false.
Proof.
  intros H. induction l as [|x l IH]; [reflexivity|]. cbn [forallb existsb]. intros E. apply andb_prop in E. destruct E as [E1 E2].
  rewrite (H x E1), (IH E2). reflexivity.
Qed.

Theorem api_multiexp_correct slice k bes : 0 <= k ->
  Forall (fun be => wf (fst be) /\ wf (snd be) /\ k <= bitsZ (snd be)) bes ->
  api_multiexp_fixed slice mL k bes = sp_out n m (prod_spec bes k mod m).
Proof.
  intros Hk Hb. unfold api_multiexp_fixed.
  replace (existsb (fun be => bitsZ (snd be) <? k) bes) with false.
  2:{ symmetry. apply (existsb_forallb_false _ (fun be => k <=? bitsZ (snd be))).
      - intros be E. apply Z.leb_le in E. apply Z.ltb_ge. assumption.
      - apply forallb_forall. intros be Hin. rewrite Forall_forall in Hb. apply Z.leb_le. apply (Hb be Hin). }
  rewrite andb_false_r.
  destruct (V_one n m m_range Hodd) as [H1 V1].
  set (bes' := map (fun be => (to_monty_v n m (fst be), snd be)) bes).
  assert (Hok : Forall (be_ok n m) bes').
  { unfold bes'. apply Forall_forall. intros be' Hin. apply in_map_iff in Hin. destruct Hin as (be & <- & Hin).
    rewrite Forall_forall in Hb. destruct (Hb be Hin) as (_ & He & _). split; [apply (V_to_monty n m m_range Hodd) | exact He]. }
  assert (Hres : Mf n m (multi_exp_array mm (fun z => mm z z) one bes' k) /\
                 V (multi_exp_array mm (fun z => mm z z) one bes' k) = prod_pow m rinv bes' k mod m).
  { apply (multi_exp_array_correct n m rinv m_pos mm (fun z => mm z z) mm_mul mm_sq one H1 V1 bes' k Hk Hok). }
  destruct Hres as [Hz Vz].
  replace ((if slice then multi_exp_slice else multi_exp_array) mm (fun z => mm z z) one bes' k)
    with (multi_exp_array mm (fun z => mm z z) one bes' k) by (destruct slice; [symmetry; apply slice_is_array | reflexivity]).
  apply api_out_spec; [exact Hz|]. rewrite Vz. unfold bes'. apply prod_pow_map. assumption.
Qed.

(** lincomb_vartime *)
Lemma mg_lz_spec : 0 <= mg_lz n m <= 63 /\ m * 2 ^ mg_lz n m <= R.
Proof.
  pose proof m_range as Hm. pose proof (eval_bounds mL HmL) as Hb. unfold mg_lz, zbits.
  replace (m <=? 0) with false by (symmetry; apply Z.leb_gt; lia).
  pose proof (Z.log2_spec m ltac:(lia)) as [Hlo Hhi].
  rewrite pw_Bn_pow in *. set (N := 64 * Z.of_nat n) in *.
  assert (HN : Z.log2 m < N) by (apply Z.log2_lt_pow2; lia).
  assert (H0 : 0 <= Z.log2 m) by apply Z.log2_nonneg.
  set (lz := Z.min 63 (N - (Z.log2 m + 1))).
  assert (Hlz : 0 <= lz <= 63 /\ lz <= N - (Z.log2 m + 1)) by (unfold lz; lia).
  split; [lia|].
  apply Z.le_trans with (2 ^ Z.succ (Z.log2 m) * 2 ^ lz).
  - apply Z.mul_le_mono_nonneg_r; [apply Z.pow_nonneg; lia | lia].
  - rewrite <- Z.pow_add_r by lia. apply Z.pow_le_mono_r; lia.
Qed.

Lemma lin_sum_map terms :
  (lin_sum (map (fun ab => (to_monty_v n m (fst ab), to_monty_v n m (snd ab))) terms) * (rinv * rinv)) mod m
  = sum_prods terms mod m.
Proof.
  induction terms as [|[a b] r IH]; [reflexivity|].
  cbn [map lin_sum sum_prods fst snd]. rewrite Z.mul_add_distr_r. apply add_cong; [|exact IH].
  destruct (V_to_monty n m m_range Hodd a) as [_ Va]. destruct (V_to_monty n m m_range Hodd b) as [_ Vb].
  unfold PowLadderP.V in Va, Vb.
  replace (eval (to_monty_v n m a) * eval (to_monty_v n m b) * (rinv * rinv))
    with (eval (to_monty_v n m a) * rinv * (eval (to_monty_v n m b) * rinv)) by ring.
  rewrite <- mulmod_both, Va, Vb, mulmod_both. reflexivity.
Qed.

Theorem api_lincomb_correct boxed dbg terms : terms <> [] ->
  Forall (fun ab => wf (fst ab) /\ wf (snd ab)) terms ->
  api_lincomb boxed dbg mL terms = sp_out n m (sum_prods terms mod m).
Proof.
  intros Hne Ht. unfold api_lincomb. destruct terms as [|t0 tr] eqn:Et; [contradiction|]. rewrite <- Et in *.
  set (prods := map (fun ab => (to_monty_v n m (fst ab), to_monty_v n m (snd ab))) terms).
  destruct (mg_neg_inv_spec m m_pos Hodd) as [Hnw Hni]. destruct mg_lz_spec as [Hlz Hlzm].
  assert (Hp : Forall (mterm_ok n mL) prods).
  { unfold prods. apply Forall_forall. intros ab' Hin. apply in_map_iff in Hin. destruct Hin as (ab & <- & _).
    split; apply (V_to_monty n m m_range Hodd). }
  destruct (lincomb_fixed_correct n mL (mg_neg_inv m) (mg_lz n m) HmL eq_refl Hn Hni m_pos Hlz Hlzm dbg prods Hp)
    as (z & Hz & Hzm & Hzc).
  assert (Hsel : (if boxed then lincomb_boxed else lincomb_fixed) dbg prods mL (mg_neg_inv m) (mg_lz n m) = Some z).
  { destruct boxed; [|exact Hz].
    rewrite (lincomb_boxed_correct n mL (mg_neg_inv m) (mg_lz n m) HmL eq_refl Hn Hni m_pos Hlz Hlzm dbg prods Hp). exact Hz. }
  fold prods. rewrite Hsel. apply api_out_spec; [exact Hzm|].
  destruct (mg_rinv_spec n m m_pos Hodd) as [_ Hr].
  unfold PowLadderP.V. rewrite <- lin_sum_map. fold prods.
  (* z = z * (R * rinv) and z * R = lin_sum (mod m) *)
  transitivity ((eval z * R * (rinv * rinv)) mod m).
  - replace (eval z * R * (rinv * rinv)) with (eval z * rinv * (R * rinv)) by ring.
    rewrite <- (mulmod_r (eval z * rinv) (R * rinv)), Hr, mulmod_r, Z.mul_1_r. reflexivity.
  - rewrite <- (mulmod_l (eval z * R)), Hzc, mulmod_l. reflexivity.
Qed.
(** the runtime / compile-time implementation and the boxed one return the same limbs *)
Corollary api_lincomb_agree dbg terms : terms <> [] -> Forall (fun ab => wf (fst ab) /\ wf (snd ab)) terms ->
  api_lincomb true dbg mL terms = api_lincomb false dbg mL terms.
Proof. intros Hne Ht. rewrite !api_lincomb_correct by assumption. reflexivity. Qed.
End Api.
