(** C20, part 3: the square root models compute floor(sqrt) — constant-time (fixed LOG2_BITS + 2 rounds),
    vartime (until non-decreasing), Uint and BoxedUint, and the checked forms. *)
From CB Require Import Model.Limbs Model.AddSub Model.Sqrt Proofs.WordP Proofs.LimbsP Proofs.AddSubP
  Proofs.SqrtMathP Proofs.SqrtLimbsP.
From Coq Require Import ZArith Lia List.
Open Scope Z_scope.

(* ---- small facts ---- *)
Lemma one_limbs_spec n : n <> 0%nat -> wf (one_limbs n) /\ length (one_limbs n) = n /\ eval (one_limbs n) = 1.
Proof.
  destruct n as [|k]; [congruence|]. intros _. cbn [one_limbs eval length].
  rewrite eval_zeros, length_zeros. split; [|split; [reflexivity|lia]].
  apply wf_cons. split; [|apply wf_zeros]. unfold is_word. pose proof B_gt1. lia.
Qed.

Lemma choice_to_bool_of_bool b : choice_to_bool (choice_of_bool b) = b.
Proof. destruct b; reflexivity. Qed.

Definition good (len : nat) (x : list Z) : Prop := wf x /\ length x = len.

Lemma good_zeros len : good len (zeros len).
Proof. split; [apply wf_zeros|apply length_zeros]. Qed.

Lemma div_val_spec a d : wf a -> 0 <= eval d ->
  good (length a) (div_val a d) /\ eval (div_val a d) = eval a / eval d.
Proof.
  intros Ha Hd. unfold div_val. split; [split; [apply wf_to_limbs|apply length_to_limbs]|].
  rewrite eval_to_limbs. apply Z.mod_small. pose proof (eval_bounds a Ha).
  destruct (Z.eq_dec (eval d) 0) as [->|]. { rewrite Zdiv_0_r. lia. }
  split; [apply Z.div_pos; lia|].
  assert (eval a / eval d <= eval a); [|lia]. apply Z.div_le_upper_bound; [lia|].
  assert (1 * eval a <= eval d * eval a) by (apply Z.mul_le_mono_nonneg_r; lia). lia.
Qed.

Lemma half_pow len : len <> 0%nat ->
  let H := 2 ^ (32 * Z.of_nat len) in Bn len = H * H /\ 2 ^ 32 <= H.
Proof.
  intros Hn H. split.
  - subst H. rewrite Bn_pow, <- Z.pow_add_r by lia. f_equal. lia.
  - subst H. apply Z.pow_le_mono_r; lia.
Qed.

(* ---- the initial estimate ---- *)
Lemma sqrt_init_spec a : wf a -> length a <> 0%nat ->
  exists x0, sqrt_init a = Some x0 /\ boxed_sqrt_init a = Some x0 /\ good (length a) x0 /\
             eval x0 = 2 ^ ((bitlen (eval a) + 1) / 2) /\ eval x0 <= 2 ^ (32 * Z.of_nat (length a)).
Proof.
  intros Hw Hn. unfold sqrt_init, boxed_sqrt_init. rewrite bits_limbs_spec by assumption.
  destruct (one_limbs_spec (length a) Hn) as (Hw1 & Hl1 & He1).
  pose proof (eval_bounds a Hw) as Hb. rewrite Bn_pow in Hb.
  pose proof (bitlen_le (eval a) (64 * Z.of_nat (length a)) ltac:(lia) Hb) as Hbl.
  pose proof (bitlen_nonneg (eval a)) as Hb0.
  set (c := (bitlen (eval a) + 1) / 2).
  assert (Hc : 0 <= c <= 32 * Z.of_nat (length a)).
  { subst c. split; [apply Z.div_pos; lia|].
    assert ((bitlen (eval a) + 1) / 2 < 32 * Z.of_nat (length a) + 1); [|lia]. apply Z.div_lt_upper_bound; lia. }
  destruct (overflowing_shl_limbs_spec (one_limbs (length a)) c Hw1 ltac:(lia) ltac:(rewrite Hl1; lia))
    as (r & Er & Hwr & Hlr & Her).
  rewrite Er. cbn [Z.eqb]. exists r. split; [reflexivity|]. split; [reflexivity|].
  rewrite Hl1 in *. split; [split; assumption|].
  assert (Hp : 2 ^ c <= 2 ^ (32 * Z.of_nat (length a))) by (apply Z.pow_le_mono_r; lia).
  assert (Hp2 : 2 ^ (32 * Z.of_nat (length a)) < Bn (length a)).
  { rewrite Bn_pow. apply Z.pow_lt_mono_r; lia. }
  assert (0 < 2 ^ c) by (apply Z.pow_pos_nonneg; lia).
  rewrite Her, He1, Z.mul_1_l, Z.mod_small by lia. split; [reflexivity|assumption].
Qed.

(* ---- one Newton round at the limb level ---- *)
Definition stepz (N X : Z) : Z := if X =? 0 then 0 else newton N X.
Definition fits (len : nat) (N X : Z) : Prop := X = 0 \/ (0 < X /\ X + N / X < Bn len).

Lemma add_shr1_spec x q len : good len x -> good len q -> eval x + eval q < Bn len ->
  good len (shr1_limbs (uint_wrapping_add x q)) /\ eval (shr1_limbs (uint_wrapping_add x q)) = (eval x + eval q) / 2.
Proof.
  intros [Hwx Hlx] [Hwq Hlq] Hfit.
  destruct (wrapping_add_spec x q Hwx Hwq ltac:(lia)) as (He & Hw & Hl).
  destruct (shr1_limbs_spec _ Hw) as (He2 & Hw2 & Hl2).
  split; [split; [assumption|lia]|]. rewrite He2, He, Hlx.
  rewrite Z.mod_small; [reflexivity|]. pose proof (eval_nonneg x Hwx). pose proof (eval_nonneg q Hwq). lia.
Qed.

Lemma ct_step_spec nl x : wf nl -> length nl <> 0%nat -> good (length nl) x -> fits (length nl) (eval nl) (eval x) ->
  good (length nl) (sqrt_ct_step nl x) /\ eval (sqrt_ct_step nl x) = stepz (eval nl) (eval x).
Proof.
  intros Hn Hlen [Hwx Hlx] Hfit. unfold sqrt_ct_step, stepz.
  destruct (one_limbs_spec (length nl) Hlen) as (Hw1 & Hl1 & He1).
  rewrite is_nonzero_limbs_spec by assumption.
  rewrite (select_limbs_choice _ (one_limbs (length nl)) x) by (auto; lia).
  destruct (Z.eqb_spec (eval x) 0) as [E0|E0]; cbn [negb].
  - destruct (div_val_spec nl (one_limbs (length nl)) Hn ltac:(lia)) as [[Hwq Hlq] Heq].
    destruct (wrapping_add_spec x _ Hwx Hwq ltac:(lia)) as (_ & Hwa & Hla).
    destruct (shr1_limbs_spec _ Hwa) as (_ & Hws & Hls).
    rewrite select_limbs_choice by (auto using wf_zeros; rewrite length_zeros; lia).
    split; [apply good_zeros|apply eval_zeros].
  - destruct Hfit as [?|[Hpos Hfit]]; [contradiction|].
    destruct (div_val_spec nl x Hn ltac:(lia)) as [Hgq Heq].
    destruct (add_shr1_spec x (div_val nl x) (length nl) ltac:(split; assumption) Hgq ltac:(rewrite Heq; assumption)) as [[Hws Hls] Hes].
    rewrite select_limbs_choice by (auto using wf_zeros; rewrite length_zeros; lia).
    split; [split; assumption|]. rewrite Hes, Heq. reflexivity.
Qed.

Lemma map_wand_MAXW q : wf q -> map (fun w => wand w MAXW) q = q.
Proof.
  induction q as [|y q IH]; intros Hw; [reflexivity|]. apply wf_cons in Hw. destruct Hw as [Hy Hq].
  cbn [map]. rewrite wand_MAXW_r, IH by assumption. reflexivity.
Qed.
Lemma map_wand_0 q : map (fun w => wand w 0) q = zeros (length q).
Proof. induction q as [|y q IH]; [reflexivity|]. cbn [map length]. rewrite wand_0_r, IH. reflexivity. Qed.

Lemma boxed_step_spec nl x nzx : wf nl -> length nl <> 0%nat -> good (length nl) x -> good (length nl) nzx ->
  fits (length nl) (eval nl) (eval x) ->
  fst (boxed_sqrt_step nl x nzx) = sqrt_ct_step nl x /\ good (length nl) (snd (boxed_sqrt_step nl x nzx)).
Proof.
  intros Hn Hlen [Hwx Hlx] [Hwz Hlz] Hfit.
  destruct (ct_step_spec nl x Hn Hlen ltac:(split; assumption) Hfit) as [[Hwc Hlc] Hec].
  unfold boxed_sqrt_step. cbn [fst snd].
  rewrite boxed_is_nonzero_limbs_spec by assumption.
  rewrite (select_limbs_choice _ nzx x) by (auto; lia).
  rewrite select_word_choice by (apply is_word_0 || apply is_word_MAXW).
  unfold stepz in Hec.
  destruct (Z.eqb_spec (eval x) 0) as [E0|E0]; cbn [negb].
  - split; [|split; assumption].
    destruct (div_val_spec nl nzx Hn (eval_nonneg _ Hwz)) as [[Hwq Hlq] _].
    rewrite map_wand_0, length_resize.
    destruct (wrapping_add_spec x (zeros (length x)) Hwx (wf_zeros _) ltac:(rewrite length_zeros; reflexivity)) as (He & Hw & Hl).
    destruct (shr1_limbs_spec _ Hw) as (He2 & Hw2 & Hl2).
    apply eval_inj; try assumption; [unfold uint_wrapping_add in *; lia|].
    unfold uint_wrapping_add in *. rewrite He2, He, eval_zeros, E0, Hec. reflexivity.
  - destruct Hfit as [?|[Hpos Hfit]]; [contradiction|].
    split; [|split; assumption].
    destruct (div_val_spec nl x Hn ltac:(lia)) as [[Hwq Hlq] Heq].
    replace (length x) with (length (div_val nl x)) by lia. rewrite resize_same, map_wand_MAXW by assumption.
    destruct (add_shr1_spec x (div_val nl x) (length nl) ltac:(split; assumption) ltac:(split; assumption)
                ltac:(rewrite Heq; assumption)) as [[Hws Hls] Hes].
    apply eval_inj; try assumption; [unfold uint_wrapping_add in *; lia|].
    unfold uint_wrapping_add in *. rewrite Hes, Heq, Hec. reflexivity.
Qed.

(* ---- the fixed-count loop under an invariant P of the estimate ---- *)
Fixpoint iterz (k : nat) (N X : Z) : Z :=
  match k with O => X | S k' => iterz k' N (stepz N X) end.

Section Loop.
  Variable nl : list Z.
  Variable P : Z -> Prop.
  Hypothesis Hn : wf nl.
  Hypothesis Hlen : length nl <> 0%nat.
  Hypothesis HP : forall X, P X -> fits (length nl) (eval nl) X /\ P (stepz (eval nl) X).

  Lemma ct_loop_spec k : forall x xp p q, good (length nl) x -> P (eval x) ->
    sqrt_ct_loop k nl x xp = (p, q) ->
    good (length nl) q /\ eval q = iterz k (eval nl) (eval x) /\
    match k with
    | O => p = xp
    | S k' => good (length nl) p /\ eval p = iterz k' (eval nl) (eval x)
    end.
  Proof.
    induction k as [|k IH]; intros x xp p q Hg Hp E.
    - cbn [sqrt_ct_loop] in E. inv_pair E. auto.
    - cbn [sqrt_ct_loop] in E. destruct (HP _ Hp) as [Hfit Hp'].
      destruct (ct_step_spec nl x Hn Hlen Hg Hfit) as [Hg' He'].
      rewrite <- He' in Hp'.
      destruct (IH _ _ _ _ Hg' Hp' E) as (Hgq & Heq & Hprev).
      split; [assumption|]. split; [rewrite Heq, He'; reflexivity|].
      destruct k as [|k'].
      + subst p. split; [assumption|reflexivity].
      + destruct Hprev as [Hgp Hep]. split; [assumption|]. rewrite Hep, He'. reflexivity.
  Qed.

  Lemma boxed_loop_eq k : forall x xp nzx, good (length nl) x -> good (length nl) nzx -> P (eval x) ->
    boxed_sqrt_loop k nl x xp nzx = sqrt_ct_loop k nl x xp.
  Proof.
    induction k as [|k IH]; intros x xp nzx Hg Hgz Hp; [reflexivity|].
    cbn [boxed_sqrt_loop sqrt_ct_loop]. destruct (HP _ Hp) as [Hfit Hp'].
    destruct (boxed_step_spec nl x nzx Hn Hlen Hg Hgz Hfit) as [E1 Hgz'].
    destruct (ct_step_spec nl x Hn Hlen Hg Hfit) as [Hg' He'].
    destruct (boxed_sqrt_step nl x nzx) as [x' nzx'] eqn:Eb. cbn [fst snd] in *. subst x'.
    apply IH; try assumption. rewrite He'. assumption.
  Qed.

  (* the vartime loop follows [vtz] *)
  Lemma vt_loop_spec fuel : forall x, good (length nl) x -> P (eval x) ->
    match vtz fuel (eval nl) (eval x) with
    | Some v => exists r, sqrt_vt_loop fuel nl x = SOk r /\ good (length nl) r /\ eval r = v
    | None => sqrt_vt_loop fuel nl x = SFuel
    end.
  Proof.
    induction fuel as [|f IH]; intros x Hg Hp; [reflexivity|].
    destruct Hg as [Hwx Hlx]. cbn [vtz sqrt_vt_loop].
    rewrite cmp_vartime_limbs_spec by (auto using wf_zeros; rewrite length_zeros; reflexivity).
    rewrite cmp_code_eq, eval_zeros.
    destruct (Z.eqb_spec (eval x) 0) as [E0|E0].
    - exists x. repeat split; auto.
    - destruct (HP _ Hp) as [[?|[Hpos Hfit]] Hp']; [contradiction|].
      destruct (div_val_spec nl x Hn ltac:(lia)) as [Hgq Heq].
      destruct (add_shr1_spec x (div_val nl x) (length nl) ltac:(split; assumption) Hgq ltac:(rewrite Heq; assumption)) as [[Hws Hls] Hes].
      rewrite cmp_vartime_limbs_spec by (auto; lia). rewrite cmp_code_gt, Hes, Heq.
      fold (newton (eval nl) (eval x)).
      destruct (Z.ltb_spec (newton (eval nl) (eval x)) (eval x)).
      + assert (Hs : stepz (eval nl) (eval x) = newton (eval nl) (eval x)).
        { unfold stepz. destruct (Z.eqb_spec (eval x) 0); [contradiction|reflexivity]. }
        rewrite Hs in Hp'.
        specialize (IH (shr1_limbs (uint_wrapping_add x (div_val nl x))) ltac:(split; assumption)).
        rewrite Hes, Heq in IH. apply IH. assumption.
      + exists x. repeat split; auto.
  Qed.
End Loop.

(* ---- invariants: N > 0 and N = 0 ---- *)
Definition Ppos (len : nat) (N X : Z) : Prop := Z.sqrt N <= X <= 2 ^ (32 * Z.of_nat len).
Definition Pzero (X : Z) : Prop := X = 0 \/ X = 1.

Lemma sqrt_lt_half len N : len <> 0%nat -> 0 <= N < Bn len -> Z.sqrt N < 2 ^ (32 * Z.of_nat len).
Proof.
  intros Hl HN. destruct (half_pow len Hl) as [HB Hh]. set (H := 2 ^ (32 * Z.of_nat len)) in *.
  pose proof (sqrt_bounds N ltac:(lia)) as [Hs _]. pose proof (Z.sqrt_nonneg N).
  destruct (Z_lt_le_dec (Z.sqrt N) H); [assumption|exfalso].
  assert (H * H <= Z.sqrt N * Z.sqrt N) by (apply Z.mul_le_mono_nonneg; lia). lia.
Qed.

Lemma Ppos_inv len N : len <> 0%nat -> 0 < N < Bn len ->
  forall X, Ppos len N X -> fits len N X /\ Ppos len N (stepz N X).
Proof.
  intros Hl HN X [Hlo Hhi]. destruct (half_pow len Hl) as [HB Hh]. set (H := 2 ^ (32 * Z.of_nat len)) in *.
  assert (Hs0 : 0 < Z.sqrt N) by (apply Z.sqrt_pos; lia).
  pose proof (sqrt_lt_half len N Hl ltac:(lia)) as HsH. fold H in HsH.
  pose proof (sqrt_bounds N ltac:(lia)) as [Hsl Hsu].
  split.
  - right. split; [lia|].
    assert (N / X < Z.sqrt N + 3).
    { apply Z.div_lt_upper_bound; [lia|].
      assert (Z.sqrt N * (Z.sqrt N + 3) <= X * (Z.sqrt N + 3)) by (apply Z.mul_le_mono_nonneg_r; lia). lia. }
    assert (3 * H <= H * H) by (apply Z.mul_le_mono_nonneg_r; lia). lia.
  - unfold stepz, Ppos. destruct (Z.eqb_spec X 0); [lia|]. fold H.
    split; [apply newton_ge; lia|].
    destruct (Z.eq_dec X (Z.sqrt N)) as [->|Hne].
    + pose proof (newton_root N ltac:(lia)). lia.
    + pose proof (newton_lt N X ltac:(lia) ltac:(lia)). lia.
Qed.

Lemma Pzero_inv len : len <> 0%nat -> forall X, Pzero X -> fits len 0 X /\ Pzero (stepz 0 X).
Proof.
  intros Hl X [-> | ->].
  - split; [left; reflexivity|left; reflexivity].
  - split; [|left; reflexivity]. right. split; [lia|]. destruct (half_pow len Hl) as [HB Hh].
    change (0 / 1) with 0.
    assert (2 ^ 32 * 2 ^ 32 <= 2 ^ (32 * Z.of_nat len) * 2 ^ (32 * Z.of_nat len)) by (apply Z.mul_le_mono_nonneg; lia).
    rewrite HB. lia.
Qed.

Lemma iterz_iter k : forall N X, 0 < N -> Z.sqrt N <= X -> iterz k N X = SqrtMathP.iter k N X.
Proof.
  induction k as [|k IH]; intros N X HN HX; [reflexivity|].
  assert (Hs0 : 0 < Z.sqrt N) by (apply Z.sqrt_pos; lia).
  cbn [iterz SqrtMathP.iter]. unfold stepz. destruct (Z.eqb_spec X 0); [lia|]. apply IH; [assumption|]. apply newton_ge; lia.
Qed.

Lemma iterz_zero k : iterz k 0 0 = 0.
Proof. induction k; [reflexivity|]. cbn [iterz]. exact IHk. Qed.
Lemma iterz_zero_one k : iterz (S k) 0 1 = 0.
Proof. cbn [iterz]. apply iterz_zero. Qed.

Lemma log2_bits_rounds len : len <> 0%nat ->
  0 <= log2_bits len /\ 32 * Z.of_nat len <= 2 ^ Z.of_nat (Z.to_nat (log2_bits len)) - 1.
Proof.
  intros Hl. unfold log2_bits. pose proof (Z.log2_nonneg (64 * Z.of_nat len)). split; [assumption|].
  rewrite Z2Nat.id by assumption.
  pose proof (log2_rounds (64 * Z.of_nat len) ltac:(lia)) as Hr.
  replace (64 * Z.of_nat len) with (2 * (32 * Z.of_nat len)) in Hr at 1 2 by ring.
  rewrite Z.even_mul in Hr. specialize (Hr eq_refl).
  rewrite (Z.mul_comm 2), Z.div_mul in Hr by lia. exact Hr.
Qed.

(* ---- final selection ---- *)
Lemma select_min len xp x : len <> 0%nat -> good len xp -> good len x ->
  good len (select_limbs (gt_limbs xp x) xp x) /\ eval (select_limbs (gt_limbs xp x) xp x) = Z.min (eval xp) (eval x).
Proof.
  intros Hl [Hwp Hlp] [Hwx Hlx]. rewrite gt_limbs_spec by (auto; lia).
  rewrite select_limbs_choice by (auto; lia).
  destruct (Z.ltb_spec (eval x) (eval xp)); (split; [split; assumption|lia]).
Qed.

(* ---- the constant-time square root: both loops ---- *)
Lemma ct_loop_result a x0 p q : wf a -> length a <> 0%nat -> good (length a) x0 ->
  eval x0 = 2 ^ ((bitlen (eval a) + 1) / 2) -> eval x0 <= 2 ^ (32 * Z.of_nat (length a)) ->
  sqrt_ct_loop (Z.to_nat (log2_bits (length a) + 2)) a x0 x0 = (p, q) ->
  good (length a) p /\ good (length a) q /\ Z.min (eval p) (eval q) = Z.sqrt (eval a).
Proof.
  intros Hw Hl Hg0 He0 Hle0 E.
  destruct (log2_bits_rounds (length a) Hl) as [HL0 HLr].
  replace (Z.to_nat (log2_bits (length a) + 2)) with (S (S (Z.to_nat (log2_bits (length a))))) in E by lia.
  set (kk := Z.to_nat (log2_bits (length a))) in *.
  pose proof (eval_bounds a Hw) as Hb.
  destruct (Z.eq_dec (eval a) 0) as [E0|E0].
  - (* N = 0 : x0 = 1, then 0 for ever *)
    rewrite E0 in He0. change (2 ^ ((bitlen 0 + 1) / 2)) with 1 in He0.
    pose proof (ct_loop_spec a Pzero Hw Hl) as Hloop. rewrite E0 in Hloop.
    specialize (Hloop (Pzero_inv (length a) Hl) _ x0 x0 p q Hg0 ltac:(right; assumption) E).
    destruct Hloop as (Hgq & Heq & Hgp & Hep). rewrite He0 in Heq, Hep.
    rewrite iterz_zero_one in Heq, Hep. rewrite Heq, Hep, E0. auto.
  - assert (HN : 0 < eval a < Bn (length a)) by lia.
    destruct (init_bounds (eval a) ltac:(lia)) as [Hi1 Hi2]. rewrite <- He0 in Hi1, Hi2.
    pose proof (ct_loop_spec a (Ppos (length a) (eval a)) Hw Hl (Ppos_inv (length a) (eval a) Hl HN)
                  _ x0 x0 p q Hg0 ltac:(unfold Ppos; lia) E) as (Hgq & Heq & Hgp & Hep).
    rewrite iterz_iter in Heq, Hep by lia.
    pose proof (sqrt_lt_half (length a) (eval a) Hl ltac:(lia)) as HsH.
    pose proof (ct_rounds_enough (eval a) (eval x0) (32 * Z.of_nat (length a)) kk ltac:(lia) ltac:(lia) HsH HLr ltac:(lia)) as Hr.
    rewrite <- Hep in Hr. rewrite iter_S, <- Hep in Heq.
    split; [assumption|]. split; [assumption|]. rewrite Heq. apply ct_result; lia.
Qed.

Lemma uint_sqrt_correct a : wf a -> length a <> 0%nat ->
  exists r, uint_sqrt a = SOk r /\ wf r /\ length r = length a /\ eval r = Z.sqrt (eval a).
Proof.
  intros Hw Hl. destruct (sqrt_init_spec a Hw Hl) as (x0 & E1 & _ & Hg0 & He0 & Hle0).
  unfold uint_sqrt, uint_sqrt_rounds. rewrite E1.
  destruct (sqrt_ct_loop _ a x0 x0) as [p q] eqn:E.
  destruct (ct_loop_result a x0 p q Hw Hl Hg0 He0 Hle0 E) as (Hgp & Hgq & Hmin).
  destruct (select_min (length a) p q Hl Hgp Hgq) as [[Hwr Hlr] Her].
  eexists. split; [reflexivity|]. rewrite Her. auto.
Qed.

Lemma boxed_sqrt_correct a : wf a -> length a <> 0%nat ->
  exists r, boxed_sqrt a = SOk r /\ wf r /\ length r = length a /\ eval r = Z.sqrt (eval a).
Proof.
  intros Hw Hl. destruct (sqrt_init_spec a Hw Hl) as (x0 & _ & E1 & Hg0 & He0 & Hle0).
  unfold boxed_sqrt, boxed_sqrt_rounds. rewrite E1.
  pose proof (eval_bounds a Hw) as Hb.
  assert (Heq : boxed_sqrt_loop (Z.to_nat (log2_bits (length a) + 2)) a x0 x0 x0
                = sqrt_ct_loop (Z.to_nat (log2_bits (length a) + 2)) a x0 x0).
  { destruct (Z.eq_dec (eval a) 0) as [E0|E0].
    - apply (boxed_loop_eq a Pzero Hw Hl); try assumption.
      + rewrite E0. apply Pzero_inv. assumption.
      + right. rewrite He0, E0. reflexivity.
    - assert (HN : 0 < eval a < Bn (length a)) by lia.
      apply (boxed_loop_eq a (Ppos (length a) (eval a)) Hw Hl (Ppos_inv (length a) (eval a) Hl HN)); try assumption.
      destruct (init_bounds (eval a) ltac:(lia)) as [Hi1 Hi2]. rewrite <- He0 in Hi1, Hi2. unfold Ppos. lia. }
  rewrite Heq.
  destruct (sqrt_ct_loop _ a x0 x0) as [p q] eqn:E.
  destruct (ct_loop_result a x0 p q Hw Hl Hg0 He0 Hle0 E) as (Hgp & Hgq & Hmin).
  destruct (select_min (length a) p q Hl Hgp Hgq) as [[Hwr Hlr] Her].
  eexists. split; [reflexivity|]. rewrite Her. auto.
Qed.

(* ---- the vartime square root ---- *)
Lemma vt_loop_pos a x0 : wf a -> length a <> 0%nat -> 0 < eval a -> good (length a) x0 ->
  eval x0 = 2 ^ ((bitlen (eval a) + 1) / 2) -> eval x0 <= 2 ^ (32 * Z.of_nat (length a)) ->
  exists r, sqrt_vt_loop (sqrt_fuel a) a x0 = SOk r /\ good (length a) r /\ eval r = Z.sqrt (eval a).
Proof.
  intros Hw Hl Hpos Hg0 He0 Hle0. pose proof (eval_bounds a Hw) as Hb.
  assert (HN : 0 < eval a < Bn (length a)) by lia.
  destruct (init_bounds (eval a) ltac:(lia)) as [Hi1 Hi2]. rewrite <- He0 in Hi1, Hi2.
  pose proof (vt_loop_spec a (Ppos (length a) (eval a)) Hw Hl (Ppos_inv (length a) (eval a) Hl HN)
                (sqrt_fuel a) x0 Hg0 ltac:(unfold Ppos; lia)) as Hloop.
  pose proof (sqrt_lt_half (length a) (eval a) Hl ltac:(lia)) as HsH.
  rewrite vtz_correct in Hloop; try lia.
  - exact Hloop.
  - unfold sqrt_fuel. rewrite Nat2Z.inj_mul. change (Z.of_nat 64) with 64.
    assert (2 ^ (32 * Z.of_nat (length a)) <= 2 ^ (64 * Z.of_nat (length a) - 1)) by (apply Z.pow_le_mono_r; lia).
    lia.
  - unfold sqrt_fuel. lia.
Qed.

Lemma uint_sqrt_vartime_correct a : wf a -> length a <> 0%nat ->
  exists r, uint_sqrt_vartime a = SOk r /\ wf r /\ length r = length a /\ eval r = Z.sqrt (eval a).
Proof.
  intros Hw Hl. unfold uint_sqrt_vartime.
  rewrite cmp_vartime_limbs_spec by (auto using wf_zeros; rewrite length_zeros; reflexivity).
  rewrite cmp_code_eq, eval_zeros. pose proof (eval_nonneg a Hw).
  destruct (Z.eqb_spec (eval a) 0) as [E0|E0].
  - exists (zeros (length a)). rewrite E0, eval_zeros, length_zeros. auto using wf_zeros.
  - destruct (sqrt_init_spec a Hw Hl) as (x0 & E1 & _ & Hg0 & He0 & Hle0). rewrite E1.
    destruct (vt_loop_pos a x0 Hw Hl ltac:(lia) Hg0 He0 Hle0) as (r & Er & [Hwr Hlr] & Her).
    exists r. auto.
Qed.

Lemma boxed_sqrt_vartime_correct a : wf a -> length a <> 0%nat ->
  exists r, boxed_sqrt_vartime a = SOk r /\ wf r /\ length r = length a /\ eval r = Z.sqrt (eval a).
Proof.
  intros Hw Hl. unfold boxed_sqrt_vartime.
  destruct (sqrt_init_spec a Hw Hl) as (x0 & _ & E1 & Hg0 & He0 & Hle0). rewrite E1.
  rewrite boxed_is_nonzero_limbs_spec, choice_to_bool_of_bool by assumption.
  pose proof (eval_nonneg a Hw).
  destruct (Z.eqb_spec (eval a) 0) as [E0|E0]; cbn [negb].
  - (* the loop still terminates: 1 -> 0 *)
    pose proof (vt_loop_spec a Pzero Hw Hl) as Hloop. rewrite E0 in Hloop.
    specialize (Hloop (Pzero_inv (length a) Hl) (sqrt_fuel a) x0 Hg0).
    rewrite E0 in He0. change (2 ^ ((bitlen 0 + 1) / 2)) with 1 in He0. rewrite He0 in Hloop.
    specialize (Hloop ltac:(right; reflexivity)).
    assert (Hf : exists f, sqrt_fuel a = S (S f)).
    { unfold sqrt_fuel. destruct (length a) as [|m]; [congruence|]. exists (62 + 64 * m)%nat. lia. }
    destruct Hf as [f Hf]. rewrite Hf in *.
    change (vtz (S (S f)) 0 1) with (Some 0) in Hloop. destruct Hloop as (r & -> & _).
    exists (zeros (length a)). rewrite eval_zeros, length_zeros, E0. repeat split; auto using wf_zeros.
  - destruct (vt_loop_pos a x0 Hw Hl ltac:(lia) Hg0 He0 Hle0) as (r & Er & [Hwr Hlr] & Her).
    rewrite Er. exists r. auto.
Qed.

(* ---- checked forms ---- *)
Lemma is_square_iff N : spec_is_square N = true <-> exists t, N = t * t.
Proof.
  unfold spec_is_square. rewrite Z.eqb_eq. split.
  - intros E. exists (Z.sqrt N). lia.
  - intros [t ->]. rewrite <- (Z.abs_square t), Z.sqrt_square by apply Z.abs_nonneg. reflexivity.
Qed.

Lemma checked_of_spec a eqf r :
  wf a -> (forall b, wf b -> length a = length b -> eqf a b = choice_of_bool (eval a =? eval b)) ->
  wf r -> length r = length a -> eval r = Z.sqrt (eval a) ->
  checked_of a eqf (SOk r) = (SOk r, spec_is_square (eval a)).
Proof.
  intros Hw Heqf Hwr Hlr Her. unfold checked_of, wrapping_mul_val. f_equal.
  rewrite Heqf by (try apply wf_to_limbs; rewrite length_to_limbs; lia).
  rewrite choice_to_bool_of_bool, eval_to_limbs, Her, Hlr.
  pose proof (eval_bounds a Hw) as Hb. pose proof (sqrt_bounds (eval a) ltac:(lia)) as [Hs _].
  pose proof (Z.sqrt_nonneg (eval a)).
  rewrite Z.mod_small by (split; [apply Z.mul_nonneg_nonneg; lia|lia]).
  unfold spec_is_square. apply Z.eqb_sym.
Qed.

Lemma uint_checked_sqrt_correct a : wf a -> length a <> 0%nat ->
  exists r, uint_checked_sqrt a = (SOk r, spec_is_square (eval a)) /\
            wf r /\ length r = length a /\ eval r = Z.sqrt (eval a).
Proof.
  intros Hw Hl. destruct (uint_sqrt_correct a Hw Hl) as (r & E & Hwr & Hlr & Her).
  exists r. unfold uint_checked_sqrt. rewrite E.
  rewrite (checked_of_spec a eq_limbs r) by (auto; intros; apply eq_limbs_spec; assumption). auto.
Qed.
Lemma uint_checked_sqrt_vartime_correct a : wf a -> length a <> 0%nat ->
  exists r, uint_checked_sqrt_vartime a = (SOk r, spec_is_square (eval a)) /\
            wf r /\ length r = length a /\ eval r = Z.sqrt (eval a).
Proof.
  intros Hw Hl. destruct (uint_sqrt_vartime_correct a Hw Hl) as (r & E & Hwr & Hlr & Her).
  exists r. unfold uint_checked_sqrt_vartime. rewrite E.
  rewrite (checked_of_spec a eq_limbs r) by (auto; intros; apply eq_limbs_spec; assumption). auto.
Qed.
Lemma boxed_checked_sqrt_correct a : wf a -> length a <> 0%nat ->
  exists r, boxed_checked_sqrt a = (SOk r, spec_is_square (eval a)) /\
            wf r /\ length r = length a /\ eval r = Z.sqrt (eval a).
Proof.
  intros Hw Hl. destruct (boxed_sqrt_correct a Hw Hl) as (r & E & Hwr & Hlr & Her).
  exists r. unfold boxed_checked_sqrt. rewrite E.
  rewrite (checked_of_spec a boxed_eq_limbs r) by (auto; intros; apply boxed_eq_limbs_spec; assumption). auto.
Qed.
Lemma boxed_checked_sqrt_vartime_correct a : wf a -> length a <> 0%nat ->
  exists r, boxed_checked_sqrt_vartime a = (SOk r, spec_is_square (eval a)) /\
            wf r /\ length r = length a /\ eval r = Z.sqrt (eval a).
Proof.
  intros Hw Hl. destruct (boxed_sqrt_vartime_correct a Hw Hl) as (r & E & Hwr & Hlr & Her).
  exists r. unfold boxed_checked_sqrt_vartime. rewrite E.
  rewrite (checked_of_spec a boxed_eq_limbs r) by (auto; intros; apply boxed_eq_limbs_spec; assumption). auto.
Qed.

(* floor(sqrt) is the unique s with s^2 <= x < (s+1)^2 *)
Lemma sqrt_floor_unique N s : 0 <= N -> (0 <= s /\ s * s <= N < (s + 1) * (s + 1) <-> s = Z.sqrt N).
Proof.
  intros HN. split.
  - intros [Hs H]. symmetry. apply sqrt_unique_le; assumption.
  - intros ->. pose proof (sqrt_bounds N HN). pose proof (Z.sqrt_nonneg N). lia.
Qed.

(* ---- the statements in "s^2 <= x < (s+1)^2" form ---- *)
Definition is_floor_sqrt (x s : Z) : Prop := 0 <= s /\ s * s <= x < (s + 1) * (s + 1).

Lemma is_floor_sqrt_unique x s t : is_floor_sqrt x s -> is_floor_sqrt x t -> s = t.
Proof.
  intros [Hs Hs2] [Ht Ht2]. assert (0 <= x) by (assert (0 <= s * s) by (apply Z.mul_nonneg_nonneg; lia); lia).
  rewrite (proj1 (sqrt_floor_unique x s H) (conj Hs Hs2)), (proj1 (sqrt_floor_unique x t H) (conj Ht Ht2)). reflexivity.
Qed.

Lemma is_floor_sqrt_sqrt x : 0 <= x -> is_floor_sqrt x (Z.sqrt x).
Proof. intros H. apply (sqrt_floor_unique x (Z.sqrt x) H). reflexivity. Qed.

Definition sqrt_exact (f : list Z -> sres) : Prop := forall a, wf a -> length a <> 0%nat ->
  exists r, f a = SOk r /\ wf r /\ length r = length a /\ is_floor_sqrt (eval a) (eval r).

Definition checked_sqrt_exact (f : list Z -> sres * bool) : Prop := forall a, wf a -> length a <> 0%nat ->
  exists r b, f a = (SOk r, b) /\ (b = true <-> exists t, eval a = t * t) /\
              wf r /\ length r = length a /\ is_floor_sqrt (eval a) (eval r).

Lemma sqrt_exact_of f :
  (forall a, wf a -> length a <> 0%nat ->
     exists r, f a = SOk r /\ wf r /\ length r = length a /\ eval r = Z.sqrt (eval a)) -> sqrt_exact f.
Proof.
  intros H a Hw Hl. destruct (H a Hw Hl) as (r & E & Hwr & Hlr & Her). exists r.
  rewrite Her. repeat split; auto; apply is_floor_sqrt_sqrt, eval_nonneg, Hw.
Qed.
Lemma checked_sqrt_exact_of f :
  (forall a, wf a -> length a <> 0%nat ->
     exists r, f a = (SOk r, spec_is_square (eval a)) /\ wf r /\ length r = length a /\ eval r = Z.sqrt (eval a)) ->
  checked_sqrt_exact f.
Proof.
  intros H a Hw Hl. destruct (H a Hw Hl) as (r & E & Hwr & Hlr & Her). exists r, (spec_is_square (eval a)).
  rewrite Her. split; [assumption|]. split; [apply is_square_iff|].
  repeat split; auto; apply is_floor_sqrt_sqrt, eval_nonneg, Hw.
Qed.

Lemma uint_sqrt_exact : sqrt_exact uint_sqrt.
Proof. apply sqrt_exact_of, uint_sqrt_correct. Qed.
Lemma uint_sqrt_vartime_exact : sqrt_exact uint_sqrt_vartime.
Proof. apply sqrt_exact_of, uint_sqrt_vartime_correct. Qed.
Lemma boxed_sqrt_exact : sqrt_exact boxed_sqrt.
Proof. apply sqrt_exact_of, boxed_sqrt_correct. Qed.
Lemma boxed_sqrt_vartime_exact : sqrt_exact boxed_sqrt_vartime.
Proof. apply sqrt_exact_of, boxed_sqrt_vartime_correct. Qed.
Lemma uint_checked_sqrt_exact : checked_sqrt_exact uint_checked_sqrt.
Proof. apply checked_sqrt_exact_of, uint_checked_sqrt_correct. Qed.
Lemma uint_checked_sqrt_vartime_exact : checked_sqrt_exact uint_checked_sqrt_vartime.
Proof. apply checked_sqrt_exact_of, uint_checked_sqrt_vartime_correct. Qed.
Lemma boxed_checked_sqrt_exact : checked_sqrt_exact boxed_checked_sqrt.
Proof. apply checked_sqrt_exact_of, boxed_checked_sqrt_correct. Qed.
Lemma boxed_checked_sqrt_vartime_exact : checked_sqrt_exact boxed_checked_sqrt_vartime.
Proof. apply checked_sqrt_exact_of, boxed_checked_sqrt_vartime_correct. Qed.

(* ---- the op tables agree on every well-formed argument ---- *)
Lemma sqrt_to_limbs a r : wf a -> wf r -> length r = length a -> eval r = Z.sqrt (eval a) ->
  r = to_limbs (length a) (spec_sqrt (eval a)).
Proof.
  intros Hw Hwr Hlr Her. apply to_limbs_unique; try assumption. unfold spec_sqrt. rewrite Her.
  symmetry. apply Z.mod_small. pose proof (eval_bounds r Hwr). rewrite <- Her, <- Hlr. assumption.
Qed.

Definition entries_agree (m s : string * opfn) : Prop :=
  fst m = fst s /\ forall dbg args, wf (arg 0 args) -> snd m dbg args = snd s dbg args.

Lemma tbl_sqrt f : (forall a, wf a -> length a <> 0%nat ->
     exists r, f a = SOk r /\ wf r /\ length r = length a /\ eval r = Z.sqrt (eval a)) ->
  forall args, wf (arg 0 args) -> nonempty args (out_sres (f (arg 0 args))) = sp_sqrt args.
Proof.
  intros H args Hw. unfold sp_sqrt, nonempty. destruct (arg 0 args) as [|y l] eqn:E; [reflexivity|].
  destruct (H (y :: l) Hw ltac:(discriminate)) as (r & -> & Hwr & Hlr & Her).
  cbn [out_sres]. rewrite (sqrt_to_limbs (y :: l) r) by assumption. reflexivity.
Qed.
Lemma tbl_checked f : (forall a, wf a -> length a <> 0%nat ->
     exists r, f a = (SOk r, spec_is_square (eval a)) /\ wf r /\ length r = length a /\ eval r = Z.sqrt (eval a)) ->
  forall args, wf (arg 0 args) -> nonempty args (out_checked (f (arg 0 args))) = sp_checked_sqrt args.
Proof.
  intros H args Hw. unfold sp_checked_sqrt, nonempty. destruct (arg 0 args) as [|y l] eqn:E; [reflexivity|].
  destruct (H (y :: l) Hw ltac:(discriminate)) as (r & -> & Hwr & Hlr & Her).
  cbn [out_checked]. rewrite (sqrt_to_limbs (y :: l) r) by assumption. cbv zeta.
  change (spec_sqrt (eval (y :: l)) * spec_sqrt (eval (y :: l)) =? eval (y :: l)) with (spec_is_square (eval (y :: l))).
  destruct (spec_is_square (eval (y :: l))); reflexivity.
Qed.

Lemma sqrt_tables_agree : Forall2 entries_agree ops_sqrt_model ops_sqrt_spec.
Proof.
  unfold ops_sqrt_model, ops_sqrt_spec.
  repeat (apply Forall2_cons; [split; [reflexivity|intros dbg args Hw; cbn [snd]]|]); try apply Forall2_nil.
  - apply tbl_sqrt; [apply uint_sqrt_correct|assumption].
  - apply tbl_sqrt; [apply uint_sqrt_vartime_correct|assumption].
  - apply tbl_checked; [apply uint_checked_sqrt_correct|assumption].
  - apply tbl_checked; [apply uint_checked_sqrt_vartime_correct|assumption].
  - apply tbl_sqrt; [apply boxed_sqrt_correct|assumption].
  - apply tbl_sqrt; [apply boxed_sqrt_vartime_correct|assumption].
  - apply tbl_checked; [apply boxed_checked_sqrt_correct|assumption].
  - apply tbl_checked; [apply boxed_checked_sqrt_vartime_correct|assumption].
Qed.

(* ---- the slack in the round count is exactly one round (the source's TODO #378 asks whether LOG2_BITS rounds
        would do): for a 448-bit input LOG2_BITS rounds give root + 1, LOG2_BITS + 1 rounds give the root ---- *)
Definition slow_input_448 : list Z := [255; 0; 0; 1048576; 0; 0; 1073741824].
Lemma log2_bits_rounds_not_enough :
  log2_bits 7 = 8 /\
  (exists r, uint_sqrt_rounds 8 slow_input_448 = SOk r /\ eval r = Z.sqrt (eval slow_input_448) + 1) /\
  (exists r, boxed_sqrt_rounds 8 slow_input_448 = SOk r /\ eval r = Z.sqrt (eval slow_input_448) + 1) /\
  (exists r, uint_sqrt_rounds 9 slow_input_448 = SOk r /\ eval r = Z.sqrt (eval slow_input_448)).
Proof.
  split; [reflexivity|]. split; [|split]; eexists; (split; [vm_compute; reflexivity|vm_compute; reflexivity]).
Qed.
