(** C10 proofs, part 7: [sg_core] (the two divsteps drivers with their iteration count), the final normalisation
    [sg_norm], on the unsaturated representation. *)
From CB Require Import Model.Limbs Model.AddSub Model.SafeGcd Proofs.WordP Proofs.LimbsP Proofs.BitsP
  Proofs.SafeGcdArithP Proofs.SafeGcdJumpP Proofs.SafeGcdUnsatP Proofs.SafeGcdStepP Proofs.SafeGcdDivstepsP.
From Coq Require Import ZArith Lia List Bool Znumtheory Zdiv Setoid Morphisms.
Open Scope Z_scope.

(* ---- the iteration count is small ---- *)
Lemma bitlen_le62 l : 0 <= l < P62 -> 0 <= bitlen l <= 62.
Proof.
  intros H. unfold bitlen. destruct (Z.leb_spec l 0); [lia|].
  assert (Z.log2 l < 62) by (apply Z.log2_lt_pow2; [lia | rewrite <- P62_pow; lia]).
  pose proof (Z.log2_nonneg l). lia.
Qed.
Lemma lz_scan62_ge ls : wf62 ls -> forall c b, c <= lz_scan62 ls c b.
Proof.
  induction ls as [|l r IH]; intros W c b; cbn [lz_scan62]; [lia|].
  apply wf62_cons in W. destruct W as [Hl Wr]. pose proof (bitlen_le62 l Hl). unfold lz62.
  destruct b; (eapply Z.le_trans; [|apply IH; assumption]); lia.
Qed.
Lemma wf62_rev a : wf62 a -> wf62 (rev a).
Proof. unfold wf62. intros H. apply Forall_rev. assumption. Qed.
Lemma u_bits_le a : wf62 a -> u_bits a <= 62 * lenZ a.
Proof. intros W. unfold u_bits. pose proof (lz_scan62_ge (rev a) (wf62_rev a W) 0 true). lia. Qed.
Lemma bu_bits_le a : wf62 a -> bu_bits a <= 62 * lenZ a.
Proof. intros W. unfold bu_bits. pose proof (lz_scan62_ge a W 0 true). lia. Qed.
Lemma iterations_le fb gb X : fb <= X -> gb <= X -> 0 <= X -> Z.of_nat (iterations fb gb) <= 3 * X + 5.
Proof.
  intros Hf Hg HX. unfold iterations.
  set (d := if fb <? gb then gb else fb). assert (Hd : d <= X) by (unfold d; destruct (fb <? gb); lia).
  set (ad := if d <? 46 then 80 else 57). assert (Ha : ad <= 80) by (unfold ad; destruct (d <? 46); lia).
  assert (Q : (49 * d + ad) / 17 <= 3 * X + 4).
  { apply Z.lt_succ_r. apply Z.div_lt_upper_bound; lia. }
  lia.
Qed.

(* ---- signed-value forms of add and neg ---- *)
Lemma u_add_sval a b : wf62 a -> wf62 b -> length a = length b ->
  - M62 (length a) <= 2 * (sval a + sval b) < M62 (length a) ->
  wf62 (u_add a b) /\ length (u_add a b) = length a /\ sval (u_add a b) = sval a + sval b.
Proof.
  intros Wa Wb Hl R. destruct (u_add_spec a b Wa Wb Hl) as (W & Ln & E).
  repeat split; [assumption | assumption |].
  apply sval_unique; [assumption | | rewrite Ln; assumption].
  rewrite Ln, E, cg_mod. pose proof (sval_cg a) as Ca. pose proof (sval_cg b) as Cb. rewrite <- Hl in Cb.
  rewrite Ca, Cb. reflexivity.
Qed.
Lemma u_neg_sval a : wf62 a -> - M62 (length a) <= 2 * (- sval a) < M62 (length a) ->
  wf62 (u_neg a) /\ length (u_neg a) = length a /\ sval (u_neg a) = - sval a.
Proof.
  intros Wa R. destruct (u_neg_spec a Wa) as (W & Ln & E).
  repeat split; [assumption | assumption |].
  apply sval_unique; [assumption | | rewrite Ln; assumption].
  rewrite Ln, E, cg_mod. pose proof (sval_cg a) as Ca. rewrite Ca. reflexivity.
Qed.

Lemma cg_add_m x m : m <> 0 -> cg m (x + m) x.
Proof. intros H. apply cg_divide; [assumption|]. exists 1. ring. Qed.

(* ---- sg_norm: from (-2m, ub] to [0, ub], the sign as requested ---- *)
Lemma sg_norm_spec mL v negate m ub : wf62 mL -> wf62 v -> length v = length mL -> (0 < length mL)%nat ->
  sval mL = m -> 0 < m -> 8 * m <= M62 (length mL) -> m - 1 <= ub <= m -> - 2 * m < sval v <= ub ->
  let r := sg_norm mL v negate in
  wf62 r /\ length r = length mL /\ 0 <= sval r <= ub /\ u_is_negative r = false /\
  cg m (sval r) (if negate then - sval v else sval v).
Proof.
  intros WmL Wv Lv HL Em Hm Fit Hub Rv r. unfold sg_norm in r.
  (* step 1 *)
  set (v1 := if u_is_negative v then u_add v mL else v) in *.
  assert (S1 : wf62 v1 /\ length v1 = length mL /\ - m < sval v1 <= ub /\ cg m (sval v1) (sval v)).
  { unfold v1. rewrite u_is_negative_sval by (try apply nonempty_len; (assumption || lia)).
    destruct (Z.ltb_spec (sval v) 0).
    - destruct (u_add_sval v mL Wv WmL Lv) as (W & Ln & E); [rewrite Lv, Em; lia|].
      rewrite E, Em. repeat split; try assumption; try lia.
      apply cg_add_m; lia.
    - repeat split; try assumption; try lia; try reflexivity. }
  destruct S1 as (W1 & L1 & R1 & C1).
  (* step 2 *)
  set (v2 := if negate then u_neg v1 else v1) in *.
  assert (S2 : wf62 v2 /\ length v2 = length mL /\ - ub <= sval v2 <= ub /\
               cg m (sval v2) (if negate then - sval v else sval v)).
  { unfold v2. destruct negate.
    - destruct (u_neg_sval v1 W1) as (W & Ln & E); [rewrite L1; lia|].
      rewrite E. repeat split; try assumption; try lia. rewrite C1. reflexivity.
    - repeat split; try assumption; try lia. }
  destruct S2 as (W2 & L2 & R2 & C2).
  (* step 3 *)
  assert (S3 : wf62 r /\ length r = length mL /\ 0 <= sval r <= ub /\ cg m (sval r) (sval v2)).
  { unfold r. rewrite u_is_negative_sval by (try apply nonempty_len; (assumption || lia)).
    destruct (Z.ltb_spec (sval v2) 0).
    - destruct (u_add_sval v2 mL W2 WmL L2) as (W & Ln & E); [rewrite L2, Em; lia|].
      rewrite E, Em. repeat split; try assumption; try lia.
      apply cg_add_m; lia.
    - repeat split; try assumption; try lia; try reflexivity. }
  destruct S3 as (W3 & L3 & R3 & C3).
  repeat split; try assumption; try lia.
  - rewrite u_is_negative_sval by (try apply nonempty_len; (assumption || lia)). apply Z.ltb_ge. lia.
  - rewrite C3. assumption.
Qed.

(* ---- sg_core ---- *)
Definition sg_conv (vartime boxed : bool) (e f0 g : list Z) (inverse : Z) : Prop :=
  exists d f, sg_core vartime boxed e f0 g inverse = Some (d, f, true).

Lemma sg_iter_bound (boxed : bool) f0 g L : wf62 f0 -> wf62 g -> length f0 = L -> length g = L ->
  Z.of_nat (iterations ((if boxed then bu_bits else u_bits) f0) ((if boxed then bu_bits else u_bits) g)) <= 3 * (62 * Z.of_nat L) + 5.
Proof.
  intros Wf Wg Lf Lg. apply iterations_le; [| | lia].
  - destruct boxed; [pose proof (bu_bits_le f0 Wf) | pose proof (u_bits_le f0 Wf)]; unfold lenZ in *; rewrite Lf in *; assumption.
  - destruct boxed; [pose proof (bu_bits_le g Wg) | pose proof (u_bits_le g Wg)]; unfold lenZ in *; rewrite Lg in *; assumption.
Qed.

Definition small_L (L : nat) : Prop := 1 + 62 * (3 * (62 * Z.of_nat L) + 5) <= P62.

Lemma sg_core_fg vartime boxed e f0 g inverse d f conv L Bd :
  wf62 f0 -> wf62 g -> length f0 = L -> length g = L -> (0 < L)%nat -> small_L L ->
  Z.abs (sval f0) <= Bd -> Z.abs (sval g) <= Bd -> 2 * P62 * Bd < M62 L ->
  PRE (sval f0) (sval g) 1 ->
  sg_core vartime boxed e f0 g inverse = Some (d, f, conv) ->
  wf62 f /\ length f = L /\ Z.abs (sval f) <= Bd /\
  exists G', Z.gcd (sval f) G' = Z.gcd (sval f0) (sval g) /\ (conv = true -> G' = 0).
Proof.
  intros Wf Wg Lf Lg HL HS Bf Bg HM Hpre E. unfold sg_core in E.
  pose proof (sg_iter_bound boxed f0 g L Wf Wg Lf Lg) as HN.
  set (n := iterations ((if boxed then bu_bits else u_bits) f0) ((if boxed then bu_bits else u_bits) g)) in *.
  assert (HK : 1 + 62 * Z.of_nat n <= P62) by (unfold small_L in HS; lia).
  assert (I0 : FGI (Z.gcd (sval f0) (sval g)) Bd 1 L 1 f0 g).
  { unfold FGI. repeat split; try assumption; try lia. }
  destruct vartime.
  - destruct (divsteps_vt_loop n f0 inverse (1, u_zero (length f0), e, f0, g)) as [[[[[delta' d'] e'] f'] g']|] eqn:EL; [|discriminate].
    inversion E; subst d' f' conv. clear E.
    destruct (divsteps_vt_fg _ Bd L f0 inverse HL HM n 1 1 _ e f0 g delta' d e' f g' HK I0 EL) as (I' & Z').
    destruct I' as (W1 & W2 & L1 & L2 & B1 & B2 & GC & _ & _).
    repeat split; try assumption. exists (sval g'). split; [assumption|]. intros _.
    rewrite u_is_zero_sval in Z' by assumption. apply Z.eqb_eq. assumption.
  - destruct (divsteps_loop_fg _ Bd L f0 inverse HL HM n 1 1 (u_zero (length f0)) e f0 g HK I0) as (delta' & d' & e' & f' & g' & EL & I').
    rewrite EL in E. inversion E; subst d' f' conv. clear E.
    destruct I' as (W1 & W2 & L1 & L2 & B1 & B2 & GC & _ & _).
    repeat split; try assumption. exists (sval g'). split; [assumption|]. intros Z'.
    rewrite u_is_zero_sval in Z' by assumption. apply Z.eqb_eq. assumption.
Qed.

Section CoreDe.
  Context (mL : list Z) (inverse m A ub : Z) (L : nat).
  Context (WmL : wf62 mL) (LmL : length mL = L) (HL : (0 < L)%nat) (HS : small_L L) (Em : sval mL = m) (Hm : 0 < m) (Om : Z.odd m = true)
          (Fit : 4 * P62 * m <= M62 L) (Hinv : (hd 0 mL * inverse) mod P62 = 1)
          (Hub : m - 1 <= ub <= m).

  Lemma sg_core_de vartime boxed e g d f conv Bd :
    wf62 g -> length g = L -> wf62 e -> length e = L -> sval e = A -> 0 <= A <= ub ->
    m <= Bd -> Z.abs (sval g) <= Bd -> 2 * P62 * Bd < M62 L ->
    sg_core vartime boxed e mL g inverse = Some (d, f, conv) ->
    wf62 d /\ length d = L /\ - 2 * m < sval d <= ub /\ cg m (sval d * sval g) (sval f * A).
  Proof.
    intros Wg Lg We Le EA HA Bf Bg HM E. unfold sg_core in E.
    pose proof (sg_iter_bound boxed mL g L WmL Wg LmL Lg) as HN.
    set (n := iterations ((if boxed then bu_bits else u_bits) mL) ((if boxed then bu_bits else u_bits) g)) in *.
    assert (HK : 1 + 62 * Z.of_nat n <= P62) by (unfold small_L in HS; lia).
    assert (I0 : FGI (Z.gcd (sval mL) (sval g)) Bd 1 L 1 mL g).
    { unfold FGI. repeat split; try assumption; try lia. unfold PRE. left. rewrite Em. assumption. }
    assert (J0 : DEI m (sval g) A ub L (u_zero (length mL)) e mL g).
    { unfold DEI, u_zero. rewrite sval_zero. repeat split; try assumption; try lia.
      - apply wf62_zeros.
      - rewrite length_zeros. assumption.
      - rewrite Em. apply cg_divide; [lia|]. exists (- A). ring.
      - rewrite EA. apply cg_of_eq. ring. }
    destruct vartime.
    - destruct (divsteps_vt_loop n mL inverse (1, u_zero (length mL), e, mL, g)) as [[[[[delta' d'] e'] f'] g']|] eqn:EL; [|discriminate].
      inversion E; subst d' f' conv. clear E.
      pose proof (divsteps_vt_de mL inverse m (sval g) A ub L WmL LmL HL Em Hm Om Fit Hinv Hub _ Bd HM n 1 1 _ e mL g delta' d e' f g' HK I0 J0 EL) as J'.
      destruct J' as (X1 & _ & X3 & _ & X5 & _ & X7 & _). repeat split; try assumption; lia.
    - destruct (divsteps_loop n mL inverse (1, u_zero (length mL), e, mL, g)) as [[[[delta' d'] e'] f'] g'] eqn:EL.
      inversion E; subst d' f' conv. clear E.
      destruct (divsteps_loop_de mL inverse m (sval g) A ub L WmL LmL HL Em Hm Om Fit Hinv Hub _ Bd HM n 1 1 _ e mL g delta' d e' f g' HK I0 J0 EL) as (_ & J').
      destruct J' as (X1 & _ & X3 & _ & X5 & _ & X7 & _). repeat split; try assumption; lia.
  Qed.
End CoreDe.
