(** C09 proofs, part 4: BoxedMontyForm::pow_bounded_exp.  Almost-Montgomery multiplication (value level: the exact
    quotient (x*y + q*m)/R with the overflow subtraction) keeps the accumulator below min(R, 3m) after every
    multiplication by a table entry, so the two final conditional subtractions return the canonical representative. *)
From CB Require Import Model.Limbs Model.AddSub Model.ModArith Model.Cmp Model.Pow
  Proofs.WordP Proofs.LimbsP Proofs.AddSubP Proofs.WordPredP Proofs.CmpWordP Proofs.CmpP Proofs.CmpBoxedP
  Proofs.ModArithP Proofs.PowMathP Proofs.PowLadderP Proofs.PowFixedP.
From Coq Require Import ZArith Lia List Bool.
Open Scope Z_scope.
Notation length := List.length.

(* ------------------------------------------------------------------ *)
(** * almost-Montgomery multiplication, value level *)

Lemma amm_z_spec n m x y : 0 < m <= Bn n -> Z.odd m = true -> 0 <= x < Bn n -> 0 <= y < Bn n ->
  let a := amm_z n m (mg_neg_inv_full n m) x y in
  0 <= a < Bn n /\ (a * Bn n) mod m = (x * y) mod m /\ a * Bn n < x * y + m * Bn n.
Proof.
  intros Hm Hodd Hx Hy. cbv zeta. unfold amm_z.
  destruct (mg_neg_inv_full_spec n m ltac:(lia) Hodd) as [Hm' Hinv].
  set (R := Bn n) in *. set (m' := mg_neg_inv_full n m) in *. set (t := x * y).
  assert (HR : 0 < R) by (unfold R; apply Bn_pos).
  assert (Ht : 0 <= t < R * R).
  { unfold t. split; [apply Z.mul_nonneg_nonneg; lia|].
    apply Z.le_lt_trans with (x * R); [apply Z.mul_le_mono_nonneg_l; lia | apply Z.mul_lt_mono_pos_r; lia]. }
  set (q := (t * m') mod R).
  pose proof (Z.mod_pos_bound (t * m') R HR) as Hq. fold q in Hq.
  assert (Hdiv : (t + q * m) mod R = 0).
  { unfold q. rewrite Zplus_mod, mulmod_l, <- Zplus_mod.
    replace (t + t * m' * m) with (t * (m * m' + 1)) by ring.
    rewrite <- mulmod_r, Hinv, Z.mul_0_r. apply Zmod_0_l. }
  pose proof (Z.div_mod (t + q * m) R ltac:(lia)) as Hdm. rewrite Hdiv, Z.add_0_r in Hdm.
  set (r := (t + q * m) / R) in *.
  assert (Hqm : 0 <= q * m <= (R - 1) * m).
  { split; [apply Z.mul_nonneg_nonneg; lia | apply Z.mul_le_mono_nonneg_r; lia]. }
  assert (Hr0 : 0 <= r) by (unfold r; apply Z.div_pos; lia).
  assert (HrR : R * r < t + R * m) by lia.
  destruct (Z.ltb_spec r R) as [Hlt|Hge].
  - split; [lia|]. split; [|lia].
    replace (r * R) with (t + q * m) by lia. apply Z.mod_add. lia.
  - assert (Hub : r < R + m).
    { apply Z.mul_lt_mono_pos_l with R; [assumption|].
      replace (R * (R + m)) with (R * R + R * m) by ring. lia. }
    split; [lia|]. split.
    + replace ((r - m) * R) with (t + (q - R) * m) by lia. apply Z.mod_add. lia.
    + replace ((r - m) * R) with (R * r - m * R) by ring.
      assert (0 < m * R) by (apply Z.mul_pos_pos; lia). lia.
Qed.

(** an n-limb value, not necessarily below the modulus *)
Definition Bf (n : nat) (x : list Z) : Prop := wf x /\ length x = n.

Lemma Bf_range n x : Bf n x -> 0 <= eval x < Bn n.
Proof. intros [Hw Hl]. rewrite <- Hl. apply eval_bounds. assumption. Qed.

Lemma amm_v_ok n m x y : 0 < m <= Bn n -> Z.odd m = true -> Bf n x -> Bf n y ->
  let a := amm_v n m (mg_neg_inv_full n m) x y in
  Bf n a /\ V m (mg_rinv n m) a = (V m (mg_rinv n m) x * V m (mg_rinv n m) y) mod m
  /\ eval a * Bn n < eval x * eval y + m * Bn n.
Proof.
  intros Hm Hodd Hx Hy. cbv zeta. unfold amm_v.
  destruct (amm_z_spec n m (eval x) (eval y) Hm Hodd (Bf_range n x Hx) (Bf_range n y Hy)) as (Ha & Hc & Hb).
  set (a := amm_z n m (mg_neg_inv_full n m) (eval x) (eval y)) in *.
  assert (E : eval (to_limbs n a) = a) by (apply to_limbs_small; assumption).
  split; [split; [apply wf_to_limbs | apply length_to_limbs]|]. rewrite E. split; [|assumption].
  destruct (mg_rinv_spec n m ltac:(lia) Hodd) as [_ Hr]. set (rinv := mg_rinv n m) in *.
  unfold V. rewrite mulmod_both.
  (* a = a * (R * rinv) = (x*y) * rinv  (mod m) *)
  rewrite E. transitivity ((a * Bn n * (rinv * rinv)) mod m).
  - replace (a * Bn n * (rinv * rinv)) with (a * rinv * (Bn n * rinv)) by ring.
    rewrite <- (mulmod_r (a * rinv) (Bn n * rinv)), Hr, mulmod_r, Z.mul_1_r. reflexivity.
  - rewrite <- (mulmod_l (a * Bn n)), Hc, mulmod_l. f_equal. ring.
Qed.

(* ------------------------------------------------------------------ *)
(** * conditional subtraction *)

Lemma reduce_once_spec n z m : Bf n z -> Bf n m -> n <> 0%nat ->
  Bf n (reduce_once z m) /\ eval (reduce_once z m) = if eval z <? eval m then eval z else eval z - eval m.
Proof.
  intros [Hz Hlz] [Hmw Hlm] Hn. unfold reduce_once, cond_sbb.
  rewrite boxed_ct_lt_spec by assumption. rewrite ch_not_b2z.
  rewrite st_select_spec by (apply is_word_0 || apply is_word_MAXW).
  pose proof (eval_bounds z Hz) as Bz. pose proof (eval_bounds m Hmw) as Bm. rewrite Hlz in Bz. rewrite Hlm in Bm.
  destruct (Z.ltb_spec (eval z) (eval m)) as [Hlt|Hge]; cbn [negb].
  - rewrite bitand_limb_0.
    destruct (sbb_limbs z (zeros (length m)) 0) as [r bo] eqn:E. cbn [fst].
    pose proof (sbb_limbs_correct z (zeros (length m)) 0 r bo Hz (wf_zeros _) ltac:(rewrite length_zeros; lia) is_word_0 E)
      as (Hw & Hl & [(Hz0 & _)|(_ & Hib & He)]); [lia|].
    rewrite eval_zeros, bin_0 in He. rewrite Hlz in He. pose proof (eval_bounds r Hw) as Br. rewrite Hl, Hlz in Br.
    split; [split; [assumption | lia]|].
    destruct Hib as [-> | ->]; rewrite ?bout_0, ?bout_MAXW in He; lia.
  - rewrite bitand_limb_MAXW by assumption.
    destruct (sbb_limbs z m 0) as [r bo] eqn:E. cbn [fst].
    pose proof (sbb_limbs_correct z m 0 r bo Hz Hmw ltac:(lia) is_word_0 E)
      as (Hw & Hl & [(Hz0 & _)|(_ & Hib & He)]); [lia|].
    rewrite bin_0 in He. rewrite Hlz in He. pose proof (eval_bounds r Hw) as Br. rewrite Hl, Hlz in Br.
    split; [split; [assumption | lia]|].
    destruct Hib as [-> | ->]; rewrite ?bout_0, ?bout_MAXW in He; lia.
Qed.

(* ------------------------------------------------------------------ *)
(** * the boxed loops are the shared ladder run with AMM *)

Lemma sq4_unfold amm z : sq4 amm z = (fun v => amm v v) ((fun v => amm v v) ((fun v => amm v v) ((fun v => amm v v) z))).
Proof. reflexivity. Qed.

Lemma window_idx_range w wn : is_word w -> (wn < 16)%nat -> 0 <= window_idx w wn < 16.
Proof. intros Hw Hn. rewrite window_idx_val by assumption. apply Z.mod_pos_bound. lia. Qed.

Definition mask_ok (smask : Z) : Prop := forall i, 0 <= i < 16 -> 0 <= wand i smask < 16.

Lemma start_mask_ok k : 1 <= k -> mask_ok (start_mask k).
Proof.
  intros Hk i Hi. rewrite (start_mask_val k Hk). destruct (start_decomp k Hk) as (_ & Hs & _).
  set (s := start_bit k mod 4) in *. unfold wand. rewrite land_mask by lia.
  assert (0 < 2 ^ (s + 1)) by (apply Z.pow_pos_nonneg; lia).
  pose proof (Z.mod_pos_bound i (2 ^ (s + 1)) ltac:(lia)).
  assert (2 ^ (s + 1) <= 2 ^ 4) by (apply Z.pow_le_mono_r; lia). change (2 ^ 4) with 16 in *. lia.
Qed.

Section LoopEq.
Variable amm : list Z -> list Z -> list Z.
Variables (n : nat) (powers : list (list Z)) (e : list Z) (sl sw : nat) (smask : Z).
Hypothesis Htab : table_wf n powers.
Hypothesis Hlen : length powers = 16%nat.
Hypothesis He : wf e.
Hypothesis Hmask : mask_ok smask.
Hypothesis Hsw : (sw < 16)%nat.
Notation sq := (fun z => amm z z).

Lemma bwin_loop_eq ln : forall wn z, (wn <= 16)%nat ->
  bwin_loop amm powers (nthz e ln) ln sl sw smask wn z = window_loop amm sq [(powers, e)] ln sl sw smask wn z.
Proof.
  induction wn as [|w IH]; intros z Hw; [reflexivity|].
  cbn [bwin_loop window_loop bases_loop]. cbv zeta.
  assert (Hword : is_word (nthz e ln)) by (rewrite nthz_eval by assumption; apply is_word_mod).
  pose proof (window_idx_range (nthz e ln) w Hword ltac:(lia)) as Hi.
  set (idx := if ((ln =? sl)%nat && (w =? sw)%nat)%bool then wand (window_idx (nthz e ln) w) smask else window_idx (nthz e ln) w).
  assert (Hidx : 0 <= idx < 16) by (unfold idx; destruct ((ln =? sl)%nat && (w =? sw)%nat)%bool; [apply Hmask|]; assumption).
  rewrite (boxed_lookup_spec n) by (try assumption; rewrite Hlen; try rewrite B_val; simpl; lia).
  rewrite (ct_lookup_spec n) by (try assumption; rewrite Hlen; try rewrite B_val; simpl; lia).
  rewrite IH by lia. reflexivity.
Qed.

Lemma blimb_loop_eq : forall ln z,
  blimb_loop amm powers e sl sw smask ln z = limb_loop amm sq [(powers, e)] sl sw smask ln z.
Proof.
  induction ln as [|l IH]; intros z; [reflexivity|].
  cbn [blimb_loop limb_loop]. cbv zeta. rewrite bwin_loop_eq by (destruct (l =? sl)%nat; lia).
  apply IH.
Qed.
End LoopEq.

Lemma bpowers_loop_eq amm x : forall c p, bpowers_loop amm x p c = powers_loop amm x p c.
Proof. induction c as [|c IH]; intros p; [reflexivity|]. cbn [bpowers_loop powers_loop]. cbv zeta. rewrite IH. reflexivity. Qed.
Lemma boxed_powers_eq amm one x : boxed_powers amm one x = compute_powers amm one x.
Proof. unfold boxed_powers, compute_powers. rewrite bpowers_loop_eq. reflexivity. Qed.

(* ------------------------------------------------------------------ *)
(** * the boxed ladder for an abstract AMM *)

Section Boxed.
Variables (n : nat) (m rinv : Z).
Hypothesis Hm : 0 < m.
Hypothesis Hn : n <> 0%nat.
Variable amm : list Z -> list Z -> list Z.
Notation V := (V m rinv).
Notation Bf := (Bf n).
Notation Mf := (Mf n m).

(** what is needed of almost_montgomery_mul (derived for the value-level definition in amm_v_ok; limb level: C08) *)
Hypothesis Hamm : forall x y, Bf x -> Bf y ->
  Bf (amm x y) /\ V (amm x y) = (V x * V y) mod m /\ eval (amm x y) * Bn n < eval x * eval y + m * Bn n.

Variable mL : list Z.
Hypothesis HmL : Bf mL.
Hypothesis HmV : eval mL = m.
Variable one : list Z.
Hypothesis Hone : Mf one.
Hypothesis Vone : V one = 1 mod m.

Definition G0 (z : list Z) : Prop := Bf z.
Definition G3 (z : list Z) : Prop := Bf z /\ eval z < 3 * m.
Definition T2 (p : list Z) : Prop := Bf p /\ eval p < 2 * m.

Lemma Mf_T2 x : Mf x -> T2 x.
Proof. intros (H1 & H2 & H3). split; [split; assumption | lia]. Qed.

Lemma amm_bound x y c : Bf x -> Bf y -> eval y < c * m -> 0 <= c -> eval (amm x y) < (c + 1) * m.
Proof.
  intros Hx Hy Hc Hc0. destruct (Hamm x y Hx Hy) as (_ & _ & Hb).
  pose proof (Bf_range n x Hx) as Rx. pose proof (Bf_range n y Hy) as Ry.
  pose proof (Bn_pos n) as HR. set (R := Bn n) in *.
  assert (H1 : eval x * eval y <= R * eval y) by (apply Z.mul_le_mono_nonneg_r; lia).
  assert (H2 : R * eval y < R * (c * m)) by (apply Z.mul_lt_mono_pos_l; lia).
  apply Z.mul_lt_mono_pos_r with R; [assumption|].
  replace ((c + 1) * m * R) with (R * (c * m) + m * R) by ring. lia.
Qed.

Lemma G3_mul z p : G0 z -> T2 p -> G3 (amm z p) /\ V (amm z p) = (V z * V p) mod m.
Proof.
  intros Hz [Hp Hlt]. destruct (Hamm z p Hz Hp) as (H1 & H2 & _).
  split; [|assumption]. split; [assumption|]. apply (amm_bound z p 2); try assumption; lia.
Qed.
Lemma G0_sq z : G0 z -> G0 (amm z z) /\ V (amm z z) = (V z * V z) mod m.
Proof. intros Hz. destruct (Hamm z z Hz Hz) as (H1 & H2 & _). split; assumption. Qed.

Theorem boxed_pow_reduced x e k : 0 <= k -> Mf x -> wf e ->
  let r := boxed_pow_montgomery_form amm mL one x e k in
  Mf r /\ V r = (V x ^ (eval e mod 2 ^ k)) mod m.
Proof.
  intros Hk Hx He. cbv zeta. unfold boxed_pow_montgomery_form.
  destruct (Z.eqb_spec k 0) as [->|Hk0].
  - split; [assumption|]. change (2 ^ 0) with 1. rewrite Z.mod_1_r. exact Vone.
  - assert (Hk1 : 1 <= k) by lia.
    rewrite boxed_powers_eq.
    (* the table: one < m, x < m, every later entry < 2m *)
    destruct (compute_powers_spec m rinv Hm amm T2 x
               (fun p Hp => let '(conj Hb _) := Hp in
                            conj (conj (proj1 (Hamm p x Hb (proj1 (Mf_T2 x Hx))))
                                       (amm_bound p x 1 Hb (proj1 (Mf_T2 x Hx)) ltac:(destruct Hx as (_ & _ & ?); lia) ltac:(lia)))
                                 (proj1 (proj2 (Hamm p x Hb (proj1 (Mf_T2 x Hx))))))
               one (Mf_T2 one Hone) (Mf_T2 x Hx) Vone) as (Hl & H1 & Hi).
    set (powers := compute_powers amm one x) in *.
    assert (Htab : table_ok m rinv T2 powers) by (split; [assumption | intros i Hlt; rewrite H1; apply Hi; assumption]).
    assert (Htw : table_wf n powers).
    { apply (table_ok_wf n m rinv T2); [|assumption]. intros p [Hp _]. exact Hp. }
    destruct (start_decomp k Hk1) as (_ & _ & Hsw).
    rewrite (blimb_loop_eq amm n powers e (start_limb k) (start_window k) (start_mask k) Htw Hl He (start_mask_ok k Hk1) Hsw).
    assert (Hpes : Forall (pe_ok m rinv T2) [(powers, e)]).
    { constructor; [split; [exact Htab | exact He] | constructor]. }
    assert (Hne1 : [(powers, e)] <> [] \/ forall z, G0 z -> G3 z) by (left; discriminate).
    assert (HG1 : G3 one).
    { destruct Hone as (Ho1 & Ho2 & Ho3). split; [split; assumption | lia]. }
    assert (HGG : forall z, G3 z -> G0 z) by (intros z H; exact (proj1 H)).
    assert (HTT : forall p, T2 p -> wf p /\ length p = n) by (intros p H; exact (proj1 H)).
    pose proof (multi_exp_internal_spec n m rinv Hm amm (fun z => amm z z) G0 G3 T2
                  HGG HTT G3_mul G0_sq k Hk1 [(powers, e)] Hpes Hne1 one HG1 Vone) as [[Hz Hz3] Vz].
    unfold multi_exp_internal in *.
    set (z := limb_loop amm (fun z => amm z z) [(powers, e)] (start_limb k) (start_window k) (start_mask k) (S (start_limb k)) one) in *.
    cbn [Pw] in Vz. unfold vbase, ebits in Vz. cbn [fst snd] in Vz. rewrite H1, Z.div_1_r, Z.mul_1_r in Vz.
    pose proof (Bf_range n z Hz) as Rz.
    destruct (reduce_once_spec n z mL Hz HmL Hn) as [Hz1 E1]. rewrite HmV in E1.
    set (z1 := reduce_once z mL) in *.
    destruct (reduce_once_spec n z1 mL Hz1 HmL Hn) as [Hz2 E2]. rewrite HmV in E2.
    set (z2 := reduce_once z1 mL) in *.
    assert (R1 : 0 <= eval z1 < 2 * m /\ V z1 = V z).
    { unfold PowLadderP.V. rewrite E1. destruct (Z.ltb_spec (eval z) m); [split; [lia | reflexivity]|].
      split; [lia|]. replace ((eval z - m) * rinv) with (eval z * rinv + (- rinv) * m) by ring. apply Z.mod_add. lia. }
    destruct R1 as [R1 V1].
    assert (R2 : 0 <= eval z2 < m /\ V z2 = V z1).
    { unfold PowLadderP.V. rewrite E2. destruct (Z.ltb_spec (eval z1) m); [split; [lia | reflexivity]|].
      split; [lia|]. replace ((eval z1 - m) * rinv) with (eval z1 * rinv + (- rinv) * m) by ring. apply Z.mod_add. lia. }
    destruct R2 as [R2 V2].
    split; [destruct Hz2; split; [assumption | split; [assumption | lia]]|].
    rewrite V2, V1. exact Vz.
Qed.
End Boxed.
