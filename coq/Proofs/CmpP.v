(** C06 proofs, part 1: Limb and Uint<N> comparison / equality / zero tests / selection,
    for limb lists of any length. *)
From CB Require Import Model.Limbs Model.AddSub Model.Cmp Proofs.WordP Proofs.LimbsP Proofs.AddSubP Proofs.CmpWordP.
From Coq Require Import ZArith Lia List Bool.
Open Scope Z_scope.

(* ---------------------------------------------------------------- small facts *)
Lemma ordz_lt x y : x < y -> ordz x y = -1.
Proof. intros. unfold ordz. destruct (Z.ltb_spec x y); [reflexivity | lia]. Qed.
Lemma ordz_eq x : ordz x x = 0.
Proof. unfold ordz. rewrite Z.ltb_irrefl, Z.eqb_refl. reflexivity. Qed.
Lemma ordz_gt x y : y < x -> ordz x y = 1.
Proof.
  intros. unfold ordz. destruct (Z.ltb_spec x y); [lia|]. destruct (Z.eqb_spec x y); [lia | reflexivity].
Qed.
Lemma ordz_shift x y k : ordz (x + k) (y + k) = ordz x y.
Proof.
  unfold ordz. destruct (Z.ltb_spec (x + k) (y + k)), (Z.ltb_spec x y); try lia; try reflexivity.
  destruct (Z.eqb_spec (x + k) (y + k)), (Z.eqb_spec x y); try lia; reflexivity.
Qed.

Lemma eval_zero_iff a : wf a -> (eval a = 0 <-> a = zeros (length a)).
Proof.
  intros Ha. split.
  - intros E. apply eval_inj; auto using wf_zeros.
    + rewrite length_zeros. reflexivity.
    + rewrite eval_zeros. assumption.
  - intros E. rewrite E. apply eval_zeros.
Qed.

Lemma eval_eq_iff a b : wf a -> wf b -> length a = length b -> (eval a = eval b <-> a = b).
Proof. intros Ha Hb Hl. split; [apply eval_inj; assumption | intros ->; reflexivity]. Qed.

Lemma eqb_eval_list a b : wf a -> wf b -> length a = length b -> (eval a =? eval b) = list_eqb a b.
Proof.
  revert b. induction a as [|x a IH]; intros [|y b] Ha Hb Hl; try discriminate; [reflexivity|].
  apply wf_cons in Ha. destruct Ha as [Hx Ha]. apply wf_cons in Hb. destruct Hb as [Hy Hb].
  simpl in Hl. cbn [list_eqb eval]. rewrite <- IH by (auto; lia).
  pose proof (eval_bounds a Ha). pose proof (eval_bounds b Hb). unfold is_word in *. pose proof B_pos.
  destruct (Z.eqb_spec x y) as [->|Hne]; simpl.
  - destruct (Z.eqb_spec (eval a) (eval b)) as [->|Hn]; [apply Z.eqb_refl|]. apply Z.eqb_neq. nia.
  - apply Z.eqb_neq. intros E.
    assert (x - y = B * (eval b - eval a)) by lia.
    assert (eval b - eval a = 0) by nia. lia.
Qed.

(* ---------------------------------------------------------------- Limb *)
Lemma limb_ct_eq_spec x y : is_word x -> is_word y -> limb_ct_eq x y = b2z (x =? y).
Proof. apply st_ct_eq_spec. Qed.
Lemma limb_ct_ne_spec x y : is_word x -> is_word y -> limb_ct_ne x y = b2z (negb (x =? y)).
Proof. intros. unfold limb_ct_ne. rewrite st_ct_eq_spec by assumption. apply ch_not_b2z. Qed.
Lemma limb_ct_lt_spec x y : is_word x -> is_word y -> limb_ct_lt x y = b2z (x <? y).
Proof. intros. unfold limb_ct_lt. rewrite from_word_lt_spec by assumption. apply to_choice_choice. Qed.
Lemma limb_ct_gt_spec x y : is_word x -> is_word y -> limb_ct_gt x y = b2z (y <? x).
Proof. intros. unfold limb_ct_gt. rewrite from_word_gt_spec by assumption. apply to_choice_choice. Qed.
Lemma limb_is_zero_spec x : is_word x -> limb_is_zero x = b2z (x =? 0).
Proof. intros. unfold limb_is_zero. apply st_ct_eq_spec; [assumption | apply is_word_0']. Qed.

(** Ord::cmp on Limb never trips its debug assertion and returns the order of the words *)
Lemma limb_cmp_spec dbg x y : is_word x -> is_word y -> limb_cmp dbg x y = Some (ordz x y).
Proof.
  intros Hx Hy. unfold limb_cmp.
  rewrite limb_ct_eq_spec, limb_ct_gt_spec, limb_ct_lt_spec by assumption.
  unfold ord_assign, ordz.
  destruct (Z.eqb_spec x y) as [->|Hne].
  - rewrite Z.ltb_irrefl. simpl. rewrite andb_false_r. reflexivity.
  - destruct (Z.ltb_spec y x), (Z.ltb_spec x y); try lia; simpl; rewrite andb_false_r; reflexivity.
Qed.
Lemma limb_cmp_vartime_spec x y : limb_cmp_vartime x y = ordz x y.
Proof. reflexivity. Qed.

(* ---------------------------------------------------------------- Uint: is_nonzero / eq *)
Lemma fold_or_zero a : forall acc, wf a -> is_word acc ->
  is_word (fold_left wor a acc) /\ (fold_left wor a acc = 0 <-> acc = 0 /\ eval a = 0).
Proof.
  induction a as [|x a IH]; intros acc Ha Hacc; simpl.
  - split; [assumption | tauto].
  - apply wf_cons in Ha. destruct Ha as [Hx Ha].
    assert (Hw : is_word (wor acc x)) by (apply is_word_lor; assumption).
    destruct (IH (wor acc x) Ha Hw) as [H1 H2]. split; [assumption|].
    rewrite H2. unfold wor. rewrite Z.lor_eq_0_iff.
    pose proof (eval_nonneg a Ha). unfold is_word in Hx. pose proof B_pos. split.
    + intros [[-> ->] ->]. split; [reflexivity | lia].
    + intros [-> E]. assert (x = 0 /\ eval a = 0) by nia. tauto.
Qed.

Lemma uint_is_nonzero_spec a : wf a -> uint_is_nonzero a = choice_of_bool (negb (eval a =? 0)).
Proof.
  intros Ha. unfold uint_is_nonzero.
  destruct (fold_or_zero a 0 Ha is_word_0') as [Hw Hz].
  rewrite from_word_nonzero_spec by assumption. f_equal. f_equal.
  destruct (Z.eqb_spec (eval a) 0) as [E|E].
  - apply Z.eqb_eq. apply Hz. tauto.
  - apply Z.eqb_neq. intros F. apply Hz in F. tauto.
Qed.

Lemma fold_xor_zero a : forall b acc, wf a -> wf b -> length a = length b -> is_word acc ->
  let r := fold_left (fun acc p => wor acc (wxor (fst p) (snd p))) (combine a b) acc in
  is_word r /\ (r = 0 <-> acc = 0 /\ a = b).
Proof.
  induction a as [|x a IH]; intros [|y b] acc Ha Hb Hl Hacc; try discriminate; simpl.
  - split; [assumption | tauto].
  - apply wf_cons in Ha. destruct Ha as [Hx Ha]. apply wf_cons in Hb. destruct Hb as [Hy Hb].
    assert (Hw : is_word (wor acc (wxor x y))) by (apply is_word_lor; [|apply is_word_lxor]; assumption).
    simpl in Hl. destruct (IH b (wor acc (wxor x y)) Ha Hb ltac:(lia) Hw) as [H1 H2].
    split; [exact H1|]. cbv zeta in H2. rewrite H2. unfold wor, wxor. rewrite Z.lor_eq_0_iff. split.
    + intros [[-> E] ->]. apply Z.lxor_eq in E. subst. tauto.
    + intros [-> E]. inversion E. subst. rewrite Z.lxor_nilpotent. tauto.
Qed.

(** Uint::eq (xor-accumulate): truthy exactly when the represented integers are equal *)
Lemma uint_eq_spec a b : wf a -> wf b -> length a = length b ->
  uint_eq a b = choice_of_bool (eval a =? eval b).
Proof.
  intros Ha Hb Hl. unfold uint_eq, cc_not.
  destruct (fold_xor_zero a b 0 Ha Hb Hl is_word_0') as [Hw Hz]. cbv zeta in Hw, Hz.
  rewrite from_word_nonzero_spec by assumption. rewrite wnot_choice, negb_involutive. f_equal.
  destruct (Z.eqb_spec (eval a) (eval b)) as [E|E].
  - apply Z.eqb_eq. apply Hz. split; [reflexivity|]. apply eval_inj; assumption.
  - apply Z.eqb_neq. intros F. apply Hz in F. destruct F as [_ ->]. contradiction.
Qed.

Lemma uint_ct_eq_spec a b : wf a -> wf b -> length a = length b ->
  uint_ct_eq a b = b2z (eval a =? eval b).
Proof. intros. unfold uint_ct_eq. rewrite uint_eq_spec by assumption. apply to_choice_choice. Qed.

(* ---------------------------------------------------------------- Uint: lt / gt / lte from the borrow *)
Lemma sbb_limbs_borrow a b r bo : wf a -> wf b -> length a = length b ->
  sbb_limbs a b 0 = (r, bo) ->
  bo = choice_of_bool (eval a <? eval b) /\ wf r /\ length r = length a /\
  eval r = eval a - eval b + (if eval a <? eval b then Bn (length a) else 0).
Proof.
  intros Ha Hb Hl E.
  pose proof (sbb_limbs_correct a b 0 r bo Ha Hb Hl is_word_0' E) as (Hw & Hlr & [(Hz & -> & ->)|(Hnz & Hib & He)]).
  - destruct a; [|discriminate]. destruct b; [|discriminate]. simpl. repeat split; auto.
  - rewrite bin_0 in He. pose proof (eval_bounds r Hw) as Hbr. rewrite Hlr in Hbr.
    pose proof (eval_bounds a Ha). pose proof (eval_bounds b Hb). rewrite <- Hl in *.
    destruct Hib as [-> | ->]; [rewrite bout_0 in He | rewrite bout_MAXW in He];
      destruct (Z.ltb_spec (eval a) (eval b)); try lia; repeat split; auto; lia.
Qed.

Lemma uint_lt_spec a b : wf a -> wf b -> length a = length b ->
  uint_lt a b = choice_of_bool (eval a <? eval b).
Proof.
  intros Ha Hb Hl. unfold uint_lt. destruct (sbb_limbs a b 0) as [r bo] eqn:E. cbn [snd].
  apply (sbb_limbs_borrow a b r bo Ha Hb Hl E).
Qed.
Lemma uint_gt_spec a b : wf a -> wf b -> length a = length b ->
  uint_gt a b = choice_of_bool (eval b <? eval a).
Proof. intros. unfold uint_gt. fold (uint_lt b a). apply uint_lt_spec; auto. Qed.
Lemma uint_lte_spec a b : wf a -> wf b -> length a = length b ->
  uint_lte a b = choice_of_bool (eval a <=? eval b).
Proof.
  intros. unfold uint_lte, cc_not. rewrite uint_gt_spec, wnot_choice by assumption. f_equal.
  rewrite Z.leb_antisym. reflexivity.
Qed.

(* ---------------------------------------------------------------- Uint: three-way cmp *)
Lemma cmp_loop_sbb a : forall b bw d,
  cmp_loop a b bw d = (fold_left wor (fst (sbb_limbs b a bw)) d, snd (sbb_limbs b a bw)).
Proof.
  induction a as [|x a IH]; intros [|y b] bw d; try reflexivity.
  cbn [cmp_loop sbb_limbs]. destruct (sbb y x bw) as [w bo]. rewrite IH.
  destruct (sbb_limbs b a bo) as [r b2]. reflexivity.
Qed.

Lemma uint_cmp_spec a b : wf a -> wf b -> length a = length b -> uint_cmp a b = ordz (eval a) (eval b).
Proof.
  intros Ha Hb Hl. unfold uint_cmp. rewrite cmp_loop_sbb.
  destruct (sbb_limbs b a 0) as [r bo] eqn:E. cbn [fst snd].
  destruct (sbb_limbs_borrow b a r bo Hb Ha (eq_sym Hl) E) as (-> & Hw & Hlr & He).
  destruct (fold_or_zero r 0 Hw is_word_0') as [Hwd Hz].
  rewrite from_word_nonzero_spec by assumption. rewrite to_choice_choice.
  pose proof (eval_bounds a Ha). pose proof (eval_bounds b Hb). rewrite Hl in *.
  destruct (Z.ltb_spec (eval b) (eval a)).
  - rewrite ordz_gt by assumption.
    destruct (Z.eqb_spec (fold_left wor r 0) 0) as [F|F]; [apply Hz in F; lia | reflexivity].
  - destruct (Z.eq_dec (eval a) (eval b)) as [Eq|Ne].
    + rewrite Eq, ordz_eq.
      destruct (Z.eqb_spec (fold_left wor r 0) 0) as [F|F]; [reflexivity|]. exfalso. apply F. apply Hz. lia.
    + rewrite ordz_lt by lia.
      destruct (Z.eqb_spec (fold_left wor r 0) 0) as [F|F]; [apply Hz in F; lia | reflexivity].
Qed.

(* ---------------------------------------------------------------- Uint: cmp_vartime (most significant limb first) *)
Lemma sbb_word_zero x y v bo : is_word x -> is_word y -> sbb x y 0 = (v, bo) ->
  (v = 0 <-> x = y) /\ (bo = 0 <-> y <= x).
Proof.
  intros Hx Hy E. pose proof (sbb_exact x y 0 v bo Hx Hy is_word_0' E) as (Hv & Hc).
  rewrite bin_0 in Hc. unfold is_word in *. pose proof MAXW_val. pose proof B_gt1.
  destruct Hc as [[-> Hd]|[-> Hd]]; split; split; intros; lia.
Qed.

Lemma cmp_vartime_rev_spec ra : forall rb, wf ra -> wf rb -> length ra = length rb ->
  cmp_vartime_rev ra rb = ordz (eval (rev ra)) (eval (rev rb)).
Proof.
  induction ra as [|x ra IH]; intros [|y rb] Ha Hb Hl; try discriminate; [reflexivity|].
  apply wf_cons in Ha. destruct Ha as [Hx Ha]. apply wf_cons in Hb. destruct Hb as [Hy Hb].
  simpl in Hl. cbn [cmp_vartime_rev rev]. rewrite !eval_app, !rev_length. cbn [eval].
  assert (Hl' : length ra = length rb) by lia. rewrite <- Hl'.
  assert (Hwa : wf (rev ra)) by (unfold wf in *; apply Forall_rev; assumption).
  assert (Hwb : wf (rev rb)) by (unfold wf in *; apply Forall_rev; assumption).
  pose proof (eval_bounds _ Hwa) as Ba. pose proof (eval_bounds _ Hwb) as Bb.
  rewrite rev_length in Ba, Bb. rewrite <- Hl' in Bb.
  destruct (sbb x y 0) as [v bo] eqn:E.
  destruct (sbb_word_zero x y v bo Hx Hy E) as [Hv Hbo].
  pose proof (Bn_pos (length ra)). unfold is_word in Hx, Hy.
  destruct (Z.eqb_spec v 0) as [Ev|Ev].
  - apply Hv in Ev. subst y. rewrite IH by auto.
    symmetry. apply ordz_shift.
  - assert (x <> y) by tauto.
    destruct (Z.eqb_spec bo 0) as [Eb|Eb].
    + assert (y < x) by (apply Hbo in Eb; lia). symmetry. apply ordz_gt. nia.
    + assert (x < y) by (destruct (Z_le_gt_dec y x); [exfalso; tauto | lia]). symmetry. apply ordz_lt. nia.
Qed.

Lemma uint_cmp_vartime_spec a b : wf a -> wf b -> length a = length b ->
  uint_cmp_vartime a b = ordz (eval a) (eval b).
Proof.
  intros Ha Hb Hl. unfold uint_cmp_vartime.
  rewrite cmp_vartime_rev_spec; rewrite ?rev_involutive, ?rev_length; auto;
    unfold wf in *; apply Forall_rev; assumption.
Qed.

(* ---------------------------------------------------------------- Uint: zero / one / parity *)
Lemma eval_one_limbs n : n <> 0%nat -> eval (one_limbs n) = 1.
Proof. destruct n; [congruence|]. intros _. cbn [one_limbs eval]. rewrite eval_zeros. lia. Qed.
Lemma wf_one_limbs n : wf (one_limbs n).
Proof. destruct n; [apply wf_nil|]. simpl. apply wf_cons. split; [apply is_word_1 | apply wf_zeros]. Qed.
Lemma length_one_limbs n : length (one_limbs n) = n.
Proof. destruct n; [reflexivity|]. simpl. rewrite length_zeros. reflexivity. Qed.

Lemma uint_is_zero_spec a : wf a -> uint_is_zero a = b2z (eval a =? 0).
Proof.
  intros Ha. unfold uint_is_zero. rewrite uint_ct_eq_spec; auto using wf_zeros.
  - rewrite eval_zeros. reflexivity.
  - rewrite length_zeros. reflexivity.
Qed.
Lemma uint_is_one_spec a : wf a -> a <> [] -> uint_is_one a = b2z (eval a =? 1).
Proof.
  intros Ha Hn. unfold uint_is_one. rewrite uint_ct_eq_spec; auto using wf_one_limbs.
  - rewrite eval_one_limbs; [reflexivity|]. destruct a; [congruence | discriminate].
  - rewrite length_one_limbs. reflexivity.
Qed.

Lemma odd_eval x a : Z.odd (eval (x :: a)) = Z.odd x.
Proof. cbn [eval]. rewrite B_half, <- Z.mul_assoc. apply Z.odd_add_mul_2. Qed.

Lemma integer_is_odd_spec a : wf a -> integer_is_odd a = b2z (Z.odd (eval a)).
Proof.
  destruct a as [|x a]; intros Ha; [reflexivity|]. apply wf_cons in Ha. destruct Ha as [Hx _].
  rewrite odd_eval. apply limb_is_odd_spec. assumption.
Qed.

Lemma uint_is_odd_spec a : wf a -> uint_is_odd a = choice_of_bool (Z.odd (eval a)).
Proof.
  intros Ha. unfold uint_is_odd, nthz, wand.
  assert (E : Z.land (nth 0 a 0) 1 = b2z (Z.odd (eval a))).
  { destruct a as [|x a]; [reflexivity|]. rewrite odd_eval. cbn [nth].
    change 1 with (Z.ones 1) at 1. rewrite Z.land_ones by lia. change (2 ^ 1) with 2.
    rewrite Zmod_odd. destruct (Z.odd x); reflexivity. }
  rewrite E. apply from_word_lsb_b2z.
Qed.

(* ---------------------------------------------------------------- select / swap / conditional negate *)
Lemma ct_select_limbs_spec a b (c : bool) : wf a -> wf b -> length a = length b ->
  ct_select_limbs a b (b2z c) = spec_select c a b.
Proof.
  intros Ha Hb Hl. unfold ct_select_limbs, st_select.
  replace (wneg (b2z c)) with (choice_of_bool c) by (destruct c; reflexivity).
  apply (select_limbs_choice c a b Ha Hb Hl).
Qed.

Lemma ct_swap_limbs_spec a b (c : bool) : wf a -> wf b -> length a = length b ->
  ct_swap_limbs a b (b2z c) = (spec_select c a b, spec_select c b a).
Proof.
  intros Ha Hb Hl. unfold ct_swap_limbs. cbv zeta.
  rewrite !ct_select_limbs_spec by auto. reflexivity.
Qed.

Lemma uint_select_spec a b (c : bool) : wf a -> wf b -> length a = length b ->
  uint_select a b (choice_of_bool c) = spec_select c a b.
Proof. intros. unfold uint_select. apply select_limbs_choice; assumption. Qed.

Lemma wrapping_neg_facts a : wf a ->
  wf (uint_wrapping_neg a) /\ length (uint_wrapping_neg a) = length a /\
  eval (uint_wrapping_neg a) = (- eval a) mod Bn (length a).
Proof.
  intros Ha. destruct (uint_carrying_neg a) as [r c] eqn:E.
  pose proof (carrying_neg_spec a r c Ha E) as (He & Hw & Hl & _).
  unfold uint_carrying_neg in E. unfold uint_wrapping_neg. destruct (neg_limbs a 1) as [r' co].
  inv_pair E. cbn [fst]. tauto.
Qed.

(** wrapping_neg_if (ConstChoice) and conditional_negate (Choice): the value is negated exactly when asked *)
Lemma uint_neg_if_spec a (c : bool) : wf a ->
  eval (uint_neg_if a (choice_of_bool c)) = (if c then - eval a else eval a) mod Bn (length a)
  /\ wf (uint_neg_if a (choice_of_bool c)) /\ length (uint_neg_if a (choice_of_bool c)) = length a.
Proof.
  intros Ha. destruct (wrapping_neg_facts a Ha) as (Hw & Hl & He).
  unfold uint_neg_if. rewrite uint_select_spec by auto.
  destruct c; cbn [spec_select]; repeat split; auto.
  symmetry. apply Z.mod_small. apply eval_bounds. assumption.
Qed.

Lemma conditional_negate_spec a (c : bool) : wf a ->
  let r := ct_select_limbs a (uint_wrapping_neg a) (b2z c) in
  eval r = (if c then - eval a else eval a) mod Bn (length a) /\ wf r /\ length r = length a.
Proof.
  intros Ha. destruct (wrapping_neg_facts a Ha) as (Hw & Hl & He). cbv zeta.
  rewrite ct_select_limbs_spec by auto.
  destruct c; cbn [spec_select]; repeat split; auto.
  symmetry. apply Z.mod_small. apply eval_bounds. assumption.
Qed.

(* ---------------------------------------------------------------- Hash vs Eq on fixed-width values *)
(** equal Uint / Int / Limb values feed identical data to the hasher *)
Lemma uint_eq_hash a b : wf a -> wf b -> length a = length b ->
  uint_ct_eq a b = 1 -> hash_input a = hash_input b.
Proof.
  intros Ha Hb Hl E. rewrite uint_ct_eq_spec in E by assumption.
  destruct (Z.eqb_spec (eval a) (eval b)) as [Ev|]; [|discriminate].
  apply eval_inj in Ev; auto. subst. reflexivity.
Qed.

(* ---------------------------------------------------------------- mutual coherence of the Uint forms *)
(** cmp, cmp_vartime and the three predicates describe one and the same total order *)
Lemma uint_coherent a b : wf a -> wf b -> length a = length b ->
  let r := uint_cmp a b in
  uint_cmp_vartime a b = r /\
  (r = -1 <-> cc_true (uint_lt a b) = true) /\
  (r = 0 <-> cc_true (uint_eq a b) = true) /\
  (r = 1 <-> cc_true (uint_gt a b) = true) /\
  (r <> 1 <-> cc_true (uint_lte a b) = true) /\
  (r = -1 \/ r = 0 \/ r = 1).
Proof.
  intros Ha Hb Hl. cbv zeta.
  rewrite uint_cmp_vartime_spec, uint_cmp_spec, uint_lt_spec, uint_eq_spec, uint_gt_spec, uint_lte_spec by assumption.
  rewrite !cc_true_choice. unfold ordz.
  destruct (Z.ltb_spec (eval a) (eval b)), (Z.eqb_spec (eval a) (eval b)), (Z.ltb_spec (eval b) (eval a)),
    (Z.leb_spec (eval a) (eval b)); try lia; repeat split; intros; try lia; try discriminate; auto.
Qed.
