(** C06, table level: for EVERY key of the area `cmp` (Model/Cmp.v, 88 keys) the entry of [ops_cmp_model] (limb-level
    model of the Rust code, including the glue of the entry: argument decoding, Choice / ConstChoice / CtOption
    plumbing, debug assertions, panics) equals the entry of [ops_cmp_spec] (plain order / equality on the represented
    integers) on all well-formed, well-typed arguments.
    [run_tab t k dbg args] (Proofs/TotalityP.v) looks the key up exactly as Model/Api.v does.
    Typing side conditions ([cmp_tbl_ty], boolean, one predicate per key class) are only what Rust's types enforce:
    a Limb argument is one word, two Uint<N> / Int<N> operands have one limb count, Int<N> (and Uint::is_one, whose
    constant ONE does not exist for N = 0) has at least one limb.  BoxedUint::ct_select / ct_swap are proved under
    the documented equal-precision condition; for unequal precisions the release-profile model entry differs from
    the spec entry (open finding F16, [tbl_boxed_select_refuted] / [tbl_boxed_swap_refuted]). *)
From CB Require Import Model.Limbs Model.AddSub Model.Cmp Proofs.WordP Proofs.WordPredP Proofs.LimbsP Proofs.AddSubP
  Proofs.CmpWordP Proofs.CmpP Proofs.CmpIntP Proofs.CmpBoxedP Proofs.CmpAllP Proofs.TotalityP Proofs.TotalityCmpP.
From Coq Require Import ZArith Lia List String Bool.
Open Scope Z_scope.
Notation length := List.length.

(* ------------------------------------------------------------------ typing side conditions (boolean) *)
Definition tyb := list (list Z) -> bool.
Definition limb_1 : tyb := fun a => (ln 0 a =? 1)%nat.                                  (* one Limb *)
Definition limb_2 : tyb := fun a => (ln 0 a =? 1)%nat && (ln 1 a =? 1)%nat.             (* two Limbs *)
Definition same_n : tyb := fun a => (ln 0 a =? ln 1 a)%nat.                             (* two Uint<N>, one N *)
Definition nonempty : tyb := fun a => negb (ln 0 a =? 0)%nat.                           (* N >= 1 *)
Definition int_2 : tyb := fun a => nonempty a && same_n a.                              (* two Int<N>, N >= 1 *)
Definition int_def : tyb := fun a => nonempty a && (ln 0 a =? ln 2 a)%nat.              (* Uint<N>, flag, Int<N> *)

Open Scope string_scope.
Definition cmp_tbl_ty : list (string * tyb) :=
  [("limb.ct_eq", limb_2); ("limb.ct_ne", limb_2); ("limb.eq_vartime", limb_2); ("limb.ct_lt", limb_2);
   ("limb.ct_gt", limb_2); ("limb.cmp", limb_2); ("limb.lt", limb_2); ("limb.le", limb_2); ("limb.gt", limb_2);
   ("limb.ge", limb_2); ("limb.cmp_vartime", limb_2); ("limb.select", limb_2); ("limb.swap", limb_2);
   ("limb.hash", limb_2);
   ("limb.is_zero", limb_1); ("limb.is_one", limb_1); ("limb.is_odd", limb_1); ("limb.to_nz", limb_1);
   ("limb.nz_new_unwrap", limb_1); ("limb.conditional_negate", limb_1);
   ("uint.ct_eq", same_n); ("uint.ct_lt", same_n); ("uint.ct_gt", same_n); ("uint.cmp", same_n);
   ("uint.lt", same_n); ("uint.le", same_n); ("uint.gt", same_n); ("uint.ge", same_n);
   ("uint.cmp_vartime", same_n); ("uint.select", same_n); ("uint.swap", same_n); ("uint.hash", same_n);
   ("uint.ctopt", same_n); ("uint.is_one", nonempty);
   ("int.ct_eq", int_2); ("int.ct_lt", int_2); ("int.ct_gt", int_2); ("int.cmp", int_2); ("int.lt", int_2);
   ("int.le", int_2); ("int.gt", int_2); ("int.ge", int_2); ("int.cmp_vartime", int_2); ("int.hash", int_2);
   ("int.select", same_n); ("int.swap", same_n);
   ("int.is_one", nonempty); ("int.is_min", nonempty); ("int.is_max", nonempty); ("int.to_odd", nonempty);
   ("int.abs_sign", nonempty); ("int.new_from_abs_sign", int_def); ("int.new_from_abs_sign_expect", nonempty);
   ("boxed.select", same_n); ("boxed.swap", same_n)].
Open Scope Z_scope.

Definition cmp_typed (k : string) (a : list (list Z)) : bool :=
  match lookup k cmp_tbl_ty with Some P => P a | None => true end.

Notation M := (run_tab ops_cmp_model).
Notation S := (run_tab ops_cmp_spec).

(* one key *)
Definition tbl_ok (k : string) : Prop :=
  forall dbg a, wf_args a -> cmp_typed k a = true -> M k dbg a = S k dbg a.

Ltac start :=
  let dbg := fresh "dbg" in let a := fresh "a" in let Hwf := fresh "Hwf" in let Hty := fresh "Hty" in
  intros dbg a Hwf Hty; unfold cmp_typed in Hty;
  lazy beta iota delta [lookup cmp_tbl_ty String.eqb Ascii.eqb Bool.eqb] in Hty;
  open_tabs ops_cmp_model ops_cmp_spec.

(* ------------------------------------------------------------------ small facts *)
Lemma limb_1_iff a : limb_1 a = true -> ln 0 a = 1%nat.
Proof. unfold limb_1. apply Nat.eqb_eq. Qed.
Lemma limb_2_iff a : limb_2 a = true -> ln 0 a = 1%nat /\ ln 1 a = 1%nat.
Proof. unfold limb_2. intros H. apply andb_prop in H. rewrite !Nat.eqb_eq in H. exact H. Qed.
Lemma same_n_iff a : same_n a = true -> length (arg 0 a) = length (arg 1 a).
Proof. unfold same_n, ln. apply Nat.eqb_eq. Qed.
Lemma nonempty_iff a : nonempty a = true -> arg 0 a <> [].
Proof.
  unfold nonempty, ln. intros H E. rewrite E in H. discriminate.
Qed.
Lemma int_2_iff a : int_2 a = true -> arg 0 a <> [] /\ length (arg 0 a) = length (arg 1 a).
Proof. unfold int_2. intros H. apply andb_prop in H. destruct H. split; [apply nonempty_iff | apply same_n_iff]; assumption. Qed.
Lemma int_def_iff a : int_def a = true -> arg 0 a <> [] /\ length (arg 0 a) = length (arg 2 a).
Proof.
  unfold int_def. intros H. apply andb_prop in H. destruct H as [H1 H2]. split; [apply nonempty_iff; assumption|].
  apply Nat.eqb_eq in H2. exact H2.
Qed.

Lemma eval_single x : eval [x] = x.
Proof. cbn [eval]. lia. Qed.
Lemma ev_single i a : ln i a = 1%nat -> ev i a = sarg i a.
Proof. intros H. unfold ev. rewrite (arg_single i a H). apply eval_single. Qed.
Lemma sarg_is_word i a : wf_args a -> is_word (sarg i a).
Proof. intros H. exact (sarg_word i a H). Qed.

Lemma negb_b2z_eqb0 b : negb (b2z b =? 0) = b.
Proof. destruct b; reflexivity. Qed.
Lemma carg_b2z i a : carg i a = b2z (cbit i a).
Proof. reflexivity. Qed.
Lemma ccarg_choice i a : ccarg i a = choice_of_bool (cbit i a).
Proof. reflexivity. Qed.

Lemma is_lt_ordz x y : is_lt (ordz x y) = (x <? y).
Proof. unfold is_lt, ordz. destruct (Z.ltb_spec x y); [reflexivity|]. destruct (x =? y); reflexivity. Qed.
Lemma is_le_ordz x y : is_le (ordz x y) = (x <=? y).
Proof.
  unfold is_le, ordz. destruct (Z.ltb_spec x y), (Z.leb_spec x y), (Z.eqb_spec x y); try reflexivity; lia.
Qed.
Lemma is_gt_ordz x y : is_gt (ordz x y) = (y <? x).
Proof.
  unfold is_gt, ordz. destruct (Z.ltb_spec x y), (Z.ltb_spec y x), (Z.eqb_spec x y); try reflexivity; lia.
Qed.
Lemma is_ge_ordz x y : is_ge (ordz x y) = (y <=? x).
Proof.
  unfold is_ge, ordz. destruct (Z.ltb_spec x y), (Z.leb_spec y x), (Z.eqb_spec x y); try reflexivity; lia.
Qed.

Lemma list_eqb_refl l : list_eqb l l = true.
Proof. induction l as [|x l IH]; [reflexivity|]. cbn [list_eqb]. rewrite Z.eqb_refl, IH. reflexivity. Qed.
(* Hash vs Eq: the model's coherence flag is constantly true when equal values feed equal data *)
Lemma vhash_in_ok (e : bool) ha hb : (e = true -> ha = hb) -> vhash_in e ha hb = Val [vbool e; [1]].
Proof.
  intros H. unfold vhash_in. destruct e; cbn [negb orb]; [|reflexivity].
  rewrite (H eq_refl), list_eqb_refl. reflexivity.
Qed.

(* the wrapped value v (already reduced or not) as n limbs *)
Lemma to_limbs_of_eval r n v : wf r -> length r = n -> eval r = v mod Bn n -> r = to_limbs n (v mod Bn n).
Proof.
  intros Hw Hl He. apply to_limbs_unique; auto. rewrite He. symmetry. apply Z.mod_mod.
  pose proof (Bn_pos n). lia.
Qed.

(* ================================================================== Limb *)
Ltac limb2 :=
  start;
  let H0 := fresh "H0" in let H1 := fresh "H1" in let Wx := fresh "Wx" in let Wy := fresh "Wy" in
  match goal with Hwf : wf_args ?a, Hty : limb_2 ?a = true |- _ =>
    apply limb_2_iff in Hty; destruct Hty as [H0 H1];
    pose proof (sarg_is_word 0 a Hwf) as Wx; pose proof (sarg_is_word 1 a Hwf) as Wy;
    rewrite ?(ev_single 0 a H0), ?(ev_single 1 a H1)
  end.
Ltac limb1 :=
  start;
  let H0 := fresh "H0" in let Wx := fresh "Wx" in
  match goal with Hwf : wf_args ?a, Hty : limb_1 ?a = true |- _ =>
    apply limb_1_iff in Hty; rename Hty into H0;
    pose proof (sarg_is_word 0 a Hwf) as Wx; rewrite ?(ev_single 0 a H0)
  end.

Lemma tbl_limb_ct_eq : tbl_ok "limb.ct_eq".
Proof. limb2. rewrite limb_ct_eq_spec by assumption. reflexivity. Qed.
Lemma tbl_limb_ct_ne : tbl_ok "limb.ct_ne".
Proof. limb2. rewrite limb_ct_ne_spec by assumption. reflexivity. Qed.
Lemma tbl_limb_eq_vartime : tbl_ok "limb.eq_vartime".
Proof. limb2. reflexivity. Qed.
Lemma tbl_limb_ct_lt : tbl_ok "limb.ct_lt".
Proof. limb2. rewrite limb_ct_lt_spec by assumption. reflexivity. Qed.
Lemma tbl_limb_ct_gt : tbl_ok "limb.ct_gt".
Proof. limb2. rewrite limb_ct_gt_spec by assumption. reflexivity. Qed.
Lemma tbl_limb_cmp : tbl_ok "limb.cmp".
Proof. limb2. rewrite limb_cmp_spec by assumption. reflexivity. Qed.
Lemma tbl_limb_lt : tbl_ok "limb.lt".
Proof. limb2. rewrite limb_cmp_spec by assumption. unfold vrel. rewrite is_lt_ordz. reflexivity. Qed.
Lemma tbl_limb_le : tbl_ok "limb.le".
Proof. limb2. rewrite limb_cmp_spec by assumption. unfold vrel. rewrite is_le_ordz. reflexivity. Qed.
Lemma tbl_limb_gt : tbl_ok "limb.gt".
Proof. limb2. rewrite limb_cmp_spec by assumption. unfold vrel. rewrite is_gt_ordz. reflexivity. Qed.
Lemma tbl_limb_ge : tbl_ok "limb.ge".
Proof. limb2. rewrite limb_cmp_spec by assumption. unfold vrel. rewrite is_ge_ordz. reflexivity. Qed.
Lemma tbl_limb_cmp_vartime : tbl_ok "limb.cmp_vartime".
Proof. limb2. reflexivity. Qed.
Lemma tbl_limb_is_zero : tbl_ok "limb.is_zero".
Proof. limb1. rewrite limb_is_zero_spec by assumption. reflexivity. Qed.
Lemma tbl_limb_is_one : tbl_ok "limb.is_one".
Proof. limb1. rewrite limb_ct_eq_spec by (auto using is_word_1). reflexivity. Qed.
Lemma tbl_limb_is_odd : tbl_ok "limb.is_odd".
Proof. limb1. rewrite limb_is_odd_spec by assumption. reflexivity. Qed.
Lemma tbl_limb_to_nz : tbl_ok "limb.to_nz".
Proof.
  limb1. unfold limb_is_nonzero. rewrite from_word_nonzero_spec by assumption. rewrite cc_true_choice. reflexivity.
Qed.
Lemma tbl_limb_nz_new_unwrap : tbl_ok "limb.nz_new_unwrap".
Proof.
  limb1. unfold limb_is_nonzero. rewrite from_word_nonzero_spec by assumption. rewrite cc_true_choice.
  destruct (sarg 0 a =? 0); reflexivity.
Qed.
Lemma tbl_limb_select : tbl_ok "limb.select".
Proof.
  limb2. rewrite carg_b2z, st_select_spec by assumption. unfold sp_sel, spec_select.
  rewrite (arg_single 0 a H0), (arg_single 1 a H1). destruct (cbit 2 a); reflexivity.
Qed.
Lemma tbl_limb_swap : tbl_ok "limb.swap".
Proof.
  limb2. rewrite carg_b2z, ct_swap_limbs_spec by (auto using wf_arg; unfold ln in *; congruence). reflexivity.
Qed.
Lemma tbl_limb_conditional_negate : tbl_ok "limb.conditional_negate".
Proof.
  limb1. rewrite carg_b2z, st_select_spec by (auto using is_word_wneg).
  unfold sp_neg_if, sp_wrapping, sp_val. rewrite (ev_single 0 a H0), H0.
  set (x := sarg 0 a) in *. cbn [to_limbs]. rewrite Bn_S, Bn_0, Z.mul_1_r.
  pose proof B_pos. rewrite Z.mod_mod by lia.
  destruct (cbit 1 a).
  - reflexivity.
  - rewrite Z.mod_small by exact Wx. reflexivity.
Qed.
Lemma tbl_limb_hash : tbl_ok "limb.hash".
Proof.
  limb2. rewrite limb_ct_eq_spec, negb_b2z_eqb0 by assumption. unfold vhash.
  rewrite (arg_single 0 a H0), (arg_single 1 a H1). apply vhash_in_ok.
  intros E. apply Z.eqb_eq in E. rewrite E. reflexivity.
Qed.

(* ================================================================== Uint<N> *)
(* two operands of one width *)
Ltac bin2 :=
  start;
  let Hl := fresh "Hl" in let W0 := fresh "W0" in let W1 := fresh "W1" in
  match goal with Hwf : wf_args ?a, Hty : same_n ?a = true |- _ =>
    apply same_n_iff in Hty; rename Hty into Hl;
    pose proof (wf_arg 0 a Hwf) as W0; pose proof (wf_arg 1 a Hwf) as W1; unfold ev
  end.
(* one operand *)
Ltac un1 :=
  start;
  let W0 := fresh "W0" in
  match goal with Hwf : wf_args ?a |- _ => pose proof (wf_arg 0 a Hwf) as W0; unfold ev end.

Lemma tbl_uint_ct_eq : tbl_ok "uint.ct_eq".
Proof. bin2. rewrite uint_ct_eq_spec by assumption. reflexivity. Qed.
Lemma tbl_uint_ct_lt : tbl_ok "uint.ct_lt".
Proof. bin2. rewrite uint_lt_spec, to_choice_choice by assumption. reflexivity. Qed.
Lemma tbl_uint_ct_gt : tbl_ok "uint.ct_gt".
Proof. bin2. rewrite uint_gt_spec, to_choice_choice by assumption. reflexivity. Qed.
Lemma tbl_uint_cmp : tbl_ok "uint.cmp".
Proof. bin2. rewrite uint_cmp_spec by assumption. reflexivity. Qed.
Lemma tbl_uint_lt : tbl_ok "uint.lt".
Proof. bin2. rewrite uint_cmp_spec, is_lt_ordz by assumption. reflexivity. Qed.
Lemma tbl_uint_le : tbl_ok "uint.le".
Proof. bin2. rewrite uint_cmp_spec, is_le_ordz by assumption. reflexivity. Qed.
Lemma tbl_uint_gt : tbl_ok "uint.gt".
Proof. bin2. rewrite uint_cmp_spec, is_gt_ordz by assumption. reflexivity. Qed.
Lemma tbl_uint_ge : tbl_ok "uint.ge".
Proof. bin2. rewrite uint_cmp_spec, is_ge_ordz by assumption. reflexivity. Qed.
Lemma tbl_uint_cmp_vartime : tbl_ok "uint.cmp_vartime".
Proof. bin2. rewrite uint_cmp_vartime_spec by assumption. reflexivity. Qed.
Lemma tbl_uint_is_zero : tbl_ok "uint.is_zero".
Proof. un1. rewrite uint_is_zero_spec by assumption. reflexivity. Qed.
Lemma tbl_uint_is_one : tbl_ok "uint.is_one".
Proof. un1. apply nonempty_iff in Hty. rewrite uint_is_one_spec by assumption. reflexivity. Qed.
Lemma tbl_uint_is_odd : tbl_ok "uint.is_odd".
Proof. un1. rewrite integer_is_odd_spec by assumption. reflexivity. Qed.
Lemma tbl_uint_is_even : tbl_ok "uint.is_even".
Proof. un1. rewrite integer_is_odd_spec, ch_not_b2z, Z.negb_odd by assumption. reflexivity. Qed.
Lemma tbl_uint_to_nz : tbl_ok "uint.to_nz".
Proof. un1. rewrite uint_is_nonzero_spec, cc_true_choice by assumption. reflexivity. Qed.
Lemma tbl_uint_to_odd : tbl_ok "uint.to_odd".
Proof. un1. rewrite uint_is_odd_spec, cc_true_choice by assumption. reflexivity. Qed.
Lemma tbl_uint_nz_new : tbl_ok "uint.nz_new".
Proof. un1. rewrite uint_is_zero_spec, ch_not_b2z, negb_b2z_eqb0 by assumption. reflexivity. Qed.
Lemma tbl_uint_odd_new : tbl_ok "uint.odd_new".
Proof. un1. rewrite integer_is_odd_spec, negb_b2z_eqb0 by assumption. reflexivity. Qed.
Lemma tbl_uint_select : tbl_ok "uint.select".
Proof. bin2. rewrite carg_b2z, ct_select_limbs_spec by assumption. reflexivity. Qed.
Lemma tbl_uint_swap : tbl_ok "uint.swap".
Proof. bin2. rewrite carg_b2z, ct_swap_limbs_spec by assumption. reflexivity. Qed.

(* wrapping negation selected by a flag: the spec value as limbs *)
Lemma neg_if_limbs r a0 (c : bool) : wf r -> length r = length a0 ->
  eval r = (if c then - eval a0 else eval a0) mod Bn (length a0) ->
  Val [r] = sp_wrapping (length a0) (if c then - eval a0 else eval a0).
Proof.
  intros Hw Hl He. unfold sp_wrapping, sp_val. f_equal. f_equal. apply to_limbs_of_eval; assumption.
Qed.
Lemma tbl_uint_neg_if : tbl_ok "uint.neg_if".
Proof.
  un1. rewrite ccarg_choice. destruct (uint_neg_if_spec (arg 0 a) (cbit 1 a) W0) as (E & W & L).
  unfold sp_neg_if, ln, ev. apply neg_if_limbs; assumption.
Qed.
Lemma tbl_uint_conditional_negate : tbl_ok "uint.conditional_negate".
Proof.
  un1. rewrite carg_b2z. destruct (conditional_negate_spec (arg 0 a) (cbit 1 a) W0) as (E & W & L).
  unfold sp_neg_if, ln, ev. apply neg_if_limbs; assumption.
Qed.
Lemma tbl_uint_hash : tbl_ok "uint.hash".
Proof.
  bin2. rewrite uint_ct_eq_spec, negb_b2z_eqb0 by assumption. unfold vhash. apply vhash_in_ok.
  intros E. apply Z.eqb_eq in E. rewrite (eval_inj _ _ W0 W1 Hl E). reflexivity.
Qed.
Lemma tbl_uint_ctopt : tbl_ok "uint.ctopt".
Proof.
  bin2. rewrite ccarg_choice. unfold ln. destruct (cbit 2 a); cbn [negb].
  - rewrite uint_select_spec by (auto; congruence). reflexivity.
  - rewrite uint_select_spec by (auto using wf_zeros; rewrite length_zeros; congruence). reflexivity.
Qed.
Lemma tbl_uint_ctopt_expect : tbl_ok "uint.ctopt_expect".
Proof. un1. rewrite ccarg_choice, cc_true_choice. reflexivity. Qed.

(* ================================================================== Int<N> *)
Ltac int2 :=
  start;
  let Hl := fresh "Hl" in let Hne := fresh "Hne" in let W0 := fresh "W0" in let W1 := fresh "W1" in
  match goal with Hwf : wf_args ?a, Hty : int_2 ?a = true |- _ =>
    apply int_2_iff in Hty; destruct Hty as [Hne Hl];
    pose proof (wf_arg 0 a Hwf) as W0; pose proof (wf_arg 1 a Hwf) as W1; unfold sev
  end.
Ltac int1 :=
  start;
  let Hne := fresh "Hne" in let W0 := fresh "W0" in
  match goal with Hwf : wf_args ?a, Hty : nonempty ?a = true |- _ =>
    apply nonempty_iff in Hty; rename Hty into Hne;
    pose proof (wf_arg 0 a Hwf) as W0; unfold sev
  end.
Ltac int_order a :=
  destruct (int_order_spec (arg 0 a) (arg 1 a)) as (Eeq & Elt & Egt & Ecmp & Ecv); try assumption.

Lemma tbl_int_ct_eq : tbl_ok "int.ct_eq".
Proof. int2. int_order a. rewrite Eeq, to_choice_choice. reflexivity. Qed.
Lemma tbl_int_ct_lt : tbl_ok "int.ct_lt".
Proof. int2. int_order a. rewrite Elt, to_choice_choice. reflexivity. Qed.
Lemma tbl_int_ct_gt : tbl_ok "int.ct_gt".
Proof. int2. int_order a. rewrite Egt, to_choice_choice. reflexivity. Qed.
Lemma tbl_int_cmp : tbl_ok "int.cmp".
Proof. int2. int_order a. rewrite Ecmp. reflexivity. Qed.
Lemma tbl_int_lt : tbl_ok "int.lt".
Proof. int2. int_order a. rewrite Ecmp, is_lt_ordz. reflexivity. Qed.
Lemma tbl_int_le : tbl_ok "int.le".
Proof. int2. int_order a. rewrite Ecmp, is_le_ordz. reflexivity. Qed.
Lemma tbl_int_gt : tbl_ok "int.gt".
Proof. int2. int_order a. rewrite Ecmp, is_gt_ordz. reflexivity. Qed.
Lemma tbl_int_ge : tbl_ok "int.ge".
Proof. int2. int_order a. rewrite Ecmp, is_ge_ordz. reflexivity. Qed.
Lemma tbl_int_cmp_vartime : tbl_ok "int.cmp_vartime".
Proof. int2. int_order a. rewrite Ecv. reflexivity. Qed.

Lemma seval_eqb_zero a : wf a -> (seval a =? 0) = (eval a =? 0).
Proof.
  intros Ha. pose proof (seval_zero_iff a Ha) as H.
  destruct (Z.eqb_spec (seval a) 0), (Z.eqb_spec (eval a) 0); try reflexivity; tauto.
Qed.
Lemma half_big (a : list Z) : a <> [] -> 2 ^ 63 <= half (length a).
Proof.
  destruct a as [|x a]; [congruence|]. intros _. cbn [List.length]. rewrite half_S.
  pose proof (Bn_pos (length a)). word_facts.
  assert (2 ^ 63 * 1 <= 2 ^ 63 * Bn (length a)) by (apply Z.mul_le_mono_nonneg_l; lia). lia.
Qed.
Lemma seval_eqb_one a : wf a -> a <> [] -> (seval a =? 1) = (eval a =? 1).
Proof.
  intros Ha Hn. rewrite (seval_eval a Ha Hn). pose proof (eval_bounds a Ha). pose proof (half_big a Hn). word_facts.
  destruct (Z.leb_spec (half (length a)) (eval a)), (Z.eqb_spec (eval a) 1);
    try (apply Z.eqb_eq; lia); apply Z.eqb_neq; lia.
Qed.
Lemma seval_cases2 a : seval a = eval a \/ seval a = eval a - Bn (length a).
Proof. unfold seval. cbv zeta. destruct (_ <? _); [left | right]; reflexivity. Qed.
Lemma seval_mod a (c : bool) :
  (if c then - seval a else seval a) mod Bn (length a) = (if c then - eval a else eval a) mod Bn (length a).
Proof.
  destruct (seval_cases2 a) as [-> | ->]; [reflexivity|]. destruct c.
  - replace (- (eval a - Bn (length a))) with (- eval a + 1 * Bn (length a)) by ring. apply Z_mod_plus_full.
  - replace (eval a - Bn (length a)) with (eval a + (-1) * Bn (length a)) by ring. apply Z_mod_plus_full.
Qed.

Lemma tbl_int_is_zero : tbl_ok "int.is_zero".
Proof. un1. unfold sev. rewrite uint_is_zero_spec, seval_eqb_zero by assumption. reflexivity. Qed.
Lemma tbl_int_is_one : tbl_ok "int.is_one".
Proof. int1. rewrite uint_is_one_spec, seval_eqb_one by assumption. reflexivity. Qed.
Lemma tbl_int_is_negative : tbl_ok "int.is_negative".
Proof. un1. unfold sev, vcc. rewrite int_is_negative_spec, cc_true_choice by assumption. reflexivity. Qed.
Lemma tbl_int_is_positive : tbl_ok "int.is_positive".
Proof. un1. unfold sev, vcc. rewrite int_is_positive_spec, cc_true_choice by assumption. reflexivity. Qed.
Lemma tbl_int_is_min : tbl_ok "int.is_min".
Proof. int1. unfold vcc. rewrite int_is_min_spec, cc_true_choice by assumption. reflexivity. Qed.
Lemma tbl_int_is_max : tbl_ok "int.is_max".
Proof. int1. unfold vcc. rewrite int_is_max_spec, cc_true_choice by assumption. reflexivity. Qed.
Lemma tbl_int_to_nz : tbl_ok "int.to_nz".
Proof. un1. unfold sev. rewrite int_to_nz_spec, cc_true_choice by assumption. reflexivity. Qed.
Lemma tbl_int_to_odd : tbl_ok "int.to_odd".
Proof. int1. rewrite int_to_odd_spec, cc_true_choice by assumption. reflexivity. Qed.
Lemma tbl_int_select : tbl_ok "int.select".
Proof. bin2. rewrite carg_b2z, ct_select_limbs_spec by assumption. reflexivity. Qed.
Lemma tbl_int_swap : tbl_ok "int.swap".
Proof. bin2. rewrite carg_b2z, ct_swap_limbs_spec by assumption. reflexivity. Qed.
Lemma tbl_int_neg_if : tbl_ok "int.neg_if".
Proof.
  un1. rewrite ccarg_choice. destruct (uint_neg_if_spec (arg 0 a) (cbit 1 a) W0) as (E & W & L).
  unfold sp_val, sev, ln. rewrite seval_mod. f_equal. f_equal. apply to_limbs_of_eval; assumption.
Qed.
Lemma tbl_int_hash : tbl_ok "int.hash".
Proof.
  int2. int_order a. unfold uint_ct_eq. rewrite Eeq, to_choice_choice, negb_b2z_eqb0. unfold vhash.
  apply vhash_in_ok. intros E.
  rewrite uint_eq_spec in Eeq by assumption. apply (f_equal cc_true) in Eeq. rewrite !cc_true_choice in Eeq.
  rewrite <- Eeq in E. apply Z.eqb_eq in E. rewrite (eval_inj _ _ W0 W1 Hl E). reflexivity.
Qed.
Lemma tbl_int_abs_sign : tbl_ok "int.abs_sign".
Proof.
  int1. destruct (int_abs_sign (arg 0 a)) as [m sg] eqn:E.
  destruct (int_abs_sign_spec _ _ _ W0 Hne E) as (-> & Em & Wm & Lm). rewrite cc_true_choice. unfold ln.
  f_equal. f_equal. apply to_limbs_unique; auto. rewrite Em. symmetry. apply Z.mod_small.
  pose proof (eval_bounds m Wm) as Hb. rewrite Em, Lm in Hb. exact Hb.
Qed.
Lemma tbl_int_new_from_abs_sign : tbl_ok "int.new_from_abs_sign".
Proof.
  start. apply int_def_iff in Hty. destruct Hty as [Hne Hl].
  pose proof (wf_arg 0 a Hwf) as W0. pose proof (wf_arg 2 a Hwf) as W2. rewrite ccarg_choice. unfold ev, ln.
  destruct (int_new_from_abs_sign (arg 0 a) (choice_of_bool (cbit 1 a))) as [v fits] eqn:E.
  destruct (int_new_from_abs_sign_spec _ _ _ _ W0 Hne E) as (-> & Wv & Lv & Ev & _). cbv zeta.
  set (s := if cbit 1 a then - eval (arg 0 a) else eval (arg 0 a)) in *.
  rewrite cc_not_choice, !cc_true_choice, uint_select_spec by (auto; congruence).
  rewrite <- (to_limbs_of_eval v (length (arg 0 a)) s Wv Lv Ev).
  unfold spec_select. destruct (_ && _)%bool; reflexivity.
Qed.
Lemma tbl_int_new_from_abs_sign_expect : tbl_ok "int.new_from_abs_sign_expect".
Proof.
  int1. rewrite ccarg_choice. unfold ev, ln.
  destruct (int_new_from_abs_sign (arg 0 a) (choice_of_bool (cbit 1 a))) as [v fits] eqn:E.
  destruct (int_new_from_abs_sign_spec _ _ _ _ W0 Hne E) as (-> & Wv & Lv & Ev & _). cbv zeta.
  set (s := if cbit 1 a then - eval (arg 0 a) else eval (arg 0 a)) in *.
  rewrite cc_true_choice. rewrite <- (to_limbs_of_eval v (length (arg 0 a)) s Wv Lv Ev).
  destruct (_ && _)%bool; reflexivity.
Qed.

(* ================================================================== BoxedUint (any two precisions) *)
Ltac box2 :=
  start;
  let W0 := fresh "W0" in let W1 := fresh "W1" in
  match goal with Hwf : wf_args ?a |- _ =>
    pose proof (wf_arg 0 a Hwf) as W0; pose proof (wf_arg 1 a Hwf) as W1; unfold ev
  end.

Lemma tbl_boxed_ct_eq : tbl_ok "boxed.ct_eq".
Proof. box2. rewrite boxed_ct_eq_spec by assumption. reflexivity. Qed.
Lemma tbl_boxed_ct_lt : tbl_ok "boxed.ct_lt".
Proof. box2. rewrite boxed_ct_lt_spec by assumption. reflexivity. Qed.
Lemma tbl_boxed_ct_gt : tbl_ok "boxed.ct_gt".
Proof. box2. rewrite boxed_ct_gt_spec by assumption. reflexivity. Qed.
Lemma tbl_boxed_cmp : tbl_ok "boxed.cmp".
Proof. box2. rewrite boxed_cmp_spec by assumption. reflexivity. Qed.
Lemma tbl_boxed_lt : tbl_ok "boxed.lt".
Proof. box2. rewrite boxed_cmp_spec by assumption. unfold vrel. rewrite is_lt_ordz. reflexivity. Qed.
Lemma tbl_boxed_le : tbl_ok "boxed.le".
Proof. box2. rewrite boxed_cmp_spec by assumption. unfold vrel. rewrite is_le_ordz. reflexivity. Qed.
Lemma tbl_boxed_gt : tbl_ok "boxed.gt".
Proof. box2. rewrite boxed_cmp_spec by assumption. unfold vrel. rewrite is_gt_ordz. reflexivity. Qed.
Lemma tbl_boxed_ge : tbl_ok "boxed.ge".
Proof. box2. rewrite boxed_cmp_spec by assumption. unfold vrel. rewrite is_ge_ordz. reflexivity. Qed.
Lemma tbl_boxed_cmp_vartime : tbl_ok "boxed.cmp_vartime".
Proof. box2. rewrite boxed_cmp_vartime_spec by assumption. reflexivity. Qed.
Lemma tbl_boxed_is_zero : tbl_ok "boxed.is_zero".
Proof. un1. rewrite boxed_is_zero_spec by assumption. reflexivity. Qed.
Lemma tbl_boxed_is_nonzero : tbl_ok "boxed.is_nonzero".
Proof. un1. rewrite boxed_is_nonzero_spec by assumption. reflexivity. Qed.
Lemma tbl_boxed_is_one : tbl_ok "boxed.is_one".
Proof. un1. rewrite boxed_is_one_spec by assumption. reflexivity. Qed.
Lemma tbl_boxed_is_odd : tbl_ok "boxed.is_odd".
Proof. un1. rewrite integer_is_odd_spec by assumption. reflexivity. Qed.
Lemma tbl_boxed_is_even : tbl_ok "boxed.is_even".
Proof. un1. rewrite integer_is_odd_spec, ch_not_b2z, Z.negb_odd by assumption. reflexivity. Qed.
Lemma tbl_boxed_to_odd : tbl_ok "boxed.to_odd".
Proof. un1. rewrite integer_is_odd_spec, negb_b2z_eqb0 by assumption. reflexivity. Qed.
Lemma tbl_boxed_nz_new : tbl_ok "boxed.nz_new".
Proof. un1. rewrite boxed_is_zero_spec, ch_not_b2z, negb_b2z_eqb0 by assumption. reflexivity. Qed.
(* ct_select / ct_assign / ct_swap: under the documented equal-precision condition (both profiles) *)
Lemma tbl_boxed_select : tbl_ok "boxed.select".
Proof. bin2. rewrite carg_b2z, boxed_ct_select_partial by assumption. reflexivity. Qed.
Lemma tbl_boxed_swap : tbl_ok "boxed.swap".
Proof. bin2. rewrite carg_b2z, boxed_ct_swap_partial by assumption. reflexivity. Qed.
Lemma tbl_boxed_conditional_negate : tbl_ok "boxed.conditional_negate".
Proof.
  un1. rewrite carg_b2z. destruct (boxed_conditional_negate_spec (arg 0 a) (cbit 1 a) W0) as (E & W & L).
  unfold sp_neg_if, ln, ev. apply neg_if_limbs; assumption.
Qed.
Lemma tbl_boxed_hash : tbl_ok "boxed.hash".
Proof.
  box2. pose proof (boxed_eq_iff_hash _ _ W0 W1) as [H _]. rewrite boxed_ct_eq_spec in * by assumption.
  rewrite negb_b2z_eqb0. apply vhash_in_ok. intros E. apply H. rewrite E. reflexivity.
Qed.

(** ... and for operands of different precision the release-profile entries differ (open finding F16: ct_select
    returns a truncated operand, ct_swap a mixture), while the debug profile panics on the debug assertion *)
Lemma tbl_boxed_select_refuted : exists a, wf_args a /\ cmp_typed "boxed.select" a = false /\
  M "boxed.select" false a = Val [[2]] /\ S "boxed.select" false a = Val [[2; 3]] /\
  M "boxed.select" true a = PanicV.
Proof.
  exists [[1]; [2; 3]; [1]]. split; [unfold wf_args; repeat (apply Forall_cons; [wf_by_compute|]); apply Forall_nil|].
  repeat split; vm_compute; reflexivity.
Qed.
Lemma tbl_boxed_swap_refuted : exists a, wf_args a /\ cmp_typed "boxed.swap" a = false /\
  M "boxed.swap" false a = Val [[2]; [1; 3]] /\ S "boxed.swap" false a = Val [[2; 3]; [1]] /\
  M "boxed.swap" true a = PanicV.
Proof.
  exists [[1]; [2; 3]; [1]]. split; [unfold wf_args; repeat (apply Forall_cons; [wf_by_compute|]); apply Forall_nil|].
  repeat split; vm_compute; reflexivity.
Qed.

(* ================================================================== the area theorem *)
#[export] Hint Resolve
  tbl_limb_ct_eq tbl_limb_ct_ne tbl_limb_eq_vartime tbl_limb_ct_lt tbl_limb_ct_gt tbl_limb_cmp tbl_limb_lt
  tbl_limb_le tbl_limb_gt tbl_limb_ge tbl_limb_cmp_vartime tbl_limb_is_zero tbl_limb_is_one tbl_limb_is_odd
  tbl_limb_to_nz tbl_limb_nz_new_unwrap tbl_limb_select tbl_limb_swap tbl_limb_conditional_negate tbl_limb_hash
  tbl_uint_ct_eq tbl_uint_ct_lt tbl_uint_ct_gt tbl_uint_cmp tbl_uint_lt tbl_uint_le tbl_uint_gt tbl_uint_ge
  tbl_uint_cmp_vartime tbl_uint_is_zero tbl_uint_is_one tbl_uint_is_odd tbl_uint_is_even tbl_uint_to_nz
  tbl_uint_to_odd tbl_uint_nz_new tbl_uint_odd_new tbl_uint_select tbl_uint_swap tbl_uint_neg_if
  tbl_uint_conditional_negate tbl_uint_hash tbl_uint_ctopt tbl_uint_ctopt_expect
  tbl_int_ct_eq tbl_int_ct_lt tbl_int_ct_gt tbl_int_cmp tbl_int_lt tbl_int_le tbl_int_gt tbl_int_ge
  tbl_int_cmp_vartime tbl_int_is_zero tbl_int_is_one tbl_int_is_negative tbl_int_is_positive tbl_int_is_min
  tbl_int_is_max tbl_int_to_nz tbl_int_to_odd tbl_int_select tbl_int_swap tbl_int_neg_if tbl_int_hash
  tbl_int_abs_sign tbl_int_new_from_abs_sign tbl_int_new_from_abs_sign_expect
  tbl_boxed_ct_eq tbl_boxed_ct_lt tbl_boxed_ct_gt tbl_boxed_cmp tbl_boxed_lt tbl_boxed_le tbl_boxed_gt
  tbl_boxed_ge tbl_boxed_cmp_vartime tbl_boxed_is_zero tbl_boxed_is_nonzero tbl_boxed_is_one tbl_boxed_is_odd
  tbl_boxed_is_even tbl_boxed_to_odd tbl_boxed_nz_new tbl_boxed_select tbl_boxed_swap
  tbl_boxed_conditional_negate tbl_boxed_hash : c06tbl.

(* [cmp_keys] (Proofs/TotalityP.v) is the WHOLE key set of the two tables *)
Lemma cmp_keys_whole : forall k, In k cmp_keys <-> In k (map fst ops_cmp_model).
Proof.
  assert (H1 : sublist cmp_keys (map fst ops_cmp_model) = true) by (vm_compute; reflexivity).
  assert (H2 : sublist (map fst ops_cmp_model) cmp_keys = true) by (vm_compute; reflexivity).
  intros k. split; [apply (sublist_In _ _ H1) | apply (sublist_In _ _ H2)].
Qed.
Fixpoint nodupb (l : list string) : bool :=
  match l with [] => true | x :: r => negb (mem_str x r) && nodupb r end.
Lemma nodupb_NoDup l : nodupb l = true -> NoDup l.
Proof.
  induction l as [|x r IH]; intros H; [constructor|]. cbn [nodupb] in H. apply andb_prop in H. destruct H as [H1 H2].
  constructor; [|apply IH; exact H2]. intros Hin. apply negb_true_iff in H1.
  assert (E : mem_str x r = true); [|congruence].
  unfold mem_str. apply existsb_exists. exists x. split; [exact Hin | apply String.eqb_refl].
Qed.
Lemma cmp_keys_same_tables : map fst ops_cmp_model = map fst ops_cmp_spec /\ List.length cmp_keys = 88%nat /\
  NoDup cmp_keys.
Proof.
  split; [reflexivity|]. split; [reflexivity|]. apply nodupb_NoDup. vm_compute. reflexivity.
Qed.

Lemma cmp_all_keys_ok : forall k, In k cmp_keys -> tbl_ok k.
Proof.
  intros k Hin. unfold cmp_keys, cmp_quiet_keys, cmp_panic_keys in Hin. cbn [app In] in Hin.
  repeat (destruct Hin as [<- | Hin]; [solve [eauto with nocore c06tbl] |]). contradiction.
Qed.

Theorem cmp_tables_agree : forall k dbg a, In k cmp_keys -> wf_args a -> cmp_typed k a = true ->
  run_tab ops_cmp_spec k dbg a <> Unsupported ->
  run_tab ops_cmp_model k dbg a = run_tab ops_cmp_spec k dbg a.
Proof. intros k dbg a Hin Hwf Hty _. exact (cmp_all_keys_ok k Hin dbg a Hwf Hty). Qed.

(* the spec table is defined on every argument list: no input of this area is outside the documented domain *)
Lemma cmp_spec_total : forall k dbg a, In k cmp_keys -> run_tab ops_cmp_spec k dbg a <> Unsupported.
Proof.
  intros k dbg a Hin. unfold cmp_keys, cmp_quiet_keys, cmp_panic_keys in Hin. cbn [app In] in Hin.
  repeat (destruct Hin as [<- | Hin]; [open_tabs ops_cmp_model ops_cmp_spec; nu |]). contradiction.
Qed.

(* the typing side conditions speak about limb counts only: two argument lists with the same shape (the same list
   of limb counts) are typed alike, so no condition on a VALUE is hidden in [cmp_typed] *)
Definition shape (a : list (list Z)) : list nat := map (@List.length Z) a.
Lemma ln_shape i a b : shape a = shape b -> ln i a = ln i b.
Proof.
  intros H. unfold ln, arg. change (List.length (nth i a [])) with (@List.length Z (nth i a [])).
  rewrite <- !(map_nth (@List.length Z)). fold (shape a) (shape b). rewrite H. reflexivity.
Qed.
Lemma cmp_typed_shape_only k a b : shape a = shape b -> cmp_typed k a = cmp_typed k b.
Proof.
  intros H.
  assert (F : Forall (fun kp : string * tyb => snd kp a = snd kp b) cmp_tbl_ty).
  { unfold cmp_tbl_ty.
    repeat (apply Forall_cons;
      [cbn [snd]; unfold limb_1, limb_2, int_2, int_def, nonempty, same_n;
       rewrite ?(ln_shape 0 a b H), ?(ln_shape 1 a b H), ?(ln_shape 2 a b H); reflexivity|]).
    apply Forall_nil. }
  unfold cmp_typed. induction F as [|[k' P] r HP _ IH]; [reflexivity|].
  cbn [lookup]. destruct (String.eqb k k'); [exact HP | exact IH].
Qed.
