(** C16 proofs, part 5: copy loops (resize, Int::resize, concat, split) and primitive conversions. *)
From CB Require Import Model.Limbs Model.Conv Proofs.WordP Proofs.LimbsP Proofs.ConvDigitsP.
From Coq Require Import ZArith Lia List Bool.
Import ListNotations.
Open Scope Z_scope.
Open Scope list_scope.

(* ---- index loops over a list ---- *)
Lemma map_nth_seq a : forall m, (m <= length a)%nat -> map (nthz a) (seq 0 m) = firstn m a.
Proof.
  induction a as [|x a IH]; intros m Hm.
  - destruct m; [reflexivity | cbn in Hm; lia].
  - destruct m; [reflexivity|]. cbn [length] in Hm. cbn [seq map firstn]. f_equal.
    rewrite <- seq_shift, map_map. rewrite <- IH by lia. apply map_ext. intros i. reflexivity.
Qed.

Lemma seq_add_map len : forall s L, map (fun j => (j + L)%nat) (seq s len) = seq (s + L) len.
Proof. induction len; intros s L; cbn [seq map]; [reflexivity|]. f_equal. apply (IHlen (S s) L). Qed.

Lemma nth_skipn_add L : forall (a : list Z) j, nth (j + L) a 0 = nth j (skipn L a) 0.
Proof.
  induction L as [|L IH]; intros a j.
  - rewrite Nat.add_0_r. reflexivity.
  - destruct a as [|x a]; [destruct j; reflexivity|]. rewrite Nat.add_succ_r. cbn [nth skipn]. apply IH.
Qed.

Lemma map_nth_seq_shift a L k : (L + k <= length a)%nat ->
  map (fun j => nthz a (j + L)) (seq 0 k) = firstn k (skipn L a).
Proof.
  intros H. rewrite <- map_nth_seq by (rewrite skipn_length; lia).
  apply map_ext. intros j. unfold nthz. apply nth_skipn_add.
Qed.

Lemma wf_repeat x k : is_word x -> wf (repeat x k).
Proof. intros H. unfold wf. apply Forall_forall. intros y Hy. apply repeat_spec in Hy. subst. assumption. Qed.
Lemma eval_repeat_MAXW k : eval (repeat MAXW k) = Bn k - 1.
Proof.
  induction k; cbn [repeat eval]; [rewrite Bn_0; reflexivity|].
  rewrite IHk, Bn_S, MAXW_val. ring.
Qed.
Lemma is_word_0 : is_word 0. Proof. unfold is_word. pose proof B_pos. lia. Qed.
Lemma is_word_MAXW : is_word MAXW. Proof. unfold is_word. pose proof B_gt1. rewrite MAXW_val. lia. Qed.

(* ---- Uint::resize ---- *)
Lemma uint_resize_spec a t : wf a ->
  wf (uint_resize a t) /\ length (uint_resize a t) = t /\ eval (uint_resize a t) = eval a mod Bn t.
Proof.
  intros Hw. unfold uint_resize, tabulate_fill. rewrite map_nth_seq by lia.
  fold (zeros (t - Nat.min t (length a))).
  split; [apply wf_app; split; [apply wf_firstn; assumption | apply wf_zeros]|].
  split; [rewrite app_length, firstn_length, length_zeros; lia|].
  rewrite eval_app, eval_zeros, Z.mul_0_r, Z.add_0_r.
  destruct (Nat.le_gt_cases t (length a)) as [Hle|Hgt].
  - rewrite Nat.min_l by assumption. apply eval_firstn; assumption.
  - rewrite Nat.min_r by lia. rewrite firstn_all. symmetry. apply Z.mod_small.
    pose proof (eval_bounds a Hw). pose proof (Bn_le (length a) t ltac:(lia)). lia.
Qed.

(* ---- Int: sign ---- *)
Lemma int_is_negative_spec a : wf a -> (1 <= length a)%nat ->
  int_is_negative a = choice_of_bool (Bn (length a) <=? 2 * eval a).
Proof.
  intros Hw Hn. destruct (exists_last (l := a)) as (init & top & ->); [intros ->; cbn in Hn; lia|].
  apply wf_app in Hw. destruct Hw as [Hwi Hwt]. apply wf_cons in Hwt. destruct Hwt as [Ht _].
  unfold int_is_negative. rewrite last_last. rewrite eval_app, app_length. cbn [eval length].
  rewrite Z.mul_0_r, Z.add_0_r, Nat.add_1_r, Bn_S.
  pose proof (eval_bounds init Hwi) as Hb. pose proof (Bn_pos (length init)) as Hp.
  unfold is_word in Ht. word_facts.
  unfold from_word_msb.
  assert (Hd : top / 2 ^ 63 = if 2 ^ 63 <=? top then 1 else 0).
  { destruct (Z.leb_spec (2 ^ 63) top).
    - apply (proj1 (div_mod_unique_pos (2 ^ 63) 1 (top - 2 ^ 63) top ltac:(lia) ltac:(lia))).
    - apply Z.div_small. lia. }
  rewrite Hd. rewrite (from_word_lsb_bool (2 ^ 63 <=? top)). f_equal.
  destruct (Z.leb_spec (2 ^ 63) top) as [Hge|Hlt].
  - assert (Bn (length init) * 2 ^ 63 <= Bn (length init) * top) by (apply Z.mul_le_mono_nonneg_l; lia).
    destruct (Z.leb_spec (B * Bn (length init)) (2 * (eval init + Bn (length init) * top))); [reflexivity | nia].
  - assert (Bn (length init) * top <= Bn (length init) * (2 ^ 63 - 1)) by (apply Z.mul_le_mono_nonneg_l; lia).
    destruct (Z.leb_spec (B * Bn (length init)) (2 * (eval init + Bn (length init) * top))); [nia | reflexivity].
Qed.

(** Int::resize: the result is the signed value modulo 2^(64 t): sign extension when widening (the value
    is preserved), truncation of the two's complement pattern when narrowing *)
Lemma int_resize_spec a t : wf a -> (1 <= length a)%nat ->
  wf (int_resize a t) /\ length (int_resize a t) = t /\ eval (int_resize a t) = seval a mod Bn t.
Proof.
  intros Hw Hn. unfold int_resize, tabulate_fill. rewrite map_nth_seq by lia.
  rewrite int_is_negative_spec by assumption.
  rewrite select_word_choice by (apply is_word_0 || apply is_word_MAXW).
  set (neg := Bn (length a) <=? 2 * eval a).
  set (fill := if neg then MAXW else 0).
  assert (Hf : is_word fill) by (unfold fill; destruct neg; [apply is_word_MAXW | apply is_word_0]).
  split; [apply wf_app; split; [apply wf_firstn; assumption | apply wf_repeat; assumption]|].
  split; [rewrite app_length, firstn_length, repeat_length; lia|].
  pose proof (eval_bounds a Hw) as Hb.
  assert (Hs : seval a = if neg then eval a - Bn (length a) else eval a).
  { unfold seval, neg. destruct (Z.ltb_spec (2 * eval a) (Bn (length a))); destruct (Z.leb_spec (Bn (length a)) (2 * eval a)); (reflexivity || lia). }
  rewrite eval_app, Hs.
  destruct (Nat.le_gt_cases t (length a)) as [Hle|Hgt].
  - rewrite Nat.min_l, Nat.sub_diag by assumption. cbn [repeat eval]. rewrite Z.mul_0_r, Z.add_0_r.
    rewrite eval_firstn by assumption. destruct neg; [|reflexivity].
    assert (Hn' : Bn (length a) = Bn t * Bn (length a - t)) by (rewrite <- Bn_add; f_equal; lia).
    rewrite Hn'.
    replace (eval a - Bn t * Bn (length a - t)) with (eval a + (- Bn (length a - t)) * Bn t) by ring.
    rewrite Z_mod_plus_full. reflexivity.
  - rewrite Nat.min_r by lia. rewrite firstn_all.
    pose proof (Bn_le (length a) t ltac:(lia)) as Hle.
    assert (Ht : Bn t = Bn (length a) * Bn (t - length a)).
    { rewrite <- Bn_add. f_equal. lia. }
    unfold fill. destruct neg.
    + rewrite eval_repeat_MAXW.
      apply (Z.mod_unique_pos _ _ (-1) (eval a + Bn (length a) * (Bn (t - length a) - 1))); [nia|]. rewrite Ht. ring.
    + fold (zeros (t - length a)). rewrite eval_zeros, Z.mul_0_r, Z.add_0_r. symmetry. apply Z.mod_small. lia.
Qed.

(* ---- concat / split ---- *)
Lemma uint_concat_mixed_app lo hi : uint_concat_mixed lo hi (length lo + length hi) = lo ++ hi.
Proof.
  unfold uint_concat_mixed, tabulate_fill. rewrite Nat.min_id, Nat.sub_diag. cbn [repeat]. rewrite app_nil_r.
  rewrite seq_app, map_app. f_equal.
  - transitivity (firstn (length lo) lo); [|apply firstn_all]. rewrite <- map_nth_seq by lia. apply map_ext_in. intros i Hi.
    apply in_seq in Hi. destruct (Nat.ltb_spec i (length lo)); [reflexivity | lia].
  - rewrite <- (seq_add_map (length hi) 0 (length lo)), map_map.
    transitivity (firstn (length hi) hi); [|apply firstn_all]. rewrite <- map_nth_seq by lia. apply map_ext. intros j.
    destruct (Nat.ltb_spec (j + length lo) (length lo)); [lia|]. f_equal. lia.
Qed.

Lemma uint_split_mixed_eq a l : (l <= length a)%nat ->
  uint_split_mixed a l (length a - l) = (firstn l a, skipn l a).
Proof.
  intros Hl. unfold uint_split_mixed, tabulate_fill.
  replace (Nat.min (l + (length a - l)) (length a)) with (length a) by lia.
  replace (Nat.min (length a) l) with l by lia. rewrite !Nat.sub_diag. cbn [repeat]. rewrite !app_nil_r.
  rewrite map_nth_seq by lia. rewrite map_nth_seq_shift by lia.
  f_equal. apply firstn_all2. rewrite skipn_length. lia.
Qed.

Lemma firstn_skipn_eval a l : wf a -> (l <= length a)%nat ->
  eval (firstn l a) = eval a mod Bn l /\ eval (skipn l a) = eval a / Bn l.
Proof.
  intros Hw Hl. pose proof (eval_firstn_skipn l a) as E. rewrite firstn_length_le in E by assumption.
  pose proof (eval_bounds _ (wf_firstn l a Hw)) as Hb. rewrite firstn_length_le in Hb by assumption.
  destruct (div_mod_unique_pos (Bn l) (eval (skipn l a)) (eval (firstn l a)) (eval a) Hb ltac:(lia)) as [-> ->].
  split; reflexivity.
Qed.

(* ---- primitives ---- *)
Lemma MAXW_ones : MAXW = Z.ones 64.
Proof. rewrite MAXW_val, B_val. reflexivity. Qed.
Lemma land_MAXW_mod v : Z.land v MAXW = v mod B.
Proof. rewrite MAXW_ones, Z.land_ones by lia. rewrite B_val. reflexivity. Qed.

Lemma uint_from_small_spec n v r : is_word v -> uint_from_small n v = Some r ->
  (1 <= n)%nat /\ wf r /\ length r = n /\ eval r = v.
Proof.
  intros Hv. destruct n; [discriminate|]. cbn [uint_from_small]. intros E. injection E as <-.
  split; [lia|]. split; [apply wf_cons; split; [assumption | apply wf_zeros]|].
  split; [cbn [length]; rewrite length_zeros; reflexivity|]. cbn [eval]. rewrite eval_zeros. lia.
Qed.

Lemma uint_from_u128_spec n v r : 0 <= v < B * B -> uint_from_u128 n v = Some r ->
  (2 <= n)%nat /\ wf r /\ length r = n /\ eval r = v.
Proof.
  intros Hv. unfold uint_from_u128. destruct (Nat.ltb_spec n 2); [discriminate|]. intros E. injection E as <-.
  pose proof B_pos. rewrite land_MAXW_mod.
  pose proof (Z.div_mod v B ltac:(lia)). pose proof (Z.mod_pos_bound v B ltac:(lia)).
  assert (0 <= v / B < B) by (split; [apply Z.div_pos; lia | apply Z.div_lt_upper_bound; lia]).
  split; [assumption|]. split; [apply wf_cons; split; [assumption | apply wf_cons; split; [assumption | apply wf_zeros]]|].
  split; [cbn [length]; rewrite length_zeros; lia|]. cbn [eval]. rewrite eval_zeros. lia.
Qed.
Lemma uint_from_u128_panics n v : uint_from_u128 n v = None <-> (n < 2)%nat.
Proof. unfold uint_from_u128. destruct (Nat.ltb_spec n 2); split; intros; (reflexivity || discriminate || lia). Qed.

Lemma lor_shift_add hi lo k : 0 <= k -> 0 <= lo < 2 ^ k -> Z.lor (hi * 2 ^ k) lo = hi * 2 ^ k + lo.
Proof.
  intros Hk Hlo.
  assert (L : Z.land (hi * 2 ^ k) lo = 0); [|rewrite (Z.add_nocarry_lxor _ _ L); symmetry; apply Z.lxor_lor; exact L].
  rewrite <- Z.shiftl_mul_pow2 by assumption.
  apply Z.bits_inj'. intros i Hi. rewrite Z.land_spec, Z.bits_0.
  destruct (Z.lt_ge_cases i k).
  - rewrite Z.shiftl_spec_low by assumption. reflexivity.
  - destruct (Z.eq_dec lo 0) as [->|]; [rewrite Z.bits_0; apply andb_false_r|].
    assert (2 ^ k <= 2 ^ i) by (apply Z.pow_le_mono_r; lia).
    assert (Z.log2 lo < i) by (apply Z.log2_lt_pow2; lia).
    rewrite (Z.bits_above_log2 lo i) by lia. apply andb_false_r.
Qed.

(** From<U128> for u128: the limbs are reassembled to lo + 2^64 hi *)
Lemma u128_of_limbs_spec lo hi : is_word lo -> is_word hi -> u128_of_limbs [lo; hi] = lo + B * hi.
Proof.
  unfold is_word, u128_of_limbs, nthz. cbn [nth]. intros Hlo Hhi. rewrite BB_val.
  pose proof B_pos. rewrite Z.mod_small by nia. rewrite B_val in *. rewrite lor_shift_add by lia. ring.
Qed.

Lemma seval_word w sv : - 2 ^ 63 <= sv < 2 ^ 63 -> w = sv mod B -> seval [w] = sv.
Proof.
  intros Hs ->. word_facts. unfold seval. cbn [eval length]. rewrite Bn_1, Z.mul_0_r, Z.add_0_r.
  destruct (Z_lt_ge_dec sv 0).
  - assert (E : sv mod B = sv + B) by (symmetry; apply (Z.mod_unique_pos sv B (-1) (sv + B)); lia).
    rewrite E. destruct (Z.ltb_spec (2 * (sv + B)) B); lia.
  - rewrite Z.mod_small by lia. destruct (Z.ltb_spec (2 * sv) B); lia.
Qed.

Lemma sp_signed_range k v : 1 <= k -> 0 <= v < 2 ^ k -> - 2 ^ (k - 1) <= sp_signed k v < 2 ^ (k - 1).
Proof.
  intros Hk Hv.
  assert (E : 2 ^ k = 2 * 2 ^ (k - 1)).
  { replace k with (Z.succ (k - 1)) at 1 by lia. apply Z.pow_succ_r. lia. }
  unfold sp_signed. destruct (Z.ltb_spec v (2 ^ (k - 1))); lia.
Qed.

(** from_i8 .. from_i64: the signed value in two's complement at the target width *)
Lemma int_from_small_spec k n v r : 1 <= k <= 64 -> 0 <= v < 2 ^ k -> int_from_small k n v = Some r ->
  (1 <= n)%nat /\ wf r /\ length r = n /\ eval r = sp_signed k v mod Bn n.
Proof.
  intros Hk Hv. destruct n; [discriminate|]. cbn [int_from_small]. intros E. injection E as <-.
  pose proof (sp_signed_range k v ltac:(lia) Hv) as Hr.
  assert (Hp : 2 ^ (k - 1) <= 2 ^ 63) by (apply Z.pow_le_mono_r; lia).
  assert (Hw : wf [sext_word k v]).
  { apply wf_cons. split; [|apply wf_nil]. unfold sext_word. apply is_word_mod. }
  destruct (int_resize_spec [sext_word k v] (S n) Hw ltac:(cbn; lia)) as (H1 & H2 & H3).
  split; [lia|]. split; [assumption|]. split; [assumption|].
  rewrite H3. f_equal. apply seval_word; [lia|]. reflexivity.
Qed.

(** from_i128: asserts LIMBS >= 2; then the signed 128-bit value in two's complement at the target width *)
Lemma int_from_i128_spec n v r : 0 <= v < 2 ^ 128 -> int_from_i128 n v = Some r ->
  (2 <= n)%nat /\ wf r /\ length r = n /\ eval r = sp_signed 128 v mod Bn n.
Proof.
  intros Hv. unfold int_from_i128. destruct (Nat.ltb_spec n 2); [discriminate|]. intros E. injection E as <-.
  rewrite land_MAXW_mod.
  pose proof B_pos. pose proof B_val as HB.
  assert (HBB : B * B = 2 ^ 128) by (rewrite HB; reflexivity).
  pose proof (Z.div_mod v B ltac:(lia)). pose proof (Z.mod_pos_bound v B ltac:(lia)).
  assert (0 <= v / B < B) by (split; [apply Z.div_pos; lia | apply Z.div_lt_upper_bound; lia]).
  assert (Hw : wf [v mod B; v / B]).
  { apply wf_cons; split; [assumption | apply wf_cons; split; [assumption | apply wf_nil]]. }
  destruct (int_resize_spec [v mod B; v / B] n Hw ltac:(cbn; lia)) as (R1 & R2 & R3).
  split; [assumption|]. split; [assumption|]. split; [assumption|]. rewrite R3. f_equal.
  unfold seval, sp_signed. cbn [eval length]. rewrite Bn_S, Bn_1, Z.mul_0_r, Z.add_0_r, HBB.
  replace (v mod B + B * (v / B)) with v by lia.
  change (2 ^ (128 - 1)) with (2 ^ 127). change (2 ^ 128) with (2 * 2 ^ 127).
  destruct (Z.ltb_spec (2 * v) (2 * 2 ^ 127)); destruct (Z.ltb_spec v (2 ^ 127)); (reflexivity || lia).
Qed.
Lemma int_from_i128_panics n v : int_from_i128 n v = None <-> (n < 2)%nat.
Proof. unfold int_from_i128. destruct (Nat.ltb_spec n 2); split; intros; (reflexivity || discriminate || lia). Qed.

(** for a value that the target can hold, the signed value is preserved exactly *)
Lemma int_from_i128_value n v r : 0 <= v < 2 ^ 128 -> int_from_i128 n v = Some r -> seval r = sp_signed 128 v.
Proof.
  intros Hv E. destruct (int_from_i128_spec n v r Hv E) as (Hn & Hw & Hl & He).
  pose proof (sp_signed_range 128 v ltac:(lia) Hv) as Hr. change (128 - 1) with 127 in Hr.
  pose proof (Bn_le 2 n Hn) as Hle. rewrite Bn_S, Bn_1 in Hle. pose proof B_val as HB.
  assert (HBB : B * B = 2 * 2 ^ 127) by (rewrite HB; reflexivity).
  pose proof (Bn_pos n).
  unfold seval. rewrite Hl, He.
  destruct (Z_lt_ge_dec (sp_signed 128 v) 0).
  - assert (E' : sp_signed 128 v mod Bn n = sp_signed 128 v + Bn n)
      by (symmetry; apply (Z.mod_unique_pos _ _ (-1)); lia).
    rewrite E'. destruct (Z.ltb_spec (2 * (sp_signed 128 v + Bn n)) (Bn n)); lia.
  - rewrite Z.mod_small by lia. destruct (Z.ltb_spec (2 * sp_signed 128 v) (Bn n)); lia.
Qed.
