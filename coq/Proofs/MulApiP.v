(** C03 proofs, part 5: the API level. Every entry of the model op table equals the specification entry
    (plain arithmetic on the represented integers) on all well-formed inputs. *)
From CB Require Import Model.Limbs Model.AddSub Model.Mul Proofs.WordP Proofs.LimbsP Proofs.AddSubP
  Proofs.MulBaseP Proofs.MulSqP Proofs.MulKaraP Proofs.MulBoxedP.
From Coq Require Import ZArith Lia String List.
Open Scope Z_scope.

Definition op_of (t : list (string * opfn)) (name : string) : opfn :=
  match lookup name t with Some f => f | None => fun _ _ => Unsupported end.

(* ---------------- generic facts about a (lo, hi) pair representing P ---------------- *)
Definition wide (lo hi : list Z) (n m : nat) (P : Z) : Prop :=
  wf lo /\ wf hi /\ length lo = n /\ length hi = m /\ eval lo + Bn n * eval hi = P.

Lemma all_zero_iff l : wf l -> (all_zero l = true <-> eval l = 0).
Proof.
  induction l as [|x l IH]; intros Hl.
  - cbn. tauto.
  - apply wf_cons in Hl. destruct Hl as [Hx Hl]. specialize (IH Hl).
    pose proof (eval_nonneg l Hl) as Hn. unfold is_word in Hx. pose proof B_gt1 as HB.
    unfold all_zero in *. cbn [forallb eval]. rewrite andb_true_iff, Z.eqb_eq, IH.
    split.
    + intros [-> ->]. lia.
    + intros H. assert (0 <= B * eval l) by (apply Z.mul_nonneg_nonneg; lia).
      assert (eval l = 0) by nia. split; lia.
Qed.

Lemma wide_divmod lo hi n m P : wide lo hi n m P ->
  eval lo = P mod Bn n /\ eval hi = P / Bn n /\ 0 <= P < Bn (n + m) /\ 0 <= eval hi < Bn m.
Proof.
  intros (Hl & Hh & Ln & Lm & E).
  pose proof (eval_bounds lo Hl) as Bl. pose proof (eval_bounds hi Hh) as Bh. rewrite Ln in Bl. rewrite Lm in Bh.
  destruct (div_mod_unique_pos (Bn n) (eval hi) (eval lo) P Bl ltac:(lia)) as [Q R].
  pose proof (Bn_pos n). pose proof (Bn_pos m).
  split; [auto|]. split; [auto|]. split; [|assumption]. rewrite Bn_add.
  assert (0 <= Bn n * eval hi <= Bn n * (Bn m - 1))
    by (split; [apply Z.mul_nonneg_nonneg; lia | apply Z.mul_le_mono_nonneg_l; lia]). lia.
Qed.

Lemma wide_lo_limbs lo hi n m P : wide lo hi n m P -> lo = to_limbs n (P mod Bn n).
Proof.
  intros W. destruct (wide_divmod _ _ _ _ _ W) as (A & _). destruct W as (Hl & _ & Ln & _).
  apply to_limbs_unique; auto. pose proof (Bn_pos n). rewrite Z.mod_mod by lia. assumption.
Qed.

Lemma wide_hi_limbs lo hi n m P : wide lo hi n m P -> hi = to_limbs m (P / Bn n).
Proof.
  intros W. destruct (wide_divmod _ _ _ _ _ W) as (_ & A & _ & C). destruct W as (_ & Hh & _ & Lm & _).
  apply to_limbs_unique; auto. rewrite <- A. symmetry. apply Z.mod_small. assumption.
Qed.

Lemma wide_app lo hi n m P : wide lo hi n m P -> lo ++ hi = to_limbs (n + m) P.
Proof.
  intros W. destruct (wide_divmod _ _ _ _ _ W) as (_ & _ & C & _). destruct W as (Hl & Hh & Ln & Lm & E).
  apply to_limbs_unique.
  - apply wf_app; auto.
  - rewrite app_length; lia.
  - rewrite eval_app, Ln, E. symmetry. apply Z.mod_small. assumption.
Qed.

Lemma wide_fits lo hi n m P : wide lo hi n m P -> all_zero hi = sp_fits n P.
Proof.
  intros W. destruct (wide_divmod _ _ _ _ _ W) as (A & A' & C & D). destruct W as (Hl & Hh & Ln & Lm & E).
  pose proof (eval_bounds lo Hl) as Bl. rewrite Ln in Bl. pose proof (Bn_pos n).
  unfold sp_fits. destruct (all_zero hi) eqn:Ez.
  - apply all_zero_iff in Ez; auto. symmetry. apply andb_true_iff. split; [apply Z.leb_le | apply Z.ltb_lt]; lia.
  - symmetry. apply andb_false_iff. right. apply Z.ltb_ge.
    destruct (Z.eq_dec (eval hi) 0) as [Hz|Hz].
    + apply all_zero_iff in Hz; auto. congruence.
    + assert (Bn n * 1 <= Bn n * eval hi) by (apply Z.mul_le_mono_nonneg_l; lia). lia.
Qed.

Lemma wide_lo_fit lo hi n m P : wide lo hi n m P -> sp_fits n P = true -> lo = to_limbs n P.
Proof.
  intros W F. rewrite (wide_lo_limbs _ _ _ _ _ W). f_equal.
  unfold sp_fits in F. apply andb_true_iff in F. destruct F as [F1 F2].
  apply Z.leb_le in F1. apply Z.ltb_lt in F2. apply Z.mod_small. lia.
Qed.

Lemma maxs_limbs n : maxs n = to_limbs n (Bn n - 1).
Proof.
  apply to_limbs_unique; [apply wf_maxs | apply length_maxs|].
  rewrite eval_maxs. symmetry. apply Z.mod_small. pose proof (Bn_pos n). lia.
Qed.

Lemma wide_wrapping lo hi n m P : wide lo hi n m P -> Val [lo] = sp_wrapping n P.
Proof. intros W. unfold sp_wrapping, sp_val. rewrite (wide_lo_limbs _ _ _ _ _ W). reflexivity. Qed.

Lemma wide_checked lo hi n m P : wide lo hi n m P ->
  (if all_zero hi then Val [lo] else NoneV) = sp_checked n P.
Proof.
  intros W. unfold sp_checked. rewrite (wide_fits _ _ _ _ _ W).
  destruct (sp_fits n P) eqn:F; [|reflexivity]. unfold sp_val. rewrite (wide_lo_fit _ _ _ _ _ W F). reflexivity.
Qed.

Lemma wide_panicking lo hi n m P : wide lo hi n m P ->
  (if all_zero hi then Val [lo] else PanicV) = sp_panicking n P.
Proof.
  intros W. unfold sp_panicking. rewrite (wide_fits _ _ _ _ _ W).
  destruct (sp_fits n P) eqn:F; [|reflexivity]. unfold sp_val. rewrite (wide_lo_fit _ _ _ _ _ W F). reflexivity.
Qed.

Lemma wide_saturating lo hi n m P : wide lo hi n m P ->
  Val [if all_zero hi then lo else maxs (length lo)] = sp_saturating n P.
Proof.
  intros W. unfold sp_saturating, sp_val. rewrite (wide_fits _ _ _ _ _ W).
  destruct (wide_divmod _ _ _ _ _ W) as (_ & _ & C & _).
  destruct (sp_fits n P) eqn:F.
  - rewrite (wide_lo_fit _ _ _ _ _ W F). unfold sp_fits in F. apply andb_true_iff in F. destruct F as [F1 F2].
    apply Z.leb_le in F1. rewrite F2. destruct (P <? 0) eqn:Hn; [apply Z.ltb_lt in Hn; lia | reflexivity].
  - unfold sp_fits in F. apply andb_false_iff in F. destruct F as [F|F].
    + apply Z.leb_gt in F. lia.
    + rewrite F. destruct (P <? 0) eqn:Hn; [apply Z.ltb_lt in Hn; lia|].
      destruct W as (_ & _ & -> & _). rewrite maxs_limbs. reflexivity.
Qed.

Lemma wide_split lo hi n m P : wide lo hi n m P ->
  Val [lo; hi] = Val [to_limbs n (P mod Bn n); to_limbs m (P / Bn n)].
Proof. intros W. rewrite <- (wide_lo_limbs _ _ _ _ _ W), <- (wide_hi_limbs _ _ _ _ _ W). reflexivity. Qed.

Lemma wide_widening lo hi n m P : wide lo hi n m P -> Val [lo ++ hi] = sp_val (n + m) P.
Proof. intros W. unfold sp_val. rewrite (wide_app _ _ _ _ _ W). reflexivity. Qed.

(* ---------------- Uint::split_mul and the forms built on it ---------------- *)
Theorem uint_split_mul_correct x y lo hi : wf x -> wf y -> uint_split_mul x y = (lo, hi) ->
  wide lo hi (length x) (length y) (eval x * eval y).
Proof.
  intros Hx Hy E. unfold uint_split_mul in E.
  assert (Hs : forall lo hi, split_at (length x) (schoolbook_mul x y) = (lo, hi) ->
               wide lo hi (length x) (length y) (eval x * eval y)).
  { intros lo' hi' E'. destruct (schoolbook_split_correct x y lo' hi' Hx Hy E') as (A & C & D & F & G).
    unfold wide. auto. }
  assert (Hk : forall l m, length x = (2 ^ l * m)%nat -> length y = length x -> kmul l x y = (lo, hi) ->
               wide lo hi (length x) (length y) (eval x * eval y)).
  { intros l m H1 H2 E'. destruct (kmul_correct l x y lo hi m Hx Hy H1 H2 E') as (A & C & D & F & G).
    unfold wide. rewrite H2. auto. }
  destruct (length x =? length y)%nat eqn:El; [|apply Hs; exact E].
  apply Nat.eqb_eq in El. unfold klevel_mul in E.
  destruct (length x =? 16)%nat eqn:E16.
  { apply Nat.eqb_eq in E16. apply (Hk 1%nat 8%nat); auto. }
  destruct (length x =? 32)%nat eqn:E32.
  { apply Nat.eqb_eq in E32. apply (Hk 2%nat 8%nat); auto. }
  destruct (length x =? 64)%nat eqn:E64.
  { apply Nat.eqb_eq in E64. apply (Hk 3%nat 8%nat); auto. }
  destruct (length x =? 128)%nat eqn:E128.
  { apply Nat.eqb_eq in E128. apply (Hk 4%nat 8%nat); auto. }
  apply Hs; exact E.
Qed.

(** eval form *)
Theorem uint_split_mul_eval x y lo hi : wf x -> wf y -> uint_split_mul x y = (lo, hi) ->
  eval lo + Bn (length x) * eval hi = eval x * eval y /\ wf lo /\ wf hi /\
  length lo = length x /\ length hi = length y.
Proof. intros Hx Hy E. destruct (uint_split_mul_correct x y lo hi Hx Hy E) as (A & C & D & F & G). auto. Qed.

Theorem uint_wrapping_mul_eval x y : wf x -> wf y ->
  eval (fst (uint_split_mul x y)) = (eval x * eval y) mod Bn (length x).
Proof.
  intros Hx Hy. destruct (uint_split_mul x y) as [lo hi] eqn:E. cbn [fst].
  apply (wide_divmod lo hi _ _ _ (uint_split_mul_correct x y lo hi Hx Hy E)).
Qed.

(** checked_mul is Some exactly when the product fits; saturating_mul gives MAX exactly on overflow *)
Theorem uint_checked_mul_eval x y lo hi : wf x -> wf y -> uint_split_mul x y = (lo, hi) ->
  (all_zero hi = true <-> eval x * eval y < Bn (length x)) /\
  (all_zero hi = true -> eval lo = eval x * eval y).
Proof.
  intros Hx Hy E. pose proof (uint_split_mul_correct x y lo hi Hx Hy E) as W.
  rewrite (wide_fits _ _ _ _ _ W). destruct (wide_divmod _ _ _ _ _ W) as (A & _ & C & _).
  unfold sp_fits. rewrite andb_true_iff, Z.leb_le, Z.ltb_lt. split; [split; [tauto | lia]|].
  intros [_ F]. rewrite A. apply Z.mod_small. lia.
Qed.

Theorem uint_saturating_mul_eval x y lo hi : wf x -> wf y -> uint_split_mul x y = (lo, hi) ->
  eval (if all_zero hi then lo else maxs (length lo)) = Z.min (eval x * eval y) (Bn (length x) - 1).
Proof.
  intros Hx Hy E. destruct (uint_checked_mul_eval x y lo hi Hx Hy E) as (F1 & F2).
  pose proof (uint_split_mul_correct x y lo hi Hx Hy E) as (_ & _ & Ll & _).
  destruct (all_zero hi).
  - rewrite F2 by reflexivity. destruct F1 as [F1 _]. specialize (F1 eq_refl). lia.
  - rewrite eval_maxs, Ll.
    destruct (Z_lt_ge_dec (eval x * eval y) (Bn (length x))) as [Hlt|Hge]; [|lia].
    destruct F1 as [_ F1]. specialize (F1 Hlt). discriminate.
Qed.

(* ---------------- table entries: model = spec ---------------- *)
Ltac open_tables :=
  unfold op_of, ops_mul_model, ops_mul_spec; cbn [lookup String.eqb Ascii.eqb Bool.eqb];
  unfold sp_prod, ev, ln, arg, sarg; cbn [nth].

Lemma eval1 a : eval [a] = a. Proof. cbn [eval]. ring. Qed.
Lemma to_limbs_1 x : to_limbs 1 x = [x mod B]. Proof. reflexivity. Qed.

Lemma limb_prod_bounds a b : is_word a -> is_word b -> 0 <= a * b < B * B.
Proof. unfold is_word. intros. apply prod_lt; assumption. Qed.

(** the product of two limbs as a (lo, hi) pair *)
Lemma limb_wide a b : is_word a -> is_word b -> wide [(a * b) mod B] [(a * b) / B] 1 1 (eval [a] * eval [b]).
Proof.
  intros Ha Hb. pose proof (limb_prod_bounds a b Ha Hb) as Hp. pose proof B_gt1 as HB.
  pose proof (Z.div_mod (a * b) B ltac:(lia)) as Hdm.
  unfold wide. rewrite !eval1, Bn_1.
  split; [apply wf_cons; split; [apply is_word_mod | apply wf_nil]|].
  split.
  { apply wf_cons. split; [|apply wf_nil]. unfold is_word. split; [apply Z.div_pos; lia|].
    apply Z.div_lt_upper_bound; lia. }
  split; [reflexivity|]. split; [reflexivity|]. lia.
Qed.

Lemma all_zero_1 v : all_zero [v] = (v =? 0).
Proof. unfold all_zero. cbn [forallb]. apply andb_true_r. Qed.

Theorem limb_ops_correct name dbg a b : is_word a -> is_word b ->
  In name ["limb.wrapping_mul"; "limb.saturating_mul"; "limb.checked_mul"; "limb.mul"]%string ->
  op_of ops_mul_model name dbg [[a]; [b]] = op_of ops_mul_spec name dbg [[a]; [b]].
Proof.
  intros Ha Hb Hin. pose proof (limb_wide a b Ha Hb) as W.
  cbn [In] in Hin. destruct Hin as [<-|[<-|[<-|[<-|[]]]]]; open_tables; unfold mulhilo.
  - unfold wmul, wrap. apply (wide_wrapping _ _ _ _ _ W).
  - rewrite <- all_zero_1. rewrite <- (wide_saturating _ _ _ _ _ W). destruct (all_zero _); reflexivity.
  - rewrite <- all_zero_1. apply (wide_checked _ _ _ _ _ W).
  - rewrite <- all_zero_1. apply (wide_panicking _ _ _ _ _ W).
Qed.

Theorem uint_mul_ops_correct name dbg x y : wf x -> wf y ->
  In name ["uint.split_mul"; "uint.widening_mul"; "uint.wrapping_mul"; "uint.checked_mul";
           "uint.saturating_mul"; "uint.mul"]%string ->
  op_of ops_mul_model name dbg [x; y] = op_of ops_mul_spec name dbg [x; y].
Proof.
  intros Hx Hy Hin. destruct (uint_split_mul x y) as [lo hi] eqn:E.
  pose proof (uint_split_mul_correct x y lo hi Hx Hy E) as W.
  cbn [In] in Hin. destruct Hin as [<-|[<-|[<-|[<-|[<-|[<-|[]]]]]]]; open_tables; rewrite E.
  - unfold vsplit. cbn [fst snd]. apply (wide_split _ _ _ _ _ W).
  - apply (wide_widening _ _ _ _ _ W).
  - cbn [fst]. apply (wide_wrapping _ _ _ _ _ W).
  - apply (wide_checked _ _ _ _ _ W).
  - apply (wide_saturating _ _ _ _ _ W).
  - apply (wide_panicking _ _ _ _ _ W).
Qed.

(* ---------------- Uint::square_wide and the forms built on it ---------------- *)
Theorem uint_square_wide_correct x lo hi : wf x -> uint_square_wide x = (lo, hi) ->
  wide lo hi (length x) (length x) (eval x * eval x).
Proof.
  intros Hx E. unfold uint_square_wide in E.
  assert (Hk : forall l m, length x = (2 ^ l * m)%nat -> ksq l x = (lo, hi) ->
               wide lo hi (length x) (length x) (eval x * eval x)).
  { intros l m H1 E'. destruct (ksq_correct l x lo hi m Hx H1 E') as (A & C & D & F & G).
    unfold wide. auto. }
  destruct (length x =? 64)%nat eqn:E64.
  { apply Nat.eqb_eq in E64. apply (Hk 1%nat 32%nat); auto. }
  destruct (length x =? 128)%nat eqn:E128.
  { apply Nat.eqb_eq in E128. apply (Hk 2%nat 32%nat); auto. }
  destruct (schoolbook_sq_correct x Hx) as (A & C & D).
  destruct (split_at_eval (length x) (schoolbook_sq x) lo hi C ltac:(lia) E) as (A' & C' & D' & F' & G').
  unfold wide. repeat split; auto; lia.
Qed.

Theorem uint_square_wide_eval x lo hi : wf x -> uint_square_wide x = (lo, hi) ->
  eval lo + Bn (length x) * eval hi = eval x * eval x /\ wf lo /\ wf hi /\
  length lo = length x /\ length hi = length x.
Proof. intros Hx E. destruct (uint_square_wide_correct x lo hi Hx E) as (A & C & D & F & G). auto. Qed.

(** square = mul self self, limb for limb *)
Theorem uint_square_is_mul x : wf x -> uint_square_wide x = uint_split_mul x x.
Proof.
  intros Hx. destruct (uint_square_wide x) as [lo hi] eqn:E1. destruct (uint_split_mul x x) as [lo' hi'] eqn:E2.
  pose proof (uint_square_wide_correct x lo hi Hx E1) as W1.
  pose proof (uint_split_mul_correct x x lo' hi' Hx Hx E2) as W2.
  rewrite (wide_lo_limbs _ _ _ _ _ W1), (wide_hi_limbs _ _ _ _ _ W1).
  rewrite (wide_lo_limbs _ _ _ _ _ W2), (wide_hi_limbs _ _ _ _ _ W2). reflexivity.
Qed.

Theorem uint_square_ops_correct name dbg x : wf x ->
  In name ["uint.square_wide"; "uint.widening_square"; "uint.wrapping_square"; "uint.checked_square";
           "uint.saturating_square"]%string ->
  op_of ops_mul_model name dbg [x] = op_of ops_mul_spec name dbg [x].
Proof.
  intros Hx Hin. destruct (uint_square_wide x) as [lo hi] eqn:E.
  pose proof (uint_square_wide_correct x lo hi Hx E) as W.
  cbn [In] in Hin. destruct Hin as [<-|[<-|[<-|[<-|[<-|[]]]]]]; open_tables; rewrite E.
  - unfold vsplit. cbn [fst snd]. apply (wide_split _ _ _ _ _ W).
  - replace (2 * length x)%nat with (length x + length x)%nat by lia. apply (wide_widening _ _ _ _ _ W).
  - cbn [fst]. apply (wide_wrapping _ _ _ _ _ W).
  - apply (wide_checked _ _ _ _ _ W).
  - apply (wide_saturating _ _ _ _ _ W).
Qed.

(* ---------------- BoxedUint ---------------- *)
Lemma full_limbs p n P : wf p -> length p = n -> eval p = P -> 0 <= P < Bn n -> p = to_limbs n P.
Proof. intros Hw Hl He Hb. apply to_limbs_unique; auto. rewrite He. symmetry. apply Z.mod_small. assumption. Qed.

Lemma boxed_mul_wide x y : wf x -> wf y ->
  wide (firstn (length x) (boxed_mul x y)) (skipn (length x) (boxed_mul x y)) (length x) (length y) (eval x * eval y).
Proof.
  intros Hx Hy. destruct (boxed_mul_correct x y Hx Hy) as (A & C & D).
  destruct (split_at_eval (length x) (boxed_mul x y) _ _ C ltac:(lia) eq_refl) as (A' & C' & D' & F' & G').
  unfold wide. repeat split; auto; lia.
Qed.

Theorem boxed_square_is_mul x : wf x -> boxed_square x = boxed_mul x x.
Proof.
  intros Hx. destruct (boxed_square_correct x Hx) as (A & C & D). destruct (boxed_mul_correct x x Hx Hx) as (A' & C' & D').
  apply eval_inj; auto; lia.
Qed.

Theorem boxed_ops_correct name dbg x y : wf x -> wf y ->
  In name ["boxed.mul"; "boxed.wrapping_mul"; "boxed.checked_mul"; "boxed.mul_panicking"]%string ->
  op_of ops_mul_model name dbg [x; y] = op_of ops_mul_spec name dbg [x; y].
Proof.
  intros Hx Hy Hin. pose proof (boxed_mul_wide x y Hx Hy) as W.
  destruct (boxed_mul_correct x y Hx Hy) as (A & C & D).
  cbn [In] in Hin. destruct Hin as [<-|[<-|[<-|[<-|[]]]]]; open_tables.
  - unfold sp_val. f_equal. f_equal. apply full_limbs; auto.
    rewrite Bn_add. apply prod_lt; apply eval_bounds; assumption.
  - apply (wide_wrapping _ _ _ _ _ W).
  - apply (wide_checked _ _ _ _ _ W).
  - apply (wide_panicking _ _ _ _ _ W).
Qed.

Theorem boxed_square_op_correct dbg x : wf x ->
  op_of ops_mul_model "boxed.square" dbg [x] = op_of ops_mul_spec "boxed.square" dbg [x].
Proof.
  intros Hx. destruct (boxed_square_correct x Hx) as (A & C & D). open_tables.
  unfold sp_val. f_equal. f_equal. apply full_limbs; auto.
  rewrite Bn_double. apply prod_lt; apply eval_bounds; assumption.
Qed.

(** every entry of the C03 model table has a specification entry and conversely *)
Lemma tables_same_keys : map fst ops_mul_model = map fst ops_mul_spec.
Proof. reflexivity. Qed.
