(** C08: the model table and the spec table of Model/Monty.v agree, key by key, wherever the spec is defined
    (spec entry <> Unsupported), for all well-formed argument lists: what the correspondence runs compare the crate
    with (the model entries, limb level) is, on the documented domain, plain arithmetic in Z/mZ (the spec entries). *)
From CB Require Import Model.Limbs Model.AddSub Model.Mul Model.Div Model.ModArith Model.Monty
  Proofs.WordP Proofs.LimbsP Proofs.AddSubP Proofs.ModArithP
  Proofs.MontyRedP Proofs.MontyAmmP Proofs.MontyNumP Proofs.MontyFormP Proofs.MontyHistP.
From Coq Require Import ZArith Znumtheory Lia List Bool String.
Open Scope Z_scope.
Notation length := List.length.

Definition run_op8 (t : list (string * opfn)) (k : string) (dbg : bool) (args : list (list Z)) : outcome :=
  match lookup k t with Some f => f dbg args | None => Unsupported end.
Notation M8 := (run_op8 ops_monty_model).
Notation S8 := (run_op8 ops_monty_spec).

Definition monty_keys : list string :=
  ["monty.reduction"; "monty.params"; "monty.boxed_params"; "monty.history"; "monty.boxed_history";
   "monty.uint_mul_mod"; "monty.boxed_mul_mod"]%string.
Lemma monty_keys_model : map fst ops_monty_model = monty_keys. Proof. reflexivity. Qed.
Lemma monty_keys_spec : map fst ops_monty_spec = monty_keys. Proof. reflexivity. Qed.

Definition wf_args8 (a : list (list Z)) : Prop := Forall wf a.

Lemma wf_arg8 i a : wf_args8 a -> wf (arg i a).
Proof.
  unfold wf_args8, arg. intros H. revert i. induction H as [|x l Hx Hl IH]; intros i.
  - destruct i; apply wf_nil.
  - destruct i; [exact Hx | apply IH].
Qed.
Lemma sarg_word8 i a : wf_args8 a -> is_word (sarg i a).
Proof.
  intros H. pose proof (wf_arg8 i a H) as Hw. unfold sarg, arg in *.
  destruct (nth i a []) as [|x l]; cbn [nth].
  - unfold is_word. pose proof B_gt1. lia.
  - apply wf_cons in Hw. destruct Hw as [Hx _]. exact Hx.
Qed.
Lemma Forall_skipn8 {A} (P : A -> Prop) k l : Forall P l -> Forall P (skipn k l).
Proof. revert l. induction k; intros l H; [exact H|]. destruct H; [constructor | cbn [skipn]; apply IHk; assumption]. Qed.

Lemma odd_modulus_facts m : odd_modulus m = true -> Z.odd (eval m) = true /\ length m <> 0%nat.
Proof.
  unfold odd_modulus. intros H. apply andb_prop in H. destruct H as [H1 H2]. split; [exact H1|].
  apply negb_true_iff in H2. apply Nat.eqb_neq in H2. exact H2.
Qed.

Ltac table_open8 :=
  unfold run_op8;
  lazy beta iota zeta delta [lookup ops_monty_model ops_monty_spec String.eqb Ascii.eqb Bool.eqb].

(* ------------------------------------------------------------------ backends built from the constructors *)
Lemma backend_fixed_params_ok m : wf m -> length m <> 0%nat -> Z.odd (eval m) = true ->
  backend_ok m (backend_fixed (params_fixed m)).
Proof.
  intros Hm Hn Hodd. pose proof (params_fixed_good m Hm Hn Hodd) as G.
  pose proof G as (Em & _ & _ & Hk). destruct (good_r2 m Hm Hn Hodd _ G) as (C2 & E2).
  apply (backend_fixed_ok m (mp_k (params_fixed m)) Hm Hn Hodd Hk _ Em eq_refl C2 E2).
Qed.
Lemma backend_boxed_params_ok m : wf m -> length m <> 0%nat -> Z.odd (eval m) = true ->
  backend_ok m (backend_boxed (params_boxed m)).
Proof.
  intros Hm Hn Hodd. pose proof (params_boxed_good m Hm Hn Hodd) as G.
  pose proof G as (Em & _ & _ & Hk). destruct (good_r2 m Hm Hn Hodd _ G) as (C2 & E2).
  apply (backend_boxed_ok m (mp_k (params_boxed m)) Hm Hn Hodd Hk _ Em eq_refl C2 E2).
Qed.

(** mul_mod through any correct representation: new, new, mul, retrieve = x * y mod m *)
Lemma mul_mod_backend m be x y : wf m -> length m <> 0%nat -> Z.odd (eval m) = true -> backend_ok m be ->
  wf x -> wf y -> length x = length m -> length y = length m ->
  be_retrieve be (be_mul be (be_new be x) (be_new be y)) = to_limbs (length m) ((eval x * eval y) mod eval m).
Proof.
  intros Hm Hn Hodd Hbe Wx Wy Lx Ly. pose proof (M_pos m Hm Hn Hodd) as HM.
  pose proof (ok_new m be Hbe x Wx Lx) as Rx. pose proof (ok_new m be Hbe y Wy Ly) as Ry.
  pose proof (ok_mul m be Hbe _ _ _ _ Rx Ry) as Rp.
  rewrite (ok_retrieve m be Hbe _ _ Rp). f_equal. symmetry. apply Zmult_mod.
Qed.

(* ------------------------------------------------------------------ entries *)
Section Entries.
Variable a : list (list Z).
Hypothesis Hwf : wf_args8 a.

Lemma tbl_reduction dbg : S8 "monty.reduction" dbg a <> Unsupported ->
  M8 "monty.reduction" dbg a = S8 "monty.reduction" dbg a.
Proof.
  table_open8. unfold ev, ln.
  destruct (odd_modulus (arg 2 a)) eqn:D1; cbn [negb]; [|intros H; contradiction H; reflexivity].
  destruct ((length (arg 0 a) =? length (arg 2 a))%nat && (length (arg 1 a) =? length (arg 2 a))%nat)%bool eqn:D2;
    cbn [negb]; [|intros H; contradiction H; reflexivity].
  destruct (_ =? 0) eqn:D3; cbn [negb]; [|intros H; contradiction H; reflexivity].
  destruct (_ <? _) eqn:D4; cbn [negb]; [intros _|intros H; contradiction H; reflexivity].
  apply odd_modulus_facts in D1. destruct D1 as [Hodd Hn].
  apply andb_prop in D2. destruct D2 as [L0 L1]. apply Nat.eqb_eq in L0, L1.
  apply Z.eqb_eq in D3. apply Z.ltb_lt in D4.
  pose proof (wf_arg8 0 a Hwf) as W0. pose proof (wf_arg8 1 a Hwf) as W1. pose proof (wf_arg8 2 a Hwf) as W2.
  pose proof (M_pos _ W2 Hn Hodd) as HM.
  rewrite <- (hd_eval_mod _ W2) in D3.
  destruct (mont_red_correct (arg 0 a) (arg 1 a) (arg 2 a) (sarg 3 a) W0 W1 W2 L0 L1 Hn D3 D4) as (Wr & Lr & Br & Er).
  do 2 f_equal. apply (limbs_of_value _ W2 Hn); try assumption.
  - apply redc_spec_unique; assumption.
  - apply redc_spec_char; assumption.
Qed.

Lemma tbl_params dbg : S8 "monty.params" dbg a <> Unsupported ->
  M8 "monty.params" dbg a = S8 "monty.params" dbg a.
Proof.
  table_open8. unfold sp_params, ev, ln.
  destruct (odd_modulus (arg 0 a)) eqn:D1; cbn [negb]; [intros _|intros H; contradiction H; reflexivity].
  apply odd_modulus_facts in D1. destruct D1 as [Hodd Hn]. pose proof (wf_arg8 0 a Hwf) as W.
  destruct (params_fixed_correct (arg 0 a) W Hn Hodd) as (E & _). cbv zeta in E.
  unfold params_out. rewrite E. cbn [mp_one mp_r2 mp_r3 mp_k mp_lz]. reflexivity.
Qed.
Lemma tbl_boxed_params dbg : S8 "monty.boxed_params" dbg a <> Unsupported ->
  M8 "monty.boxed_params" dbg a = S8 "monty.boxed_params" dbg a.
Proof.
  table_open8. unfold sp_params, ev, ln.
  destruct (odd_modulus (arg 0 a)) eqn:D1; cbn [negb]; [intros _|intros H; contradiction H; reflexivity].
  apply odd_modulus_facts in D1. destruct D1 as [Hodd Hn]. pose proof (wf_arg8 0 a Hwf) as W.
  destruct (params_boxed_correct (arg 0 a) W Hn Hodd) as (E & _). cbv zeta in E.
  unfold params_out. rewrite E. cbn [mp_one mp_r2 mp_r3 mp_k mp_lz]. reflexivity.
Qed.

Lemma hist_inputs_ok : forallb (fun x => (length x =? length (arg 0 a))%nat) (hist_inputs a) = true ->
  Forall (fun x => wf x /\ length x = length (arg 0 a)) (hist_inputs a).
Proof.
  intros H. rewrite forallb_forall in H. apply Forall_forall. intros x Hx. split.
  - assert (F : Forall wf (hist_inputs a)) by (apply Forall_skipn8; exact Hwf).
    rewrite Forall_forall in F. apply F. exact Hx.
  - apply Nat.eqb_eq. apply H. exact Hx.
Qed.

Lemma tbl_history dbg : S8 "monty.history" dbg a <> Unsupported ->
  M8 "monty.history" dbg a = S8 "monty.history" dbg a.
Proof.
  table_open8. unfold sp_hist, ev, ln.
  destruct (odd_modulus (arg 0 a)) eqn:D1; cbn [negb]; [|intros H; contradiction H; reflexivity].
  destruct (forallb _ (hist_inputs a)) eqn:D2; cbn [negb]; [|intros H; contradiction H; reflexivity].
  destruct (Nat.eqb _ _) eqn:D3; cbn [negb]; [|intros H; contradiction H; reflexivity].
  destruct (ops_ok _ 0 _) eqn:D4; cbn [negb]; [intros _|intros H; contradiction H; reflexivity].
  apply odd_modulus_facts in D1. destruct D1 as [Hodd Hn]. pose proof (wf_arg8 0 a Hwf) as W.
  unfold hist_out. f_equal.
  apply (history_fixed_correct (arg 0 a) (hist_inputs a) _ W Hn Hodd (hist_inputs_ok D2) D4).
Qed.
Lemma tbl_boxed_history dbg : S8 "monty.boxed_history" dbg a <> Unsupported ->
  M8 "monty.boxed_history" dbg a = S8 "monty.boxed_history" dbg a.
Proof.
  table_open8. unfold sp_hist, ev, ln.
  destruct (odd_modulus (arg 0 a)) eqn:D1; cbn [negb]; [|intros H; contradiction H; reflexivity].
  destruct (forallb _ (hist_inputs a)) eqn:D2; cbn [negb]; [|intros H; contradiction H; reflexivity].
  destruct (Nat.eqb _ _) eqn:D3; cbn [negb]; [|intros H; contradiction H; reflexivity].
  destruct (ops_ok _ 0 _) eqn:D4; cbn [negb]; [intros _|intros H; contradiction H; reflexivity].
  apply odd_modulus_facts in D1. destruct D1 as [Hodd Hn]. pose proof (wf_arg8 0 a Hwf) as W.
  unfold hist_out. f_equal.
  apply (history_boxed_correct (arg 0 a) (hist_inputs a) _ W Hn Hodd (hist_inputs_ok D2) D4).
Qed.

(** Uint::mul_mod / BoxedUint::mul_mod: panic exactly on an even modulus, otherwise x * y mod m *)
Lemma mul_mod_entry be mk :
  (forall m, wf m -> length m <> 0%nat -> Z.odd (eval m) = true -> backend_ok m (be (mk m))) ->
  sp_mul_mod a <> Unsupported -> mul_mod_via be mk (arg 0 a) (arg 1 a) (arg 2 a) = sp_mul_mod a.
Proof.
  intros Hbe. unfold sp_mul_mod, mul_mod_via, ev, ln.
  destruct (_ && _ && _)%bool eqn:D; cbn [negb]; [intros _|intros H; contradiction H; reflexivity].
  apply andb_prop in D. destruct D as [D Hn]. apply andb_prop in D. destruct D as [L1 L2].
  apply Nat.eqb_eq in L1, L2. apply negb_true_iff in Hn. apply Nat.eqb_neq in Hn.
  pose proof (wf_arg8 0 a Hwf) as W0. pose proof (wf_arg8 1 a Hwf) as W1. pose proof (wf_arg8 2 a Hwf) as W2.
  rewrite <- !Z.negb_odd, (hd_odd _ W2).
  destruct (Z.odd (eval (arg 2 a))) eqn:Ho; cbn [negb]; [|reflexivity].
  assert (Hn2 : length (arg 2 a) <> 0%nat) by congruence.
  do 2 f_equal. rewrite <- L2.
  apply (mul_mod_backend (arg 2 a)); try assumption; try congruence. apply Hbe; assumption.
Qed.
Lemma tbl_uint_mul_mod dbg : S8 "monty.uint_mul_mod" dbg a <> Unsupported ->
  M8 "monty.uint_mul_mod" dbg a = S8 "monty.uint_mul_mod" dbg a.
Proof. table_open8. apply mul_mod_entry. exact backend_fixed_params_ok. Qed.
Lemma tbl_boxed_mul_mod dbg : S8 "monty.boxed_mul_mod" dbg a <> Unsupported ->
  M8 "monty.boxed_mul_mod" dbg a = S8 "monty.boxed_mul_mod" dbg a.
Proof. table_open8. apply mul_mod_entry. exact backend_boxed_params_ok. Qed.
End Entries.

(** the table theorem: every key of ops_monty_model, on the documented domain *)
Theorem monty_tables_agree k dbg a : In k monty_keys -> wf_args8 a ->
  S8 k dbg a <> Unsupported -> M8 k dbg a = S8 k dbg a.
Proof.
  intros Hk Hwf. unfold monty_keys in Hk. cbn [In] in Hk.
  repeat (destruct Hk as [Hk|Hk]; [subst k|]); try contradiction.
  - apply tbl_reduction; assumption.
  - apply tbl_params; assumption.
  - apply tbl_boxed_params; assumption.
  - apply tbl_history; assumption.
  - apply tbl_boxed_history; assumption.
  - apply tbl_uint_mul_mod; assumption.
  - apply tbl_boxed_mul_mod; assumption.
Qed.
