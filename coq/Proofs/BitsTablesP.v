(** C05, op tables of Model/Bits.v: for EVERY key of [ops_bits_model] the model entry (limb-level model of the Rust
    code plus the glue of the entry: option / flag plumbing, `expect`s, the u32 conversion of the operator forms,
    wrapping / panicking selection, argument decoding) returns the same outcome as the entry of [ops_bits_spec]
    (plain Z arithmetic on the represented integers) wherever the spec entry is defined.

    The only side conditions are the ones Rust's types enforce, stated once per key class as a boolean predicate
    ([bits_tbl_ty]): BITS = 64 * LIMBS and a shift amount / bit index passed as u32 are below 2^32, the two halves of a
    wide value and the two operands of a Uint<N> operator have one limb count.  Lookup is [run_tab] of
    Proofs/TotalityP.v (the lookup of Model/Api.v restricted to one table); the key list is [bits_keys] (C11). *)
From CB Require Import Model.Limbs Model.AddSub Model.Bits Proofs.WordP Proofs.WordPredP Proofs.LimbsP Proofs.AddSubP
  Proofs.BitsWordP Proofs.ShiftP Proofs.LadderP Proofs.BitQueryP Proofs.IntShiftP Proofs.WideP Proofs.BitsAllP
  Proofs.TotalityP Proofs.TotalityBitsP.
From Coq Require Import ZArith Lia List String Bool.
Open Scope Z_scope.
Notation length := List.length.

(* ------------------------------------------------------------------ typing side conditions (boolean, per key class) *)
Definition typingb := list (string * (list (list Z) -> bool)).
Definition typedb (t : typingb) (k : string) (a : list (list Z)) : bool :=
  match lookup k t with Some P => P a | None => true end.

(* BITS = 64 * LIMBS is a u32 *)
Definition u32_bits (a : list (list Z)) : bool := 64 * Z.of_nat (length (arg 0 a)) <? 2 ^ 32.
(* ... and the shift amount is passed as u32 *)
Definition u32_bits_shift (a : list (list Z)) : bool := u32_bits a && (sarg 1 a <? 2 ^ 32).
(* a bit index passed as u32 into a slice whose limb count is a u32 *)
Definition u32_index (a : list (list Z)) : bool := (Z.of_nat (length (arg 0 a)) <? 2 ^ 32) && (sarg 1 a <? 2 ^ 32).
(* (lo, hi) of a wide value: two Uint<N> *)
Definition halves_eq (a : list (list Z)) : bool := (length (arg 1 a) =? length (arg 0 a))%nat.
(* Uint<N> op Uint<N> *)
Definition same_lenb (a : list (list Z)) : bool := (length (arg 0 a) =? length (arg 1 a))%nat.

Open Scope string_scope.
Definition bits_tbl_ty : typingb :=
  [ (* constant-time ladder forms taking a u32 shift *)
    ("uint.overflowing_shl", u32_bits_shift); ("uint.wrapping_shl", u32_bits_shift);
    ("uint.overflowing_shr", u32_bits_shift); ("uint.wrapping_shr", u32_bits_shift);
    ("int.overflowing_shr", u32_bits_shift); ("int.wrapping_shr", u32_bits_shift);
    (* operator forms << >>: any integer shift (the conversion to u32 is in the table); BITS is a u32 *)
    ("uint.shl", u32_bits); ("uint.shr", u32_bits); ("int.shr", u32_bits); ("boxed.shl", u32_bits); ("boxed.shr", u32_bits);
    (* constant-time bit access with a u32 index *)
    ("bits.bit", u32_index); ("bits.set_bit", u32_index);
    ("uint.shl_vartime_wide", halves_eq); ("uint.shr_vartime_wide", halves_eq);
    ("uint.and", same_lenb); ("uint.or", same_lenb); ("uint.xor", same_lenb) ].
Close Scope string_scope.

Definition tbl_ok (k : string) : Prop :=
  forall dbg a, wf_args a -> typedb bits_tbl_ty k a = true -> run_tab ops_bits_spec k dbg a <> Unsupported ->
    run_tab ops_bits_model k dbg a = run_tab ops_bits_spec k dbg a.

Ltac open_typedb H :=
  unfold typedb in H;
  lazy beta iota delta [lookup bits_tbl_ty String.eqb Ascii.eqb Bool.eqb] in H.
Ltac start :=
  let dbg := fresh "dbg" in let a := fresh "a" in
  let Hwf := fresh "Hwf" in let Hty := fresh "Hty" in let Hdom := fresh "Hdom" in
  intros dbg a Hwf Hty Hdom; open_typedb Hty; revert Hdom; open_tabs ops_bits_model ops_bits_spec; intros Hdom.
Ltac dom := match goal with Hdom : nonempty _ _ <> Unsupported |- _ =>
  let Hne := fresh "Hne" in let Hd := fresh "Hd" in
  apply nonempty_dom in Hdom; destruct Hdom as [Hne Hd]; rewrite Hd; clear Hd end.

Lemma u32_bits_true a : u32_bits a = true -> 64 * Z.of_nat (length (arg 0 a)) < U32.
Proof. unfold u32_bits, U32. intros H. apply Z.ltb_lt in H. exact H. Qed.
Lemma u32_bits_shift_true a : u32_bits_shift a = true -> 64 * Z.of_nat (length (arg 0 a)) < U32 /\ sarg 1 a < U32.
Proof.
  unfold u32_bits_shift. intros H. apply andb_prop in H. destruct H as [H1 H2].
  split; [apply u32_bits_true; exact H1 | apply Z.ltb_lt in H2; exact H2].
Qed.
Lemma u32_index_true a : u32_index a = true -> Z.of_nat (length (arg 0 a)) < U32 /\ sarg 1 a < U32.
Proof.
  unfold u32_index, U32. intros H. apply andb_prop in H. destruct H as [H1 H2].
  apply Z.ltb_lt in H1. apply Z.ltb_lt in H2. split; assumption.
Qed.

(* ------------------------------------------------------------------ canonical limbs *)
Lemma limbs_canon v n x : wf v -> length v = n -> eval v = x -> v = to_limbs n x.
Proof. intros Hw Hl He. subst. symmetry. apply to_limbs_eval. exact Hw. Qed.
Lemma zeros_to_limbs n : zeros n = to_limbs n 0.
Proof. apply limbs_canon; auto using wf_zeros, length_zeros, eval_zeros. Qed.
Lemma maxs_to_limbs n : maxs n = to_limbs n (Bn n - 1).
Proof. apply limbs_canon; auto using wf_maxs, length_maxs, eval_maxs. Qed.
Lemma word_to_limbs x : is_word x -> [x] = to_limbs 1 x.
Proof.
  intros Hx. apply limbs_canon; [constructor; [exact Hx | constructor] | reflexivity |].
  cbn [eval]. lia.
Qed.

(* ------------------------------------------------------------------ the outcome glue of the shift entries *)
(* [v] is the value a shift by [s] of an n-limb number returns: R inside the width, (for [sh_out]) 0 beyond it *)
Definition sh_in (n : nat) (s R : Z) (v : list Z) : Prop :=
  wf v /\ length v = n /\ ((s <? bitsn n) = true -> v = to_limbs n R).
Definition sh_out (n : nat) (s : Z) (v : list Z) : Prop := (s <? bitsn n) = false -> v = to_limbs n 0.

Lemma f_ctopt n s R v : sh_in n s R v ->
  out_ctopt (Some (v, choice_of_bool (s <? bitsn n))) = sp_shift_opt n s (if s <? bitsn n then R else 0).
Proof.
  intros (Wv & Lv & Hv). unfold out_ctopt, sp_shift_opt, Bits.sp_val. rewrite choice_is_some. cbn [fst].
  destruct (s <? bitsn n); [rewrite Hv by reflexivity|]; reflexivity.
Qed.
Lemma f_expect n s R v : sh_in n s R v ->
  out_expect (Some (v, choice_of_bool (s <? bitsn n))) = sp_shift_panic n s (if s <? bitsn n then R else 0).
Proof.
  intros (Wv & Lv & Hv). unfold out_expect, sp_shift_panic, Bits.sp_val. rewrite choice_expect.
  destruct (s <? bitsn n); [rewrite Hv by reflexivity|]; reflexivity.
Qed.
Lemma f_unwrap n s R F v def : sh_in n s R v -> def = to_limbs n F ->
  out_unwrap_or (Some (v, choice_of_bool (s <? bitsn n))) def = sp_shift_wrap n s (if s <? bitsn n then R else 0) F.
Proof.
  intros (Wv & Lv & Hv) Hd. unfold out_unwrap_or, sp_shift_wrap, Bits.sp_val.
  rewrite ct_unwrap_or_choice; [| exact Wv | subst def; apply wf_to_limbs | subst def; rewrite length_to_limbs; lia].
  destruct (s <? bitsn n); [rewrite Hv by reflexivity | rewrite Hd]; reflexivity.
Qed.
Lemma f_optstd n s R v : sh_in n s R v ->
  out_opt_std (v, choice_of_bool (s <? bitsn n)) = sp_shift_opt n s (if s <? bitsn n then R else 0).
Proof.
  intros (Wv & Lv & Hv). unfold out_opt_std, sp_shift_opt, Bits.sp_val. rewrite choice_is_some. cbn [fst].
  destruct (s <? bitsn n); [rewrite Hv by reflexivity|]; reflexivity.
Qed.
Lemma f_fst n s R v : sh_in n s R v -> sh_out n s v ->
  Val [v] = sp_shift_wrap n s (if s <? bitsn n then R else 0) 0.
Proof.
  intros (Wv & Lv & Hv) Ho. unfold sp_shift_wrap, Bits.sp_val, sh_out in *.
  destruct (s <? bitsn n); [rewrite Hv by reflexivity | rewrite Ho by reflexivity]; reflexivity.
Qed.
Lemma f_bpair n s R v : sh_in n s R v -> sh_out n s v ->
  out_boxed_pair (Some (v, negb (s <? bitsn n))) = sp_shift_pair n s (if s <? bitsn n then R else 0).
Proof.
  intros (Wv & Lv & Hv) Ho. unfold out_boxed_pair, sp_shift_pair, sh_out in *.
  destruct (s <? bitsn n); cbn [negb]; [rewrite Hv by reflexivity | rewrite Ho by reflexivity]; reflexivity.
Qed.
Lemma f_bpanic n s R v : sh_in n s R v ->
  out_boxed_panic (Some (v, negb (s <? bitsn n))) = sp_shift_panic n s (if s <? bitsn n then R else 0).
Proof.
  intros (Wv & Lv & Hv). unfold out_boxed_panic, sp_shift_panic, Bits.sp_val.
  destruct (s <? bitsn n); cbn [negb]; [rewrite Hv by reflexivity|]; reflexivity.
Qed.
Lemma f_bwrap n s R v : sh_in n s R v -> sh_out n s v ->
  out_boxed_wrapping (Some (v, negb (s <? bitsn n))) = sp_shift_wrap n s (if s <? bitsn n then R else 0) 0.
Proof. intros Hi Ho. unfold out_boxed_wrapping. apply f_fst; assumption. Qed.
Lemma f_bopt n s R v : sh_in n s R v ->
  out_boxed_opt (Some (v, negb (s <? bitsn n))) = sp_shift_opt n s (if s <? bitsn n then R else 0).
Proof.
  intros (Wv & Lv & Hv). unfold out_boxed_opt, sp_shift_opt, Bits.sp_val.
  destruct (s <? bitsn n); cbn [negb]; [rewrite Hv by reflexivity|]; reflexivity.
Qed.

(* the operator forms: u32::try_from(shift).expect(..) first; a shift that is no u32 is >= BITS *)
Lemma f_guard n s o r : 0 <= s -> bitsn n < U32 -> (s < U32 -> o = sp_shift_panic n s r) ->
  guard_u32 s o = sp_shift_panic n s r.
Proof.
  intros Hs Hb H. unfold guard_u32, fits_u32.
  replace (0 <=? s) with true by (symmetry; apply Z.leb_le; assumption). cbn [andb].
  destruct (Z.ltb_spec s U32) as [Hlt|Hge]; [apply H; exact Hlt|].
  unfold sp_shift_panic. replace (s <? bitsn n) with false; [reflexivity|]. symmetry. apply Z.ltb_ge. lia.
Qed.

(* ------------------------------------------------------------------ the kernels in [sh_in] / [sh_out] form *)
Lemma pack_of_eval n s R (v : list Z) : wf v -> length v = n ->
  eval v = (if s <? bitsn n then R else 0) -> sh_in n s R v /\ sh_out n s v.
Proof.
  intros Wv Lv Ev. unfold sh_in, sh_out. repeat split; auto; intros E; rewrite E in Ev; apply limbs_canon; auto.
Qed.

Lemma shl_pack x s : wf x -> 0 <= s ->
  exists v, uint_overflowing_shl_vartime x s = (v, choice_of_bool (s <? bitsn (length x))) /\
            sh_in (length x) s (spec_shl (length x) (eval x) s) v /\ sh_out (length x) s v.
Proof.
  intros Hw Hs. pose proof (shl_vartime_correct x s Hw Hs) as H. cbn zeta in H. destruct H as (Hc & Wr & Lr & Er).
  destruct (uint_overflowing_shl_vartime x s) as [v c]. cbn [fst snd] in *. subst c.
  exists v. split; [reflexivity|]. apply pack_of_eval; assumption.
Qed.
Lemma shr_pack x s : wf x -> 0 <= s ->
  exists v, uint_overflowing_shr_vartime x s = (v, choice_of_bool (s <? bitsn (length x))) /\
            sh_in (length x) s (spec_shr (eval x) s) v /\ sh_out (length x) s v.
Proof.
  intros Hw Hs. pose proof (shr_vartime_correct x s Hw Hs) as H. cbn zeta in H. destruct H as (Hc & Wr & Lr & Er).
  destruct (uint_overflowing_shr_vartime x s) as [v c]. cbn [fst snd] in *. subst c.
  exists v. split; [reflexivity|]. apply pack_of_eval; assumption.
Qed.

(* ================================================================== Limb *)
Lemma tbl_limb_shl : tbl_ok "limb.shl".
Proof.
  start. destruct limb_all as (H & _). pose proof (sarg_word 0 a Hwf) as H0. pose proof (sarg_word 1 a Hwf) as [H1 _].
  rewrite (H true dbg _ _ H0 H1). unfold Bits.sp_val, spec_shl. rewrite Bn_1.
  destruct (sarg 1 a <? 64); [|reflexivity]. rewrite <- word_to_limbs by apply is_word_mod. reflexivity.
Qed.
Lemma tbl_limb_shr : tbl_ok "limb.shr".
Proof.
  start. destruct limb_all as (H & Hw & _). pose proof (sarg_word 0 a Hwf) as H0. pose proof (sarg_word 1 a Hwf) as [H1 _].
  rewrite (H false dbg _ _ H0 H1). unfold Bits.sp_val, spec_shr.
  destruct (Z.ltb_spec (sarg 1 a) 64) as [Hlt|]; [|reflexivity].
  rewrite <- word_to_limbs by (apply (Hw false _ _ H0); lia). reflexivity.
Qed.
Lemma tbl_limb_wrapping_shl : tbl_ok "limb.wrapping_shl".
Proof.
  start. unfold Bits.sp_val, spec_shl, wshl, wrap. rewrite Bn_1.
  rewrite <- word_to_limbs by apply is_word_mod. reflexivity.
Qed.
Lemma tbl_limb_wrapping_shr : tbl_ok "limb.wrapping_shr".
Proof.
  start. unfold Bits.sp_val, spec_shr. pose proof (sarg_word 0 a Hwf) as H0.
  pose proof (Z.mod_pos_bound (sarg 1 a) 64 ltac:(lia)) as Hm.
  rewrite <- word_to_limbs; [reflexivity|]. apply (is_word_wshr _ _ H0). lia.
Qed.
Lemma tbl_limb_bits : tbl_ok "limb.bits".
Proof. start. destruct limb_all as (_ & _ & H & _). rewrite (H _ (sarg_word 0 a Hwf)). reflexivity. Qed.
Lemma tbl_limb_leading_zeros : tbl_ok "limb.leading_zeros".
Proof.
  start. destruct limb_all as (_ & _ & H & _). rewrite <- (H _ (sarg_word 0 a Hwf)).
  replace (64 - (64 - wlz (sarg 0 a))) with (wlz (sarg 0 a)) by lia. reflexivity.
Qed.
Lemma tbl_limb_trailing_zeros : tbl_ok "limb.trailing_zeros".
Proof. start. destruct limb_all as (_ & _ & _ & H & _). rewrite (H _ (sarg_word 0 a Hwf)). reflexivity. Qed.
Lemma tbl_limb_trailing_ones : tbl_ok "limb.trailing_ones".
Proof. start. destruct limb_all as (_ & _ & _ & _ & H). rewrite (H _ (sarg_word 0 a Hwf)). reflexivity. Qed.
Lemma tbl_limb_and : tbl_ok "limb.and". Proof. start. reflexivity. Qed.
Lemma tbl_limb_or : tbl_ok "limb.or". Proof. start. reflexivity. Qed.
Lemma tbl_limb_xor : tbl_ok "limb.xor". Proof. start. reflexivity. Qed.
Lemma tbl_limb_not : tbl_ok "limb.not".
Proof. start. unfold wnot. rewrite MAXW_val. reflexivity. Qed.

(* ================================================================== Uint shifts *)
Section ShiftArgs.
Variables (a : list (list Z)).
Hypothesis Hwf : wf_args a.
Lemma wf_x : wf (arg 0 a). Proof. apply wf_arg; exact Hwf. Qed.
Lemma s_ge0 : 0 <= sarg 1 a. Proof. apply (sarg_word 1 a Hwf). Qed.
End ShiftArgs.

Local Ltac sp_open := unfold spx_shl, spx_shr, spx_sar, Bits.ln, Bits.ev, sev.
(* variable-time forms: no side condition *)
Local Ltac vt_shl a Hwf :=
  destruct (shl_pack (arg 0 a) (sarg 1 a) (wf_x a Hwf) (s_ge0 a Hwf)) as (v & -> & Hi & Ho); sp_open.
Local Ltac vt_shr a Hwf :=
  destruct (shr_pack (arg 0 a) (sarg 1 a) (wf_x a Hwf) (s_ge0 a Hwf)) as (v & -> & Hi & Ho); sp_open.
(* constant-time ladder = variable-time result, for a u32 shift *)
Local Ltac ct_shl a Hwf Hne Hty :=
  destruct (u32_bits_shift_true a Hty) as [Hb Hs];
  rewrite (uint_shl_ct_eq_vartime (arg 0 a) (sarg 1 a) (wf_x a Hwf) Hne Hb (conj (s_ge0 a Hwf) Hs)); vt_shl a Hwf.
Local Ltac ct_shr a Hwf Hne Hty :=
  destruct (u32_bits_shift_true a Hty) as [Hb Hs];
  rewrite (uint_shr_ct_eq_vartime (arg 0 a) (sarg 1 a) (wf_x a Hwf) Hne Hb (conj (s_ge0 a Hwf) Hs)); vt_shr a Hwf.

Lemma tbl_uint_overflowing_shl : tbl_ok "uint.overflowing_shl".
Proof. start. dom. ct_shl a Hwf Hne Hty. apply f_ctopt; assumption. Qed.
Lemma tbl_uint_overflowing_shl_vartime : tbl_ok "uint.overflowing_shl_vartime".
Proof. start. dom. vt_shl a Hwf. apply f_ctopt; assumption. Qed.
Lemma tbl_uint_shl_vartime : tbl_ok "uint.shl_vartime".
Proof. start. dom. vt_shl a Hwf. apply f_expect; assumption. Qed.
Lemma tbl_uint_wrapping_shl : tbl_ok "uint.wrapping_shl".
Proof. start. dom. ct_shl a Hwf Hne Hty. apply f_unwrap; [assumption | apply zeros_to_limbs]. Qed.
Lemma tbl_uint_wrapping_shl_vartime : tbl_ok "uint.wrapping_shl_vartime".
Proof. start. dom. vt_shl a Hwf. apply f_unwrap; [assumption | apply zeros_to_limbs]. Qed.
Lemma tbl_uint_shl : tbl_ok "uint.shl".
Proof.
  start. dom. apply u32_bits_true in Hty. apply f_guard; [apply s_ge0; assumption | exact Hty |]. intros Hs.
  rewrite (uint_shl_ct_eq_vartime (arg 0 a) (sarg 1 a) (wf_x a Hwf) Hne Hty (conj (s_ge0 a Hwf) Hs)).
  vt_shl a Hwf. apply f_expect; assumption.
Qed.

Lemma tbl_uint_overflowing_shr : tbl_ok "uint.overflowing_shr".
Proof. start. dom. ct_shr a Hwf Hne Hty. apply f_ctopt; assumption. Qed.
Lemma tbl_uint_overflowing_shr_vartime : tbl_ok "uint.overflowing_shr_vartime".
Proof. start. dom. vt_shr a Hwf. apply f_ctopt; assumption. Qed.
Lemma tbl_uint_shr_vartime : tbl_ok "uint.shr_vartime".
Proof. start. dom. vt_shr a Hwf. apply f_expect; assumption. Qed.
Lemma tbl_uint_wrapping_shr : tbl_ok "uint.wrapping_shr".
Proof. start. dom. ct_shr a Hwf Hne Hty. apply f_unwrap; [assumption | apply zeros_to_limbs]. Qed.
Lemma tbl_uint_wrapping_shr_vartime : tbl_ok "uint.wrapping_shr_vartime".
Proof. start. dom. vt_shr a Hwf. apply f_unwrap; [assumption | apply zeros_to_limbs]. Qed.
Lemma tbl_uint_shr : tbl_ok "uint.shr".
Proof.
  start. dom. apply u32_bits_true in Hty. apply f_guard; [apply s_ge0; assumption | exact Hty |]. intros Hs.
  rewrite (uint_shr_ct_eq_vartime (arg 0 a) (sarg 1 a) (wf_x a Hwf) Hne Hty (conj (s_ge0 a Hwf) Hs)).
  vt_shr a Hwf. apply f_expect; assumption.
Qed.

(* ================================================================== double-width shifts *)
Lemma wide_split n l h r : wf l -> wf h -> length l = n -> length h = n -> eval l + Bn n * eval h = r ->
  l = to_limbs n (r mod Bn n) /\ h = to_limbs n (r / Bn n).
Proof.
  intros Wl Wh Ll Lh E. pose proof (eval_bounds l Wl) as Bl. rewrite Ll in Bl.
  split; apply limbs_canon; auto.
  - apply (Z.mod_unique_pos r (Bn n) (eval h) (eval l)); lia.
  - apply (Z.div_unique_pos r (Bn n) (eval h) (eval l)); lia.
Qed.

Lemma tbl_uint_shl_vartime_wide : tbl_ok "uint.shl_vartime_wide".
Proof.
  start. dom. unfold halves_eq in Hty. apply Nat.eqb_eq in Hty. pose proof (sarg_word 2 a Hwf) as [Hs _].
  unfold sp_wide. cbv zeta. unfold Bits.ln, Bits.ev, bitsn.
  destruct (Z.leb_spec (2 * (64 * Z.of_nat (length (arg 0 a)))) (sarg 2 a)) as [Hge|Hlt].
  - destruct (uint_wide_overflow _ _ Hty (sarg 2 a) Hge) as [-> _]. reflexivity.
  - destruct (uint_shl_vartime_wide_correct _ _ (wf_arg 0 a Hwf) (wf_arg 1 a Hwf) Hty Hne (sarg 2 a) (conj Hs Hlt))
      as (l & h & -> & Wl & Wh & Ll & Lh & E).
    destruct (wide_split _ l h _ Wl Wh Ll Lh E) as [<- <-]. reflexivity.
Qed.
Lemma tbl_uint_shr_vartime_wide : tbl_ok "uint.shr_vartime_wide".
Proof.
  start. dom. unfold halves_eq in Hty. apply Nat.eqb_eq in Hty. pose proof (sarg_word 2 a Hwf) as [Hs _].
  unfold sp_wide. cbv zeta. unfold Bits.ln, Bits.ev, bitsn.
  destruct (Z.leb_spec (2 * (64 * Z.of_nat (length (arg 0 a)))) (sarg 2 a)) as [Hge|Hlt].
  - destruct (uint_wide_overflow _ _ Hty (sarg 2 a) Hge) as [_ ->]. reflexivity.
  - destruct (uint_shr_vartime_wide_correct _ _ (wf_arg 0 a Hwf) (wf_arg 1 a Hwf) Hty Hne (sarg 2 a) (conj Hs Hlt))
      as (l & h & -> & Wl & Wh & Ll & Lh & E).
    destruct (wide_split _ l h _ Wl Wh Ll Lh E) as [<- <-]. reflexivity.
Qed.

(* ================================================================== Int arithmetic right shift *)
Lemma seval_mod_eval v : wf v -> seval v mod Bn (length v) = eval v.
Proof.
  intros Hw. rewrite seval_is_neg. pose proof (eval_bounds v Hw). destruct (is_neg v).
  - symmetry. apply (Z.mod_unique_pos _ _ (-1)); lia.
  - apply Z.mod_small. lia.
Qed.
Lemma sar_canon x s v : wf v -> length v = length x -> seval v = seval x / 2 ^ s ->
  v = to_limbs (length x) (spec_sar (length x) (seval x) s).
Proof.
  intros Wv Lv E. apply limbs_canon; auto. unfold spec_sar. rewrite <- E, <- Lv. symmetry. apply seval_mod_eval. exact Wv.
Qed.
Lemma sign_fill_canon x : wf x -> x <> [] ->
  int_sign_fill x = to_limbs (length x) (if seval x <? 0 then Bn (length x) - 1 else 0).
Proof.
  intros Hw Hne. rewrite int_sign_fill_correct, is_neg_seval by assumption.
  destruct (seval x <? 0); [apply maxs_to_limbs | apply zeros_to_limbs].
Qed.
Lemma sar_vt_pack x s : wf x -> x <> [] -> 0 <= s ->
  exists v, int_overflowing_shr_vartime x s = (v, choice_of_bool (s <? bitsn (length x))) /\
            sh_in (length x) s (spec_sar (length x) (seval x) s) v.
Proof.
  intros Hw Hne Hs. pose proof (int_shr_vartime_correct x s Hw Hne Hs) as H. cbn zeta in H. destruct H as (Hc & Wr & Lr & Er).
  destruct (int_overflowing_shr_vartime x s) as [v c]. cbn [fst snd] in *. subst c.
  exists v. split; [reflexivity|]. repeat split; auto. intros _. apply sar_canon; assumption.
Qed.
Lemma sar_ct_pack x s : wf x -> x <> [] -> 64 * Z.of_nat (length x) < U32 -> 0 <= s < U32 ->
  exists v, int_overflowing_shr x s = Some (v, choice_of_bool (s <? bitsn (length x))) /\
            sh_in (length x) s (spec_sar (length x) (seval x) s) v.
Proof.
  intros Hw Hne Hb Hs. destruct (int_overflowing_shr_correct x s Hw Hne Hb Hs) as (v & E & Wv & Lv & Ev).
  exists v. split; [exact E|]. repeat split; auto. intros Hin. apply sar_canon; auto. apply Ev.
  apply Z.ltb_lt in Hin. exact Hin.
Qed.
Local Ltac vt_sar a Hwf Hne :=
  destruct (sar_vt_pack (arg 0 a) (sarg 1 a) (wf_x a Hwf) Hne (s_ge0 a Hwf)) as (v & -> & Hi); sp_open.
Local Ltac ct_sar a Hwf Hne Hty :=
  destruct (u32_bits_shift_true a Hty) as [Hb Hs];
  destruct (sar_ct_pack (arg 0 a) (sarg 1 a) (wf_x a Hwf) Hne Hb (conj (s_ge0 a Hwf) Hs)) as (v & -> & Hi); sp_open.

Lemma tbl_int_overflowing_shr : tbl_ok "int.overflowing_shr".
Proof. start. dom. ct_sar a Hwf Hne Hty. apply f_ctopt; assumption. Qed.
Lemma tbl_int_overflowing_shr_vartime : tbl_ok "int.overflowing_shr_vartime".
Proof. start. dom. vt_sar a Hwf Hne. apply f_ctopt; assumption. Qed.
Lemma tbl_int_shr_vartime : tbl_ok "int.shr_vartime".
Proof. start. dom. vt_sar a Hwf Hne. apply f_expect; assumption. Qed.
Lemma tbl_int_wrapping_shr : tbl_ok "int.wrapping_shr".
Proof.
  start. dom. ct_sar a Hwf Hne Hty. unfold sp_fill, sev, Bits.ln.
  apply f_unwrap; [assumption | apply sign_fill_canon; [apply wf_x; assumption | assumption]].
Qed.
Lemma tbl_int_wrapping_shr_vartime : tbl_ok "int.wrapping_shr_vartime".
Proof.
  start. dom. vt_sar a Hwf Hne. unfold sp_fill, sev, Bits.ln.
  apply f_unwrap; [assumption | apply sign_fill_canon; [apply wf_x; assumption | assumption]].
Qed.
Lemma tbl_int_shr : tbl_ok "int.shr".
Proof.
  start. dom. apply u32_bits_true in Hty. apply f_guard; [apply s_ge0; assumption | exact Hty |]. intros Hs.
  destruct (sar_ct_pack (arg 0 a) (sarg 1 a) (wf_x a Hwf) Hne Hty (conj (s_ge0 a Hwf) Hs)) as (v & -> & Hi); sp_open.
  apply f_expect; assumption.
Qed.

(* ================================================================== BoxedUint shifts *)
Lemma bshl_pack x s : wf x -> x <> [] -> 0 <= s ->
  exists v, boxed_overflowing_shl x s = Some (v, negb (s <? bitsn (length x))) /\
            sh_in (length x) s (spec_shl (length x) (eval x) s) v /\ sh_out (length x) s v.
Proof.
  intros Hw Hne Hs. destruct (boxed_overflowing_shl_correct x s Hw Hne Hs) as (v & E & Wv & Lv & Ev).
  exists v. split; [exact E|]. apply pack_of_eval; assumption.
Qed.
Lemma bshr_pack x s : wf x -> x <> [] -> 0 <= s ->
  exists v, boxed_overflowing_shr x s = Some (v, negb (s <? bitsn (length x))) /\
            sh_in (length x) s (spec_shr (eval x) s) v /\ sh_out (length x) s v.
Proof.
  intros Hw Hne Hs. destruct (boxed_overflowing_shr_correct x s Hw Hne Hs) as (v & E & Wv & Lv & Ev).
  exists v. split; [exact E|]. apply pack_of_eval; assumption.
Qed.
Local Ltac b_shl a Hwf Hne :=
  destruct (bshl_pack (arg 0 a) (sarg 1 a) (wf_x a Hwf) Hne (s_ge0 a Hwf)) as (v & -> & Hi & Ho); sp_open.
Local Ltac b_shr a Hwf Hne :=
  destruct (bshr_pack (arg 0 a) (sarg 1 a) (wf_x a Hwf) Hne (s_ge0 a Hwf)) as (v & -> & Hi & Ho); sp_open.
Local Ltac bvt_shl a Hwf := unfold boxed_shl_vartime_into; vt_shl a Hwf.
Local Ltac bvt_shr a Hwf := rewrite boxed_shr_vartime_into_eq; vt_shr a Hwf.

Lemma tbl_boxed_overflowing_shl : tbl_ok "boxed.overflowing_shl".
Proof. start. dom. b_shl a Hwf Hne. apply f_bpair; assumption. Qed.
Lemma tbl_boxed_shl : tbl_ok "boxed.shl".
Proof.
  start. dom. apply u32_bits_true in Hty. apply f_guard; [apply s_ge0; assumption | exact Hty |]. intros _.
  b_shl a Hwf Hne. apply f_bpanic; assumption.
Qed.
Lemma tbl_boxed_wrapping_shl : tbl_ok "boxed.wrapping_shl".
Proof. start. dom. b_shl a Hwf Hne. apply f_bwrap; assumption. Qed.
Lemma tbl_boxed_overflowing_shl_opt : tbl_ok "boxed.overflowing_shl_opt".
Proof. start. dom. b_shl a Hwf Hne. apply f_bopt; assumption. Qed.
Lemma tbl_boxed_shl_vartime : tbl_ok "boxed.shl_vartime".
Proof. start. dom. bvt_shl a Hwf. apply f_optstd; assumption. Qed.
Lemma tbl_boxed_wrapping_shl_vartime : tbl_ok "boxed.wrapping_shl_vartime".
Proof. start. dom. bvt_shl a Hwf. cbn [fst]. apply f_fst; assumption. Qed.

Lemma tbl_boxed_overflowing_shr : tbl_ok "boxed.overflowing_shr".
Proof. start. dom. b_shr a Hwf Hne. apply f_bpair; assumption. Qed.
Lemma tbl_boxed_shr : tbl_ok "boxed.shr".
Proof.
  start. dom. apply u32_bits_true in Hty. apply f_guard; [apply s_ge0; assumption | exact Hty |]. intros _.
  b_shr a Hwf Hne. apply f_bpanic; assumption.
Qed.
Lemma tbl_boxed_wrapping_shr : tbl_ok "boxed.wrapping_shr".
Proof. start. dom. b_shr a Hwf Hne. apply f_bwrap; assumption. Qed.
Lemma tbl_boxed_overflowing_shr_opt : tbl_ok "boxed.overflowing_shr_opt".
Proof. start. dom. b_shr a Hwf Hne. apply f_bopt; assumption. Qed.
Lemma tbl_boxed_shr_vartime : tbl_ok "boxed.shr_vartime".
Proof. start. dom. bvt_shr a Hwf. apply f_optstd; assumption. Qed.
Lemma tbl_boxed_wrapping_shr_vartime : tbl_ok "boxed.wrapping_shr_vartime".
Proof. start. dom. bvt_shr a Hwf. cbn [fst]. apply f_fst; assumption. Qed.

(* ================================================================== bit queries *)
Lemma tbl_bits_bit : tbl_ok "bits.bit".
Proof.
  start. destruct (u32_index_true a Hty) as [Hl Hi]. destruct bit_all as (_ & H & _).
  rewrite (H _ _ (wf_x a Hwf) Hl (conj (s_ge0 a Hwf) Hi)), choice_to_bool_choice. reflexivity.
Qed.
Lemma tbl_bits_bit_vartime : tbl_ok "bits.bit_vartime".
Proof. start. destruct bit_all as (_ & _ & H). rewrite (H _ _ (wf_x a Hwf) (s_ge0 a Hwf)). reflexivity. Qed.
Lemma tbl_bits_bits : tbl_ok "bits.bits".
Proof.
  start. destruct bit_length_all as (H & _). rewrite (H _ (wf_x a Hwf)). unfold bitsn, Bits.ln, Bits.ev.
  match goal with |- vu32 ?x = vu32 ?y => replace x with y by lia end. reflexivity.
Qed.
Lemma tbl_bits_bits_vartime : tbl_ok "bits.bits_vartime".
Proof. start. dom. destruct bit_length_all as (_ & H & _). rewrite (H _ (wf_x a Hwf) Hne). reflexivity. Qed.
Lemma tbl_bits_leading_zeros : tbl_ok "bits.leading_zeros".
Proof. start. destruct bit_length_all as (H & _). rewrite (H _ (wf_x a Hwf)). reflexivity. Qed.
Lemma tbl_bits_leading_zeros_vartime : tbl_ok "bits.leading_zeros_vartime".
Proof. start. dom. destruct bit_length_all as (_ & H & _). rewrite (H _ (wf_x a Hwf) Hne). reflexivity. Qed.
Lemma tbl_bits_trailing_zeros : tbl_ok "bits.trailing_zeros".
Proof. start. destruct trailing_all as (H & _). rewrite (H _ (wf_x a Hwf)). reflexivity. Qed.
Lemma tbl_bits_trailing_zeros_vartime : tbl_ok "bits.trailing_zeros_vartime".
Proof. start. destruct trailing_all as (_ & H & _). rewrite (H _ (wf_x a Hwf)). reflexivity. Qed.
Lemma tbl_bits_trailing_ones : tbl_ok "bits.trailing_ones".
Proof. start. destruct trailing_all as (_ & _ & H & _). rewrite (H _ (wf_x a Hwf)). reflexivity. Qed.
Lemma tbl_bits_trailing_ones_vartime : tbl_ok "bits.trailing_ones_vartime".
Proof. start. destruct trailing_all as (_ & _ & _ & H & _). rewrite (H _ (wf_x a Hwf)). reflexivity. Qed.

Lemma in_range_spec a : wf_args a -> in_range a = (sarg 1 a <? 64 * Z.of_nat (length (arg 0 a))).
Proof.
  intros Hwf. unfold in_range, bitsn, Bits.ln.
  replace (0 <=? sarg 1 a) with true by (symmetry; apply Z.leb_le; apply s_ge0; assumption). reflexivity.
Qed.
Lemma tbl_bits_set_bit : tbl_ok "bits.set_bit".
Proof.
  start. destruct (u32_index_true a Hty) as [Hl Hi]. destruct set_bit_all as (Hin & Hout & _).
  unfold sp_set_bit. rewrite in_range_spec by assumption. unfold Bits.sp_val, Bits.ln, Bits.ev.
  destruct (Z.ltb_spec (sarg 1 a) (64 * Z.of_nat (length (arg 0 a)))) as [Hlt|Hge].
  - pose proof (Hin _ _ (negb (sarg 2 a =? 0)) (wf_x a Hwf) Hl (conj (s_ge0 a Hwf) Hlt)) as H. cbv zeta in H.
    destruct H as (Wr & Lr & Er). rewrite <- Er, <- Lr, to_limbs_eval by exact Wr. reflexivity.
  - rewrite (Hout _ _ (negb (sarg 2 a =? 0)) (wf_x a Hwf) Hl (conj Hge Hi)), to_limbs_eval by (apply wf_x; assumption).
    reflexivity.
Qed.
Lemma tbl_bits_set_bit_vartime : tbl_ok "bits.set_bit_vartime".
Proof.
  start. destruct set_bit_all as (_ & _ & H & _).
  specialize (H (arg 0 a) (sarg 1 a) (negb (sarg 2 a =? 0)) (wf_x a Hwf) (s_ge0 a Hwf)).
  unfold sp_set_bit. rewrite in_range_spec by assumption. unfold Bits.sp_val, Bits.ln, Bits.ev.
  destruct (sarg 1 a <? 64 * Z.of_nat (length (arg 0 a))).
  - destruct H as (r & -> & Wr & Lr & Er). unfold out_optL. rewrite <- Er, <- Lr, to_limbs_eval by exact Wr. reflexivity.
  - rewrite H. reflexivity.
Qed.

(* ================================================================== bitwise operators *)
Local Ltac canon3 H := cbv zeta in H; destruct H as (Wr & Lr & Er); unfold Bits.sp_val, Bits.lmax, Bits.ln, Bits.ev;
  rewrite <- Er, <- Lr, to_limbs_eval by exact Wr; reflexivity.
Lemma tbl_uint_and : tbl_ok "uint.and".
Proof.
  start. unfold same_lenb in Hty. apply Nat.eqb_eq in Hty. destruct bitwise_all as (H & _).
  pose proof (H _ _ (wf_arg 0 a Hwf) (wf_arg 1 a Hwf) Hty) as H1. canon3 H1.
Qed.
Lemma tbl_uint_or : tbl_ok "uint.or".
Proof.
  start. unfold same_lenb in Hty. apply Nat.eqb_eq in Hty. destruct bitwise_all as (_ & H & _).
  pose proof (H _ _ (wf_arg 0 a Hwf) (wf_arg 1 a Hwf) Hty) as H1. canon3 H1.
Qed.
Lemma tbl_uint_xor : tbl_ok "uint.xor".
Proof.
  start. unfold same_lenb in Hty. apply Nat.eqb_eq in Hty. destruct bitwise_all as (_ & _ & H & _).
  pose proof (H _ _ (wf_arg 0 a Hwf) (wf_arg 1 a Hwf) Hty) as H1. canon3 H1.
Qed.
Lemma tbl_uint_not : tbl_ok "uint.not".
Proof. start. destruct bitwise_all as (_ & _ & _ & H & _). pose proof (H _ (wf_arg 0 a Hwf)) as H1. canon3 H1. Qed.
Lemma tbl_uint_and_limb : tbl_ok "uint.and_limb".
Proof.
  start. destruct bitwise_all as (_ & _ & _ & _ & _ & H).
  pose proof (H _ _ (wf_arg 0 a Hwf) (sarg_word 1 a Hwf)) as H1. canon3 H1.
Qed.
Lemma tbl_boxed_and : tbl_ok "boxed.and".
Proof. start. destruct boxed_bitwise_all as (H & _). pose proof (H _ _ (wf_arg 0 a Hwf) (wf_arg 1 a Hwf)) as H1. canon3 H1. Qed.
Lemma tbl_boxed_or : tbl_ok "boxed.or".
Proof. start. destruct boxed_bitwise_all as (_ & H & _). pose proof (H _ _ (wf_arg 0 a Hwf) (wf_arg 1 a Hwf)) as H1. canon3 H1. Qed.
Lemma tbl_boxed_xor : tbl_ok "boxed.xor".
Proof. start. destruct boxed_bitwise_all as (_ & _ & H). pose proof (H _ _ (wf_arg 0 a Hwf) (wf_arg 1 a Hwf)) as H1. canon3 H1. Qed.
Lemma tbl_boxed_or_assign : tbl_ok "boxed.or_assign".
Proof.
  start. pose proof (boxed_or_assign_correct _ _ (wf_arg 0 a Hwf) (wf_arg 1 a Hwf)) as H1. cbv zeta in H1.
  destruct H1 as (_ & H1). canon3 H1.
Qed.

(* ================================================================== the area theorem: all 65 keys *)
(* [bits_keys] (Proofs/TotalityP.v) is exactly the key set of the two tables *)
Lemma bits_tables_same_keys : map fst ops_bits_model = map fst ops_bits_spec.
Proof. reflexivity. Qed.
Lemma bits_keys_iff k : In k (map fst ops_bits_model) <-> In k bits_keys.
Proof.
  split.
  - intros H. apply mem_str_In. pose proof bits_cover as C. unfold covers in C. rewrite forallb_forall in C. apply C; exact H.
  - apply sublist_In. vm_compute. reflexivity.
Qed.
Lemma bits_keys_count : length bits_keys = 65%nat /\ length ops_bits_model = 65%nat.
Proof. split; reflexivity. Qed.

Lemma bits_all_keys_ok k : In k bits_keys -> tbl_ok k.
Proof.
  intros Hin. unfold bits_keys, bits_quiet_keys, bits_panic_keys in Hin. cbn [In app] in Hin.
  destruct Hin as [<- | Hin]; [exact tbl_limb_wrapping_shl|].
  destruct Hin as [<- | Hin]; [exact tbl_limb_wrapping_shr|].
  destruct Hin as [<- | Hin]; [exact tbl_limb_bits|].
  destruct Hin as [<- | Hin]; [exact tbl_limb_leading_zeros|].
  destruct Hin as [<- | Hin]; [exact tbl_limb_trailing_zeros|].
  destruct Hin as [<- | Hin]; [exact tbl_limb_trailing_ones|].
  destruct Hin as [<- | Hin]; [exact tbl_limb_and|].
  destruct Hin as [<- | Hin]; [exact tbl_limb_or|].
  destruct Hin as [<- | Hin]; [exact tbl_limb_xor|].
  destruct Hin as [<- | Hin]; [exact tbl_limb_not|].
  destruct Hin as [<- | Hin]; [exact tbl_uint_overflowing_shl_vartime|].
  destruct Hin as [<- | Hin]; [exact tbl_uint_wrapping_shl_vartime|].
  destruct Hin as [<- | Hin]; [exact tbl_uint_overflowing_shr_vartime|].
  destruct Hin as [<- | Hin]; [exact tbl_uint_wrapping_shr_vartime|].
  destruct Hin as [<- | Hin]; [exact tbl_int_overflowing_shr_vartime|].
  destruct Hin as [<- | Hin]; [exact tbl_int_wrapping_shr_vartime|].
  destruct Hin as [<- | Hin]; [exact tbl_boxed_shl_vartime|].
  destruct Hin as [<- | Hin]; [exact tbl_boxed_wrapping_shl_vartime|].
  destruct Hin as [<- | Hin]; [exact tbl_boxed_shr_vartime|].
  destruct Hin as [<- | Hin]; [exact tbl_boxed_wrapping_shr_vartime|].
  destruct Hin as [<- | Hin]; [exact tbl_bits_bit|].
  destruct Hin as [<- | Hin]; [exact tbl_bits_bit_vartime|].
  destruct Hin as [<- | Hin]; [exact tbl_bits_bits|].
  destruct Hin as [<- | Hin]; [exact tbl_bits_leading_zeros|].
  destruct Hin as [<- | Hin]; [exact tbl_bits_trailing_zeros|].
  destruct Hin as [<- | Hin]; [exact tbl_bits_trailing_zeros_vartime|].
  destruct Hin as [<- | Hin]; [exact tbl_bits_trailing_ones|].
  destruct Hin as [<- | Hin]; [exact tbl_bits_trailing_ones_vartime|].
  destruct Hin as [<- | Hin]; [exact tbl_bits_set_bit|].
  destruct Hin as [<- | Hin]; [exact tbl_uint_and|].
  destruct Hin as [<- | Hin]; [exact tbl_uint_or|].
  destruct Hin as [<- | Hin]; [exact tbl_uint_xor|].
  destruct Hin as [<- | Hin]; [exact tbl_uint_not|].
  destruct Hin as [<- | Hin]; [exact tbl_uint_and_limb|].
  destruct Hin as [<- | Hin]; [exact tbl_boxed_and|].
  destruct Hin as [<- | Hin]; [exact tbl_boxed_or|].
  destruct Hin as [<- | Hin]; [exact tbl_boxed_xor|].
  destruct Hin as [<- | Hin]; [exact tbl_boxed_or_assign|].
  destruct Hin as [<- | Hin]; [exact tbl_limb_shl|].
  destruct Hin as [<- | Hin]; [exact tbl_limb_shr|].
  destruct Hin as [<- | Hin]; [exact tbl_uint_overflowing_shl|].
  destruct Hin as [<- | Hin]; [exact tbl_uint_shl|].
  destruct Hin as [<- | Hin]; [exact tbl_uint_shl_vartime|].
  destruct Hin as [<- | Hin]; [exact tbl_uint_wrapping_shl|].
  destruct Hin as [<- | Hin]; [exact tbl_uint_overflowing_shr|].
  destruct Hin as [<- | Hin]; [exact tbl_uint_shr|].
  destruct Hin as [<- | Hin]; [exact tbl_uint_shr_vartime|].
  destruct Hin as [<- | Hin]; [exact tbl_uint_wrapping_shr|].
  destruct Hin as [<- | Hin]; [exact tbl_uint_shl_vartime_wide|].
  destruct Hin as [<- | Hin]; [exact tbl_uint_shr_vartime_wide|].
  destruct Hin as [<- | Hin]; [exact tbl_int_overflowing_shr|].
  destruct Hin as [<- | Hin]; [exact tbl_int_shr|].
  destruct Hin as [<- | Hin]; [exact tbl_int_shr_vartime|].
  destruct Hin as [<- | Hin]; [exact tbl_int_wrapping_shr|].
  destruct Hin as [<- | Hin]; [exact tbl_boxed_overflowing_shl|].
  destruct Hin as [<- | Hin]; [exact tbl_boxed_shl|].
  destruct Hin as [<- | Hin]; [exact tbl_boxed_wrapping_shl|].
  destruct Hin as [<- | Hin]; [exact tbl_boxed_overflowing_shl_opt|].
  destruct Hin as [<- | Hin]; [exact tbl_boxed_overflowing_shr|].
  destruct Hin as [<- | Hin]; [exact tbl_boxed_shr|].
  destruct Hin as [<- | Hin]; [exact tbl_boxed_wrapping_shr|].
  destruct Hin as [<- | Hin]; [exact tbl_boxed_overflowing_shr_opt|].
  destruct Hin as [<- | Hin]; [exact tbl_bits_bits_vartime|].
  destruct Hin as [<- | Hin]; [exact tbl_bits_leading_zeros_vartime|].
  destruct Hin as [<- | Hin]; [exact tbl_bits_set_bit_vartime|].
  contradiction.
Qed.

Theorem bits_tables_agree : forall k dbg a, In k bits_keys -> wf_args a -> typedb bits_tbl_ty k a = true ->
  run_tab ops_bits_spec k dbg a <> Unsupported ->
  run_tab ops_bits_model k dbg a = run_tab ops_bits_spec k dbg a.
Proof. intros k dbg a Hin. exact (bits_all_keys_ok k Hin dbg a). Qed.
