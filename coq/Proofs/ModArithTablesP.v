(** C07: the model table and the spec table of Model/ModArith.v agree, key by key, wherever the spec is defined
    (spec entry <> Unsupported), for all well-formed argument lists.  Keys that go through the wide
    multiplication, the Knuth remainder, the 64-bit reciprocal or Montgomery form take the corresponding fact as a
    hypothesis; this is visible in the lemma name (_given_mul, _given_recip, _given_rem). *)
From CB Require Import Model.Limbs Model.AddSub Model.Mul Model.Div Model.ModArith
  Proofs.WordP Proofs.LimbsP Proofs.AddSubP Proofs.DivP Proofs.ModArithP.
From Coq Require Import ZArith Lia List Bool String.
Open Scope Z_scope.
Notation length := List.length.

Definition run_op7 (t : list (string * opfn)) (k : string) (dbg : bool) (args : list (list Z)) : outcome :=
  match lookup k t with Some f => f dbg args | None => Unsupported end.
Notation M7 := (run_op7 ops_modarith_model).
Notation S7 := (run_op7 ops_modarith_spec).

Ltac table_open :=
  unfold run_op7;
  lazy beta iota zeta delta [lookup ops_modarith_model ops_modarith_spec String.eqb Ascii.eqb Bool.eqb].

Definition wf_args (a : list (list Z)) : Prop := Forall wf a.

Lemma wf_arg i a : wf_args a -> wf (arg i a).
Proof.
  unfold wf_args, arg. intros H. revert i. induction H as [|x l Hx Hl IH]; intros i.
  - destruct i; apply wf_nil.
  - destruct i; [exact Hx | apply IH].
Qed.

Lemma sarg_range i a : wf_args a -> 0 <= sarg i a < B.
Proof.
  intros H. pose proof (wf_arg i a H) as Hw. unfold sarg, arg in *.
  destruct (nth i a []) as [|x l]; cbn [nth].
  - pose proof B_gt1. lia.
  - apply wf_cons in Hw. destruct Hw as [Hx _]. exact Hx.
Qed.

(** a well-formed n-limb result whose value is the canonical residue is THE limb list of the spec *)
Lemma canonical_limbs r n x p : wf r -> length r = n -> eval r = x mod p -> 0 < p <= Bn n ->
  r = to_limbs n (x mod p).
Proof.
  intros Hw Hl He Hp. apply to_limbs_unique; auto.
  pose proof (Z.mod_pos_bound x p ltac:(lia)). rewrite Z.mod_small by lia. assumption.
Qed.

Ltac dom_hyps H :=
  repeat match type of H with
  | (_ && _)%bool = true => let H1 := fresh H in apply andb_prop in H; destruct H as [H H1]; try dom_hyps H1
  end.
Ltac dom_conv :=
  repeat match goal with
  | H : (_ <? _) = true |- _ => apply Z.ltb_lt in H
  | H : (_ <=? _) = true |- _ => apply Z.leb_le in H
  | H : (_ =? _)%nat = true |- _ => apply Nat.eqb_eq in H
  end.

Section Entries.
Variable a : list (list Z).
Hypothesis Hwf : wf_args a.

Lemma bound_by_len i : eval (arg i a) < Bn (ln i a).
Proof. pose proof (eval_bounds _ (wf_arg i a Hwf)). unfold ln. lia. Qed.

Lemma entry_add_mod : let s := dom2 a 2 (rmod (ln 0 a) (ev 0 a + ev 1 a) (ev 2 a)) in
  s <> Unsupported -> Val [add_mod (arg 0 a) (arg 1 a) (arg 2 a)] = s.
Proof.
  cbv zeta. unfold dom2, rmod, ev, ln.
  destruct (_ && _)%bool eqn:D; [intros _ | intros H; contradiction H; reflexivity].
  dom_hyps D. dom_conv.
  pose proof (eval_nonneg _ (wf_arg 0 a Hwf)). pose proof (bound_by_len 2). unfold ln in *.
  destruct (add_mod_correct (arg 0 a) (arg 1 a) (arg 2 a)) as (He & Hw & Hl); auto using wf_arg.
  do 2 f_equal. apply canonical_limbs; auto. rewrite D1. lia.
Qed.

Lemma entry_sub_mod : let s := dom2 a 2 (rmod (ln 0 a) (ev 0 a - ev 1 a) (ev 2 a)) in
  s <> Unsupported -> Val [sub_mod (arg 0 a) (arg 1 a) (arg 2 a)] = s.
Proof.
  cbv zeta. unfold dom2, rmod, ev, ln.
  destruct (_ && _)%bool eqn:D; [intros _ | intros H; contradiction H; reflexivity].
  dom_hyps D. dom_conv.
  pose proof (eval_nonneg _ (wf_arg 0 a Hwf)). pose proof (bound_by_len 2). unfold ln in *.
  destruct (sub_mod_correct (arg 0 a) (arg 1 a) (arg 2 a)) as (He & Hw & Hl); auto using wf_arg.
  do 2 f_equal. apply canonical_limbs; auto. rewrite D1. lia.
Qed.

Lemma entry_double_mod : let s := dom1 a (rmod (ln 0 a) (2 * ev 0 a) (ev 1 a)) in
  s <> Unsupported -> Val [double_mod (arg 0 a) (arg 1 a)] = s.
Proof.
  cbv zeta. unfold dom1, rmod, ev, ln.
  destruct (_ && _)%bool eqn:D; [intros _ | intros H; contradiction H; reflexivity].
  dom_hyps D. dom_conv.
  pose proof (eval_nonneg _ (wf_arg 0 a Hwf)). pose proof (bound_by_len 1). unfold ln in *.
  destruct (double_mod_correct (arg 0 a) (arg 1 a)) as (He & Hw & Hl); auto using wf_arg.
  do 2 f_equal. apply canonical_limbs; auto. rewrite D0. lia.
Qed.

Lemma entry_neg_mod : let s := dom1 a (rmod (ln 0 a) (- ev 0 a) (ev 1 a)) in
  s <> Unsupported -> Val [neg_mod (arg 0 a) (arg 1 a)] = s.
Proof.
  cbv zeta. unfold dom1, rmod, ev, ln.
  destruct (_ && _)%bool eqn:D; [intros _ | intros H; contradiction H; reflexivity].
  dom_hyps D. dom_conv.
  pose proof (eval_nonneg _ (wf_arg 0 a Hwf)). pose proof (bound_by_len 1). unfold ln in *.
  destruct (neg_mod_correct (arg 0 a) (arg 1 a)) as (He & Hw & Hl); auto using wf_arg.
  do 2 f_equal. apply canonical_limbs; auto. rewrite D0. lia.
Qed.

Lemma entry_add_mod_special : let c := sarg 2 a in
  let s := doms a true c (rmod (ln 0 a) (ev 0 a + ev 1 a) (psp (ln 0 a) c)) in
  s <> Unsupported -> Val [add_mod_special (arg 0 a) (arg 1 a) c] = s.
Proof.
  cbv zeta. unfold doms, rmod, ev, ln.
  destruct (_ && _)%bool eqn:D; [intros _ | intros H; contradiction H; reflexivity].
  dom_hyps D. dom_conv.
  destruct (add_mod_special_correct (arg 0 a) (arg 1 a) (sarg 2 a)) as (He & Hw & Hl); auto using wf_arg; try lia.
  do 2 f_equal. apply canonical_limbs; auto. unfold psp in *. lia.
Qed.

Lemma entry_sub_mod_special : let c := sarg 2 a in
  let s := doms a true c (rmod (ln 0 a) (ev 0 a - ev 1 a) (psp (ln 0 a) c)) in
  s <> Unsupported -> Val [sub_mod_special (arg 0 a) (arg 1 a) c] = s.
Proof.
  cbv zeta. unfold doms, rmod, ev, ln.
  destruct (_ && _)%bool eqn:D; [intros _ | intros H; contradiction H; reflexivity].
  dom_hyps D. dom_conv.
  destruct (sub_mod_special_correct (arg 0 a) (arg 1 a) (sarg 2 a)) as (He & Hw & Hl); auto using wf_arg; try lia.
  do 2 f_equal. apply canonical_limbs; auto. unfold psp in *. lia.
Qed.

Lemma entry_neg_mod_special : let c := sarg 1 a in
  let s := doms a false c (rmod (ln 0 a) (- ev 0 a) (psp (ln 0 a) c)) in
  s <> Unsupported -> Val [neg_mod_special (arg 0 a) c] = s.
Proof.
  cbv zeta. unfold doms, rmod, ev, ln.
  destruct (_ && _)%bool eqn:D; [intros _ | intros H; contradiction H; reflexivity].
  dom_hyps D. dom_conv.
  destruct (neg_mod_special_correct (arg 0 a) (sarg 1 a)) as (He & Hw & Hl); auto using wf_arg; try lia.
  do 2 f_equal. apply canonical_limbs; auto. unfold psp in *. lia.
Qed.

Lemma entry_mul_mod_special_given_mul_recip dbg mulf : let c := sarg 2 a in
  let s := doms a true c (rmod (ln 0 a) (ev 0 a * ev 1 a) (psp (ln 0 a) c)) in
  split_mul_ok mulf (arg 0 a) (arg 1 a) ->
  recip_ok (r_d (recip_new (B - c))) (reciprocal (r_d (recip_new (B - c)))) ->
  s <> Unsupported -> vpanic_none (mul_mod_special dbg mulf (arg 0 a) (arg 1 a) c) = s.
Proof.
  cbv zeta. intros Hmul Hrec. unfold doms, rmod, ev, ln.
  destruct (_ && _)%bool eqn:D; [intros _ | intros H; contradiction H; reflexivity].
  dom_hyps D. dom_conv.
  destruct (mul_mod_special_all_widths_given_mul_recip dbg mulf (arg 0 a) (arg 1 a) (sarg 2 a))
    as (r & Hr & He & Hw & Hl); auto using wf_arg; try lia.
  rewrite Hr. unfold vpanic_none. do 2 f_equal. apply canonical_limbs; auto. unfold psp in *. lia.
Qed.
End Entries.

(** what is assumed of the wide remainder (Knuth loop of rem_wide_vartime, C02) for the modulus p *)
Definition rem_wide_ok (p : list Z) : Prop :=
  forall lo hi, wf lo -> wf hi -> length lo = length p -> length hi = length p ->
    let r := rem_wide_vartime lo hi p in
    wf r /\ length r = length p /\ eval r = (eval lo + Bn (length p) * eval hi) mod eval p.

Section MulEntries.
Variable a : list (list Z).
Hypothesis Hwf : wf_args a.

Lemma mul_mod_vartime_given_mul_rem :
  split_mul_ok uint_split_mul (arg 0 a) (arg 1 a) -> rem_wide_ok (arg 2 a) -> ln 0 a = ln 2 a -> ev 2 a <> 0 ->
  uint_mul_mod_vartime (arg 0 a) (arg 1 a) (arg 2 a) = to_limbs (ln 0 a) ((ev 0 a * ev 1 a) mod ev 2 a).
Proof.
  intros Hmul Hrem Hl Hnz. unfold uint_mul_mod_vartime, ev, ln in *.
  destruct (uint_split_mul (arg 0 a) (arg 1 a)) as [lo hi] eqn:Em.
  destruct (Hmul lo hi Em) as (Hwlo & Hwhi & Hllo & Hlhi & Hprod).
  destruct (Hrem lo hi Hwlo Hwhi ltac:(lia) ltac:(lia)) as (Hw & Hlr & He).
  pose proof (eval_bounds _ (wf_arg 2 a Hwf)) as Bp.
  pose proof (eval_nonneg _ (wf_arg 2 a Hwf)).
  apply canonical_limbs.
  - exact Hw.
  - lia.
  - rewrite He, <- Hl, Hprod. reflexivity.
  - rewrite Hl. lia.
Qed.

Lemma entry_mul_mod_vartime_given_mul_rem :
  let s := if ev 2 a =? 0 then Unsupported else rmod (ln 0 a) (ev 0 a * ev 1 a) (ev 2 a) in
  split_mul_ok uint_split_mul (arg 0 a) (arg 1 a) -> rem_wide_ok (arg 2 a) -> ln 0 a = ln 2 a ->
  s <> Unsupported -> Val [uint_mul_mod_vartime (arg 0 a) (arg 1 a) (arg 2 a)] = s.
Proof.
  cbv zeta. intros Hmul Hrem Hl. destruct (ev 2 a =? 0) eqn:Ez; [intros H; contradiction H; reflexivity | intros _].
  apply Z.eqb_neq in Ez. unfold rmod. rewrite mul_mod_vartime_given_mul_rem by assumption. reflexivity.
Qed.

Lemma entry_mul_mod_trait_given_mul_rem :
  let s := if ev 2 a =? 0 then PanicV else rmod (ln 0 a) (ev 0 a * ev 1 a) (ev 2 a) in
  split_mul_ok uint_split_mul (arg 0 a) (arg 1 a) -> rem_wide_ok (arg 2 a) -> ln 0 a = ln 2 a ->
  (if forallb (fun x => x =? 0) (arg 2 a) then PanicV else Val [uint_mul_mod_vartime (arg 0 a) (arg 1 a) (arg 2 a)]) = s.
Proof.
  cbv zeta. intros Hmul Hrem Hl. rewrite forallb_zero_eval by (apply wf_arg; assumption). fold (ev 2 a).
  destruct (ev 2 a =? 0) eqn:Ez; [reflexivity|].
  apply Z.eqb_neq in Ez. unfold rmod. rewrite mul_mod_vartime_given_mul_rem by assumption. reflexivity.
Qed.
End MulEntries.

(* ------------------------------------------------------------------ *)
(** * Per-key statements *)

Section Keys.
Variables (dbg : bool) (a : list (list Z)).
Hypothesis Hwf : wf_args a.


Lemma tbl_uint_add_mod : S7 "uint.add_mod" dbg a <> Unsupported -> M7 "uint.add_mod" dbg a = S7 "uint.add_mod" dbg a.
Proof. table_open. apply (entry_add_mod a Hwf). Qed.
Lemma tbl_boxed_add_mod : S7 "boxed.add_mod" dbg a <> Unsupported -> M7 "boxed.add_mod" dbg a = S7 "boxed.add_mod" dbg a.
Proof. table_open. apply (entry_add_mod a Hwf). Qed.
Lemma tbl_uint_double_mod : S7 "uint.double_mod" dbg a <> Unsupported -> M7 "uint.double_mod" dbg a = S7 "uint.double_mod" dbg a.
Proof. table_open. apply (entry_double_mod a Hwf). Qed.
Lemma tbl_boxed_double_mod : S7 "boxed.double_mod" dbg a <> Unsupported -> M7 "boxed.double_mod" dbg a = S7 "boxed.double_mod" dbg a.
Proof. table_open. apply (entry_double_mod a Hwf). Qed.
Lemma tbl_uint_add_mod_special : S7 "uint.add_mod_special" dbg a <> Unsupported -> M7 "uint.add_mod_special" dbg a = S7 "uint.add_mod_special" dbg a.
Proof. table_open. apply (entry_add_mod_special a Hwf). Qed.
Lemma tbl_uint_sub_mod : S7 "uint.sub_mod" dbg a <> Unsupported -> M7 "uint.sub_mod" dbg a = S7 "uint.sub_mod" dbg a.
Proof. table_open. apply (entry_sub_mod a Hwf). Qed.
Lemma tbl_boxed_sub_mod : S7 "boxed.sub_mod" dbg a <> Unsupported -> M7 "boxed.sub_mod" dbg a = S7 "boxed.sub_mod" dbg a.
Proof. table_open. apply (entry_sub_mod a Hwf). Qed.
Lemma tbl_uint_sub_mod_special : S7 "uint.sub_mod_special" dbg a <> Unsupported -> M7 "uint.sub_mod_special" dbg a = S7 "uint.sub_mod_special" dbg a.
Proof. table_open. apply (entry_sub_mod_special a Hwf). Qed.
Lemma tbl_boxed_sub_mod_special : S7 "boxed.sub_mod_special" dbg a <> Unsupported -> M7 "boxed.sub_mod_special" dbg a = S7 "boxed.sub_mod_special" dbg a.
Proof. table_open. apply (entry_sub_mod_special a Hwf). Qed.
Lemma tbl_uint_neg_mod : S7 "uint.neg_mod" dbg a <> Unsupported -> M7 "uint.neg_mod" dbg a = S7 "uint.neg_mod" dbg a.
Proof. table_open. apply (entry_neg_mod a Hwf). Qed.
Lemma tbl_boxed_neg_mod : S7 "boxed.neg_mod" dbg a <> Unsupported -> M7 "boxed.neg_mod" dbg a = S7 "boxed.neg_mod" dbg a.
Proof. table_open. apply (entry_neg_mod a Hwf). Qed.
Lemma tbl_uint_neg_mod_special : S7 "uint.neg_mod_special" dbg a <> Unsupported -> M7 "uint.neg_mod_special" dbg a = S7 "uint.neg_mod_special" dbg a.
Proof. table_open. apply (entry_neg_mod_special a Hwf). Qed.
Lemma tbl_boxed_neg_mod_special : S7 "boxed.neg_mod_special" dbg a <> Unsupported -> M7 "boxed.neg_mod_special" dbg a = S7 "boxed.neg_mod_special" dbg a.
Proof. table_open. apply (entry_neg_mod_special a Hwf). Qed.

(** mul_mod_special: given the wide product (C03) and, for one limb, the exact reciprocal of 2^64 - c (C02) *)
Lemma tbl_uint_mul_mod_special_given_mul_recip :
  split_mul_ok uint_split_mul (arg 0 a) (arg 1 a) ->
  recip_ok (r_d (recip_new (B - sarg 2 a))) (reciprocal (r_d (recip_new (B - sarg 2 a)))) ->
  S7 "uint.mul_mod_special" dbg a <> Unsupported -> M7 "uint.mul_mod_special" dbg a = S7 "uint.mul_mod_special" dbg a.
Proof. intros Hm Hr. table_open. apply (entry_mul_mod_special_given_mul_recip a Hwf dbg uint_split_mul Hm Hr). Qed.
Lemma tbl_boxed_mul_mod_special_given_mul_recip :
  split_mul_ok boxed_split_mul (arg 0 a) (arg 1 a) ->
  recip_ok (r_d (recip_new (B - sarg 2 a))) (reciprocal (r_d (recip_new (B - sarg 2 a)))) ->
  S7 "boxed.mul_mod_special" dbg a <> Unsupported -> M7 "boxed.mul_mod_special" dbg a = S7 "boxed.mul_mod_special" dbg a.
Proof. intros Hm Hr. table_open. apply (entry_mul_mod_special_given_mul_recip a Hwf dbg boxed_split_mul Hm Hr). Qed.

(** mul_mod_vartime / MulMod trait: given the wide product (C03) and the wide Knuth remainder (C02) *)
Lemma tbl_uint_mul_mod_vartime_given_mul_rem :
  split_mul_ok uint_split_mul (arg 0 a) (arg 1 a) -> rem_wide_ok (arg 2 a) -> ln 0 a = ln 2 a ->
  S7 "uint.mul_mod_vartime" dbg a <> Unsupported -> M7 "uint.mul_mod_vartime" dbg a = S7 "uint.mul_mod_vartime" dbg a.
Proof. intros Hm Hr Hl. table_open. apply (entry_mul_mod_vartime_given_mul_rem a Hwf Hm Hr Hl). Qed.
Lemma tbl_uint_mul_mod_trait_given_mul_rem :
  split_mul_ok uint_split_mul (arg 0 a) (arg 1 a) -> rem_wide_ok (arg 2 a) -> ln 0 a = ln 2 a ->
  M7 "uint.mul_mod_trait" dbg a = S7 "uint.mul_mod_trait" dbg a.
Proof. intros Hm Hr Hl. table_open. apply (entry_mul_mod_trait_given_mul_rem a Hwf Hm Hr Hl). Qed.

(** mul_mod (Montgomery route, C08): the model entry is value-level by design, so the table statement carries no
    algorithmic content; it only records that the panic/unsupported split of the two tables is consistent *)
Lemma tbl_uint_mul_mod_value_level :
  S7 "uint.mul_mod" dbg a <> Unsupported -> M7 "uint.mul_mod" dbg a = S7 "uint.mul_mod" dbg a.
Proof. table_open. unfold rmod. destruct (Z.even (ev 2 a)); [intros H; contradiction H|]; reflexivity. Qed.
Lemma tbl_boxed_mul_mod_value_level :
  S7 "boxed.mul_mod" dbg a <> Unsupported -> M7 "boxed.mul_mod" dbg a = S7 "boxed.mul_mod" dbg a.
Proof.
  table_open. unfold rmod. destruct (Z.even (ev 2 a)); [intros H; contradiction H; reflexivity|].
  destruct (_ && _)%bool; [reflexivity | intros H; contradiction H; reflexivity].
Qed.
End Keys.

(** all keys that do not depend on multiplication / division, in one statement *)
Definition addsubneg_keys : list string :=
  ["uint.add_mod"; "uint.double_mod"; "uint.add_mod_special"; "uint.sub_mod"; "uint.sub_mod_special";
   "uint.neg_mod"; "uint.neg_mod_special"; "boxed.add_mod"; "boxed.double_mod"; "boxed.sub_mod";
   "boxed.sub_mod_special"; "boxed.neg_mod"; "boxed.neg_mod_special"]%string.

Theorem tables_agree_addsubneg dbg a k : wf_args a -> In k addsubneg_keys ->
  S7 k dbg a <> Unsupported -> M7 k dbg a = S7 k dbg a.
Proof.
  intros Hwf Hin. unfold addsubneg_keys in Hin. cbn [In] in Hin.
  repeat (destruct Hin as [<- | Hin];
    [first [ apply tbl_uint_add_mod | apply tbl_uint_double_mod | apply tbl_uint_add_mod_special | apply tbl_uint_sub_mod
           | apply tbl_uint_sub_mod_special | apply tbl_uint_neg_mod | apply tbl_uint_neg_mod_special
           | apply tbl_boxed_add_mod | apply tbl_boxed_double_mod | apply tbl_boxed_sub_mod
           | apply tbl_boxed_sub_mod_special | apply tbl_boxed_neg_mod | apply tbl_boxed_neg_mod_special]; assumption |]).
  contradiction.
Qed.
