(** C02 (tables): the model table and the spec table of Model/Div.v (area div, 26 keys) and of Model/DivL0.v (area
    divl0, 2 keys) agree on EVERY key, for all well-formed argument lists that satisfy the typing side condition of the
    key, in both profiles, wherever the spec entry is defined (a non-zero divisor).
    [run_tab t k dbg a] is the table lookup of Model/Api.v (Proofs/TotalityP.v). *)
From CB Require Import Model.Limbs Model.Div Model.DivL0 Proofs.WordP Proofs.LimbsP Proofs.DivP Proofs.DivShiftP
  Proofs.Rem2kP Proofs.DivFinalP Proofs.DivL0P Proofs.TotalityP Proofs.TotalityDivP.
From Coq Require Import ZArith Lia List String Bool.
Open Scope Z_scope.
Notation length := List.length.

(* ------------------------------------------------------------------ typing side conditions (boolean) *)
Definition btyping := list (string * (list (list Z) -> bool)).
Definition typedb (t : btyping) (k : string) (a : list (list Z)) : bool :=
  match lookup k t with Some P => P a | None => true end.

(* the divisor is a Limb / NonZero<Limb>: one word *)
Definition ty_limb_divisor (a : list (list Z)) : bool := (ln 1 a =? 1)%nat.
(* Uint<N> by (NonZero<)Uint<N>(>): one N *)
Definition ty_same2 (a : list (list Z)) : bool := (ln 0 a =? ln 1 a)%nat.
(* (lo, hi) : (Uint<N>, Uint<N>) by NonZero<Uint<N>> *)
Definition ty_same3 (a : list (list Z)) : bool := (ln 1 a =? ln 0 a)%nat && (ln 2 a =? ln 0 a)%nat.
(* at least one limb *)
Definition ty_some_limb (a : list (list Z)) : bool := negb (ln 0 a =? 0)%nat.
(* one N, and Uint::BITS = 64 N is a u32 *)
Definition ty_same2_u32 (a : list (list Z)) : bool := (ln 0 a =? ln 1 a)%nat && (64 * Z.of_nat (ln 0 a) <? 2 ^ 32).

Open Scope string_scope.
Definition div_tbl_ty : btyping :=
  [("uint.div_rem_limb", ty_limb_divisor); ("uint.rem_limb", ty_limb_divisor); ("uint.div_limb", ty_limb_divisor);
   ("boxed.div_rem_limb", ty_limb_divisor); ("boxed.rem_limb", ty_limb_divisor);
   ("uint.div_rem", ty_same2); ("uint.rem", ty_same2); ("uint.div", ty_same2); ("uint.div_plain", ty_same2);
   ("uint.rem_plain", ty_same2); ("uint.checked_div", ty_same2); ("uint.checked_rem", ty_same2);
   ("uint.wrapping_rem_vartime", ty_same2);
   ("uint.rem_wide_vartime", ty_same3); ("uint.rem2k_vartime", ty_some_limb)].
Definition divl0_tbl_ty : btyping := [("uint.div_rem_l0", ty_same2_u32)].
Open Scope Z_scope.

Definition tbl_ok (M S : list (string * opfn)) (ty : btyping) (k : string) : Prop :=
  forall dbg a, wf_args a -> typedb ty k a = true ->
    run_tab S k dbg a <> Unsupported -> run_tab M k dbg a = run_tab S k dbg a.
Definition div_ok := tbl_ok ops_div_model ops_div_spec div_tbl_ty.
Definition divl0_ok := tbl_ok ops_divl0_model ops_divl0_spec divl0_tbl_ty.

Ltac open_typedb ty H :=
  unfold typedb in H;
  lazy beta iota delta [lookup ty String.eqb Ascii.eqb Bool.eqb] in H.
Ltac start_gen M S ty :=
  let dbg := fresh "dbg" in let a := fresh "a" in
  let Hwf := fresh "Hwf" in let Hty := fresh "Hty" in let Hdom := fresh "Hdom" in
  intros dbg a Hwf Hty Hdom; open_typedb ty Hty; revert Hdom; open_tabs M S; intros Hdom.
Ltac start_tbl := unfold div_ok; start_gen ops_div_model ops_div_spec div_tbl_ty.
Ltac start_l0 := unfold divl0_ok; start_gen ops_divl0_model ops_divl0_spec divl0_tbl_ty.

(* ------------------------------------------------------------------ small facts *)
Lemma eval_one x : eval [x] = x.
Proof. cbn [eval]. lia. Qed.
Lemma to_limbs_1 x : to_limbs 1 x = [x mod B].
Proof. reflexivity. Qed.

(** a well-formed n-limb list of value x is the spec's limb list *)
Lemma limbs_of_val r n x : wf r -> length r = n -> eval r = x -> r = to_limbs n x.
Proof.
  intros Hw Hl He. apply to_limbs_unique; auto. pose proof (eval_bounds r Hw) as Hb. rewrite Hl, He in Hb.
  rewrite Z.mod_small by lia. exact He.
Qed.

(** quotient / remainder limb lists from the division identity *)
Lemma qr_limbs q r nq nr x d : wf q -> wf r -> length q = nq -> length r = nr ->
  x = eval q * d + eval r -> 0 <= eval r < d ->
  q = to_limbs nq (x / d) /\ r = to_limbs nr (x mod d).
Proof.
  intros Hq Hr Hlq Hlr He Hb.
  destruct (div_mod_unique_pos d (eval q) (eval r) x Hb He) as [E1 E2].
  split; apply limbs_of_val; auto.
Qed.

Lemma ty_limb_divisor_inv a : ty_limb_divisor a = true -> arg 1 a = [sarg 1 a].
Proof. unfold ty_limb_divisor, ln. intros H. apply Nat.eqb_eq in H. apply arg_single. exact H. Qed.
Lemma ty_same2_inv a : ty_same2 a = true -> length (arg 0 a) = length (arg 1 a).
Proof. unfold ty_same2, ln. intros H. apply Nat.eqb_eq in H. exact H. Qed.

(* ------------------------------------------------------------------ the routines as functions of the values *)
(** Reciprocal::new *)
Lemma recip_new_entry d : 0 < d < B ->
  r_shift (recip_new d) = 63 - Z.log2 d /\
  r_d (recip_new d) = d * 2 ^ (63 - Z.log2 d) /\
  r_v (recip_new d) = (B * B - 1) / (d * 2 ^ (63 - Z.log2 d)) - B.
Proof.
  intros Hd. pose proof (recip_new_correct d Hd) as (_ & Hdn & _ & Hr).
  assert (Hs : r_shift (recip_new d) = 63 - Z.log2 d).
  { unfold recip_new. cbn [r_shift]. unfold leading_zeros_word, bits_of.
    assert (d <=? 0 = false) as -> by (apply Z.leb_gt; lia). lia. }
  unfold recip_ok in Hr. rewrite Hs in Hdn. rewrite Hdn in Hr. auto.
Qed.

(** division by one limb *)
Lemma limb_entry u d : wf u -> 0 < d < B ->
  div_rem_limb_with_reciprocal u (recip_new d) = (to_limbs (length u) (eval u / d), (eval u mod d) mod B).
Proof.
  intros Hu Hd. pose proof (div_rem_limb_total u d Hu Hd) as H.
  destruct (div_rem_limb_with_reciprocal u (recip_new d)) as [q r]. destruct H as (He & Hr & Hq & Hl).
  destruct (div_mod_unique_pos d (eval q) r (eval u) Hr He) as [E1 E2].
  f_equal.
  - apply limbs_of_val; auto.
  - rewrite E2. symmetry. apply Z.mod_small. lia.
Qed.

(** Uint::div_rem (constant time) *)
Lemma uint_div_rem_entry x y : wf x -> wf y -> length x = length y -> eval y <> 0 ->
  uint_div_rem x y = Some (to_limbs (length x) (eval x / eval y), to_limbs (length x) (eval x mod eval y)).
Proof.
  intros Hx Hy Hl Hnz.
  destruct (uint_div_rem_total x y Hx Hy (eq_sym Hl) Hnz) as (q & r & E & He & Hb & Hlq & Hlr & Hq & Hr).
  rewrite E. destruct (qr_limbs q r (length x) (length x) (eval x) (eval y) Hq Hr Hlq Hlr He Hb) as [<- <-].
  reflexivity.
Qed.

(** BoxedUint::div_rem: the same routine behind the equal-precision assertion *)
Lemma boxed_div_rem_entry x y : wf x -> wf y -> length x = length y -> eval y <> 0 ->
  boxed_div_rem x y = Some (to_limbs (length x) (eval x / eval y), to_limbs (length x) (eval x mod eval y)).
Proof.
  intros Hx Hy Hl Hnz. unfold boxed_div_rem. rewrite Hl, Nat.eqb_refl. cbn [negb]. rewrite <- Hl.
  apply uint_div_rem_entry; assumption.
Qed.
Lemma boxed_div_rem_mismatch x y : length x <> length y -> boxed_div_rem x y = None.
Proof. intros Hl. unfold boxed_div_rem. apply Nat.eqb_neq in Hl. rewrite Hl. reflexivity. Qed.

(** Uint::div_rem_vartime (mixed widths) *)
Lemma div_rem_vartime_entry x y : wf x -> wf y -> eval y <> 0 ->
  div_rem_vartime x y = (to_limbs (length x) (eval x / eval y), to_limbs (length y) (eval x mod eval y)).
Proof.
  intros Hx Hy Hnz. destruct (div_rem_vartime x y) as [q r] eqn:E.
  destruct (div_rem_vartime_total x y q r Hx Hy Hnz E) as (He & Hb & Hlq & Hlr & Hq & Hr).
  destruct (qr_limbs q r (length x) (length y) (eval x) (eval y) Hq Hr Hlq Hlr He Hb) as [<- <-].
  reflexivity.
Qed.

(** BoxedUint::div_rem_vartime / rem_vartime *)
Lemma boxed_div_rem_vartime_entry x y : wf x -> wf y -> eval y <> 0 ->
  boxed_div_rem_vartime x y = Some (to_limbs (length x) (eval x / eval y), to_limbs (length y) (eval x mod eval y)).
Proof.
  intros Hx Hy Hnz.
  destruct (boxed_div_rem_vartime_total x y Hx Hy Hnz) as (q & r & E & He & Hb & Hlq & Hlr & Hq & Hr).
  rewrite E. destruct (qr_limbs q r (length x) (length y) (eval x) (eval y) Hq Hr Hlq Hlr He Hb) as [<- <-].
  reflexivity.
Qed.
Lemma boxed_rem_vartime_entry x y : wf x -> wf y -> eval y <> 0 ->
  boxed_rem_vartime x y = Some (to_limbs (length y) (eval x mod eval y)).
Proof.
  intros Hx Hy Hnz. destruct (boxed_rem_vartime_total x y Hx Hy Hnz) as (r & E & He & Hl & Hr).
  rewrite E. f_equal. apply limbs_of_val; assumption.
Qed.

(** Uint::rem_wide_vartime *)
Lemma rem_wide_vartime_entry lo hi y : wf lo -> wf hi -> wf y -> length hi = length lo -> length y = length lo ->
  eval y <> 0 ->
  rem_wide_vartime lo hi y = to_limbs (length lo) ((eval lo + Bn (length lo) * eval hi) mod eval y).
Proof.
  intros Hlo Hhi Hy H1 H2 Hnz. pose proof (rem_wide_vartime_total lo hi y Hlo Hhi Hy H1 H2 Hnz) as H.
  cbv zeta in H. destruct H as (He & Hl & Hw). apply limbs_of_val; assumption.
Qed.

(** rem2k_vartime *)
Lemma rem2k_vartime_entry x k : wf x -> x <> [] -> 0 <= k ->
  rem2k_vartime x k = to_limbs (length x) (if 64 * Z.of_nat (length x) <=? k then eval x else eval x mod 2 ^ k).
Proof.
  intros Hx Hne Hk. destruct (rem2k_vartime_correct x k Hx Hne Hk) as (He & Hw & Hl).
  apply limbs_of_val; assumption.
Qed.

(** the limb-level twins of Model/DivL0.v *)
Lemma uint_div_rem_l0_entry x y : wf x -> wf y -> length x = length y -> 64 * Z.of_nat (length x) < 2 ^ 32 ->
  eval y <> 0 ->
  uint_div_rem_l0 x y = Some (to_limbs (length x) (eval x / eval y), to_limbs (length x) (eval x mod eval y)).
Proof.
  intros Hx Hy Hl Hb Hnz.
  rewrite uint_div_rem_l0_eq; try assumption; [apply uint_div_rem_entry; assumption | symmetry; exact Hl |].
  eapply l0_nonzero_ne; [symmetry; exact Hl | exact Hnz].
Qed.
Lemma boxed_div_rem_l0_entry x y : wf x -> wf y -> length x = length y -> eval y <> 0 ->
  boxed_div_rem_l0 x y = Some (to_limbs (length x) (eval x / eval y), to_limbs (length x) (eval x mod eval y)).
Proof.
  intros Hx Hy Hl Hnz.
  rewrite boxed_div_rem_l0_eq; try assumption; [apply boxed_div_rem_entry; assumption |].
  eapply l0_nonzero_ne; [symmetry; exact Hl | exact Hnz].
Qed.
Lemma boxed_div_rem_l0_mismatch x y : length x <> length y -> boxed_div_rem_l0 x y = None.
Proof. intros Hl. unfold boxed_div_rem_l0. apply Nat.eqb_neq in Hl. rewrite Hl. reflexivity. Qed.

(* ------------------------------------------------------------------ the keys of area div *)
(* the spec's domain test [nz_dom]: keeps [Enz : eval (arg 1 a) <> 0] *)
Ltac in_dom :=
  unfold nz_dom, ev in *;
  match goal with Hdom : (if ?c then _ else _) <> Unsupported |- _ =>
    let E := fresh "Enz" in destruct c eqn:E; [contradiction Hdom; reflexivity|]; apply Z.eqb_neq in E end.
Ltac wfa := apply wf_arg; assumption.

Lemma tbl_recip_new : div_ok "recip.new".
Proof.
  start_tbl. cbv zeta in *. pose proof (sarg_word 0 a Hwf) as Hd. set (d := sarg 0 a) in *.
  destruct (Z.leb_spec d 0) as [Hle|Hpos]; [contradiction Hdom; reflexivity|].
  destruct (recip_new_entry d ltac:(lia)) as (-> & -> & ->). reflexivity.
Qed.

(* division by a Limb: Uint and BoxedUint forms *)
Ltac limb_key :=
  match goal with Hty : ty_limb_divisor _ = true |- _ => apply ty_limb_divisor_inv in Hty end;
  match goal with Hwf : wf_args ?a |- _ => pose proof (sarg_word 1 a Hwf) as Hd end;
  unfold nz_dom, sp_qr, sp_q, sp_r, spec_div_rem, ev, ln, rem_limb_with_reciprocal in *;
  match goal with Hty : arg 1 ?a = [sarg 1 ?a] |- _ =>
    set (d := sarg 1 a) in *; rewrite Hty in *; rewrite eval_one in * end;
  match goal with Hdom : (if ?c then _ else _) <> Unsupported |- _ =>
    let E := fresh "Enz" in destruct c eqn:E; [contradiction Hdom; reflexivity|]; apply Z.eqb_neq in E end;
  rewrite limb_entry by (try wfa; lia); cbn [fst snd]; rewrite ?to_limbs_1; reflexivity.

Lemma tbl_uint_div_rem_limb : div_ok "uint.div_rem_limb".
Proof. start_tbl. limb_key. Qed.
Lemma tbl_uint_rem_limb : div_ok "uint.rem_limb".
Proof. start_tbl. limb_key. Qed.
Lemma tbl_uint_div_limb : div_ok "uint.div_limb".
Proof. start_tbl. limb_key. Qed.
Lemma tbl_boxed_div_rem_limb : div_ok "boxed.div_rem_limb".
Proof. start_tbl. limb_key. Qed.
Lemma tbl_boxed_rem_limb : div_ok "boxed.rem_limb".
Proof. start_tbl. limb_key. Qed.

(* Uint::div_rem, constant time, NonZero divisor *)
Ltac ct_key :=
  match goal with Hty : ty_same2 _ = true |- _ => apply ty_same2_inv in Hty end;
  in_dom; rewrite uint_div_rem_entry by (try wfa; assumption);
  unfold sp_qr, sp_q, sp_r, spec_div_rem, ev, ln; reflexivity.
Lemma tbl_uint_div_rem : div_ok "uint.div_rem".
Proof. start_tbl. ct_key. Qed.
Lemma tbl_uint_rem : div_ok "uint.rem".
Proof. start_tbl. ct_key. Qed.
Lemma tbl_uint_div : div_ok "uint.div".
Proof. start_tbl. ct_key. Qed.

(* the operator / checked forms with their own zero test *)
Ltac zero_test_key :=
  match goal with Hty : ty_same2 _ = true |- _ => apply ty_same2_inv in Hty end;
  rewrite is_zero_l_eqb by wfa; unfold ev;
  match goal with |- context[eval (arg 1 ?a) =? 0] => destruct (Z.eqb_spec (eval (arg 1 a)) 0) as [E|E] end;
  [reflexivity|];
  rewrite uint_div_rem_entry by (try wfa; assumption);
  unfold sp_qr, sp_q, sp_r, spec_div_rem, ev, ln; reflexivity.
Lemma tbl_uint_div_plain : div_ok "uint.div_plain".
Proof. start_tbl. zero_test_key. Qed.
Lemma tbl_uint_rem_plain : div_ok "uint.rem_plain".
Proof. start_tbl. zero_test_key. Qed.
Lemma tbl_uint_checked_div : div_ok "uint.checked_div".
Proof. start_tbl. zero_test_key. Qed.
Lemma tbl_uint_checked_rem : div_ok "uint.checked_rem".
Proof. start_tbl. zero_test_key. Qed.

(* Uint::div_rem_vartime: any pair of widths *)
Ltac vt_key :=
  in_dom; rewrite div_rem_vartime_entry by (try wfa; assumption);
  unfold sp_qr, sp_q, sp_r, spec_div_rem, ev, ln; reflexivity.
Lemma tbl_uint_div_rem_vartime : div_ok "uint.div_rem_vartime".
Proof. start_tbl. vt_key. Qed.
Lemma tbl_uint_rem_vartime : div_ok "uint.rem_vartime".
Proof. start_tbl. vt_key. Qed.
Lemma tbl_uint_div_vartime : div_ok "uint.div_vartime".
Proof. start_tbl. vt_key. Qed.
Lemma tbl_uint_wrapping_rem_vartime : div_ok "uint.wrapping_rem_vartime".
Proof.
  start_tbl. apply ty_same2_inv in Hty.
  rewrite is_zero_l_eqb by wfa. unfold ev.
  destruct (Z.eqb_spec (eval (arg 1 a)) 0) as [E|E]; [reflexivity|].
  rewrite div_rem_vartime_entry by (try wfa; assumption).
  unfold sp_r, ev, ln. cbn [snd]. rewrite Hty. reflexivity.
Qed.

Lemma tbl_uint_rem_wide_vartime : div_ok "uint.rem_wide_vartime".
Proof.
  start_tbl. unfold ty_same3, ln in Hty. apply andb_prop in Hty. destruct Hty as [H1 H2].
  apply Nat.eqb_eq in H1, H2. unfold ev, ln in *.
  destruct (Z.eqb_spec (eval (arg 2 a)) 0) as [E|E]; [contradiction Hdom; reflexivity|].
  rewrite rem_wide_vartime_entry by (try wfa; assumption). reflexivity.
Qed.

Lemma tbl_uint_rem2k_vartime : div_ok "uint.rem2k_vartime".
Proof.
  start_tbl. unfold ty_some_limb, ln in Hty. apply negb_true_iff, Nat.eqb_neq in Hty. unfold ev, ln.
  pose proof (sarg_word 1 a Hwf) as Hk.
  rewrite rem2k_vartime_entry; [reflexivity | wfa | | lia].
  intros E. rewrite E in Hty. apply Hty. reflexivity.
Qed.

(* BoxedUint constant-time forms: the precision assertion first *)
Ltac boxed_ct_key :=
  in_dom; unfold ln in *;
  match goal with |- context[(length ?x =? length ?y)%nat] =>
    destruct (Nat.eqb_spec (length x) (length y)) as [Hl|Hl] end; cbn [negb];
  [ rewrite boxed_div_rem_entry by (try wfa; assumption);
    unfold sp_qr, sp_q, sp_r, spec_div_rem, ev, ln; reflexivity
  | rewrite boxed_div_rem_mismatch by assumption; reflexivity ].
Lemma tbl_boxed_div_rem : div_ok "boxed.div_rem".
Proof. start_tbl. boxed_ct_key. Qed.
Lemma tbl_boxed_rem : div_ok "boxed.rem".
Proof. start_tbl. boxed_ct_key. Qed.
Lemma tbl_boxed_div : div_ok "boxed.div".
Proof. start_tbl. boxed_ct_key. Qed.
Lemma tbl_boxed_checked_div : div_ok "boxed.checked_div".
Proof.
  start_tbl. unfold ln in *.
  destruct (Nat.eqb_spec (length (arg 0 a)) (length (arg 1 a))) as [Hl|Hl]; cbn [negb] in *;
    [|contradiction Hdom; reflexivity].
  rewrite is_zero_l_eqb by wfa. unfold ev.
  destruct (Z.eqb_spec (eval (arg 1 a)) 0) as [E|E]; [reflexivity|].
  rewrite boxed_div_rem_entry by (try wfa; assumption).
  unfold sp_q, ev, ln. reflexivity.
Qed.

(* BoxedUint variable-time forms: any pair of precisions *)
Lemma tbl_boxed_div_rem_vartime : div_ok "boxed.div_rem_vartime".
Proof.
  start_tbl. in_dom. rewrite boxed_div_rem_vartime_entry by (try wfa; assumption).
  unfold sp_qr, spec_div_rem, ev, ln. reflexivity.
Qed.
Lemma tbl_boxed_rem_vartime : div_ok "boxed.rem_vartime".
Proof.
  start_tbl. in_dom. rewrite boxed_rem_vartime_entry by (try wfa; assumption).
  unfold sp_r, ev, ln. reflexivity.
Qed.
Lemma tbl_boxed_div_vartime : div_ok "boxed.div_vartime".
Proof.
  start_tbl. in_dom. rewrite boxed_div_rem_vartime_entry by (try wfa; assumption).
  unfold sp_q, ev, ln. reflexivity.
Qed.

(* ------------------------------------------------------------------ the area theorem, div *)
Create HintDb c02tbl.
#[export] Hint Resolve tbl_recip_new tbl_uint_div_rem_limb tbl_uint_rem_limb tbl_uint_div_limb tbl_uint_div_rem
  tbl_uint_rem tbl_uint_div tbl_uint_div_plain tbl_uint_rem_plain tbl_uint_checked_div tbl_uint_checked_rem
  tbl_uint_div_rem_vartime tbl_uint_rem_vartime tbl_uint_div_vartime tbl_uint_wrapping_rem_vartime
  tbl_uint_rem_wide_vartime tbl_uint_rem2k_vartime tbl_boxed_div_rem_limb tbl_boxed_rem_limb tbl_boxed_div_rem
  tbl_boxed_rem tbl_boxed_div tbl_boxed_checked_div tbl_boxed_div_rem_vartime tbl_boxed_rem_vartime
  tbl_boxed_div_vartime : c02tbl.

(** the list of keys IS the key set of the table (in table order) *)
Definition div_table_keys : list string := map fst ops_div_model.
Lemma div_table_keys_spec : map fst ops_div_spec = div_table_keys.
Proof. reflexivity. Qed.
Lemma div_table_keys_count : length div_table_keys = 26%nat.
Proof. reflexivity. Qed.

Lemma div_all_keys_ok : forall k, In k div_table_keys -> div_ok k.
Proof.
  intros k Hin. unfold div_table_keys in Hin. cbn [map fst ops_div_model In] in Hin.
  repeat (destruct Hin as [<- | Hin]; [solve [eauto with nocore c02tbl] |]); contradiction.
Qed.

Theorem div_tables_agree : forall k dbg a,
  In k (map fst ops_div_model) -> wf_args a -> typedb div_tbl_ty k a = true ->
  run_tab ops_div_spec k dbg a <> Unsupported ->
  run_tab ops_div_model k dbg a = run_tab ops_div_spec k dbg a.
Proof. intros k dbg a Hin. exact (div_all_keys_ok k Hin dbg a). Qed.

(** the same over the key list of C11 (Proofs/TotalityP.v), which is the same set of 26 keys *)
Lemma div_keys_in_table : forall k, In k div_keys -> In k (map fst ops_div_model).
Proof. apply sublist_In. vm_compute. reflexivity. Qed.
Lemma table_in_div_keys : forall k, In k (map fst ops_div_model) -> In k div_keys.
Proof. apply sublist_In. vm_compute. reflexivity. Qed.

Theorem div_tables_agree_c11_keys : forall k dbg a,
  In k div_keys -> wf_args a -> typedb div_tbl_ty k a = true ->
  run_tab ops_div_spec k dbg a <> Unsupported ->
  run_tab ops_div_model k dbg a = run_tab ops_div_spec k dbg a.
Proof. intros k dbg a Hin. apply div_tables_agree. apply div_keys_in_table. exact Hin. Qed.

Lemma div_key_set :
  map fst ops_div_spec = map fst ops_div_model /\ length (map fst ops_div_model) = 26%nat /\
  (forall k, In k div_keys <-> In k (map fst ops_div_model)).
Proof.
  split; [exact div_table_keys_spec|]. split; [exact div_table_keys_count|].
  intros k. split; [apply div_keys_in_table | apply table_in_div_keys].
Qed.

(** where the spec table is defined: the domain hypothesis of the theorem excludes ONLY the zero divisor (for
    "recip.new" the zero limb, for "uint.rem_wide_vartime" the third argument) and, for "boxed.checked_div", operands
    of two precisions *)
Definition div_in_domain (k : string) (a : list (list Z)) : bool :=
  if String.eqb k "recip.new" then 0 <? sarg 0 a
  else if String.eqb k "uint.rem_wide_vartime" then negb (ev 2 a =? 0)
  else if String.eqb k "uint.rem2k_vartime" then true
  else if String.eqb k "uint.div_plain" then true
  else if String.eqb k "uint.rem_plain" then true
  else if String.eqb k "uint.checked_div" then true
  else if String.eqb k "uint.checked_rem" then true
  else if String.eqb k "uint.wrapping_rem_vartime" then true
  else if String.eqb k "boxed.checked_div" then (ln 0 a =? ln 1 a)%nat
  else negb (ev 1 a =? 0).

Theorem div_spec_defined : forall k dbg a,
  In k (map fst ops_div_model) -> div_in_domain k a = true -> run_tab ops_div_spec k dbg a <> Unsupported.
Proof.
  intros k dbg a Hin. cbn [map fst ops_div_model In] in Hin.
  repeat (destruct Hin as [<- | Hin];
    [ unfold div_in_domain; lazy beta iota delta [String.eqb Ascii.eqb Bool.eqb]; intros Hd;
      open_tabs ops_div_model ops_div_spec; unfold nz_dom; cbv zeta;
      try (apply negb_true_iff in Hd; rewrite Hd);
      try (apply Z.ltb_lt in Hd; apply Z.leb_gt in Hd; rewrite Hd);
      try (rewrite Hd; cbn [negb]);
      nu |]); contradiction.
Qed.

(** the typing side conditions are needed: without them the two tables differ (a two-limb "Limb" divisor; operands of
    two widths in a Uint<N> form; a value without limbs) *)
Lemma div_typing_needed :
  run_tab ops_div_model "uint.rem_limb" false [[7]; [0; 1]] <> run_tab ops_div_spec "uint.rem_limb" false [[7]; [0; 1]] /\
  run_tab ops_div_model "uint.wrapping_rem_vartime" false [[7; 0]; [5]]
    <> run_tab ops_div_spec "uint.wrapping_rem_vartime" false [[7; 0]; [5]] /\
  run_tab ops_div_model "uint.div" false [[7]; [0; 1]] <> run_tab ops_div_spec "uint.div" false [[7]; [0; 1]] /\
  run_tab ops_div_model "uint.rem2k_vartime" false [[]; [3]] <> run_tab ops_div_spec "uint.rem2k_vartime" false [[]; [3]].
Proof. repeat split; vm_compute; discriminate. Qed.

(* ------------------------------------------------------------------ area divl0 *)
Lemma tbl_uint_div_rem_l0 : divl0_ok "uint.div_rem_l0".
Proof.
  start_l0. unfold ty_same2_u32, ln in Hty. apply andb_prop in Hty. destruct Hty as [H1 H2].
  apply Nat.eqb_eq in H1. apply Z.ltb_lt in H2.
  in_dom. rewrite uint_div_rem_l0_entry by (try wfa; assumption).
  unfold sp_qr, spec_div_rem, ev, ln. reflexivity.
Qed.
Lemma tbl_boxed_div_rem_l0 : divl0_ok "boxed.div_rem_l0".
Proof.
  start_l0. in_dom. unfold ln in *.
  destruct (Nat.eqb_spec (length (arg 0 a)) (length (arg 1 a))) as [Hl|Hl]; cbn [negb].
  - rewrite boxed_div_rem_l0_entry by (try wfa; assumption).
    unfold sp_qr, spec_div_rem, ev, ln. reflexivity.
  - rewrite boxed_div_rem_l0_mismatch by assumption. reflexivity.
Qed.

Open Scope string_scope.
Definition divl0_keys : list string := ["uint.div_rem_l0"; "boxed.div_rem_l0"].
Open Scope Z_scope.
Lemma divl0_keys_model : map fst ops_divl0_model = divl0_keys.
Proof. reflexivity. Qed.
Lemma divl0_keys_spec : map fst ops_divl0_spec = divl0_keys.
Proof. reflexivity. Qed.

Theorem divl0_tables_agree : forall k dbg a,
  In k divl0_keys -> wf_args a -> typedb divl0_tbl_ty k a = true ->
  run_tab ops_divl0_spec k dbg a <> Unsupported ->
  run_tab ops_divl0_model k dbg a = run_tab ops_divl0_spec k dbg a.
Proof.
  intros k dbg a Hin. cbn [divl0_keys In] in Hin.
  destruct Hin as [<- | [<- | []]]; [exact (tbl_uint_div_rem_l0 dbg a) | exact (tbl_boxed_div_rem_l0 dbg a)].
Qed.

Lemma divl0_key_set :
  map fst ops_divl0_model = divl0_keys /\ map fst ops_divl0_spec = divl0_keys /\ length divl0_keys = 2%nat.
Proof. split; [exact divl0_keys_model|]. split; [exact divl0_keys_spec | reflexivity]. Qed.

Theorem divl0_spec_defined : forall k dbg a,
  In k divl0_keys -> ev 1 a <> 0 -> run_tab ops_divl0_spec k dbg a <> Unsupported.
Proof.
  intros k dbg a Hin Hnz. apply Z.eqb_neq in Hnz. cbn [divl0_keys In] in Hin.
  destruct Hin as [<- | [<- | []]]; open_tabs ops_divl0_model ops_divl0_spec; unfold nz_dom; rewrite Hnz; nu.
Qed.

(** the two areas against each other: on the typed domain the limb-level entries return what "uint.div_rem" /
    "boxed.div_rem" of area div return *)
Theorem divl0_same_spec_entries : forall dbg a,
  run_tab ops_divl0_spec "uint.div_rem_l0" dbg a = run_tab ops_div_spec "uint.div_rem" dbg a /\
  run_tab ops_divl0_spec "boxed.div_rem_l0" dbg a = run_tab ops_div_spec "boxed.div_rem" dbg a.
Proof. intros. split; reflexivity. Qed.
