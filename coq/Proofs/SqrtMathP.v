(** C20, part 1: Newton's iteration for the integer square root on plain Z.
    newton n x = floor((x + floor(n / x)) / 2).  Results:
    - newton_ge      : one step never goes below floor(sqrt n)
    - newton_lt      : strictly decreasing above the root
    - newton_root    : from the root the step gives the root or root + 1
    - newton_half    : the distance to the root at least halves (termination of the vartime loop)
    - newton_quad    : 2 x (e' - 2) <= (e - 2)^2  (quadratic convergence, in integers)
    - iter_close     : after k rounds  2^(2^k - 1) * (x_k - s - 2) <= s
    - ct_rounds_enough / ct_result : floor(log2 BITS) + 2 rounds and min(x_n, x_{n+1}) give the root
    - vtz_correct    : the until-non-decreasing loop returns the root *)
From Coq Require Import ZArith Lia List.
Open Scope Z_scope.

Definition newton (n x : Z) : Z := (x + n / x) / 2.

Lemma sqrt_bounds n : 0 <= n -> Z.sqrt n * Z.sqrt n <= n < (Z.sqrt n + 1) * (Z.sqrt n + 1).
Proof. intros H. pose proof (Z.sqrt_spec n H). unfold Z.succ in *. lia. Qed.

Lemma sqrt_unique_le n s : 0 <= s -> s * s <= n < (s + 1) * (s + 1) -> Z.sqrt n = s.
Proof. intros Hs H. apply Z.sqrt_unique. unfold Z.succ. lia. Qed.

Lemma sqrt_pos_iff n : 0 <= n -> (0 < Z.sqrt n <-> 0 < n).
Proof. intros H. apply Z.sqrt_pos. Qed.

(* 2 x y <= x^2 + n  for y = newton n x *)
Lemma newton_2xy n x : 0 <= n -> 0 < x -> 2 * x * newton n x <= x * x + n.
Proof.
  intros Hn Hx. unfold newton.
  pose proof (Z.mul_div_le (x + n / x) 2 ltac:(lia)) as H1.
  pose proof (Z.mul_div_le n x Hx) as H2.
  assert (0 <= n / x) by (apply Z.div_pos; lia).
  assert (0 <= (x + n / x) / 2) by (apply Z.div_pos; lia).
  assert (x * (2 * ((x + n / x) / 2)) <= x * (x + n / x)) by (apply Z.mul_le_mono_nonneg_l; lia).
  lia.
Qed.

Lemma newton_ge n x : 0 <= n -> 0 < x -> Z.sqrt n <= newton n x.
Proof.
  intros Hn Hx. pose proof (sqrt_bounds n Hn) as [Hs _].
  pose proof (Z.sqrt_nonneg n) as Hs0. set (s := Z.sqrt n) in *.
  unfold newton. apply Z.div_le_lower_bound; [lia|].
  assert (2 * s - x <= n / x); [|lia].
  apply Z.div_le_lower_bound; [lia|].
  assert (0 <= (s - x) * (s - x)) by apply Z.square_nonneg. lia.
Qed.

Lemma newton_lt n x : 0 <= n -> Z.sqrt n < x -> newton n x < x.
Proof.
  intros Hn Hx. pose proof (sqrt_bounds n Hn) as [_ Hs].
  pose proof (Z.sqrt_nonneg n) as Hs0. set (s := Z.sqrt n) in *.
  assert (n / x < x).
  { apply Z.div_lt_upper_bound; [lia|].
    assert ((s + 1) * (s + 1) <= x * x) by (apply Z.mul_le_mono_nonneg; lia). lia. }
  unfold newton. apply Z.div_lt_upper_bound; lia.
Qed.

Lemma newton_root n : 0 < n -> Z.sqrt n <= newton n (Z.sqrt n) <= Z.sqrt n + 1.
Proof.
  intros Hn. pose proof (sqrt_bounds n ltac:(lia)) as [Hl Hs].
  assert (0 < Z.sqrt n) by (apply Z.sqrt_pos; lia). set (s := Z.sqrt n) in *.
  split; [apply newton_ge; lia|].
  assert (n / s < s + 3).
  { apply Z.div_lt_upper_bound; lia. }
  unfold newton. assert ((s + n / s) / 2 < s + 2); [|lia].
  apply Z.div_lt_upper_bound; lia.
Qed.

(* above the root the distance at least halves *)
Lemma newton_half n x : 0 <= n -> Z.sqrt n < x -> 2 * (newton n x - Z.sqrt n) <= x - Z.sqrt n.
Proof.
  intros Hn Hx. pose proof (sqrt_bounds n Hn) as [_ Hs].
  pose proof (Z.sqrt_nonneg n) as Hs0.
  pose proof (newton_2xy n x Hn ltac:(lia)) as H2.
  set (s := Z.sqrt n) in *. set (y := newton n x) in *.
  (* 2xy <= x^2 + s^2 + 2s < x (s + x + 1) *)
  assert ((s + 1) * (s + 1) <= x * (s + 1)) by (apply Z.mul_le_mono_nonneg_r; lia).
  assert (x * (2 * y) < x * (s + x + 1)) by lia.
  assert (2 * y < s + x + 1) by (apply Z.mul_lt_mono_pos_l with x; lia).
  lia.
Qed.

(* quadratic convergence with the rounding absorbed into the offset 2 *)
Lemma newton_quad n x : 0 <= n -> Z.sqrt n <= x -> 0 < x ->
  2 * x * (newton n x - Z.sqrt n - 2) <= (x - Z.sqrt n - 2) * (x - Z.sqrt n - 2).
Proof.
  intros Hn Hx Hx0. pose proof (sqrt_bounds n Hn) as [_ Hs].
  pose proof (Z.sqrt_nonneg n) as Hs0.
  pose proof (newton_2xy n x Hn Hx0) as H2.
  set (s := Z.sqrt n) in *. set (y := newton n x) in *. lia.
Qed.

(* the invariant  2^(b-1) (x - s - 2) <= s  doubles its exponent b with every round *)
Definition close (n b x : Z) : Prop := 2 ^ (b - 1) * (x - Z.sqrt n - 2) <= Z.sqrt n.

Lemma close_step n b x : 0 < n -> 1 <= b -> Z.sqrt n <= x -> close n b x -> close n (2 * b) (newton n x).
Proof.
  unfold close. intros Hn Hb Hx Hc.
  assert (Hs0 : 0 < Z.sqrt n) by (apply Z.sqrt_pos; lia).
  pose proof (newton_quad n x ltac:(lia) Hx ltac:(lia)) as Hq.
  pose proof (newton_root n Hn) as Hr.
  pose proof (newton_lt n x ltac:(lia)) as Hlt.
  set (s := Z.sqrt n) in *. set (y := newton n x) in *.
  set (e := x - s - 2) in *. set (e' := y - s - 2) in *.
  replace (2 * b - 1) with (1 + (b - 1) + (b - 1)) by lia.
  rewrite !Z.pow_add_r by lia. change (2 ^ 1) with 2.
  set (A := 2 ^ (b - 1)) in *.
  assert (HA : 0 < A) by (apply Z.pow_pos_nonneg; lia).
  destruct (Z_le_gt_dec e' 0) as [He'|He'].
  { assert (0 <= 2 * A * A) by (apply Z.mul_nonneg_nonneg; lia).
    assert (2 * A * A * e' <= 0) by (apply Z.mul_nonneg_nonpos; lia). lia. }
  (* e' >= 1, hence e >= 1 *)
  assert (He : 1 <= e).
  { destruct (Z_le_gt_dec 1 e); [assumption|exfalso].
    assert (Hcase : x = s \/ x = s + 1 \/ x = s + 2) by lia.
    destruct Hcase as [Hc1 | [Hc1 | Hc1]].
    - subst e' y. rewrite Hc1 in He'. lia.
    - assert (y < x) by (apply Hlt; lia). subst e'. lia.
    - assert (y < x) by (apply Hlt; lia). subst e'. lia. }
  (* (2 A A e') s <= A A (2 x e') <= (A e)(A e) <= s s *)
  apply Z.mul_le_mono_pos_r with s; [lia|].
  assert (H1 : 2 * A * A * e' * s <= A * A * (2 * x * e')).
  { replace (2 * A * A * e' * s) with (A * A * (2 * e') * s) by ring.
    replace (A * A * (2 * x * e')) with (A * A * (2 * e') * x) by ring.
    apply Z.mul_le_mono_nonneg_l; [|lia].
    apply Z.mul_nonneg_nonneg; [apply Z.mul_nonneg_nonneg; lia|lia]. }
  assert (H2 : A * A * (2 * x * e') <= A * A * (e * e)).
  { apply Z.mul_le_mono_nonneg_l; [apply Z.mul_nonneg_nonneg; lia|exact Hq]. }
  assert (H3 : (A * e) * (A * e) <= s * s).
  { apply Z.mul_le_mono_nonneg; try lia; apply Z.mul_nonneg_nonneg; lia. }
  replace (A * A * (e * e)) with ((A * e) * (A * e)) in H2 by ring. lia.
Qed.

Fixpoint iter (k : nat) (n x : Z) : Z :=
  match k with O => x | S k' => iter k' n (newton n x) end.

Lemma iter_S k n x : iter (S k) n x = newton n (iter k n x).
Proof. revert x. induction k; intros x; [reflexivity|]. change (iter (S (S k)) n x) with (iter (S k) n (newton n x)). rewrite IHk. reflexivity. Qed.

Lemma iter_ge k n x : 0 < n -> Z.sqrt n <= x -> Z.sqrt n <= iter k n x.
Proof.
  intros Hn. assert (0 < Z.sqrt n) by (apply Z.sqrt_pos; lia).
  revert x. induction k; intros x Hx; [assumption|]. simpl. apply IHk. apply newton_ge; lia.
Qed.

Lemma iter_close k : forall n b x, 0 < n -> 1 <= b -> Z.sqrt n <= x -> close n b x ->
  close n (2 ^ Z.of_nat k * b) (iter k n x).
Proof.
  induction k; intros n b x Hn Hb Hx Hc.
  - cbn [iter]. change (2 ^ Z.of_nat 0) with 1. rewrite Z.mul_1_l. assumption.
  - assert (0 < Z.sqrt n) by (apply Z.sqrt_pos; lia).
    cbn [iter]. rewrite Nat2Z.inj_succ, Z.pow_succ_r by lia.
    replace (2 * 2 ^ Z.of_nat k * b) with (2 ^ Z.of_nat k * (2 * b)) by ring.
    apply IHk; try lia.
    + apply newton_ge; lia.
    + apply close_step; assumption.
Qed.

(* once the exponent exceeds log2 of the root, the estimate is within 2 of the root *)
Lemma close_small n b x : 1 <= b -> Z.sqrt n < 2 ^ (b - 1) -> close n b x -> x <= Z.sqrt n + 2.
Proof.
  unfold close. intros Hb Hs Hc.
  destruct (Z_le_gt_dec (x - Z.sqrt n - 2) 0); [lia|].
  assert (2 ^ (b - 1) * 1 <= 2 ^ (b - 1) * (x - Z.sqrt n - 2)) by (apply Z.mul_le_mono_nonneg_l; lia).
  lia.
Qed.

(* the ct algorithm on Z: start x0 with s <= x0 <= 2 s + 2, [rounds] rounds; x_{rounds - 1} and x_rounds *)
Lemma ct_rounds_enough n x0 h k :
  0 < n -> 0 <= h -> Z.sqrt n < 2 ^ h -> h <= 2 ^ Z.of_nat k - 1 ->
  Z.sqrt n <= x0 <= 2 * Z.sqrt n + 2 ->
  Z.sqrt n <= iter (S k) n x0 <= Z.sqrt n + 1.
Proof.
  intros Hn Hh Hs Hk Hx0.
  assert (Hs0 : 0 < Z.sqrt n) by (apply Z.sqrt_pos; lia).
  assert (Hc0 : close n 1 x0) by (unfold close; change (2 ^ (1 - 1)) with 1; lia).
  pose proof (iter_close k n 1 x0 Hn ltac:(lia) ltac:(lia) Hc0) as Hc.
  pose proof (iter_ge k n x0 Hn ltac:(lia)) as Hge.
  assert (Hpk : 1 <= 2 ^ Z.of_nat k * 1) by (pose proof (Z.pow_pos_nonneg 2 (Z.of_nat k)); lia).
  assert (Hle : iter k n x0 <= Z.sqrt n + 2).
  { apply close_small with (b := 2 ^ Z.of_nat k * 1); try assumption.
    eapply Z.lt_le_trans; [exact Hs|]. apply Z.pow_le_mono_r; lia. }
  rewrite iter_S. set (x := iter k n x0) in *.
  split; [apply newton_ge; lia|].
  destruct (Z.eq_dec x (Z.sqrt n)) as [->|Hne]; [apply newton_root; assumption|].
  assert (newton n x < x) by (apply newton_lt; lia). lia.
Qed.

(* the final selection min(x_prev, x) *)
Lemma ct_result n xp : 0 < n -> Z.sqrt n <= xp <= Z.sqrt n + 1 ->
  Z.min xp (newton n xp) = Z.sqrt n.
Proof.
  intros Hn Hxp. assert (Hs0 : 0 < Z.sqrt n) by (apply Z.sqrt_pos; lia).
  destruct (Z.eq_dec xp (Z.sqrt n)) as [->|Hne].
  - pose proof (newton_root n Hn). lia.
  - pose proof (newton_lt n xp ltac:(lia) ltac:(lia)).
    pose proof (newton_ge n xp ltac:(lia) ltac:(lia)). lia.
Qed.

(* ---- the vartime loop on Z ---- *)
Fixpoint vtz (fuel : nat) (n x : Z) : option Z :=
  match fuel with
  | O => None
  | S f =>
      if x =? 0 then Some x else
      let nx := newton n x in
      if nx <? x then vtz f n nx else Some x
  end.

Lemma vtz_correct fuel : forall n x, 0 < n -> Z.sqrt n <= x ->
  x - Z.sqrt n < 2 ^ (Z.of_nat fuel - 1) -> (1 <= fuel)%nat ->
  vtz fuel n x = Some (Z.sqrt n).
Proof.
  induction fuel as [|f IH]; intros n x Hn Hx Hd Hf; [lia|].
  assert (Hs0 : 0 < Z.sqrt n) by (apply Z.sqrt_pos; lia).
  cbn [vtz]. destruct (Z.eqb_spec x 0); [lia|].
  destruct (Z.eq_dec x (Z.sqrt n)) as [->|Hne].
  - pose proof (newton_root n Hn). destruct (Z.ltb_spec (newton n (Z.sqrt n)) (Z.sqrt n)); [lia|reflexivity].
  - pose proof (newton_lt n x ltac:(lia) ltac:(lia)) as Hlt.
    pose proof (newton_ge n x ltac:(lia) ltac:(lia)) as Hge.
    pose proof (newton_half n x ltac:(lia) ltac:(lia)) as Hh.
    destruct (Z.ltb_spec (newton n x) x); [|lia].
    rewrite Nat2Z.inj_succ in Hd. replace (Z.succ (Z.of_nat f) - 1) with (Z.of_nat f) in Hd by lia.
    destruct f as [|f'].
    { simpl in Hd. lia. }
    apply IH; try lia.
    rewrite Nat2Z.inj_succ in *. replace (Z.succ (Z.of_nat f') - 1) with (Z.of_nat f') by lia.
    rewrite Z.pow_succ_r in Hd by lia. lia.
Qed.

(* ---- the initial estimate 2^ceil(b/2), b = bit length of n ---- *)
Definition bitlen (x : Z) : Z := if x =? 0 then 0 else Z.log2 x + 1.

Lemma bitlen_spec x : 0 < x -> 2 ^ (bitlen x - 1) <= x < 2 ^ bitlen x.
Proof.
  intros H. unfold bitlen. destruct (Z.eqb_spec x 0); [lia|].
  pose proof (Z.log2_spec x H). replace (Z.log2 x + 1 - 1) with (Z.log2 x) by lia.
  unfold Z.succ in *. lia.
Qed.
Lemma bitlen_nonneg x : 0 <= bitlen x.
Proof. unfold bitlen. destruct (x =? 0); [lia|]. pose proof (Z.log2_nonneg x). lia. Qed.
Lemma bitlen_le x m : 0 <= m -> 0 <= x < 2 ^ m -> bitlen x <= m.
Proof.
  intros Hm Hx. unfold bitlen. destruct (Z.eqb_spec x 0); [lia|].
  assert (Z.log2 x < m) by (apply Z.log2_lt_pow2; lia). lia.
Qed.

(* s < x0 <= 2 s for x0 = 2^((b + 1) / 2) *)
Lemma init_bounds n : 0 < n ->
  let x0 := 2 ^ ((bitlen n + 1) / 2) in Z.sqrt n < x0 <= 2 * Z.sqrt n.
Proof.
  intros Hn x0. pose proof (bitlen_spec n Hn) as [Hlo Hhi].
  pose proof (bitlen_nonneg n) as Hb0.
  assert (Hb1 : 1 <= bitlen n).
  { unfold bitlen. destruct (Z.eqb_spec n 0); [lia|]. pose proof (Z.log2_nonneg n). lia. }
  set (b := bitlen n) in *. set (c := (b + 1) / 2) in *.
  assert (Hc : 2 * c = b + 1 \/ 2 * c = b).
  { subst c. pose proof (Z.div_mod (b + 1) 2 ltac:(lia)). pose proof (Z.mod_pos_bound (b + 1) 2 ltac:(lia)). lia. }
  assert (Hc0 : 1 <= c) by lia.
  assert (Hx0 : x0 * x0 = 2 ^ (2 * c)).
  { subst x0. rewrite <- Z.pow_add_r by lia. f_equal. lia. }
  assert (Hx0pos : 0 < x0) by (apply Z.pow_pos_nonneg; lia).
  pose proof (sqrt_bounds n ltac:(lia)) as [Hsl Hsu]. pose proof (Z.sqrt_nonneg n).
  split.
  - (* n < 2^b <= x0^2 *)
    assert (2 ^ b <= 2 ^ (2 * c)) by (apply Z.pow_le_mono_r; lia).
    destruct (Z_lt_le_dec (Z.sqrt n) x0); [assumption|exfalso].
    assert (x0 * x0 <= Z.sqrt n * Z.sqrt n) by (apply Z.mul_le_mono_nonneg; lia). lia.
  - (* (x0/2)^2 = 2^(2c-2) <= 2^(b-1) <= n, so x0/2 <= s *)
    assert (Hh : x0 = 2 * 2 ^ (c - 1)).
    { subst x0. replace c with (Z.succ (c - 1)) at 1 by lia. rewrite Z.pow_succ_r by lia. reflexivity. }
    set (y := 2 ^ (c - 1)) in *.
    assert (0 < y) by (apply Z.pow_pos_nonneg; lia).
    assert (Hy : y * y = 2 ^ (2 * c - 2)).
    { subst y. rewrite <- Z.pow_add_r by lia. f_equal. lia. }
    assert (2 ^ (2 * c - 2) <= 2 ^ (b - 1)) by (apply Z.pow_le_mono_r; lia).
    destruct (Z_le_gt_dec y (Z.sqrt n)); [lia|exfalso].
    assert ((Z.sqrt n + 1) * (Z.sqrt n + 1) <= y * y) by (apply Z.mul_le_mono_nonneg; lia). lia.
Qed.

(* floor(log2 BITS) rounds double the exponent past BITS/2 *)
Lemma log2_rounds bits : 0 < bits -> Z.even bits = true ->
  bits / 2 <= 2 ^ Z.log2 bits - 1.
Proof.
  intros Hb He. pose proof (Z.log2_spec bits Hb) as [Hl Hu].
  apply Zeven_bool_iff in He. destruct (Zeven_ex _ He) as [m Hm]. subst bits.
  replace (2 * m / 2) with m by (rewrite Z.mul_comm, Z.div_mul; lia).
  assert (1 <= Z.log2 (2 * m)).
  { change 1 with (Z.log2 2). apply Z.log2_le_mono. lia. }
  unfold Z.succ in Hu.
  replace (Z.log2 (2 * m) + 1) with (Z.succ (Z.log2 (2 * m))) in Hu by lia.
  rewrite Z.pow_succ_r in Hu by lia. lia.
Qed.
