(** C04 (tables): the model table and the spec table of Model/AddSub.v agree on EVERY key (42 of 42), for all
    well-formed argument lists that satisfy the typing side condition of the key, in both profiles.
    [run_tab t k dbg a] is the table lookup of Model/Api.v (Proofs/TotalityP.v). *)
From CB Require Import Model.Limbs Model.AddSub Proofs.WordP Proofs.WordPredP Proofs.LimbsP Proofs.AddSubP
  Proofs.TotalityP Proofs.TotalityAddSubP.
From Coq Require Import ZArith Lia List String Bool.
Open Scope Z_scope.
Notation length := List.length.

(* ------------------------------------------------------------------ typing side conditions (boolean) *)
Definition btyping := list (string * (list (list Z) -> bool)).
Definition typedb (t : btyping) (k : string) (a : list (list Z)) : bool :=
  match lookup k t with Some P => P a | None => true end.

(* a Limb argument is one word *)
Definition ty_limb1 (a : list (list Z)) : bool := (ln 0 a =? 1)%nat.
Definition ty_limb2 (a : list (list Z)) : bool := (ln 0 a =? 1)%nat && (ln 1 a =? 1)%nat.
(* two Uint<N> operands have one N *)
Definition ty_same2 (a : list (list Z)) : bool := (ln 0 a =? ln 1 a)%nat.
(* ... and at least one limb (the borrow word of sbb is only normalised by a limb step) *)
Definition ty_same2_nonempty (a : list (list Z)) : bool := (ln 0 a =? ln 1 a)%nat && negb (ln 0 a =? 0)%nat.
(* three Uint<N> operands of a Checked<Uint<N>> expression *)
Definition ty_same3 (a : list (list Z)) : bool := (ln 0 a =? ln 1 a)%nat && (ln 0 a =? ln 2 a)%nat.
(* BoxedUint: any pair of precisions; at least one limb where an arbitrary borrow word comes in *)
Definition ty_some_limb (a : list (list Z)) : bool := negb (lmax a =? 0)%nat.
Definition ty_recv_limb (a : list (list Z)) : bool := negb (ln 0 a =? 0)%nat.

Open Scope string_scope.
Definition addsub_tbl_ty : btyping :=
  [("limb.adc", ty_limb2); ("limb.sbb", ty_limb2); ("limb.overflowing_add", ty_limb2);
   ("limb.wrapping_add", ty_limb2); ("limb.wrapping_sub", ty_limb2); ("limb.wrapping_neg", ty_limb1);
   ("limb.saturating_add", ty_limb2); ("limb.saturating_sub", ty_limb2);
   ("limb.checked_add", ty_limb2); ("limb.checked_sub", ty_limb2); ("limb.add", ty_limb2); ("limb.sub", ty_limb2);
   ("uint.adc", ty_same2); ("uint.sbb", ty_same2_nonempty);
   ("uint.wrapping_add", ty_same2); ("uint.wrapping_sub", ty_same2);
   ("uint.saturating_add", ty_same2); ("uint.saturating_sub", ty_same2);
   ("uint.checked_add", ty_same2); ("uint.checked_sub", ty_same2); ("uint.add", ty_same2); ("uint.sub", ty_same2);
   ("uint.checked_expr", ty_same3);
   ("boxed.sbb", ty_some_limb); ("boxed.sbb_assign", ty_recv_limb)].
Open Scope Z_scope.

Definition tbl_ok (k : string) : Prop :=
  forall dbg a, wf_args a -> typedb addsub_tbl_ty k a = true ->
    run_tab ops_addsub_spec k dbg a <> Unsupported ->
    run_tab ops_addsub_model k dbg a = run_tab ops_addsub_spec k dbg a.

Ltac open_typedb H :=
  unfold typedb in H;
  lazy beta iota delta [lookup addsub_tbl_ty String.eqb Ascii.eqb Bool.eqb] in H.
Ltac start_tbl :=
  let dbg := fresh "dbg" in let a := fresh "a" in
  let Hwf := fresh "Hwf" in let Hty := fresh "Hty" in
  intros dbg a Hwf Hty _; open_typedb Hty; open_tabs ops_addsub_model ops_addsub_spec.

(* ------------------------------------------------------------------ small facts *)
Lemma ty_limb1_inv a : ty_limb1 a = true -> arg 0 a = [sarg 0 a].
Proof. unfold ty_limb1, ln. intros H. apply Nat.eqb_eq in H. apply arg_single. exact H. Qed.
Lemma ty_limb2_inv a : ty_limb2 a = true -> arg 0 a = [sarg 0 a] /\ arg 1 a = [sarg 1 a].
Proof.
  unfold ty_limb2, ln. intros H. apply andb_prop in H. destruct H as [H0 H1].
  apply Nat.eqb_eq in H0, H1. split; apply arg_single; assumption.
Qed.
Lemma ty_same2_inv a : ty_same2 a = true -> length (arg 0 a) = length (arg 1 a).
Proof. unfold ty_same2, ln. intros H. apply Nat.eqb_eq in H. exact H. Qed.

Lemma eval_one x : eval [x] = x.
Proof. cbn [eval]. lia. Qed.
Lemma to_limbs_1 x : to_limbs 1 x = [x mod B].
Proof. reflexivity. Qed.
Lemma sarg_is_word i a : wf_args a -> is_word (sarg i a).
Proof. intros H. exact (sarg_word i a H). Qed.

(** a well-formed n-limb list whose value is x mod 2^(64n) is the spec's limb list *)
Lemma limbs_of_mod r n x : wf r -> length r = n -> eval r = x mod Bn n -> r = to_limbs n (x mod Bn n).
Proof.
  intros Hw Hl He. apply to_limbs_unique; auto. pose proof (Bn_pos n). rewrite Z.mod_mod by lia. exact He.
Qed.
Lemma limbs_of_val r n x : wf r -> length r = n -> eval r = x -> r = to_limbs n x.
Proof.
  intros Hw Hl He. apply to_limbs_unique; auto. pose proof (eval_bounds r Hw) as Hb. rewrite Hl, He in Hb.
  rewrite Z.mod_small by lia. exact He.
Qed.

(* ------------------------------------------------------------------ carry / borrow chains against sp_adc / sp_sbb *)
Lemma adc_chain_entry a b c r co : wf a -> wf b -> length a = length b -> is_word c ->
  adc_limbs a b c = (r, co) -> Val [r; [co]] = sp_adc (length a) (eval a) (eval b) c.
Proof.
  intros Ha Hb Hl Hc E. unfold sp_adc, spec_adc.
  pose proof (adc_limbs_correct a b c r co Ha Hb Hl Hc E) as (He & Hw & Hlr & Hco & _).
  pose proof (eval_bounds r Hw) as Hbr. rewrite Hlr in Hbr.
  destruct (div_mod_unique_pos (Bn (length a)) co (eval r) (eval a + eval b + c) Hbr ltac:(lia)) as [Hq Hm].
  rewrite Hq. f_equal. f_equal. apply limbs_of_mod; auto.
Qed.

Lemma sbb_chain_entry a b bw r bo : wf a -> wf b -> length a = length b -> length a <> 0%nat -> is_word bw ->
  sbb_limbs a b bw = (r, bo) -> Val [r; [bo]] = sp_sbb (length a) (eval a) (eval b) bw.
Proof.
  intros Ha Hb Hl Hn Hc E. unfold sp_sbb, spec_sbb.
  pose proof (sbb_limbs_correct a b bw r bo Ha Hb Hl Hc E) as (Hw & Hlr & [(Hz & _)|(_ & Hib & He)]);
    [contradiction|].
  unfold bin in He. set (s := eval a - eval b - bw / 2 ^ 63) in *.
  pose proof (eval_bounds r Hw) as Hbr. rewrite Hlr in Hbr. pose proof (Bn_pos (length a)) as HB.
  destruct Hib as [-> | ->].
  - rewrite bout_0 in He. assert (Hs : s = eval r) by lia.
    destruct (Z.ltb_spec s 0); [lia|]. f_equal. f_equal. apply limbs_of_mod; auto.
    rewrite Hs. symmetry. apply Z.mod_small. lia.
  - rewrite bout_MAXW in He.
    destruct (Z.ltb_spec s 0); [|lia]. f_equal. f_equal. apply limbs_of_mod; auto.
    apply (Z.mod_unique_pos _ _ (-1)); lia.
Qed.

(* the wrapping / checked / saturating selections *)
Lemma adc0_facts a b r co : wf a -> wf b -> length a = length b -> adc_limbs a b 0 = (r, co) ->
  wf r /\ length r = length a /\ 0 <= eval r < Bn (length a) /\
  ((co = 0 /\ eval r = eval a + eval b) \/ (co = 1 /\ eval r = eval a + eval b - Bn (length a))).
Proof.
  intros Ha Hb Hl E.
  pose proof (adc_limbs_correct a b 0 r co Ha Hb Hl is_word_0' E) as (He & Hw & Hlr & Hco & Hsm).
  specialize (Hsm ltac:(lia)). unfold is_word in Hco.
  pose proof (eval_bounds r Hw) as Hbr. rewrite Hlr in Hbr.
  repeat split; auto; try lia.
  assert (co = 0 \/ co = 1) as [-> | ->] by lia; [left | right]; split; lia.
Qed.

Lemma sbb0_facts a b r bo : wf a -> wf b -> length a = length b -> sbb_limbs a b 0 = (r, bo) ->
  wf r /\ length r = length a /\ 0 <= eval r < Bn (length a) /\
  ((bo = 0 /\ eval r = eval a - eval b) \/ (bo = MAXW /\ eval r = eval a - eval b + Bn (length a))).
Proof.
  intros Ha Hb Hl E.
  pose proof (sbb_limbs_correct a b 0 r bo Ha Hb Hl is_word_0' E) as (Hw & Hlr & Hcase).
  pose proof (eval_bounds r Hw) as Hbr. rewrite Hlr in Hbr.
  repeat split; auto; try lia.
  destruct Hcase as [(Hz & -> & ->)|(_ & Hib & He)].
  - left. split; [reflexivity|]. destruct a; [|discriminate]. destruct b; [|discriminate]. reflexivity.
  - rewrite bin_0 in He. destruct Hib as [-> | ->]; [rewrite bout_0 in He; left | rewrite bout_MAXW in He; right];
      split; auto; lia.
Qed.

Lemma MAXW_nonzero : MAXW =? 0 = false.
Proof. reflexivity. Qed.

Section Uint2.
Variables a b : list Z.
Hypothesis Ha : wf a.
Hypothesis Hb : wf b.
Hypothesis Hl : length a = length b.

Lemma ent_wrapping_add : Val [uint_wrapping_add a b] = sp_wrapping (length a) (eval a + eval b).
Proof.
  unfold uint_wrapping_add, sp_wrapping, sp_val. destruct (adc_limbs a b 0) as [r co] eqn:E. cbn [fst].
  destruct (adc0_facts a b r co Ha Hb Hl E) as (Hw & Hlr & Hbr & Hc). pose proof (Bn_pos (length a)).
  do 2 f_equal. apply limbs_of_mod; auto.
  destruct Hc as [[_ He]|[_ He]]; [apply (Z.mod_unique_pos _ _ 0) | apply (Z.mod_unique_pos _ _ 1)]; lia.
Qed.

Lemma ent_wrapping_sub : Val [uint_wrapping_sub a b] = sp_wrapping (length a) (eval a - eval b).
Proof.
  unfold uint_wrapping_sub, sp_wrapping, sp_val. destruct (sbb_limbs a b 0) as [r bo] eqn:E. cbn [fst].
  destruct (sbb0_facts a b r bo Ha Hb Hl E) as (Hw & Hlr & Hbr & Hc). pose proof (Bn_pos (length a)).
  do 2 f_equal. apply limbs_of_mod; auto.
  destruct Hc as [[_ He]|[_ He]]; [apply (Z.mod_unique_pos _ _ 0) | apply (Z.mod_unique_pos _ _ (-1))]; lia.
Qed.

(* checked: Some r (exact) or None, decided exactly by the spec's range test *)
Lemma checked_add_cases :
  (sp_fits (length a) (eval a + eval b) = true /\ uint_checked_add a b = Some (to_limbs (length a) (eval a + eval b))) \/
  (sp_fits (length a) (eval a + eval b) = false /\ uint_checked_add a b = None).
Proof.
  unfold uint_checked_add. destruct (adc_limbs a b 0) as [r co] eqn:E.
  destruct (adc0_facts a b r co Ha Hb Hl E) as (Hw & Hlr & Hbr & Hc).
  pose proof (eval_nonneg a Ha). pose proof (eval_nonneg b Hb).
  destruct Hc as [[-> He]|[-> He]].
  - left. split; [apply sp_fits_true; lia|]. cbn. f_equal. apply limbs_of_val; auto.
  - right. split; [apply sp_fits_false; lia | reflexivity].
Qed.

Lemma checked_sub_cases :
  (sp_fits (length a) (eval a - eval b) = true /\ uint_checked_sub a b = Some (to_limbs (length a) (eval a - eval b))) \/
  (sp_fits (length a) (eval a - eval b) = false /\ uint_checked_sub a b = None).
Proof.
  unfold uint_checked_sub. destruct (sbb_limbs a b 0) as [r bo] eqn:E.
  destruct (sbb0_facts a b r bo Ha Hb Hl E) as (Hw & Hlr & Hbr & Hc).
  destruct Hc as [[-> He]|[-> He]].
  - left. split; [apply sp_fits_true; lia|]. cbn. f_equal. apply limbs_of_val; auto.
  - right. split; [apply sp_fits_false; lia | rewrite MAXW_nonzero; reflexivity].
Qed.

Lemma ent_checked_add : vopt (uint_checked_add a b) = sp_checked (length a) (eval a + eval b).
Proof. unfold sp_checked, sp_val. destruct checked_add_cases as [[-> ->]|[-> ->]]; reflexivity. Qed.
Lemma ent_checked_sub : vopt (uint_checked_sub a b) = sp_checked (length a) (eval a - eval b).
Proof. unfold sp_checked, sp_val. destruct checked_sub_cases as [[-> ->]|[-> ->]]; reflexivity. Qed.
Lemma ent_add : vpanic_none (uint_checked_add a b) = sp_panicking (length a) (eval a + eval b).
Proof. unfold sp_panicking, sp_val. destruct checked_add_cases as [[-> ->]|[-> ->]]; reflexivity. Qed.
Lemma ent_sub : vpanic_none (uint_checked_sub a b) = sp_panicking (length a) (eval a - eval b).
Proof. unfold sp_panicking, sp_val. destruct checked_sub_cases as [[-> ->]|[-> ->]]; reflexivity. Qed.

Lemma ent_saturating_add : Val [uint_saturating_add a b] = sp_saturating (length a) (eval a + eval b).
Proof.
  unfold uint_saturating_add, sp_saturating, sp_val. destruct (adc_limbs a b 0) as [r co] eqn:E.
  destruct (adc0_facts a b r co Ha Hb Hl E) as (Hw & Hlr & Hbr & Hc).
  pose proof (eval_nonneg a Ha). pose proof (eval_nonneg b Hb). pose proof (Bn_pos (length a)).
  do 2 f_equal.
  destruct (Z.ltb_spec (eval a + eval b) 0); [lia|].
  destruct Hc as [[-> He]|[-> He]].
  - change (from_word_lsb 0) with (choice_of_bool false).
    rewrite select_limbs_choice; auto using wf_maxs; [|rewrite length_maxs; assumption].
    destruct (Z.ltb_spec (eval a + eval b) (Bn (length a))); [|lia]. apply limbs_of_val; auto.
  - change (from_word_lsb 1) with (choice_of_bool true).
    rewrite select_limbs_choice; auto using wf_maxs; [|rewrite length_maxs; assumption].
    destruct (Z.ltb_spec (eval a + eval b) (Bn (length a))); [lia|].
    apply limbs_of_val; auto using wf_maxs, length_maxs, eval_maxs.
Qed.

Lemma ent_saturating_sub : Val [uint_saturating_sub a b] = sp_saturating (length a) (eval a - eval b).
Proof.
  unfold uint_saturating_sub, sp_saturating, sp_val. destruct (sbb_limbs a b 0) as [r bo] eqn:E.
  destruct (sbb0_facts a b r bo Ha Hb Hl E) as (Hw & Hlr & Hbr & Hc).
  pose proof (eval_bounds a Ha). pose proof (eval_nonneg b Hb).
  do 2 f_equal.
  destruct Hc as [[-> He]|[-> He]].
  - change 0 with (choice_of_bool false) at 1.
    rewrite select_limbs_choice; auto using wf_zeros; [|rewrite length_zeros; assumption].
    destruct (Z.ltb_spec (eval a - eval b) 0); [lia|].
    destruct (Z.ltb_spec (eval a - eval b) (Bn (length a))); [|lia]. apply limbs_of_val; auto.
  - change MAXW with (choice_of_bool true) at 1.
    rewrite select_limbs_choice; auto using wf_zeros; [|rewrite length_zeros; assumption].
    destruct (Z.ltb_spec (eval a - eval b) 0); [|lia].
    apply limbs_of_val; auto using wf_zeros, length_zeros, eval_zeros.
Qed.
End Uint2.

(* ------------------------------------------------------------------ negation *)
Section Neg.
Variable a : list Z.
Hypothesis Ha : wf a.

Lemma wrapping_neg_facts : let r := uint_wrapping_neg a in
  wf r /\ length r = length a /\ eval r = (- eval a) mod Bn (length a).
Proof.
  cbv zeta. pose proof (carrying_neg_spec a) as H. unfold uint_carrying_neg in H. unfold uint_wrapping_neg.
  destruct (neg_limbs a 1) as [r co]. cbn [fst].
  destruct (H r (from_word_lsb co) Ha eq_refl) as (He & Hw & Hl & _). auto.
Qed.

Lemma ent_wrapping_neg : Val [uint_wrapping_neg a] = sp_wrapping (length a) (- eval a).
Proof.
  destruct wrapping_neg_facts as (Hw & Hl & He). unfold sp_wrapping, sp_val. do 2 f_equal.
  apply limbs_of_mod; auto.
Qed.

Lemma ent_carrying_neg :
  (let '(r, c) := uint_carrying_neg a in Val [r; vbool (choice_to_bool c)]) =
  Val [to_limbs (length a) (spec_neg (length a) (eval a)); vbool (eval a =? 0)].
Proof.
  destruct (uint_carrying_neg a) as [r c] eqn:E.
  destruct (carrying_neg_spec a r c Ha E) as (He & Hw & Hl & Hc). rewrite Hc. unfold spec_neg.
  do 2 f_equal. apply limbs_of_mod; auto.
Qed.

Lemma ent_wrapping_neg_if s :
  Val [uint_wrapping_neg_if a (choice_of_bool (negb (s =? 0)))] =
  sp_wrapping (length a) (if s =? 0 then eval a else - eval a).
Proof.
  unfold uint_wrapping_neg_if. destruct wrapping_neg_facts as (Hw & Hl & He).
  rewrite select_limbs_choice by auto.
  destruct (s =? 0); cbn [negb]; [|apply ent_wrapping_neg].
  unfold sp_wrapping, sp_val. do 2 f_equal. apply limbs_of_mod; auto.
  symmetry. apply Z.mod_small. apply eval_bounds. assumption.
Qed.
End Neg.

(* ------------------------------------------------------------------ Checked<Uint<N>> expressions *)
(* an optional limb list represents an optional value of the spec at width n *)
Definition orep (n : nat) (o : option (list Z)) (v : option Z) : Prop :=
  match o, v with
  | Some r, Some x => wf r /\ length r = n /\ eval r = x
  | None, None => True
  | _, _ => False
  end.

Lemma orep_some n x : wf x -> length x = n -> orep n (Some x) (Some (eval x)).
Proof. intros. cbn. auto. Qed.

Lemma sp_fits_bounds n x : sp_fits n x = true -> 0 <= x < Bn n.
Proof. unfold sp_fits. intros H. apply andb_prop in H. destruct H as [H1 H2]. apply Z.leb_le in H1. apply Z.ltb_lt in H2. lia. Qed.

Lemma orep_to_limbs n v : sp_fits n v = true -> orep n (Some (to_limbs n v)) (Some v).
Proof.
  intros H. apply sp_fits_bounds in H. cbn. split; [apply wf_to_limbs|]. split; [apply length_to_limbs|].
  apply to_limbs_small. assumption.
Qed.

Lemma checked_bin_rep n op x y vx vy : orep n x vx -> orep n y vy ->
  orep n (checked_bin op x y) (sp_checked_bin n op vx vy).
Proof.
  intros Hx Hy. destruct x as [xv|], vx as [vxv|]; cbn in Hx; try contradiction; [|destruct y; exact I].
  destruct y as [yv|], vy as [vyv|]; cbn in Hy; try contradiction; [|exact I].
  destruct Hx as (Hwx & Hlx & <-). destruct Hy as (Hwy & Hly & <-). subst n.
  cbn [checked_bin sp_checked_bin]. symmetry in Hly.
  destruct (op =? 0).
  - destruct (checked_add_cases xv yv Hwx Hwy Hly) as [[Hf ->]|[Hf ->]]; rewrite Hf; [|exact I].
    apply orep_to_limbs. assumption.
  - destruct (checked_sub_cases xv yv Hwx Hwy Hly) as [[Hf ->]|[Hf ->]]; rewrite Hf; [|exact I].
    apply orep_to_limbs. assumption.
Qed.

Lemma ent_checked_expr shape op1 op2 a b c : wf a -> wf b -> wf c -> length a = length b -> length a = length c ->
  vopt (checked_expr shape op1 op2 a b c) =
  match (if shape =? 0
         then sp_checked_bin (length a) op2 (sp_checked_bin (length a) op1 (Some (eval a)) (Some (eval b))) (Some (eval c))
         else sp_checked_bin (length a) op2 (Some (eval a)) (sp_checked_bin (length a) op1 (Some (eval b)) (Some (eval c)))) with
  | Some r => sp_val (length a) r | None => NoneV end.
Proof.
  intros Ha Hb Hc Hl1 Hl2. set (n := length a).
  pose proof (orep_some n a Ha eq_refl) as Ra.
  pose proof (orep_some n b Hb (eq_sym Hl1)) as Rb.
  pose proof (orep_some n c Hc (eq_sym Hl2)) as Rc.
  unfold checked_expr.
  assert (K : forall o v, orep n o v -> vopt o = match v with Some r => sp_val n r | None => NoneV end).
  { intros [r|] [v|] H; cbn in H; try contradiction; [|reflexivity].
    destruct H as (Hw & Hl & He). cbn. unfold sp_val. do 2 f_equal. apply limbs_of_val; auto. }
  destruct (shape =? 0); apply K; repeat apply checked_bin_rep; assumption.
Qed.

(* ------------------------------------------------------------------ BoxedUint: operands of any two precisions *)
Lemma let_pair_vopt (p : list Z * Z) :
  (let '(r, c) := p in if c =? 0 then Val [r] else NoneV) =
  vopt (let '(r, c) := p in if c =? 0 then Some r else None).
Proof. destruct p as [r c]. destruct (c =? 0); reflexivity. Qed.
Lemma let_pair_vpanic (p : list Z * Z) :
  (let '(r, c) := p in if c =? 0 then Val [r] else PanicV) =
  vpanic_none (let '(r, c) := p in if c =? 0 then Some r else None).
Proof. destruct p as [r c]. destruct (c =? 0); reflexivity. Qed.

Section Boxed2.
Variables x y : list Z.
Hypothesis Hx : wf x.
Hypothesis Hy : wf y.
Let n := Nat.max (length x) (length y).
Let x' := resize n x.
Let y' := resize n y.

Lemma bx_wf : wf x' /\ wf y' /\ length x' = n /\ length y' = n /\ length x' = length y' /\
  eval x' = eval x /\ eval y' = eval y.
Proof.
  unfold x', y'. rewrite !length_resize. repeat split; auto using wf_resize;
  apply eval_resize_ge; auto; unfold n; lia.
Qed.

Lemma ent_boxed_adc c : is_word c -> vpair (boxed_adc x y c) = sp_adc n (eval x) (eval y) c.
Proof.
  intros Hc. destruct bx_wf as (Hwx & Hwy & Hlx & Hly & Hl & Ex & Ey).
  unfold boxed_adc, vpair. fold n x' y'. destruct (adc_limbs x' y' c) as [r co] eqn:E. cbn [fst snd].
  rewrite (adc_chain_entry x' y' c r co Hwx Hwy Hl Hc E), Hlx, Ex, Ey. reflexivity.
Qed.

Lemma ent_boxed_sbb c : is_word c -> n <> 0%nat -> vpair (boxed_sbb x y c) = sp_sbb n (eval x) (eval y) c.
Proof.
  intros Hc Hn. destruct bx_wf as (Hwx & Hwy & Hlx & Hly & Hl & Ex & Ey).
  unfold boxed_sbb, vpair. fold n x' y'. destruct (sbb_limbs x' y' c) as [r bo] eqn:E. cbn [fst snd].
  rewrite (sbb_chain_entry x' y' c r bo Hwx Hwy Hl ltac:(lia) Hc E), Hlx, Ex, Ey. reflexivity.
Qed.

Lemma ent_boxed_wrapping_add : Val [fst (boxed_adc x y 0)] = sp_wrapping n (eval x + eval y).
Proof.
  destruct bx_wf as (Hwx & Hwy & Hlx & Hly & Hl & Ex & Ey). unfold boxed_adc. fold n x' y'.
  change (fst (adc_limbs x' y' 0)) with (uint_wrapping_add x' y').
  rewrite (ent_wrapping_add x' y' Hwx Hwy Hl), Hlx, Ex, Ey. reflexivity.
Qed.
Lemma ent_boxed_wrapping_sub : Val [fst (boxed_sbb x y 0)] = sp_wrapping n (eval x - eval y).
Proof.
  destruct bx_wf as (Hwx & Hwy & Hlx & Hly & Hl & Ex & Ey). unfold boxed_sbb. fold n x' y'.
  change (fst (sbb_limbs x' y' 0)) with (uint_wrapping_sub x' y').
  rewrite (ent_wrapping_sub x' y' Hwx Hwy Hl), Hlx, Ex, Ey. reflexivity.
Qed.

Lemma ent_boxed_checked_add :
  (let '(r, c) := boxed_adc x y 0 in if c =? 0 then Val [r] else NoneV) = sp_checked n (eval x + eval y).
Proof.
  destruct bx_wf as (Hwx & Hwy & Hlx & Hly & Hl & Ex & Ey). rewrite let_pair_vopt. unfold boxed_adc. fold n x' y'.
  change (let '(r, c) := adc_limbs x' y' 0 in if c =? 0 then Some r else None) with (uint_checked_add x' y').
  rewrite (ent_checked_add x' y' Hwx Hwy Hl), Hlx, Ex, Ey. reflexivity.
Qed.
Lemma ent_boxed_checked_sub :
  (let '(r, c) := boxed_sbb x y 0 in if c =? 0 then Val [r] else NoneV) = sp_checked n (eval x - eval y).
Proof.
  destruct bx_wf as (Hwx & Hwy & Hlx & Hly & Hl & Ex & Ey). rewrite let_pair_vopt. unfold boxed_sbb. fold n x' y'.
  change (let '(r, c) := sbb_limbs x' y' 0 in if c =? 0 then Some r else None) with (uint_checked_sub x' y').
  rewrite (ent_checked_sub x' y' Hwx Hwy Hl), Hlx, Ex, Ey. reflexivity.
Qed.
Lemma ent_boxed_add :
  (let '(r, c) := boxed_adc x y 0 in if c =? 0 then Val [r] else PanicV) = sp_panicking n (eval x + eval y).
Proof.
  destruct bx_wf as (Hwx & Hwy & Hlx & Hly & Hl & Ex & Ey). rewrite let_pair_vpanic. unfold boxed_adc. fold n x' y'.
  change (let '(r, c) := adc_limbs x' y' 0 in if c =? 0 then Some r else None) with (uint_checked_add x' y').
  rewrite (ent_add x' y' Hwx Hwy Hl), Hlx, Ex, Ey. reflexivity.
Qed.
Lemma ent_boxed_sub :
  (let '(r, c) := boxed_sbb x y 0 in if c =? 0 then Val [r] else PanicV) = sp_panicking n (eval x - eval y).
Proof.
  destruct bx_wf as (Hwx & Hwy & Hlx & Hly & Hl & Ex & Ey). rewrite let_pair_vpanic. unfold boxed_sbb. fold n x' y'.
  change (let '(r, c) := sbb_limbs x' y' 0 in if c =? 0 then Some r else None) with (uint_checked_sub x' y').
  rewrite (ent_sub x' y' Hwx Hwy Hl), Hlx, Ex, Ey. reflexivity.
Qed.
End Boxed2.

(* ------------------------------------------------------------------ BoxedUint assigning forms *)
(* the limbs of rhs beyond the receiver's precision set the flag m in the carry / borrow word iff one is non-zero *)
Lemma fold_or m l : is_word m -> wf l -> forall c,
  fold_left (fun cy x => wor cy (if_true_word (from_word_nonzero x) m)) l c = if eval l =? 0 then c else wor c m.
Proof.
  intros Hm Hl. induction l as [|x l IH]; intros c; cbn [fold_left eval]; [reflexivity|].
  apply wf_cons in Hl. destruct Hl as [Hx Hl]. rewrite (IH Hl).
  pose proof (eval_nonneg l Hl) as Hn. pose proof B_pos as HB. unfold is_word in Hx.
  assert (HBn : 0 <= B * eval l) by (apply Z.mul_nonneg_nonneg; lia).
  rewrite from_word_nonzero_spec by assumption. unfold if_true_word, wand, wor.
  destruct (Z.eqb_spec x 0) as [->|Hx0]; cbn [negb choice_of_bool].
  - rewrite Z.land_0_r, Z.lor_0_r.
    destruct (Z.eqb_spec (eval l) 0) as [E|E]; destruct (Z.eqb_spec (0 + B * eval l) 0) as [E'|E']; try reflexivity; exfalso.
    + apply E'. rewrite E. lia.
    + apply E. destruct (Z.eq_dec (eval l) 0); [assumption|]. assert (B * 1 <= B * eval l) by (apply Z.mul_le_mono_nonneg_l; lia). lia.
  - rewrite Z.land_comm, land_MAXW by assumption.
    rewrite <- Z.lor_assoc, Z.lor_diag.
    destruct (Z.eqb_spec (x + B * eval l) 0) as [E'|E']; [lia|].
    destruct (eval l =? 0); reflexivity.
Qed.

Lemma hi_zero_iff n b : wf b -> (eval (skipn n b) =? 0) = (eval b / Bn n =? 0).
Proof.
  intros Hb. pose proof (eval_skipn_zero_iff n b Hb) as H. pose proof (eval_nonneg b Hb). pose proof (Bn_pos n).
  destruct (Z.eqb_spec (eval (skipn n b)) 0) as [E|E]; destruct (Z.eqb_spec (eval b / Bn n) 0) as [E'|E']; try reflexivity; exfalso.
  - apply E'. apply Z.div_small. apply H in E. lia.
  - apply E, H. apply Z.div_small_iff in E'; lia.
Qed.

Lemma lor_MAXW c : is_word c -> Z.lor c MAXW = MAXW.
Proof.
  intros Hc. apply Z.bits_inj'. intros i Hi. rewrite Z.lor_spec.
  destruct (Z.lt_ge_cases i 64).
  - rewrite MAXW_val, B_val. change (2 ^ 64 - 1) with (Z.ones 64). rewrite Z.ones_spec_low by lia. apply orb_true_r.
  - rewrite (word_high_bits c i Hc) by lia. reflexivity.
Qed.

Lemma val2_inj (r r' : list Z) (c c' : Z) : Val [r; [c]] = Val [r'; [c']] -> r = r' /\ c = c'.
Proof. intros H. injection H as H1 H2. auto. Qed.

Section BoxedAssign.
Variables x y : list Z.
Hypothesis Hx : wf x.
Hypothesis Hy : wf y.
Let n := length x.
Let y' := resize n y.

Lemma ent_boxed_adc_assign c : is_word c ->
  vpair (boxed_adc_assign x y c) =
  Val [to_limbs n ((eval x + eval y mod Bn n + c) mod Bn n);
       [if eval y / Bn n =? 0 then (eval x + eval y mod Bn n + c) / Bn n
        else wor ((eval x + eval y mod Bn n + c) / Bn n) 1]].
Proof.
  intros Hc. unfold boxed_adc_assign, vpair. fold n y'. destruct (adc_limbs x y' c) as [r co] eqn:E. cbn [fst snd].
  pose proof (adc_chain_entry x y' c r co Hx (wf_resize n y Hy) ltac:(unfold y'; rewrite length_resize; reflexivity) Hc E) as H.
  unfold sp_adc, spec_adc in H. fold n in H. unfold y' in H. rewrite eval_resize in H by assumption.
  apply val2_inj in H. destruct H as [Hr Hco]. rewrite (fold_or 1 _ is_word_1 (wf_skipn n y Hy)), hi_zero_iff by assumption.
  rewrite <- Hr, <- Hco. reflexivity.
Qed.

Lemma ent_boxed_sbb_assign c : is_word c -> n <> 0%nat ->
  vpair (boxed_sbb_assign x y c) =
  Val [to_limbs n ((eval x - eval y mod Bn n - c / 2 ^ 63) mod Bn n);
       [if eval y / Bn n =? 0 then (if eval x - eval y mod Bn n - c / 2 ^ 63 <? 0 then MAXW else 0) else MAXW]].
Proof.
  intros Hc Hn. unfold boxed_sbb_assign, vpair. fold n y'. destruct (sbb_limbs x y' c) as [r bo] eqn:E. cbn [fst snd].
  pose proof (sbb_chain_entry x y' c r bo Hx (wf_resize n y Hy) ltac:(unfold y'; rewrite length_resize; reflexivity) Hn Hc E) as H.
  unfold sp_sbb, spec_sbb in H. fold n in H. unfold y' in H. rewrite eval_resize in H by assumption.
  apply val2_inj in H. destruct H as [Hr Hbo]. rewrite (fold_or MAXW _ is_word_MAXW (wf_skipn n y Hy)), hi_zero_iff by assumption.
  assert (Hm : wor bo MAXW = MAXW)
    by (rewrite Hbo; unfold wor; destruct (_ <? 0); [apply Z.lor_diag | apply Z.lor_0_l]).
  rewrite <- Hr, <- Hbo. destruct (eval y / Bn n =? 0); [reflexivity | rewrite Hm; reflexivity].
Qed.

Lemma ent_boxed_add_assign dbg : boxed_add_assign_op dbg x y = sp_panicking n (eval x + eval y).
Proof.
  unfold n, sp_panicking, sp_val. pose proof (eval_nonneg x Hx). pose proof (eval_nonneg y Hy).
  destruct (boxed_add_assign_full x y dbg Hx Hy) as [(Hlt & r & -> & He & Hl & Hw)|(Hge & ->)].
  - rewrite sp_fits_true by lia. do 2 f_equal. apply limbs_of_val; auto.
  - rewrite sp_fits_false by lia. reflexivity.
Qed.
Lemma ent_boxed_sub_assign dbg : boxed_sub_assign_op dbg x y = sp_panicking n (eval x - eval y).
Proof.
  unfold n, sp_panicking, sp_val. pose proof (eval_bounds x Hx). pose proof (eval_nonneg y Hy).
  destruct (boxed_sub_assign_full x y dbg Hx Hy) as [(Hlt & r & -> & He & Hl & Hw)|(Hge & ->)].
  - rewrite sp_fits_true by lia. do 2 f_equal. apply limbs_of_val; auto.
  - rewrite sp_fits_false by lia. reflexivity.
Qed.

Lemma ent_boxed_wrapping_add_assign dbg :
  boxed_wrapping_assign_op false dbg x y = sp_wrapping n (eval x + eval y).
Proof.
  unfold boxed_wrapping_assign_op, boxed_adc_assign. fold n y'. destruct (adc_limbs x y' 0) as [r co] eqn:E. cbn [fst].
  change r with (fst (r, co)). rewrite <- E. change (fst (adc_limbs x y' 0)) with (uint_wrapping_add x y').
  rewrite (ent_wrapping_add x y' Hx (wf_resize n y Hy)) by (unfold y'; rewrite length_resize; reflexivity).
  fold n. unfold y'. rewrite eval_resize by assumption. unfold sp_wrapping. pose proof (Bn_pos n).
  rewrite Z.add_mod_idemp_r by lia. reflexivity.
Qed.
Lemma ent_boxed_wrapping_sub_assign dbg :
  boxed_wrapping_assign_op true dbg x y = sp_wrapping n (eval x - eval y).
Proof.
  unfold boxed_wrapping_assign_op, boxed_sbb_assign. fold n y'. destruct (sbb_limbs x y' 0) as [r co] eqn:E. cbn [fst].
  change r with (fst (r, co)). rewrite <- E. change (fst (sbb_limbs x y' 0)) with (uint_wrapping_sub x y').
  rewrite (ent_wrapping_sub x y' Hx (wf_resize n y Hy)) by (unfold y'; rewrite length_resize; reflexivity).
  fold n. unfold y'. rewrite eval_resize by assumption. unfold sp_wrapping. pose proof (Bn_pos n).
  rewrite Zminus_mod_idemp_r. reflexivity.
Qed.
End BoxedAssign.

(* ------------------------------------------------------------------ Limb forms *)
Lemma limb_adc_entry x y c : is_word x -> is_word y -> is_word c -> vpair2 (adc x y c) = sp_adc 1 x y c.
Proof.
  intros Hx Hy Hc.
  assert (E : adc_limbs [x] [y] c = ([fst (adc x y c)], snd (adc x y c))).
  { cbn [adc_limbs]. destruct (adc x y c). reflexivity. }
  pose proof (adc_chain_entry [x] [y] c _ _ ltac:(apply wf_cons; split; [assumption | apply wf_nil])
    ltac:(apply wf_cons; split; [assumption | apply wf_nil]) eq_refl Hc E) as H.
  rewrite !eval_one in H. exact H.
Qed.
Lemma limb_sbb_entry x y c : is_word x -> is_word y -> is_word c -> vpair2 (sbb x y c) = sp_sbb 1 x y c.
Proof.
  intros Hx Hy Hc.
  assert (E : sbb_limbs [x] [y] c = ([fst (sbb x y c)], snd (sbb x y c))).
  { cbn [sbb_limbs]. destruct (sbb x y c). reflexivity. }
  pose proof (sbb_chain_entry [x] [y] c _ _ ltac:(apply wf_cons; split; [assumption | apply wf_nil])
    ltac:(apply wf_cons; split; [assumption | apply wf_nil]) eq_refl ltac:(discriminate) Hc E) as H.
  rewrite !eval_one in H. exact H.
Qed.
Lemma limb_mac_entry x y z c : is_word x -> is_word y -> is_word z -> is_word c ->
  vpair2 (mac x y z c) = Val [[(x + y * z + c) mod B]; [(x + y * z + c) / B]].
Proof.
  intros Hx Hy Hz Hc. destruct (mac x y z c) as [lo hi] eqn:E.
  destruct (mac_exact x y z c lo hi Hx Hy Hz Hc E) as (He & Hlo & Hhi). unfold is_word in Hlo.
  destruct (div_mod_unique_pos B hi lo (x + y * z + c) Hlo ltac:(lia)) as [-> ->]. reflexivity.
Qed.
Lemma limb_wrap_entry v : Val [[wrap v]] = sp_wrapping 1 v.
Proof.
  unfold sp_wrapping, sp_val, wrap. rewrite to_limbs_1, Bn_1. pose proof B_pos. rewrite Z.mod_mod by lia. reflexivity.
Qed.

Lemma ev_limb i a : length (arg i a) = 1%nat -> ev i a = sarg i a.
Proof. intros H. unfold ev. rewrite (arg_single i a H). apply eval_one. Qed.

Ltac limb2_setup Hty a :=
  let H0 := fresh "H0" in let H1 := fresh "H1" in
  unfold ty_limb2, ln in Hty; apply andb_prop in Hty; destruct Hty as [H0 H1];
  apply Nat.eqb_eq in H0, H1.
(* Limb forms that run the one-limb Uint code: replace the literal width 1 by the operand's length *)
Ltac limb_as_uint H0 H1 Hwf :=
  unfold ev; etransitivity;
  [ first [apply ent_saturating_add | apply ent_saturating_sub | apply ent_checked_add | apply ent_checked_sub
          | apply ent_add | apply ent_sub]; try (apply wf_arg; exact Hwf); lia
  | rewrite H0; reflexivity ].

Lemma tbl_limb_adc : tbl_ok "limb.adc".
Proof. start_tbl. limb2_setup Hty a. rewrite !ev_limb by assumption. apply limb_adc_entry; apply sarg_is_word; assumption. Qed.
Lemma tbl_limb_sbb : tbl_ok "limb.sbb".
Proof. start_tbl. limb2_setup Hty a. rewrite !ev_limb by assumption. apply limb_sbb_entry; apply sarg_is_word; assumption. Qed.
Lemma tbl_limb_overflowing_add : tbl_ok "limb.overflowing_add".
Proof.
  start_tbl. limb2_setup Hty a. rewrite !ev_limb by assumption.
  rewrite <- limb_adc_entry by (try apply sarg_is_word; auto using is_word_0').
  unfold overflowing_add, adc. rewrite Z.add_0_r. reflexivity.
Qed.
Lemma tbl_limb_mac : tbl_ok "limb.mac".
Proof. start_tbl. cbv zeta. apply limb_mac_entry; apply sarg_is_word; assumption. Qed.
Lemma tbl_limb_wrapping_add : tbl_ok "limb.wrapping_add".
Proof. start_tbl. limb2_setup Hty a. rewrite !ev_limb by assumption. apply limb_wrap_entry. Qed.
Lemma tbl_limb_wrapping_sub : tbl_ok "limb.wrapping_sub".
Proof. start_tbl. limb2_setup Hty a. rewrite !ev_limb by assumption. apply limb_wrap_entry. Qed.
Lemma tbl_limb_wrapping_neg : tbl_ok "limb.wrapping_neg".
Proof.
  start_tbl. unfold ty_limb1, ln in Hty. apply Nat.eqb_eq in Hty. rewrite !ev_limb by assumption. apply limb_wrap_entry.
Qed.
Lemma tbl_limb_saturating_add : tbl_ok "limb.saturating_add".
Proof. start_tbl. limb2_setup Hty a. limb_as_uint H0 H1 Hwf. Qed.
Lemma tbl_limb_saturating_sub : tbl_ok "limb.saturating_sub".
Proof. start_tbl. limb2_setup Hty a. limb_as_uint H0 H1 Hwf. Qed.
Lemma tbl_limb_checked_add : tbl_ok "limb.checked_add".
Proof. start_tbl. limb2_setup Hty a. limb_as_uint H0 H1 Hwf. Qed.
Lemma tbl_limb_checked_sub : tbl_ok "limb.checked_sub".
Proof. start_tbl. limb2_setup Hty a. limb_as_uint H0 H1 Hwf. Qed.
Lemma tbl_limb_add : tbl_ok "limb.add".
Proof. start_tbl. limb2_setup Hty a. limb_as_uint H0 H1 Hwf. Qed.
Lemma tbl_limb_sub : tbl_ok "limb.sub".
Proof. start_tbl. limb2_setup Hty a. limb_as_uint H0 H1 Hwf. Qed.

(* ------------------------------------------------------------------ Uint<N> forms *)
Ltac same2_setup Hty :=
  let Hl := fresh "Hl" in pose proof (ty_same2_inv _ Hty) as Hl.
Ltac uint2 Hwf Hl lem := unfold ev, ln; apply lem; try (apply wf_arg; exact Hwf); exact Hl.

Lemma tbl_uint_adc : tbl_ok "uint.adc".
Proof.
  start_tbl. same2_setup Hty. unfold ev, ln, uint_adc, vpair.
  destruct (adc_limbs (arg 0 a) (arg 1 a) (sarg 2 a)) as [r co] eqn:E. cbn [fst snd].
  apply (adc_chain_entry _ _ _ _ _ (wf_arg 0 a Hwf) (wf_arg 1 a Hwf) Hl (sarg_is_word 2 a Hwf) E).
Qed.
Lemma tbl_uint_sbb : tbl_ok "uint.sbb".
Proof.
  start_tbl. unfold ty_same2_nonempty, ln in Hty. apply andb_prop in Hty. destruct Hty as [Hl Hn].
  apply Nat.eqb_eq in Hl. apply negb_true_iff, Nat.eqb_neq in Hn.
  unfold ev, ln, uint_sbb, vpair.
  destruct (sbb_limbs (arg 0 a) (arg 1 a) (sarg 2 a)) as [r bo] eqn:E. cbn [fst snd].
  apply (sbb_chain_entry _ _ _ _ _ (wf_arg 0 a Hwf) (wf_arg 1 a Hwf) Hl Hn (sarg_is_word 2 a Hwf) E).
Qed.
Lemma tbl_uint_wrapping_add : tbl_ok "uint.wrapping_add".
Proof. start_tbl. same2_setup Hty. uint2 Hwf Hl ent_wrapping_add. Qed.
Lemma tbl_uint_wrapping_sub : tbl_ok "uint.wrapping_sub".
Proof. start_tbl. same2_setup Hty. uint2 Hwf Hl ent_wrapping_sub. Qed.
Lemma tbl_uint_saturating_add : tbl_ok "uint.saturating_add".
Proof. start_tbl. same2_setup Hty. uint2 Hwf Hl ent_saturating_add. Qed.
Lemma tbl_uint_saturating_sub : tbl_ok "uint.saturating_sub".
Proof. start_tbl. same2_setup Hty. uint2 Hwf Hl ent_saturating_sub. Qed.
Lemma tbl_uint_checked_add : tbl_ok "uint.checked_add".
Proof. start_tbl. same2_setup Hty. uint2 Hwf Hl ent_checked_add. Qed.
Lemma tbl_uint_checked_sub : tbl_ok "uint.checked_sub".
Proof. start_tbl. same2_setup Hty. uint2 Hwf Hl ent_checked_sub. Qed.
Lemma tbl_uint_add : tbl_ok "uint.add".
Proof. start_tbl. same2_setup Hty. uint2 Hwf Hl ent_add. Qed.
Lemma tbl_uint_sub : tbl_ok "uint.sub".
Proof. start_tbl. same2_setup Hty. uint2 Hwf Hl ent_sub. Qed.
Lemma tbl_uint_carrying_neg : tbl_ok "uint.carrying_neg".
Proof. start_tbl. unfold ev, ln. apply ent_carrying_neg. apply wf_arg. exact Hwf. Qed.
Lemma tbl_uint_wrapping_neg : tbl_ok "uint.wrapping_neg".
Proof. start_tbl. unfold ev, ln. apply ent_wrapping_neg. apply wf_arg. exact Hwf. Qed.
Lemma tbl_uint_wrapping_neg_if : tbl_ok "uint.wrapping_neg_if".
Proof. start_tbl. unfold ev, ln. apply ent_wrapping_neg_if. apply wf_arg. exact Hwf. Qed.
Lemma tbl_uint_checked_expr : tbl_ok "uint.checked_expr".
Proof.
  start_tbl. unfold ty_same3, ln in Hty. apply andb_prop in Hty. destruct Hty as [H1 H2]. apply Nat.eqb_eq in H1, H2.
  cbv zeta. unfold ev, ln. apply ent_checked_expr; try (apply wf_arg; exact Hwf); assumption.
Qed.

(* ------------------------------------------------------------------ BoxedUint forms *)
Lemma tbl_boxed_adc : tbl_ok "boxed.adc".
Proof. start_tbl. unfold lmax, ev, ln. apply ent_boxed_adc; try (apply wf_arg; exact Hwf). apply sarg_is_word. exact Hwf. Qed.
Lemma tbl_boxed_sbb : tbl_ok "boxed.sbb".
Proof.
  start_tbl. unfold ty_some_limb in Hty. apply negb_true_iff, Nat.eqb_neq in Hty. unfold lmax, ev, ln in *.
  apply ent_boxed_sbb; try (apply wf_arg; exact Hwf); [apply sarg_is_word; exact Hwf | exact Hty].
Qed.
Lemma tbl_boxed_wrapping_add : tbl_ok "boxed.wrapping_add".
Proof. start_tbl. unfold lmax, ev, ln. apply ent_boxed_wrapping_add; apply wf_arg; exact Hwf. Qed.
Lemma tbl_boxed_wrapping_sub : tbl_ok "boxed.wrapping_sub".
Proof. start_tbl. unfold lmax, ev, ln. apply ent_boxed_wrapping_sub; apply wf_arg; exact Hwf. Qed.
Lemma tbl_boxed_checked_add : tbl_ok "boxed.checked_add".
Proof. start_tbl. unfold lmax, ev, ln. apply ent_boxed_checked_add; apply wf_arg; exact Hwf. Qed.
Lemma tbl_boxed_checked_sub : tbl_ok "boxed.checked_sub".
Proof. start_tbl. unfold lmax, ev, ln. apply ent_boxed_checked_sub; apply wf_arg; exact Hwf. Qed.
Lemma tbl_boxed_add : tbl_ok "boxed.add".
Proof. start_tbl. unfold lmax, ev, ln. apply ent_boxed_add; apply wf_arg; exact Hwf. Qed.
Lemma tbl_boxed_sub : tbl_ok "boxed.sub".
Proof. start_tbl. unfold lmax, ev, ln. apply ent_boxed_sub; apply wf_arg; exact Hwf. Qed.
Lemma tbl_boxed_adc_assign : tbl_ok "boxed.adc_assign".
Proof.
  start_tbl. unfold spec_adc. cbv zeta. unfold ev, ln.
  apply ent_boxed_adc_assign; try (apply wf_arg; exact Hwf). apply sarg_is_word. exact Hwf.
Qed.
Lemma tbl_boxed_sbb_assign : tbl_ok "boxed.sbb_assign".
Proof.
  start_tbl. unfold ty_recv_limb, ln in Hty. apply negb_true_iff, Nat.eqb_neq in Hty.
  unfold spec_sbb. cbv zeta. unfold ev, ln.
  apply ent_boxed_sbb_assign; try (apply wf_arg; exact Hwf); [apply sarg_is_word; exact Hwf | exact Hty].
Qed.
Lemma tbl_boxed_add_assign : tbl_ok "boxed.add_assign".
Proof. start_tbl. unfold ev, ln. apply ent_boxed_add_assign; apply wf_arg; exact Hwf. Qed.
Lemma tbl_boxed_sub_assign : tbl_ok "boxed.sub_assign".
Proof. start_tbl. unfold ev, ln. apply ent_boxed_sub_assign; apply wf_arg; exact Hwf. Qed.
Lemma tbl_boxed_wrapping_add_assign : tbl_ok "boxed.wrapping_add_assign".
Proof. start_tbl. unfold ev, ln. apply ent_boxed_wrapping_add_assign; apply wf_arg; exact Hwf. Qed.
Lemma tbl_boxed_wrapping_sub_assign : tbl_ok "boxed.wrapping_sub_assign".
Proof. start_tbl. unfold ev, ln. apply ent_boxed_wrapping_sub_assign; apply wf_arg; exact Hwf. Qed.
Lemma tbl_boxed_wrapping_neg : tbl_ok "boxed.wrapping_neg".
Proof. start_tbl. unfold ev, ln. apply ent_wrapping_neg. apply wf_arg. exact Hwf. Qed.

(* ------------------------------------------------------------------ the area theorem *)
Create HintDb c04tbl.
#[export] Hint Resolve tbl_limb_adc tbl_limb_sbb tbl_limb_overflowing_add tbl_limb_mac tbl_limb_wrapping_add
  tbl_limb_wrapping_sub tbl_limb_wrapping_neg tbl_limb_saturating_add tbl_limb_saturating_sub tbl_limb_checked_add
  tbl_limb_checked_sub tbl_limb_add tbl_limb_sub tbl_uint_adc tbl_uint_sbb tbl_uint_wrapping_add tbl_uint_wrapping_sub
  tbl_uint_saturating_add tbl_uint_saturating_sub tbl_uint_checked_add tbl_uint_checked_sub tbl_uint_add tbl_uint_sub
  tbl_uint_carrying_neg tbl_uint_wrapping_neg tbl_uint_wrapping_neg_if tbl_uint_checked_expr tbl_boxed_adc
  tbl_boxed_sbb tbl_boxed_wrapping_add tbl_boxed_wrapping_sub tbl_boxed_checked_add tbl_boxed_checked_sub
  tbl_boxed_add tbl_boxed_sub tbl_boxed_adc_assign tbl_boxed_sbb_assign tbl_boxed_add_assign tbl_boxed_sub_assign
  tbl_boxed_wrapping_add_assign tbl_boxed_wrapping_sub_assign tbl_boxed_wrapping_neg : c04tbl.

(** the list of keys IS the key set of the table (in table order) *)
Definition addsub_table_keys : list string := map fst ops_addsub_model.
Lemma addsub_table_keys_spec : map fst ops_addsub_spec = addsub_table_keys.
Proof. reflexivity. Qed.
Lemma addsub_table_keys_count : length addsub_table_keys = 42%nat.
Proof. reflexivity. Qed.

Lemma addsub_all_keys_ok : forall k, In k addsub_table_keys -> tbl_ok k.
Proof.
  intros k Hin. unfold addsub_table_keys in Hin. cbn [map fst ops_addsub_model In] in Hin.
  repeat (destruct Hin as [<- | Hin]; [solve [eauto with nocore c04tbl] |]); contradiction.
Qed.

Theorem addsub_tables_agree : forall k dbg a,
  In k (map fst ops_addsub_model) -> wf_args a -> typedb addsub_tbl_ty k a = true ->
  run_tab ops_addsub_spec k dbg a <> Unsupported ->
  run_tab ops_addsub_model k dbg a = run_tab ops_addsub_spec k dbg a.
Proof. intros k dbg a Hin. exact (addsub_all_keys_ok k Hin dbg a). Qed.

(** the same over the key list of C11 (Proofs/TotalityP.v), which covers the table *)
Lemma addsub_keys_in_table : forall k, In k addsub_keys -> In k (map fst ops_addsub_model).
Proof. apply sublist_In. vm_compute. reflexivity. Qed.
Lemma table_in_addsub_keys : forall k, In k (map fst ops_addsub_model) -> In k addsub_keys.
Proof. apply sublist_In. vm_compute. reflexivity. Qed.

Theorem addsub_tables_agree_c11_keys : forall k dbg a,
  In k addsub_keys -> wf_args a -> typedb addsub_tbl_ty k a = true ->
  run_tab ops_addsub_spec k dbg a <> Unsupported ->
  run_tab ops_addsub_model k dbg a = run_tab ops_addsub_spec k dbg a.
Proof. intros k dbg a Hin. apply addsub_tables_agree. apply addsub_keys_in_table. exact Hin. Qed.

(** no spec entry of this area ever answers Unsupported: the agreement holds on ALL typed, well-formed arguments *)
Theorem addsub_spec_always_defined : forall k dbg a,
  In k (map fst ops_addsub_model) -> run_tab ops_addsub_spec k dbg a <> Unsupported.
Proof.
  intros k dbg a Hin. cbn [map fst ops_addsub_model In] in Hin.
  repeat (destruct Hin as [<- | Hin]; [open_tabs ops_addsub_model ops_addsub_spec; nu |]); contradiction.
Qed.

(** the typing side conditions are needed: without them the two tables differ
    (a two-limb "Limb"; operands of two widths; a borrow word that is not a borrow entering a zero-limb chain) *)
Lemma typing_needed :
  run_tab ops_addsub_model "limb.checked_add" false [[0; 1]; [0]] <> run_tab ops_addsub_spec "limb.checked_add" false [[0; 1]; [0]] /\
  run_tab ops_addsub_model "uint.wrapping_add" false [[1; 1]; [1]] <> run_tab ops_addsub_spec "uint.wrapping_add" false [[1; 1]; [1]] /\
  run_tab ops_addsub_model "uint.sbb" false [[]; []; [5]] <> run_tab ops_addsub_spec "uint.sbb" false [[]; []; [5]].
Proof. repeat split; vm_compute; discriminate. Qed.

Lemma addsub_key_set :
  map fst ops_addsub_spec = map fst ops_addsub_model /\ length (map fst ops_addsub_model) = 42%nat /\
  (forall k, In k addsub_keys <-> In k (map fst ops_addsub_model)).
Proof.
  split; [exact addsub_table_keys_spec|]. split; [exact addsub_table_keys_count|].
  intros k. split; [apply addsub_keys_in_table | apply table_in_addsub_keys].
Qed.
