(** C13 / C14: the two op tables that the correspondence check evaluates agree on their whole domain:
    for every table key, the model entry (limb-level model of the Rust code) and the spec entry
    (plain arithmetic on the signed values) return the same outcome for all well-formed arguments.
    [run_op t k dbg args] looks the key up exactly as Model/Api.v does. *)
From CB Require Import Model.Limbs Model.AddSub Model.IntArith Model.IntDiv
  Proofs.WordP Proofs.LimbsP Proofs.AddSubP Proofs.IntArithP Proofs.IntDivP.
From Coq Require Import ZArith Lia List Bool String.
Open Scope Z_scope.

Definition run_op (t : list (string * opfn)) (k : string) (dbg : bool) (args : list (list Z)) : outcome :=
  match lookup k t with Some f => f dbg args | None => Unsupported end.

Ltac table_open :=
  unfold run_op;
  lazy beta iota zeta delta [lookup ops_intarith_model ops_intarith_spec ops_intdiv_model ops_intdiv_spec
                             String.eqb Ascii.eqb Bool.eqb];
  lazy beta iota zeta delta [arg sarg sv ev ln nth nat_arg cbit nz_only nonzero_arg].

Notation M13 := (run_op ops_intarith_model).
Notation S13 := (run_op ops_intarith_spec).
Notation M14 := (run_op ops_intdiv_model).
Notation S14 := (run_op ops_intdiv_spec).
Notation len := List.length.

Ltac fits_cases := unfold isp_checked, isp_panicking, isp_flagged, isp_val, vopt, vpanic_none, vflag, vchoice, vbool;
  repeat match goal with |- context [isp_fits ?n ?x] => destruct (isp_fits n x) end;
  rewrite ?choice_to_of_bool; cbn [fst snd negb b2z]; try reflexivity.

Section Binary.
Variables (dbg : bool) (a b : list Z).
Hypothesis Ha : wf a.
Hypothesis Hb : wf b.
Hypothesis Hl : len a = len b.

Lemma tbl_checked_add : M13 "sint.checked_add" dbg [a; b] = S13 "sint.checked_add" dbg [a; b].
Proof. table_open. rewrite int_checked_add_spec by assumption. fits_cases. Qed.
Lemma tbl_overflowing_add : M13 "sint.overflowing_add" dbg [a; b] = S13 "sint.overflowing_add" dbg [a; b].
Proof. table_open. rewrite int_overflowing_add_spec by assumption. fits_cases. Qed.
Lemma tbl_wrapping_add : M13 "sint.wrapping_add" dbg [a; b] = S13 "sint.wrapping_add" dbg [a; b].
Proof. table_open. rewrite int_wrapping_add_spec by assumption. reflexivity. Qed.
Lemma tbl_add : M13 "sint.add" dbg [a; b] = S13 "sint.add" dbg [a; b].
Proof. table_open. rewrite int_checked_add_spec by assumption. fits_cases. Qed.
Lemma tbl_checked_sub : M13 "sint.checked_sub" dbg [a; b] = S13 "sint.checked_sub" dbg [a; b].
Proof. table_open. rewrite int_checked_sub_spec by assumption. fits_cases. Qed.
Lemma tbl_wrapping_sub : M13 "sint.wrapping_sub" dbg [a; b] = S13 "sint.wrapping_sub" dbg [a; b].
Proof. table_open. rewrite int_wrapping_sub_spec by assumption. reflexivity. Qed.
Lemma tbl_sub : M13 "sint.sub" dbg [a; b] = S13 "sint.sub" dbg [a; b].
Proof. table_open. rewrite int_checked_sub_spec by assumption. fits_cases. Qed.
End Binary.

Section Unary.
Variables (dbg : bool) (a : list Z).
Hypothesis Ha : wf a.

Lemma tbl_overflowing_neg : M13 "sint.overflowing_neg" dbg [a] = S13 "sint.overflowing_neg" dbg [a].
Proof. table_open. rewrite int_overflowing_neg_spec by assumption. fits_cases. Qed.
Lemma tbl_wrapping_neg : M13 "sint.wrapping_neg" dbg [a] = S13 "sint.wrapping_neg" dbg [a].
Proof. table_open. rewrite int_wrapping_neg_spec by assumption. reflexivity. Qed.
Lemma tbl_checked_neg : M13 "sint.checked_neg" dbg [a] = S13 "sint.checked_neg" dbg [a].
Proof. table_open. rewrite int_checked_neg_spec by assumption. fits_cases. Qed.
Lemma tbl_wrapping_neg_if c : M13 "sint.wrapping_neg_if" dbg [a; [c]] = S13 "sint.wrapping_neg_if" dbg [a; [c]].
Proof.
  table_open. rewrite int_wrapping_neg_if_spec by assumption. unfold isp_val.
  destruct (c =? 0); reflexivity.
Qed.
Lemma tbl_abs_sign : M13 "sint.abs_sign" dbg [a] = S13 "sint.abs_sign" dbg [a].
Proof. table_open. rewrite int_abs_sign_spec by assumption. unfold vflag. cbn [fst snd]. rewrite choice_to_of_bool. reflexivity. Qed.
Lemma tbl_abs : M13 "sint.abs" dbg [a] = S13 "sint.abs" dbg [a].
Proof. table_open. rewrite int_abs_spec by assumption. reflexivity. Qed.
Lemma tbl_is_negative : M13 "sint.is_negative" dbg [a] = S13 "sint.is_negative" dbg [a].
Proof. table_open. rewrite int_is_negative_spec by assumption. unfold vchoice. rewrite choice_to_of_bool. reflexivity. Qed.
Lemma tbl_is_positive : M13 "sint.is_positive" dbg [a] = S13 "sint.is_positive" dbg [a].
Proof. table_open. rewrite int_is_positive_spec by assumption. unfold vchoice. rewrite choice_to_of_bool. reflexivity. Qed.
Lemma tbl_is_min : a <> [] -> M13 "sint.is_min" dbg [a] = S13 "sint.is_min" dbg [a].
Proof. intros. table_open. rewrite int_is_min_spec by assumption. unfold vchoice. rewrite choice_to_of_bool. reflexivity. Qed.
Lemma tbl_is_max : a <> [] -> M13 "sint.is_max" dbg [a] = S13 "sint.is_max" dbg [a].
Proof. intros. table_open. rewrite int_is_max_spec by assumption. unfold vchoice. rewrite choice_to_of_bool. reflexivity. Qed.
Lemma tbl_new_from_abs_sign c : M13 "sint.new_from_abs_sign" dbg [a; [c]] = S13 "sint.new_from_abs_sign" dbg [a; [c]].
Proof.
  table_open. pose proof (int_new_from_abs_sign_spec a (negb (c =? 0)) Ha) as E. cbv zeta in E. rewrite E.
  destruct (c =? 0); cbn [negb]; fits_cases.
Qed.
Lemma tbl_widening_square : M13 "sint.widening_square" dbg [a] = S13 "sint.widening_square" dbg [a].
Proof. table_open. rewrite int_widening_square_spec by assumption. reflexivity. Qed.
Lemma tbl_checked_square : M13 "sint.checked_square" dbg [a] = S13 "sint.checked_square" dbg [a].
Proof.
  table_open. rewrite int_checked_square_spec by assumption. unfold usp_fits, usp_val, vopt.
  pose proof (sq_bound a Ha) as [H0 _]. replace (0 <=? seval a * seval a) with true by (symmetry; apply Z.leb_le; assumption).
  cbn [andb]. destruct (seval a * seval a <? Bn (len a)); reflexivity.
Qed.
Lemma tbl_wrapping_square : M13 "sint.wrapping_square" dbg [a] = S13 "sint.wrapping_square" dbg [a].
Proof. table_open. rewrite int_wrapping_square_spec by assumption. reflexivity. Qed.
Lemma tbl_saturating_square : M13 "sint.saturating_square" dbg [a] = S13 "sint.saturating_square" dbg [a].
Proof.
  table_open. rewrite int_saturating_square_spec by assumption. unfold usp_fits, usp_val.
  pose proof (sq_bound a Ha) as [H0 _]. replace (0 <=? seval a * seval a) with true by (symmetry; apply Z.leb_le; assumption).
  reflexivity.
Qed.
Lemma tbl_resize t : 0 <= t -> M13 "sint.resize" dbg [a; [t]] = S13 "sint.resize" dbg [a; [t]].
Proof. intros. table_open. rewrite int_resize_spec by assumption. reflexivity. Qed.
Lemma tbl_to_prim : M13 "sint.to_prim" dbg [a] = S13 "sint.to_prim" dbg [a].
Proof. table_open. unfold isp_val. rewrite to_limbs_s_seval by assumption. reflexivity. Qed.
End Unary.

Section Mul.
Variables (dbg : bool) (a b : list Z).
Hypothesis Ha : wf a.
Hypothesis Hb : wf b.

Lemma tbl_split_mul : M13 "sint.split_mul" dbg [a; b] = S13 "sint.split_mul" dbg [a; b].
Proof.
  table_open. pose proof (int_split_mul_spec a b Ha Hb) as E. cbv zeta in E. rewrite E.
  unfold vtriple. rewrite choice_to_of_bool. reflexivity.
Qed.
Lemma tbl_split_mul_uint : M13 "sint.split_mul_uint" dbg [a; b] = S13 "sint.split_mul_uint" dbg [a; b].
Proof.
  table_open. pose proof (int_split_mul_uint_spec a b Ha Hb) as E. cbv zeta in E. rewrite E.
  unfold vtriple. rewrite choice_to_of_bool. reflexivity.
Qed.
Lemma tbl_split_mul_uint_right : M13 "sint.split_mul_uint_right" dbg [a; b] = S13 "sint.split_mul_uint_right" dbg [a; b].
Proof.
  table_open. pose proof (int_split_mul_uint_right_spec a b Ha Hb) as E. cbv zeta in E. rewrite E.
  unfold vtriple. rewrite choice_to_of_bool, (Z.mul_comm (eval b)). reflexivity.
Qed.
Lemma tbl_widening_mul : M13 "sint.widening_mul" dbg [a; b] = S13 "sint.widening_mul" dbg [a; b].
Proof. table_open. rewrite int_widening_mul_spec by assumption. reflexivity. Qed.
Lemma tbl_widening_mul_uint : M13 "sint.widening_mul_uint" dbg [a; b] = S13 "sint.widening_mul_uint" dbg [a; b].
Proof. table_open. rewrite int_widening_mul_uint_spec by assumption. reflexivity. Qed.
Lemma tbl_checked_mul : M13 "sint.checked_mul" dbg [a; b] = S13 "sint.checked_mul" dbg [a; b].
Proof. table_open. rewrite int_checked_mul_spec by assumption. fits_cases. Qed.
Lemma tbl_checked_mul_uint : M13 "sint.checked_mul_uint" dbg [a; b] = S13 "sint.checked_mul_uint" dbg [a; b].
Proof. table_open. rewrite int_checked_mul_uint_spec by assumption. fits_cases. Qed.
Lemma tbl_checked_mul_uint_right : M13 "sint.checked_mul_uint_right" dbg [a; b] = S13 "sint.checked_mul_uint_right" dbg [a; b].
Proof. table_open. rewrite int_checked_mul_uint_right_spec by assumption. fits_cases. Qed.
Lemma tbl_mul : M13 "sint.mul" dbg [a; b] = S13 "sint.mul" dbg [a; b].
Proof. table_open. rewrite int_checked_mul_spec by assumption. fits_cases. Qed.
Lemma tbl_mul_uint : M13 "sint.mul_uint" dbg [a; b] = S13 "sint.mul_uint" dbg [a; b].
Proof. table_open. rewrite int_checked_mul_uint_spec by assumption. fits_cases. Qed.
End Mul.

(* ------------------------------------------------------------------ From primitives, constants, Checked chains *)
Lemma halfB_ge n : n <> 0%nat -> 2 ^ 63 <= halfB n.
Proof.
  intros Hn. unfold halfB. pose proof (Bn_pos (pred n)). word_facts.
  assert (2 ^ 63 * 1 <= 2 ^ 63 * Bn (pred n)) by (apply Z.mul_le_mono_nonneg_l; lia). lia.
Qed.

Lemma prim_fits bits t x : 1 <= bits <= 64 -> 0 <= x < 2 ^ bits -> t <> 0%nat ->
  isp_fits t (prim_sval bits x) = true.
Proof.
  intros Hb Hx Ht. apply isp_fits_iff. destruct (Bn_half t Ht) as [HM _]. pose proof (halfB_ge t Ht).
  assert (E : 2 ^ bits = 2 * 2 ^ (bits - 1)).
  { replace bits with (Z.succ (bits - 1)) at 1 by lia. apply Z.pow_succ_r. lia. }
  assert (Hle : 2 ^ (bits - 1) <= 2 ^ 63) by (apply Z.pow_le_mono_r; lia).
  unfold prim_sval. destruct (Z.ltb_spec x (2 ^ (bits - 1))); lia.
Qed.

Lemma tbl_from_prim_gen (dbg : bool) bits x t : 1 <= bits <= 64 -> 0 <= x < 2 ^ bits -> 0 <= t ->
  int_from_prim_op bits [[x]; [t]] =
  (if (Z.to_nat t =? 0)%nat then PanicV else isp_panicking (Z.to_nat t) (prim_sval bits x)).
Proof.
  intros Hb Hx Ht. unfold int_from_prim_op, nat_arg, sarg. cbn [nth].
  destruct (Z.to_nat t) as [|k] eqn:E; [reflexivity|]. cbn [Nat.eqb].
  rewrite int_from_prim_spec by assumption. unfold isp_panicking. rewrite prim_fits by (auto; lia). reflexivity.
Qed.

Lemma tbl_from_i8 dbg x t : 0 <= x < 2 ^ 8 -> 0 <= t -> M13 "sint.from_i8" dbg [[x]; [t]] = S13 "sint.from_i8" dbg [[x]; [t]].
Proof. intros. table_open. apply (tbl_from_prim_gen dbg 8); lia. Qed.
Lemma tbl_from_i16 dbg x t : 0 <= x < 2 ^ 16 -> 0 <= t -> M13 "sint.from_i16" dbg [[x]; [t]] = S13 "sint.from_i16" dbg [[x]; [t]].
Proof. intros. table_open. apply (tbl_from_prim_gen dbg 16); lia. Qed.
Lemma tbl_from_i32 dbg x t : 0 <= x < 2 ^ 32 -> 0 <= t -> M13 "sint.from_i32" dbg [[x]; [t]] = S13 "sint.from_i32" dbg [[x]; [t]].
Proof. intros. table_open. apply (tbl_from_prim_gen dbg 32); lia. Qed.
Lemma tbl_from_i64 dbg x t : 0 <= x < 2 ^ 64 -> 0 <= t -> M13 "sint.from_i64" dbg [[x]; [t]] = S13 "sint.from_i64" dbg [[x]; [t]].
Proof. intros. table_open. apply (tbl_from_prim_gen dbg 64); lia. Qed.

(* i128: both entries panic for a target of fewer than two limbs and agree otherwise *)
Lemma tbl_from_i128 dbg lo hi t : is_word lo -> is_word hi ->
  M13 "sint.from_i128" dbg [[lo; hi]; [t]] = S13 "sint.from_i128" dbg [[lo; hi]; [t]] /\
  M13 "sint.from_i128_trait" dbg [[lo; hi]; [t]] = S13 "sint.from_i128_trait" dbg [[lo; hi]; [t]].
Proof.
  intros Hl Hh. split; table_open; unfold int_from_i128_op, nat_arg, sarg, arg; cbn [nth];
    change (resize 2 [lo; hi]) with [lo; hi];
    (destruct (Z.to_nat t <? 2)%nat; [reflexivity|]);
    rewrite int_from_i128_spec by assumption; reflexivity.
Qed.

Lemma tbl_consts dbg t : 1 <= t -> M13 "sint.consts" dbg [[t]] = S13 "sint.consts" dbg [[t]].
Proof.
  intros Ht. table_open. set (n := Z.to_nat t). assert (Hn : n <> 0%nat) by (unfold n; lia).
  destruct (Bn_half n Hn) as [HM HH]. pose proof (halfB_ge n Hn). word_facts.
  destruct (int_min_limbs_spec n Hn) as (Emin & Wmin & Lmin).
  destruct (int_max_limbs_spec n Hn) as (Emax & Wmax & Lmax).
  destruct (one_limbs_spec n Hn) as (E1 & W1 & L1).
  assert (Hdiv : Bn n / 2 = halfB n) by (rewrite HM, Z.mul_comm; apply Z.div_mul; lia).
  rewrite Hdiv.
  repeat f_equal.
  - apply to_limbs_s_unique; auto using wf_zeros, length_zeros. rewrite eval_zeros, Z.mod_0_l by lia. reflexivity.
  - apply to_limbs_s_unique; auto. rewrite E1. symmetry. apply Z.mod_small. lia.
  - apply to_limbs_s_unique; auto using wf_maxs, length_maxs. rewrite eval_maxs.
    apply (Z.mod_unique_pos _ _ (-1)); lia.
  - apply to_limbs_s_unique; auto. rewrite Emin. apply (Z.mod_unique_pos _ _ (-1)); lia.
  - apply to_limbs_s_unique; auto. rewrite Emax. symmetry. apply Z.mod_small. lia.
Qed.

Lemma tbl_checked_expr dbg a b c o1 o2 f shape : wf a -> wf b -> wf c -> len a = len b -> len a = len c ->
  M13 "sint.checked_expr" dbg [a; b; c; [o1]; [o2]; [f]; [shape]] =
  S13 "sint.checked_expr" dbg [a; b; c; [o1]; [o2]; [f]; [shape]].
Proof.
  intros Ha Hb Hc Hl1 Hl2. table_open.
  pose proof (int_checked_expr_spec shape o1 o2 a b c Ha Hb Hc Hl1 Hl2) as H2.
  destruct (int_checked_expr shape o1 o2 a b c) as [r|],
           (isp_checked_expr (len a) shape o1 o2 (seval a) (seval b) (seval c)) as [v|];
    cbn in H2; try contradiction; [|reflexivity].
  destruct H2 as [-> _]. reflexivity.
Qed.

(* ------------------------------------------------------------------ C14 tables *)
Lemma seval_zero_iff d : wf d -> (seval d = 0 <-> eval d = 0).
Proof.
  intros Hd. pose proof (eval_bounds d Hd). pose proof (Bn_pos (len d)).
  destruct (seval_cases d Hd) as [[? ->]|[? ->]]; lia.
Qed.

Ltac nz_split d Hd :=
  destruct (Z.eqb_spec (eval d) 0) as [Hz|Hz]; cbn [negb];
  [ try reflexivity | assert (Hnz : seval d <> 0) by (rewrite (seval_zero_iff d Hd); assumption) ].

Section DivInt.
Variables (dbg : bool) (n d : list Z).
Hypothesis Hn : wf n.
Hypothesis Hd : wf d.

Lemma tbl_checked_div_rem : M14 "sdiv.checked_div_rem" dbg [n; d] = S14 "sdiv.checked_div_rem" dbg [n; d].
Proof.
  table_open. nz_split d Hd. rewrite int_checked_div_rem_spec by assumption.
  unfold voptq_r, dsp_optq_r. cbn [fst snd].
  replace (isp_fits (len d) (Z.rem (seval n) (seval d))) with true
    by (symmetry; apply isp_fits_iff; apply trunc_rem_fits; assumption).
  destruct (isp_fits (len n) _); reflexivity.
Qed.

Lemma tbl_checked_div : M14 "sdiv.checked_div" dbg [n; d] = S14 "sdiv.checked_div" dbg [n; d].
Proof.
  table_open. nz_split d Hd.
  - destruct (checked_div_zero n d Hd Hz) as [-> _]. reflexivity.
  - rewrite int_checked_div_spec by assumption. fits_cases.
Qed.

Lemma tbl_rem : M14 "sdiv.rem" dbg [n; d] = S14 "sdiv.rem" dbg [n; d].
Proof.
  table_open. nz_split d Hd. rewrite int_rem_spec by assumption. unfold dsp_one.
  replace (isp_fits (len d) (Z.rem (seval n) (seval d))) with true
    by (symmetry; apply isp_fits_iff; apply trunc_rem_fits; assumption).
  reflexivity.
Qed.

Lemma tbl_div_expect : M14 "sdiv.div_expect" dbg [n; d] = S14 "sdiv.div_expect" dbg [n; d].
Proof.
  table_open. nz_split d Hd. rewrite int_checked_div_rem_spec by assumption. cbn [fst]. fits_cases.
Qed.

Lemma tbl_checked_div_floor : n <> [] ->
  M14 "sdiv.checked_div_floor" dbg [n; d] = S14 "sdiv.checked_div_floor" dbg [n; d].
Proof.
  intros Hne. table_open. nz_split d Hd.
  - destruct (checked_div_zero n d Hd Hz) as [_ ->]. reflexivity.
  - rewrite int_checked_div_floor_spec by assumption. fits_cases.
Qed.

Lemma tbl_checked_div_rem_floor : n <> [] ->
  M14 "sdiv.checked_div_rem_floor" dbg [n; d] = S14 "sdiv.checked_div_rem_floor" dbg [n; d].
Proof.
  intros Hne. table_open. nz_split d Hd.
  rewrite int_checked_div_rem_floor_spec by assumption.
  unfold voptq_r, dsp_optq_r. cbn [fst snd].
  replace (isp_fits (len d) (seval n mod seval d)) with true
    by (symmetry; apply isp_fits_iff; apply floor_rem_fits; assumption).
  destruct (isp_fits (len n) _); reflexivity.
Qed.
End DivInt.

Section DivUint.
Variables (dbg : bool) (n d : list Z).
Hypothesis Hn : wf n.
Hypothesis Hd : wf d.
Hypothesis Hne : n <> [].

Lemma tbl_div_uint : M14 "sdiv.div_uint" dbg [n; d] = S14 "sdiv.div_uint" dbg [n; d].
Proof.
  table_open. destruct (Z.eqb_spec (eval d) 0) as [Hz|Hz]; cbn [negb]; [reflexivity|].
  rewrite int_div_rem_uint_spec by assumption. cbn [fst]. unfold dsp_one.
  replace (isp_fits (len n) (Z.quot (seval n) (eval d))) with true
    by (symmetry; apply isp_fits_iff; apply uquot_fits; assumption).
  reflexivity.
Qed.

Lemma tbl_div_rem_uint : (len n <= len d)%nat ->
  M14 "sdiv.div_rem_uint" dbg [n; d] = S14 "sdiv.div_rem_uint" dbg [n; d] /\
  M14 "sdiv.rem_uint" dbg [n; d] = S14 "sdiv.rem_uint" dbg [n; d].
Proof.
  intros Hle. split; table_open; (destruct (Z.eqb_spec (eval d) 0) as [Hz|Hz]; cbn [negb]; [reflexivity|]);
    rewrite int_div_rem_uint_spec by assumption; unfold vpair_ll, dsp_pair, dsp_one; cbn [fst snd];
    replace (isp_fits (len d) (Z.rem (seval n) (eval d))) with true
      by (symmetry; apply isp_fits_iff; apply urem_fits; assumption);
    [|reflexivity].
  replace (isp_fits (len n) (Z.quot (seval n) (eval d))) with true
    by (symmetry; apply isp_fits_iff; apply uquot_fits; assumption).
  reflexivity.
Qed.

Lemma tbl_div_rem_floor_uint :
  M14 "sdiv.div_rem_floor_uint" dbg [n; d] = S14 "sdiv.div_rem_floor_uint" dbg [n; d] /\
  M14 "sdiv.div_floor_uint" dbg [n; d] = S14 "sdiv.div_floor_uint" dbg [n; d] /\
  M14 "sdiv.normalized_rem" dbg [n; d] = S14 "sdiv.normalized_rem" dbg [n; d].
Proof.
  repeat split; table_open; (destruct (Z.eqb_spec (eval d) 0) as [Hz|Hz]; cbn [negb]; [reflexivity|]);
    rewrite int_div_rem_floor_uint_spec by assumption; unfold vpair_ll, dsp_one, usp_val; cbn [fst snd];
    try (replace (isp_fits (len n) (seval n / eval d)) with true
      by (symmetry; apply isp_fits_iff; apply ufloor_fits; assumption)); reflexivity.
Qed.
End DivUint.
