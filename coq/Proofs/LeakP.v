(** C01 — noninterference of the leakage twins of Model/Leak.v, and the refutations. *)
From CB Require Import Model.Leak Proofs.WordP Proofs.LimbsP.
From Coq Require Import ZArith List Lia Bool.
Import ListNotations.
Open Scope Z_scope.

(* ---------------------------------------------------------------- arithmetic facts *)
Lemma Bn_pow2 n : Bn n = 2 ^ (64 * Z.of_nat n).
Proof.
  induction n as [|n IH].
  - rewrite Bn_0. reflexivity.
  - rewrite Bn_S, IH, B_val, <- Z.pow_add_r by lia. f_equal. lia.
Qed.

Lemma BITSn_nonneg n : 0 <= BITSn n. Proof. unfold BITSn. lia. Qed.

Lemma bits_of_pos v : 0 < v ->
  0 < lk_bits_of v /\ 2 ^ (lk_bits_of v - 1) <= v < 2 ^ lk_bits_of v.
Proof.
  intros Hv. unfold lk_bits_of. destruct (v <=? 0) eqn:E; [apply Z.leb_le in E; lia|].
  pose proof (Z.log2_nonneg v). pose proof (Z.log2_spec v Hv) as [H1 H2].
  replace (Z.log2 v + 1 - 1) with (Z.log2 v) by lia.
  replace (Z.log2 v + 1) with (Z.succ (Z.log2 v)) by lia. lia.
Qed.

Lemma bits_of_le v k : 0 < v < 2 ^ k -> 0 <= k -> lk_bits_of v <= k.
Proof.
  intros [Hv Hk] Hk0. unfold lk_bits_of. destruct (v <=? 0) eqn:E; [lia|].
  apply Z.log2_lt_pow2 in Hk; lia.
Qed.

Lemma nth_to_limbs n : forall i w, (i < n)%nat -> nthz (to_limbs n w) i = (w / Bn i) mod B.
Proof.
  induction n as [|n IH]; intros i w Hi; [lia|].
  destruct i as [|i]; cbn [to_limbs nthz nth].
  - rewrite Bn_0, Z.div_1_r. reflexivity.
  - change (nth i (to_limbs n (w / B)) 0) with (nthz (to_limbs n (w / B)) i).
    rewrite IH by lia. rewrite Bn_S, Z.div_div by (pose proof B_pos; pose proof (Bn_pos i); lia). reflexivity.
Qed.

(** the normalised divisor of div_rem has a non-zero top limb (in fact its top bit is set) *)
Lemma normalised_top_nonzero n y :
  wf y -> length y = n -> 0 < eval y -> (1 <= n)%nat ->
  nthz (to_limbs n ((eval y * 2 ^ (BITSn n - lk_bits_of (eval y))) mod Bn n)) (n - 1) <> 0.
Proof.
  intros Hwf Hlen Hpos Hn.
  pose proof (eval_bounds y Hwf) as Hb. rewrite Hlen, Bn_pow2 in Hb.
  destruct (bits_of_pos _ Hpos) as [Hd0 [Hlo Hhi]].
  set (d := lk_bits_of (eval y)) in *.
  assert (Hdle : d <= BITSn n) by (apply bits_of_le; unfold BITSn; lia).
  set (s := BITSn n - d). assert (Hs : 0 <= s) by (unfold s; lia).
  assert (Hw : 2 ^ (BITSn n - 1) <= eval y * 2 ^ s < 2 ^ BITSn n).
  { assert (0 < 2 ^ s) by (apply Z.pow_pos_nonneg; lia).
    assert (E1 : 2 ^ (BITSn n - 1) = 2 ^ (d - 1) * 2 ^ s)
      by (rewrite <- Z.pow_add_r by lia; f_equal; unfold s; lia).
    assert (E2 : 2 ^ BITSn n = 2 ^ d * 2 ^ s)
      by (rewrite <- Z.pow_add_r by lia; f_equal; unfold s; lia).
    rewrite E1, E2.
    split; [apply Z.mul_le_mono_nonneg_r; lia | apply Z.mul_lt_mono_pos_r; lia]. }
  rewrite nth_to_limbs by lia.
  rewrite (Bn_pow2 n). fold (BITSn n).
  rewrite (Z.mod_small (eval y * 2 ^ s) (2 ^ BITSn n))
    by (split; [|apply Hw]; apply Z.le_trans with (2 ^ (BITSn n - 1)); [apply Z.pow_nonneg; lia | apply Hw]).
  rewrite Bn_pow2, B_val.
  set (w := eval y * 2 ^ s) in *.
  assert (Hk : 64 * Z.of_nat (n - 1) = BITSn n - 64) by (unfold BITSn; lia). rewrite Hk.
  assert (H63 : 2 ^ 63 <= w / 2 ^ (BITSn n - 64) < 2 ^ 64).
  { assert (0 <= BITSn n - 64) by (unfold BITSn; lia).
    assert (Hp : 0 < 2 ^ (BITSn n - 64)) by (apply Z.pow_pos_nonneg; lia).
    split.
    - apply Z.div_le_lower_bound; [lia|].
      rewrite <- Z.pow_add_r by lia. replace (BITSn n - 64 + 63) with (BITSn n - 1) by lia. apply Hw.
    - apply Z.div_lt_upper_bound; [lia|].
      rewrite <- Z.pow_add_r by lia. replace (BITSn n - 64 + 64) with (BITSn n) by lia. apply Hw. }
  rewrite Z.mod_small by lia. lia.
Qed.

(* ---------------------------------------------------------------- twins whose trace is a function of the width *)
(** [same_shape]: the public part of a limb-list operand is its length *)
Definition same_shape (a b : list Z) : Prop := length a = length b.

Ltac by_length :=
  intros; unfold same_shape in *;
  repeat match goal with H : length _ = length _ |- _ => rewrite H; clear H end; reflexivity.

Lemma lk_select_word_ni c1 a1 b1 c2 a2 b2 : lk_select_word c1 a1 b1 = lk_select_word c2 a2 b2.
Proof. reflexivity. Qed.
Lemma lk_limb_select_ni a1 b1 c1 a2 b2 c2 : lk_limb_select a1 b1 c1 = lk_limb_select a2 b2 c2.
Proof. reflexivity. Qed.
Lemma lk_uint_select_ni a1 b1 c1 a2 b2 c2 : same_shape a1 a2 -> lk_uint_select a1 b1 c1 = lk_uint_select a2 b2 c2.
Proof. unfold lk_uint_select. by_length. Qed.
Lemma lk_is_nonzero_ni a1 a2 : same_shape a1 a2 -> lk_is_nonzero a1 = lk_is_nonzero a2.
Proof. unfold lk_is_nonzero. by_length. Qed.
Lemma lk_eq_ni a1 b1 a2 b2 : same_shape a1 a2 -> lk_eq a1 b1 = lk_eq a2 b2.
Proof. unfold lk_eq. by_length. Qed.
Lemma lk_adc_ni a1 b1 c1 a2 b2 c2 : same_shape a1 a2 -> lk_adc a1 b1 c1 = lk_adc a2 b2 c2.
Proof. unfold lk_adc. by_length. Qed.
Lemma lk_sbb_ni a1 b1 c1 a2 b2 c2 : same_shape a1 a2 -> lk_sbb a1 b1 c1 = lk_sbb a2 b2 c2.
Proof. unfold lk_sbb. by_length. Qed.
Lemma lk_lt_ni a1 b1 a2 b2 : same_shape a1 a2 -> lk_lt a1 b1 = lk_lt a2 b2.
Proof. intros. apply lk_sbb_ni; assumption. Qed.
Lemma lk_gt_ni a1 b1 a2 b2 : same_shape b1 b2 -> lk_gt a1 b1 = lk_gt a2 b2.
Proof. intros. apply lk_sbb_ni; assumption. Qed.
Lemma lk_cmp_ni a1 b1 a2 b2 : same_shape a1 a2 -> lk_cmp a1 b1 = lk_cmp a2 b2.
Proof. unfold lk_cmp. by_length. Qed.
Lemma lk_bitand_limb_ni a1 m1 a2 m2 : same_shape a1 a2 -> lk_bitand_limb a1 m1 = lk_bitand_limb a2 m2.
Proof. unfold lk_bitand_limb. by_length. Qed.
Lemma lk_shr1_ni a1 a2 : same_shape a1 a2 -> lk_shr1 a1 = lk_shr1 a2.
Proof. unfold lk_shr1. by_length. Qed.
Lemma lk_shl1_ni a1 a2 : same_shape a1 a2 -> lk_shl1 a1 = lk_shl1 a2.
Proof. unfold lk_shl1. by_length. Qed.
Lemma lk_shl_limb_ni x1 s1 x2 s2 : same_shape x1 x2 -> lk_shl_limb x1 s1 = lk_shl_limb x2 s2.
Proof. unfold lk_shl_limb. by_length. Qed.
Lemma lk_leading_zeros_ni x1 x2 : same_shape x1 x2 -> lk_leading_zeros x1 = lk_leading_zeros x2.
Proof. unfold lk_leading_zeros. by_length. Qed.
Lemma lk_bits_ni x1 x2 : same_shape x1 x2 -> lk_bits x1 = lk_bits x2.
Proof. apply lk_leading_zeros_ni. Qed.
Lemma lk_trailing_zeros_ni x1 x2 : same_shape x1 x2 -> lk_trailing_zeros x1 = lk_trailing_zeros x2.
Proof. unfold lk_trailing_zeros. by_length. Qed.
Lemma lk_trailing_ones_ni x1 x2 : same_shape x1 x2 -> lk_trailing_ones x1 = lk_trailing_ones x2.
Proof. unfold lk_trailing_ones. by_length. Qed.
Lemma lk_bit_ni x1 i1 x2 i2 : same_shape x1 x2 -> lk_bit x1 i1 = lk_bit x2 i2.
Proof. unfold lk_bit. by_length. Qed.
Lemma lk_set_bit_ni x1 i1 v1 x2 i2 v2 : same_shape x1 x2 -> lk_set_bit x1 i1 v1 = lk_set_bit x2 i2 v2.
Proof. unfold lk_set_bit. by_length. Qed.
Lemma lk_div2by1_ni a1 b1 a2 b2 : lk_div2by1 a1 b1 = lk_div2by1 a2 b2. Proof. reflexivity. Qed.
Lemma lk_div3by2_ni a1 b1 c1 d1 a2 b2 c2 d2 : lk_div3by2 a1 b1 c1 d1 = lk_div3by2 a2 b2 c2 d2. Proof. reflexivity. Qed.
Lemma lk_recip_new_ni d1 d2 : lk_recip_new d1 = lk_recip_new d2. Proof. reflexivity. Qed.

(* ---------------------------------------------------------------- shifts *)
(** the vartime shifts: the shift amount is public, the value is not *)
Lemma lk_overflowing_shl_vartime_ni x1 x2 s : same_shape x1 x2 ->
  lk_overflowing_shl_vartime x1 s = lk_overflowing_shl_vartime x2 s.
Proof. unfold lk_overflowing_shl_vartime. by_length. Qed.
Lemma lk_overflowing_shr_vartime_ni x1 x2 s : same_shape x1 x2 ->
  lk_overflowing_shr_vartime x1 s = lk_overflowing_shr_vartime x2 s.
Proof. unfold lk_overflowing_shr_vartime. by_length. Qed.
Lemma lk_shl_vartime_ni x1 x2 s : same_shape x1 x2 -> lk_shl_vartime x1 s = lk_shl_vartime x2 s.
Proof. unfold lk_shl_vartime, lk_overflowing_shl_vartime. by_length. Qed.

(** the ladder: constant in the value AND in the shift amount *)
Lemma lk_overflowing_shl_ni x1 s1 x2 s2 : same_shape x1 x2 -> lk_overflowing_shl x1 s1 = lk_overflowing_shl x2 s2.
Proof. unfold lk_overflowing_shl, lk_overflowing_shl_vartime, lk_uint_select. by_length. Qed.
Lemma lk_overflowing_shr_ni x1 s1 x2 s2 : same_shape x1 x2 -> lk_overflowing_shr x1 s1 = lk_overflowing_shr x2 s2.
Proof. unfold lk_overflowing_shr, lk_overflowing_shr_vartime, lk_uint_select. by_length. Qed.
Lemma lk_wrapping_shl_ni x1 s1 x2 s2 : same_shape x1 x2 -> lk_wrapping_shl x1 s1 = lk_wrapping_shl x2 s2.
Proof.
  intros H. unfold lk_wrapping_shl. rewrite (lk_overflowing_shl_ni x1 s1 x2 s2 H).
  rewrite (lk_uint_select_ni x1 x1 0 x2 x2 0 H). reflexivity.
Qed.
(** shl / shr panic on an oversized shift: constant for in-range shifts (the documented domain) *)
Lemma lk_shl_ni x1 s1 x2 s2 : same_shape x1 x2 ->
  s1 < BITSn (length x1) -> s2 < BITSn (length x2) -> lk_shl x1 s1 = lk_shl x2 s2.
Proof.
  intros H H1 H2. unfold lk_shl. rewrite (lk_overflowing_shl_ni x1 s1 x2 s2 H).
  apply Z.ltb_lt in H1, H2. rewrite H1, H2. reflexivity.
Qed.
Lemma lk_shr_ni x1 s1 x2 s2 : same_shape x1 x2 ->
  s1 < BITSn (length x1) -> s2 < BITSn (length x2) -> lk_shr x1 s1 = lk_shr x2 s2.
Proof.
  intros H H1 H2. unfold lk_shr. rewrite (lk_overflowing_shr_ni x1 s1 x2 s2 H).
  apply Z.ltb_lt in H1, H2. rewrite H1, H2. reflexivity.
Qed.
(** ... and NOT constant across the panic boundary: the twin does see data that reaches a condition *)
Lemma lk_shl_out_of_range_differs : exists x s1 s2, lk_shl x s1 <> lk_shl x s2.
Proof. exists [0], 0, 64. vm_compute. discriminate. Qed.

(* ---------------------------------------------------------------- BoxedUint select / shift *)
Lemma lk_boxed_ct_select_ni a1 b1 c1 a2 b2 c2 : same_shape a1 a2 -> lk_boxed_ct_select a1 b1 c1 = lk_boxed_ct_select a2 b2 c2.
Proof. unfold lk_boxed_ct_select. by_length. Qed.
Lemma lk_boxed_ct_assign_ni a1 b1 c1 a2 b2 c2 : same_shape a1 a2 -> lk_boxed_ct_assign a1 b1 c1 = lk_boxed_ct_assign a2 b2 c2.
Proof. unfold lk_boxed_ct_assign. by_length. Qed.
Lemma lk_boxed_ct_swap_ni a1 b1 c1 a2 b2 c2 : same_shape a1 a2 -> lk_boxed_ct_swap a1 b1 c1 = lk_boxed_ct_swap a2 b2 c2.
Proof. unfold lk_boxed_ct_swap. by_length. Qed.
Lemma lk_boxed_overflowing_shl_ni x1 s1 x2 s2 : same_shape x1 x2 ->
  lk_boxed_overflowing_shl x1 s1 = lk_boxed_overflowing_shl x2 s2.
Proof.
  unfold lk_boxed_overflowing_shl, lk_boxed_clone, lk_boxed_set_zero, lk_boxed_shl_vartime_into,
    lk_overflowing_shl_vartime, lk_boxed_ct_assign, lenZ. by_length.
Qed.
Lemma lk_boxed_shl_ni x1 s1 x2 s2 : same_shape x1 x2 ->
  s1 < BITSn (length x1) -> s2 < BITSn (length x2) -> lk_boxed_shl x1 s1 = lk_boxed_shl x2 s2.
Proof.
  intros H H1 H2. unfold lk_boxed_shl. rewrite (lk_boxed_overflowing_shl_ni x1 s1 x2 s2 H).
  apply Z.ltb_lt in H1, H2. rewrite H1, H2. reflexivity.
Qed.

(* ---------------------------------------------------------------- division by a limb *)
Lemma lk_rem_limb_ni u1 d1 u2 d2 : same_shape u1 u2 -> lk_rem_limb u1 d1 = lk_rem_limb u2 d2.
Proof. unfold lk_rem_limb, lk_rem_limb_with_reciprocal, lk_shl_limb. by_length. Qed.
Lemma lk_div_rem_limb_ni u1 d1 u2 d2 : same_shape u1 u2 -> lk_div_rem_limb u1 d1 = lk_div_rem_limb u2 d2.
Proof. unfold lk_div_rem_limb, lk_div_rem_limb_with_reciprocal, lk_shl_limb. by_length. Qed.

(* ---------------------------------------------------------------- Uint::div_rem *)
(** the public trace of div_rem at width n: every data-dependent test has its only possible outcome *)
Definition pub_div_rem (n : nat) : trace :=
  let z := zeros n in
  Br (n =? 1)%nat ::
  if (n =? 1)%nat then Ix 0 :: Br true :: lk_div_rem_limb z 1 ++ [Ix 0]
  else
    lk_bits z ++ Br true ::
    (lk_overflowing_shl z 0 ++ [Br true]) ++
    lk_shl_limb z 0 ++ [ix (n - 1)] ++
    ix (n - 1) :: Br true ::
    lk_recip_new 1 ++
    lk_for_down 1 (n - 1) (lk_div_rem_body n) ++
    (lk_div2by1 0 0 ++ [Ix 0; Ix 0; Ix 0; Ix 0] ++
     lk_for 1 (n - 1) (fun i => [ix i; ix i; ix i; ix i]) ++
     (lk_overflowing_shr z 0 ++ [Br true]) ++ (lk_overflowing_shr z 0 ++ [Br true])).

Lemma dbits_facts n v : 0 < v < 2 ^ BITSn n -> (1 <= n)%nat ->
  let d := lk_bits_of v in
  0 < d /\ BITSn n - d < BITSn n /\ ((d + 63) / 64 - 1) * 64 < BITSn n /\ (64 - d mod 64) mod 64 < BITSn n.
Proof.
  intros Hv Hn d.
  destruct (bits_of_pos v (proj1 Hv)) as [Hd0 _]. fold d in Hd0.
  assert (Hdle : d <= BITSn n) by (apply bits_of_le; [exact Hv | apply BITSn_nonneg]).
  unfold BITSn in *.
  assert (H1 : (d + 63) / 64 < Z.of_nat n + 1).
  { apply Z.div_lt_upper_bound; lia. }
  pose proof (Z.mod_pos_bound (64 - d mod 64) 64 ltac:(lia)).
  repeat split; lia.
Qed.

Lemma lk_div_rem_pub x y :
  same_shape x y -> wf y -> 0 < eval y -> lk_div_rem x y = pub_div_rem (length x).
Proof.
  unfold same_shape. intros Hlen Hwf Hpos.
  set (n := length x) in *.
  assert (Hzl : length (zeros n) = n) by apply length_zeros.
  unfold lk_div_rem, pub_div_rem. fold n. cbv zeta.
  destruct (n =? 1)%nat eqn:En.
  - (* one limb: the divisor limb itself is non-zero *)
    apply Nat.eqb_eq in En.
    destruct y as [|y0 [|y1 r]]; cbn [length] in Hlen; try lia.
    cbn [eval] in Hpos. unfold nthz. cbn [nth].
    assert (Hy : (y0 =? 0) = false) by (apply Z.eqb_neq; lia).
    rewrite Hy. cbn [negb]. do 3 f_equal.
    rewrite (lk_div_rem_limb_ni x y0 (zeros n) 1) by (unfold same_shape; fold n; lia). reflexivity.
  - apply Nat.eqb_neq in En.
    assert (Hn2 : (2 <= n)%nat).
    { destruct y as [|y0 [|y1 r]]; cbn [length] in Hlen; cbn [eval] in Hpos; lia. }
    pose proof (eval_bounds y Hwf) as Hb. rewrite <- Hlen, Bn_pow2 in Hb. fold (BITSn n) in Hb.
    destruct (dbits_facts n (eval y) ltac:(lia) ltac:(lia)) as (Hd0 & Hs1 & Hs2 & Hs3).
    set (d := lk_bits_of (eval y)) in *.
    assert (E0 : (0 <? d) = true) by (apply Z.ltb_lt; lia).
    rewrite E0. cbn [negb].
    pose proof (normalised_top_nonzero n y Hwf (eq_sym Hlen) Hpos ltac:(lia)) as Htop. fold d in Htop.
    apply Z.eqb_neq in Htop. rewrite Htop. cbn [negb].
    rewrite (lk_bits_ni y (zeros n)) by (unfold same_shape; lia).
    f_equal. f_equal. f_equal.
    rewrite (lk_shl_limb_ni x ((64 - d mod 64) mod 64) (zeros n) 0) by (unfold same_shape; lia).
    unfold lk_shl. rewrite <- Hlen. fold n.
    assert (E1 : (BITSn n - d <? BITSn n) = true) by (apply Z.ltb_lt; lia). rewrite E1.
    rewrite (lk_overflowing_shl_ni y (BITSn n - d) (zeros n) 0) by (unfold same_shape; lia).
    f_equal. f_equal. f_equal. f_equal. f_equal. f_equal.
    unfold lk_div_rem_tail, lk_shr. fold n. rewrite <- Hlen. fold n.
    assert (E2 : (((d + 63) / 64 - 1) * 64 <? BITSn n) = true) by (apply Z.ltb_lt; lia).
    assert (E3 : ((64 - d mod 64) mod 64 <? BITSn n) = true) by (apply Z.ltb_lt; lia).
    rewrite E2, E3.
    rewrite (lk_overflowing_shr_ni x (((d + 63) / 64 - 1) * 64) (zeros n) 0) by (unfold same_shape; lia).
    rewrite (lk_overflowing_shr_ni y ((64 - d mod 64) mod 64) (zeros n) 0) by (unfold same_shape; lia).
    reflexivity.
Qed.

(** Noninterference of Uint::div_rem / rem / wrapping_div: for non-zero divisors (the NonZero precondition)
    the trace depends on the width only — neither on the dividend nor on the divisor *)
Lemma lk_div_rem_ni x1 y1 x2 y2 :
  same_shape x1 x2 -> same_shape x1 y1 -> same_shape x2 y2 ->
  wf y1 -> wf y2 -> 0 < eval y1 -> 0 < eval y2 ->
  lk_div_rem x1 y1 = lk_div_rem x2 y2.
Proof.
  intros Hx H1 H2 W1 W2 P1 P2.
  rewrite (lk_div_rem_pub x1 y1 H1 W1 P1), (lk_div_rem_pub x2 y2 H2 W2 P2). unfold same_shape in Hx.
  rewrite Hx. reflexivity.
Qed.
(** without the precondition the twin does distinguish: a zero divisor panics early *)
Lemma lk_div_rem_zero_divisor_differs : exists x y1 y2, same_shape y1 y2 /\ lk_div_rem x y1 <> lk_div_rem x y2.
Proof. exists [5; 0], [0; 0], [1; 0]. split; [reflexivity|]. vm_compute. discriminate. Qed.

(* ---------------------------------------------------------------- modular add / sub / neg *)
Lemma lk_neg_mod_ni a1 p1 a2 p2 : same_shape a1 a2 -> same_shape p1 p2 -> lk_neg_mod a1 p1 = lk_neg_mod a2 p2.
Proof. unfold lk_neg_mod, lk_is_nonzero, lk_sbb. by_length. Qed.
Lemma lk_add_mod_ni a1 b1 p1 a2 b2 p2 : same_shape a1 a2 -> same_shape p1 p2 ->
  lk_add_mod a1 b1 p1 = lk_add_mod a2 b2 p2.
Proof. unfold lk_add_mod, lk_adc, lk_sbb, lk_bitand_limb, lk_wrapping_add, lk_adc. by_length. Qed.
Lemma lk_sub_mod_ni a1 b1 p1 a2 b2 p2 : same_shape a1 a2 -> same_shape p1 p2 ->
  lk_sub_mod a1 b1 p1 = lk_sub_mod a2 b2 p2.
Proof. unfold lk_sub_mod, lk_sbb, lk_bitand_limb, lk_wrapping_add, lk_adc. by_length. Qed.
Lemma lk_double_mod_ni a1 p1 a2 p2 : same_shape a1 a2 -> same_shape p1 p2 ->
  lk_double_mod a1 p1 = lk_double_mod a2 p2.
Proof. unfold lk_double_mod, lk_shl1, lk_sbb, lk_bitand_limb, lk_wrapping_add, lk_adc. by_length. Qed.

(* ---------------------------------------------------------------- inversion mod 2^k *)
(** constant in the value and in k (dummy iterations) *)
Lemma lk_inv_mod2k_ni x1 k1 x2 k2 : same_shape x1 x2 -> lk_inv_mod2k x1 k1 = lk_inv_mod2k x2 k2.
Proof.
  unfold lk_inv_mod2k, lk_inv_mod2k_round, lk_wrapping_sub, lk_sbb, lk_uint_select, lk_shr1, lk_set_bit.
  by_length.
Qed.
(** the vartime form: constant in the value for a fixed (public) k ... *)
Lemma lk_inv_mod2k_vartime_ni x1 x2 k : same_shape x1 x2 -> lk_inv_mod2k_vartime x1 k = lk_inv_mod2k_vartime x2 k.
Proof.
  unfold lk_inv_mod2k_vartime, lk_wrapping_sub, lk_sbb, lk_uint_select, lk_shr1, lk_overflowing_shl_vartime, lk_eq.
  by_length.
Qed.
(** ... and it does vary with k, as documented *)
Lemma lk_inv_mod2k_vartime_varies : exists x k1 k2, lk_inv_mod2k_vartime x k1 <> lk_inv_mod2k_vartime x k2.
Proof. exists [1], 1, 2. vm_compute. discriminate. Qed.

(* ---------------------------------------------------------------- square root *)
Fixpoint pub_sqrt_rounds (cnt n : nat) : trace :=
  match cnt with
  | O => []
  | S c =>
      let z := zeros n in
      lk_is_nonzero z ++ lk_uint_select z z 0 ++ pub_div_rem n ++
      lk_wrapping_add z z ++ lk_shr1 z ++ lk_uint_select z z 0 ++ pub_sqrt_rounds c n
  end.

Lemma Bn_gt1 n : (1 <= n)%nat -> 1 < Bn n.
Proof.
  intros H. destruct n; [lia|]. rewrite Bn_S. pose proof B_gt1. pose proof (Bn_pos n). nia.
Qed.

Lemma lk_sqrt_rounds_pub cnt : forall self x,
  (1 <= length self)%nat -> 0 <= x < Bn (length self) ->
  lk_sqrt_rounds cnt self x = pub_sqrt_rounds cnt (length self).
Proof.
  induction cnt as [|c IH]; intros self x Hn Hx; [reflexivity|].
  cbn [lk_sqrt_rounds pub_sqrt_rounds]. cbv zeta.
  set (n := length self) in *.
  assert (Hl : forall v, same_shape (to_limbs n v) (zeros n))
    by (intros; unfold same_shape; rewrite length_to_limbs, length_zeros; reflexivity).
  rewrite (lk_is_nonzero_ni _ _ (Hl x)).
  rewrite (lk_uint_select_ni _ (to_limbs n x) 0 _ (zeros n) 0 (Hl x)).
  unfold lk_wrapping_add. rewrite (lk_adc_ni _ (to_limbs n x) 0 _ (zeros n) 0 (Hl x)).
  rewrite (lk_shr1_ni _ _ (Hl x)).
  assert (Hd : lk_div_rem self (to_limbs n (if x =? 0 then 1 else x)) = pub_div_rem n).
  { apply lk_div_rem_pub.
    - unfold same_shape. rewrite length_to_limbs. reflexivity.
    - apply wf_to_limbs.
    - rewrite eval_to_limbs. pose proof (Bn_gt1 n Hn).
      destruct (x =? 0) eqn:E; [rewrite Z.mod_small; lia|].
      apply Z.eqb_neq in E. rewrite Z.mod_small; lia. }
  rewrite Hd.
  rewrite IH; [reflexivity | exact Hn |].
  unfold lk_sqrt_step. fold n. destruct (x =? 0); [pose proof (Bn_pos n); lia|].
  pose proof (Z.mod_pos_bound (x + eval self / x) (Bn n) (Bn_pos n)).
  split; [apply Z.div_pos; lia | apply Z.div_lt_upper_bound; lia].
Qed.

(** Noninterference of Uint::sqrt: fixed number of Newton rounds, every division by a non-zero (selected) divisor *)
Lemma lk_sqrt_ni s1 s2 : same_shape s1 s2 -> wf s1 -> wf s2 -> lk_sqrt s1 = lk_sqrt s2.
Proof.
  unfold same_shape. intros Hlen W1 W2.
  assert (Hpub : forall s, wf s -> (1 <= length s)%nat ->
     lk_sqrt s = lk_bits (zeros (length s)) ++ lk_overflowing_shl (zeros (length s)) 0 ++ Br true ::
                 Ln (Z.of_nat (lk_log2_bits (length s) + 2)) ::
                 pub_sqrt_rounds (lk_log2_bits (length s) + 2) (length s) ++
                 lk_gt (zeros (length s)) (zeros (length s)) ++ lk_uint_select (zeros (length s)) (zeros (length s)) 0).
  { intros s W Hn. unfold lk_sqrt. cbv zeta. set (n := length s) in *.
    assert (Hz : same_shape s (zeros n)) by (unfold same_shape; rewrite length_zeros; reflexivity).
    pose proof (eval_bounds s W) as Hb. fold n in Hb. rewrite Bn_pow2 in Hb. fold (BITSn n) in Hb.
    assert (Hsh : (lk_bits_of (eval s) + 1) / 2 < BITSn n).
    { assert (lk_bits_of (eval s) <= BITSn n).
      { destruct (Z.eq_dec (eval s) 0) as [E|E]; [rewrite E; change (lk_bits_of 0) with 0; unfold BITSn; lia|].
        apply bits_of_le; [lia | apply BITSn_nonneg]. }
      apply Z.div_lt_upper_bound; unfold BITSn in *; lia. }
    apply Z.ltb_lt in Hsh. rewrite Hsh. cbn [negb].
    rewrite (lk_bits_ni _ _ Hz), (lk_overflowing_shl_ni s _ (zeros n) 0 Hz).
    rewrite lk_sqrt_rounds_pub; [| fold n; lia | fold n; apply Z.mod_pos_bound, Bn_pos]. fold n.
    rewrite (lk_gt_ni s s (zeros n) (zeros n) Hz), (lk_uint_select_ni s s 0 (zeros n) (zeros n) 0 Hz).
    reflexivity. }
  destruct s1 as [|a1 r1].
  - destruct s2; [reflexivity | discriminate].
  - rewrite (Hpub (a1 :: r1) W1) by (cbn [length]; lia).
    rewrite (Hpub s2 W2) by (rewrite <- Hlen; cbn [length]; lia).
    rewrite Hlen. reflexivity.
Qed.

(* ---------------------------------------------------------------- Montgomery reduction, window ladder *)
Lemma lk_montgomery_reduction_ni l1 u1 m1 l2 u2 m2 : same_shape u1 u2 -> same_shape m1 m2 ->
  lk_montgomery_reduction l1 u1 m1 = lk_montgomery_reduction l2 u2 m2.
Proof. unfold lk_montgomery_reduction, lk_sbb, lk_bitand_limb, lk_wrapping_add, lk_adc. by_length. Qed.
Lemma lk_mul_wide_ni a1 b1 a2 b2 : same_shape a1 a2 -> same_shape b1 b2 -> lk_mul_wide a1 b1 = lk_mul_wide a2 b2.
Proof. unfold lk_mul_wide. by_length. Qed.
Lemma lk_mul_montgomery_form_ni a1 b1 m1 a2 b2 m2 : same_shape a1 a2 -> same_shape b1 b2 -> same_shape m1 m2 ->
  lk_mul_montgomery_form a1 b1 m1 = lk_mul_montgomery_form a2 b2 m2.
Proof.
  intros. unfold lk_mul_montgomery_form.
  rewrite (lk_mul_wide_ni a1 b1 a2 b2), (lk_montgomery_reduction_ni a1 a1 m1 a2 a2 m2); auto.
Qed.
(** pow / pow_bounded_exp: the exponent is secret, [exponent_bits] and the modulus width are public; the table of
    window powers is scanned completely *)
Lemma lk_pow_ni x1 e1 m1 x2 e2 m2 bits : same_shape x1 x2 -> same_shape m1 m2 ->
  lk_pow x1 e1 m1 bits = lk_pow x2 e2 m2 bits.
Proof.
  unfold lk_pow, lk_compute_powers, lk_pow_window, lk_table_scan, lk_mul_montgomery_form, lk_mul_wide,
    lk_montgomery_reduction, lk_uint_select, lk_sbb, lk_bitand_limb, lk_wrapping_add, lk_adc.
  by_length.
Qed.
Lemma lk_pow_varies_with_exponent_bits : exists x e m b1 b2, lk_pow x e m b1 <> lk_pow x e m b2.
Proof. exists [1], [1], [3], 1, 5. vm_compute. discriminate. Qed.

(* ---------------------------------------------------------------- documented variable-time controls do vary *)
Lemma lk_overflowing_shl_vartime_varies : exists x s1 s2, lk_overflowing_shl_vartime x s1 <> lk_overflowing_shl_vartime x s2.
Proof. exists [1; 2], 0, 64. vm_compute. discriminate. Qed.
Lemma lk_bits_vartime_varies : exists x1 x2, same_shape x1 x2 /\ lk_bits_vartime x1 <> lk_bits_vartime x2.
Proof. exists [1; 0], [1; 1]. split; [reflexivity|]. vm_compute. discriminate. Qed.
Lemma lk_cmp_vartime_varies : exists a b1 b2, same_shape b1 b2 /\ lk_cmp_vartime a b1 <> lk_cmp_vartime a b2.
Proof. exists [1; 1], [1; 1], [1; 2]. split; [reflexivity|]. vm_compute. discriminate. Qed.
Lemma lk_trailing_zeros_vartime_varies : exists x1 x2, same_shape x1 x2 /\ lk_trailing_zeros_vartime x1 <> lk_trailing_zeros_vartime x2.
Proof. exists [0; 1], [1; 1]. split; [reflexivity|]. vm_compute. discriminate. Qed.
Lemma lk_bit_vartime_ni x1 x2 i : same_shape x1 x2 -> lk_bit_vartime x1 i = lk_bit_vartime x2 i.
Proof. unfold lk_bit_vartime, lenZ. by_length. Qed.

(* ---------------------------------------------------------------- safegcd: refutations *)
(** [jump] (62 divsteps on the low limbs) branches on the bits of g and on delta: two secrets g with the same
    public f and delta give different traces. inv_mod, inv_odd_mod, gcd, Inverter::invert and the
    Montgomery-form inversions run this loop on secret operands although they are not marked vartime. *)
Lemma lk_jump_refuted : exists f g1 g2 delta, same_shape g1 g2 /\ lk_jump f g1 delta <> lk_jump f g2 delta.
Proof. exists [5], [2], [3], 1. split; [reflexivity|]. vm_compute. discriminate. Qed.
(** already the first test of the loop, [min(steps, g.trailing_zeros())], separates an even from an odd g *)
Lemma lk_jump_first_test : exists f g1 g2 delta,
  nth 2 (lk_jump f g1 delta) (Ln 0) <> nth 2 (lk_jump f g2 delta) (Ln 0).
Proof. exists [5], [0], [3], 1. vm_compute. discriminate. Qed.
(** the outer trip count of divsteps depends on the bit length of the (secret) g *)
Lemma lk_divsteps_trip_refuted : exists f g1 g2, lk_divsteps_trip f g1 <> lk_divsteps_trip f g2.
Proof. exists 3, 1, (2 ^ 100). vm_compute. discriminate. Qed.
(** ... but only once g is longer than f: for g below an f of full bit length the count is public *)
Lemma lk_divsteps_trip_ni f g1 g2 :
  lk_bits_of g1 <= lk_bits_of f -> lk_bits_of g2 <= lk_bits_of f -> lk_divsteps_trip f g1 = lk_divsteps_trip f g2.
Proof.
  intros H1 H2. unfold lk_divsteps_trip, lk_iterations.
  destruct (lk_bits_of f <? lk_bits_of g1) eqn:E1; [apply Z.ltb_lt in E1; lia|].
  destruct (lk_bits_of f <? lk_bits_of g2) eqn:E2; [apply Z.ltb_lt in E2; lia|]. reflexivity.
Qed.
