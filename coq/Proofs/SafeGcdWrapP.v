(** C10 proofs, part 11: the outcomes of the public entry points in the form the op tables use: odd-modulus inverters
    (adjuster 1 or arbitrary), general modulus, Int wrappers (|a| and sign fix-up), Montgomery-form inverters
    (adjuster R^2, value level for the conversions), gcd wrappers.  Everything under the reported convergence flag. *)
From CB Require Import Model.Limbs Model.AddSub Model.SafeGcd Proofs.WordP Proofs.LimbsP Proofs.BitsP
  Proofs.SafeGcdArithP Proofs.SafeGcdJumpP Proofs.SafeGcdUnsatP Proofs.SafeGcdStepP Proofs.SafeGcdDivstepsP
  Proofs.SafeGcdCoreP Proofs.InvMod2kP Proofs.LimbConvertP Proofs.SafeGcdInvP Proofs.SafeGcdConvP Proofs.SafeGcdUintP.
From Coq Require Import ZArith Lia List Bool Znumtheory Zdiv Setoid Morphisms.
Open Scope Z_scope.

Lemma limbs_of_eval x n v : wf x -> length x = n -> eval x = v -> x = to_limbs n v.
Proof. intros W L E. rewrite <- E, <- L. symmetry. apply to_limbs_eval. assumption. Qed.

Lemma modinv_adj av mv A : 0 < mv -> Z.gcd av mv = 1 -> (av * ((modinv av mv * A) mod mv)) mod mv = A mod mv.
Proof.
  intros Hm G. destruct (modinv_spec av mv Hm) as (_ & C). rewrite G in C.
  assert (C1 : cg mv (av * modinv av mv) 1) by (apply cg_iff; assumption).
  apply cg_iff. rewrite cg_mod. transitivity ((av * modinv av mv) * A); [apply cg_of_eq; ring|]. rewrite C1. apply cg_of_eq. ring.
Qed.

(* ---- odd modulus ---- *)
Section OddInv.
  Context (m a adj : list Z) (n : nat).
  Context (Wm : wf m) (Wa : wf a) (Wadj : wf adj) (Lm : length m = n) (La : length a = n) (Ladj : length adj = n)
          (Hn : (0 < n)%nat) (Hn32 : Z.of_nat n <= 2 ^ 32) (Om : Z.odd (eval m) = true).

  Lemma out_sg_inv_adj dbg vartime boxed : eval adj < eval m -> conv_inv boxed m a = true ->
    out_sg (sg_inv dbg vartime boxed adj m a) = spec_inv_adj n (eval a) (eval m) (eval adj).
  Proof.
    intros HA Hc. unfold conv_inv in Hc. rewrite Lm in Hc.
    pose proof (eval_bounds adj Wadj) as BA.
    destruct (sg_inv_partial m a adj n (eval m - 1) Wm Wa Wadj Lm La Ladj Hn Hn32 Om ltac:(lia) ltac:(lia) dbg vartime boxed
                (sg_converged_conv boxed m a (unsat_nlimbs n) vartime _ _ Hc)) as (x & some & E & Wx & Lx & Rx & Hs & Hv).
    rewrite E. unfold out_sg, spec_inv_adj. destruct some.
    - assert (G : Z.gcd (eval a) (eval m) = 1) by (apply Hs; reflexivity). rewrite G. cbn [Z.eqb Pos.eqb].
      do 2 f_equal. apply limbs_of_eval; try assumption.
      assert (Hm : 0 < eval m) by lia.
      specialize (Hv eq_refl).
      apply (inv_unique (eval m) (eval a) (eval adj)); try assumption; try lia.
      + apply modinv_adj; assumption.
      + apply Z.mod_pos_bound. assumption.
    - destruct (Z.eqb_spec (Z.gcd (eval a) (eval m)) 1) as [G|G]; [|reflexivity].
      apply Hs in G. discriminate.
  Qed.

  Lemma out_some_sg_inv dbg vartime boxed : eval adj <= eval m -> conv_inv boxed m a = true ->
    out_some (sg_inv dbg vartime boxed adj m a) = Val [vbool (Z.gcd (eval a) (eval m) =? 1)].
  Proof.
    intros HA Hc. unfold conv_inv in Hc. rewrite Lm in Hc.
    destruct (sg_inv_partial m a adj n (eval m) Wm Wa Wadj Lm La Ladj Hn Hn32 Om ltac:(lia) ltac:(lia) dbg vartime boxed
                (sg_converged_conv boxed m a (unsat_nlimbs n) vartime _ _ Hc)) as (x & some & E & Wx & Lx & Rx & Hs & Hv).
    rewrite E. unfold out_some. do 3 f_equal.
    destruct some.
    - symmetry. apply Z.eqb_eq. apply Hs. reflexivity.
    - symmetry. apply Z.eqb_neq. intros G. apply Hs in G. discriminate.
  Qed.
End OddInv.

Lemma eval_ones n : (0 < n)%nat -> eval (ones_limbs n) = 1.
Proof.
  intros Hn. unfold ones_limbs. rewrite eval_to_limbs. apply Z.mod_small.
  destruct n; [lia|]. rewrite Bn_S. pose proof (Bn_pos n). pose proof B_gt1. nia.
Qed.
Lemma spec_inv_adj_one n av mv : 1 < mv -> spec_inv_adj n av mv 1 = spec_inv n av mv.
Proof.
  intros Hm. unfold spec_inv_adj, spec_inv. destruct (Z.gcd av mv =? 1); [|reflexivity].
  rewrite Z.mul_1_r. destruct (modinv_spec av mv ltac:(lia)) as (R & _). rewrite Z.mod_small by assumption. reflexivity.
Qed.

(** Uint::inv_odd_mod, Inverter::invert, BoxedUint::inv_odd_mod ... : modulus odd and >= 3 *)
Lemma out_sg_inv_one dbg vartime boxed m a n : wf m -> wf a -> length m = n -> length a = n -> (0 < n)%nat -> Z.of_nat n <= 2 ^ 32 ->
  Z.odd (eval m) = true -> 1 < eval m -> conv_inv boxed m a = true ->
  out_sg (sg_inv dbg vartime boxed (ones_limbs n) m a) = spec_inv n (eval a) (eval m).
Proof.
  intros Wm Wa Lm La Hn Hn32 Om Hm Hc.
  rewrite (out_sg_inv_adj m a (ones_limbs n) n Wm Wa (wf_to_limbs n 1) Lm La (length_to_limbs n 1) Hn Hn32 Om dbg vartime boxed)
    by (try rewrite eval_ones; assumption).
  rewrite eval_ones by assumption. apply spec_inv_adj_one. assumption.
Qed.
Lemma out_some_sg_inv_one dbg vartime boxed m a n : wf m -> wf a -> length m = n -> length a = n -> (0 < n)%nat -> Z.of_nat n <= 2 ^ 32 ->
  Z.odd (eval m) = true -> conv_inv boxed m a = true ->
  out_some (sg_inv dbg vartime boxed (ones_limbs n) m a) = Val [vbool (Z.gcd (eval a) (eval m) =? 1)].
Proof.
  intros Wm Wa Lm La Hn Hn32 Om Hc.
  apply (out_some_sg_inv m a (ones_limbs n) n Wm Wa (wf_to_limbs n 1) Lm La (length_to_limbs n 1) Hn Hn32 Om); [|assumption].
  rewrite eval_ones by assumption. destruct (Z.eq_dec (eval m) 0) as [E|E]; [rewrite E in Om; discriminate|].
  pose proof (eval_bounds m Wm). lia.
Qed.

(* ---- general modulus ---- *)
Lemma odd_part_eq m n : length m = n -> odd_part m = to_limbs n (vshr n (eval m) (vtz n (eval m))).
Proof. intros <-. reflexivity. Qed.

Lemma out_sg_inv_mod dbg boxed a m n : wf a -> wf m -> length a = n -> length m = n -> (0 < n)%nat -> Z.of_nat n <= 2 ^ 32 ->
  1 < eval m -> conv_inv boxed (odd_part m) a = true ->
  out_sg (uint_inv_mod dbg boxed a m) = spec_inv n (eval a) (eval m).
Proof.
  intros Wa Wm La Lm Hn Hn32 Hm Hc. unfold conv_inv in Hc. rewrite (odd_part_eq m n Lm), length_to_limbs in Hc.
  destruct (uint_inv_mod_partial a m n Wa Wm La Lm Hn Hn32 ltac:(lia) dbg boxed Hc) as (X & some & E & Hs & Hv).
  rewrite E. unfold out_sg, spec_inv. destruct some.
  - assert (G : Z.gcd (eval a) (eval m) = 1) by (apply Hs; reflexivity). rewrite G. cbn [Z.eqb Pos.eqb].
    rewrite (Hv eq_refl ltac:(lia)). reflexivity.
  - destruct (Z.eqb_spec (Z.gcd (eval a) (eval m)) 1) as [G|G]; [|reflexivity]. apply Hs in G. discriminate.
Qed.
Lemma out_some_inv_mod dbg boxed a m n : wf a -> wf m -> length a = n -> length m = n -> (0 < n)%nat -> Z.of_nat n <= 2 ^ 32 ->
  0 < eval m -> conv_inv boxed (odd_part m) a = true ->
  out_some (uint_inv_mod dbg boxed a m) = Val [vbool (Z.gcd (eval a) (eval m) =? 1)].
Proof.
  intros Wa Wm La Lm Hn Hn32 Hm Hc. unfold conv_inv in Hc. rewrite (odd_part_eq m n Lm), length_to_limbs in Hc.
  destruct (uint_inv_mod_partial a m n Wa Wm La Lm Hn Hn32 Hm dbg boxed Hc) as (X & some & E & Hs & Hv).
  rewrite E. unfold out_some. do 3 f_equal. destruct some.
  - symmetry. apply Z.eqb_eq. apply Hs. reflexivity.
  - symmetry. apply Z.eqb_neq. intros G. apply Hs in G. discriminate.
Qed.

(* ---- shape of a result from its outcome ---- *)
Lemma out_sg_spec_inv_shape r n av mv : out_sg r = spec_inv n av mv ->
  exists v some, r = SgOk v some /\ (some = true <-> Z.gcd av mv = 1) /\ (some = true -> v = to_limbs n (modinv av mv)).
Proof.
  unfold out_sg, spec_inv. destruct r as [| |v [|]]; destruct (Z.eqb_spec (Z.gcd av mv) 1) as [G|G]; intros H; try discriminate.
  - exists v, true. split; [reflexivity|]. split; [tauto|]. intros _. inversion H. reflexivity.
  - exists v, false. split; [reflexivity|]. split; [split; [discriminate | intros; contradiction] | discriminate].
Qed.
Lemma out_sg_of_shape v some n av mv : (some = true <-> Z.gcd av mv = 1) -> (some = true -> v = to_limbs n (modinv av mv)) ->
  out_sg (SgOk v some) = spec_inv n av mv.
Proof.
  intros Hs Hv. unfold out_sg, spec_inv. destruct some.
  - rewrite (proj1 Hs eq_refl). cbn [Z.eqb Pos.eqb]. rewrite (Hv eq_refl). reflexivity.
  - destruct (Z.eqb_spec (Z.gcd av mv) 1) as [G|G]; [apply Hs in G; discriminate | reflexivity].
Qed.
Lemma out_some_shape r b : out_some r = Val [vbool b] -> exists v, r = SgOk v b.
Proof.
  unfold out_some. destruct r as [| |v s]; intros H; try discriminate. exists v. f_equal.
  inversion H as [H1]. destruct s, b; try reflexivity; discriminate.
Qed.

(* ---- Int wrappers ---- *)
Lemma seval_abs_bound a : wf a -> (0 < length a)%nat -> 0 <= Z.abs (seval a) < Bn (length a).
Proof.
  intros W HL. pose proof (eval_bounds a W) as Ba. unfold seval. cbv zeta.
  destruct (Z.ltb_spec (2 * eval a) (Bn (length a))); lia.
Qed.
Lemma int_abs_spec a n : wf a -> length a = n -> (0 < n)%nat ->
  wf (int_abs a) /\ length (int_abs a) = n /\ eval (int_abs a) = Z.abs (seval a).
Proof.
  intros W L Hn. unfold int_abs. rewrite L. split; [apply wf_to_limbs|]. split; [apply length_to_limbs|].
  rewrite eval_to_limbs. apply Z.mod_small. rewrite <- L. apply seval_abs_bound; [assumption | lia].
Qed.

Lemma int_fix_value mv sa n : 2 <= mv < Bn n -> Z.gcd (Z.abs sa) mv = 1 ->
  (if sa <? 0 then (mv - modinv (Z.abs sa) mv) mod Bn n else modinv (Z.abs sa) mv) = modinv sa mv.
Proof.
  intros Hm G. destruct (modinv_spec (Z.abs sa) mv ltac:(lia)) as (R & C). rewrite G in C.
  destruct (modinv_spec sa mv ltac:(lia)) as (R2 & C2).
  assert (G2 : Z.gcd sa mv = 1) by (rewrite <- Z.gcd_abs_l; assumption). rewrite G2 in C2.
  set (x := modinv (Z.abs sa) mv) in *.
  destruct (Z.ltb_spec sa 0) as [Hneg|Hpos].
  - assert (Hx0 : x <> 0).
    { intros Z0. rewrite Z0, Z.mul_0_r, Z.mod_0_l, Z.mod_small in C by lia. lia. }
    rewrite Z.mod_small by lia.
    apply (inv_unique mv sa 1); try assumption; try lia.
    apply cg_iff. apply cg_iff in C. rewrite <- C. apply cg_divide; [lia|]. exists sa. rewrite (Z.abs_neq sa) by lia. ring.
  - unfold x. rewrite Z.abs_eq by lia. reflexivity.
Qed.

Lemma out_int_fix r m n sa : wf m -> length m = n -> 2 <= eval m ->
  out_sg r = spec_inv n (Z.abs sa) (eval m) ->
  out_sg (int_fix_sign (sa <? 0) m r) = spec_inv n sa (eval m).
Proof.
  intros Wm Lm Hm H. pose proof (eval_bounds m Wm) as Bm. rewrite Lm in Bm.
  destruct (out_sg_spec_inv_shape r n _ _ H) as (v & some & -> & Hs & Hv).
  unfold int_fix_sign. apply out_sg_of_shape.
  - rewrite <- Z.gcd_abs_l. assumption.
  - intros S. specialize (Hv S). rewrite Lm. rewrite <- (int_fix_value (eval m) sa n) by (try apply Hs; assumption || lia).
    destruct (sa <? 0); [|assumption]. rewrite Hv, eval_to_limbs.
    destruct (modinv_spec (Z.abs sa) (eval m) ltac:(lia)) as (R & _). rewrite (Z.mod_small (modinv _ _)) by lia.
    reflexivity.
Qed.
Lemma out_some_int_fix r neg m sa mv : out_some r = Val [vbool (Z.gcd (Z.abs sa) mv =? 1)] ->
  out_some (int_fix_sign neg m r) = Val [vbool (Z.gcd sa mv =? 1)].
Proof.
  intros H. destruct (out_some_shape _ _ H) as (v & ->). unfold int_fix_sign, out_some. rewrite Z.gcd_abs_l. reflexivity.
Qed.
Lemma int_neg_eq a : int_neg a = (seval a <? 0). Proof. reflexivity. Qed.

(* ---- gcd wrappers ---- *)
Lemma out_uint_gcd dbg boxed a b n : wf a -> wf b -> length a = n -> length b = n -> (0 < n)%nat -> Z.of_nat n <= 2 ^ 32 ->
  uint_gcd_converged boxed a b = true -> out_sg (uint_gcd dbg boxed a b) = sp_gcd n (eval a) (eval b).
Proof. intros Wa Wb La Lb Hn Hn32 Hc. rewrite (uint_gcd_partial a b n Wa Wb La Lb Hn Hn32 dbg boxed Hc). reflexivity. Qed.
Lemma out_uint_gcd_vt dbg boxed a b n : wf a -> wf b -> length a = n -> length b = n -> (0 < n)%nat -> Z.of_nat n <= 2 ^ 32 ->
  conv_gcd_vt boxed a b = true -> out_sg (uint_gcd_vartime dbg boxed a b) = sp_gcd n (eval a) (eval b).
Proof.
  intros Wa Wb La Lb Hn Hn32 Hc. unfold conv_gcd_vt in Hc. rewrite La in Hc.
  rewrite (uint_gcd_vartime_partial a b n dbg boxed Wa Wb La Lb Hn Hn32 Hc). reflexivity.
Qed.
Lemma out_sg_gcd dbg vartime boxed a b n : wf a -> wf b -> length a = n -> length b = n -> (0 < n)%nat -> Z.of_nat n <= 2 ^ 32 ->
  Z.odd (eval a) = true -> sg_converged boxed a b (unsat_nlimbs n) = true ->
  out_sg (sg_gcd dbg vartime boxed a b) = sp_gcd n (eval a) (eval b).
Proof.
  intros Wa Wb La Lb Hn Hn32 Oa Hc.
  rewrite (sg_gcd_partial a b n Wa Wb La Lb Hn Hn32 ltac:(left; assumption) dbg vartime boxed (sg_converged_conv boxed a b _ vartime _ _ Hc)).
  reflexivity.
Qed.

(* ---- Montgomery form: adjuster R^2, conversion in and out at value level ---- *)
Lemma gcd_Bn_odd n mv : Z.odd mv = true -> Z.gcd (Bn n) mv = 1.
Proof.
  intros Om. rewrite Z.gcd_comm, Bn_pow2. apply Z.eqb_eq. rewrite gcd_pow2 by lia. rewrite Om. apply orb_true_r.
Qed.

Lemma out_monty_inv dbg vartime boxed a m n : wf a -> wf m -> length m = n -> (0 < n)%nat -> Z.of_nat n <= 2 ^ 32 ->
  Z.odd (eval m) = true -> 1 < eval m -> conv_inv boxed m (monty_arg a m) = true ->
  out_sg (monty_inv dbg vartime boxed a m) = spec_inv n (eval a) (eval m).
Proof.
  intros Wa Wm Lm Hn Hn32 Om Hm Hc. unfold monty_arg in Hc. rewrite Lm in Hc.
  pose proof (eval_bounds m Wm) as Bm. rewrite Lm in Bm.
  set (mv := eval m) in *. set (av := eval a) in *. set (R := Bn n) in *.
  assert (Emf : eval (to_limbs n ((av * R) mod mv)) = (av * R) mod mv).
  { rewrite eval_to_limbs. apply Z.mod_small. pose proof (Z.mod_pos_bound (av * R) mv ltac:(lia)). lia. }
  assert (Er2 : eval (to_limbs n ((R * R) mod mv)) = (R * R) mod mv).
  { rewrite eval_to_limbs. apply Z.mod_small. pose proof (Z.mod_pos_bound (R * R) mv ltac:(lia)). lia. }
  pose proof (out_sg_inv_adj m (to_limbs n ((av * R) mod mv)) (to_limbs n ((R * R) mod mv)) n Wm (wf_to_limbs _ _) (wf_to_limbs _ _)
                Lm (length_to_limbs _ _) (length_to_limbs _ _) Hn Hn32 Om dbg vartime boxed) as H.
  rewrite Er2, Emf in H. fold mv in H. specialize (H ltac:(apply Z.mod_pos_bound; lia) Hc).
  unfold monty_inv. rewrite Lm. fold mv av R.
  assert (GR : Z.gcd R mv = 1) by (apply gcd_Bn_odd; assumption).
  assert (GG : Z.gcd ((av * R) mod mv) mv = 1 <-> Z.gcd av mv = 1).
  { rewrite Z.gcd_mod by lia. rewrite (Z.gcd_comm mv). rewrite (Z.gcd_comm (av * R)), (Z.gcd_comm av).
    rewrite gcd1_mul_split. rewrite (Z.gcd_comm mv R). tauto. }
  destruct (sg_inv dbg vartime boxed (to_limbs n ((R * R) mod mv)) m (to_limbs n ((av * R) mod mv))) as [| |x some];
    unfold out_sg, spec_inv_adj in H; try (destruct (Z.gcd ((av * R) mod mv) mv =? 1); discriminate).
  apply out_sg_of_shape.
  - destruct some; destruct (Z.eqb_spec (Z.gcd ((av * R) mod mv) mv) 1) as [G|G]; try discriminate; split; intros X; try discriminate; try tauto.
  - intros ->. destruct (Z.eqb_spec (Z.gcd ((av * R) mod mv) mv) 1) as [G|G]; [|discriminate].
    inversion H as [Hx]. clear H. rewrite eval_to_limbs.
    set (xv := (modinv ((av * R) mod mv) mv * ((R * R) mod mv)) mod mv).
    assert (Rx : 0 <= xv < mv) by (apply Z.mod_pos_bound; lia).
    rewrite (Z.mod_small xv) by lia.
    f_equal.
    assert (Ga : Z.gcd av mv = 1) by (apply GG; assumption).
    destruct (modinv_spec R mv ltac:(lia)) as (RRi & CRi). rewrite GR in CRi.
    destruct (modinv_spec av mv ltac:(lia)) as (Rai & Cai). rewrite Ga in Cai.
    set (Ri := modinv R mv) in *.
    assert (C1 : cg mv (R * Ri) 1) by (apply cg_iff; assumption).
    assert (C2 : cg mv (av * R * xv) (R * R)).
    { pose proof (modinv_adj ((av * R) mod mv) mv ((R * R) mod mv) ltac:(lia) G) as C. fold xv in C.
      apply cg_iff in C. rewrite !cg_mod in C. exact C. }
    apply (inv_unique mv av 1); try assumption; try lia; [| apply Z.mod_pos_bound; lia].
    apply cg_iff. rewrite cg_mod.
    transitivity (av * xv * Ri * 1); [apply cg_of_eq; ring|]. rewrite <- C1 at 1.
    transitivity ((av * R * xv) * (Ri * Ri)); [apply cg_of_eq; ring|]. rewrite C2.
    transitivity ((R * Ri) * (R * Ri)); [apply cg_of_eq; ring|]. rewrite C1. apply cg_of_eq. ring.
Qed.
