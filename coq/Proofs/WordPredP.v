(** Correctness of the word predicates of src/const_choice.rs (Model/Word.v) for ALL 64-bit words:
    from_word_nonzero / eq / lt / gt / le / msb by sign-bit case analysis through [Z.testbit _ 63];
    closure of words under the bit operations. Depends on Model/Word.v and Model/Limbs.v only (reusable by other properties). *)
From CB Require Import Model.Word Model.Limbs Proofs.WordP.
From Coq Require Import ZArith Lia List Bool.
Open Scope Z_scope.

(** the most significant bit of a word, as a boolean *)
Definition msbb (x : Z) : bool := 2 ^ 63 <=? x.

Lemma msbb_true x : msbb x = true <-> 2 ^ 63 <= x.
Proof. unfold msbb. apply Z.leb_le. Qed.
Lemma msbb_false x : msbb x = false <-> x < 2 ^ 63.
Proof. unfold msbb. apply Z.leb_gt. Qed.

Lemma msb_div x : is_word x -> x / 2 ^ 63 = b2z (msbb x).
Proof.
  unfold is_word. intros H. word_facts. destruct (msbb x) eqn:E.
  - apply msbb_true in E.
    assert (Hq : x / 2 ^ 63 = 1 /\ x mod 2 ^ 63 = x - 2 ^ 63) by (apply div_mod_unique_pos; lia).
    destruct Hq as [-> _]. reflexivity.
  - apply msbb_false in E. rewrite div_small_pos by lia. reflexivity.
Qed.

Lemma testbit63 x : is_word x -> Z.testbit x 63 = msbb x.
Proof.
  intros H. rewrite Z.testbit_odd, Z.shiftr_div_pow2 by lia. rewrite (msb_div x H).
  destruct (msbb x); reflexivity.
Qed.

(* ---- words are exactly the non-negative numbers without bits at positions >= 64 ---- *)
Lemma word_high_bits x n : is_word x -> 64 <= n -> Z.testbit x n = false.
Proof.
  unfold is_word. rewrite B_val. intros [H0 H1] Hn.
  destruct (Z.eq_dec x 0) as [->|Hnz]; [apply Z.bits_0|].
  apply Z.bits_above_log2; [lia|]. assert (Z.log2 x < 64) by (apply Z.log2_lt_pow2; lia). lia.
Qed.

Lemma word_from_bits x : 0 <= x -> (forall n, 64 <= n -> Z.testbit x n = false) -> is_word x.
Proof.
  intros H0 Hb. unfold is_word. rewrite B_val. split; [assumption|].
  destruct (Z_lt_ge_dec x (2 ^ 64)) as [|Hge]; [assumption|exfalso].
  assert (Hx : 0 < x) by lia.
  assert (64 <= Z.log2 x) by (apply Z.log2_le_pow2; lia).
  pose proof (Z.bit_log2 x Hx) as Hbit. rewrite Hb in Hbit by assumption. discriminate.
Qed.

Lemma is_word_lor a b : is_word a -> is_word b -> is_word (Z.lor a b).
Proof.
  intros Ha Hb. apply word_from_bits.
  - apply Z.lor_nonneg. unfold is_word in *. lia.
  - intros n Hn. rewrite Z.lor_spec, (word_high_bits a n Ha Hn), (word_high_bits b n Hb Hn). reflexivity.
Qed.
Lemma is_word_land a b : is_word a -> is_word b -> is_word (Z.land a b).
Proof.
  intros Ha Hb. apply word_from_bits.
  - apply Z.land_nonneg. unfold is_word in *. lia.
  - intros n Hn. rewrite Z.land_spec, (word_high_bits a n Ha Hn). reflexivity.
Qed.
Lemma is_word_lxor a b : is_word a -> is_word b -> is_word (Z.lxor a b).
Proof.
  intros Ha Hb. apply word_from_bits.
  - apply Z.lxor_nonneg. unfold is_word in *. lia.
  - intros n Hn. rewrite Z.lxor_spec, (word_high_bits a n Ha Hn), (word_high_bits b n Hb Hn). reflexivity.
Qed.
Lemma is_word_wnot a : is_word a -> is_word (wnot a).
Proof. unfold is_word, wnot. pose proof MAXW_val. lia. Qed.
Lemma is_word_wneg a : is_word (wneg a).
Proof. apply is_word_mod. Qed.
Lemma is_word_wsub a b : is_word (wsub a b).
Proof. apply is_word_mod. Qed.
Lemma is_word_0' : is_word 0. Proof. unfold is_word. pose proof B_pos. lia. Qed.
Lemma is_word_1 : is_word 1. Proof. unfold is_word. pose proof B_gt1. lia. Qed.
Lemma is_word_MAXW : is_word MAXW. Proof. unfold is_word. pose proof MAXW_val. pose proof B_gt1. lia. Qed.
Lemma is_word_p63 : is_word (2 ^ 63). Proof. unfold is_word. word_facts. lia. Qed.
Lemma is_word_choice b : is_word (choice_of_bool b).
Proof. destruct b; [apply is_word_MAXW | apply is_word_0']. Qed.
Lemma is_word_b2z b : is_word (b2z b).
Proof. destruct b; [apply is_word_1 | apply is_word_0']. Qed.

(* ---- the sign bit of the bit operations ---- *)
Lemma msbb_lor a b : is_word a -> is_word b -> msbb (Z.lor a b) = msbb a || msbb b.
Proof. intros Ha Hb. rewrite <- !testbit63 by auto using is_word_lor. apply Z.lor_spec. Qed.
Lemma msbb_land a b : is_word a -> is_word b -> msbb (Z.land a b) = msbb a && msbb b.
Proof. intros Ha Hb. rewrite <- !testbit63 by auto using is_word_land. apply Z.land_spec. Qed.
Lemma msbb_lxor a b : is_word a -> is_word b -> msbb (Z.lxor a b) = xorb (msbb a) (msbb b).
Proof. intros Ha Hb. rewrite <- !testbit63 by auto using is_word_lxor. apply Z.lxor_spec. Qed.
Lemma msbb_wnot a : is_word a -> msbb (wnot a) = negb (msbb a).
Proof.
  unfold is_word, wnot, msbb. intros H. pose proof MAXW_val. word_facts.
  destruct (Z.leb_spec (2 ^ 63) (MAXW - a)), (Z.leb_spec (2 ^ 63) a); simpl; try reflexivity; lia.
Qed.

(* ---- wrapping negation / subtraction as case distinctions ---- *)
Lemma wneg_val x : is_word x -> wneg x = if x =? 0 then 0 else B - x.
Proof.
  unfold is_word, wneg, wrap. intros H. pose proof B_pos.
  destruct (Z.eqb_spec x 0) as [->|Hnz]; [reflexivity|].
  symmetry. apply (Z.mod_unique_pos _ _ (-1)); lia.
Qed.
Lemma wsub_val x y : is_word x -> is_word y -> wsub x y = if y <=? x then x - y else x - y + B.
Proof.
  unfold is_word, wsub, wrap. intros Hx Hy. pose proof B_pos.
  destruct (Z.leb_spec y x).
  - apply Z.mod_small. lia.
  - symmetry. apply (Z.mod_unique_pos _ _ (-1)); lia.
Qed.

Lemma from_word_lsb_b2z b : from_word_lsb (b2z b) = choice_of_bool b.
Proof. destruct b; reflexivity. Qed.
Lemma wnot_choice b : wnot (choice_of_bool b) = choice_of_bool (negb b).
Proof. destruct b; reflexivity. Qed.

Lemma choice_to_bool_choice b : choice_to_bool (choice_of_bool b) = b.
Proof. destruct b; reflexivity. Qed.

(** ConstChoice::from_word_msb *)
Lemma from_word_msb_spec x : is_word x -> from_word_msb x = choice_of_bool (2 ^ 63 <=? x).
Proof. intros H. unfold from_word_msb. rewrite (msb_div x H). apply from_word_lsb_b2z. Qed.

(** ConstChoice::from_word_nonzero : truthy exactly for the non-zero words *)
Lemma from_word_nonzero_spec x : is_word x -> from_word_nonzero x = choice_of_bool (negb (x =? 0)).
Proof.
  intros H. unfold from_word_nonzero, wor.
  rewrite msb_div by (apply is_word_lor; auto using is_word_wneg).
  rewrite from_word_lsb_b2z. f_equal.
  rewrite msbb_lor by auto using is_word_wneg. rewrite (wneg_val x H).
  unfold is_word in H. word_facts.
  destruct (Z.eqb_spec x 0) as [->|Hnz]; [reflexivity|]. simpl.
  unfold msbb. destruct (Z.leb_spec (2 ^ 63) x), (Z.leb_spec (2 ^ 63) (B - x)); simpl; try reflexivity; lia.
Qed.

(** ConstChoice::from_word_eq *)
Lemma from_word_eq_spec x y : is_word x -> is_word y -> from_word_eq x y = choice_of_bool (x =? y).
Proof.
  intros Hx Hy. unfold from_word_eq, wxor. rewrite from_word_nonzero_spec by auto using is_word_lxor.
  rewrite wnot_choice, negb_involutive. f_equal.
  destruct (Z.eqb_spec x y) as [->|Hne].
  - rewrite Z.lxor_nilpotent. reflexivity.
  - apply Z.eqb_neq. intros E. apply Z.lxor_eq in E. contradiction.
Qed.

(** ConstChoice::from_word_lt (Hacker's Delight 2-12): truthy exactly when x < y as unsigned words *)
Lemma from_word_lt_spec x y : is_word x -> is_word y -> from_word_lt x y = choice_of_bool (x <? y).
Proof.
  intros Hx Hy. unfold from_word_lt, wor, wand.
  assert (Hnx := is_word_wnot x Hx). assert (Hs := is_word_wsub x y).
  rewrite msb_div by (repeat first [apply is_word_lor | apply is_word_land | assumption]).
  rewrite from_word_lsb_b2z. f_equal.
  rewrite msbb_lor, !msbb_land, msbb_lor, msbb_wnot
    by (repeat first [apply is_word_lor | apply is_word_land | assumption]).
  rewrite (wsub_val x y Hx Hy). unfold is_word in Hx, Hy. word_facts. unfold msbb.
  destruct (Z.leb_spec (2 ^ 63) x), (Z.leb_spec (2 ^ 63) y), (Z.ltb_spec x y), (Z.leb_spec y x);
    try lia; simpl; try reflexivity;
    match goal with |- context [?a <=? ?b] => destruct (Z.leb_spec a b) end; simpl; try reflexivity; lia.
Qed.

Lemma from_word_gt_spec x y : is_word x -> is_word y -> from_word_gt x y = choice_of_bool (y <? x).
Proof. intros. unfold from_word_gt. apply from_word_lt_spec; assumption. Qed.

(** ConstChoice::from_word_le *)
Lemma from_word_le_spec x y : is_word x -> is_word y -> from_word_le x y = choice_of_bool (x <=? y).
Proof.
  intros Hx Hy. unfold from_word_le, wor, wand, wxor.
  assert (Hnx := is_word_wnot x Hx). assert (Hs := is_word_wsub y x).
  assert (Hns := is_word_wnot _ Hs). assert (Hxy := is_word_lxor x y Hx Hy).
  rewrite msb_div by (repeat first [apply is_word_lor | apply is_word_land | assumption]).
  rewrite from_word_lsb_b2z. f_equal.
  rewrite msbb_land, !msbb_lor, msbb_lxor, !msbb_wnot
    by (repeat first [apply is_word_lor | apply is_word_land | assumption]).
  rewrite (wsub_val y x Hy Hx). unfold is_word in Hx, Hy. word_facts. unfold msbb.
  destruct (Z.leb_spec (2 ^ 63) x), (Z.leb_spec (2 ^ 63) y), (Z.leb_spec x y);
    try lia; simpl; try reflexivity;
    match goal with |- context [?a <=? ?b] => destruct (Z.leb_spec a b) end; simpl; try reflexivity; lia.
Qed.

(** select_word for any ConstChoice given by a boolean: [select_word_choice] in WordP. *)

(** flipping the sign bit of a word *)
Lemma land_p63_small x : 0 <= x < 2 ^ 63 -> Z.land x (2 ^ 63) = 0.
Proof.
  intros H. apply Z.bits_inj'. intros n Hn. rewrite Z.land_spec, Z.bits_0, Z.pow2_bits_eqb by lia.
  destruct (Z.eqb_spec 63 n) as [<-|]; [|apply andb_false_r].
  rewrite andb_true_r. destruct (Z.eq_dec x 0) as [->|]; [apply Z.bits_0|].
  apply Z.bits_above_log2; [lia|]. apply Z.log2_lt_pow2; lia.
Qed.
Lemma lxor_p63 x : is_word x -> Z.lxor x (2 ^ 63) = if 2 ^ 63 <=? x then x - 2 ^ 63 else x + 2 ^ 63.
Proof.
  unfold is_word. intros H. word_facts. destruct (Z.leb_spec (2 ^ 63) x).
  - assert (E : x = Z.lxor (x - 2 ^ 63) (2 ^ 63)).
    { rewrite <- Z.add_nocarry_lxor by (apply land_p63_small; lia). lia. }
    rewrite E at 1. rewrite Z.lxor_assoc, Z.lxor_nilpotent, Z.lxor_0_r. reflexivity.
  - rewrite <- Z.add_nocarry_lxor by (apply land_p63_small; lia). reflexivity.
Qed.
