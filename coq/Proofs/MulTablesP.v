(** C03 (tables): the model table and the spec table of Model/Mul.v agree on EVERY key (20 of 20), for all
    well-formed argument lists that satisfy the typing side condition of the key, in both profiles.
    [run_tab t k dbg a] is the table lookup of Model/Api.v (Proofs/TotalityP.v).
    The per-shape theorems of Proofs/MulApiP.v ([limb_ops_correct], [uint_mul_ops_correct], [uint_square_ops_correct],
    [boxed_ops_correct], [boxed_square_op_correct]) speak about argument lists of the exact shape [[a]; [b]] / [x; y] /
    [x]; here the argument list is ARBITRARY (any number of arguments of any lengths: the entries decode it with
    [arg i] / [sarg i], a missing argument reads as the empty limb list, surplus arguments are ignored). *)
From CB Require Import Model.Limbs Model.AddSub Model.Mul Proofs.WordP Proofs.LimbsP Proofs.AddSubP
  Proofs.MulBaseP Proofs.MulSqP Proofs.MulKaraP Proofs.MulBoxedP Proofs.MulApiP Proofs.TotalityP Proofs.TotalityMulP.
From Coq Require Import ZArith Lia List String Bool.
Open Scope Z_scope.
Notation length := List.length.

(* ------------------------------------------------------------------ typing side conditions (boolean) *)
Definition btyping := list (string * (list (list Z) -> bool)).
Definition typedb (t : btyping) (k : string) (a : list (list Z)) : bool :=
  match lookup k t with Some P => P a | None => true end.

(* a Limb argument is one word; every other form of this area (Uint<N> * Uint<M>, squares, all boxed forms with any pair
   of precisions) has NO side condition *)
Definition ty_limb2 (a : list (list Z)) : bool := (ln 0 a =? 1)%nat && (ln 1 a =? 1)%nat.

Open Scope string_scope.
Definition mul_tbl_ty : btyping :=
  [("limb.wrapping_mul", ty_limb2); ("limb.saturating_mul", ty_limb2); ("limb.checked_mul", ty_limb2);
   ("limb.mul", ty_limb2)].
Open Scope Z_scope.

Definition tbl_ok (k : string) : Prop :=
  forall dbg a, wf_args a -> typedb mul_tbl_ty k a = true ->
    run_tab ops_mul_spec k dbg a <> Unsupported ->
    run_tab ops_mul_model k dbg a = run_tab ops_mul_spec k dbg a.

Ltac open_typedb H :=
  unfold typedb in H;
  lazy beta iota delta [lookup mul_tbl_ty String.eqb Ascii.eqb Bool.eqb] in H.

Lemma ty_limb2_inv a : ty_limb2 a = true -> arg 0 a = [sarg 0 a] /\ arg 1 a = [sarg 1 a].
Proof.
  unfold ty_limb2, ln. intros H. apply andb_prop in H. destruct H as [H0 H1].
  apply Nat.eqb_eq in H0, H1. split; apply arg_single; assumption.
Qed.

(* ------------------------------------------------------------------ an entry only looks at arg 0 / arg 1 *)
(** [run_tab] on an arbitrary argument list = [op_of] (Proofs/MulApiP.v) on the list of the arguments the entry reads *)
Lemma run_is_op_of t k dbg a : run_tab t k dbg a = op_of t k dbg a.
Proof. unfold run_tab, op_of. destruct (lookup k t); reflexivity. Qed.


(* ------------------------------------------------------------------ Limb forms *)
Lemma tbl_limb k : In k ["limb.wrapping_mul"; "limb.saturating_mul"; "limb.checked_mul"; "limb.mul"]%string -> tbl_ok k.
Proof.
  intros Hin dbg a Hwf Hty _.
  assert (Hty2 : ty_limb2 a = true).
  { cbn [In] in Hin. destruct Hin as [<-|[<-|[<-|[<-|[]]]]]; open_typedb Hty; exact Hty. }
  destruct (ty_limb2_inv a Hty2) as [E0 E1].
  pose proof (sarg_word 0 a Hwf) as W0. pose proof (sarg_word 1 a Hwf) as W1.
  pose proof (limb_ops_correct k dbg (sarg 0 a) (sarg 1 a) W0 W1 Hin) as E.
  assert (Em : run_tab ops_mul_model k dbg a = op_of ops_mul_model k dbg [[sarg 0 a]; [sarg 1 a]]).
  { cbn [In] in Hin. destruct Hin as [<-|[<-|[<-|[<-|[]]]]]; reflexivity. }
  assert (Es : run_tab ops_mul_spec k dbg a = op_of ops_mul_spec k dbg [[sarg 0 a]; [sarg 1 a]]).
  { cbn [In] in Hin. destruct Hin as [<-|[<-|[<-|[<-|[]]]]];
      unfold run_tab, op_of; lazy beta iota delta [lookup ops_mul_spec String.eqb Ascii.eqb Bool.eqb];
      unfold sp_prod, ev; rewrite E0, E1; reflexivity. }
  rewrite Em, Es. exact E.
Qed.

(* ------------------------------------------------------------------ Uint<N> * Uint<M> forms: any pair of widths *)
Lemma tbl_uint_mul_forms k :
  In k ["uint.split_mul"; "uint.widening_mul"; "uint.wrapping_mul"; "uint.checked_mul"; "uint.saturating_mul";
        "uint.mul"]%string -> tbl_ok k.
Proof.
  intros Hin dbg a Hwf _ _.
  pose proof (uint_mul_ops_correct k dbg (arg 0 a) (arg 1 a) (wf_arg 0 a Hwf) (wf_arg 1 a Hwf) Hin) as E.
  assert (Em : run_tab ops_mul_model k dbg a = op_of ops_mul_model k dbg [arg 0 a; arg 1 a]).
  { cbn [In] in Hin. destruct Hin as [<-|[<-|[<-|[<-|[<-|[<-|[]]]]]]]; reflexivity. }
  assert (Es : run_tab ops_mul_spec k dbg a = op_of ops_mul_spec k dbg [arg 0 a; arg 1 a]).
  { cbn [In] in Hin. destruct Hin as [<-|[<-|[<-|[<-|[<-|[<-|[]]]]]]]; reflexivity. }
  rewrite Em, Es. exact E.
Qed.

(* ------------------------------------------------------------------ Uint squares *)
Lemma tbl_uint_square_forms k :
  In k ["uint.square_wide"; "uint.widening_square"; "uint.wrapping_square"; "uint.checked_square";
        "uint.saturating_square"]%string -> tbl_ok k.
Proof.
  intros Hin dbg a Hwf _ _.
  pose proof (uint_square_ops_correct k dbg (arg 0 a) (wf_arg 0 a Hwf) Hin) as E.
  assert (Em : run_tab ops_mul_model k dbg a = op_of ops_mul_model k dbg [arg 0 a]).
  { cbn [In] in Hin. destruct Hin as [<-|[<-|[<-|[<-|[<-|[]]]]]]; reflexivity. }
  assert (Es : run_tab ops_mul_spec k dbg a = op_of ops_mul_spec k dbg [arg 0 a]).
  { cbn [In] in Hin. destruct Hin as [<-|[<-|[<-|[<-|[<-|[]]]]]]; reflexivity. }
  rewrite Em, Es. exact E.
Qed.

(* ------------------------------------------------------------------ BoxedUint forms: any pair of precisions *)
Lemma tbl_boxed_mul_forms k :
  In k ["boxed.mul"; "boxed.wrapping_mul"; "boxed.checked_mul"; "boxed.mul_panicking"]%string -> tbl_ok k.
Proof.
  intros Hin dbg a Hwf _ _.
  pose proof (boxed_ops_correct k dbg (arg 0 a) (arg 1 a) (wf_arg 0 a Hwf) (wf_arg 1 a Hwf) Hin) as E.
  assert (Em : run_tab ops_mul_model k dbg a = op_of ops_mul_model k dbg [arg 0 a; arg 1 a]).
  { cbn [In] in Hin. destruct Hin as [<-|[<-|[<-|[<-|[]]]]]; reflexivity. }
  assert (Es : run_tab ops_mul_spec k dbg a = op_of ops_mul_spec k dbg [arg 0 a; arg 1 a]).
  { cbn [In] in Hin. destruct Hin as [<-|[<-|[<-|[<-|[]]]]]; reflexivity. }
  rewrite Em, Es. exact E.
Qed.

Lemma tbl_boxed_square : tbl_ok "boxed.square".
Proof.
  intros dbg a Hwf _ _.
  pose proof (boxed_square_op_correct dbg (arg 0 a) (wf_arg 0 a Hwf)) as E.
  change (run_tab ops_mul_model "boxed.square" dbg a) with (op_of ops_mul_model "boxed.square" dbg [arg 0 a]).
  change (run_tab ops_mul_spec "boxed.square" dbg a) with (op_of ops_mul_spec "boxed.square" dbg [arg 0 a]).
  exact E.
Qed.

(* ------------------------------------------------------------------ one lemma per key *)
Lemma tbl_limb_wrapping_mul : tbl_ok "limb.wrapping_mul". Proof. apply tbl_limb. cbn; tauto. Qed.
Lemma tbl_limb_saturating_mul : tbl_ok "limb.saturating_mul". Proof. apply tbl_limb. cbn; tauto. Qed.
Lemma tbl_limb_checked_mul : tbl_ok "limb.checked_mul". Proof. apply tbl_limb. cbn; tauto. Qed.
Lemma tbl_limb_mul : tbl_ok "limb.mul". Proof. apply tbl_limb. cbn; tauto. Qed.
Lemma tbl_uint_split_mul : tbl_ok "uint.split_mul". Proof. apply tbl_uint_mul_forms. cbn; tauto. Qed.
Lemma tbl_uint_widening_mul : tbl_ok "uint.widening_mul". Proof. apply tbl_uint_mul_forms. cbn; tauto. Qed.
Lemma tbl_uint_wrapping_mul : tbl_ok "uint.wrapping_mul". Proof. apply tbl_uint_mul_forms. cbn; tauto. Qed.
Lemma tbl_uint_checked_mul : tbl_ok "uint.checked_mul". Proof. apply tbl_uint_mul_forms. cbn; tauto. Qed.
Lemma tbl_uint_saturating_mul : tbl_ok "uint.saturating_mul". Proof. apply tbl_uint_mul_forms. cbn; tauto. Qed.
Lemma tbl_uint_mul : tbl_ok "uint.mul". Proof. apply tbl_uint_mul_forms. cbn; tauto. Qed.
Lemma tbl_uint_square_wide : tbl_ok "uint.square_wide". Proof. apply tbl_uint_square_forms. cbn; tauto. Qed.
Lemma tbl_uint_widening_square : tbl_ok "uint.widening_square". Proof. apply tbl_uint_square_forms. cbn; tauto. Qed.
Lemma tbl_uint_wrapping_square : tbl_ok "uint.wrapping_square". Proof. apply tbl_uint_square_forms. cbn; tauto. Qed.
Lemma tbl_uint_checked_square : tbl_ok "uint.checked_square". Proof. apply tbl_uint_square_forms. cbn; tauto. Qed.
Lemma tbl_uint_saturating_square : tbl_ok "uint.saturating_square". Proof. apply tbl_uint_square_forms. cbn; tauto. Qed.
Lemma tbl_boxed_mul : tbl_ok "boxed.mul". Proof. apply tbl_boxed_mul_forms. cbn; tauto. Qed.
Lemma tbl_boxed_wrapping_mul : tbl_ok "boxed.wrapping_mul". Proof. apply tbl_boxed_mul_forms. cbn; tauto. Qed.
Lemma tbl_boxed_checked_mul : tbl_ok "boxed.checked_mul". Proof. apply tbl_boxed_mul_forms. cbn; tauto. Qed.
Lemma tbl_boxed_mul_panicking : tbl_ok "boxed.mul_panicking". Proof. apply tbl_boxed_mul_forms. cbn; tauto. Qed.

(* ------------------------------------------------------------------ the area theorem *)
Create HintDb c03tbl.
#[export] Hint Resolve tbl_limb_wrapping_mul tbl_limb_saturating_mul tbl_limb_checked_mul tbl_limb_mul
  tbl_uint_split_mul tbl_uint_widening_mul tbl_uint_wrapping_mul tbl_uint_checked_mul tbl_uint_saturating_mul
  tbl_uint_mul tbl_uint_square_wide tbl_uint_widening_square tbl_uint_wrapping_square tbl_uint_checked_square
  tbl_uint_saturating_square tbl_boxed_mul tbl_boxed_wrapping_mul tbl_boxed_checked_mul tbl_boxed_mul_panicking
  tbl_boxed_square : c03tbl.

(** the list of keys IS the key set of the table (in table order) *)
Definition mul_table_keys : list string := map fst ops_mul_model.
Lemma mul_table_keys_spec : map fst ops_mul_spec = mul_table_keys.
Proof. reflexivity. Qed.
Lemma mul_table_keys_count : length mul_table_keys = 20%nat.
Proof. reflexivity. Qed.

Lemma mul_all_keys_ok : forall k, In k mul_table_keys -> tbl_ok k.
Proof.
  intros k Hin. unfold mul_table_keys in Hin. cbn [map fst ops_mul_model In] in Hin.
  repeat (destruct Hin as [<- | Hin]; [solve [eauto with nocore c03tbl] |]); contradiction.
Qed.

Theorem mul_tables_agree : forall k dbg a,
  In k (map fst ops_mul_model) -> wf_args a -> typedb mul_tbl_ty k a = true ->
  run_tab ops_mul_spec k dbg a <> Unsupported ->
  run_tab ops_mul_model k dbg a = run_tab ops_mul_spec k dbg a.
Proof. intros k dbg a Hin. exact (mul_all_keys_ok k Hin dbg a). Qed.

(** the same over the key list of C11 (Proofs/TotalityP.v), which is the same set of 20 keys *)
Lemma mul_keys_in_table : forall k, In k mul_keys -> In k (map fst ops_mul_model).
Proof. apply sublist_In. vm_compute. reflexivity. Qed.
Lemma table_in_mul_keys : forall k, In k (map fst ops_mul_model) -> In k mul_keys.
Proof. apply sublist_In. vm_compute. reflexivity. Qed.

Theorem mul_tables_agree_c11_keys : forall k dbg a,
  In k mul_keys -> wf_args a -> typedb mul_tbl_ty k a = true ->
  run_tab ops_mul_spec k dbg a <> Unsupported ->
  run_tab ops_mul_model k dbg a = run_tab ops_mul_spec k dbg a.
Proof. intros k dbg a Hin. apply mul_tables_agree. apply mul_keys_in_table. exact Hin. Qed.

(** no spec entry of this area ever answers Unsupported: the agreement holds on ALL typed, well-formed arguments *)
Theorem mul_spec_always_defined : forall k dbg a,
  In k (map fst ops_mul_model) -> run_tab ops_mul_spec k dbg a <> Unsupported.
Proof.
  intros k dbg a Hin. cbn [map fst ops_mul_model In] in Hin.
  repeat (destruct Hin as [<- | Hin]; [open_tabs ops_mul_model ops_mul_spec; nu |]); contradiction.
Qed.

(** hence: unconditional agreement on the typed, well-formed domain *)
Theorem mul_tables_agree_total : forall k dbg a,
  In k (map fst ops_mul_model) -> wf_args a -> typedb mul_tbl_ty k a = true ->
  run_tab ops_mul_model k dbg a = run_tab ops_mul_spec k dbg a.
Proof. intros k dbg a Hin Hwf Hty. apply mul_tables_agree; auto. apply mul_spec_always_defined. exact Hin. Qed.

(** the one typing side condition is needed (a two-limb "Limb": the model reads the first word, the spec the value) *)
Lemma mul_typing_needed :
  run_tab ops_mul_model "limb.checked_mul" false [[0; 1]; [1]] <> run_tab ops_mul_spec "limb.checked_mul" false [[0; 1]; [1]] /\
  run_tab ops_mul_model "limb.mul" false [[1]; [0; 1]] <> run_tab ops_mul_spec "limb.mul" false [[1]; [0; 1]].
Proof. repeat split; vm_compute; discriminate. Qed.

Lemma mul_key_set :
  map fst ops_mul_spec = map fst ops_mul_model /\ length (map fst ops_mul_model) = 20%nat /\
  (forall k, In k mul_keys <-> In k (map fst ops_mul_model)).
Proof.
  split; [exact mul_table_keys_spec|]. split; [exact mul_table_keys_count|].
  intros k. split; [apply mul_keys_in_table | apply table_in_mul_keys].
Qed.
