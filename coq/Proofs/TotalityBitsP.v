(** C11, area bits (Model/Bits.v, owner C05): the panics of the model are the `expect` on the option of the shift
    (shift >= BITS), the u32 conversion of the operator forms, the inner `expect`s of the constant-time ladder (which
    never fire: the ladder only shifts by 2^i < BITS), `limbs.len() - 1` of bits_vartime and the slice index of
    set_bit_vartime. *)
From CB Require Import Model.Limbs Model.AddSub Model.Bits Proofs.WordP Proofs.WordPredP Proofs.LimbsP Proofs.AddSubP
  Proofs.BitsWordP Proofs.ShiftP Proofs.LadderP Proofs.BitQueryP Proofs.IntShiftP Proofs.WideP Proofs.BitsAllP
  Proofs.TotalityP.
From Coq Require Import ZArith Lia List String Bool.
Open Scope Z_scope.
Notation length := List.length.

Lemma bits_cover : covers bits_keys ops_bits_model = true.
Proof. vm_compute. reflexivity. Qed.
Lemma bits_quiet : quiet_keys_ok ops_bits_model ops_bits_spec bits_quiet_keys.
Proof. unfold bits_quiet_keys. quiet_tac ops_bits_model ops_bits_spec. Qed.

Local Ltac start := start_key ops_bits_model ops_bits_spec bits_ty.

(* the documented domain of the spec: at least one limb *)
Lemma nonempty_dom a o : nonempty a o <> Unsupported -> arg 0 a <> [] /\ nonempty a o = o.
Proof.
  unfold nonempty, Bits.ln. destruct (arg 0 a) as [|x l]; cbn [length Nat.eqb].
  - intros H. contradiction H. reflexivity.
  - intros _. split; [discriminate | reflexivity].
Qed.
Lemma sp_shift_panic_iff n s r : sp_shift_panic n s r = PanicV <-> (s <? bitsn n) = false.
Proof. unfold sp_shift_panic, Bits.sp_val. destruct (s <? bitsn n); split; intros H; try discriminate; reflexivity. Qed.
Lemma sp_shift_opt_np n s r : sp_shift_opt n s r <> PanicV.
Proof. unfold sp_shift_opt, Bits.sp_val. destruct (s <? bitsn n); discriminate. Qed.
Lemma sp_shift_wrap_np n s r f : sp_shift_wrap n s r f <> PanicV.
Proof. unfold sp_shift_wrap, Bits.sp_val. destruct (s <? bitsn n); discriminate. Qed.
Lemma sp_shift_pair_np n s r : sp_shift_pair n s r <> PanicV.
Proof. unfold sp_shift_pair. destruct (s <? bitsn n); discriminate. Qed.
Lemma if_val_none_np (b : bool) v : (if b then Val v else NoneV) <> PanicV.
Proof. destruct b; discriminate. Qed.
Lemma if_val_panic_iff (b : bool) v : (if b then Val v else PanicV) = PanicV <-> b = false.
Proof. destruct b; split; intros H; try discriminate; reflexivity. Qed.

(* ---- Limb << >> ---- *)
Lemma key_limb_shl : key_ok ops_bits_model ops_bits_spec bits_ty "limb.shl".
Proof.
  start. destruct limb_all as (H & _). pose proof (sarg_word 0 a Hwf) as H0. pose proof (sarg_word 1 a Hwf) as [H1 _].
  rewrite (H true dbg _ _ H0 H1). unfold Bits.sp_val. destruct (sarg 1 a <? 64); [split; discriminate | tauto].
Qed.
Lemma key_limb_shr : key_ok ops_bits_model ops_bits_spec bits_ty "limb.shr".
Proof.
  start. destruct limb_all as (H & _). pose proof (sarg_word 0 a Hwf) as H0. pose proof (sarg_word 1 a Hwf) as [H1 _].
  rewrite (H false dbg _ _ H0 H1). unfold Bits.sp_val. destruct (sarg 1 a <? 64); [split; discriminate | tauto].
Qed.

(* ---- Uint shifts: the six forms of Proofs/LadderP.v ---- *)
Section UintShift.
Variables (a : list (list Z)).
Hypothesis Hwf : wf_args a.
Hypothesis Hne : arg 0 a <> [].
Hypothesis Hb : 64 * Z.of_nat (length (arg 0 a)) < 2 ^ 32.
Let x := arg 0 a.
Let s := sarg 1 a.
Lemma s_nonneg : 0 <= s. Proof. apply (sarg_word 1 a Hwf). Qed.

Lemma guard_shl_panic_iff (o : outcome) r : (0 <= s < U32 -> (o = PanicV <-> (s <? bitsn (length x)) = false)) ->
  (guard_u32 s o = PanicV <-> sp_shift_panic (length x) s r = PanicV).
Proof.
  intros H. rewrite sp_shift_panic_iff. unfold guard_u32, fits_u32. pose proof s_nonneg as Hs.
  destruct (Z.ltb_spec s U32) as [Hlt|Hge].
  - replace (0 <=? s) with true by (symmetry; apply Z.leb_le; assumption). cbn [andb]. apply H. lia.
  - replace (0 <=? s) with true by (symmetry; apply Z.leb_le; assumption). cbn [andb].
    split; [intros _|reflexivity]. apply Z.ltb_ge. unfold bitsn, U32 in *. fold x in Hb. lia.
Qed.
End UintShift.

Local Ltac dom := match goal with Hdom : nonempty _ _ <> Unsupported |- _ =>
  let Hne := fresh "Hne" in let Hd := fresh "Hd" in apply nonempty_dom in Hdom; destruct Hdom as [Hne Hd]; rewrite Hd; clear Hd end.
Local Ltac both_never l1 l2 :=
  split; intros HP; exfalso; [ eapply l1; exact HP | eapply l2; exact HP ].

Lemma forms_shl a : wf_args a -> arg 0 a <> [] -> shift_u32 a ->
  let x := arg 0 a in let s := sarg 1 a in
  let spec := to_limbs (length x) ((eval x * 2 ^ s) mod Bn (length x)) in
  let inr := s <? 64 * Z.of_nat (length x) in
  out_ctopt (uint_overflowing_shl x s) = (if inr then Val [spec] else NoneV) /\
  out_ctopt (Some (uint_overflowing_shl_vartime x s)) = (if inr then Val [spec] else NoneV) /\
  out_expect (uint_overflowing_shl x s) = (if inr then Val [spec] else PanicV) /\
  out_expect (Some (uint_overflowing_shl_vartime x s)) = (if inr then Val [spec] else PanicV) /\
  out_unwrap_or (uint_overflowing_shl x s) (zeros (length x)) = Val [if inr then spec else zeros (length x)] /\
  out_unwrap_or (Some (uint_overflowing_shl_vartime x s)) (zeros (length x)) = Val [if inr then spec else zeros (length x)].
Proof.
  intros Hwf Hne [Hb Hs]. apply uint_shl_forms; auto using wf_arg.
  split; [apply (sarg_word 1 a Hwf) | exact Hs].
Qed.
Lemma forms_shr a : wf_args a -> arg 0 a <> [] -> shift_u32 a ->
  let x := arg 0 a in let s := sarg 1 a in
  let spec := to_limbs (length x) (eval x / 2 ^ s) in
  let inr := s <? 64 * Z.of_nat (length x) in
  out_ctopt (uint_overflowing_shr x s) = (if inr then Val [spec] else NoneV) /\
  out_ctopt (Some (uint_overflowing_shr_vartime x s)) = (if inr then Val [spec] else NoneV) /\
  out_expect (uint_overflowing_shr x s) = (if inr then Val [spec] else PanicV) /\
  out_expect (Some (uint_overflowing_shr_vartime x s)) = (if inr then Val [spec] else PanicV) /\
  out_unwrap_or (uint_overflowing_shr x s) (zeros (length x)) = Val [if inr then spec else zeros (length x)] /\
  out_unwrap_or (Some (uint_overflowing_shr_vartime x s)) (zeros (length x)) = Val [if inr then spec else zeros (length x)].
Proof.
  intros Hwf Hne [Hb Hs]. apply uint_shr_forms; auto using wf_arg.
  split; [apply (sarg_word 1 a Hwf) | exact Hs].
Qed.

Lemma key_uint_overflowing_shl : key_ok ops_bits_model ops_bits_spec bits_ty "uint.overflowing_shl".
Proof.
  start. dom. destruct (forms_shl a Hwf Hne Hty) as (F & _). cbv zeta in F. rewrite F.
  both_never if_val_none_np sp_shift_opt_np.
Qed.
Lemma key_uint_wrapping_shl : key_ok ops_bits_model ops_bits_spec bits_ty "uint.wrapping_shl".
Proof.
  start. dom. destruct (forms_shl a Hwf Hne Hty) as (_ & _ & _ & _ & F & _). cbv zeta in F.
  unfold Bits.ln. rewrite F. split; [discriminate | intros HP; exfalso; exact (sp_shift_wrap_np _ _ _ _ HP)].
Qed.
Lemma key_uint_shl_vartime : key_ok ops_bits_model ops_bits_spec bits_ty "uint.shl_vartime".
Proof.
  start. dom. destruct (forms_shl a Hwf Hne Hty) as (_ & _ & _ & F & _). cbv zeta in F. rewrite F.
  rewrite if_val_panic_iff, sp_shift_panic_iff. unfold bitsn, Bits.ln. tauto.
Qed.
Lemma key_uint_shl : key_ok ops_bits_model ops_bits_spec bits_ty "uint.shl".
Proof.
  start. dom. apply guard_shl_panic_iff; auto. intros Hs.
  destruct (forms_shl a Hwf Hne (conj Hty (proj2 Hs))) as (_ & _ & F & _). cbv zeta in F. rewrite F.
  rewrite if_val_panic_iff. unfold bitsn. tauto.
Qed.
Lemma key_uint_overflowing_shr : key_ok ops_bits_model ops_bits_spec bits_ty "uint.overflowing_shr".
Proof.
  start. dom. destruct (forms_shr a Hwf Hne Hty) as (F & _). cbv zeta in F. rewrite F.
  both_never if_val_none_np sp_shift_opt_np.
Qed.
Lemma key_uint_wrapping_shr : key_ok ops_bits_model ops_bits_spec bits_ty "uint.wrapping_shr".
Proof.
  start. dom. destruct (forms_shr a Hwf Hne Hty) as (_ & _ & _ & _ & F & _). cbv zeta in F.
  unfold Bits.ln. rewrite F. split; [discriminate | intros HP; exfalso; exact (sp_shift_wrap_np _ _ _ _ HP)].
Qed.
Lemma key_uint_shr_vartime : key_ok ops_bits_model ops_bits_spec bits_ty "uint.shr_vartime".
Proof.
  start. dom. destruct (forms_shr a Hwf Hne Hty) as (_ & _ & _ & F & _). cbv zeta in F. rewrite F.
  rewrite if_val_panic_iff, sp_shift_panic_iff. unfold bitsn, Bits.ln. tauto.
Qed.
Lemma key_uint_shr : key_ok ops_bits_model ops_bits_spec bits_ty "uint.shr".
Proof.
  start. dom. apply guard_shl_panic_iff; auto. intros Hs.
  destruct (forms_shr a Hwf Hne (conj Hty (proj2 Hs))) as (_ & _ & F & _). cbv zeta in F. rewrite F.
  rewrite if_val_panic_iff. unfold bitsn. tauto.
Qed.

(* ---- double-width shifts: the inner `expect`s never fire ---- *)
Lemma wide_never a : wf_args a -> arg 0 a <> [] -> length (arg 1 a) = length (arg 0 a) ->
  out_wide (uint_shl_vartime_wide (arg 0 a) (arg 1 a) (sarg 2 a)) <> PanicV /\
  out_wide (uint_shr_vartime_wide (arg 0 a) (arg 1 a) (sarg 2 a)) <> PanicV.
Proof.
  intros Hwf Hne Hl. pose proof (sarg_word 2 a Hwf) as [Hs _].
  destruct (Z.lt_ge_cases (sarg 2 a) (2 * bitsZ' (arg 0 a))) as [Hlt|Hge].
  - destruct (uint_shl_vartime_wide_correct _ _ (wf_arg 0 a Hwf) (wf_arg 1 a Hwf) Hl Hne (sarg 2 a) (conj Hs Hlt))
      as (l & h & -> & _).
    destruct (uint_shr_vartime_wide_correct _ _ (wf_arg 0 a Hwf) (wf_arg 1 a Hwf) Hl Hne (sarg 2 a) (conj Hs Hlt))
      as (l' & h' & -> & _).
    split; discriminate.
  - destruct (uint_wide_overflow _ _ Hl (sarg 2 a) Hge) as [-> ->]. split; discriminate.
Qed.
Lemma sp_wide_np l a : sp_wide l a <> PanicV.
Proof. unfold sp_wide. cbv zeta. destruct (_ <=? _); discriminate. Qed.
Lemma key_uint_shl_vartime_wide : key_ok ops_bits_model ops_bits_spec bits_ty "uint.shl_vartime_wide".
Proof.
  start. dom. destruct (wide_never a Hwf Hne Hty) as [H1 _].
  split; intros HP; exfalso; [exact (H1 HP) | exact (sp_wide_np _ _ HP)].
Qed.
Lemma key_uint_shr_vartime_wide : key_ok ops_bits_model ops_bits_spec bits_ty "uint.shr_vartime_wide".
Proof.
  start. dom. destruct (wide_never a Hwf Hne Hty) as [_ H1].
  split; intros HP; exfalso; [exact (H1 HP) | exact (sp_wide_np _ _ HP)].
Qed.

(* ---- Int arithmetic right shift ---- *)
Lemma choice_is_some b v : ct_is_some (v, choice_of_bool b) = b.
Proof. unfold ct_is_some. cbn [snd]. apply choice_to_bool_choice. Qed.
Lemma choice_expect b v : ct_expect (v, choice_of_bool b) = if b then Some v else None.
Proof.
  unfold ct_expect. cbn [fst snd]. destruct b; cbn [choice_of_bool].
  - rewrite Z.eqb_refl. reflexivity.
  - replace (0 =? MAXW) with false; [reflexivity|]. symmetry. apply Z.eqb_neq. pose proof MAXW_val. pose proof B_gt1. lia.
Qed.
Lemma int_shr_some a : wf_args a -> arg 0 a <> [] -> shift_u32 a ->
  exists v, int_overflowing_shr (arg 0 a) (sarg 1 a) = Some (v, choice_of_bool (sarg 1 a <? bitsn (length (arg 0 a)))).
Proof.
  intros Hwf Hne [Hb Hs].
  destruct (int_overflowing_shr_correct (arg 0 a) (sarg 1 a) (wf_arg 0 a Hwf) Hne Hb
              (conj (proj1 (sarg_word 1 a Hwf)) Hs)) as (v & E & _).
  exists v. exact E.
Qed.
Lemma key_int_overflowing_shr : key_ok ops_bits_model ops_bits_spec bits_ty "int.overflowing_shr".
Proof.
  start. dom. destruct (int_shr_some a Hwf Hne Hty) as (v & ->). unfold out_ctopt. rewrite choice_is_some.
  both_never if_val_none_np sp_shift_opt_np.
Qed.
Lemma key_int_wrapping_shr : key_ok ops_bits_model ops_bits_spec bits_ty "int.wrapping_shr".
Proof.
  start. dom. destruct (int_shr_some a Hwf Hne Hty) as (v & ->). unfold out_unwrap_or.
  split; [discriminate | intros HP; exfalso; exact (sp_shift_wrap_np _ _ _ _ HP)].
Qed.
Lemma key_int_shr : key_ok ops_bits_model ops_bits_spec bits_ty "int.shr".
Proof.
  start. dom. apply guard_shl_panic_iff; auto. intros Hs.
  destruct (int_shr_some a Hwf Hne (conj Hty (proj2 Hs))) as (v & ->). unfold out_expect. rewrite choice_expect.
  destruct (sarg 1 a <? bitsn (length (arg 0 a))); [split; discriminate | tauto].
Qed.
Lemma key_int_shr_vartime : key_ok ops_bits_model ops_bits_spec bits_ty "int.shr_vartime".
Proof.
  start. dom. pose proof (int_shr_vartime_correct (arg 0 a) (sarg 1 a) (wf_arg 0 a Hwf) Hne (proj1 (sarg_word 1 a Hwf))) as H.
  cbv zeta in H. destruct H as (Hc & _).
  destruct (int_overflowing_shr_vartime (arg 0 a) (sarg 1 a)) as [v c]. cbn [snd] in Hc. subst c.
  unfold out_expect. rewrite choice_expect, sp_shift_panic_iff. unfold bitsn, Bits.ln, bitsZ'.
  destruct (sarg 1 a <? 64 * Z.of_nat (length (arg 0 a))); [split; discriminate | tauto].
Qed.

(* ---- BoxedUint shifts ---- *)
Lemma boxed_shift_some a : wf_args a -> arg 0 a <> [] ->
  (exists v, boxed_overflowing_shl (arg 0 a) (sarg 1 a) = Some (v, negb (sarg 1 a <? bitsn (length (arg 0 a))))) /\
  (exists v, boxed_overflowing_shr (arg 0 a) (sarg 1 a) = Some (v, negb (sarg 1 a <? bitsn (length (arg 0 a))))).
Proof.
  intros Hwf Hne. destruct boxed_overflowing_shift_all as [H1 H2].
  destruct (H1 (arg 0 a) (sarg 1 a) (wf_arg 0 a Hwf) Hne (proj1 (sarg_word 1 a Hwf))) as (v & E & _).
  destruct (H2 (arg 0 a) (sarg 1 a) (wf_arg 0 a Hwf) Hne (proj1 (sarg_word 1 a Hwf))) as (v' & E' & _).
  split; [exists v; exact E | exists v'; exact E'].
Qed.
Local Ltac boxed_l := match goal with Hwf : wf_args ?a, Hne : arg 0 ?a <> [] |- _ =>
  destruct (boxed_shift_some a Hwf Hne) as [(v & ->) _] end.
Local Ltac boxed_r := match goal with Hwf : wf_args ?a, Hne : arg 0 ?a <> [] |- _ =>
  destruct (boxed_shift_some a Hwf Hne) as [_ (v & ->)] end.
Lemma key_boxed_overflowing_shl : key_ok ops_bits_model ops_bits_spec bits_ty "boxed.overflowing_shl".
Proof. start. dom. boxed_l. split; [discriminate | intros HP; exfalso; exact (sp_shift_pair_np _ _ _ HP)]. Qed.
Lemma key_boxed_overflowing_shr : key_ok ops_bits_model ops_bits_spec bits_ty "boxed.overflowing_shr".
Proof. start. dom. boxed_r. split; [discriminate | intros HP; exfalso; exact (sp_shift_pair_np _ _ _ HP)]. Qed.
Lemma key_boxed_wrapping_shl : key_ok ops_bits_model ops_bits_spec bits_ty "boxed.wrapping_shl".
Proof. start. dom. boxed_l. split; [discriminate | intros HP; exfalso; exact (sp_shift_wrap_np _ _ _ _ HP)]. Qed.
Lemma key_boxed_wrapping_shr : key_ok ops_bits_model ops_bits_spec bits_ty "boxed.wrapping_shr".
Proof. start. dom. boxed_r. split; [discriminate | intros HP; exfalso; exact (sp_shift_wrap_np _ _ _ _ HP)]. Qed.
Lemma key_boxed_overflowing_shl_opt : key_ok ops_bits_model ops_bits_spec bits_ty "boxed.overflowing_shl_opt".
Proof.
  start. dom. boxed_l. unfold out_boxed_opt.
  split; intros HP; exfalso; [destruct (negb _); discriminate | exact (sp_shift_opt_np _ _ _ HP)].
Qed.
Lemma key_boxed_overflowing_shr_opt : key_ok ops_bits_model ops_bits_spec bits_ty "boxed.overflowing_shr_opt".
Proof.
  start. dom. boxed_r. unfold out_boxed_opt.
  split; intros HP; exfalso; [destruct (negb _); discriminate | exact (sp_shift_opt_np _ _ _ HP)].
Qed.
Lemma key_boxed_shl : key_ok ops_bits_model ops_bits_spec bits_ty "boxed.shl".
Proof.
  start. dom. apply guard_shl_panic_iff; auto. intros Hs. boxed_l. unfold out_boxed_panic.
  destruct (sarg 1 a <? bitsn (length (arg 0 a))); cbn [negb]; [split; discriminate | tauto].
Qed.
Lemma key_boxed_shr : key_ok ops_bits_model ops_bits_spec bits_ty "boxed.shr".
Proof.
  start. dom. apply guard_shl_panic_iff; auto. intros Hs. boxed_r. unfold out_boxed_panic.
  destruct (sarg 1 a <? bitsn (length (arg 0 a))); cbn [negb]; [split; discriminate | tauto].
Qed.

(* ---- bit queries ---- *)
Lemma key_bits_bits_vartime : key_ok ops_bits_model ops_bits_spec bits_ty "bits.bits_vartime".
Proof.
  start. dom. destruct bit_length_all as (_ & H & _). rewrite (H _ (wf_arg 0 a Hwf) Hne). split; discriminate.
Qed.
Lemma key_bits_leading_zeros_vartime : key_ok ops_bits_model ops_bits_spec bits_ty "bits.leading_zeros_vartime".
Proof.
  start. dom. destruct bit_length_all as (_ & H & _). rewrite (H _ (wf_arg 0 a Hwf) Hne). split; discriminate.
Qed.
Lemma key_bits_set_bit_vartime : key_ok ops_bits_model ops_bits_spec bits_ty "bits.set_bit_vartime".
Proof.
  start. destruct set_bit_all as (_ & _ & H & _). pose proof (sarg_word 1 a Hwf) as [Hs _].
  specialize (H (arg 0 a) (sarg 1 a) (negb (sarg 2 a =? 0)) (wf_arg 0 a Hwf) Hs).
  unfold sp_set_bit, in_range, bitsn, Bits.ln, Bits.sp_val.
  replace (0 <=? sarg 1 a) with true by (symmetry; apply Z.leb_le; assumption). cbn [andb].
  destruct (sarg 1 a <? 64 * Z.of_nat (length (arg 0 a))).
  - destruct H as (r & -> & _). split; discriminate.
  - rewrite H. cbn. tauto.
Qed.

#[export] Hint Resolve key_limb_shl key_limb_shr key_uint_overflowing_shl key_uint_wrapping_shl key_uint_shl_vartime
  key_uint_shl key_uint_overflowing_shr key_uint_wrapping_shr key_uint_shr_vartime key_uint_shr
  key_uint_shl_vartime_wide key_uint_shr_vartime_wide key_int_overflowing_shr key_int_wrapping_shr key_int_shr
  key_int_shr_vartime key_boxed_overflowing_shl key_boxed_overflowing_shr key_boxed_wrapping_shl
  key_boxed_wrapping_shr key_boxed_overflowing_shl_opt key_boxed_overflowing_shr_opt key_boxed_shl key_boxed_shr
  key_bits_bits_vartime key_bits_leading_zeros_vartime key_bits_set_bit_vartime : c11keys.

Theorem bits_panics_iff_documented : panics_iff_documented ops_bits_model ops_bits_spec bits_keys bits_ty.
Proof. apply panics_from_parts; [exact bits_quiet | unfold bits_panic_keys; by_keys]. Qed.

(** the option / flag returning shifts never panic: the variable-time forms and Limb::wrapping_* for ANY argument list;
    the constant-time ladder forms for word limbs, at least one limb, BITS and shift below 2^32 (what u32 enforces) *)
Theorem bits_total_forms_never_panic : total_forms_never_panic ops_bits_model bits_total_keys bits_total_ty.
Proof.
  intros k dbg a Hin Hty. cbn [In bits_total_keys] in Hin.
  repeat (destruct Hin as [<- | Hin];
    [ first
      [ refine (proj1 (bits_quiet _ dbg a _)); apply mem_str_In; vm_compute; reflexivity
      | open_typed bits_total_ty Hty;
        first [ destruct Hty as (Hwf & Hne & Hty) | destruct Hty as (Hwf & Hne); pose proof I as Hty ];
        match goal with |- run_tab _ ?k _ _ <> _ =>
          apply (total_via _ _ _ _ k dbg a bits_panics_iff_documented);
          [ apply mem_str_In; vm_compute; reflexivity | exact Hwf | exact Hty
          | open_tabs ops_bits_model ops_bits_spec; unfold nonempty, Bits.ln;
            destruct (arg 0 a); [contradiction Hne; reflexivity|]; cbn [length Nat.eqb]; nu
          | open_tabs ops_bits_model ops_bits_spec; np ] end ] |]).
  contradiction.
Qed.
