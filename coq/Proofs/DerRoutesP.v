(** C18 proofs, part 3: the other DER entry points (TryFrom<AnyRef>, AnyRef::new + TryFrom, TryFrom<UintRef>,
    DecodeValue::decode_value) accept exactly what Decode::from_der accepts. *)
From CB Require Import Model.Limbs Model.Conv Model.Der Proofs.WordP Proofs.LimbsP Proofs.ConvDigitsP Proofs.ConvBytesP
  Proofs.DerSpecP Proofs.DerCodecP.
From Coq Require Import ZArith Lia List Bool.
Import ListNotations.
Open Scope Z_scope.
Open Scope list_scope.

(* ---------------------------------------------------------------- AnyRef *)
Lemma anyref_decode_uintref_run c : wfd 256 c -> der_canonb c = true -> lenZ c <= LEN_MAX ->
  anyref_decode_uintref (TAG_INTEGER, c) = Ok (unpad c).
Proof.
  intros Hw Hc Hl. unfold anyref_decode_uintref. rewrite Z.eqb_refl. rewrite reader_new_ok by assumption. cbn [bind].
  rewrite <- (app_nil_r c) at 1. rewrite uintref_decode_value_complete by assumption. cbn [bind fst snd]. reflexivity.
Qed.
Lemma anyref_decode_uintref_ok t c u : wfd 256 c -> anyref_decode_uintref (t, c) = Ok u ->
  t = TAG_INTEGER /\ der_canonb c = true /\ u = unpad c /\ lenZ c <= LEN_MAX.
Proof.
  intros Hw H. unfold anyref_decode_uintref in H. destruct (Z.eqb_spec t TAG_INTEGER) as [->|]; [|discriminate].
  inv_bind H. apply reader_new_inv in Ha. destruct Ha as [Hl ->].
  inv_bind H. destruct a as [u' r']. cbn [fst snd] in H. apply finish_ok in H. destruct H as [Hr ->].
  apply uintref_decode_value_ok in Ha; [|assumption|pose proof (lenZ_nonneg c); lia].
  destruct Ha as (c' & E & Lc & Hwc & Hcc & -> & _). rewrite Hr, app_nil_r in E. subst c'. auto.
Qed.
Lemma anyref_decode_uintref_nopn any : anyref_decode_uintref any <> Pn.
Proof.
  destruct any as [t c]. unfold anyref_decode_uintref. destruct (t =? TAG_INTEGER); [|discriminate].
  apply bind_nopn; [apply reader_new_nopn|]. intros r _. apply bind_nopn; [apply uintref_decode_value_nopn|].
  intros; apply finish_nopn.
Qed.
Lemma anyref_from_der_run t k c : tag_try_from t = Ok t -> lenZ c = k -> lenZ (t :: sp_der_length k ++ c) <= LEN_MAX ->
  anyref_from_der (t :: sp_der_length k ++ c) = Ok (t, c).
Proof.
  intros Ht Hk Hl. unfold anyref_from_der. rewrite reader_new_ok by assumption. cbn [bind].
  assert (0 <= k <= LEN_MAX). { rewrite lenZ_cons, lenZ_app in Hl. pose proof (lenZ_nonneg c). pose proof (lenZ_nonneg (sp_der_length k)). lia. }
  rewrite header_decode_complete by assumption. cbn [bind].
  rewrite <- (app_nil_r c) at 1. rewrite <- Hk. rewrite read_slice_app. cbn [bind fst snd]. reflexivity.
Qed.
Lemma anyref_from_der_ok bs t c : wfd 256 bs -> anyref_from_der bs = Ok (t, c) ->
  bs = t :: sp_der_length (lenZ c) ++ c /\ lenZ bs <= LEN_MAX /\ wfd 256 c.
Proof.
  intros Hw H. unfold anyref_from_der in H. inv_bind H. apply reader_new_inv in Ha. destruct Ha as [Hl ->].
  inv_bind H. destruct a as [[tag len] r1]. apply header_decode_ok in Ha; [|assumption]. destruct Ha as (E & Hk & _ & _).
  inv_bind H. destruct a as [c' r2]. destruct r1 as [rest1 pos1]. apply read_slice_ok in Ha; [|lia]. cbn [fst snd] in *.
  destruct Ha as (E2 & Lc & _). apply finish_ok in H. destruct H as [Hr E3]. apply pair_inj in E3. destruct E3 as [-> ->].
  rewrite Hr, app_nil_r in E2. subst rest1. rewrite Lc. repeat split; try assumption.
  rewrite E in Hw. apply wfd_cons in Hw. destruct Hw as [_ Hw]. apply wfd_app in Hw. tauto.
Qed.
Lemma anyref_from_der_nopn bs : anyref_from_der bs <> Pn.
Proof.
  unfold anyref_from_der. apply bind_nopn; [apply reader_new_nopn|]. intros r _.
  apply bind_nopn; [apply header_decode_nopn|]. intros [[t l] r1] _.
  apply bind_nopn; [apply read_slice_nopn|]. intros; apply finish_nopn.
Qed.

Theorem der_from_any_run fx n x : 0 <= x -> lenZ (sp_der_encode x) <= LEN_MAX ->
  der_from_any fx n (sp_der_encode x) = uint_try_from_uintref fx n (mag0 x).
Proof.
  intros Hx Hl. destruct (content_canon x Hx) as (Hwc & Hcc & Hbc & Hlc). pose proof (content_len_le_encode x Hx).
  unfold der_from_any. unfold sp_der_encode, sp_der_header in *. cbn [app] in *.
  rewrite anyref_from_der_run by (apply tag_integer || assumption). cbn [bind].
  rewrite anyref_decode_uintref_run by (assumption || lia). cbn [bind].
  destruct (unpad_spec _ Hwc Hcc) as (_ & _ & ->). rewrite Hbc. reflexivity.
Qed.
Theorem der_from_any_ok fx n bs v : wfd 256 bs -> der_from_any fx n bs = Ok v ->
  exists x, 0 <= x /\ bs = sp_der_encode x /\ lenZ bs <= LEN_MAX /\ uint_try_from_uintref fx n (mag0 x) = Ok v.
Proof.
  intros Hw H. unfold der_from_any in H. inv_bind H. destruct a as [t c].
  apply anyref_from_der_ok in Ha; [|assumption]. destruct Ha as (E & Hl & Hwc).
  inv_bind H. apply anyref_decode_uintref_ok in Ha; [|assumption]. destruct Ha as (-> & Hcc & -> & _).
  destruct (unpad_spec c Hwc Hcc) as (_ & _ & Eu). rewrite Eu in H.
  exists (bev c). assert (0 <= bev c) by (apply bev_bounds; assumption). repeat split; try assumption.
  rewrite E. unfold sp_der_encode, sp_der_header. rewrite content_len_canon, canon_unique by assumption. reflexivity.
Qed.
Theorem der_from_any_nopn n bs : der_from_any true n bs <> Pn.
Proof.
  unfold der_from_any. apply bind_nopn; [apply anyref_from_der_nopn|]. intros any _.
  apply bind_nopn; [apply anyref_decode_uintref_nopn|]. intros; apply try_from_nopn.
Qed.

(* ---------------------------------------------------------------- AnyRef::new(tag, content) *)
Theorem der_from_any_parts_run fx n c : wfd 256 c -> der_canonb c = true -> lenZ c <= LEN_MAX ->
  der_from_any_parts fx n TAG_INTEGER c = uint_try_from_uintref fx n (mag0 (bev c)).
Proof.
  intros Hw Hc Hl. unfold der_from_any_parts. change (tag_try_from TAG_INTEGER) with (@Ok Z 2). cbn [bind].
  rewrite ltb_false by lia. change 2 with TAG_INTEGER. rewrite anyref_decode_uintref_run by assumption. cbn [bind].
  destruct (unpad_spec c Hw Hc) as (_ & _ & ->). reflexivity.
Qed.
Theorem der_from_any_parts_ok fx n tb c v : wfd 256 c -> der_from_any_parts fx n tb c = Ok v ->
  tb = TAG_INTEGER /\ der_canonb c = true /\ lenZ c <= LEN_MAX /\ uint_try_from_uintref fx n (mag0 (bev c)) = Ok v.
Proof.
  intros Hw H. unfold der_from_any_parts in H. inv_bind H. apply tag_try_from_ok in Ha. subst a.
  destruct (Z.ltb_spec LEN_MAX (lenZ c)); [discriminate|]. inv_bind H.
  apply anyref_decode_uintref_ok in Ha; [|assumption]. destruct Ha as (-> & Hcc & -> & _).
  destruct (unpad_spec c Hw Hcc) as (_ & _ & Eu). rewrite Eu in H. auto.
Qed.
Theorem der_from_any_parts_nopn n tb c : der_from_any_parts true n tb c <> Pn.
Proof.
  unfold der_from_any_parts. apply bind_nopn; [apply tag_try_from_nopn|]. intros t _.
  destruct (LEN_MAX <? lenZ c); [discriminate|].
  apply bind_nopn; [apply anyref_decode_uintref_nopn|]. intros; apply try_from_nopn.
Qed.

(* ---------------------------------------------------------------- UintRef::new(octets) *)
Lemma strip0_general bs : wfd 256 bs -> bs <> [] -> strip_leading_zeroes bs = mag0 (bev bs).
Proof.
  intros Hw Hn. rewrite strip_leading_zeroes_spec, strip_all_minimal by assumption.
  assert (Hx : 0 <= bev bs) by (apply bev_bounds; assumption). unfold mag0.
  destruct (Z.eqb_spec (bev bs) 0) as [E|N].
  - rewrite E, sp_octets_0, sp_be_0. destruct bs; [contradiction | reflexivity].
  - pose proof (bev_minimal (bev bs) Hx) as Hb. destruct (sp_be (sp_octets (bev bs)) (bev bs)); [rewrite bev_nil in Hb; lia | reflexivity].
Qed.
Lemma length_strip0_le bs : (length (strip_leading_zeroes bs) <= length bs)%nat.
Proof.
  induction bs as [|b r IH]; [cbn; lia|]. cbn [strip_leading_zeroes]. destruct ((b =? 0) && negb (is_nil r)); cbn [length] in *; lia.
Qed.
Theorem der_from_uintref_spec fx n bs : wfd 256 bs -> lenZ bs <= LEN_MAX -> bs <> [] ->
  der_from_uintref fx n bs = uint_try_from_uintref fx n (mag0 (bev bs)).
Proof.
  intros Hw Hl Hn. unfold der_from_uintref, uintref_new. pose proof (length_strip0_le bs). rewrite ltb_false by (unfold lenZ in *; lia).
  cbn [bind]. rewrite strip0_general by assumption. reflexivity.
Qed.
Theorem der_from_uintref_nil fx n : der_from_uintref fx n [] = Ok (to_limbs n 0).
Proof.
  unfold der_from_uintref. change (uintref_new []) with (@Ok (list Z) []). cbn [bind].
  destruct (try_from_fits fx n [] (wfd_nil 256) ltac:(cbn [length]; lia)) as [E _]. rewrite E, bev_nil. reflexivity.
Qed.
Theorem der_from_uintref_nopn n bs : der_from_uintref true n bs <> Pn.
Proof. unfold der_from_uintref. apply bind_nopn; [unfold uintref_new; destruct (LEN_MAX <? _); discriminate | intros; apply try_from_nopn]. Qed.

(* ---------------------------------------------------------------- DecodeValue::decode_value *)
Theorem der_decode_value_run fx n c rest : wfd 256 c -> der_canonb c = true -> lenZ (c ++ rest) <= LEN_MAX ->
  der_decode_value fx n (lenZ c) (c ++ rest) =
  bind (uint_try_from_uintref fx n (mag0 (bev c))) (fun v => Ok (v, lenZ rest)).
Proof.
  intros Hw Hc Hl. unfold der_decode_value. rewrite lenZ_app in Hl. pose proof (lenZ_nonneg rest). pose proof (lenZ_nonneg c).
  rewrite ltb_false by lia. rewrite reader_new_ok by (rewrite lenZ_app; lia). cbn [bind]. unfold uint_decode_value.
  rewrite uintref_decode_value_complete by (assumption || lia). cbn [bind fst snd].
  destruct (unpad_spec c Hw Hc) as (_ & _ & ->). destruct (uint_try_from_uintref fx n (mag0 (bev c))); reflexivity.
Qed.
Theorem der_decode_value_ok fx n hlen bs v rem : wfd 256 bs -> 0 <= hlen ->
  der_decode_value fx n hlen bs = Ok (v, rem) ->
  exists c rest, bs = c ++ rest /\ lenZ c = hlen /\ wfd 256 c /\ der_canonb c = true /\ rem = lenZ rest /\
                 uint_try_from_uintref fx n (mag0 (bev c)) = Ok v.
Proof.
  intros Hw Hh H. unfold der_decode_value in H. destruct (Z.ltb_spec LEN_MAX hlen); [discriminate|].
  inv_bind H. apply reader_new_inv in Ha. destruct Ha as [Hl ->].
  inv_bind H. destruct a as [v' r']. cbn [fst snd] in H. apply ok_inj, pair_inj in H. destruct H as [-> <-].
  unfold uint_decode_value in Ha. inv_bind Ha. destruct a as [u r3].
  apply uintref_decode_value_ok in Ha0; [|assumption|lia]. destruct Ha0 as (c & E & Lc & Hwc & Hcc & -> & _).
  inv_bind Ha. apply ok_inj, pair_inj in Ha. destruct Ha as [<- <-]. cbn [fst snd] in *.
  destruct (unpad_spec c Hwc Hcc) as (_ & _ & Eu). rewrite Eu in Ha0.
  exists c, (fst r3). repeat split; assumption.
Qed.
Theorem der_decode_value_nopn n hlen bs : der_decode_value true n hlen bs <> Pn.
Proof.
  unfold der_decode_value. destruct (LEN_MAX <? hlen); [discriminate|].
  apply bind_nopn; [apply reader_new_nopn|]. intros r _. apply bind_nopn; [|discriminate].
  unfold uint_decode_value. apply bind_nopn; [apply uintref_decode_value_nopn|]. intros p _.
  apply bind_nopn; [apply try_from_nopn | discriminate].
Qed.
