(** C10 proofs, part 6: [fg] and [de] on the unsaturated representation, one [divstep1], and the invariants of the
    divsteps loops (fixed count and run-until-zero) for any number of jumps. *)
From CB Require Import Model.Limbs Model.AddSub Model.SafeGcd Proofs.WordP Proofs.LimbsP Proofs.BitsP
  Proofs.SafeGcdArithP Proofs.SafeGcdJumpP Proofs.SafeGcdUnsatP Proofs.SafeGcdStepP.
From Coq Require Import ZArith Lia List Bool Znumtheory Zdiv Setoid Morphisms.
Open Scope Z_scope.
Global Opaque jump.

Lemma cg_of_eq N a b : a = b -> cg N a b.
Proof. intros ->. reflexivity. Qed.

(* ---- the lowest limb is the value modulo 2^62 ---- *)
Lemma uval_mod_P62 a : wf62 a -> uval a mod P62 = hd 0 a.
Proof.
  destruct a as [|x r]; cbn [uval hd]; intros H; [reflexivity|].
  apply wf62_cons in H. destruct H as [Hx _]. rewrite Z.mul_comm, Z.mod_add by (pfacts; lia). apply Z.mod_small. assumption.
Qed.
Lemma P62_div_M62 L : (0 < L)%nat -> (P62 | M62 L).
Proof. intros H. destruct L; [lia|]. rewrite M62_S. exists (M62 L). ring. Qed.
Lemma sval_cg_P62 a : wf62 a -> (0 < length a)%nat -> cg P62 (sval a) (hd 0 a).
Proof.
  intros H HL. pose proof (sval_cg a) as C.
  apply (cg_weaken _ P62) in C; [| pose proof (M62_pos (length a)); lia | pfacts; lia | apply P62_div_M62; assumption].
  rewrite C. apply cg_iff. rewrite uval_mod_P62 by assumption.
  symmetry. apply Z.mod_small. destruct a as [|x r]; [cbn in HL; lia|]. apply wf62_cons in H. cbn [hd]. tauto.
Qed.
Lemma sval_mod_P62 a : wf62 a -> (0 < length a)%nat -> sval a mod P62 = hd 0 a.
Proof.
  intros H HL. pose proof (sval_cg_P62 a H HL) as C. apply cg_iff in C. rewrite C.
  apply Z.mod_small. destruct a as [|x r]; [cbn in HL; lia|]. apply wf62_cons in H. cbn [hd]. tauto.
Qed.
Lemma nonempty_len (a : list Z) : (0 < length a)%nat -> a <> [].
Proof. destruct a; [cbn; lia | discriminate]. Qed.

(* ---- linear combinations of unsaturated integers ---- *)
Lemma u_lin2 a b c1 c2 : wf62 a -> wf62 b -> length a = length b -> - P63 < c1 < P63 -> - P63 < c2 < P63 ->
  let r := u_add (u_mul a c1) (u_mul b c2) in
  wf62 r /\ length r = length a /\ cg (M62 (length a)) (uval r) (sval a * c1 + sval b * c2).
Proof.
  intros Ha Hb Hl H1 H2 r.
  destruct (u_mul_spec a c1 Ha H1) as (W1 & L1 & E1).
  destruct (u_mul_spec b c2 Hb H2) as (W2 & L2 & E2).
  destruct (u_add_spec _ _ W1 W2 ltac:(congruence)) as (W & Ln & E).
  fold r in W, Ln, E. rewrite L1 in Ln, E. rewrite <- Hl in E2.
  repeat split; [assumption | assumption |].
  pose proof (sval_cg a) as Ca. pose proof (sval_cg b) as Cb. rewrite <- Hl in Cb.
  rewrite E, E1, E2. rewrite !cg_mod. rewrite Ca, Cb. reflexivity.
Qed.
Lemma u_lin3 a b c c1 c2 c3 : wf62 a -> wf62 b -> wf62 c -> length a = length b -> length a = length c ->
  - P63 < c1 < P63 -> - P63 < c2 < P63 -> - P63 < c3 < P63 ->
  let r := u_add (u_add (u_mul a c1) (u_mul b c2)) (u_mul c c3) in
  wf62 r /\ length r = length a /\ cg (M62 (length a)) (uval r) (sval a * c1 + sval b * c2 + sval c * c3).
Proof.
  intros Ha Hb Hc Hl Hl2 H1 H2 H3 r.
  destruct (u_lin2 a b c1 c2 Ha Hb Hl H1 H2) as (W12 & L12 & C12). cbv zeta in W12, L12, C12.
  destruct (u_mul_spec c c3 Hc H3) as (W3 & L3 & E3).
  destruct (u_add_spec _ _ W12 W3 ltac:(congruence)) as (W & Ln & E).
  fold r in W, Ln, E. rewrite L12 in Ln, E. rewrite <- Hl2 in E3.
  repeat split; [assumption | assumption |].
  pose proof (sval_cg c) as Cc. rewrite <- Hl2 in Cc.
  rewrite E, E3. rewrite !cg_mod. rewrite C12, Cc. reflexivity.
Qed.

Lemma shr_exact r X : wf62 r -> (0 < length r)%nat -> cg (M62 (length r)) (uval r) (P62 * X) ->
  - M62 (length r) <= 2 * (P62 * X) < M62 (length r) ->
  wf62 (u_shr r) /\ length (u_shr r) = length r /\ sval (u_shr r) = X.
Proof.
  intros W HL C R. destruct (u_shr_spec r W HL) as (W' & L' & E').
  repeat split; [assumption | assumption |].
  rewrite E', (sval_unique r (P62 * X) W C R). rewrite Z.mul_comm. apply Z.div_mul. pfacts. lia.
Qed.

(* ---- fg ---- *)
Lemma abs_sum_bound ta tb : Z.abs ta + Z.abs tb <= P62 -> - P63 < ta < P63 /\ - P63 < tb < P63.
Proof. intros H. pfacts. lia. Qed.

Lemma fg_spec f g t00 t01 t10 t11 F' G' : wf62 f -> wf62 g -> length f = length g -> (0 < length f)%nat ->
  Z.abs t00 + Z.abs t01 <= P62 -> Z.abs t10 + Z.abs t11 <= P62 ->
  t00 * sval f + t01 * sval g = P62 * F' -> t10 * sval f + t11 * sval g = P62 * G' ->
  - M62 (length f) <= 2 * (P62 * F') < M62 (length f) -> - M62 (length f) <= 2 * (P62 * G') < M62 (length f) ->
  wf62 (fst (fg f g (t00, t01, t10, t11))) /\ wf62 (snd (fg f g (t00, t01, t10, t11))) /\
  length (fst (fg f g (t00, t01, t10, t11))) = length f /\ length (snd (fg f g (t00, t01, t10, t11))) = length f /\
  sval (fst (fg f g (t00, t01, t10, t11))) = F' /\ sval (snd (fg f g (t00, t01, t10, t11))) = G'.
Proof.
  intros Wf Wg Hl HL R0 R1 E0 E1 B0 B1. cbn [fg fst snd].
  destruct (abs_sum_bound _ _ R0) as [T00 T01]. destruct (abs_sum_bound _ _ R1) as [T10 T11].
  destruct (u_lin2 f g t00 t01 Wf Wg Hl T00 T01) as (W0 & L0 & C0). cbv zeta in W0, L0, C0.
  destruct (u_lin2 f g t10 t11 Wf Wg Hl T10 T11) as (W1 & L1 & C1). cbv zeta in W1, L1, C1.
  assert (C0' : cg (M62 (length f)) (uval (u_add (u_mul f t00) (u_mul g t01))) (P62 * F')).
  { rewrite C0. apply cg_of_eq. rewrite <- E0. ring. }
  assert (C1' : cg (M62 (length f)) (uval (u_add (u_mul f t10) (u_mul g t11))) (P62 * G')).
  { rewrite C1. apply cg_of_eq. rewrite <- E1. ring. }
  destruct (shr_exact _ F' W0) as (X1 & X2 & X3); [rewrite L0; assumption | rewrite L0; assumption | rewrite L0; assumption |].
  destruct (shr_exact _ G' W1) as (Y1 & Y2 & Y3); [rewrite L1; assumption | rewrite L1; assumption | rewrite L1; assumption |].
  repeat split; try assumption; lia.
Qed.

(* ---- de ---- *)
Lemma b01_cases x : 0 <= x <= 1 -> x = 0 \/ x = 1. Proof. lia. Qed.
Lemma de_m_spec inverse ta tb nd ne d0 e0 :
  Z.abs ta + Z.abs tb <= P62 -> 0 <= nd <= 1 -> 0 <= ne <= 1 ->
  let m0 := ta * nd + tb * ne in
  let rr := (inverse * ((ta * d0 + tb * e0) mod P62) + m0) mod P62 in
  de_m inverse ta tb nd ne d0 e0 = m0 - rr /\ 0 <= rr < P62 /\ Z.abs m0 <= P62.
Proof.
  intros R Hnd Hne m0 rr. pfacts.
  assert (Hm0 : Z.abs m0 <= P62).
  { unfold m0. destruct (b01_cases _ Hnd) as [-> | ->]; destruct (b01_cases _ Hne) as [-> | ->]; lia. }
  assert (Hrr : 0 <= rr < P62) by (apply Z.mod_pos_bound; lia).
  split; [|split; assumption].
  unfold de_m. fold m0. rewrite (s64_id m0) by lia. rewrite !land_u64_mask62. fold rr.
  apply s64_id. lia.
Qed.

Lemma de_cong inverse mlo M ta tb D E d0 e0 m0 :
  (mlo * inverse) mod P62 = 1 -> cg P62 M mlo -> cg P62 D d0 -> cg P62 E e0 ->
  cg P62 (ta * D + tb * E + M * (m0 - (inverse * ((ta * d0 + tb * e0) mod P62) + m0) mod P62)) 0.
Proof.
  intros Hinv CM CD CE.
  assert (C1 : cg P62 (mlo * inverse) 1) by (apply cg_iff; rewrite Hinv; reflexivity).
  rewrite !cg_mod. rewrite CM, CD, CE.
  transitivity ((ta * d0 + tb * e0) * (1 - mlo * inverse)); [apply cg_of_eq; ring|].
  rewrite C1. apply cg_of_eq. ring.
Qed.

Section DeRow.
  Context (mL : list Z) (inverse m a A ub : Z).
  Context (WmL : wf62 mL) (HLm : (0 < length mL)%nat) (Em : sval mL = m) (Hm : 0 < m) (Om : Z.odd m = true)
          (Fit : 4 * P62 * m <= M62 (length mL)) (Hinv : (hd 0 mL * inverse) mod P62 = 1)
          (Hub : m - 1 <= ub <= m).

  Lemma de_row ta tb d e F G F' :
    wf62 d -> wf62 e -> length d = length mL -> length e = length mL ->
    Z.abs ta + Z.abs tb <= P62 -> ta * F + tb * G = P62 * F' ->
    - 2 * m < sval d <= ub -> - 2 * m < sval e <= ub ->
    cg m (sval d * a) (F * A) -> cg m (sval e * a) (G * A) ->
    let md := de_m inverse ta tb (b2z (u_is_negative d)) (b2z (u_is_negative e)) (hd 0 d) (hd 0 e) in
    let r := u_shr (u_add (u_add (u_mul d ta) (u_mul e tb)) (u_mul mL md)) in
    wf62 r /\ length r = length mL /\ - 2 * m < sval r <= ub /\ cg m (sval r * a) (F' * A).
  Proof.
    intros Wd We Ld Le R EF RD RE CDa CEa md r. pfacts.
    assert (HLd : (0 < length d)%nat) by lia. assert (HLe : (0 < length e)%nat) by lia.
    set (D := sval d) in *. set (E := sval e) in *.
    set (nd := b2z (u_is_negative d)) in *. set (ne := b2z (u_is_negative e)) in *.
    assert (End : nd = if D <? 0 then 1 else 0).
    { unfold nd, D. rewrite u_is_negative_sval by (try apply nonempty_len; assumption). destruct (sval d <? 0); reflexivity. }
    assert (Ene : ne = if E <? 0 then 1 else 0).
    { unfold ne, E. rewrite u_is_negative_sval by (try apply nonempty_len; assumption). destruct (sval e <? 0); reflexivity. }
    assert (Hnd : 0 <= nd <= 1) by (rewrite End; destruct (D <? 0); lia).
    assert (Hne : 0 <= ne <= 1) by (rewrite Ene; destruct (E <? 0); lia).
    destruct (de_m_spec inverse ta tb nd ne (hd 0 d) (hd 0 e) R Hnd Hne) as (Emd & Hrr & Hm0). cbv zeta in Emd, Hrr, Hm0.
    fold md in Emd.
    set (m0 := ta * nd + tb * ne) in *.
    set (rr := (inverse * ((ta * hd 0 d + tb * hd 0 e) mod P62) + m0) mod P62) in *.
    (* exact divisibility by 2^62 *)
    assert (CX : cg P62 (ta * D + tb * E + m * md) 0).
    { rewrite Emd. unfold rr. apply (de_cong inverse (hd 0 mL)); [assumption | | |].
      - rewrite <- Em. apply sval_cg_P62; assumption.
      - apply sval_cg_P62; assumption.
      - apply sval_cg_P62; assumption. }
    apply cg_divide in CX; [|lia]. rewrite Z.sub_0_r in CX. destruct CX as [D' ED'].
    (* range *)
    set (Dp := D + nd * m). set (Ep := E + ne * m).
    assert (HDp : Z.abs Dp <= ub).
    { unfold Dp. rewrite End. destruct (Z.ltb_spec D 0); lia. }
    assert (HEp : Z.abs Ep <= ub).
    { unfold Ep. rewrite Ene. destruct (Z.ltb_spec E 0); lia. }
    pose proof (abs_lin_s ta tb Dp Ep ub HDp HEp) as AL.
    assert (AL2 : (Z.abs ta + Z.abs tb) * ub <= P62 * ub) by (apply Z.mul_le_mono_nonneg_r; lia).
    assert (EX : ta * D + tb * E + m * md = (ta * Dp + tb * Ep) - rr * m).
    { rewrite Emd. unfold Dp, Ep, m0. ring. }
    assert (Hrm : 0 <= rr * m <= (P62 - 1) * m).
    { split; [apply Z.mul_nonneg_nonneg; lia | apply Z.mul_le_mono_nonneg_r; lia]. }
    assert (Pub : P62 * ub <= P62 * m) by (apply Z.mul_le_mono_nonneg_l; lia).
    assert (XU : D' * P62 <= P62 * ub) by lia.
    assert (XL : - (2 * P62 * m) < D' * P62) by lia.
    assert (RD' : - 2 * m < D' <= ub).
    { split.
      - apply (Z.mul_lt_mono_pos_r P62); lia.
      - apply (Z.mul_le_mono_pos_r _ _ P62); lia. }
    (* the limbs *)
    assert (Hmd : - P63 < md < P63) by lia.
    destruct (abs_sum_bound _ _ R) as [Ta Tb].
    destruct (u_lin3 d e mL ta tb md Wd We WmL ltac:(congruence) ltac:(congruence) Ta Tb Hmd) as (W3 & L3 & C3).
    cbv zeta in W3, L3, C3. fold D E in C3. rewrite Em in C3.
    assert (C3' : cg (M62 (length d)) (uval (u_add (u_add (u_mul d ta) (u_mul e tb)) (u_mul mL md))) (P62 * D')).
    { rewrite C3. apply cg_of_eq. lia. }
    rewrite Ld in C3', L3.
    destruct (shr_exact _ D' W3) as (X1 & X2 & X3); [rewrite L3; assumption | rewrite L3; assumption | rewrite L3; lia |].
    fold r in X1, X2, X3.
    split; [assumption|]. split; [lia|]. rewrite X3. split; [assumption|].
    (* the congruence *)
    apply cg_divide; [lia|]. apply cg_divide in CDa; [|lia]. apply cg_divide in CEa; [|lia].
    apply (gauss_pow2 m 62); [assumption | lia |]. rewrite <- P62_pow.
    replace (P62 * (D' * a - F' * A)) with (ta * (D * a - F * A) + tb * (E * a - G * A) + m * (md * a)).
    - apply Z.divide_add_r; [apply Z.divide_add_r; apply Z.divide_mul_r; assumption | apply Z.divide_factor_l].
    - replace (P62 * (D' * a - F' * A)) with ((D' * P62) * a - (P62 * F') * A) by ring. rewrite <- ED', <- EF. ring.
  Qed.

  Lemma de_spec t00 t01 t10 t11 d e F G F' G' :
    wf62 d -> wf62 e -> length d = length mL -> length e = length mL ->
    Z.abs t00 + Z.abs t01 <= P62 -> Z.abs t10 + Z.abs t11 <= P62 ->
    t00 * F + t01 * G = P62 * F' -> t10 * F + t11 * G = P62 * G' ->
    - 2 * m < sval d <= ub -> - 2 * m < sval e <= ub ->
    cg m (sval d * a) (F * A) -> cg m (sval e * a) (G * A) ->
    let d' := fst (de mL inverse (t00, t01, t10, t11) d e) in
    let e' := snd (de mL inverse (t00, t01, t10, t11) d e) in
    wf62 d' /\ wf62 e' /\ length d' = length mL /\ length e' = length mL /\
    - 2 * m < sval d' <= ub /\ - 2 * m < sval e' <= ub /\
    cg m (sval d' * a) (F' * A) /\ cg m (sval e' * a) (G' * A).
  Proof.
    intros Wd We Ld Le R0 R1 E0 E1 RD RE CD CE. cbn [de fst snd]. cbv zeta.
    destruct (de_row t00 t01 d e F G F' Wd We Ld Le R0 E0 RD RE CD CE) as (A1 & A2 & A3 & A4).
    destruct (de_row t10 t11 d e F G G' Wd We Ld Le R1 E1 RD RE CD CE) as (B1 & B2 & B3 & B4).
    cbv zeta in A1, A2, A3, A4, B1, B2, B3, B4.
    repeat split; try assumption; lia.
  Qed.
End DeRow.

(* ---- one jump on the state ---- *)
Definition FGI (G0 Bd K : Z) (L : nat) (delta : Z) (f g : list Z) : Prop :=
  wf62 f /\ wf62 g /\ length f = L /\ length g = L /\
  Z.abs (sval f) <= Bd /\ Z.abs (sval g) <= Bd /\ Z.gcd (sval f) (sval g) = G0 /\
  PRE (sval f) (sval g) delta /\ Z.abs delta <= K.
Definition DEI (m a A ub : Z) (L : nat) (d e f g : list Z) : Prop :=
  wf62 d /\ wf62 e /\ length d = L /\ length e = L /\
  - 2 * m < sval d <= ub /\ - 2 * m < sval e <= ub /\
  cg m (sval d * a) (sval f * A) /\ cg m (sval e * a) (sval g * A).

Lemma divsteps_loop_S n m i s : divsteps_loop (S n) m i s = divsteps_loop n m i (divstep1 m i s).
Proof. reflexivity. Qed.
Lemma divsteps_vt_S n m i delta d e f g : divsteps_vt_loop (S n) m i (delta, d, e, f, g) =
  if u_is_zero g then Some (delta, d, e, f, g) else divsteps_vt_loop n m i (divstep1 m i (delta, d, e, f, g)).
Proof. reflexivity. Qed.
Lemma divsteps_vt_0 m i delta d e f g : divsteps_vt_loop 0 m i (delta, d, e, f, g) =
  if u_is_zero g then Some (delta, d, e, f, g) else None.
Proof. reflexivity. Qed.

Lemma divstep1_eq mL inv delta d e f g :
  exists delta' t00 t01 t10 t11,
    jump (hd 0 f) (hd 0 g) delta = (delta', (t00, t01, t10, t11)) /\
    divstep1 mL inv (delta, d, e, f, g) =
      (delta', fst (de mL inv (t00, t01, t10, t11) d e), snd (de mL inv (t00, t01, t10, t11) d e),
       fst (fg f g (t00, t01, t10, t11)), snd (fg f g (t00, t01, t10, t11))).
Proof.
  unfold divstep1. destruct (jump (hd 0 f) (hd 0 g) delta) as [delta' [[[t00 t01] t10] t11]].
  exists delta', t00, t01, t10, t11. split; [reflexivity|].
  destruct (fg f g (t00, t01, t10, t11)) as [f' g']. destruct (de mL inv (t00, t01, t10, t11) d e) as [d' e']. reflexivity.
Qed.

Lemma fit_bound Bd M X : 0 <= Bd -> 2 * P62 * Bd < M -> Z.abs X <= Bd -> - M <= 2 * (P62 * X) < M.
Proof.
  intros HB HM HX. pfacts.
  assert (P62 * Z.abs X <= P62 * Bd) by (apply Z.mul_le_mono_nonneg_l; lia).
  assert (Z.abs (P62 * X) = P62 * Z.abs X) by (rewrite Z.abs_mul, (Z.abs_eq P62); lia). lia.
Qed.

Lemma divstep1_fg G0 Bd K L mL inv delta d e f g : (0 < L)%nat -> K + 62 <= P62 -> 2 * P62 * Bd < M62 L ->
  FGI G0 Bd K L delta f g ->
  exists delta' d' e' f' g' t00 t01 t10 t11,
    divstep1 mL inv (delta, d, e, f, g) = (delta', d', e', f', g') /\
    d' = fst (de mL inv (t00, t01, t10, t11) d e) /\ e' = snd (de mL inv (t00, t01, t10, t11) d e) /\
    Z.abs t00 + Z.abs t01 <= P62 /\ Z.abs t10 + Z.abs t11 <= P62 /\
    t00 * sval f + t01 * sval g = P62 * sval f' /\ t10 * sval f + t11 * sval g = P62 * sval g' /\
    FGI G0 Bd (K + 62) L delta' f' g'.
Proof.
  intros HL HK HM (Wf & Wg & Lf & Lg & Bf & Bg & GC & Hpre & Hd).
  destruct (divstep1_eq mL inv delta d e f g) as (delta' & t00 & t01 & t10 & t11 & EJ & ES).
  pose proof (divstep_gcd_inv (sval f) (sval g) delta Bd Hpre ltac:(lia) Bf Bg) as DS.
  rewrite !sval_mod_P62 in DS by (assumption || lia). rewrite EJ in DS.
  destruct DS as (F' & G' & E0 & E1 & R0 & R1 & Ho & BF' & BG' & GC' & Hd').
  assert (HB : 0 <= Bd) by lia.
  destruct (fg_spec f g t00 t01 t10 t11 F' G' Wf Wg ltac:(congruence) ltac:(lia) R0 R1 E0 E1) as (W1 & W2 & L1 & L2 & S1 & S2).
  { rewrite Lf. apply (fit_bound Bd); assumption. }
  { rewrite Lf. apply (fit_bound Bd); assumption. }
  exists delta', (fst (de mL inv (t00, t01, t10, t11) d e)), (snd (de mL inv (t00, t01, t10, t11) d e)),
    (fst (fg f g (t00, t01, t10, t11))), (snd (fg f g (t00, t01, t10, t11))), t00, t01, t10, t11.
  rewrite S1, S2.
  repeat split; try assumption; try lia.
  - rewrite S1, S2, GC'. assumption.
  - rewrite S1, S2. unfold PRE. destruct Ho as [Ho | Ho]; [left; assumption | right; right; assumption].
Qed.

Lemma divsteps_loop_fg G0 Bd L mL inv : (0 < L)%nat -> 2 * P62 * Bd < M62 L ->
  forall n K delta d e f g, K + 62 * Z.of_nat n <= P62 -> FGI G0 Bd K L delta f g ->
  exists delta' d' e' f' g', divsteps_loop n mL inv (delta, d, e, f, g) = (delta', d', e', f', g') /\
    FGI G0 Bd (K + 62 * Z.of_nat n) L delta' f' g'.
Proof.
  intros HL HM. induction n as [|n IH]; intros K delta d e f g HK I.
  - exists delta, d, e, f, g. split; [reflexivity|]. replace (K + 62 * Z.of_nat 0) with K by lia. assumption.
  - rewrite divsteps_loop_S.
    destruct (divstep1_fg G0 Bd K L mL inv delta d e f g HL ltac:(lia) HM I) as (delta1 & d1 & e1 & f1 & g1 & t00 & t01 & t10 & t11 & ES & _ & _ & _ & _ & _ & _ & I1).
    rewrite ES.
    destruct (IH (K + 62) delta1 d1 e1 f1 g1 ltac:(lia) I1) as (delta' & d' & e' & f' & g' & EL & I').
    exists delta', d', e', f', g'. split; [assumption|].
    replace (K + 62 * Z.of_nat (S n)) with (K + 62 + 62 * Z.of_nat n) by lia. assumption.
Qed.

Lemma divsteps_vt_fg G0 Bd L mL inv : (0 < L)%nat -> 2 * P62 * Bd < M62 L ->
  forall n K delta d e f g delta' d' e' f' g', K + 62 * Z.of_nat n <= P62 -> FGI G0 Bd K L delta f g ->
  divsteps_vt_loop n mL inv (delta, d, e, f, g) = Some (delta', d', e', f', g') ->
  FGI G0 Bd (K + 62 * Z.of_nat n) L delta' f' g' /\ u_is_zero g' = true.
Proof.
  intros HL HM. induction n as [|n IH]; intros K delta d e f g delta' d' e' f' g' HK I E.
  - rewrite divsteps_vt_0 in E. destruct (u_is_zero g) eqn:Z0; [|discriminate].
    inversion E; subst. split; [|assumption]. replace (K + 62 * Z.of_nat 0) with K by lia. assumption.
  - rewrite divsteps_vt_S in E. destruct (u_is_zero g) eqn:Z0.
    + inversion E; subst. split; [|assumption].
      destruct I as (I1 & I2 & I3 & I4 & I5 & I6 & I7 & I8 & I9). repeat split; try assumption. lia.
    + destruct (divstep1_fg G0 Bd K L mL inv delta d e f g HL ltac:(lia) HM I) as (delta1 & d1 & e1 & f1 & g1 & t00 & t01 & t10 & t11 & ES & _ & _ & _ & _ & _ & _ & I1).
      rewrite ES in E.
      destruct (IH (K + 62) delta1 d1 e1 f1 g1 delta' d' e' f' g' ltac:(lia) I1 E) as (I' & Z').
      split; [|assumption].
      replace (K + 62 * Z.of_nat (S n)) with (K + 62 + 62 * Z.of_nat n) by lia. assumption.
Qed.

Section DeLoop.
  Context (mL : list Z) (inverse m a A ub : Z) (L : nat).
  Context (WmL : wf62 mL) (LmL : length mL = L) (HL : (0 < L)%nat) (Em : sval mL = m) (Hm : 0 < m) (Om : Z.odd m = true)
          (Fit : 4 * P62 * m <= M62 L) (Hinv : (hd 0 mL * inverse) mod P62 = 1)
          (Hub : m - 1 <= ub <= m).
  Context (G0 Bd : Z) (HM : 2 * P62 * Bd < M62 L).

  Lemma divstep1_de K delta d e f g delta' d' e' f' g' : K + 62 <= P62 ->
    FGI G0 Bd K L delta f g -> DEI m a A ub L d e f g ->
    divstep1 mL inverse (delta, d, e, f, g) = (delta', d', e', f', g') ->
    FGI G0 Bd (K + 62) L delta' f' g' /\ DEI m a A ub L d' e' f' g'.
  Proof.
    intros HK I (Wd & We & Ld & Le & RD & RE & CD & CE) ES.
    destruct (divstep1_fg G0 Bd K L mL inverse delta d e f g HL HK HM I) as (delta1 & d1 & e1 & f1 & g1 & t00 & t01 & t10 & t11 & ES' & Ed & Ee & R0 & R1 & E0 & E1 & I1).
    assert (EQ : (delta', d', e', f', g') = (delta1, d1, e1, f1, g1)) by congruence.
    injection EQ as -> -> -> -> ->. clear ES'.
    split; [assumption|].
    assert (HLm : (0 < length mL)%nat) by lia. rewrite <- LmL in Fit.
    pose proof (de_spec mL inverse m a A ub WmL HLm Em Hm Om Fit Hinv Hub t00 t01 t10 t11 d e (sval f) (sval g) (sval f1) (sval g1)
                  Wd We ltac:(congruence) ltac:(congruence) R0 R1 E0 E1 RD RE CD CE) as DS.
    cbv zeta in DS. rewrite <- Ed, <- Ee in DS. destruct DS as (X1 & X2 & X3 & X4 & X5 & X6 & X7 & X8).
    unfold DEI. repeat split; try assumption; try lia.
  Qed.

  Lemma divsteps_loop_de : forall n K delta d e f g delta' d' e' f' g', K + 62 * Z.of_nat n <= P62 ->
    FGI G0 Bd K L delta f g -> DEI m a A ub L d e f g ->
    divsteps_loop n mL inverse (delta, d, e, f, g) = (delta', d', e', f', g') ->
    FGI G0 Bd (K + 62 * Z.of_nat n) L delta' f' g' /\ DEI m a A ub L d' e' f' g'.
  Proof.
    induction n as [|n IH]; intros K delta d e f g delta' d' e' f' g' HK I J E.
    - cbn [divsteps_loop] in E. inversion E; subst. replace (K + 62 * Z.of_nat 0) with K by lia. split; assumption.
    - rewrite divsteps_loop_S in E.
      destruct (divstep1 mL inverse (delta, d, e, f, g)) as [[[[delta1 d1] e1] f1] g1] eqn:ES.
      destruct (divstep1_de K delta d e f g delta1 d1 e1 f1 g1 ltac:(lia) I J ES) as (I1 & J1).
      destruct (IH (K + 62) delta1 d1 e1 f1 g1 delta' d' e' f' g' ltac:(lia) I1 J1 E) as (I' & J').
      split; [|assumption]. replace (K + 62 * Z.of_nat (S n)) with (K + 62 + 62 * Z.of_nat n) by lia. assumption.
  Qed.

  Lemma divsteps_vt_de : forall n K delta d e f g delta' d' e' f' g', K + 62 * Z.of_nat n <= P62 ->
    FGI G0 Bd K L delta f g -> DEI m a A ub L d e f g ->
    divsteps_vt_loop n mL inverse (delta, d, e, f, g) = Some (delta', d', e', f', g') ->
    DEI m a A ub L d' e' f' g'.
  Proof.
    induction n as [|n IH]; intros K delta d e f g delta' d' e' f' g' HK I J E.
    - rewrite divsteps_vt_0 in E. destruct (u_is_zero g); [|discriminate]. inversion E; subst. assumption.
    - rewrite divsteps_vt_S in E. destruct (u_is_zero g).
      + inversion E; subst. assumption.
      + destruct (divstep1 mL inverse (delta, d, e, f, g)) as [[[[delta1 d1] e1] f1] g1] eqn:ES.
        destruct (divstep1_de K delta d e f g delta1 d1 e1 f1 g1 ltac:(lia) I J ES) as (I1 & J1).
        apply (IH (K + 62) delta1 d1 e1 f1 g1 delta' d' e' f' g' ltac:(lia) I1 J1 E).
  Qed.
End DeLoop.
