(** C19 (tables): the model table and the spec table of Model/Rand.v agree on EVERY key (11 of 11), for all
    well-formed argument lists, in both profiles, wherever the spec entry is defined.  No typing side condition is
    needed in this area: every scalar (limb count, bit length, precision, fallible / mode selector) may be any word.
    [run_tab t k dbg a] is the table lookup of Model/Api.v (Proofs/TotalityP.v). *)
From CB Require Import Model.Limbs Model.AddSub Model.Rand Proofs.WordP Proofs.LimbsP Proofs.RandBaseP Proofs.RandBitsP
  Proofs.RandModP Proofs.RandMiscP Proofs.TotalityP Proofs.TotalityRandP.
From Coq Require Import ZArith Lia List String Bool.
Open Scope Z_scope.
Notation length := List.length.

Definition tbl_ok (k : string) : Prop :=
  forall dbg a, wf_args a -> run_tab ops_rand_spec k dbg a <> Unsupported ->
    run_tab ops_rand_model k dbg a = run_tab ops_rand_spec k dbg a.

Ltac start_tbl :=
  let dbg := fresh "dbg" in let a := fresh "a" in
  let Hwf := fresh "Hwf" in let Hdom := fresh "Hdom" in
  intros dbg a Hwf Hdom; revert Hdom; open_tabs ops_rand_model ops_rand_spec; intros Hdom.

(* ------------------------------------------------------------------ the outcome wrappers *)
(** a sampler that agrees with its specification from a fresh RNG (counters 0) prints the same outcome *)
Lemma agrees_out n ws f o s : rnd_agrees n ws 0 0 0 o s -> rnd_out f o = rnd_sp_out n f s.
Proof.
  destruct o as [[v [rest nw nb]]|]; destruct s as [x k b|]; cbn [rnd_agrees rnd_out rnd_sp_out];
    intros H; try contradiction; [|reflexivity].
  destruct H as (-> & _ & -> & -> & _). rewrite !Z.add_0_l. reflexivity.
Qed.
Lemma agrees1_out ws f o s : rnd_agrees1 ws 0 0 0 o s -> (forall x k b, s = SpOk x k b -> 0 <= x < B) ->
  rnd_out1 f o = rnd_sp_out 1 f s.
Proof.
  destruct o as [[v [rest nw nb]]|]; destruct s as [x k b|]; cbn [rnd_agrees1 rnd_out1 rnd_sp_out];
    intros H Hr; try contradiction; [|reflexivity].
  destruct H as (-> & -> & -> & _). rewrite !Z.add_0_l.
  specialize (Hr x k b eq_refl).
  replace (to_limbs 1 x) with [x]; [reflexivity|].
  apply to_limbs_unique; [apply wf_cons; split; [exact Hr | apply wf_nil] | reflexivity |].
  cbn [eval]. rewrite Bn_S, Bn_0. rewrite Z.mod_small by lia. lia.
Qed.

(** the value of the byte-wise Limb sampler is a word *)
Lemma sp_limb_mod_loop_word m k : 0 <= k <= 64 -> forall ws cnt x c b,
  sp_limb_mod_loop m k ws cnt = SpOk x c b -> 0 <= x < B.
Proof.
  intros Hk. induction ws as [|w ws IH]; intros cnt x c b E; cbn [sp_limb_mod_loop] in E; [discriminate|].
  destruct (w mod 2 ^ k <? m).
  - injection E as <- _ _. apply (rnd_mod_pow_word w k Hk).
  - exact (IH _ _ _ _ E).
Qed.

(* ------------------------------------------------------------------ Random *)
Lemma tbl_limb_random : tbl_ok "limb.random".
Proof.
  start_tbl. unfold rnd_of, limb_random, rnd_u64, sp_random.
  pose proof (wf_arg 0 a Hwf) as Hws.
  destruct (arg 0 a) as [|w ws]; [reflexivity|].
  apply wf_cons in Hws. destruct Hws as [Hw _].
  cbn [length Nat.ltb Nat.leb firstn rnd_out1 rnd_sp_out]. rewrite !Z.add_0_l.
  replace (to_limbs 1 (eval [w])) with [w]; [reflexivity|].
  symmetry. exact (to_limbs_eval [w] (proj2 (wf_cons w []) (conj Hw wf_nil))).
Qed.

(** the next n words are the limbs (n = 0 included: the empty value, nothing consumed) *)
Lemma tbl_uint_random : tbl_ok "uint.random".
Proof.
  start_tbl. cbv zeta. unfold rnd_of. pose proof (wf_arg 0 a Hwf) as Hws.
  rewrite uint_random_spec by assumption. unfold sp_random.
  set (n := Z.to_nat (sarg 1 a)). set (ws := arg 0 a) in *.
  destruct (Nat.ltb_spec (length ws) n) as [Hs|Hl]; [reflexivity|].
  cbn [rnd_out rnd_sp_out]. rewrite !Z.add_0_l.
  assert (Hf : wf (firstn n ws)) by (apply wf_firstn; assumption).
  assert (Hfl : length (firstn n ws) = n) by (rewrite firstn_length; lia).
  pose proof (to_limbs_eval _ Hf) as Ht. rewrite Hfl in Ht. rewrite Ht. reflexivity.
Qed.

(* ------------------------------------------------------------------ RandomBits *)
(** the documented behaviour after the length / precision checks, printed *)
Lemma bits_expected_out n ws bl mode :
  rnd_out_bits mode (rnd_bits_expected n ws 0 0 bl) = rnd_sp_out_bits n mode (sp_random_bits ws bl).
Proof.
  unfold rnd_bits_expected. destruct (sp_random_bits ws bl) as [v k b|]; cbn [rnd_out_bits rnd_sp_out_bits].
  - rewrite !Z.add_0_l. reflexivity.
  - reflexivity.
Qed.
Lemma bits_err_out mode c f1 f2 : rnd_out_bits mode (RErr c f1 f2) = rnd_sp_err mode c f1 f2.
Proof. reflexivity. Qed.

Lemma tbl_uint_random_bits : tbl_ok "uint.random_bits".
Proof.
  start_tbl. cbv zeta in *. unfold rnd_of.
  pose proof (sarg_word 1 a Hwf) as [Hn _]. pose proof (sarg_word 2 a Hwf) as [Hbl _].
  rewrite uint_random_bits_spec by (try assumption; apply wf_arg; assumption).
  rewrite Z2Nat.id by assumption.
  destruct (Z.eqb_spec (sarg 3 a) (64 * sarg 1 a)) as [Hp|Hp]; cbn [negb]; [|apply bits_err_out].
  rewrite <- Hp.
  destruct (sarg 3 a <? sarg 2 a); [apply bits_err_out|].
  apply bits_expected_out.
Qed.

Lemma boxed_limbs_eq prec : rnd_boxed_limbs prec = sp_boxed_limbs prec.
Proof. unfold rnd_boxed_limbs, sp_boxed_limbs. rewrite rnd_sp_ceil64. reflexivity. Qed.

Lemma tbl_boxed_random_bits : tbl_ok "boxed.random_bits".
Proof.
  start_tbl. cbv zeta in *. unfold rnd_of.
  pose proof (sarg_word 1 a Hwf) as [Hbl _].
  rewrite boxed_random_bits_spec by (try assumption; apply wf_arg; assumption).
  destruct (sarg 2 a <? sarg 1 a); [apply bits_err_out|].
  destruct (rnd_small (sarg 2 a)); [|contradiction Hdom; reflexivity].
  rewrite boxed_limbs_eq. apply bits_expected_out.
Qed.

(* ------------------------------------------------------------------ RandomMod *)
Lemma tbl_uint_random_mod : tbl_ok "uint.random_mod".
Proof.
  start_tbl. destruct (rnd_nonzero_arg (arg 1 a)) eqn:E; [|contradiction Hdom; reflexivity].
  apply nonzero_arg_dom in E. destruct E as [Hm Hp]. unfold rnd_of, ev, ln.
  apply (agrees_out _ (arg 0 a)). apply uint_random_mod_spec; try assumption. apply wf_arg; assumption.
Qed.
Lemma tbl_boxed_random_mod : tbl_ok "boxed.random_mod".
Proof.
  start_tbl. destruct (rnd_nonzero_arg (arg 1 a)) eqn:E; [|contradiction Hdom; reflexivity].
  apply nonzero_arg_dom in E. destruct E as [Hm Hp]. unfold rnd_of, ev, ln.
  apply (agrees_out _ (arg 0 a)). apply boxed_random_mod_spec; try assumption. apply wf_arg; assumption.
Qed.
Lemma tbl_limb_random_mod : tbl_ok "limb.random_mod".
Proof.
  start_tbl. destruct (rnd_nonzero_arg [sarg 1 a]) eqn:E; [|contradiction Hdom; reflexivity].
  apply nonzero_arg_dom in E. destruct E as [Hm Hp]. cbn [eval] in Hp. apply wf_cons in Hm. destruct Hm as [Hm _].
  unfold is_word in Hm. unfold rnd_of.
  apply (agrees1_out (arg 0 a)).
  - apply limb_random_mod_spec; [lia | apply wf_arg; assumption].
  - unfold sp_limb_random_mod. intros x k b Es.
    refine (sp_limb_mod_loop_word (sarg 1 a) (rnd_bitlen (sarg 1 a)) _ _ _ _ _ _ Es).
    split; [apply rnd_bitlen_nonneg|]. apply rnd_bitlen_lt; [lia|]. rewrite <- B_val. lia.
Qed.

(* ------------------------------------------------------------------ NonZero, Odd *)
Lemma tbl_nonzero_uint_random : tbl_ok "nonzero_uint.random".
Proof.
  start_tbl. cbv zeta in *. destruct (Z.ltb_spec 0 (sarg 1 a)) as [Hn|Hn]; [|contradiction Hdom; reflexivity].
  unfold rnd_of. apply (agrees_out _ (arg 0 a)).
  apply nonzero_uint_random_spec; [lia | apply wf_arg; assumption].
Qed.
Lemma tbl_nonzero_monty_random : tbl_ok "nonzero_monty.random".
Proof.
  start_tbl. destruct (rnd_nonzero_arg (arg 1 a)) eqn:E; [|contradiction Hdom; reflexivity].
  apply nonzero_arg_dom in E. destruct E as [Hm Hp]. unfold rnd_of, ev, ln.
  apply (agrees_out _ (arg 0 a)). apply nonzero_mod_random_spec; try assumption. apply wf_arg; assumption.
Qed.
Lemma tbl_odd_uint_random : tbl_ok "odd_uint.random".
Proof.
  start_tbl. cbv zeta in *. destruct (Z.ltb_spec 0 (sarg 1 a)) as [Hn|Hn]; [|contradiction Hdom; reflexivity].
  unfold rnd_of. apply (agrees_out _ (arg 0 a)).
  apply odd_uint_random_spec; [apply wf_arg; assumption | lia].
Qed.

(** Odd<BoxedUint>::random(rng, bit_length >= 1): the RandomBits sample with bit 0 forced to one; the RNG error panics *)
Lemma tbl_odd_boxed_random : tbl_ok "odd_boxed.random".
Proof.
  start_tbl. cbv zeta in *. unfold rnd_of.
  destruct (Z.ltb_spec 0 (sarg 1 a)) as [Hbl|Hbl]; cbn [andb] in *; [|contradiction Hdom; reflexivity].
  destruct (rnd_small (sarg 1 a)); [|contradiction Hdom; reflexivity].
  set (bl := sarg 1 a) in *. set (ws := arg 0 a). pose proof (wf_arg 0 a Hwf) as Hws. fold ws in Hws.
  destruct (odd_boxed_random (Rng ws 0 0) bl) as [[v r']|] eqn:E.
  - destruct (odd_boxed_random_valid ws 0 0 bl v r' Hws ltac:(lia) E) as (Hw & Hl & _ & Hr & He & ->).
    (* the stream was long enough *)
    unfold odd_boxed_random, boxed_random_bits in E.
    pose proof (boxed_random_bits_outcome ws 0 0 bl bl Hws ltac:(lia)) as H. cbv zeta in H.
    destruct H as [(H1 & _)|[(H1 & H2 & H3)|(H1 & H2 & _)]]; [lia | rewrite H3 in E; discriminate |].
    unfold sp_random_bits. cbv zeta.
    replace (Z.of_nat (length ws) <? rnd_ceil bl 64) with false by (symmetry; apply Z.ltb_ge; assumption).
    cbn [sp_odd_sample rnd_sp_out]. rewrite !Z.add_0_l.
    destruct (Z.eqb_spec bl 0); [lia|]. unfold rnd_tail_bytes.
    rewrite <- He, <- boxed_limbs_eq, <- Hl.
    rewrite (to_limbs_eval v Hw). reflexivity.
  - unfold odd_boxed_random, boxed_random_bits in E.
    pose proof (boxed_random_bits_outcome ws 0 0 bl bl Hws ltac:(lia)) as H. cbv zeta in H.
    destruct H as [(H1 & _)|[(H1 & H2 & H3)|(H1 & H2 & v & H3 & Hw & Hl & _)]]; [lia | |].
    + unfold sp_random_bits. cbv zeta.
      replace (Z.of_nat (length ws) <? rnd_ceil bl 64) with true by (symmetry; apply Z.ltb_lt; assumption).
      reflexivity.
    + rewrite H3 in E. destruct v as [|x t]; [cbn in Hl; unfold rnd_boxed_limbs in Hl; lia|].
      cbn [rnd_set_lsb] in E. discriminate.
Qed.

(* ------------------------------------------------------------------ the area theorem *)
Create HintDb c19tbl.
#[export] Hint Resolve tbl_limb_random tbl_uint_random tbl_uint_random_bits tbl_boxed_random_bits tbl_uint_random_mod
  tbl_boxed_random_mod tbl_limb_random_mod tbl_nonzero_uint_random tbl_nonzero_monty_random tbl_odd_uint_random
  tbl_odd_boxed_random : c19tbl.

(** the key list of C11 IS the key set of both tables (in table order) *)
Lemma rand_table_keys : map fst ops_rand_model = rand_keys.
Proof. reflexivity. Qed.
Lemma rand_table_keys_spec : map fst ops_rand_spec = rand_keys.
Proof. reflexivity. Qed.
Lemma rand_table_keys_count : length rand_keys = 11%nat.
Proof. reflexivity. Qed.

Lemma rand_all_keys_ok : forall k, In k rand_keys -> tbl_ok k.
Proof.
  intros k Hin. unfold rand_keys, rand_quiet_keys, rand_panic_keys in Hin. cbn [app In] in Hin.
  repeat (destruct Hin as [<- | Hin]; [solve [eauto with nocore c19tbl] |]); contradiction.
Qed.

Theorem rand_tables_agree : forall k dbg a,
  In k rand_keys -> wf_args a -> run_tab ops_rand_spec k dbg a <> Unsupported ->
  run_tab ops_rand_model k dbg a = run_tab ops_rand_spec k dbg a.
Proof. intros k dbg a Hin. exact (rand_all_keys_ok k Hin dbg a). Qed.

Theorem rand_tables_agree_table_keys : forall k dbg a,
  In k (map fst ops_rand_model) -> wf_args a -> run_tab ops_rand_spec k dbg a <> Unsupported ->
  run_tab ops_rand_model k dbg a = run_tab ops_rand_spec k dbg a.
Proof. rewrite rand_table_keys. exact rand_tables_agree. Qed.

Lemma rand_key_set :
  map fst ops_rand_model = rand_keys /\ map fst ops_rand_spec = rand_keys /\ length rand_keys = 11%nat.
Proof. split; [exact rand_table_keys|]. split; [exact rand_table_keys_spec | exact rand_table_keys_count]. Qed.

(** where the spec entries are defined: exactly the documented domains (non-zero modulus made of words; at least one
    limb for NonZero / Odd; a u32 precision / bit length for the boxed forms; everything else everywhere) *)
Definition rand_dom (k : string) (a : list (list Z)) : bool :=
  if (String.eqb k "uint.random_mod" || String.eqb k "boxed.random_mod" || String.eqb k "nonzero_monty.random")%bool
  then rnd_nonzero_arg (arg 1 a)
  else if String.eqb k "limb.random_mod" then rnd_nonzero_arg [sarg 1 a]
  else if (String.eqb k "nonzero_uint.random" || String.eqb k "odd_uint.random")%bool then 0 <? sarg 1 a
  else if String.eqb k "boxed.random_bits" then (sarg 2 a <? sarg 1 a) || rnd_small (sarg 2 a)
  else if String.eqb k "odd_boxed.random" then (0 <? sarg 1 a) && rnd_small (sarg 1 a)
  else true.

Lemma rnd_sp_out_def n f s : rnd_sp_out n f s <> Unsupported.
Proof. destruct s; cbn [rnd_sp_out]; [discriminate|]. unfold rnd_exh. destruct (f =? 0); discriminate. Qed.
Lemma rnd_sp_out_bits_def n m s : rnd_sp_out_bits n m s <> Unsupported.
Proof.
  destruct s; cbn [rnd_sp_out_bits]; [destruct (m =? 2); discriminate|].
  destruct (m =? 0); [discriminate|]. destruct (m =? 1); discriminate.
Qed.
Lemma rnd_sp_err_def m c f1 f2 : rnd_sp_err m c f1 f2 <> Unsupported.
Proof. unfold rnd_sp_err. destruct (m =? 0); [discriminate|]. destruct (m =? 1); discriminate. Qed.

Theorem rand_spec_defined_iff : forall k dbg a, In k rand_keys ->
  (run_tab ops_rand_spec k dbg a <> Unsupported <-> rand_dom k a = true).
Proof.
  intros k dbg a Hin. unfold rand_keys, rand_quiet_keys, rand_panic_keys in Hin. cbn [app In] in Hin.
  repeat (destruct Hin as [<- | Hin];
    [ open_tabs ops_rand_model ops_rand_spec;
      unfold rand_dom; lazy beta iota delta [String.eqb Ascii.eqb Bool.eqb orb]; cbv zeta;
      repeat match goal with
             | |- context [if ?c then _ else _] =>
                 lazymatch c with
                 | _ =? _ => fail
                 | _ => destruct c eqn:?
                 end
             end;
      cbn [orb andb negb];
      split; intros H; try reflexivity; try discriminate H; try (contradiction H; reflexivity);
      first [ apply rnd_sp_out_def | apply rnd_sp_out_bits_def | apply rnd_sp_err_def | idtac ] |]).
  contradiction.
Qed.
