(** C02 proofs: rem2k_vartime (x mod 2^k on a limb list, for every list length). *)
From CB Require Import Model.Limbs Model.Div Proofs.WordP Proofs.LimbsP Proofs.BitsP.
From Coq Require Import ZArith Lia List.
Open Scope Z_scope.

Lemma Bn_pow2 n : Bn n = 2 ^ (64 * Z.of_nat n).
Proof.
  induction n as [|n IH].
  - rewrite Bn_0. reflexivity.
  - rewrite Bn_S, IH, B_val, Nat2Z.inj_succ.
    replace (64 * Z.succ (Z.of_nat n)) with (64 + 64 * Z.of_nat n) by lia.
    rewrite Z.pow_add_r by lia. reflexivity.
Qed.

(** splitting a list around position i *)
Lemma split_nth (x : list Z) i : (i < length x)%nat ->
  x = firstn i x ++ nth i x 0 :: skipn (S i) x.
Proof.
  revert i. induction x as [|a x IH]; intros i Hi; cbn [length] in Hi; [lia|].
  destruct i as [|i]; cbn [firstn nth skipn app]; [reflexivity|].
  f_equal. apply IH. lia.
Qed.

Lemma upd_self x i : (i < length x)%nat -> upd x i (nthz x i) = x.
Proof. intros Hi. unfold upd, nthz. symmetry. apply split_nth. assumption. Qed.

Lemma firstn_S_app (a : list Z) m r : firstn (S (length a)) (a ++ m :: r) = a ++ [m].
Proof.
  induction a as [|y a IH]; cbn [length app].
  - reflexivity.
  - change (firstn (S (S (length a))) (y :: a ++ m :: r)) with (y :: firstn (S (length a)) (a ++ m :: r)).
    rewrite IH. reflexivity.
Qed.

Lemma firstn_S_upd x i v : (i < length x)%nat -> firstn (S i) (upd x i v) = firstn i x ++ [v].
Proof.
  intros Hi. unfold upd.
  assert (Hl : length (firstn i x) = i) by (apply firstn_length_le; lia).
  rewrite <- Hl at 1. apply firstn_S_app.
Qed.

(** the case k >= 64 * length x : nothing changes *)
Lemma rem2k_vartime_ge x k : x <> [] -> 64 * Z.of_nat (length x) <= k -> rem2k_vartime x k = x.
Proof.
  intros Hne Hk. unfold rem2k_vartime.
  assert (Hlen : (0 < length x)%nat) by (destruct x; [congruence | cbn [length]; lia]).
  assert (Hq : Z.of_nat (length x) <= k / 64) by (apply Z.div_le_lower_bound; lia).
  assert (Hle : (k / 64 <=? Z.of_nat (length x - 1)) = false) by (apply Z.leb_gt; lia).
  rewrite Hle. rewrite Nat2Z.id. unfold sel.
  rewrite upd_self by lia.
  replace (S (length x - 1)) with (length x) by lia.
  rewrite firstn_all, Nat.sub_diag. apply app_nil_r.
Qed.

(** low limb: masking with 2^b - 1 is reduction modulo 2^b *)
Lemma land_mask a b : 0 <= b -> Z.land a (2 ^ b - 1) = a mod 2 ^ b.
Proof.
  intros Hb. replace (2 ^ b - 1) with (Z.ones b) by (rewrite Z.ones_equiv; lia).
  apply Z.land_ones. assumption.
Qed.

Lemma mod_pow2_word xi hi b : 0 <= b < 64 -> (xi + B * hi) mod 2 ^ b = xi mod 2 ^ b.
Proof.
  intros Hb. rewrite B_val.
  replace 64 with (b + (64 - b)) by lia. rewrite Z.pow_add_r by lia.
  assert (0 < 2 ^ b) by (apply Z.pow_pos_nonneg; lia).
  replace (xi + 2 ^ b * 2 ^ (64 - b) * hi) with (xi + (2 ^ (64 - b) * hi) * 2 ^ b) by ring.
  apply Z.mod_add. lia.
Qed.

Lemma rem2k_vartime_lt x k : wf x -> 0 <= k -> k < 64 * Z.of_nat (length x) ->
  eval (rem2k_vartime x k) = eval x mod 2 ^ k
  /\ wf (rem2k_vartime x k) /\ length (rem2k_vartime x k) = length x.
Proof.
  intros Hw Hk0 Hk. unfold rem2k_vartime.
  assert (Hq0 : 0 <= k / 64) by (apply Z.div_pos; lia).
  assert (Hq : k / 64 < Z.of_nat (length x)) by (apply Z.div_lt_upper_bound; lia).
  assert (Hle : (k / 64 <=? Z.of_nat (length x - 1)) = true) by (apply Z.leb_le; lia).
  rewrite Hle. unfold sel.
  pose proof (Z.div_mod k 64 ltac:(lia)) as Hdm.
  pose proof (Z.mod_pos_bound k 64 ltac:(lia)) as Hb.
  set (i := Z.to_nat (k / 64)).
  set (b := k mod 64) in *.
  assert (Hi : (i < length x)%nat) by (unfold i; lia).
  assert (HiZ : Z.of_nat i = k / 64) by (unfold i; lia).
  rewrite land_mask by lia.
  rewrite firstn_S_upd by assumption.
  assert (Hl : length (firstn i x) = i) by (apply firstn_length_le; lia).
  assert (Hpb : 0 < 2 ^ b) by (apply Z.pow_pos_nonneg; lia).
  assert (Hpb64 : 2 ^ b <= B).
  { rewrite B_val. apply Z.pow_le_mono_r; lia. }
  pose proof (Z.mod_pos_bound (nthz x i) (2 ^ b) Hpb) as Hm.
  split; [|split].
  - (* value *)
    rewrite !eval_app, eval_zeros, Z.mul_0_r, Z.add_0_r, Hl.
    cbn [eval]. rewrite Z.mul_0_r, Z.add_0_r.
    assert (H2k : 2 ^ k = Bn i * 2 ^ b).
    { rewrite Bn_pow2, HiZ, <- Z.pow_add_r by lia. f_equal. lia. }
    rewrite H2k. pose proof (Bn_pos i) as HBi.
    rewrite Z.rem_mul_r by lia.
    rewrite <- (eval_firstn i x Hw) by lia.
    f_equal. f_equal.
    (* eval x / Bn i = x_i + B * hi *)
    pose proof (split_nth x i Hi) as Hs.
    assert (Hd : eval x / Bn i = nthz x i + B * eval (skipn (S i) x)).
    { rewrite Hs at 1. rewrite eval_app, Hl. cbn [eval]. fold (nthz x i).
      pose proof (eval_bounds _ (wf_firstn i x Hw)) as Hfb. rewrite Hl in Hfb.
      apply (div_mod_unique_pos (Bn i) _ (eval (firstn i x))); [assumption | ring]. }
    rewrite Hd. symmetry. apply mod_pow2_word. lia.
  - (* wf *)
    apply wf_app. split; [|apply wf_zeros].
    apply wf_app. split; [apply wf_firstn; assumption|].
    apply wf_cons. split; [unfold is_word; lia | apply wf_nil].
  - rewrite !app_length, Hl, length_zeros. cbn [length]. lia.
Qed.

Theorem rem2k_vartime_correct x k : wf x -> x <> [] -> 0 <= k ->
  eval (rem2k_vartime x k) = (if 64 * Z.of_nat (length x) <=? k then eval x else eval x mod 2 ^ k)
  /\ wf (rem2k_vartime x k) /\ length (rem2k_vartime x k) = length x.
Proof.
  intros Hw Hne Hk.
  destruct (64 * Z.of_nat (length x) <=? k) eqn:E.
  - apply Z.leb_le in E. rewrite rem2k_vartime_ge by assumption. auto.
  - apply Z.leb_gt in E. apply rem2k_vartime_lt; assumption.
Qed.

Print Assumptions rem2k_vartime_correct.
