(** C11, areas intarith and intdiv (Model/IntArith.v, Model/IntDiv.v, owners C13 / C14): the panicking operators are
    `checked_*().expect()`; the table lemmas of Proofs/IntTablesP.v give model entry = spec entry. *)
From CB Require Import Model.Limbs Model.AddSub Model.IntArith Model.IntDiv Proofs.WordP Proofs.LimbsP
  Proofs.IntTablesP Proofs.TotalityP.
From Coq Require Import ZArith Lia List String Bool.
Open Scope Z_scope.
Notation length := List.length.

Lemma intarith_cover : covers intarith_keys ops_intarith_model = true.
Proof. vm_compute. reflexivity. Qed.
Lemma intarith_quiet : quiet_keys_ok ops_intarith_model ops_intarith_spec intarith_quiet_keys.
Proof. unfold intarith_quiet_keys. quiet_tac ops_intarith_model ops_intarith_spec. Qed.
Lemma intdiv_cover : covers intdiv_keys ops_intdiv_model = true.
Proof. vm_compute. reflexivity. Qed.
Lemma intdiv_quiet : quiet_keys_ok ops_intdiv_model ops_intdiv_spec intdiv_quiet_keys.
Proof. unfold intdiv_quiet_keys. quiet_tac ops_intdiv_model ops_intdiv_spec. Qed.

(* the entry depends on the argument list only through the canonical list a' *)
Ltac via_table a' lem :=
  match goal with |- (run_tab ?M ?k ?dbg ?a = PanicV <-> run_tab ?S ?k ?dbg ?a = PanicV) =>
    change (run_tab M k dbg a) with (run_op M k dbg a');
    change (run_tab S k dbg a) with (run_op S k dbg a');
    rewrite lem; tauto
  end.

Lemma key_sint_add : key_ok ops_intarith_model ops_intarith_spec intarith_ty "sint.add".
Proof.
  intros dbg a Hwf Hty _. open_typed intarith_ty Hty.
  via_table [arg 0 a; arg 1 a] (tbl_add dbg (arg 0 a) (arg 1 a) (wf_arg 0 a Hwf) (wf_arg 1 a Hwf) Hty).
Qed.
Lemma key_sint_sub : key_ok ops_intarith_model ops_intarith_spec intarith_ty "sint.sub".
Proof.
  intros dbg a Hwf Hty _. open_typed intarith_ty Hty.
  via_table [arg 0 a; arg 1 a] (tbl_sub dbg (arg 0 a) (arg 1 a) (wf_arg 0 a Hwf) (wf_arg 1 a Hwf) Hty).
Qed.
Lemma key_sint_mul : key_ok ops_intarith_model ops_intarith_spec intarith_ty "sint.mul".
Proof.
  intros dbg a Hwf _ _.
  via_table [arg 0 a; arg 1 a] (tbl_mul dbg (arg 0 a) (arg 1 a) (wf_arg 0 a Hwf) (wf_arg 1 a Hwf)).
Qed.
Lemma key_sint_mul_uint : key_ok ops_intarith_model ops_intarith_spec intarith_ty "sint.mul_uint".
Proof.
  intros dbg a Hwf _ _.
  via_table [arg 0 a; arg 1 a] (tbl_mul_uint dbg (arg 0 a) (arg 1 a) (wf_arg 0 a Hwf) (wf_arg 1 a Hwf)).
Qed.
Lemma key_sint_from_i8 : key_ok ops_intarith_model ops_intarith_spec intarith_ty "sint.from_i8".
Proof.
  intros dbg a Hwf Hty _. open_typed intarith_ty Hty. pose proof (sarg_word 1 a Hwf) as [Ht _].
  via_table [[sarg 0 a]; [sarg 1 a]] (tbl_from_i8 dbg (sarg 0 a) (sarg 1 a) Hty Ht).
Qed.
Lemma key_sint_from_i16 : key_ok ops_intarith_model ops_intarith_spec intarith_ty "sint.from_i16".
Proof.
  intros dbg a Hwf Hty _. open_typed intarith_ty Hty. pose proof (sarg_word 1 a Hwf) as [Ht _].
  via_table [[sarg 0 a]; [sarg 1 a]] (tbl_from_i16 dbg (sarg 0 a) (sarg 1 a) Hty Ht).
Qed.
Lemma key_sint_from_i32 : key_ok ops_intarith_model ops_intarith_spec intarith_ty "sint.from_i32".
Proof.
  intros dbg a Hwf Hty _. open_typed intarith_ty Hty. pose proof (sarg_word 1 a Hwf) as [Ht _].
  via_table [[sarg 0 a]; [sarg 1 a]] (tbl_from_i32 dbg (sarg 0 a) (sarg 1 a) Hty Ht).
Qed.
Lemma key_sint_from_i64 : key_ok ops_intarith_model ops_intarith_spec intarith_ty "sint.from_i64".
Proof.
  intros dbg a Hwf Hty _. open_typed intarith_ty Hty. pose proof (sarg_word 1 a Hwf) as [Ht _].
  via_table [[sarg 0 a]; [sarg 1 a]] (tbl_from_i64 dbg (sarg 0 a) (sarg 1 a) Hty Ht).
Qed.
(* from_i128 / From<i128>: the same width assertion in both tables *)
Lemma key_sint_from_i128 : key_ok ops_intarith_model ops_intarith_spec intarith_ty "sint.from_i128".
Proof.
  start_key ops_intarith_model ops_intarith_spec intarith_ty. unfold int_from_i128_op, isp_val.
  destruct (nat_arg 1 a <? 2)%nat; [tauto | split; discriminate].
Qed.
Lemma key_sint_from_i128_trait : key_ok ops_intarith_model ops_intarith_spec intarith_ty "sint.from_i128_trait".
Proof.
  start_key ops_intarith_model ops_intarith_spec intarith_ty. unfold int_from_i128_op, isp_val.
  destruct (nat_arg 1 a <? 2)%nat; [tauto | split; discriminate].
Qed.
#[export] Hint Resolve key_sint_add key_sint_sub key_sint_mul key_sint_mul_uint key_sint_from_i8 key_sint_from_i16
  key_sint_from_i32 key_sint_from_i64 key_sint_from_i128 key_sint_from_i128_trait : c11keys.

Theorem intarith_panics_iff_documented :
  panics_iff_documented ops_intarith_model ops_intarith_spec intarith_keys intarith_ty.
Proof. apply panics_from_parts; [exact intarith_quiet | unfold intarith_panic_keys; by_keys]. Qed.
Theorem intarith_total_forms_never_panic :
  total_forms_never_panic ops_intarith_model intarith_total_keys intarith_total_ty.
Proof.
  apply (quiet_total _ ops_intarith_spec intarith_quiet_keys); [exact intarith_quiet|].
  apply sublist_In. vm_compute. reflexivity.
Qed.

(* ---- Int division: the only panicking form is the `/` operator family (MIN / -1) ---- *)
Lemma key_sdiv_div_expect : key_ok ops_intdiv_model ops_intdiv_spec intdiv_ty "sdiv.div_expect".
Proof.
  intros dbg a Hwf _ _.
  via_table [arg 0 a; arg 1 a] (tbl_div_expect dbg (arg 0 a) (arg 1 a) (wf_arg 0 a Hwf) (wf_arg 1 a Hwf)).
Qed.
#[export] Hint Resolve key_sdiv_div_expect : c11keys.
Theorem intdiv_panics_iff_documented :
  panics_iff_documented ops_intdiv_model ops_intdiv_spec intdiv_keys intdiv_ty.
Proof. apply panics_from_parts; [exact intdiv_quiet | unfold intdiv_panic_keys; by_keys]. Qed.
Theorem intdiv_total_forms_never_panic :
  total_forms_never_panic ops_intdiv_model intdiv_total_keys intdiv_total_ty.
Proof.
  apply (quiet_total _ ops_intdiv_spec intdiv_quiet_keys); [exact intdiv_quiet|].
  apply sublist_In. vm_compute. reflexivity.
Qed.
