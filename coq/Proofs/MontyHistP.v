(** C08 proofs, part 5: operation histories.
    [history be p inputs ops] = fold_left (h_step ..) ops ([], []) runs an arbitrary list of operations
    (New x | Zero | One | Add | Sub | Neg | Double | Mul | Square | Half | Select | Conv | Retrieve and the in-place
    MulAssign | SquareAssign | AddAssign | SubAssign | HalfAssign) on one representation (a [backend]).
    Invariant, proved preserved by every step by induction over the op list:
      every stored value is the canonical (< m) Montgomery form of the residue the plain Z/mZ evaluation
      ([sp_history]) holds at the same index, and every output emitted so far (as_montgomery() and retrieve() of the
      result of every step) equals the output of the Z/mZ evaluation.
    Stated for every backend satisfying [backend_ok] and instantiated for the fixed-width backend (montgomery_reduction)
    and the boxed backend (almost-Montgomery multiplication), for ALL limb counts, odd moduli and op lists. *)
From CB Require Import Model.Limbs Model.AddSub Model.Mul Model.Div Model.ModArith Model.Monty
  Proofs.WordP Proofs.LimbsP Proofs.AddSubP Proofs.ModArithP
  Proofs.MontyRedP Proofs.MontyAmmP Proofs.MontyNumP Proofs.MontyFormP.
From Coq Require Import ZArith Znumtheory Lia List Bool.
Open Scope Z_scope.
Notation length := List.length.

(* ------------------------------------------------------------------ generic list facts *)
Lemma F2_length {A C} (R : A -> C -> Prop) l l' : Forall2 R l l' -> length l = length l'.
Proof. induction 1; cbn [length]; congruence. Qed.
Lemma F2_nth {A C} (R : A -> C -> Prop) l l' k d d' :
  Forall2 R l l' -> (k < length l)%nat -> R (nth k l d) (nth k l' d').
Proof.
  intros H. revert k. induction H; intros k Hk; cbn [length nth] in *; [lia|].
  destruct k; [assumption | apply IHForall2; lia].
Qed.
Lemma F2_set {A C} (R : A -> C -> Prop) l l' k x y : Forall2 R l l' -> R x y ->
  Forall2 R (firstn k l ++ x :: skipn (S k) l) (firstn k l' ++ y :: skipn (S k) l').
Proof.
  intros H Hxy. revert k. induction H; intros k.
  - rewrite !firstn_nil, !skipn_nil. cbn [app]. constructor; [assumption | constructor].
  - destruct k.
    + cbn [firstn skipn app]. constructor; assumption.
    + cbn [firstn app]. constructor; [assumption|].
      change (skipn (S (S k)) (x0 :: l)) with (skipn (S k) l).
      change (skipn (S (S k)) (y0 :: l')) with (skipn (S k) l'). apply IHForall2.
Qed.
Lemma set_length {A} (l : list A) k x : (k < length l)%nat -> length (firstn k l ++ x :: skipn (S k) l) = length l.
Proof. intros Hk. rewrite app_length, firstn_length. cbn [length]. rewrite skipn_length. lia. Qed.
Lemma F2_Forall_l {A C} (R : A -> C -> Prop) (P : A -> Prop) l l' :
  (forall a c, R a c -> P a) -> Forall2 R l l' -> Forall P l.
Proof. intros HP. induction 1; constructor; [eapply HP; eassumption | assumption]. Qed.

(** prefixes of an admissible op list are admissible *)
Lemma ops_ok_firstn ni ops : forall nv k, ops_ok ni nv ops = true -> ops_ok ni nv (firstn k ops) = true.
Proof.
  induction ops as [|o r IH]; intros nv k H.
  - rewrite firstn_nil. reflexivity.
  - destruct k; [reflexivity|]. cbn [firstn]. cbn [ops_ok] in *. apply andb_prop in H. destruct H as [H1 H2].
    rewrite H1. cbn [andb]. apply IH. exact H2.
Qed.

(* ------------------------------------------------------------------ one representation *)
Section Hist.
Variables (m : list Z) (be : backend) (p : mparams) (inputs : list (list Z)).
Hypothesis Hm : wf m.
Hypothesis Hn : length m <> 0%nat.
Hypothesis Hodd : Z.odd (eval m) = true.
Hypothesis Hbe : backend_ok m be.
Hypothesis Hpm : mp_m p = m.
Hypothesis Hone : repr m (mp_one p) (1 mod eval m).
Hypothesis Hin : Forall (fun x => wf x /\ length x = length m) inputs.
Let n := length m.
Let M := eval m.

(** the invariant: values pairwise related, outputs equal *)
Definition hinv (st : hstate) (sst : sstate) : Prop :=
  Forall2 (repr m) (fst st) (fst sst) /\ snd st = snd sst.

Lemma getv_input i : wf (getv n inputs i) /\ length (getv n inputs i) = length m.
Proof.
  unfold getv. destruct (nth_in_or_default (Z.to_nat i) inputs (zeros n)) as [H|H].
  - rewrite Forall_forall in Hin. apply Hin. exact H.
  - rewrite H. split; [apply wf_zeros | apply length_zeros].
Qed.
Lemma getv_repr vals svals i : Forall2 (repr m) vals svals -> (Z.to_nat i < length vals)%nat ->
  repr m (getv n vals i) (sgetv svals i).
Proof. intros HF Hi. unfold getv, sgetv. apply F2_nth; assumption. Qed.
Lemma zero_repr : repr m (zeros n) 0.
Proof.
  pose proof (M_pos m Hm Hn Hodd) as HM.
  split; [split; [apply wf_zeros | split; [apply length_zeros | rewrite eval_zeros; lia]]|].
  split; [lia|]. rewrite eval_zeros, Z.mul_0_l. symmetry. apply Z.mod_0_l. lia.
Qed.

Ltac idx_hyps := repeat match goal with
  | H : (_ && _)%bool = true |- _ => apply andb_prop in H; destruct H
  | H : (_ <? _)%nat = true |- _ => apply Nat.ltb_lt in H
  end.

(** one operation maps representatives to the representative of its Z/mZ result *)
Lemma op_result_repr vals svals o : Forall2 (repr m) vals svals ->
  op_ok (length inputs) (length vals) o = true ->
  repr m (op_result be p inputs vals o) (sp_result M n inputs svals o).
Proof.
  intros HF Hok. destruct o as [[[code i] j] v]. unfold op_result, sp_result. rewrite Hpm. fold n.
  unfold op_ok in Hok.
  apply andb_prop in Hok. destruct Hok as [Hok Hidx].
  apply andb_prop in Hok. destruct Hok as [Hok Hj].
  apply andb_prop in Hok. destruct Hok as [Hok Hi].
  apply andb_prop in Hok. destruct Hok as [H0 H17].
  apply Z.leb_le in H0, H17.
  assert (Hc : code = 0 \/ code = 1 \/ code = 2 \/ code = 3 \/ code = 4 \/ code = 5 \/ code = 6 \/ code = 7 \/
               code = 8 \/ code = 9 \/ code = 10 \/ code = 11 \/ code = 12 \/ code = 13 \/ code = 14 \/ code = 15 \/
               code = 16 \/ code = 17) by lia.
  pose proof (getv_repr vals svals i HF) as Ra. pose proof (getv_repr vals svals j HF) as Rb.
  pose proof (getv_input i) as (Wx & Lx).
  repeat (destruct Hc as [Hc|Hc]); subst code; unfold op_uses_j in Hidx;
    cbn [Z.eqb Pos.eqb orb] in Hidx; cbn [Z.eqb Pos.eqb orb]; idx_hyps;
    try specialize (Ra ltac:(assumption)); try specialize (Rb ltac:(assumption)).
  - apply (ok_new m be Hbe); assumption.
  - apply zero_repr.
  - exact Hone.
  - apply (add_repr m Hm Hn Hodd); assumption.
  - apply (sub_repr m Hm Hn Hodd); assumption.
  - apply (neg_repr m Hm Hn Hodd); assumption.
  - apply (double_repr m Hm Hn Hodd); assumption.
  - apply (ok_mul m be Hbe); assumption.
  - apply (ok_square m be Hbe); assumption.
  - apply (ok_half m be Hbe); assumption.
  - apply (ok_select m be Hbe); assumption.
  - apply (ok_mul m be Hbe); assumption.
  - apply (ok_square m be Hbe); assumption.
  - apply (add_repr m Hm Hn Hodd); assumption.
  - apply (ok_sub_assign m be Hbe); assumption.
  - apply (ok_half m be Hbe); assumption.
  - exact Ra.
  - exact Ra.
Qed.

(** the limb list of a representative is determined by the residue *)
Lemma repr_limbs r v : repr m r v -> r = to_limbs n ((v * Bn n) mod M).
Proof.
  intros ((W & L & Bd) & Hv & E). unfold n, M. rewrite <- E, <- L. symmetry. apply to_limbs_eval. exact W.
Qed.

Lemma h_step_inv st sst o : hinv st sst -> op_ok (length inputs) (length (fst st)) o = true ->
  hinv (h_step be p inputs st o) (sp_step M n inputs sst o).
Proof.
  intros [HF Ho] Hok. destruct st as [vals outs], sst as [svals souts]. cbn [fst snd] in *.
  pose proof (op_result_repr vals svals o HF Hok) as Hr.
  unfold h_step, sp_step.
  set (r := op_result be p inputs vals o) in *. set (sr := sp_result M n inputs svals o) in *.
  split; cbn [fst snd].
  - destruct (op_in_place (fst (fst (fst o)))).
    + unfold setv, ssetv. apply F2_set; assumption.
    + destruct (fst (fst (fst o)) =? 17); [assumption|].
      apply Forall2_app; [assumption|]. constructor; [assumption | constructor].
  - rewrite Ho. f_equal. f_equal; [apply repr_limbs; exact Hr|]. f_equal.
    apply (ok_retrieve m be Hbe). exact Hr.
Qed.

Lemma h_step_len vals outs o : op_ok (length inputs) (length vals) o = true ->
  length (fst (h_step be p inputs (vals, outs) o)) =
  if op_in_place (fst (fst (fst o))) || (fst (fst (fst o)) =? 17) then length vals else S (length vals).
Proof.
  intros Hok. destruct o as [[[code i] j] v]. unfold h_step. cbn [fst snd].
  destruct (op_in_place code) eqn:Ep; cbn [orb].
  - unfold op_in_place in Ep. apply andb_prop in Ep. destruct Ep as [E1 E2]. apply Z.leb_le in E1, E2.
    unfold op_ok in Hok. apply andb_prop in Hok. destruct Hok as [_ Hidx].
    assert (F0 : code =? 0 = false) by (apply Z.eqb_neq; lia).
    assert (F1 : code =? 1 = false) by (apply Z.eqb_neq; lia).
    assert (F2 : code =? 2 = false) by (apply Z.eqb_neq; lia).
    rewrite F0, F1, F2 in Hidx. cbn [orb] in Hidx. apply andb_prop in Hidx. destruct Hidx as [Hi _].
    apply Nat.ltb_lt in Hi. unfold setv. apply set_length. exact Hi.
  - destruct (code =? 17); [reflexivity|]. rewrite app_length. cbn [length]. lia.
Qed.

Lemma history_inv ops : forall st sst, hinv st sst -> ops_ok (length inputs) (length (fst st)) ops = true ->
  hinv (fold_left (h_step be p inputs) ops st) (fold_left (sp_step M n inputs) ops sst).
Proof.
  induction ops as [|o r IH]; intros st sst Hinv Hok; cbn [fold_left]; [assumption|].
  cbn [ops_ok] in Hok. apply andb_prop in Hok. destruct Hok as [Ho Hr].
  apply IH; [apply h_step_inv; assumption|].
  destruct st as [vals outs]. cbn [fst] in *. rewrite h_step_len by assumption. exact Hr.
Qed.

(** every operation history tracks Z/mZ: the stored values are the canonical representatives of the residues of the plain
    evaluation, and as_montgomery() / retrieve() after every step are those of the plain evaluation *)
Theorem history_correct ops : ops_ok (length inputs) 0 ops = true ->
  Forall2 (repr m) (fst (history be p inputs ops)) (fst (sp_history M n inputs ops))
  /\ snd (history be p inputs ops) = snd (sp_history M n inputs ops).
Proof.
  intros Hok. unfold history, sp_history. apply (history_inv ops ([], []) ([], [])); [|exact Hok].
  split; [constructor | reflexivity].
Qed.

(** every stored value, after every prefix of the history, is canonical (< m) *)
Theorem history_canonical ops k : ops_ok (length inputs) 0 ops = true ->
  Forall (canon m) (fst (history be p inputs (firstn k ops))).
Proof.
  intros Hok. destruct (history_correct (firstn k ops) (ops_ok_firstn _ _ _ _ Hok)) as [HF _].
  apply (F2_Forall_l (repr m) (canon m) _ _ (repr_canon m) HF).
Qed.
End Hist.

(* ------------------------------------------------------------------ the two backends *)
Section Params.
Variable m : list Z.
Hypothesis Hm : wf m.
Hypothesis Hn : length m <> 0%nat.
Hypothesis Hodd : Z.odd (eval m) = true.
Let n := length m.
Let M := eval m.
Let N := Bn (length m).

Lemma canon_to_limbs v : 0 <= v < M -> canon m (to_limbs n v) /\ eval (to_limbs n v) = v.
Proof.
  intros Hv. pose proof (M_lt_N m Hm Hn) as HMN.
  assert (E : eval (to_limbs n v) = v) by (apply to_limbs_small; unfold M, n in *; lia).
  split; [|exact E]. split; [apply wf_to_limbs|]. split; [apply length_to_limbs|]. rewrite E. exact Hv.
Qed.

(** parameter sets with the defined values: everything the histories need *)
Definition params_good (p : mparams) : Prop :=
  mp_m p = m /\ mp_one p = to_limbs n (N mod M) /\ mp_r2 p = to_limbs n ((N * N) mod M) /\
  (hd 0 m * mp_k p + 1) mod B = 0.

Lemma good_one p : params_good p -> repr m (mp_one p) (1 mod M).
Proof.
  intros (_ & E1 & _). pose proof (M_pos m Hm Hn Hodd) as HM. rewrite E1.
  destruct (canon_to_limbs (N mod M) (Z.mod_pos_bound N M HM)) as (C & E).
  split; [exact C|]. split; [apply Z.mod_pos_bound; exact HM|].
  rewrite E. fold N M. rewrite Zmult_mod_idemp_l. f_equal. lia.
Qed.
Lemma good_r2 p : params_good p -> canon m (mp_r2 p) /\ eval (mp_r2 p) = (N * N) mod M.
Proof.
  intros (_ & _ & E2 & _). pose proof (M_pos m Hm Hn Hodd) as HM. rewrite E2.
  apply canon_to_limbs. apply Z.mod_pos_bound. exact HM.
Qed.

Theorem history_fixed_good p inputs ops : params_good p ->
  Forall (fun x => wf x /\ length x = length m) inputs -> ops_ok (length inputs) 0 ops = true ->
  Forall2 (repr m) (fst (history (backend_fixed p) p inputs ops)) (fst (sp_history M n inputs ops))
  /\ snd (history (backend_fixed p) p inputs ops) = snd (sp_history M n inputs ops).
Proof.
  intros G Hin Hok. pose proof G as (Em & _ & _ & Hk). destruct (good_r2 p G) as (C2 & E2).
  apply (history_correct m (backend_fixed p) p inputs Hm Hn Hodd); try assumption.
  - apply (backend_fixed_ok m (mp_k p) Hm Hn Hodd Hk p Em eq_refl C2 E2).
  - apply good_one. exact G.
Qed.
Theorem history_boxed_good p inputs ops : params_good p ->
  Forall (fun x => wf x /\ length x = length m) inputs -> ops_ok (length inputs) 0 ops = true ->
  Forall2 (repr m) (fst (history (backend_boxed p) p inputs ops)) (fst (sp_history M n inputs ops))
  /\ snd (history (backend_boxed p) p inputs ops) = snd (sp_history M n inputs ops).
Proof.
  intros G Hin Hok. pose proof G as (Em & _ & _ & Hk). destruct (good_r2 p G) as (C2 & E2).
  apply (history_correct m (backend_boxed p) p inputs Hm Hn Hodd); try assumption.
  - apply (backend_boxed_ok m (mp_k p) Hm Hn Hodd Hk p Em eq_refl C2 E2).
  - apply good_one. exact G.
Qed.

Lemma params_fixed_good : params_good (params_fixed m).
Proof.
  destruct (params_fixed_correct m Hm Hn Hodd) as (E & Hk). cbv zeta in E.
  set (p := params_fixed m) in *. clearbody p. subst p. cbn [mp_k] in Hk.
  repeat split; try reflexivity. exact Hk.
Qed.
Lemma params_boxed_good : params_good (params_boxed m).
Proof.
  destruct (params_boxed_correct m Hm Hn Hodd) as (E & Hk). cbv zeta in E.
  set (p := params_boxed m) in *. clearbody p. subst p. cbn [mp_k] in Hk.
  repeat split; try reflexivity. exact Hk.
Qed.
End Params.

(** the history theorem of the fixed-width forms (MontyForm / ConstMontyForm: montgomery_reduction after every product) *)
Theorem history_fixed_correct m inputs ops : wf m -> length m <> 0%nat -> Z.odd (eval m) = true ->
  Forall (fun x => wf x /\ length x = length m) inputs -> ops_ok (length inputs) 0 ops = true ->
  let h := history (backend_fixed (params_fixed m)) (params_fixed m) inputs ops in
  let s := sp_history (eval m) (length m) inputs ops in
  Forall2 (repr m) (fst h) (fst s) /\ snd h = snd s.
Proof.
  intros Hm Hn Hodd Hin Hok. cbv zeta.
  apply (history_fixed_good m Hm Hn Hodd); try assumption. apply params_fixed_good; assumption.
Qed.
(** the history theorem of BoxedMontyForm (almost-Montgomery multiplication + one conditional subtraction) *)
Theorem history_boxed_correct m inputs ops : wf m -> length m <> 0%nat -> Z.odd (eval m) = true ->
  Forall (fun x => wf x /\ length x = length m) inputs -> ops_ok (length inputs) 0 ops = true ->
  let h := history (backend_boxed (params_boxed m)) (params_boxed m) inputs ops in
  let s := sp_history (eval m) (length m) inputs ops in
  Forall2 (repr m) (fst h) (fst s) /\ snd h = snd s.
Proof.
  intros Hm Hn Hodd Hin Hok. cbv zeta.
  apply (history_boxed_good m Hm Hn Hodd); try assumption. apply params_boxed_good; assumption.
Qed.

(** canonical storage after every prefix, both backends *)
Theorem history_fixed_canonical m inputs ops k : wf m -> length m <> 0%nat -> Z.odd (eval m) = true ->
  Forall (fun x => wf x /\ length x = length m) inputs -> ops_ok (length inputs) 0 ops = true ->
  Forall (fun v => wf v /\ length v = length m /\ 0 <= eval v < eval m)
         (fst (history (backend_fixed (params_fixed m)) (params_fixed m) inputs (firstn k ops))).
Proof.
  intros Hm Hn Hodd Hin Hok.
  destruct (history_fixed_correct m inputs (firstn k ops) Hm Hn Hodd Hin (ops_ok_firstn _ _ _ _ Hok)) as [HF _].
  apply (F2_Forall_l (repr m) _ _ _ (repr_canon m) HF).
Qed.
Theorem history_boxed_canonical m inputs ops k : wf m -> length m <> 0%nat -> Z.odd (eval m) = true ->
  Forall (fun x => wf x /\ length x = length m) inputs -> ops_ok (length inputs) 0 ops = true ->
  Forall (fun v => wf v /\ length v = length m /\ 0 <= eval v < eval m)
         (fst (history (backend_boxed (params_boxed m)) (params_boxed m) inputs (firstn k ops))).
Proof.
  intros Hm Hn Hodd Hin Hok.
  destruct (history_boxed_correct m inputs (firstn k ops) Hm Hn Hodd Hin (ops_ok_firstn _ _ _ _ Hok)) as [HF _].
  apply (F2_Forall_l (repr m) _ _ _ (repr_canon m) HF).
Qed.
