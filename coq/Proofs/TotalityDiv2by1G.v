(** C11: the debug assertions inside div2by1 / div3by2 (src/uint/div_limb.rs:125-126, 140, 161-162) hold at every call
    that satisfies the functions' preconditions, including the masked "discarded" calls.  Part 1 is the word-level fact
    for a generic base (the third assertion `r < d || q1 < Word::MAX` sits between the two masked corrections of the
    Moeller-Granlund step; its proof follows Proofs/Div2by1G.v up to the case split). *)
From Coq Require Import ZArith Lia.
Open Scope Z_scope.

Section D.
Variable B : Z.
Hypothesis HB : 2 <= B.

(* (q1, r) after the first masked correction, as computed by the code *)
Definition div2by1_mid_g (u1 u0 d v : Z) : Z * Z :=
  let q := v * u1 + (u1 * B + u0) in
  let q1 := (q / B) mod B in
  let q0 := q mod B in
  let q1 := (q1 + 1) mod B in
  let r := (u0 - q1 * d) mod B in
  if q0 <? r then ((q1 - 1) mod B, (r + d) mod B) else (q1, r).

Lemma mod_small_ a : 0 <= a < B -> a mod B = a.
Proof. intros; apply Z.mod_small; lia. Qed.
Lemma mod_add_B_ a : -B <= a < 0 -> a mod B = a + B.
Proof. intros. symmetry. apply (Z.mod_unique a B (-1) (a+B)); lia. Qed.

Lemma div2by1_mid_ok u1 u0 d v :
  B <= 2 * d -> d < B -> 0 <= u1 < d -> 0 <= u0 < B ->
  v = (B * B - 1) / d - B ->
  let '(q1, r) := div2by1_mid_g u1 u0 d v in r < d \/ q1 < B - 1.
Proof.
  intros Hd1 Hd2 Hu1 Hu0 Hv.
  unfold div2by1_mid_g.
  assert (Hdm := Z.div_mod (B*B-1) d ltac:(lia)).
  assert (Hdr := Z.mod_pos_bound (B*B-1) d ltac:(lia)).
  set (k := B*B - (v+B)*d).
  assert (Hk : 1 <= k <= d) by (unfold k; subst v; nia).
  assert (Hvd : (v + B) * d = B*B - k) by (unfold k; lia).
  assert (Hv0 : 0 <= v) by (subst v; apply Zle_minus_le_0; apply Z.div_le_lower_bound; nia).
  set (q := v * u1 + (u1 * B + u0)).
  assert (Hq : 0 <= q < B*B) by (unfold q; nia).
  assert (Hqdm := Z.div_mod q B ltac:(lia)).
  assert (Hqr := Z.mod_pos_bound q B ltac:(lia)).
  set (q1 := q / B) in *. set (q0 := q mod B) in *.
  assert (Hq1 : 0 <= q1 < B) by (unfold q1; split; [apply Z.div_pos; lia | apply Z.div_lt_upper_bound; lia]).
  rewrite (mod_small_ q1) by lia.
  (* true candidate remainder *)
  set (rt := u1*B + u0 - (q1+1)*d).
  assert (Hkey : B * rt = u0*(B-d) + k*u1 + q0*d - B*d).
  { unfold rt. assert (q * d = (B*B - k)*u1 + u0*d) by (unfold q; nia). nia. }
  assert (P1 : 0 <= u0*(B-d)) by (apply Z.mul_nonneg_nonneg; lia).
  assert (P2 : 0 <= k*u1) by (apply Z.mul_nonneg_nonneg; lia).
  assert (P3 : 0 <= q0*d) by (apply Z.mul_nonneg_nonneg; lia).
  assert (P4 : u0*(B-d) <= (B-1)*(B-d)) by (apply Z.mul_le_mono_nonneg_r; lia).
  assert (P5 : k*u1 <= d*(d-1)) by (apply Z.mul_le_mono_nonneg; lia).
  assert (P6 : q0*d <= (B-1)*d) by (apply Z.mul_le_mono_nonneg_r; lia).
  assert (Hlo : -d <= rt).
  { assert (0 <= B * (rt + d)) by lia. 
    destruct (Z_lt_ge_dec (rt + d) 0) as [Hn|]; [|lia].
    assert (B * (rt + d) <= B * (-1)) by (apply Z.mul_le_mono_nonneg_l; lia). lia. }
  assert (Hhi1 : rt < B - d \/ rt < q0).
  { destruct (Z_lt_ge_dec rt q0) as [|Hge]; [right; lia|left].
    assert (Q1 : q0 * d <= rt * d) by (apply Z.mul_le_mono_nonneg_r; lia).
    assert (Q2 : (B - d) * rt <= (B - d) * (B - d - 1) - d) by lia.
    destruct (Z_lt_ge_dec rt (B - d)) as [|Hge2]; [lia|].
    assert (Hbd : 0 <= B - d) by lia.
    assert (Q3 : (B - d) * (B - d) <= (B - d) * rt) by (apply Z.mul_le_mono_nonneg_l; lia).
    lia. }
  assert (Hlo2 : rt < 0 -> q0 + 1 - B <= rt).
  { intros Hneg.
    (* B*rt >= q0*d - B*d ; and rt<0 ; want rt >= q0+1-B *)
    destruct (Z_lt_ge_dec rt (q0 + 1 - B)) as [Hl|]; [|lia]. exfalso.
    assert (R1 : B * rt <= B * (q0 - B)) by (apply Z.mul_le_mono_nonneg_l; lia).
    assert (R2 : B * rt >= q0 * d - B * d) by lia.
    (* q0*d - B*d <= B*q0 - B*B  ->  (B - q0) * (B - d) <= 0 but both positive... *)
    assert (R3 : 0 < (B - q0) * (B - d)) by (apply Z.mul_pos_pos; lia).
    lia. }
  assert (Hhi : rt < B) by lia.
  (* r as computed equals rt mod B *)
  assert (Hr : (u0 - ((q1 + 1) mod B) * d) mod B = rt mod B).
  { unfold rt. rewrite Zminus_mod. rewrite Zmult_mod_idemp_l. rewrite <- Zminus_mod.
    replace (u1 * B + u0 - (q1 + 1) * d) with ((u0 - (q1+1)*d) + u1 * B) by ring.
    rewrite Z.mod_add by lia. reflexivity. }
  rewrite Hr.
  destruct (Z_lt_ge_dec rt 0) as [Hneg|Hpos].
  - rewrite (mod_add_B_ rt) by lia.
    assert (q0 <? rt + B = true) as -> by (apply Z.ltb_lt; specialize (Hlo2 Hneg); lia).
    assert (Hrd : (rt + B + d) mod B = rt + d).
    { replace (rt + B + d) with ((rt + d) + 1 * B) by ring. rewrite Z.mod_add by lia. apply mod_small_; lia. }
    rewrite Hrd. left. lia.
  - rewrite (mod_small_ rt) by lia.
    assert (Hq1lt : q1 + 1 < B).
    { unfold rt in Hpos. destruct (Z_lt_ge_dec (q1+1) B); [lia|].
      assert (B*d <= (q1+1)*d) by (apply Z.mul_le_mono_nonneg_r; lia).
      assert (u1*B <= (d-1)*B) by (apply Z.mul_le_mono_nonneg_r; lia). lia. }
    rewrite (mod_small_ (q1+1)) by lia.
    destruct (q0 <? rt) eqn:Hc.
    + replace (q1 + 1 - 1) with q1 by ring. rewrite (mod_small_ q1) by lia. right. lia.
    + apply Z.ltb_ge in Hc.
      destruct (Z_lt_ge_dec rt d) as [|Hc2]; [left; assumption|right].
      destruct (Z_lt_ge_dec (q1 + 2) B) as [Hs|Hs]; [lia|exfalso]. unfold rt in *.
      assert (B*d <= (q1+2)*d) by (apply Z.mul_le_mono_nonneg_r; lia).
      assert (u1*B <= (d-1)*B) by (apply Z.mul_le_mono_nonneg_r; lia). lia.
Qed.
End D.
