(** C15 (glue tables, 2): the model table and the spec table of Model/Glue2.v agree on EVERY key, for all well-formed
    argument lists that satisfy the typing side condition of the key, in both profiles, wherever the spec entry is
    defined.  [run_tab t k dbg a] is the table lookup of Model/Api.v (Proofs/TotalityP.v).
    Side conditions ([glue2_tbl_ty]):
      "glue2.cmf_serde_de"    the MODULUS argument has LIMBS limbs (Rust's types);
      "glue2.params_ct_eq_lz" the two mod_leading_zeros arguments are u32 values (before the repair of finding F34 the
                              key needed "same mod_leading_zeros": ConstantTimeEq for MontyParams did not compare
                              that field, the derived `PartialEq` ("glue2.params_eq_lz") did). *)
From CB Require Import Model.Limbs Model.AddSub Model.Cmp Model.Conv Model.Monty Model.Glue Model.Glue2
  Proofs.WordP Proofs.LimbsP Proofs.CmpP Proofs.ConvDigitsP Proofs.TotalityP Proofs.MontyFormP.
From CB Require Proofs.ConvTablesP Proofs.BitsTablesP Proofs.CmpTablesP Proofs.MontyTablesP Proofs.GlueTablesP Proofs.BitsWordP Proofs.SqrtLimbsP.
From Coq Require Import ZArith Lia List String Bool.
Import ListNotations.
Open Scope Z_scope.
Notation length := List.length.

(* ------------------------------------------------------------------ typing side conditions (boolean) *)
Definition ty_modulus_limbs (a : list (list Z)) : bool := (length (arg 2 a) =? g_n 1 a)%nat.
Definition ty_u32_lz (a : list (list Z)) : bool := (sarg 1 a <? 2 ^ 32) && (sarg 2 a <? 2 ^ 32).   (* mod_leading_zeros : u32 *)

Open Scope string_scope.
Definition glue2_tbl_ty : GlueTablesP.gtyping :=
  [("glue2.cmf_serde_de", ty_modulus_limbs); ("glue2.params_ct_eq_lz", ty_u32_lz)].
Close Scope string_scope.

Definition tbl_ok (k : string) : Prop :=
  forall dbg a, wf_args a -> GlueTablesP.gtypedb glue2_tbl_ty k a = true ->
    run_tab ops_glue2_spec k dbg a <> Unsupported ->
    run_tab ops_glue2_model k dbg a = run_tab ops_glue2_spec k dbg a.

Ltac open_ty H :=
  unfold GlueTablesP.gtypedb in H;
  lazy beta iota delta [lookup glue2_tbl_ty String.eqb Ascii.eqb Bool.eqb] in H.
Ltac start :=
  let dbg := fresh "dbg" in let a := fresh "a" in
  let Hwf := fresh "Hwf" in let Hty := fresh "Hty" in let Hdom := fresh "Hdom" in
  intros dbg a Hwf Hty Hdom; open_ty Hty; revert Hdom; open_tabs ops_glue2_model ops_glue2_spec; intros Hdom.

(* ------------------------------------------------------------------ small facts *)
Lemma ch_and_b2z x y : ch_and (b2z x) (b2z y) = b2z (x && y).
Proof. destruct x, y; reflexivity. Qed.
Lemma ch_and_0_l x : ch_and 0 x = 0.
Proof. unfold ch_and, wand. apply Z.land_0_l. Qed.
Lemma list_eqb_refl l : list_eqb l l = true.
Proof. induction l as [|x l IH]; [reflexivity|]. cbn [list_eqb]. rewrite Z.eqb_refl, IH. reflexivity. Qed.
Lemma spec_neg_inv_word x : is_word (spec_neg_inv x).
Proof. unfold spec_neg_inv, is_word. apply Z.mod_pos_bound. apply B_pos. Qed.
Lemma uint_ct_eq_refl x : wf x -> uint_ct_eq x x = 1.
Proof. intros H. rewrite uint_ct_eq_spec by (assumption || reflexivity). rewrite Z.eqb_refl. reflexivity. Qed.
Lemma limb_ct_eq_refl x : is_word x -> limb_ct_eq x x = 1.
Proof. intros H. rewrite limb_ct_eq_spec by assumption. rewrite Z.eqb_refl. reflexivity. Qed.

Lemma two_moduli_facts m1 m2 : g2sp_two_moduli m1 m2 = true ->
  (Z.odd (eval m1) = true /\ length m1 <> 0%nat) /\ (Z.odd (eval m2) = true /\ length m2 <> 0%nat) /\
  length m1 = length m2.
Proof.
  unfold g2sp_two_moduli. intros H. apply andb_prop in H. destruct H as [H H3]. apply andb_prop in H.
  destruct H as [H1 H2]. apply MontyTablesP.odd_modulus_facts in H1, H2. apply Nat.eqb_eq in H3. tauto.
Qed.

(** subtle's u32::ct_eq on u32 values *)
Lemma u32_ct_eq_spec a b : 0 <= a < 2 ^ 32 -> 0 <= b < 2 ^ 32 -> u32_ct_eq a b = b2z (a =? b).
Proof.
  intros Ha Hb. unfold u32_ct_eq. cbv zeta.
  destruct (Z.eqb_spec a b) as [->|Hne].
  - rewrite Z.lxor_nilpotent. reflexivity.
  - set (x := Z.lxor a b).
    assert (Hx : 0 <= x < 2 ^ 32) by (unfold x; apply BitsWordP.lxor_bound; lia).
    assert (Hx0 : x <> 0) by (unfold x; intros E; apply Z.lxor_eq in E; contradiction).
    assert (Hn : (- x) mod 2 ^ 32 = 2 ^ 32 - x).
    { symmetry. apply (Z.mod_unique_pos _ _ (-1)); lia. }
    rewrite Hn.
    assert (Hl : 2 ^ 31 <= Z.lor x (2 ^ 32 - x) < 2 ^ 32).
    { split.
      - destruct (Z_lt_ge_dec x (2 ^ 31)).
        + apply Z.le_trans with (2 ^ 32 - x); [lia|]. rewrite Z.lor_comm. apply SqrtLimbsP.lor_ge_l; lia.
        + apply Z.le_trans with x; [lia|]. apply SqrtLimbsP.lor_ge_l; lia.
      - apply BitsWordP.lor_bound; lia. }
    replace (Z.lor x (2 ^ 32 - x) / 2 ^ 31) with 1; [reflexivity|].
    apply (Z.div_unique _ (2 ^ 31) 1 (Z.lor x (2 ^ 32 - x) - 2 ^ 31)); lia.
Qed.
Lemma u32_ct_eq_refl a : u32_ct_eq a a = 1.
Proof. unfold u32_ct_eq. cbv zeta. rewrite Z.lxor_nilpotent. reflexivity. Qed.

(** ConstantTimeEq for MontyParams on the parameter sets the constructors build: truthy exactly when the documented
    parameters of the two moduli are all equal *)
Lemma params_ct_eq_honest m1 m2 : wf m1 -> wf m2 -> g2sp_two_moduli m1 m2 = true ->
  g2_params_ct_eq (params_fixed m1) (params_fixed m2) = b2z (list_eqb (g2sp_fields m1) (g2sp_fields m2)).
Proof.
  intros W1 W2 H. destruct (two_moduli_facts m1 m2 H) as ((O1 & N1) & (O2 & N2) & L).
  destruct (params_fixed_correct m1 W1 N1 O1) as (E1 & _). destruct (params_fixed_correct m2 W2 N2 O2) as (E2 & _).
  cbv zeta in E1, E2. rewrite E1, E2. clear E1 E2. unfold g2_params_ct_eq. cbn [mp_m mp_one mp_r2 mp_r3 mp_k mp_lz].
  destruct (Z.eq_dec (eval m1) (eval m2)) as [E|NE].
  - assert (m1 = m2) by (apply eval_eq_iff; assumption). subst m2.
    rewrite !uint_ct_eq_refl by (assumption || apply wf_to_limbs).
    rewrite limb_ct_eq_refl by apply spec_neg_inv_word. rewrite u32_ct_eq_refl. rewrite list_eqb_refl. reflexivity.
  - rewrite (uint_ct_eq_spec m1 m2) by assumption.
    apply Z.eqb_neq in NE. rewrite NE. cbn [b2z]. rewrite !ch_and_0_l.
    unfold g2sp_fields. cbv zeta. cbn [list_eqb]. rewrite NE. reflexivity.
Qed.

(* ------------------------------------------------------------------ one lemma per key *)
Open Scope string_scope. Open Scope Z_scope.

Lemma tbl_params_ct_eq : tbl_ok "glue2.params_ct_eq".
Proof.
  start. destruct (g2sp_two_moduli (arg 0 a) (arg 1 a)) eqn:D; cbn [negb] in *; [|contradiction Hdom; reflexivity].
  unfold vb, sp_bool, vbool. rewrite params_ct_eq_honest by (try apply wf_arg; assumption). reflexivity.
Qed.

Lemma tbl_monty_ct_eq : tbl_ok "glue2.monty_ct_eq".
Proof.
  start.
  destruct (g2sp_two_moduli (arg 0 a) (arg 2 a) && (ln 1 a =? ln 0 a)%nat && (ln 3 a =? ln 0 a)%nat) eqn:D;
    cbn [negb] in *; [|contradiction Hdom; reflexivity].
  apply andb_prop in D. destruct D as [D L3]. apply andb_prop in D. destruct D as [D L1].
  apply Nat.eqb_eq in L1, L3. unfold ln in L1, L3.
  unfold vb, sp_bool, vbool, g2_form_ct_eq, ev.
  rewrite params_ct_eq_honest by (try apply wf_arg; assumption).
  rewrite uint_ct_eq_spec by (try apply wf_arg; try assumption; congruence).
  rewrite ch_and_b2z. reflexivity.
Qed.

Lemma tbl_params_ct_eq_lz : tbl_ok "glue2.params_ct_eq_lz".
Proof.
  start. cbv zeta. destruct (odd_modulus (arg 0 a)) eqn:D; cbn [negb] in *; [|contradiction Hdom; reflexivity].
  unfold ty_u32_lz in Hty. apply andb_prop in Hty. destruct Hty as [H1 H2]. apply Z.ltb_lt in H1, H2.
  apply MontyTablesP.odd_modulus_facts in D. destruct D as [O N]. pose proof (wf_arg 0 a Hwf) as W.
  destruct (params_fixed_correct (arg 0 a) W N O) as (E & _). cbv zeta in E. rewrite E. clear E.
  unfold g2_params_ct_eq, g2_with_lz. cbn [mp_m mp_one mp_r2 mp_r3 mp_k mp_lz].
  rewrite !uint_ct_eq_refl by (assumption || apply wf_to_limbs).
  rewrite limb_ct_eq_refl by apply spec_neg_inv_word.
  pose proof (sarg_word 1 a Hwf) as S1. pose proof (sarg_word 2 a Hwf) as S2. unfold is_word in S1, S2.
  rewrite u32_ct_eq_spec by lia. unfold vb, sp_bool, vbool. destruct (sarg 1 a =? sarg 2 a); reflexivity.
Qed.

Lemma tbl_params_eq_lz : tbl_ok "glue2.params_eq_lz".
Proof.
  start. cbv zeta. destruct (odd_modulus (arg 0 a)) eqn:D; cbn [negb] in *; [|contradiction Hdom; reflexivity].
  unfold g2_params_eq, g2_with_lz, sp_bool. cbn [mp_m mp_one mp_r2 mp_r3 mp_k mp_lz].
  rewrite !list_eqb_refl, Z.eqb_refl. reflexivity.
Qed.

Lemma tbl_cmf_serde_de : tbl_ok "glue2.cmf_serde_de".
Proof.
  start. unfold g2_cmf_serde_de, g2sp_cmf_serde_de in *.
  destruct (ConvTablesP.bytes_dom' _ _ Hdom) as (Hb & E & Hd). rewrite E. clear E Hdom.
  assert (Hs : gsp_uint_de (g_n 1 a) (arg 0 a) <> Unsupported) by (intros E0; apply Hd; rewrite E0; reflexivity).
  rewrite (GlueTablesP.de_eq a (arg 0 a) Hwf Hb Hs).
  unfold ty_modulus_limbs in Hty. apply Nat.eqb_eq in Hty.
  unfold gsp_uint_de in *.
  destruct (Nat.ltb (length (arg 0 a)) (8 + 8 * g_n 1 a)); [reflexivity|].
  destruct (negb (horner 256 (rev (firstn 8 (arg 0 a))) =? 8 * Z.of_nat (g_n 1 a))); [reflexivity|].
  destruct (Nat.eqb (length (arg 0 a)) (8 + 8 * g_n 1 a)); [|reflexivity].
  rewrite uint_cmp_spec by (try apply wf_to_limbs; try apply wf_arg; try assumption; rewrite length_to_limbs; congruence).
  rewrite CmpTablesP.is_lt_ordz. reflexivity.
Qed.

Lemma tbl_zeroize_monty_form : tbl_ok "glue2.zeroize_monty_form".
Proof. start. cbv zeta. unfold g2_zero_params. rewrite !BitsTablesP.zeros_to_limbs. reflexivity. Qed.

Lemma tbl_zeroize_monty_params : tbl_ok "glue2.zeroize_monty_params".
Proof. start. cbv zeta. unfold g2_zero_params. rewrite !BitsTablesP.zeros_to_limbs. reflexivity. Qed.

Lemma tbl_zeroize_boxed_form : tbl_ok "glue2.zeroize_boxed_form".
Proof.
  start. destruct (odd_modulus (arg 0 a)) eqn:D; cbn [negb] in *; [|contradiction Hdom; reflexivity].
  apply MontyTablesP.odd_modulus_facts in D. destruct D as [O N]. pose proof (wf_arg 0 a Hwf) as W.
  destruct (params_boxed_correct (arg 0 a) W N O) as (E & _). cbv zeta in E. rewrite E. clear E.
  unfold g2_params_all, g2sp_params_limbs. cbv zeta. cbn [mp_m mp_one mp_r2 mp_r3 mp_k mp_lz].
  rewrite BitsTablesP.zeros_to_limbs. reflexivity.
Qed.

Lemma tbl_form_bits_precision : tbl_ok "glue2.form_bits_precision".
Proof. start. unfold bitsZ. rewrite Z.mul_comm. reflexivity. Qed.

Lemma tbl_debug_nonempty : tbl_ok "glue2.debug_nonempty".
Proof. start. reflexivity. Qed.
Close Scope string_scope.

(* ------------------------------------------------------------------ the area theorem *)
Create HintDb c15glue2.
#[export] Hint Resolve tbl_params_ct_eq tbl_monty_ct_eq tbl_params_ct_eq_lz tbl_params_eq_lz tbl_cmf_serde_de
  tbl_zeroize_monty_form tbl_zeroize_monty_params tbl_zeroize_boxed_form tbl_form_bits_precision
  tbl_debug_nonempty : c15glue2.

Lemma glue2_all_keys_ok : forall k, In k (map fst ops_glue2_model) -> tbl_ok k.
Proof.
  intros k Hin. cbn [map fst ops_glue2_model In] in Hin.
  repeat (destruct Hin as [<- | Hin]; [solve [eauto with nocore c15glue2] |]); contradiction.
Qed.

Theorem glue2_tables_agree : forall k dbg a,
  In k (map fst ops_glue2_model) -> wf_args a -> GlueTablesP.gtypedb glue2_tbl_ty k a = true ->
  run_tab ops_glue2_spec k dbg a <> Unsupported ->
  run_tab ops_glue2_model k dbg a = run_tab ops_glue2_spec k dbg a.
Proof. intros k dbg a Hin. exact (glue2_all_keys_ok k Hin dbg a). Qed.

Lemma glue2_key_set :
  map fst ops_glue2_spec = map fst ops_glue2_model /\ length (map fst ops_glue2_model) = 10%nat.
Proof. split; reflexivity. Qed.

(** Since the repair of finding F34 (/repo d240cb2) `ConstantTimeEq for MontyParams` compares mod_leading_zeros too: two
    parameter sets of the modulus 3 that differ only in that field (62 and 61) are neither ct_eq nor == *)
Lemma params_ct_eq_sees_lz :
  run_tab ops_glue2_model "glue2.params_ct_eq_lz" false [[3]; [62]; [61]] = Val [[0]] /\
  run_tab ops_glue2_spec "glue2.params_ct_eq_lz" false [[3]; [62]; [61]] = Val [[0]] /\
  run_tab ops_glue2_model "glue2.params_eq_lz" false [[3]; [62]; [61]] = Val [[0]] /\
  run_tab ops_glue2_model "glue2.params_ct_eq_lz" false [[3]; [62]; [62]] = Val [[1]].
Proof. vm_compute. repeat split; reflexivity. Qed.

(** The ConstMontyForm decoder is fail-closed at the modulus: at MODULUS = 5 (one limb) the payloads of 4, 5, 6 and
    2^64 - 1 decode to 4 / error / error / error, in the model (the code) and in the spec *)
Lemma cmf_serde_de_boundary :
  let pay v := [8; 0; 0; 0; 0; 0; 0; 0] ++ v in
  let run t v := run_tab t "glue2.cmf_serde_de" false [pay v; [1]; [5]] in
  run ops_glue2_model [4; 0; 0; 0; 0; 0; 0; 0] = Val [[4]] /\ run ops_glue2_spec [4; 0; 0; 0; 0; 0; 0; 0] = Val [[4]] /\
  run ops_glue2_model [5; 0; 0; 0; 0; 0; 0; 0] = ErrV 0 /\ run ops_glue2_spec [5; 0; 0; 0; 0; 0; 0; 0] = ErrV 0 /\
  run ops_glue2_model [6; 0; 0; 0; 0; 0; 0; 0] = ErrV 0 /\ run ops_glue2_spec [6; 0; 0; 0; 0; 0; 0; 0] = ErrV 0 /\
  run ops_glue2_model [255; 255; 255; 255; 255; 255; 255; 255] = ErrV 0 /\
  run ops_glue2_spec [255; 255; 255; 255; 255; 255; 255; 255] = ErrV 0.
Proof. vm_compute. repeat split; reflexivity. Qed.
