(** C05 proofs, part 5: the double-width shifts Uint::overflowing_shl_vartime_wide / shr_vartime_wide. *)
From CB Require Import Model.Limbs Model.AddSub Model.Bits Proofs.WordP Proofs.LimbsP Proofs.AddSubP
  Proofs.BitsWordP Proofs.ShiftP Proofs.LadderP Proofs.BitQueryP.
From Coq Require Import ZArith Lia List Bool.
Open Scope Z_scope.

Lemma shl_vt_some x d : wf x -> 0 <= d < bitsZ' x ->
  exists v, ct_expect (uint_overflowing_shl_vartime x d) = Some v /\ wf v /\ length v = length x /\
            eval v = (eval x * 2 ^ d) mod Bn (length x).
Proof.
  intros Hw Hd. pose proof (shl_vartime_correct x d Hw ltac:(lia)) as H. cbn zeta in H.
  destruct (Z.ltb_spec d (bitsZ' x)); [|lia]. destruct H as (Hc & W & L & E).
  destruct (uint_overflowing_shl_vartime x d) as [v c]. cbn [fst snd] in *. subst c.
  exists v. split; [apply ct_expect_some|]. auto.
Qed.

Lemma shr_vt_some x d : wf x -> 0 <= d < bitsZ' x ->
  exists v, ct_expect (uint_overflowing_shr_vartime x d) = Some v /\ wf v /\ length v = length x /\
            eval v = eval x / 2 ^ d.
Proof.
  intros Hw Hd. pose proof (shr_vartime_correct x d Hw ltac:(lia)) as H. cbn zeta in H.
  destruct (Z.ltb_spec d (bitsZ' x)); [|lia]. destruct H as (Hc & W & L & E).
  destruct (uint_overflowing_shr_vartime x d) as [v c]. cbn [fst snd] in *. subst c.
  exists v. split; [apply ct_expect_some|]. auto.
Qed.

Lemma shl_vt_none x d : wf x -> bitsZ' x <= d -> ct_expect (uint_overflowing_shl_vartime x d) = None.
Proof.
  intros Hw Hd. pose proof (shl_vartime_correct x d Hw ltac:(unfold bitsZ' in *; lia)) as H. cbn zeta in H.
  destruct (Z.ltb_spec d (bitsZ' x)); [lia|]. destruct H as (Hc & _).
  destruct (uint_overflowing_shl_vartime x d) as [v c]. cbn [fst snd] in *. subst c. reflexivity.
Qed.

Lemma shr_vt_none x d : wf x -> bitsZ' x <= d -> ct_expect (uint_overflowing_shr_vartime x d) = None.
Proof.
  intros Hw Hd. pose proof (shr_vartime_correct x d Hw ltac:(unfold bitsZ' in *; lia)) as H. cbn zeta in H.
  destruct (Z.ltb_spec d (bitsZ' x)); [lia|]. destruct H as (Hc & _).
  destruct (uint_overflowing_shr_vartime x d) as [v c]. cbn [fst snd] in *. subst c. reflexivity.
Qed.

Section Wide.
  Variables lo hi : list Z.
  Hypothesis Wlo : wf lo.
  Hypothesis Whi : wf hi.
  Hypothesis Hlen : length hi = length lo.
  Hypothesis Hne : lo <> [].
  Let n := length lo.
  Let bits := bitsZ' lo.
  Let M := Bn n.
  Let L := eval lo.
  Let H := eval hi.

  Lemma wide_facts : 64 <= bits /\ M = 2 ^ bits /\ 0 <= L < M /\ 0 <= H < M /\ bitsZ' hi = bits /\ 0 < M.
  Proof.
    unfold bits, M, L, H, n. pose proof (bits_ge_64 lo Hne). pose proof (eval_bounds lo Wlo).
    pose proof (eval_bounds hi Whi) as Hh. rewrite Hlen in Hh. pose proof (Bn_pos (length lo)).
    repeat split; try lia.
    - rewrite Bn_pow. reflexivity.
    - unfold bitsZ'. rewrite Hlen. reflexivity.
  Qed.

  Lemma uint_shl_vartime_wide_pos s : 0 < s < 2 * bits ->
    exists l h, uint_shl_vartime_wide lo hi s = Some (Some (l, h)) /\
      wf l /\ wf h /\ length l = n /\ length h = n /\
      eval l + M * eval h = ((L + M * H) * 2 ^ s) mod (M * M).
  Proof.
    intros Hs. destruct wide_facts as (H64 & HM & HL & HH & Hbh & HMp).
    unfold uint_shl_vartime_wide. unfold lenZ. fold (bitsZ' lo). fold bits.
    destruct (Z.leb_spec (2 * bits) s); [lia|].
    destruct (Z.leb_spec bits s) as [Hhi|Hlo].
    - (* BITS <= s < 2 BITS *)
      destruct (shl_vt_some lo (s - bits) Wlo ltac:(fold bits; lia)) as (u & Eu & Wu & Lu & Vu).
      rewrite Eu. exists (zeros (length lo)), u. split; [reflexivity|].
      split; [apply wf_zeros|]. split; [exact Wu|]. split; [apply length_zeros|]. split; [exact Lu|].
      rewrite eval_zeros, Vu. fold n; fold M; fold L.
      set (T := 2 ^ (s - bits)). assert (HT : 2 ^ s = M * T).
      { rewrite HM. unfold T. rewrite <- pow2_split by lia. f_equal. lia. }
      rewrite HT. replace ((L + M * H) * (M * T)) with (M * ((L + M * H) * T)) by ring.
      rewrite Z.mul_mod_distr_l by lia.
      replace ((L + M * H) * T) with (L * T + (H * T) * M) by ring. rewrite Z.mod_add by lia. lia.
    - (* 0 < s < BITS *)
      destruct (Z.eqb_spec s 0); [lia|].
      destruct (shl_vt_some lo s Wlo ltac:(fold bits; lia)) as (nl & Enl & Wnl & Lnl & Vnl).
      destruct (shr_vt_some lo (bits - s) Wlo ltac:(fold bits; lia)) as (ul & Eul & Wul & Lul & Vul).
      destruct (shl_vt_some hi s Whi ltac:(rewrite Hbh; lia)) as (uh & Euh & Wuh & Luh & Vuh).
      rewrite Enl, Eul, Euh.
      destruct (limbs_or_correct ul uh Wul Wuh ltac:(lia)) as (Wo & Lo & Eo).
      exists nl, (limbs_or ul uh). split; [reflexivity|].
      split; [exact Wnl|]. split; [exact Wo|]. split; [exact Lnl|]. split; [unfold n; lia|].
      rewrite Eo, Vnl, Vul, Vuh, Hlen. fold n; fold M; fold L; fold H.
      pose proof (pow2_pos s ltac:(lia)) as Hps. pose proof (pow2_pos (bits - s) ltac:(lia)) as Hpb.
      assert (HMs : M = 2 ^ (bits - s) * 2 ^ s) by (rewrite HM, <- pow2_split by lia; f_equal; lia).
      destruct (shl_split_gen L s bits ltac:(lia) ltac:(lia)) as (SL1 & SL2).
      destruct (shl_split_gen H s bits ltac:(lia) ltac:(lia)) as (SH1 & SH2).
      rewrite <- HM in *.
      set (ulv := L / 2 ^ (bits - s)) in *. set (nlv := (L * 2 ^ s) mod M) in *.
      set (uhv := (H * 2 ^ s) mod M) in *.
      assert (Hul : 0 <= ulv < 2 ^ s).
      { unfold ulv. split; [apply Z.div_pos; lia|]. apply Z.div_lt_upper_bound; lia. }
      assert (Hnl : 0 <= nlv < M) by (apply Z.mod_pos_bound; lia).
      pose proof (Z.mod_pos_bound H (2 ^ (bits - s)) ltac:(lia)) as Hhm.
      assert (Huh : 0 <= uhv <= M - 2 ^ s).
      { rewrite SH2. split; [apply Z.mul_nonneg_nonneg; lia|].
        assert (H mod 2 ^ (bits - s) * 2 ^ s <= (2 ^ (bits - s) - 1) * 2 ^ s) by (apply Z.mul_le_mono_nonneg_r; lia).
        lia. }
      assert (Hor : Z.lor ulv uhv = uhv + ulv).
      { rewrite Z.lor_comm. rewrite SH2. apply lor_add_disjoint; lia. }
      rewrite Hor.
      assert (EQ : (L + M * H) * 2 ^ s = nlv + M * (ulv + H * 2 ^ s)).
      { replace ((L + M * H) * 2 ^ s) with (L * 2 ^ s + M * (H * 2 ^ s)) by ring. rewrite SL1. ring. }
      rewrite EQ.
      rewrite mod_cons by lia. f_equal. f_equal.
      rewrite SH1. replace (ulv + (M * (H / 2 ^ (bits - s)) + uhv)) with (ulv + uhv + (H / 2 ^ (bits - s)) * M) by ring.
      rewrite Z.mod_add by lia. rewrite Z.mod_small by lia. lia.
  Qed.

  Lemma uint_shr_vartime_wide_pos s : 0 < s < 2 * bits ->
    exists l h, uint_shr_vartime_wide lo hi s = Some (Some (l, h)) /\
      wf l /\ wf h /\ length l = n /\ length h = n /\
      eval l + M * eval h = (L + M * H) / 2 ^ s.
  Proof.
    intros Hs. destruct wide_facts as (H64 & HM & HL & HH & Hbh & HMp).
    unfold uint_shr_vartime_wide. unfold lenZ. fold (bitsZ' lo). fold bits.
    destruct (Z.leb_spec (2 * bits) s); [lia|].
    destruct (Z.leb_spec bits s) as [Hhi|Hlo].
    - destruct (shr_vt_some hi (s - bits) Whi ltac:(rewrite Hbh; lia)) as (u & Eu & Wu & Lu & Vu).
      rewrite Eu. exists u, (zeros (length lo)). split; [reflexivity|].
      split; [exact Wu|]. split; [apply wf_zeros|]. split; [unfold n; lia|]. split; [apply length_zeros|].
      rewrite eval_zeros, Vu. fold n; fold M; fold L; fold H.
      set (T := 2 ^ (s - bits)). assert (HT : 2 ^ s = M * T).
      { rewrite HM. unfold T. rewrite <- pow2_split by lia. f_equal. lia. }
      assert (0 < T) by (apply pow2_pos; lia).
      rewrite HT. rewrite <- Z.div_div by lia.
      replace (L + M * H) with (L + H * M) by ring. rewrite Z.div_add by lia.
      rewrite (Z.div_small L M) by lia. rewrite Z.add_0_l. lia.
    - destruct (Z.eqb_spec s 0); [lia|].
      destruct (shr_vt_some hi s Whi ltac:(rewrite Hbh; lia)) as (nu & Enu & Wnu & Lnu & Vnu).
      destruct (shl_vt_some hi (bits - s) Whi ltac:(rewrite Hbh; lia)) as (lh & Elh & Wlh & Llh & Vlh).
      destruct (shr_vt_some lo s Wlo ltac:(fold bits; lia)) as (ll & Ell & Wll & Lll & Vll).
      rewrite Enu, Elh, Ell.
      destruct (limbs_or_correct ll lh Wll Wlh ltac:(lia)) as (Wo & Lo & Eo).
      exists (limbs_or ll lh), nu. split; [reflexivity|].
      split; [exact Wo|]. split; [exact Wnu|]. split; [unfold n; lia|]. split; [unfold n; lia|].
      rewrite Eo, Vnu, Vlh, Vll, Hlen. fold n; fold M; fold L; fold H.
      pose proof (pow2_pos s ltac:(lia)) as Hps. pose proof (pow2_pos (bits - s) ltac:(lia)) as Hpb.
      assert (HMs : M = 2 ^ (bits - s) * 2 ^ s) by (rewrite HM, <- pow2_split by lia; f_equal; lia).
      destruct (shl_split_gen H (bits - s) bits ltac:(lia) ltac:(lia)) as (_ & SH2).
      replace (bits - (bits - s)) with s in SH2 by lia. rewrite <- HM in SH2.
      rewrite SH2.
      assert (Hll : 0 <= L / 2 ^ s < 2 ^ (bits - s)).
      { split; [apply Z.div_pos; lia|]. apply Z.div_lt_upper_bound; lia. }
      rewrite Z.lor_comm. rewrite lor_add_disjoint by lia.
      pose proof (Z.div_mod H (2 ^ s) ltac:(lia)) as Hdm.
      replace (L + M * H) with (L + (2 ^ (bits - s) * H) * 2 ^ s) by (rewrite HMs; ring).
      rewrite Z.div_add by lia. rewrite Hdm at 3. rewrite HMs. ring.
  Qed.

  Theorem uint_wide_overflow s : 2 * bits <= s ->
    uint_shl_vartime_wide lo hi s = Some None /\ uint_shr_vartime_wide lo hi s = Some None.
  Proof.
    intros Hs. unfold uint_shl_vartime_wide, uint_shr_vartime_wide. unfold lenZ. fold (bitsZ' lo). fold bits.
    destruct (Z.leb_spec (2 * bits) s); [|lia]. split; reflexivity.
  Qed.

  (** a shift by 0 returns the input (the branch added by the fix of the zero-shift panic) *)
  Lemma uint_wide_shift_zero :
    uint_shl_vartime_wide lo hi 0 = Some (Some (lo, hi)) /\ uint_shr_vartime_wide lo hi 0 = Some (Some (lo, hi)).
  Proof.
    destruct wide_facts as (H64 & HM & HL & HH & Hbh & HMp).
    unfold uint_shl_vartime_wide, uint_shr_vartime_wide. unfold lenZ. fold (bitsZ' lo). fold bits.
    destruct (Z.leb_spec (2 * bits) 0); [lia|]. destruct (Z.leb_spec bits 0); [lia|].
    split; reflexivity.
  Qed.

  Theorem uint_shl_vartime_wide_correct s : 0 <= s < 2 * bits ->
    exists l h, uint_shl_vartime_wide lo hi s = Some (Some (l, h)) /\
      wf l /\ wf h /\ length l = n /\ length h = n /\
      eval l + M * eval h = ((L + M * H) * 2 ^ s) mod (M * M).
  Proof.
    intros Hs. destruct (Z.eq_dec s 0) as [->|Hnz]; [|apply uint_shl_vartime_wide_pos; lia].
    destruct wide_facts as (H64 & HM & HL & HH & Hbh & HMp).
    exists lo, hi. split; [apply uint_wide_shift_zero|].
    split; [exact Wlo|]. split; [exact Whi|]. split; [reflexivity|]. split; [exact Hlen|].
    fold L H. rewrite Z.pow_0_r, Z.mul_1_r. symmetry. apply Z.mod_small.
    assert (M * H <= M * (M - 1)) by (apply Z.mul_le_mono_nonneg_l; lia).
    assert (0 <= M * H) by (apply Z.mul_nonneg_nonneg; lia). lia.
  Qed.

  Theorem uint_shr_vartime_wide_correct s : 0 <= s < 2 * bits ->
    exists l h, uint_shr_vartime_wide lo hi s = Some (Some (l, h)) /\
      wf l /\ wf h /\ length l = n /\ length h = n /\
      eval l + M * eval h = (L + M * H) / 2 ^ s.
  Proof.
    intros Hs. destruct (Z.eq_dec s 0) as [->|Hnz]; [|apply uint_shr_vartime_wide_pos; lia].
    exists lo, hi. split; [apply uint_wide_shift_zero|].
    split; [exact Wlo|]. split; [exact Whi|]. split; [reflexivity|]. split; [exact Hlen|].
    fold L H. rewrite Z.pow_0_r, Z.div_1_r. reflexivity.
  Qed.
End Wide.
