(** C09 proofs, part 2: the 4-bit fixed-window ladder of src/modular/pow.rs.
    Everything is proved for an ABSTRACT Montgomery multiplication / squaring characterised by hypotheses
    (Section Ladder), for every number of limbs of modulus, bases and exponents and every number of bases. *)
From CB Require Import Model.Limbs Model.AddSub Model.ModArith Model.Cmp Model.Pow
  Proofs.WordP Proofs.LimbsP Proofs.AddSubP Proofs.WordPredP Proofs.CmpWordP Proofs.CmpP Proofs.PowMathP.
From Coq Require Import ZArith Lia List Bool.
Open Scope Z_scope.
Notation length := List.length.

(* ------------------------------------------------------------------ *)
(** * constant-time table lookup = nth *)

Definition table_wf (n : nat) (t : list (list Z)) : Prop := Forall (fun p => wf p /\ length p = n) t.

Lemma lookup_loop_spec n rest : forall j idx power,
  table_wf n rest -> wf power -> length power = n -> 0 <= j -> j + Z.of_nat (length rest) <= B -> 0 <= idx < B ->
  lookup_loop rest j idx power =
    if (j <=? idx) && (idx <? j + Z.of_nat (length rest)) then nth (Z.to_nat (idx - j)) rest [] else power.
Proof.
  induction rest as [|p r IH]; intros j idx power Ht Hw Hl Hj Hb Hi.
  - cbn [lookup_loop length]. destruct (j <=? idx) eqn:E1; cbn [andb]; [|reflexivity].
    destruct (idx <? j + Z.of_nat 0) eqn:E2; [|reflexivity]. apply Z.leb_le in E1. apply Z.ltb_lt in E2. lia.
  - cbn [lookup_loop]. inversion Ht as [|p' r' [Hp Hlp] Hr]; subst.
    cbn [length] in Hb. rewrite Nat2Z.inj_succ in Hb.
    rewrite from_word_eq_spec by (unfold is_word; lia).
    rewrite select_limbs_choice by (try assumption; lia).
    rewrite IH; try assumption; try lia.
    2,3: destruct (j =? idx); auto.
    cbn [length]. rewrite Nat2Z.inj_succ.
    destruct (Z.eqb_spec j idx) as [->|Hne].
    + replace (idx + 1 <=? idx) with false by (symmetry; apply Z.leb_gt; lia). cbn [andb].
      rewrite Z.leb_refl. replace (idx <? idx + Z.succ (Z.of_nat (length r))) with true by (symmetry; apply Z.ltb_lt; lia).
      cbn [andb]. rewrite Z.sub_diag. reflexivity.
    + destruct (Z.leb_spec (j + 1) idx) as [H1|H1].
      * replace (j <=? idx) with true by (symmetry; apply Z.leb_le; lia).
        replace (idx <? j + Z.succ (Z.of_nat (length r))) with (idx <? j + 1 + Z.of_nat (length r)) by (f_equal; lia).
        cbn [andb]. destruct (idx <? j + 1 + Z.of_nat (length r)); [|reflexivity].
        replace (Z.to_nat (idx - j)) with (S (Z.to_nat (idx - (j + 1)))) by lia. reflexivity.
      * cbn [andb]. destruct (Z.leb_spec j idx) as [H2|H2]; [lia|]. reflexivity.
Qed.

Lemma ct_lookup_spec n powers idx : table_wf n powers -> Z.of_nat (length powers) <= B ->
  0 <= idx < Z.of_nat (length powers) -> ct_lookup powers idx = nth (Z.to_nat idx) powers [].
Proof.
  intros Ht Hb Hi. destruct powers as [|p0 r]; [cbn [length] in Hi; lia|].
  inversion Ht as [|p' r' [Hp Hlp] Hr]; subst. cbn [length] in *. rewrite Nat2Z.inj_succ in *.
  unfold ct_lookup. rewrite (lookup_loop_spec (length p0)) by (try assumption; try reflexivity; lia).
  destruct (Z.leb_spec 1 idx) as [H1|H1]; cbn [andb].
  - replace (idx <? 1 + Z.of_nat (length r)) with true by (symmetry; apply Z.ltb_lt; lia).
    replace (Z.to_nat idx) with (S (Z.to_nat (idx - 1))) by lia. reflexivity.
  - replace (Z.to_nat idx) with 0%nat by lia. reflexivity.
Qed.

(** the boxed scan (subtle ct_eq / ct_assign) reads the same entry *)
Lemma blookup_loop_spec n rest : forall j idx power,
  table_wf n rest -> wf power -> length power = n -> 0 <= j -> j + Z.of_nat (length rest) <= B -> 0 <= idx < B ->
  blookup_loop rest j idx power =
    if (j <=? idx) && (idx <? j + Z.of_nat (length rest)) then nth (Z.to_nat (idx - j)) rest [] else power.
Proof.
  induction rest as [|p r IH]; intros j idx power Ht Hw Hl Hj Hb Hi.
  - cbn [blookup_loop length]. destruct (j <=? idx) eqn:E1; cbn [andb]; [|reflexivity].
    destruct (idx <? j + Z.of_nat 0) eqn:E2; [|reflexivity]. apply Z.leb_le in E1. apply Z.ltb_lt in E2. lia.
  - cbn [blookup_loop]. inversion Ht as [|p' r' [Hp Hlp] Hr]; subst.
    cbn [length] in Hb. rewrite Nat2Z.inj_succ in Hb.
    rewrite st_ct_eq_spec by (unfold is_word; lia).
    rewrite ct_select_limbs_spec by (try assumption; lia). unfold spec_select.
    rewrite IH; try assumption; try lia.
    2,3: destruct (j =? idx); auto.
    cbn [length]. rewrite Nat2Z.inj_succ.
    destruct (Z.eqb_spec j idx) as [->|Hne].
    + replace (idx + 1 <=? idx) with false by (symmetry; apply Z.leb_gt; lia). cbn [andb].
      rewrite Z.leb_refl. replace (idx <? idx + Z.succ (Z.of_nat (length r))) with true by (symmetry; apply Z.ltb_lt; lia).
      cbn [andb]. rewrite Z.sub_diag. reflexivity.
    + destruct (Z.leb_spec (j + 1) idx) as [H1|H1].
      * replace (j <=? idx) with true by (symmetry; apply Z.leb_le; lia).
        replace (idx <? j + Z.succ (Z.of_nat (length r))) with (idx <? j + 1 + Z.of_nat (length r)) by (f_equal; lia).
        cbn [andb]. destruct (idx <? j + 1 + Z.of_nat (length r)); [|reflexivity].
        replace (Z.to_nat (idx - j)) with (S (Z.to_nat (idx - (j + 1)))) by lia. reflexivity.
      * cbn [andb]. destruct (Z.leb_spec j idx) as [H2|H2]; [lia|]. reflexivity.
Qed.

Lemma boxed_lookup_spec n powers idx : table_wf n powers -> Z.of_nat (length powers) <= B ->
  0 <= idx < Z.of_nat (length powers) -> boxed_lookup powers idx = nth (Z.to_nat idx) powers [].
Proof.
  intros Ht Hb Hi. destruct powers as [|p0 r]; [cbn [length] in Hi; lia|].
  inversion Ht as [|p' r' [Hp Hlp] Hr]; subst. cbn [length] in *. rewrite Nat2Z.inj_succ in *.
  unfold boxed_lookup. rewrite (blookup_loop_spec (length p0)) by (try assumption; try reflexivity; lia).
  destruct (Z.leb_spec 1 idx) as [H1|H1]; cbn [andb].
  - replace (idx <? 1 + Z.of_nat (length r)) with true by (symmetry; apply Z.ltb_lt; lia).
    replace (Z.to_nat idx) with (S (Z.to_nat (idx - 1))) by lia. reflexivity.
  - replace (Z.to_nat idx) with 0%nat by lia. reflexivity.
Qed.

(* ------------------------------------------------------------------ *)
(** * starting limb / window / mask *)

Section Start.
Variable k : Z.
Hypothesis Hk : 1 <= k.
Let sl := start_limb k.
Let sw := start_window k.
Let s := start_bit k mod 4.

Lemma start_decomp : k - 1 = 64 * Z.of_nat sl + 4 * Z.of_nat sw + s /\ 0 <= s < 4 /\ (sw < 16)%nat.
Proof.
  unfold sl, sw, s, start_limb, start_window, start_bit.
  pose proof (Z.div_mod (k - 1) 64 ltac:(lia)) as H1. pose proof (Z.mod_pos_bound (k - 1) 64 ltac:(lia)) as H2.
  set (b := (k - 1) mod 64) in *.
  pose proof (Z.div_mod b 4 ltac:(lia)) as H3. pose proof (Z.mod_pos_bound b 4 ltac:(lia)) as H4.
  assert (0 <= (k - 1) / 64) by (apply Z.div_pos; lia).
  assert (0 <= b / 4 < 16) by (split; [apply Z.div_pos; lia | apply Z.div_lt_upper_bound; lia]).
  rewrite !Z2Nat.id by lia. repeat split; try lia.
Qed.

Lemma start_mask_val : start_mask k = 2 ^ (s + 1) - 1.
Proof.
  pose proof start_decomp as (_ & Hs & _). unfold start_mask, wshl, wrap. fold s.
  rewrite Z.mul_1_l. rewrite Z.mod_small; [reflexivity|].
  rewrite B_val. split; [apply Z.pow_nonneg; lia | apply Z.pow_lt_mono_r; lia].
Qed.
End Start.

Lemma window_idx_val w wn : is_word w -> (wn < 16)%nat ->
  window_idx w wn = (w / 2 ^ (Z.of_nat wn * 4)) mod 16.
Proof.
  intros Hw Hn. unfold window_idx, wand, wshr. unfold is_word in Hw.
  apply land_15. apply Z.div_pos; [lia | apply Z.pow_pos_nonneg; lia].
Qed.

(** index read from limb [ln], window [wn] of the exponent [e] = window of the integer *)
Lemma exp_window e ln wn : wf e -> (wn < 16)%nat ->
  window_idx (nthz e ln) wn = (eval e / 2 ^ (64 * Z.of_nat ln + 4 * Z.of_nat wn)) mod 16.
Proof.
  intros He Hn. pose proof (eval_nonneg e He).
  rewrite window_idx_val; [|rewrite nthz_eval by assumption; apply is_word_mod | assumption].
  rewrite nthz_eval by assumption. apply word_window; assumption.
Qed.

(* ------------------------------------------------------------------ *)
(** * the ladder, for abstract multiplication and squaring *)

Section Ladder.
Variables (n : nat) (m rinv : Z).
Hypothesis Hm : 0 < m.
Variable mmul : list Z -> list Z -> list Z.
Variable msq : list Z -> list Z.
Variables Good Good' TGood : list Z -> Prop.

Definition V (z : list Z) : Z := (eval z * rinv) mod m.

Hypothesis HGG : forall z, Good' z -> Good z.
Hypothesis HT : forall p, TGood p -> wf p /\ length p = n.
Hypothesis Hmul : forall z p, Good z -> TGood p -> Good' (mmul z p) /\ V (mmul z p) = (V z * V p) mod m.
Hypothesis Hsq : forall z, Good z -> Good (msq z) /\ V (msq z) = (V z * V z) mod m.

Definition table_ok (t : list (list Z)) : Prop :=
  length t = 16%nat /\
  forall i, (i < 16)%nat -> TGood (nth i t []) /\ V (nth i t []) = (V (nth 1 t []) ^ Z.of_nat i) mod m.
Definition pe_ok (pe : list (list Z) * list Z) : Prop := table_ok (fst pe) /\ wf (snd pe).

Lemma table_ok_wf t : table_ok t -> table_wf n t.
Proof.
  intros [Hl Ht]. unfold table_wf. apply Forall_forall. intros p Hp.
  destruct (In_nth t p [] Hp) as (i & Hi & <-). apply HT. apply Ht. lia.
Qed.

Lemma sq_pow a e v : 0 <= e -> v = (a ^ e) mod m -> (v * v) mod m = (a ^ (2 * e)) mod m.
Proof.
  intros He ->. rewrite mulmod_both. f_equal. replace (2 * e) with (e + e) by lia. rewrite Z.pow_add_r by lia. reflexivity.
Qed.

Lemma V_mod z : V z mod m = V z.
Proof. unfold V. apply Z.mod_mod. lia. Qed.

Lemma sq4_spec z : Good z ->
  Good (msq (msq (msq (msq z)))) /\ V (msq (msq (msq (msq z)))) = (V z ^ 16) mod m.
Proof.
  intros G0.
  destruct (Hsq z G0) as [G1 E1]. destruct (Hsq _ G1) as [G2 E2].
  destruct (Hsq _ G2) as [G3 E3]. destruct (Hsq _ G3) as [G4 E4].
  split; [assumption|].
  assert (P1 : V (msq z) = (V z ^ 1 * V z ^ 1) mod m) by (rewrite E1, Z.pow_1_r; reflexivity).
  rewrite <- Z.pow_add_r in P1 by lia.
  rewrite (sq_pow (V z) (1 + 1) _ ltac:(lia) P1) in E2.
  rewrite (sq_pow (V z) (2 * (1 + 1)) _ ltac:(lia) E2) in E3.
  rewrite (sq_pow (V z) (2 * (2 * (1 + 1))) _ ltac:(lia) E3) in E4.
  rewrite E4. reflexivity.
Qed.

Variable k : Z.
Hypothesis Hk : 1 <= k.
Let sl := start_limb k.
Let sw := start_window k.
Let smask := start_mask k.
Let Gtop := 64 * Z.of_nat sl + 4 * Z.of_nat sw.

Definition vbase (pe : list (list Z) * list Z) : Z := V (nth 1 (fst pe) []).
Definition ebits (pe : list (list Z) * list Z) : Z := eval (snd pe) mod 2 ^ k.
Fixpoint Pw (pes : list (list (list Z) * list Z)) (G : Z) : Z :=
  match pes with [] => 1 | pe :: r => vbase pe ^ (ebits pe / 2 ^ G) * Pw r G end.
Fixpoint Dw (pes : list (list (list Z) * list Z)) (G : Z) : Z :=
  match pes with [] => 1 | pe :: r => vbase pe ^ ((ebits pe / 2 ^ G) mod 16) * Dw r G end.

Lemma ebits_range pe : 0 <= ebits pe < 2 ^ k.
Proof. unfold ebits. apply Z.mod_pos_bound. apply Z.pow_pos_nonneg; lia. Qed.

Lemma Pw_step pes G : 0 <= G -> Pw pes G = Pw pes (G + 4) ^ 16 * Dw pes G.
Proof.
  intros HG. induction pes as [|pe r IH]; [reflexivity|].
  cbn [Pw Dw]. rewrite IH. pose proof (ebits_range pe) as He.
  set (e := ebits pe) in *. set (v := vbase pe).
  assert (H2 : 0 < 2 ^ G) by (apply Z.pow_pos_nonneg; lia).
  assert (Hd : e / 2 ^ (G + 4) = e / 2 ^ G / 16).
  { rewrite Z.pow_add_r by lia. change (2 ^ 4) with 16. rewrite Z.div_div by lia. reflexivity. }
  assert (Hq : 0 <= e / 2 ^ G) by (apply Z.div_pos; lia).
  pose proof (Z.div_mod (e / 2 ^ G) 16 ltac:(lia)) as Hdm.
  pose proof (Z.mod_pos_bound (e / 2 ^ G) 16 ltac:(lia)) as Hmb.
  assert (Hq2 : 0 <= e / 2 ^ G / 16) by (apply Z.div_pos; lia).
  rewrite Hd. rewrite Hdm at 1.
  rewrite Z.pow_add_r by lia. rewrite Z.mul_comm with (n := 16). rewrite Z.pow_mul_r by lia.
  rewrite Z.pow_mul_l. ring.
Qed.

Lemma Pw_high pes G : k <= G -> Pw pes G = 1.
Proof.
  intros HG. induction pes as [|pe r IH]; [reflexivity|]. cbn [Pw]. rewrite IH.
  pose proof (ebits_range pe). rewrite Z.div_small; [reflexivity|].
  split; [lia|]. apply Z.lt_le_trans with (2 ^ k); [lia | apply Z.pow_le_mono_r; lia].
Qed.

Lemma Gtop_k : k = Gtop + start_bit k mod 4 + 1 /\ 0 <= start_bit k mod 4 < 4 /\ (sw < 16)%nat.
Proof. pose proof (start_decomp k Hk) as (H1 & H2 & H3). unfold Gtop, sl, sw. repeat split; lia. Qed.

(** what the index expression of one window reads *)
Lemma idx_top e : wf e ->
  wand (window_idx (nthz e sl) sw) smask = ((eval e mod 2 ^ k) / 2 ^ Gtop) mod 16.
Proof.
  intros He. pose proof Gtop_k as (Hk1 & Hs & Hsw). set (s := start_bit k mod 4) in *.
  rewrite exp_window by assumption. fold Gtop.
  unfold smask. rewrite (start_mask_val k Hk). fold s. unfold wand.
  pose proof (eval_nonneg e He) as Hn.
  assert (HG : 0 <= Gtop) by (unfold Gtop; lia).
  assert (H2 : 0 < 2 ^ Gtop) by (apply Z.pow_pos_nonneg; lia).
  rewrite land_mask by (try lia; apply Z.mod_pos_bound; lia).
  rewrite mod_div_pow2 by lia. replace (k - Gtop) with (s + 1) by lia.
  set (y := eval e / 2 ^ Gtop).
  assert (Hy : (y mod 16) mod 2 ^ (s + 1) = y mod 2 ^ (s + 1)).
  { replace 16 with (2 ^ (s + 1) * 2 ^ (3 - s)) by (rewrite <- Z.pow_add_r by lia; replace (s + 1 + (3 - s)) with 4 by lia; reflexivity).
    assert (0 < 2 ^ (s + 1)) by (apply Z.pow_pos_nonneg; lia). assert (0 < 2 ^ (3 - s)) by (apply Z.pow_pos_nonneg; lia).
    rewrite Z.rem_mul_r by lia.
    replace (y mod 2 ^ (s + 1) + 2 ^ (s + 1) * ((y / 2 ^ (s + 1)) mod 2 ^ (3 - s)))
      with (y mod 2 ^ (s + 1) + (y / 2 ^ (s + 1)) mod 2 ^ (3 - s) * 2 ^ (s + 1)) by ring.
    rewrite Z.mod_add by lia. apply Z.mod_mod. lia. }
  rewrite Hy. symmetry. apply Z.mod_small.
  assert (0 < 2 ^ (s + 1)) by (apply Z.pow_pos_nonneg; lia).
  pose proof (Z.mod_pos_bound y (2 ^ (s + 1)) ltac:(lia)).
  assert (2 ^ (s + 1) <= 2 ^ 4) by (apply Z.pow_le_mono_r; lia). change (2 ^ 4) with 16 in *. lia.
Qed.

Lemma idx_low e ln wn : wf e -> (wn < 16)%nat -> 64 * Z.of_nat ln + 4 * Z.of_nat wn + 4 <= k ->
  window_idx (nthz e ln) wn = ((eval e mod 2 ^ k) / 2 ^ (64 * Z.of_nat ln + 4 * Z.of_nat wn)) mod 16.
Proof.
  intros He Hn HG. rewrite exp_window by assumption. apply window_below; lia.
Qed.

(** inner loop over the bases *)
Lemma bases_loop_spec ln wn (top : bool) G pes : forall z,
  Forall pe_ok pes -> Good z ->
  (forall e, wf e -> (if top then wand (window_idx (nthz e ln) wn) smask else window_idx (nthz e ln) wn)
                     = ((eval e mod 2 ^ k) / 2 ^ G) mod 16) ->
  let r := bases_loop mmul pes ln wn top smask z in
  Good r /\ (pes <> [] -> Good' r) /\ V r = (V z * Dw pes G) mod m.
Proof.
  induction pes as [|[powers e] rest IH]; intros z Hok Gz Hidx.
  - cbn [bases_loop Dw]. split; [assumption|]. split; [intros H; contradiction H; reflexivity|].
    rewrite Z.mul_1_r. symmetry. apply V_mod.
  - inversion Hok as [|pe' r' [Htab Hwe] Hrest]; subst. cbn [fst snd] in *.
    cbn [bases_loop]. cbv zeta.
    set (idx := if top then wand (window_idx (nthz e ln) wn) smask else window_idx (nthz e ln) wn).
    assert (Hi : idx = ((eval e mod 2 ^ k) / 2 ^ G) mod 16) by (apply Hidx; assumption).
    pose proof (Z.mod_pos_bound ((eval e mod 2 ^ k) / 2 ^ G) 16 ltac:(lia)) as Hr. rewrite <- Hi in Hr.
    destruct Htab as [Hlen Hent].
    assert (Hlk : ct_lookup powers idx = nth (Z.to_nat idx) powers []).
    { apply (ct_lookup_spec n); [apply table_ok_wf; split; assumption | rewrite Hlen; rewrite B_val; simpl; lia | rewrite Hlen; simpl; lia]. }
    replace (if top then wand (window_idx (nthz e ln) wn) smask else window_idx (nthz e ln) wn) with idx by reflexivity.
    rewrite Hlk.
    destruct (Hent (Z.to_nat idx) ltac:(lia)) as [Tp Vp]. rewrite Z2Nat.id in Vp by lia.
    destruct (Hmul z _ Gz Tp) as [G1 V1].
    destruct (IH (mmul z (nth (Z.to_nat idx) powers [])) Hrest (HGG _ G1) Hidx) as (G2 & G2' & V2).
    split; [exact G2|]. split.
    + intros _. destruct rest as [|pe2 rest2]; [exact G1 | apply G2'; discriminate].
    + rewrite V2, V1, Vp. cbn [Dw]. unfold vbase, ebits. cbn [fst snd]. rewrite <- Hi.
      rewrite mulmod_l.
      replace (V z * (V (nth 1 powers []) ^ idx mod m) * Dw rest G) with (V (nth 1 powers []) ^ idx mod m * (V z * Dw rest G)) by ring.
      rewrite mulmod_l. f_equal. ring.
Qed.

Variable pes : list (list (list Z) * list Z).
Hypothesis Hpes : Forall pe_ok pes.
Hypothesis Hne : pes <> [] \/ forall z, Good z -> Good' z.

Lemma window_loop_spec ln : forall wn z, (ln <= sl)%nat ->
  (if (ln =? sl)%nat then (wn <= S sw)%nat else (wn <= 16)%nat) ->
  Good' z -> V z = Pw pes (64 * Z.of_nat ln + 4 * Z.of_nat wn) mod m ->
  let r := window_loop mmul msq pes ln sl sw smask wn z in
  Good' r /\ V r = Pw pes (64 * Z.of_nat ln) mod m.
Proof.
  pose proof Gtop_k as (Hk1 & Hs & Hsw).
  induction wn as [|w IH]; intros z Hln Hwn Gz Vz.
  - cbn [window_loop]. split; [assumption|]. rewrite Vz. f_equal. f_equal. lia.
  - cbn [window_loop]. cbv zeta.
    set (G := 64 * Z.of_nat ln + 4 * Z.of_nat w).
    assert (HG4 : 64 * Z.of_nat ln + 4 * Z.of_nat (S w) = G + 4) by (unfold G; lia). rewrite HG4 in Vz.
    assert (Hw16 : (w < 16)%nat) by (destruct (ln =? sl)%nat; lia).
    set (top := ((ln =? sl)%nat && (w =? sw)%nat)%bool).
    set (z1 := if top then z else msq (msq (msq (msq z)))).
    assert (H1 : Good z1 /\ V z1 = (Pw pes (G + 4) ^ 16) mod m).
    { unfold z1. destruct top eqn:Et.
      - apply andb_prop in Et. destruct Et as [E1 E2]. apply Nat.eqb_eq in E1. apply Nat.eqb_eq in E2. subst ln w.
        split; [apply HGG; assumption|].
        rewrite Vz. rewrite !Pw_high by (unfold G, Gtop in *; lia). reflexivity.
      - destruct (sq4_spec z (HGG _ Gz)) as [G4 V4]. split; [assumption|].
        rewrite V4, Vz. apply powmod_mod. lia. }
    destruct H1 as [Gz1 Vz1].
    assert (Hidx : forall e, wf e ->
       (if top then wand (window_idx (nthz e ln) w) smask else window_idx (nthz e ln) w)
       = ((eval e mod 2 ^ k) / 2 ^ G) mod 16).
    { intros e He. destruct top eqn:Et.
      - apply andb_prop in Et. destruct Et as [E1 E2]. apply Nat.eqb_eq in E1. apply Nat.eqb_eq in E2. subst ln w.
        unfold G. apply idx_top. assumption.
      - unfold G. apply idx_low; try assumption.
        apply andb_false_iff in Et. destruct (ln =? sl)%nat eqn:E1.
        + apply Nat.eqb_eq in E1. subst ln. destruct Et as [Et|Et]; [discriminate|]. apply Nat.eqb_neq in Et.
          unfold Gtop in *. lia.
        + apply Nat.eqb_neq in E1. unfold Gtop in *. lia. }
    destruct (bases_loop_spec ln w top G pes z1 Hpes Gz1 Hidx) as (G2 & G2' & V2).
    assert (G2'' : Good' (bases_loop mmul pes ln w top smask z1)).
    { destruct Hne as [Hn|Hn]; [apply G2'; assumption | apply Hn; assumption]. }
    apply IH; try assumption.
    + destruct (ln =? sl)%nat; lia.
    + rewrite V2, Vz1. rewrite mulmod_l. fold G. rewrite (Pw_step pes G) by (unfold G; lia). reflexivity.
Qed.

Lemma limb_loop_spec : forall ln z, (ln <= S sl)%nat ->
  Good' z -> V z = Pw pes (64 * Z.of_nat ln) mod m ->
  let r := limb_loop mmul msq pes sl sw smask ln z in
  Good' r /\ V r = Pw pes 0 mod m.
Proof.
  pose proof Gtop_k as (Hk1 & Hs & Hsw).
  induction ln as [|l IH]; intros z Hln Gz Vz.
  - cbn [limb_loop]. split; [assumption|]. rewrite Vz. reflexivity.
  - cbn [limb_loop]. cbv zeta.
    set (wn := if (l =? sl)%nat then S sw else 16%nat).
    assert (Hstart : V z = Pw pes (64 * Z.of_nat l + 4 * Z.of_nat wn) mod m).
    { rewrite Vz. unfold wn. destruct (l =? sl)%nat eqn:E.
      - apply Nat.eqb_eq in E. subst l. rewrite !Pw_high by (unfold Gtop in *; lia). reflexivity.
      - f_equal. f_equal. lia. }
    destruct (window_loop_spec l wn z ltac:(lia)) as [G1 V1]; try assumption.
    { unfold wn. destruct (l =? sl)%nat; lia. }
    apply IH; try assumption. lia.
Qed.

Theorem multi_exp_internal_spec one : Good' one -> V one = 1 mod m ->
  let r := multi_exp_internal mmul msq one pes k in
  Good' r /\ V r = Pw pes 0 mod m.
Proof.
  intros G1 V1. unfold multi_exp_internal. apply limb_loop_spec; try assumption; [fold sl; lia|].
  pose proof Gtop_k as (Hk1 & Hs & Hsw). fold sl.
  rewrite V1, Pw_high by (unfold Gtop in *; lia). reflexivity.
Qed.
End Ladder.
