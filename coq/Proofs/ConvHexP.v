(** C16 proofs, part 3: the branch-free hex nibble decoder, strict hex decoding, hex / binary formatting. *)
From CB Require Import Model.Limbs Model.Conv Proofs.WordP Proofs.LimbsP Proofs.ConvDigitsP Proofs.ConvBytesP.
From Coq Require Import ZArith Lia List Bool.
Import ListNotations.
Open Scope Z_scope.
Open Scope list_scope.

(* ---- all 256 byte values ---- *)
Definition byte_list : list Z := map Z.of_nat (seq 0 256).
Lemma in_byte_list c : 0 <= c < 256 -> In c byte_list.
Proof.
  intros H. unfold byte_list. rewrite <- (Z2Nat.id c) by lia. apply in_map. apply in_seq. lia.
Qed.

(** decode_nibble on every byte value: the digit value for [0-9A-Fa-f], 0xFFFF otherwise *)
Definition nibble_expected (c : Z) : Z := match hexval c with Some d => d | None => 65535 end.
Lemma decode_nibble_sweep : forallb (fun c => decode_nibble c =? nibble_expected c) byte_list = true.
Proof. vm_compute. reflexivity. Qed.
Lemma decode_nibble_spec c : 0 <= c < 256 -> decode_nibble c = nibble_expected c.
Proof.
  intros H. pose proof decode_nibble_sweep as S. rewrite forallb_forall in S.
  apply Z.eqb_eq. apply S. apply in_byte_list. assumption.
Qed.

(** no intermediate value of the i16 computation leaves the i16 range (no overflow in any profile) *)
Definition i16b (x : Z) : bool := (-32768 <=? x) && (x <=? 32767).
Definition nib_term_ok (lo hi off byte : Z) : bool :=
  i16b (lo - byte) && i16b (byte - hi) && i16b (Z.land (lo - byte) (byte - hi)) &&
  i16b (Z.shiftr (Z.land (lo - byte) (byte - hi)) 8) && i16b (byte - off) && i16b (nib_term lo hi off byte).
Definition nibble_i16_ok (c : Z) : bool :=
  nib_term_ok 47 58 47 c && nib_term_ok 64 71 54 c && nib_term_ok 96 103 86 c &&
  i16b (-1 + nib_term 47 58 47 c) && i16b (-1 + nib_term 47 58 47 c + nib_term 64 71 54 c) &&
  i16b (decode_nibble_i16 c) && (-1 <=? decode_nibble_i16 c) && (decode_nibble_i16 c <=? 15).
Lemma nibble_i16_sweep : forallb nibble_i16_ok byte_list = true.
Proof. vm_compute. reflexivity. Qed.
Lemma decode_nibble_no_overflow c : 0 <= c < 256 -> nibble_i16_ok c = true.
Proof. intros H. pose proof nibble_i16_sweep as S. rewrite forallb_forall in S. apply S, in_byte_list, H. Qed.

(** decode_hex_byte on all 65536 character pairs *)
Definition hex_byte_ok (c0 c1 : Z) : bool :=
  let '(r, e) := decode_hex_byte c0 c1 in
  (0 <=? r) && (r <? 256) &&
  match hexval c0, hexval c1 with
  | Some h, Some l => (r =? 16 * h + l) && (e =? 0)
  | _, _ => 0 <? e
  end.
Lemma hex_byte_sweep : forallb (fun c0 => forallb (hex_byte_ok c0) byte_list) byte_list = true.
Proof. vm_compute. reflexivity. Qed.
Lemma decode_hex_byte_spec c0 c1 r e : 0 <= c0 < 256 -> 0 <= c1 < 256 -> decode_hex_byte c0 c1 = (r, e) ->
  0 <= r < 256 /\
  match hexval c0, hexval c1 with
  | Some h, Some l => r = 16 * h + l /\ e = 0
  | _, _ => 0 < e
  end.
Proof.
  intros H0 H1 E. pose proof hex_byte_sweep as S. rewrite forallb_forall in S.
  specialize (S c0 (in_byte_list c0 H0)). rewrite forallb_forall in S.
  specialize (S c1 (in_byte_list c1 H1)). unfold hex_byte_ok in S. rewrite E in S.
  apply andb_prop in S. destruct S as [S1 S2]. apply andb_prop in S1. destruct S1 as [Sa Sb].
  split; [lia|].
  destruct (hexval c0); [destruct (hexval c1)|]; lia.
Qed.

(* ---- hexval / hexvals ---- *)
Lemma hexval_range c d : hexval c = Some d -> 0 <= d < 16.
Proof.
  unfold hexval. intros H.
  destruct ((48 <=? c) && (c <=? 57)) eqn:E1; [injection H as <-; lia|].
  destruct ((65 <=? c) && (c <=? 70)) eqn:E2; [injection H as <-; lia|].
  destruct ((97 <=? c) && (c <=? 102)) eqn:E3; [injection H as <-; lia | discriminate].
Qed.

Lemma hexvals_spec cs : forall ds, hexvals cs = Some ds -> length ds = length cs /\ wfd 16 ds.
Proof.
  induction cs as [|c cs IH]; intros ds H; cbn [hexvals] in H.
  - injection H as <-. split; [reflexivity | apply wfd_nil].
  - destruct (hexval c) as [d|] eqn:Ec; [|discriminate].
    destruct (hexvals cs) as [ds'|] eqn:Er; [|discriminate]. injection H as <-.
    destruct (IH ds' eq_refl) as [Hl Hw]. split; [cbn [length]; lia|].
    apply wfd_cons. split; [eapply hexval_range; eassumption | assumption].
Qed.

Lemma lor_pos_r a e : 0 <= a -> 0 < e -> 0 < Z.lor a e.
Proof.
  intros Ha He. assert (0 <= Z.lor a e) by (apply Z.lor_nonneg; lia).
  assert (Z.lor a e <> 0) by (intros E; apply Z.lor_eq_0_iff in E; lia). lia.
Qed.
Lemma lor_pos_l a e : 0 < a -> 0 <= e -> 0 < Z.lor a e.
Proof.
  intros Ha He. assert (0 <= Z.lor a e) by (apply Z.lor_nonneg; lia).
  assert (Z.lor a e <> 0) by (intros E; apply Z.lor_eq_0_iff in E; lia). lia.
Qed.

(** the pair decoder with its error accumulator: the error word is zero exactly when every character
    is a hex digit, and then the bytes are the nibble pairs *)
Lemma decode_hex_pairs_spec m : forall cs err0 bs err,
  length cs = (2 * m)%nat -> wfd 256 cs -> 0 <= err0 -> decode_hex_pairs cs err0 = (bs, err) ->
  length bs = m /\ wfd 256 bs /\ 0 <= err /\ (0 < err0 -> 0 < err) /\
  match hexvals cs with
  | Some ds => err = err0 /\ bs = nib_pairs ds
  | None => 0 < err
  end.
Proof.
  induction m as [|m IH]; intros cs err0 bs err Hl Hw He E.
  - destruct cs; [|discriminate]. cbn in E. inv_pair E. cbn. repeat split; (lia || apply wfd_nil || auto).
  - destruct cs as [|c0 [|c1 r]]; cbn [length] in Hl; try lia.
    apply wfd_cons in Hw. destruct Hw as [H0 Hw]. apply wfd_cons in Hw. destruct Hw as [H1 Hw].
    cbn [decode_hex_pairs] in E.
    destruct (decode_hex_byte c0 c1) as [b e] eqn:Eb.
    destruct (decode_hex_pairs r (Z.lor err0 e)) as [bs' err'] eqn:Ep. inv_pair E.
    destruct (decode_hex_byte_spec _ _ _ _ H0 H1 Eb) as [Hb Hcase].
    assert (He0 : 0 <= e) by (destruct (hexval c0); [destruct (hexval c1)|]; lia).
    assert (Hlor : 0 <= Z.lor err0 e) by (apply Z.lor_nonneg; lia).
    destruct (IH r (Z.lor err0 e) bs' err' ltac:(lia) Hw Hlor Ep) as (Hlb & Hwb & Herr & Hmono & Hrest).
    split; [cbn [length]; lia|]. split; [apply wfd_cons; split; assumption|]. split; [assumption|].
    split; [intros Hp; apply Hmono; apply lor_pos_l; lia|].
    cbn [hexvals].
    destruct (hexval c0) as [h|] eqn:E0.
    + destruct (hexval c1) as [l|] eqn:E1.
      * destruct Hcase as [-> ->]. rewrite Z.lor_0_r in *.
        destruct (hexvals r) as [ds|] eqn:Er.
        -- destruct Hrest as [-> ->]. cbn [nib_pairs]. split; reflexivity.
        -- assumption.
      * destruct (hexvals r); apply Hmono; apply lor_pos_r; lia.
    + apply Hmono. apply lor_pos_r; lia.
Qed.

Lemma nib_pairs_spec m : forall ds, length ds = (2 * m)%nat -> wfd 16 ds ->
  length (nib_pairs ds) = m /\ wfd 256 (nib_pairs ds) /\
  evalb 256 (rev (nib_pairs ds)) = evalb 16 (rev ds).
Proof.
  induction m as [|m IH]; intros ds Hl Hw.
  - destruct ds; [|discriminate]. cbn. repeat split; (reflexivity || apply wfd_nil).
  - destruct ds as [|d0 [|d1 r]]; cbn [length] in Hl; try lia.
    apply wfd_cons in Hw. destruct Hw as [H0 Hw]. apply wfd_cons in Hw. destruct Hw as [H1 Hw].
    destruct (IH r ltac:(lia) Hw) as (Hlen & Hwn & Hev).
    cbn [nib_pairs length rev]. split; [lia|]. split; [apply wfd_cons; split; [lia | assumption]|].
    rewrite !evalb_app, Hev. cbn [evalb]. rewrite !app_length, !rev_length, Hlen. cbn [length].
    assert (Hr : length r = (2 * m)%nat) by lia. rewrite Hr.
    replace (2 * m + 1)%nat with (S (2 * m)) by lia. rewrite pow_S_nat.
    rewrite (pow_mul_nat 16 2 m). change (16 ^ Z.of_nat 2) with 256. ring.
Qed.

(** * Strict hex decoding of Uint / Int: accepted iff exactly 16n hex digits; the value is positional *)
Lemma from_be_hex_spec n cs : wfd 256 cs ->
  match uint_from_be_hex n cs with
  | HexLen => length cs <> (16 * n)%nat
  | HexInvalid => length cs = (16 * n)%nat /\ hexvals cs = None
  | HexOk r => length cs = (16 * n)%nat /\
               exists ds, hexvals cs = Some ds /\ wf r /\ length r = n /\ eval r = evalb 16 (rev ds)
  end.
Proof.
  intros Hw. unfold uint_from_be_hex.
  destruct (Nat.eqb_spec (length cs) (16 * n)) as [Hl|Hl]; [|assumption].
  destruct (decode_hex_pairs cs 0) as [bs err] eqn:Ep.
  destruct (decode_hex_pairs_spec (8 * n) cs 0 bs err ltac:(lia) Hw ltac:(lia) Ep) as (Hlb & Hwb & Herr & _ & Hcase).
  destruct (hexvals cs) as [ds|] eqn:Eh.
  - destruct Hcase as [-> ->]. cbn [Z.eqb]. split; [assumption|]. exists ds. split; [reflexivity|].
    destruct (hexvals_spec cs ds Eh) as [Hlds Hwds].
    destruct (nib_pairs_spec (8 * n) ds ltac:(lia) Hwds) as (Hln & Hwn & Hev).
    destruct (be_limbs_of_chunks n (nib_pairs ds) Hwn Hln) as (H1 & H2 & H3).
    rewrite H3, Hev. auto.
  - destruct (Z.eqb_spec err 0); [lia|]. auto.
Qed.

Lemma from_le_hex_spec n cs : wfd 256 cs ->
  match uint_from_le_hex n cs with
  | HexLen => length cs <> (16 * n)%nat
  | HexInvalid => length cs = (16 * n)%nat /\ hexvals cs = None
  | HexOk r => length cs = (16 * n)%nat /\
               exists ds, hexvals cs = Some ds /\ wf r /\ length r = n /\ eval r = evalb 256 (nib_pairs ds)
  end.
Proof.
  intros Hw. unfold uint_from_le_hex.
  destruct (Nat.eqb_spec (length cs) (16 * n)) as [Hl|Hl]; [|assumption].
  destruct (decode_hex_pairs cs 0) as [bs err] eqn:Ep.
  destruct (decode_hex_pairs_spec (8 * n) cs 0 bs err ltac:(lia) Hw ltac:(lia) Ep) as (Hlb & Hwb & Herr & _ & Hcase).
  destruct (hexvals cs) as [ds|] eqn:Eh.
  - destruct Hcase as [-> ->]. cbn [Z.eqb]. split; [assumption|]. exists ds. split; [reflexivity|].
    destruct (hexvals_spec cs ds Eh) as [Hlds Hwds].
    destruct (nib_pairs_spec (8 * n) ds ltac:(lia) Hwds) as (Hln & Hwn & Hev).
    destruct (le_limbs_of_chunks n (nib_pairs ds) Hwn Hln) as (H1 & H2 & H3). auto.
  - destruct (Z.eqb_spec err 0); [lia|]. auto.
Qed.

(* ---- formatting ---- *)
Lemma uint_fmt_hex_digits u ls : wf ls ->
  uint_fmt_hex u ls = map (hexchar u) (rev (digits 16 (16 * length ls) (eval ls))).
Proof.
  intros Hw. unfold uint_fmt_hex, word_fmt_hex.
  rewrite (flat_map_map_out (hexchar u) (fun x => rev (digits 16 16 x))).
  rewrite <- flat_map_rev. rewrite (limbs_regroup 16 16 ls) by (reflexivity || apply B_16 || assumption).
  reflexivity.
Qed.
Lemma uint_fmt_bin_digits ls : wf ls ->
  uint_fmt_bin ls = map (fun d => 48 + d) (rev (digits 2 (64 * length ls) (eval ls))).
Proof.
  intros Hw. unfold uint_fmt_bin, word_fmt_bin.
  rewrite (flat_map_map_out (fun d => 48 + d) (fun x => rev (digits 2 64 x))).
  rewrite <- flat_map_rev. rewrite (limbs_regroup 2 64 ls) by (reflexivity || apply B_2 || assumption).
  reflexivity.
Qed.

(** positional: character i of the 16n-digit hex string is the digit floor(x / 16^(16n-1-i)) mod 16 *)
Lemma fmt_hex_positional u ls i : wf ls -> (i < 16 * length ls)%nat ->
  nth i (uint_fmt_hex u ls) 0 =
  hexchar u ((eval ls / 16 ^ (Z.of_nat (16 * length ls) - 1 - Z.of_nat i)) mod 16).
Proof.
  intros Hw Hi. rewrite uint_fmt_hex_digits by assumption.
  set (ds := digits 16 (16 * length ls) (eval ls)).
  assert (Hl : length ds = (16 * length ls)%nat) by apply length_digits.
  rewrite (nth_indep _ 0 (hexchar u 0)) by (rewrite map_length, rev_length; lia).
  rewrite map_nth. f_equal. rewrite nth_rev_lt by lia. unfold ds at 2. rewrite Hl.
  rewrite nth_digits by (reflexivity || lia). do 3 f_equal. lia.
Qed.
Lemma fmt_bin_positional ls i : wf ls -> (i < 64 * length ls)%nat ->
  nth i (uint_fmt_bin ls) 0 = 48 + (eval ls / 2 ^ (Z.of_nat (64 * length ls) - 1 - Z.of_nat i)) mod 2.
Proof.
  intros Hw Hi. rewrite uint_fmt_bin_digits by assumption.
  set (ds := digits 2 (64 * length ls) (eval ls)).
  assert (Hl : length ds = (64 * length ls)%nat) by apply length_digits.
  rewrite (nth_indep _ 0 (48 + 0)) by (rewrite map_length, rev_length; lia).
  rewrite (map_nth (fun d => 48 + d)). f_equal. rewrite nth_rev_lt by lia. unfold ds at 2. rewrite Hl.
  rewrite nth_digits by (reflexivity || lia). do 3 f_equal. lia.
Qed.

Lemma hexval_hexchar u d : 0 <= d < 16 -> hexval (hexchar u d) = Some d.
Proof.
  intros H.
  assert (C : d = 0 \/ d = 1 \/ d = 2 \/ d = 3 \/ d = 4 \/ d = 5 \/ d = 6 \/ d = 7 \/ d = 8 \/ d = 9 \/
              d = 10 \/ d = 11 \/ d = 12 \/ d = 13 \/ d = 14 \/ d = 15) by lia.
  destruct u; repeat (destruct C as [->|C]; [reflexivity|]); subst; reflexivity.
Qed.
Lemma hexchar_byte u d : 0 <= d < 16 -> 0 <= hexchar u d < 256.
Proof. intros H. unfold hexchar. destruct (d <? 10); destruct u; lia. Qed.

Lemma hexvals_map_hexchar u ds : wfd 16 ds -> hexvals (map (hexchar u) ds) = Some ds.
Proof.
  induction ds as [|d ds IH]; intros Hw; cbn [map hexvals]; [reflexivity|].
  apply wfd_cons in Hw. destruct Hw as [Hd Hw]. rewrite hexval_hexchar, IH by assumption. reflexivity.
Qed.
Lemma wfd_map_hexchar u ds : wfd 16 ds -> wfd 256 (map (hexchar u) ds).
Proof.
  induction ds as [|d ds IH]; intros Hw; cbn [map]; [apply wfd_nil|].
  apply wfd_cons in Hw. destruct Hw as [Hd Hw]. apply wfd_cons. split; [apply hexchar_byte; assumption | auto].
Qed.

(** formatting (either case) followed by from_be_hex is the identity *)
Lemma hex_roundtrip u ls : wf ls -> uint_from_be_hex (length ls) (uint_fmt_hex u ls) = HexOk ls.
Proof.
  intros Hw.
  set (ds := rev (digits 16 (16 * length ls) (eval ls))).
  assert (Hwd : wfd 16 ds) by (apply wfd_rev, wfd_digits; reflexivity).
  assert (Hf : uint_fmt_hex u ls = map (hexchar u) ds) by (apply uint_fmt_hex_digits; assumption).
  pose proof (from_be_hex_spec (length ls) (uint_fmt_hex u ls)) as S.
  rewrite Hf in *. specialize (S (wfd_map_hexchar u ds Hwd)).
  assert (Hlen : length (map (hexchar u) ds) = (16 * length ls)%nat).
  { unfold ds. rewrite map_length, rev_length, length_digits. reflexivity. }
  destruct (uint_from_be_hex (length ls) (map (hexchar u) ds)) as [r| |].
  - destruct S as (_ & ds' & Hh & Hwr & Hlr & Her). rewrite hexvals_map_hexchar in Hh by assumption.
    injection Hh as <-. f_equal. apply eval_inj; try assumption.
    rewrite Her. unfold ds. rewrite rev_involutive, evalb_digits, <- Bn_16 by reflexivity.
    apply Z.mod_small, eval_bounds. assumption.
  - destruct S as [_ Hn]. rewrite hexvals_map_hexchar in Hn by assumption. discriminate.
  - contradiction.
Qed.
