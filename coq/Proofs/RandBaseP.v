(** C19, part 1: words, masks, comparisons, bit lengths and the stream primitives. *)
From CB Require Import Model.Limbs Model.AddSub Model.Rand Proofs.WordP Proofs.LimbsP Proofs.AddSubP.
From Coq Require Import ZArith Lia List Bool.
Open Scope Z_scope. Open Scope list_scope.

(* ================= powers ================= *)
Lemma rnd_Bn_pow n : Bn n = 2 ^ (64 * Z.of_nat n).
Proof.
  induction n.
  - rewrite Bn_0. reflexivity.
  - rewrite Bn_S, IHn, B_val, <- Z.pow_add_r by lia. f_equal. lia.
Qed.

Lemma rnd_pow_pos k : 0 <= k -> 0 < 2 ^ k.
Proof. intros. apply Z.pow_pos_nonneg; lia. Qed.

Lemma rnd_pow_split a b : 0 <= a -> 0 <= b -> 2 ^ (a + b) = 2 ^ a * 2 ^ b.
Proof. intros. apply Z.pow_add_r; lia. Qed.

Lemma rnd_pow_le a b : 0 <= a <= b -> 2 ^ a <= 2 ^ b.
Proof. intros. apply Z.pow_le_mono_r; lia. Qed.

Lemma rnd_is_word_bound x : is_word x <-> 0 <= x < 2 ^ 64.
Proof. unfold is_word. rewrite B_val. tauto. Qed.
Lemma rnd_word_lt x : is_word x -> 0 <= x < 2 ^ 64.
Proof. apply rnd_is_word_bound. Qed.
Lemma rnd_lt_word x : 0 <= x < 2 ^ 64 -> is_word x.
Proof. apply rnd_is_word_bound. Qed.

(* ================= bit length ================= *)
Lemma rnd_ceil64 k : 0 < k -> let q := (k + 63) / 64 in 1 <= q /\ 64 * (q - 1) < k <= 64 * q.
Proof.
  intros Hk q. pose proof (Z.div_mod (k + 63) 64 ltac:(lia)) as Hdm.
  pose proof (Z.mod_pos_bound (k + 63) 64 ltac:(lia)). fold q in Hdm. lia.
Qed.

Lemma rnd_bitlen_0 : rnd_bitlen 0 = 0. Proof. reflexivity. Qed.

Lemma rnd_bitlen_pos x : 0 < x -> rnd_bitlen x = Z.log2 x + 1.
Proof. intros H. unfold rnd_bitlen. destruct (Z.leb_spec x 0); [lia | reflexivity]. Qed.

Lemma rnd_bitlen_nonneg x : 0 <= rnd_bitlen x.
Proof. unfold rnd_bitlen. destruct (Z.leb_spec x 0); [lia|]. pose proof (Z.log2_nonneg x). lia. Qed.

(** 2^(bits-1) <= x < 2^bits *)
Lemma rnd_bitlen_spec x : 0 < x -> 2 ^ (rnd_bitlen x - 1) <= x < 2 ^ rnd_bitlen x.
Proof.
  intros H. rewrite rnd_bitlen_pos by assumption. replace (Z.log2 x + 1 - 1) with (Z.log2 x) by lia.
  pose proof (Z.log2_spec x H). unfold Z.succ in *. lia.
Qed.

Lemma rnd_bitlen_lt x k : 0 <= k -> 0 <= x < 2 ^ k -> rnd_bitlen x <= k.
Proof.
  intros Hk Hx. destruct (Z.eq_dec x 0) as [->|Hn]; [rewrite rnd_bitlen_0; lia|].
  rewrite rnd_bitlen_pos by lia. assert (Z.log2 x < k) by (apply Z.log2_lt_pow2; lia). lia.
Qed.

Lemma rnd_bitlen_unique x k : 0 < k -> 2 ^ (k - 1) <= x < 2 ^ k -> rnd_bitlen x = k.
Proof.
  intros Hk Hx. assert (0 < 2 ^ (k - 1)) by (apply rnd_pow_pos; lia).
  rewrite rnd_bitlen_pos by lia.
  assert (Z.log2 x = k - 1); [|lia]. apply Z.log2_unique; [lia|]. unfold Z.succ.
  replace (k - 1 + 1) with k by lia. lia.
Qed.

(** the bit length of  lo + 2^k * h  (lo below 2^k, h positive) *)
Lemma rnd_bitlen_shift lo h k : 0 <= k -> 0 <= lo < 2 ^ k -> 0 < h -> rnd_bitlen (lo + 2 ^ k * h) = k + rnd_bitlen h.
Proof.
  intros Hk Hlo Hh. pose proof (rnd_bitlen_spec h Hh) as [H1 H2]. pose proof (rnd_bitlen_nonneg h).
  assert (0 < rnd_bitlen h) by (rewrite rnd_bitlen_pos by lia; pose proof (Z.log2_nonneg h); lia).
  assert (0 < 2 ^ k) by (apply rnd_pow_pos; lia).
  apply rnd_bitlen_unique; [lia|].
  replace (k + rnd_bitlen h - 1) with (k + (rnd_bitlen h - 1)) by lia.
  rewrite !rnd_pow_split by lia.
  assert (2 ^ k * 2 ^ (rnd_bitlen h - 1) <= 2 ^ k * h) by (apply Z.mul_le_mono_nonneg_l; lia).
  assert (2 ^ k * (h + 1) <= 2 ^ k * 2 ^ rnd_bitlen h) by (apply Z.mul_le_mono_nonneg_l; lia).
  lia.
Qed.

(* ================= top bit of a word, comparisons ================= *)
Lemma rnd_msb_ite v : is_word v -> v / 2 ^ 63 = if 2 ^ 63 <=? v then 1 else 0.
Proof.
  intros Hv. apply rnd_word_lt in Hv. assert (H64 : 2 ^ 64 = 2 * 2 ^ 63) by reflexivity.
  destruct (Z.leb_spec (2 ^ 63) v).
  - destruct (div_mod_unique_pos (2 ^ 63) 1 (v - 2 ^ 63) v) as [Hq _]; [lia | lia | exact Hq].
  - apply Z.div_small. lia.
Qed.

Lemma rnd_is_word_wnot x : is_word x -> is_word (wnot x).
Proof. unfold is_word, wnot. pose proof MAXW_val. lia. Qed.

Lemma rnd_shr63_lor a b : Z.lor a b / 2 ^ 63 = Z.lor (a / 2 ^ 63) (b / 2 ^ 63).
Proof. rewrite <- !Z.shiftr_div_pow2 by lia. apply Z.shiftr_lor. Qed.
Lemma rnd_shr63_land a b : Z.land a b / 2 ^ 63 = Z.land (a / 2 ^ 63) (b / 2 ^ 63).
Proof. rewrite <- !Z.shiftr_div_pow2 by lia. apply Z.shiftr_land. Qed.

Lemma rnd_odd_MAXW : Z.odd MAXW = true. Proof. vm_compute. reflexivity. Qed.

(** Limb::ct_lt / ConstChoice::from_word_lt decides  x < y *)
Lemma rnd_from_word_lt x y : is_word x -> is_word y -> choice_to_bool (from_word_lt x y) = (x <? y).
Proof.
  intros Hx Hy. unfold from_word_lt, wor, wand.
  rewrite rnd_shr63_lor, !rnd_shr63_land, rnd_shr63_lor.
  pose proof (rnd_is_word_wnot x Hx) as Hnx.
  assert (Hs : is_word (wsub x y)) by apply is_word_mod.
  rewrite (rnd_msb_ite _ Hnx), (rnd_msb_ite _ Hy), (rnd_msb_ite _ Hs).
  unfold wnot, wsub, wrap in *. pose proof MAXW_val. pose proof B_val.
  apply rnd_word_lt in Hx. apply rnd_word_lt in Hy.
  assert (Hd : (x - y) mod B = if x <? y then x - y + B else x - y).
  { destruct (Z.ltb_spec x y).
    - symmetry. apply (Z.mod_unique_pos _ _ (-1)); lia.
    - apply Z.mod_small. lia. }
  rewrite Hd. unfold choice_to_bool, from_word_lsb.
  destruct (Z.ltb_spec x y);
    destruct (Z.leb_spec (2 ^ 63) (MAXW - x)); destruct (Z.leb_spec (2 ^ 63) y);
    match goal with |- context [2 ^ 63 <=? ?e] => destruct (Z.leb_spec (2 ^ 63) e) end;
    try lia; cbn [Z.lor Z.land Pos.lor Pos.land]; rewrite ?wneg_0, ?wneg_1, ?rnd_odd_MAXW; reflexivity.
Qed.

(** Uint::ct_lt / BoxedUint::ct_lt: the borrow of the limb-wise subtraction decides  a < b *)
Lemma rnd_ct_lt_spec a b :
  wf a -> wf b -> length a = length b -> length a <> 0%nat -> rnd_ct_lt a b = (eval a <? eval b).
Proof.
  intros Ha Hb Hl Hn. unfold rnd_ct_lt.
  destruct (sbb_limbs a b 0) as [r bo] eqn:E. cbn [snd].
  pose proof (sbb_limbs_correct a b 0 r bo Ha Hb Hl is_word_0 E) as (Hwr & Hlr & [(Hz & _)|(_ & Hib & Hv)]); [contradiction|].
  rewrite bin_0 in Hv. pose proof (eval_bounds r Hwr) as Hr. rewrite Hlr in Hr.
  destruct Hib as [-> | ->].
  - rewrite bout_0 in Hv. cbn. symmetry. apply Z.ltb_ge. lia.
  - rewrite bout_MAXW in Hv. assert (E0 : (MAXW =? 0) = false) by (vm_compute; reflexivity). rewrite E0. cbn.
    symmetry. apply Z.ltb_lt. lia.
Qed.

(* ================= masks ================= *)
Lemma rnd_lz_pos h : 0 < h -> rnd_lz h = 63 - Z.log2 h.
Proof. intros. unfold rnd_lz. destruct (Z.eqb_spec h 0); [lia | reflexivity]. Qed.

(** !0 >> h.leading_zeros()  is the mask with as many ones as h has bits *)
Lemma rnd_mask_spec h : 0 < h < B -> wshr MAXW (rnd_lz h) = 2 ^ (rnd_bitlen h) - 1.
Proof.
  intros Hh. rewrite rnd_lz_pos, rnd_bitlen_pos by lia. rewrite B_val in Hh.
  pose proof (Z.log2_nonneg h). assert (Hl : Z.log2 h < 64) by (apply Z.log2_lt_pow2; lia).
  set (l := Z.log2 h) in *. unfold wshr. rewrite MAXW_val, B_val.
  assert (Hp : 2 ^ 64 = 2 ^ (l + 1) * 2 ^ (63 - l)) by (rewrite <- rnd_pow_split by lia; f_equal; lia).
  assert (0 < 2 ^ (63 - l)) by (apply rnd_pow_pos; lia).
  assert (0 < 2 ^ (l + 1)) by (apply rnd_pow_pos; lia).
  destruct (div_mod_unique_pos (2 ^ (63 - l)) (2 ^ (l + 1) - 1) (2 ^ (63 - l) - 1) (2 ^ 64 - 1)) as [Hq _]; [lia | lia | exact Hq].
Qed.

Lemma rnd_land_ones w k : 0 <= k -> wand w (2 ^ k - 1) = w mod 2 ^ k.
Proof. intros Hk. unfold wand. rewrite <- Z.land_ones by assumption. rewrite Z.ones_equiv. reflexivity. Qed.

Lemma rnd_mod_pow_word w k : 0 <= k <= 64 -> is_word (w mod 2 ^ k).
Proof.
  intros Hk. apply rnd_lt_word. pose proof (rnd_pow_pos k ltac:(lia)).
  pose proof (Z.mod_pos_bound w (2 ^ k) ltac:(lia)). pose proof (rnd_pow_le k 64 ltac:(lia)). lia.
Qed.

(* ================= limbs ================= *)
Lemma rnd_nthz_nil i : nthz [] i = 0.
Proof. unfold nthz. destruct i; reflexivity. Qed.

Lemma rnd_nthz_word ls i : wf ls -> is_word (nthz ls i).
Proof.
  intros H. unfold nthz. destruct (Nat.lt_ge_cases i (length ls)).
  - unfold wf in H. rewrite Forall_forall in H. apply H. apply nth_In. assumption.
  - rewrite nth_overflow by assumption. apply is_word_0.
Qed.

(** the i-th limb is the i-th base-2^64 digit *)
Lemma rnd_nthz_eval ls : forall i, wf ls -> nthz ls i = (eval ls / Bn i) mod B.
Proof.
  induction ls as [|x ls IH]; intros i Hw.
  - rewrite rnd_nthz_nil. cbn [eval]. rewrite Z.div_0_l by (pose proof (Bn_pos i); lia). reflexivity.
  - apply wf_cons in Hw. destruct Hw as [Hx Hl]. unfold is_word in Hx. pose proof B_pos.
    destruct i as [|i].
    + rewrite Bn_0, Z.div_1_r. cbn [nthz nth eval]. unfold nthz. cbn [nth].
      rewrite Z.mul_comm, Z.mod_add by lia. symmetry. apply Z.mod_small. lia.
    + unfold nthz in *. cbn [nth eval]. rewrite IH by assumption. rewrite Bn_S.
      rewrite <- Z.div_div by (pose proof (Bn_pos i); lia).
      destruct (div_mod_unique_pos B (eval ls) x (x + B * eval ls)) as [Hq _]; [lia | ring |].
      rewrite Hq. reflexivity.
Qed.

Lemma rnd_eval_zero_all ls : wf ls -> eval ls = 0 -> ls = zeros (length ls).
Proof.
  intros Hw He. apply eval_inj; auto using wf_zeros.
  - rewrite length_zeros. reflexivity.
  - rewrite eval_zeros. assumption.
Qed.

Lemma rnd_all_zero_spec ls : wf ls -> rnd_all_zero ls = (eval ls =? 0).
Proof.
  induction ls as [|x ls IH]; intros Hw; [reflexivity|].
  apply wf_cons in Hw. destruct Hw as [Hx Hl]. cbn [rnd_all_zero forallb eval].
  fold (rnd_all_zero ls). rewrite IH by assumption.
  pose proof (eval_nonneg ls Hl). unfold is_word in Hx. pose proof B_pos.
  destruct (Z.eqb_spec x 0), (Z.eqb_spec (eval ls) 0); cbn; symmetry;
    try (apply Z.eqb_eq; nia); apply Z.eqb_neq; nia.
Qed.

(* ================= the stream ================= *)
Lemma rnd_skipn_app_plus (pre ws : list Z) j : skipn (length pre + j) (pre ++ ws) = skipn j ws.
Proof. induction pre as [|x pre IH]; [reflexivity | exact IH]. Qed.

Lemma rnd_words_spec k : forall ws nw nb,
  rnd_words k (Rng ws nw nb) =
  if (length ws <? k)%nat then None
  else Some (firstn k ws, Rng (skipn k ws) (nw + Z.of_nat k) (nb + 8 * Z.of_nat k)).
Proof.
  induction k as [|k IH]; intros ws nw nb.
  - cbn. rewrite !Z.add_0_r. reflexivity.
  - destruct ws as [|w ws]; [reflexivity|].
    cbn [rnd_words rnd_u64]. rewrite IH. cbn [length firstn skipn].
    change (S (length ws) <? S k)%nat with (length ws <? k)%nat.
    destruct (length ws <? k)%nat; [reflexivity|].
    do 3 f_equal; lia.
Qed.

Lemma rnd_fill_full_spec k : forall buf ws nw nb,
  rnd_fill_full k buf (Rng ws nw nb) =
  if (length ws <? k)%nat then None
  else Some (map (fun w => w mod 2 ^ 64) (firstn k ws), (if (k =? 0)%nat then buf else nthz ws (k - 1) mod 2 ^ 64),
             Rng (skipn k ws) (nw + Z.of_nat k) (nb + 8 * Z.of_nat k)).
Proof.
  induction k as [|k IH]; intros buf ws nw nb.
  - cbn. rewrite !Z.add_0_r. reflexivity.
  - destruct ws as [|w ws]; [reflexivity|].
    cbn [rnd_fill_full rnd_fill]. change (4 <? 8) with true. cbn iota. change (8 * 8) with 64.
    rewrite IH. cbn [length firstn skipn map].
    change (S (length ws) <? S k)%nat with (length ws <? k)%nat.
    destruct (length ws <? k)%nat; [reflexivity|].
    change (S k =? 0)%nat with false. cbn iota.
    replace (S k - 1)%nat with k by lia.
    destruct k as [|k].
    + cbn. do 3 f_equal; lia.
    + change (S k =? 0)%nat with false. cbn iota. unfold nthz. cbn [nth].
      replace (S k - 1)%nat with k by lia. do 3 f_equal; lia.
Qed.

Lemma rnd_map_mod_wf ws : wf ws -> map (fun w => w mod 2 ^ 64) ws = ws.
Proof.
  induction ws as [|w ws IH]; intros H; [reflexivity|].
  apply wf_cons in H. destruct H as [Hw Hl]. cbn [map]. rewrite IH by assumption.
  f_equal. apply Z.mod_small. apply rnd_word_lt. assumption.
Qed.

(* ================= bits_vartime / bits (constant time) ================= *)
Lemma rnd_from_word_nonzero v : is_word v -> from_word_nonzero v = if v =? 0 then 0 else MAXW.
Proof.
  intros Hv. unfold from_word_nonzero, from_word_lsb, wor. rewrite rnd_shr63_lor.
  destruct (Z.eqb_spec v 0) as [->|Hne].
  - rewrite wneg_0. reflexivity.
  - assert (Hn : wneg v = B - v).
    { unfold wneg, wrap. unfold is_word in Hv. symmetry. apply (Z.mod_unique_pos _ _ (-1)); lia. }
    assert (Hw : is_word (wneg v)) by apply is_word_mod.
    rewrite (rnd_msb_ite _ Hv), (rnd_msb_ite _ Hw), Hn.
    apply rnd_word_lt in Hv. pose proof B_val. assert (H64 : 2 ^ 64 = 2 * 2 ^ 63) by reflexivity.
    destruct (Z.leb_spec (2 ^ 63) v); destruct (Z.leb_spec (2 ^ 63) (B - v)); try lia; cbn [Z.lor Pos.lor]; apply wneg_1.
Qed.

Lemma rnd_lz_loop_done l : forall c, rnd_lz_loop l c 0 = c.
Proof.
  induction l as [|x l IH]; intros c; [reflexivity|].
  cbn [rnd_lz_loop]. unfold wand. rewrite Z.land_0_l. cbn [choice_to_bool Z.odd]. rewrite Z.add_0_r. apply IH.
Qed.

Lemma rnd_lz_word x : is_word x -> 0 <= rnd_lz x <= 64 /\ (0 < x -> rnd_bitlen x = 64 - rnd_lz x).
Proof.
  intros Hx. apply rnd_word_lt in Hx. unfold rnd_lz. destruct (Z.eqb_spec x 0) as [->|Hn].
  - split; [lia|]. lia.
  - pose proof (Z.log2_nonneg x). assert (Z.log2 x < 64) by (apply Z.log2_lt_pow2; lia).
    split; [lia|]. intros. rewrite rnd_bitlen_pos by lia. lia.
Qed.

Lemma rnd_lz_loop_spec l : wf l -> forall c,
  64 * Z.of_nat (length l) - (rnd_lz_loop l c MAXW - c) = rnd_bitlen (eval (rev l)).
Proof.
  induction l as [|x l IH]; intros Hw c.
  - cbn. lia.
  - apply wf_cons in Hw. destruct Hw as [Hx Hl].
    cbn [rnd_lz_loop rev]. unfold choice_to_bool at 1. rewrite rnd_odd_MAXW.
    rewrite rnd_from_word_nonzero by assumption.
    rewrite eval_app, rev_length. cbn [eval]. rewrite Z.mul_0_r, Z.add_0_r.
    cbn [length]. rewrite Nat2Z.inj_succ. unfold Z.succ.
    destruct (Z.eqb_spec x 0) as [->|Hn].
    + replace (wand MAXW (wnot 0)) with MAXW by (vm_compute; reflexivity).
      rewrite Z.mul_0_r, Z.add_0_r. specialize (IH Hl (c + rnd_lz 0)).
      change (rnd_lz 0) with 64 in *. lia.
    + replace (wand MAXW (wnot MAXW)) with 0 by (vm_compute; reflexivity).
      rewrite rnd_lz_loop_done.
      assert (Hr : wf (rev l)). { unfold wf in *. apply Forall_rev. assumption. }
      pose proof (eval_bounds _ Hr) as Hb. rewrite rev_length, rnd_Bn_pow in Hb.
      unfold is_word in Hx. rewrite rnd_Bn_pow.
      rewrite rnd_bitlen_shift by lia.
      destruct (rnd_lz_word x) as [_ Hs]; [assumption|]. rewrite Hs by lia. lia.
Qed.

(** BoxedUint::bits (bits_precision - leading_zeros) is the bit length of the value *)
Lemma rnd_bits_ct_spec ls : wf ls -> rnd_bits_ct ls = rnd_bitlen (eval ls).
Proof.
  intros Hw. unfold rnd_bits_ct, rnd_leading_zeros, lenZ.
  assert (Hr : wf (rev ls)). { unfold wf in *. apply Forall_rev. assumption. }
  pose proof (rnd_lz_loop_spec (rev ls) Hr 0) as H. rewrite rev_length, rev_involutive in H. lia.
Qed.

Lemma rnd_top_index_spec ls : wf ls -> forall i, eval ls < Bn (S i) ->
  eval ls < Bn (S (rnd_top_index ls i)) /\ (rnd_top_index ls i = 0%nat \/ nthz ls (rnd_top_index ls i) <> 0).
Proof.
  intros Hw. induction i as [|i IH]; intros Hb.
  - cbn [rnd_top_index]. auto.
  - cbn [rnd_top_index]. destruct (Z.eqb_spec (nthz ls (S i)) 0) as [Hz|Hn]; [|auto].
    apply IH. rewrite rnd_nthz_eval in Hz by assumption.
    pose proof (eval_nonneg ls Hw). pose proof (Bn_pos (S i)). pose proof B_pos.
    rewrite (Bn_S (S i)) in Hb.
    assert (Hq : 0 <= eval ls / Bn (S i) < B).
    { split; [apply Z.div_pos; lia | apply Z.div_lt_upper_bound; lia]. }
    rewrite Z.mod_small in Hz by assumption.
    pose proof (Z.div_mod (eval ls) (Bn (S i)) ltac:(lia)) as Hdm.
    pose proof (Z.mod_pos_bound (eval ls) (Bn (S i)) ltac:(lia)). rewrite Hz in Hdm. lia.
Qed.

(** Uint::bits_vartime is the bit length of the value *)
Lemma rnd_bits_vartime_spec ls : wf ls -> length ls <> 0%nat -> rnd_bits_vartime ls = rnd_bitlen (eval ls).
Proof.
  intros Hw Hn. unfold rnd_bits_vartime.
  assert (Hb0 : eval ls < Bn (S (length ls - 1))).
  { replace (S (length ls - 1)) with (length ls) by lia. apply eval_bounds. assumption. }
  destruct (rnd_top_index_spec ls Hw _ Hb0) as [Hb Ht].
  set (t := rnd_top_index ls (length ls - 1)) in *.
  pose proof (eval_nonneg ls Hw) as H0. pose proof (Bn_pos t). pose proof B_pos.
  rewrite Bn_S in Hb.
  assert (Hq : 0 <= eval ls / Bn t < B).
  { split; [apply Z.div_pos; lia | apply Z.div_lt_upper_bound; lia]. }
  assert (Hd : nthz ls t = eval ls / Bn t).
  { rewrite rnd_nthz_eval by assumption. apply Z.mod_small. assumption. }
  rewrite Hd in *.
  pose proof (Z.div_mod (eval ls) (Bn t) ltac:(lia)) as Hdm.
  pose proof (Z.mod_pos_bound (eval ls) (Bn t) ltac:(lia)) as Hm.
  destruct (Z.eq_dec (eval ls / Bn t) 0) as [Hz|Hnz].
  - destruct Ht as [Ht|Ht]; [|contradiction]. rewrite Ht in *. rewrite Bn_0, Z.div_1_r in Hz.
    rewrite Hz. cbn. reflexivity.
  - rewrite rnd_Bn_pow in *. set (k := 64 * Z.of_nat t) in *.
    assert (Hsb : rnd_bitlen (eval ls) = k + rnd_bitlen (eval ls / 2 ^ k)).
    { replace (rnd_bitlen (eval ls)) with (rnd_bitlen (eval ls mod 2 ^ k + 2 ^ k * (eval ls / 2 ^ k))) by (f_equal; lia).
      apply rnd_bitlen_shift; lia. }
    destruct (rnd_lz_word (eval ls / 2 ^ k)) as [_ Hs]; [unfold is_word; lia|].
    rewrite Hsb, Hs by lia. lia.
Qed.
