(** C17 proofs, part 7: formatter for every radix, round trip, the refutation of the original `hi` test,
    and the table theorem  ops_radix_model = ops_radix_spec  on the documented domain. *)
From CB Require Import Model.Limbs Model.Div Model.Conv Model.Radix Proofs.WordP Proofs.LimbsP Proofs.ConvDigitsP
  Proofs.RadixSpecP Proofs.RadixParseP Proofs.RadixParseApiP Proofs.RadixParamsP Proofs.RadixPow2P Proofs.RadixEncP.
From Coq Require Import ZArith Lia List Bool String.
Import ListNotations.
Open Scope Z_scope.
Open Scope list_scope.
Notation length := List.length.

(** every supported radix: the formatter returns the canonical numeral of the value *)
Theorem format_correct r limbs : 2 <= r <= 36 -> wf limbs -> limbs <> [] ->
  radix_encode_limbs_to_string true r limbs = Some (numeral r (eval limbs)).
Proof.
  intros Hr Hw Hne. destruct (is_power_of_two r) eqn:Ep.
  - apply format_pow2_correct; assumption.
  - apply format_generic_correct; assumption.
Qed.

Theorem format_unsupported_radix_panics fixed r limbs : r < 2 \/ 36 < r ->
  radix_encode_limbs_to_string fixed r limbs = None.
Proof.
  intros Hr. unfold radix_encode_limbs_to_string.
  destruct (Z.ltb_spec r 2); [reflexivity|]. destruct (Z.ltb_spec 36 r); [reflexivity | lia].
Qed.

(** the ORIGINAL test `limbs[limb_count - 1] << lshift < div_limb` (wrapping shift) is wrong: a 14-limb value whose
    radix-31 string is wrong (finding F30; [fixed = false] is the code before tools/fix_C17_1.diff) *)
Definition f30_witness : list Z :=
  to_limbs 14 (((787662783788549761 / 16) * 2 ^ 64 + 2 ^ 60) * 787662783788549761 ^ 13).
Theorem format_original_refuted :
  exists r limbs, 2 <= r <= 36 /\ wf limbs /\ limbs <> [] /\
    radix_encode_limbs_to_string false r limbs <> Some (numeral r (eval limbs)) /\
    radix_encode_limbs_to_string true r limbs = Some (numeral r (eval limbs)).
Proof.
  exists 31, f30_witness. split; [lia|]. split; [apply wf_to_limbs|]. split; [vm_compute; discriminate|].
  split; [|apply format_correct; [lia | apply wf_to_limbs | vm_compute; discriminate]].
  intros E. apply (f_equal (fun o => match o with Some s => length s | None => 0%nat end)) in E.
  vm_compute in E. discriminate.
Qed.

Lemma m_format_correct r ls : 2 <= r <= 36 -> wf ls -> ls <> [] -> m_format ls r = Val [numeral r (eval ls)].
Proof.
  intros Hr Hw Hne. unfold m_format. destruct ls as [|l t] eqn:E; [contradiction|]. rewrite <- E in *.
  rewrite format_correct by assumption. reflexivity.
Qed.

(** parse (format x) = x at the same width *)
Theorem uint_roundtrip r ls : 2 <= r <= 36 -> wf ls -> ls <> [] -> m_uint_roundtrip ls r = Val [ls].
Proof.
  intros Hr Hw Hne. unfold m_uint_roundtrip. rewrite m_format_correct by assumption.
  pose proof (eval_bounds ls Hw) as Hb.
  apply uint_parse_correct; [assumption|].
  rewrite spec_roundtrip by lia. split; [apply numeral_well_formed; lia|]. split; [lia|].
  symmetry. apply to_limbs_eval. assumption.
Qed.

Lemma sp_prec_limbs_whole (n : nat) : (1 <= n)%nat -> sp_prec_limbs (64 * Z.of_nat n) = n.
Proof.
  intros Hn. unfold sp_prec_limbs. replace ((64 * Z.of_nat n + 63) / 64) with (Z.of_nat n).
  - rewrite Nat2Z.id. lia.
  - symmetry. apply (proj1 (div_mod_unique_pos 64 (Z.of_nat n) 63 (64 * Z.of_nat n + 63) ltac:(lia) ltac:(lia))).
Qed.

Theorem boxed_roundtrip r ls : 2 <= r <= 36 -> wf ls -> ls <> [] -> m_boxed_roundtrip ls r = Val [ls].
Proof.
  intros Hr Hw Hne. unfold m_boxed_roundtrip. rewrite m_format_correct by assumption.
  pose proof (eval_bounds ls Hw) as Hb.
  assert (Hn : (1 <= length ls)%nat) by (destruct ls; [contradiction | cbn [length]; lia]).
  apply boxed_prec_parse_correct; [assumption | unfold lenZ; lia|].
  rewrite spec_roundtrip by lia. split; [apply numeral_well_formed; lia|].
  unfold lenZ. rewrite sp_prec_limbs_whole by assumption.
  split; [rewrite Bn_2 in Hb; rewrite Nat2Z.inj_mul in Hb; exact (proj2 Hb)|].
  symmetry. apply to_limbs_eval. assumption.
Qed.

(** the unbounded boxed parse returns the value at its minimal width *)
Theorem boxed_parse_format r ls : 2 <= r <= 36 -> wf ls -> ls <> [] ->
  boxed_from_str_radix (numeral r (eval ls)) r = Val [to_limbs (sp_nlimbs (eval ls)) (eval ls)].
Proof.
  intros Hr Hw Hne. pose proof (eval_nonneg ls Hw).
  apply boxed_parse_correct; [assumption|]. rewrite spec_roundtrip by lia.
  split; [apply numeral_well_formed; lia | reflexivity].
Qed.

(* ---------------- the op tables ---------------- *)
Open Scope string_scope. Open Scope Z_scope.
Definition M17 (k : string) (dbg : bool) (a : list (list Z)) : outcome :=
  match lookup k ops_radix_model with Some f => f dbg a | None => Unsupported end.
Definition S17 (k : string) (dbg : bool) (a : list (list Z)) : outcome :=
  match lookup k ops_radix_spec with Some f => f dbg a | None => Unsupported end.
Definition radix_keys : list string :=
  ["uint.from_str_radix"; "boxed.from_str_radix"; "boxed.from_str_radix_prec"; "uint.to_string_radix";
   "boxed.to_string_radix"; "uint.radix_roundtrip"; "boxed.radix_roundtrip"].
(* the one class where the decoder deviates from the documented error (finding F31): a string that is no numeral
   and whose digits before the offending character already overflow the target *)
Definition f31_class (k : string) (dbg : bool) (a : list (list Z)) : Prop :=
  (k = "uint.from_str_radix" \/ k = "boxed.from_str_radix_prec") /\
  M17 k dbg a = ErrV E_InputSize /\ S17 k dbg a = ErrV E_InvalidDigit /\
  2 <= sarg 1 a <= 36 /\ sp_body (arg 0 a) <> [] /\ ~ well_formed (sarg 1 a) (arg 0 a).

Lemma sp_format_model r ls : sp_format r ls <> Unsupported -> m_format ls r = sp_format r ls.
Proof.
  unfold sp_format. destruct ls as [|l t] eqn:E; [intros H; contradiction|]. rewrite <- E in *.
  destruct (wfb ls) eqn:Ew; cbn [negb]; [|intros H; contradiction]. intros _.
  destruct (sp_radix_ok r) eqn:Er; cbn [negb].
  - apply radix_ok_range in Er. apply m_format_correct; [assumption | apply wfb_wf; assumption | rewrite E; discriminate].
  - unfold m_format. rewrite E. rewrite <- E. rewrite format_unsupported_radix_panics; [reflexivity|].
    unfold sp_radix_ok in Er. apply andb_false_iff in Er. destruct Er as [H|H]; apply Z.leb_gt in H; lia.
Qed.

Lemma sp_roundtrip_model (rt : list Z -> Z -> outcome) r ls :
  (forall r ls, 2 <= r <= 36 -> wf ls -> ls <> [] -> rt ls r = Val [ls]) ->
  (forall r ls, (r < 2 \/ 36 < r) -> ls <> [] -> rt ls r = PanicV) ->
  sp_roundtrip ls r <> Unsupported -> rt ls r = sp_roundtrip ls r.
Proof.
  intros Hok Hbad. unfold sp_roundtrip. destruct ls as [|l t] eqn:E; [intros H; contradiction|]. rewrite <- E in *.
  destruct (wfb ls) eqn:Ew; cbn [negb]; [|intros H; contradiction]. intros _.
  assert (Hne : ls <> []) by (rewrite E; discriminate).
  destruct (sp_radix_ok r) eqn:Er; cbn [negb].
  - apply radix_ok_range in Er. rewrite Hok by (try assumption; apply wfb_wf; assumption).
    rewrite to_limbs_eval by (apply wfb_wf; assumption). reflexivity.
  - apply Hbad; [|assumption]. unfold sp_radix_ok in Er. apply andb_false_iff in Er. destruct Er as [H|H]; apply Z.leb_gt in H; lia.
Qed.

Lemma m_format_panics r ls : (r < 2 \/ 36 < r) -> ls <> [] -> m_format ls r = PanicV.
Proof.
  intros Hr Hne. unfold m_format. destruct ls as [|l t] eqn:E; [contradiction|]. rewrite <- E.
  rewrite format_unsupported_radix_panics by assumption. reflexivity.
Qed.

(** model = spec for every entry of the table, wherever the specification is defined, except the F31 class *)
Theorem tables_agree_radix dbg a k : In k radix_keys -> S17 k dbg a <> Unsupported ->
  M17 k dbg a = S17 k dbg a \/ f31_class k dbg a.
Proof.
  intros Hin. unfold radix_keys in Hin. cbn [In] in Hin.
  destruct Hin as [<-|[<-|[<-|[<-|[<-|[<-|[<-|[]]]]]]]]; unfold f31_class, M17, S17; cbn [lookup ops_radix_model ops_radix_spec String.eqb Ascii.eqb Bool.eqb]; cbv beta iota.
  - (* uint.from_str_radix *)
    intros Hs. set (n := rx_nat 2 a) in *. set (s := arg 0 a) in *. set (r := sarg 1 a) in *.
    destruct (bytes_ok s) eqn:Eb; [|exfalso; apply Hs; unfold sp_parse; rewrite Eb; reflexivity].
    destruct (uint_parse_table n r s Eb) as [H|(H1 & H2 & H3 & H4 & H5)]; [left; assumption|].
    right. split; [left; reflexivity|]. split; [assumption|]. split; [assumption|]. split; [assumption|]. split; assumption.
  - (* boxed.from_str_radix *)
    intros Hs. set (s := arg 0 a) in *. set (r := sarg 1 a) in *.
    destruct (bytes_ok s) eqn:Eb; [|exfalso; apply Hs; unfold sp_parse; rewrite Eb; reflexivity].
    left. apply boxed_parse_table. assumption.
  - (* boxed.from_str_radix_prec *)
    intros Hs. set (s := arg 0 a) in *. set (r := sarg 1 a) in *. set (p := sarg 2 a) in *.
    destruct ((p <? 0) || (2 ^ 32 <=? p)) eqn:Ep; [exfalso; apply Hs; reflexivity|].
    apply orb_false_iff in Ep. destruct Ep as [Ep1 Ep2]. apply Z.ltb_ge in Ep1.
    destruct (bytes_ok s) eqn:Eb; [|exfalso; apply Hs; unfold sp_parse; rewrite Eb; reflexivity].
    destruct (boxed_prec_parse_table r s p Eb Ep1) as [H|(H1 & H2 & H3 & H4 & H5)]; [left; assumption|].
    right. split; [right; reflexivity|]. split; [assumption|]. split; [assumption|]. split; [assumption|]. split; assumption.
  - intros Hs. left. apply sp_format_model. assumption.
  - intros Hs. left. apply sp_format_model. assumption.
  - intros Hs. left. apply (sp_roundtrip_model m_uint_roundtrip); [apply uint_roundtrip | | assumption].
    intros r ls Hr Hne. unfold m_uint_roundtrip. rewrite m_format_panics by assumption. reflexivity.
  - intros Hs. left. apply (sp_roundtrip_model m_boxed_roundtrip); [apply boxed_roundtrip | | assumption].
    intros r ls Hr Hne. unfold m_boxed_roundtrip. rewrite m_format_panics by assumption. reflexivity.
Qed.
