(** C05 proofs, part 4: the arithmetic (sign-filling) right shift of Int equals floor division of the
    signed value by 2^s. *)
From CB Require Import Model.Limbs Model.AddSub Model.Bits Proofs.WordP Proofs.LimbsP Proofs.AddSubP
  Proofs.BitsWordP Proofs.ShiftP Proofs.LadderP Proofs.BitQueryP.
From Coq Require Import ZArith Lia List Bool.
Open Scope Z_scope.

(* ------------------------------------------------------------------ sign *)
Definition is_neg (a : list Z) : bool := Bn (length a) <=? 2 * eval a.

Lemma seval_is_neg a : seval a = if is_neg a then eval a - Bn (length a) else eval a.
Proof.
  unfold seval, is_neg. cbn zeta. destruct (Z.ltb_spec (2 * eval a) (Bn (length a)));
    destruct (Z.leb_spec (Bn (length a)) (2 * eval a)); try lia; reflexivity.
Qed.

Lemma is_neg_seval a : wf a -> is_neg a = (seval a <? 0).
Proof.
  intros Hw. rewrite seval_is_neg. pose proof (eval_bounds a Hw). unfold is_neg in *.
  destruct (Z.leb_spec (Bn (length a)) (2 * eval a)); symmetry; [apply Z.ltb_lt | apply Z.ltb_ge]; lia.
Qed.

Lemma Bn_even n : (0 < n)%nat -> exists H, Bn n = 2 * H /\ 0 < H.
Proof.
  intros Hn. destruct n; [lia|]. exists (2 ^ 63 * Bn n). rewrite Bn_S, B_half. pose proof (Bn_pos n).
  pose proof p63_pos. split; [ring | apply Z.mul_pos_pos; lia].
Qed.

Lemma msb_last a : wf a -> a <> [] -> (2 ^ 63 <=? last a 0) = is_neg a.
Proof.
  unfold is_neg. induction a as [|x a IH]; intros Hw Hne; [congruence|].
  apply wf_cons in Hw. destruct Hw as [Hx Ha]. unfold is_word in Hx.
  destruct a as [|y r].
  - cbn [last eval length]. rewrite Bn_S, Bn_0. pose proof B_half.
    destruct (Z.leb_spec (2 ^ 63) x); destruct (Z.leb_spec (B * 1) (2 * (x + B * 0))); try lia; reflexivity.
  - change (last (x :: y :: r) 0) with (last (y :: r) 0). rewrite (IH Ha ltac:(congruence)).
    set (m := length (y :: r)) in *. set (e := eval (y :: r)) in *.
    change (length (x :: y :: r)) with (S m). change (eval (x :: y :: r)) with (x + B * e).
    rewrite Bn_S. pose proof B_pos.
    destruct (Bn_even m ltac:(unfold m; simpl; lia)) as (K & HK & HKp).
    destruct (Z.leb_spec (Bn m) (2 * e)); destruct (Z.leb_spec (B * Bn m) (2 * (x + B * e))); try reflexivity; exfalso.
    + assert (B * Bn m <= B * (2 * e)) by (apply Z.mul_le_mono_nonneg_l; lia). lia.
    + assert (e + 1 <= K) by lia.
      assert (B * (e + 1) <= B * K) by (apply Z.mul_le_mono_nonneg_l; lia).
      rewrite HK in *. lia.
Qed.

Lemma from_word_msb_bool v : is_word v -> from_word_msb v = choice_of_bool (2 ^ 63 <=? v).
Proof.
  unfold is_word. rewrite B_val. intros Hv. unfold from_word_msb, from_word_lsb.
  change 63 with (64 - 1). rewrite top_bit_ge by lia. destruct (2 ^ (64 - 1) <=? v); vm_compute; reflexivity.
Qed.

Lemma wf_last a : wf a -> is_word (last a 0).
Proof.
  induction a as [|x a IH]; intros Hw; [apply is_word_0'|].
  apply wf_cons in Hw. destruct Hw as [Hx Ha]. destruct a; [exact Hx | apply IH; exact Ha].
Qed.

Lemma int_is_negative_correct a : wf a -> a <> [] -> int_is_negative a = choice_of_bool (is_neg a).
Proof.
  intros Hw Hne. unfold int_is_negative. rewrite from_word_msb_bool by (apply wf_last; assumption).
  rewrite msb_last by assumption. reflexivity.
Qed.

Lemma int_sign_fill_correct a : wf a -> a <> [] ->
  int_sign_fill a = if is_neg a then maxs (length a) else zeros (length a).
Proof.
  intros Hw Hne. unfold int_sign_fill. rewrite int_is_negative_correct by assumption.
  apply select_limbs_choice; auto using wf_zeros, wf_maxs. rewrite length_zeros, length_maxs. reflexivity.
Qed.

(* ------------------------------------------------------------------ arithmetic *)
(** floor division by a power of two that exceeds the magnitude: the sign fill *)
Lemma div_pow2_sign x s : 0 <= s -> - 2 ^ s <= x < 2 ^ s -> x / 2 ^ s = if x <? 0 then -1 else 0.
Proof.
  intros Hs Hx. pose proof (pow2_pos s Hs).
  destruct (Z.ltb_spec x 0).
  - assert (Hq : x / 2 ^ s = -1 /\ x mod 2 ^ s = x + 2 ^ s) by (apply div_mod_unique_pos; lia). tauto.
  - apply Z.div_small. lia.
Qed.

(** the sign-extended unsigned computation is the floor division of the signed value *)
Lemma sar_signed M H v s neg : M = 2 * H -> 0 < H -> 0 <= v < M -> 0 <= s ->
  neg = (M <=? 2 * v) ->
  let sv := if neg then v - M else v in
  let r := if neg then (v + M * (2 ^ s - 1)) / 2 ^ s else v / 2 ^ s in
  0 <= r < M /\ (if M <=? 2 * r then r - M else r) = sv / 2 ^ s.
Proof.
  intros HM HH Hv Hs Hneg. cbn zeta. pose proof (pow2_pos s Hs) as Hp. subst neg.
  destruct (Z.leb_spec M (2 * v)) as [Hn|Hn].
  - replace (v + M * (2 ^ s - 1)) with ((v - M) + M * 2 ^ s) by ring.
    rewrite Z.div_add by lia.
    set (q := (v - M) / 2 ^ s).
    assert (Hq1 : q < 0) by (apply Z.div_lt_upper_bound; lia).
    assert (Hq2 : - H <= q).
    { apply Z.div_le_lower_bound; [lia|].
      assert (H * 1 <= H * 2 ^ s) by (apply Z.mul_le_mono_nonneg_l; lia). lia. }
    split; [lia|]. destruct (Z.leb_spec M (2 * (q + M))); lia.
  - assert (0 <= v / 2 ^ s) by (apply Z.div_pos; lia).
    assert (v / 2 ^ s <= v).
    { apply Z.div_le_upper_bound; [lia|]. assert (1 * v <= 2 ^ s * v) by (apply Z.mul_le_mono_nonneg_r; lia). lia. }
    split; [lia|]. destruct (Z.leb_spec M (2 * (v / 2 ^ s))); lia.
Qed.

Lemma sar_unsigned_split v K N R : 0 < K -> 0 < R ->
  (v + K * N * (K * R - 1)) / (K * R) = (v / K + N * (R - 1)) / R + N * (K - 1).
Proof.
  intros HK HR. rewrite <- Z.div_div by lia.
  replace (v + K * N * (K * R - 1)) with (v + (N * (K * R - 1)) * K) by ring.
  rewrite Z.div_add by lia.
  replace (v / K + N * (K * R - 1)) with (v / K + N * (R - 1) + (N * (K - 1)) * R) by ring.
  rewrite Z.div_add by lia. reflexivity.
Qed.

(* ------------------------------------------------------------------ the sign carry *)
Lemma sign_carry_all :
  forallb (fun r => wxor MAXW (wshr MAXW r) =? (2 ^ r - 1) * 2 ^ (64 - r)) (map Z.of_nat (seq 1 63)) = true.
Proof. vm_compute. reflexivity. Qed.

Lemma sign_carry rem : 0 < rem < 64 -> wxor MAXW (wshr MAXW rem) = (2 ^ rem - 1) * 2 ^ (64 - rem).
Proof.
  intros Hr. pose proof sign_carry_all as H. rewrite forallb_forall in H.
  apply Z.eqb_eq. apply H. apply in_map_iff. exists (Z.to_nat rem). split; [lia|]. apply in_seq. lia.
Qed.

Lemma eval_repeat_MAXW n : eval (repeat MAXW n) = Bn n - 1.
Proof. exact (eval_maxs n). Qed.

(* ------------------------------------------------------------------ Int::overflowing_shr_vartime *)
Lemma int_shr_vartime_unsigned a s : wf a -> a <> [] -> 0 <= s ->
  let r := int_overflowing_shr_vartime a s in
  let M := Bn (length a) in
  snd r = choice_of_bool (s <? bitsZ' a) /\ wf (fst r) /\ length (fst r) = length a /\
  eval (fst r) = if s <? bitsZ' a
                 then (if is_neg a then (eval a + M * (2 ^ s - 1)) / 2 ^ s else eval a / 2 ^ s)
                 else (if is_neg a then M - 1 else 0).
Proof.
  intros Hw Hne Hs. cbn zeta. unfold int_overflowing_shr_vartime, bitsZ'.
  rewrite int_is_negative_correct, int_sign_fill_correct by assumption.
  set (n := length a). set (neg := is_neg a).
  destruct (Z.leb_spec (64 * Z.of_nat n) s) as [Hov|Hin].
  - destruct (Z.ltb_spec s (64 * Z.of_nat n)); [lia|]. cbn [fst snd ct_none].
    destruct neg.
    + rewrite eval_maxs, length_maxs. auto using wf_maxs.
    + rewrite eval_zeros, length_zeros. auto using wf_zeros.
  - destruct (Z.ltb_spec s (64 * Z.of_nat n)); [|lia].
    pose proof (shift_decomp s Hs) as (Hd & Hr & Hp). cbn zeta in Hd, Hr, Hp.
    set (sn := Z.to_nat (s / 64)) in *. set (rem := s mod 64) in *.
    assert (Hsn : (sn < n)%nat) by lia.
    set (moved := skipn sn a).
    assert (Hmw : wf moved) by (apply wf_skipn; assumption).
    assert (Hml : length moved = (n - sn)%nat) by (unfold moved; rewrite skipn_length; reflexivity).
    assert (Hme : eval moved = eval a / Bn sn) by (apply eval_skipn; [assumption | unfold n in *; lia]).
    pose proof (Bn_pos sn) as HK. pose proof (pow2_pos rem ltac:(lia)) as HR.
    pose proof (Bn_split n sn ltac:(lia)) as HBn. pose proof (Bn_pos (n - sn)%nat) as HN.
    rewrite select_word_choice by (auto using is_word_0', is_word_MAXW).
    set (base := if neg then MAXW else 0).
    assert (Hbw : wf (repeat base sn)) by (apply wf_repeat; unfold base; destruct neg; auto using is_word_0', is_word_MAXW).
    assert (Hbe : eval (repeat base sn) = if neg then Bn sn - 1 else 0).
    { unfold base. destruct neg; [apply eval_maxs | apply eval_zeros]. }
    destruct (Z.eqb_spec rem 0) as [Hz|Hnz]; cbn [fst snd ct_some].
    + split; [reflexivity|]. split; [apply wf_app; split; assumption|].
      split; [rewrite app_length, repeat_length; lia|].
      rewrite eval_app, Hml, Hme, Hbe, Hp, Hz, Z.pow_0_r, Z.mul_1_r, HBn.
      destruct neg; [|lia].
      replace (eval a + Bn sn * Bn (n - sn) * (Bn sn - 1)) with (eval a + (Bn (n - sn) * (Bn sn - 1)) * Bn sn) by ring.
      rewrite Z.div_add by lia. reflexivity.
    + set (t := if neg then 2 ^ rem - 1 else 0).
      assert (Hc : wxor base (wshr base rem) = t * 2 ^ (64 - rem)).
      { unfold base, t. destruct neg; [apply sign_carry; lia|]. unfold wxor, wshr.
        rewrite Z.div_0_l by lia. reflexivity. }
      rewrite Hc.
      pose proof (shr_carry_correct rem ltac:(lia) moved t Hmw ltac:(unfold t; destruct neg; lia)) as HC.
      cbn zeta in HC. destruct HC as (Cw & Cl & Ce & _).
      split; [reflexivity|]. split; [apply wf_app; split; assumption|].
      split; [rewrite app_length, repeat_length; lia|].
      rewrite eval_app, Cl, Hml, Ce, Hml, Hme, Hbe, Hp, HBn. unfold t.
      destruct neg.
      * rewrite sar_unsigned_split by lia. ring.
      * rewrite Z.mul_0_r, !Z.add_0_r. apply Z.div_div; lia.
Qed.

(** Int::overflowing_shr_vartime: floor division of the signed value; the sign fill beyond the width *)
Theorem int_shr_vartime_correct a s : wf a -> a <> [] -> 0 <= s ->
  let r := int_overflowing_shr_vartime a s in
  snd r = choice_of_bool (s <? bitsZ' a) /\ wf (fst r) /\ length (fst r) = length a /\
  seval (fst r) = seval a / 2 ^ s.
Proof.
  intros Hw Hne Hs. cbn zeta.
  pose proof (int_shr_vartime_unsigned a s Hw Hne Hs) as H. cbn zeta in H.
  destruct H as (Hc & Wr & Lr & Er).
  split; [exact Hc|]. split; [exact Wr|]. split; [exact Lr|].
  destruct (Bn_even (length a) ltac:(destruct a; [congruence | simpl; lia])) as (H & HM & HH).
  pose proof (eval_bounds a Hw) as Hb.
  rewrite (seval_is_neg a).
  unfold seval at 1. cbn zeta. rewrite Lr.
  replace (2 * eval (fst (int_overflowing_shr_vartime a s)) <? Bn (length a))
    with (negb (Bn (length a) <=? 2 * eval (fst (int_overflowing_shr_vartime a s))))
    by (rewrite Z.leb_antisym, negb_involutive; reflexivity).
  destruct (Z.ltb_spec s (bitsZ' a)) as [Hin|Hout].
  - pose proof (sar_signed (Bn (length a)) H (eval a) s (is_neg a) HM HH Hb Hs eq_refl) as S.
    cbn zeta in S. rewrite <- Er in S. destruct S as (_ & S). rewrite <- S.
    destruct (Bn (length a) <=? 2 * eval (fst (int_overflowing_shr_vartime a s))); reflexivity.
  - (* beyond the width: -1 or 0, which is again the floor division *)
    assert (Hp : Bn (length a) <= 2 ^ s).
    { rewrite Bn_pow. apply pow2_le. unfold bitsZ' in Hout. lia. }
    rewrite Er. unfold is_neg.
    destruct (Z.leb_spec (Bn (length a)) (2 * eval a)).
    + rewrite div_pow2_sign by lia. destruct (Z.ltb_spec (eval a - Bn (length a)) 0); [|lia].
      destruct (Z.leb_spec (Bn (length a)) (2 * (Bn (length a) - 1))); cbn [negb]; lia.
    + rewrite div_pow2_sign by lia. destruct (Z.ltb_spec (eval a) 0); [lia|].
      destruct (Z.leb_spec (Bn (length a)) (2 * 0)); cbn [negb]; lia.
Qed.

(* ------------------------------------------------------------------ Int::overflowing_shr (ladder) *)
Definition P_sar (a : list Z) (acc : Z) (r : list Z) : Prop :=
  wf r /\ length r = length a /\ seval r = seval a / 2 ^ acc.

Lemma P_sar_step a acc r d : a <> [] -> P_sar a acc r -> 0 <= acc -> 0 <= d < bitsZ' a ->
  exists v, ct_expect (int_overflowing_shr_vartime r d) = Some v /\ P_sar a (acc + d) v.
Proof.
  intros Hne (Wr & Lr & Er) Hacc Hd.
  assert (Hrne : r <> []) by (destruct r, a; simpl in *; congruence).
  pose proof (int_shr_vartime_correct r d Wr Hrne ltac:(lia)) as H. cbn zeta in H.
  unfold bitsZ' in *. rewrite Lr in H.
  destruct (Z.ltb_spec d (64 * Z.of_nat (length a))); [|lia].
  destruct H as (Hc & Wv & Lv & Ev).
  destruct (int_overflowing_shr_vartime r d) as [v c]. cbn [fst snd] in *. subst c.
  exists v. split; [apply ct_expect_some|].
  split; [exact Wv|]. split; [lia|].
  rewrite Ev, Er. rewrite pow2_split by lia.
  pose proof (pow2_pos acc Hacc). pose proof (pow2_pos d ltac:(lia)). apply Z.div_div; lia.
Qed.

Lemma P_sar_0 a : wf a -> P_sar a 0 a.
Proof. intros Hw. split; [exact Hw|]. split; [reflexivity|]. rewrite Z.pow_0_r, Z.div_1_r. reflexivity. Qed.

Theorem int_overflowing_shr_correct a s :
  wf a -> a <> [] -> bitsZ' a < U32 -> 0 <= s < U32 ->
  exists v, int_overflowing_shr a s = Some (v, choice_of_bool (s <? bitsZ' a)) /\
            wf v /\ length v = length a /\
            (s < bitsZ' a -> seval v = seval a / 2 ^ s).
Proof.
  intros Hw Hne Hbits Hs. pose proof (bits_ge_64 a Hne) as H64.
  unfold int_overflowing_shr. unfold lenZ. fold (bitsZ' a).
  rewrite from_u32_lt_bool by lia. rewrite choice_not_bool.
  pose proof (Z.mod_pos_bound s (bitsZ' a) ltac:(lia)) as Hsh.
  destruct (ladder_full int_overflowing_shr_vartime (length a) (bitsZ' a) (P_sar a)
              ltac:(intros ? ? (? & ? & ?); auto) (fun acc r d => P_sar_step a acc r d Hne)
              a (s mod bitsZ' a) H64 (P_sar_0 a Hw) Hsh)
    as (r' & Er & (Wr & Lr & Ee)).
  rewrite Er. rewrite choice_not_bool, negb_involutive.
  eexists. split; [reflexivity|]. split; [exact Wr|]. split; [exact Lr|].
  intros Hin. rewrite (Z.mod_small s) in Ee by lia. exact Ee.
Qed.

(** wrapping_shr / wrapping_shr_vartime of Int: floor(x / 2^s) for EVERY shift amount (the sign fill
    returned for s >= BITS is that floor) *)
Lemma sign_fill_seval a s : wf a -> a <> [] -> bitsZ' a <= s ->
  wf (int_sign_fill a) /\ length (int_sign_fill a) = length a /\ seval (int_sign_fill a) = seval a / 2 ^ s.
Proof.
  intros Hw Hne Hs.
  pose proof (int_shr_vartime_correct a s Hw Hne ltac:(unfold bitsZ' in *; lia)) as H. cbn zeta in H.
  unfold int_overflowing_shr_vartime in H. fold (bitsZ' a) in H. unfold bitsZ' in *.
  destruct (Z.leb_spec (64 * Z.of_nat (length a)) s); [|lia]. cbn [fst snd ct_none] in H. tauto.
Qed.

Theorem int_wrapping_shr_vartime_correct a s : wf a -> a <> [] -> 0 <= s ->
  let r := ct_unwrap_or (int_overflowing_shr_vartime a s) (int_sign_fill a) in
  wf r /\ length r = length a /\ seval r = seval a / 2 ^ s.
Proof.
  intros Hw Hne Hs. cbn zeta.
  pose proof (int_shr_vartime_correct a s Hw Hne Hs) as H. cbn zeta in H. destruct H as (Hc & Wr & Lr & Er).
  destruct (int_overflowing_shr_vartime a s) as [v c]. cbn [fst snd] in *. subst c.
  destruct (Z.ltb_spec s (bitsZ' a)) as [Hin|Hout].
  - rewrite ct_unwrap_or_choice; auto.
    + destruct (sign_fill_seval a (bitsZ' a) Hw Hne ltac:(lia)) as (W & _ & _). exact W.
    + destruct (sign_fill_seval a (bitsZ' a) Hw Hne ltac:(lia)) as (_ & L & _). lia.
  - destruct (sign_fill_seval a s Hw Hne Hout) as (W & L & E).
    rewrite ct_unwrap_or_choice by (auto; lia). auto.
Qed.

Theorem int_wrapping_shr_correct a s : wf a -> a <> [] -> bitsZ' a < U32 -> 0 <= s < U32 ->
  exists v, int_overflowing_shr a s = Some v /\
    let r := ct_unwrap_or v (int_sign_fill a) in
    wf r /\ length r = length a /\ seval r = seval a / 2 ^ s.
Proof.
  intros Hw Hne Hb Hs.
  destruct (int_overflowing_shr_correct a s Hw Hne Hb Hs) as (v & E & Wv & Lv & Ev).
  eexists. split; [exact E|]. cbn zeta.
  destruct (Z.ltb_spec s (bitsZ' a)) as [Hin|Hout].
  - destruct (sign_fill_seval a (bitsZ' a) Hw Hne ltac:(lia)) as (W & L & _).
    rewrite ct_unwrap_or_choice by (auto; lia). auto.
  - destruct (sign_fill_seval a s Hw Hne Hout) as (W & L & E').
    rewrite ct_unwrap_or_choice by (auto; lia). auto.
Qed.

Lemma int_is_negative_seval a : wf a -> a <> [] -> int_is_negative a = choice_of_bool (seval a <? 0).
Proof. intros Hw Hne. rewrite int_is_negative_correct, is_neg_seval by assumption. reflexivity. Qed.
