(** C02 proofs: 2-by-1 and 3-by-2 division kernels, limb division loops. *)
From CB Require Import Model.Limbs Model.Div Proofs.WordP Proofs.LimbsP Proofs.Div2by1G.
From Coq Require Import ZArith Lia List.
Open Scope Z_scope.

Definition recip_ok (d v : Z) : Prop := v = (B * B - 1) / d - B.
Definition normalized (d : Z) : Prop := B <= 2 * d /\ d < B.

Lemma recip_range d v : normalized d -> recip_ok d v -> 0 <= v < B.
Proof.
  unfold normalized, recip_ok. intros [H1 H2] ->. pose proof B_gt1.
  assert (0 < d) by lia.
  pose proof (Z.div_mod (B * B - 1) d ltac:(lia)) as Hdm.
  pose proof (Z.mod_pos_bound (B * B - 1) d ltac:(lia)) as Hmb.
  set (k := (B * B - 1) / d) in *.
  assert (B <= k).
  { apply Z.div_le_lower_bound; [lia|]. assert (d * B <= (B - 1) * B) by (apply Z.mul_le_mono_nonneg_r; lia). lia. }
  assert (k < 2 * B).
  { apply Z.div_lt_upper_bound; [lia|]. assert (B * B <= d * (2 * B)) by nia. lia. }
  lia.
Qed.

Lemma div2by1_eq_generic u1 u0 d v :
  is_word u0 -> 0 <= u1 < d -> normalized d -> recip_ok d v ->
  div2by1 u1 u0 {| r_d := d; r_shift := 0; r_v := v |} = div2by1_g B u1 u0 d v.
Proof.
  intros Hu0 Hu1 Hn Hrec. pose proof (recip_range d v Hn Hrec) as Hv. destruct Hn as [Hd1 Hd2]. unfold is_word in Hu0. pose proof B_gt1.
  unfold div2by1, div2by1_g, mulhilo, addhilo, wrap2, r_d, r_v, ltw, sel, wadd, wsub, wmul, wrap.
  pose proof BB_val as HBB.
  pose proof (Z.div_mod (v * u1) B ltac:(lia)) as Hm.
  replace (v * u1 / B * B + (v * u1) mod B) with (v * u1) by lia.
  set (q := v * u1 + (u1 * B + u0)).
  assert (Hq : 0 <= q < BB).
  { rewrite HBB. unfold q. assert (0 <= v * u1) by (apply Z.mul_nonneg_nonneg; lia).
    assert (0 <= u1 * B) by (apply Z.mul_nonneg_nonneg; lia).
    assert (Hvd : (v + B) * d <= B * B - 1).
    { unfold recip_ok in Hrec. rewrite Hrec. replace ((B * B - 1) / d - B + B) with ((B * B - 1) / d) by lia.
      rewrite Z.mul_comm. apply Z.mul_div_le. lia. }
    assert (u1 * (v + B) <= (d - 1) * (v + B)) by (apply Z.mul_le_mono_nonneg_r; lia).
    lia. }
  rewrite (Z.mod_small q BB) by lia.
  assert (Hq1 : 0 <= q / B < B).
  { split; [apply Z.div_pos; lia | apply Z.div_lt_upper_bound; lia]. }
  rewrite (Z.mod_small (q / B) B) by lia.
  rewrite (Zminus_mod_idemp_r u0 (((q / B + 1) mod B) * d) B).
  destruct (q mod B <? (u0 - (q / B + 1) mod B * d) mod B);
    match goal with |- context [d <=? ?r] => destruct (d <=? r) end; reflexivity.
Qed.

Theorem div2by1_correct u1 u0 rc :
  is_word u0 -> 0 <= u1 < r_d rc -> normalized (r_d rc) -> recip_ok (r_d rc) (r_v rc) ->
  let '(q, r) := div2by1 u1 u0 rc in
  u1 * B + u0 = q * r_d rc + r /\ 0 <= r < r_d rc /\ 0 <= q < B.
Proof.
  intros Hu0 Hu1 Hn Hr. destruct rc as [d sh v]. cbn [r_d r_v] in *.
  pose proof (recip_range d v Hn Hr) as Hv.
  assert (E : div2by1 u1 u0 {| r_d := d; r_shift := sh; r_v := v |} = div2by1 u1 u0 {| r_d := d; r_shift := 0; r_v := v |}) by reflexivity.
  rewrite E, div2by1_eq_generic by assumption.
  destruct Hn as [Hd1 Hd2]. unfold is_word in Hu0. pose proof B_gt1.
  apply (div2by1_correct B ltac:(lia) u1 u0 d v); auto; lia.
Qed.

(** quotient and remainder as Z.div / Z.modulo *)
Corollary div2by1_divmod u1 u0 rc :
  is_word u0 -> 0 <= u1 < r_d rc -> normalized (r_d rc) -> recip_ok (r_d rc) (r_v rc) ->
  div2by1 u1 u0 rc = ((u1 * B + u0) / r_d rc, (u1 * B + u0) mod r_d rc).
Proof.
  intros H1 H2 H3 H4. pose proof (div2by1_correct u1 u0 rc H1 H2 H3 H4) as H.
  destruct (div2by1 u1 u0 rc) as [q r]. destruct H as (He & Hr & Hq).
  assert (Hq' : (u1 * B + u0) / r_d rc = q /\ (u1 * B + u0) mod r_d rc = r) by (apply div_mod_unique_pos; lia).
  destruct Hq' as [-> ->]. reflexivity.
Qed.

(* ---- division of a limb list by a normalized word, most significant limb first ---- *)
Lemma divlimb_go_correct rc : normalized (r_d rc) -> recip_ok (r_d rc) (r_v rc) ->
  forall us r qs rf, wf us -> 0 <= r < r_d rc ->
  divlimb_go (rev us) r rc = (qs, rf) ->
  r * Bn (length us) + eval us = eval (rev qs) * r_d rc + rf /\ 0 <= rf < r_d rc /\ wf (rev qs) /\ length qs = length us.
Proof.
  intros Hn Hr us. induction us as [|x us IH] using rev_ind; intros r qs rf Hw Hrr E.
  - simpl in E. inv_pair E. simpl. rewrite Bn_0. repeat split; try lia. apply wf_nil.
  - rewrite rev_app_distr in E. cbn [rev app divlimb_go] in E.
    apply wf_app in Hw. destruct Hw as [Hw Hx]. apply wf_cons in Hx. destruct Hx as [Hx _].
    pose proof (div2by1_correct r x rc Hx Hrr Hn Hr) as Hd.
    destruct (div2by1 r x rc) as [q r'] eqn:E1. destruct Hd as (He & Hr' & Hq).
    destruct (divlimb_go (rev us) r' rc) as [qs' rf'] eqn:E2. inv_pair E.
    specialize (IH r' qs' rf' Hw Hr' E2). destruct IH as (IHe & IHr & IHw & IHl).
    cbn [rev].
    rewrite app_length, !eval_app. cbn [length eval]. rewrite Nat.add_1_r, Bn_S.
    replace (length (rev qs')) with (length us) by (rewrite rev_length; auto).
    pose proof (Bn_pos (length us)).
    repeat split; try lia.
    apply wf_app. split; [assumption|]. apply wf_cons. split; [unfold is_word; lia | apply wf_nil].
Qed.

(* ---- shl_limb: shift left by 0 <= s < 64 with carry-out ---- *)
From CB Require Import Proofs.BitsP.

Lemma is_word_0' : is_word 0. Proof. unfold is_word. pose proof B_pos. lia. Qed.
Lemma last_In (w : Z) r d : In (last (w :: r) d) (w :: r).
Proof.
  revert w. induction r as [|y r IH]; intros w; [left; reflexivity|]. right.
  change (last (w :: y :: r) d) with (last (y :: r) d). apply (IH y).
Qed.
Lemma last_cons (w : Z) r d : last (w :: r) d = last r w.
Proof.
  revert w d. induction r as [|y r IH]; intros w d; [reflexivity|].
  transitivity (last (y :: r) d); [reflexivity|]. rewrite (IH y d), (IH y w). reflexivity.
Qed.

Lemma shl_limb_go_correct s : 0 < s < 64 -> forall x prev, wf x -> is_word prev ->
  eval (shl_limb_go prev x s) + Bn (length x) * (last x prev / 2 ^ (64 - s)) = eval x * 2 ^ s + prev / 2 ^ (64 - s)
  /\ wf (shl_limb_go prev x s) /\ length (shl_limb_go prev x s) = length x.
Proof.
  intros Hs x. induction x as [|w r IH]; intros prev Hw Hp.
  - simpl. rewrite Bn_0. repeat split; try lia. apply wf_nil.
  - apply wf_cons in Hw. destruct Hw as [Hw Hr]. specialize (IH w Hr Hw). destruct IH as (IHe & IHw & IHl).
    cbn [shl_limb_go]. assert (s =? 0 = false) as -> by (apply Z.eqb_neq; lia).
    rewrite last_cons. cbn [eval length]. rewrite Bn_S.
    destruct (wshl_split w s Hw Hs) as (Hsplit & Hhi & k & Hk & Hk0).
    destruct (wshl_split prev s Hp Hs) as (_ & Hphi & _).
    assert (Hlor : Z.lor (wshl w s) (prev / 2 ^ (64 - s)) = wshl w s + prev / 2 ^ (64 - s)).
    { rewrite Hk. apply lor_disjoint; lia. }
    rewrite Hlor. repeat split.
    + assert (B * (eval (shl_limb_go w r s) + Bn (length r) * (last r w / 2 ^ (64 - s))) =
              B * (eval r * 2 ^ s + w / 2 ^ (64 - s))) by (rewrite IHe; reflexivity).
      lia.
    + apply wf_cons. split; [|assumption]. unfold is_word in *.
      assert (wshl w s + 2 ^ s <= B).
      { rewrite Hk. assert (0 < 2 ^ s) by (apply Z.pow_pos_nonneg; lia).
        assert (k * 2 ^ s < B) by (rewrite <- Hk; unfold wshl, wrap; pose proof B_pos; apply Z.mod_pos_bound; lia).
        rewrite B_val in *. replace (2 ^ 64) with (2 ^ (64 - s) * 2 ^ s) in * by (rewrite <- pow2_split by lia; f_equal; lia).
        assert (k < 2 ^ (64 - s)) by nia. nia. }
      assert (0 <= wshl w s) by (rewrite Hk; apply Z.mul_nonneg_nonneg; lia). lia.
    + simpl. rewrite IHl. reflexivity.
Qed.

Lemma shl_limb_go_0 x prev : wf x -> shl_limb_go prev x 0 = x.
Proof.
  revert prev. induction x as [|w r IH]; intros prev Hw; [reflexivity|].
  apply wf_cons in Hw. destruct Hw as [Hw Hr]. cbn [shl_limb_go]. change (0 =? 0) with true. cbv iota.
  rewrite Z.lor_0_r. unfold wshl, wrap. rewrite Z.pow_0_r, Z.mul_1_r, mod_small' by assumption.
  rewrite IH by assumption. reflexivity.
Qed.

Theorem shl_limb_correct x s : wf x -> 0 <= s < 64 ->
  let '(r, c) := shl_limb x s in
  eval r + Bn (length x) * c = eval x * 2 ^ s /\ wf r /\ length r = length x /\ 0 <= c < 2 ^ s.
Proof.
  intros Hw Hs. unfold shl_limb. destruct (s =? 0) eqn:Es.
  - apply Z.eqb_eq in Es. subst s. rewrite shl_limb_go_0 by assumption. rewrite Z.pow_0_r. repeat split; auto; lia.
  - apply Z.eqb_neq in Es. assert (Hs' : 0 < s < 64) by lia.
    destruct (shl_limb_go_correct s Hs' x 0 Hw is_word_0') as (He & Hwr & Hl).
    rewrite Z.div_0_l in He by (apply Z.pow_nonzero; lia).
    repeat split; auto; try lia.
    + apply Z.div_pos; [|apply Z.pow_pos_nonneg; lia].
      destruct x as [|w r]; [cbn [last]; lia|].
      assert (Hin : In (last (w :: r) 0) (w :: r)) by (apply last_In).
      unfold wf in Hw. rewrite Forall_forall in Hw. apply Hw in Hin. unfold is_word in Hin. lia.
    + destruct x as [|w r]; [cbn [last]; rewrite Z.div_0_l by (apply Z.pow_nonzero; lia); apply Z.pow_pos_nonneg; lia|].
      assert (Hin : In (last (w :: r) 0) (w :: r)) by (apply last_In).
      unfold wf in Hw. rewrite Forall_forall in Hw. apply Hw in Hin.
      destruct (wshl_split _ s Hin Hs') as (_ & Hb & _). lia.
Qed.

(* ---- division by a single limb, any number of dividend limbs ---- *)
Definition recip_for (d : Z) (rc : recip) : Prop :=
  0 <= r_shift rc < 64 /\ r_d rc = d * 2 ^ r_shift rc /\ normalized (r_d rc) /\ recip_ok (r_d rc) (r_v rc).

Theorem div_rem_limb_correct u d rc :
  wf u -> 0 < d -> recip_for d rc ->
  let '(q, r) := div_rem_limb_with_reciprocal u rc in
  eval u = eval q * d + r /\ 0 <= r < d /\ wf q /\ length q = length u.
Proof.
  intros Hw Hd (Hs & Hdn & Hn & Hr). unfold div_rem_limb_with_reciprocal.
  pose proof (shl_limb_correct u (r_shift rc) Hw Hs) as Hshl.
  destruct (shl_limb u (r_shift rc)) as [us uhi]. destruct Hshl as (He & Hwus & Hlus & Huhi).
  assert (H2s : 0 < 2 ^ r_shift rc) by (apply Z.pow_pos_nonneg; lia).
  assert (Huhi' : 0 <= uhi < r_d rc) by (rewrite Hdn; nia).
  destruct (divlimb_go (rev us) uhi rc) as [qs rf] eqn:E.
  pose proof (divlimb_go_correct rc Hn Hr us uhi qs rf Hwus Huhi' E) as (Hq & Hrf & Hwq & Hlq).
  rewrite Hlus in Hq. rewrite Hdn in Hq, Hrf.
  set (Q := eval (rev qs)) in *. set (s2 := 2 ^ r_shift rc) in *.
  assert (Hmul : rf = s2 * (eval u - Q * d)) by lia.
  assert (Hdiv : rf / s2 = eval u - Q * d).
  { rewrite Hmul. rewrite Z.mul_comm. apply Z.div_mul. lia. }
  rewrite Hdiv. set (t := eval u - Q * d) in *.
  assert (Ht0 : 0 <= t).
  { destruct (Z_lt_ge_dec t 0) as [Hneg|]; [|lia]. assert (s2 * t <= s2 * (-1)) by (apply Z.mul_le_mono_nonneg_l; lia). lia. }
  assert (Ht1 : t < d).
  { destruct (Z_lt_ge_dec t d) as [|Hge]; [assumption|]. assert (s2 * d <= s2 * t) by (apply Z.mul_le_mono_nonneg_l; lia). lia. }
  repeat split; try lia; [assumption | rewrite rev_length; lia].
Qed.

Lemma recip_new_for d :
  0 < d < B -> recip_ok (r_d (recip_new d)) (reciprocal (r_d (recip_new d))) -> recip_for d (recip_new d).
Proof.
  intros Hd Hrec. unfold recip_for, recip_new in *. cbn [r_d r_shift r_v] in *.
  unfold leading_zeros_word, bits_of in *. assert (Hd0 : d <=? 0 = false) by (apply Z.leb_gt; lia). rewrite Hd0 in *.
  pose proof (Z.log2_spec d ltac:(lia)) as [Hlo Hhi].
  pose proof (Z.log2_nonneg d).
  assert (Hl64 : Z.log2 d < 64).
  { apply Z.log2_lt_pow2; [lia|]. rewrite <- B_val. lia. }
  set (l := Z.log2 d) in *. replace (64 - (l + 1)) with (63 - l) in * by lia.
  assert (Hp : 2 ^ 63 = 2 ^ l * 2 ^ (63 - l)) by (rewrite <- pow2_split by lia; f_equal; lia).
  assert (Hp1 : 2 ^ 64 = 2 ^ Z.succ l * 2 ^ (63 - l)) by (rewrite <- pow2_split by lia; f_equal; lia).
  assert (0 < 2 ^ (63 - l)) by (apply Z.pow_pos_nonneg; lia).
  assert (Hdn : wshl d (63 - l) = d * 2 ^ (63 - l)).
  { unfold wshl, wrap. apply Z.mod_small. rewrite B_val, Hp1. nia. }
  rewrite Hdn in *. split; [lia|]. split; [reflexivity|]. split; [|assumption].
  unfold normalized. rewrite B_val, Hp1. replace (2 ^ Z.succ l) with (2 * 2 ^ l) by (rewrite Z.pow_succ_r by lia; reflexivity). nia.
Qed.
