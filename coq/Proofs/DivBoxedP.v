(** C02: BoxedUint division: div_rem_vartime_in_place, div_rem_vartime, rem_vartime. *)
From CB Require Import Model.Limbs Model.Div Proofs.WordP Proofs.LimbsP Proofs.BitsP Proofs.DivP Proofs.Rem2kP
  Proofs.Div3by2P Proofs.KnuthStepP Proofs.DivShiftP Proofs.DivVtP.
From Coq Require Import ZArith Lia List.
Open Scope Z_scope.

(* ---------- nlimbs / nshift are determined by their bounds ---------- *)
Lemma nlimbs_unique v k : 0 < v -> Bn (k - 1) <= v < Bn k -> (1 <= k)%nat -> nlimbs v = k.
Proof.
  intros Hv [Hlo Hhi] Hk. destruct (nlimbs_spec v Hv) as (H1 & _ & _ & [Hlo' Hhi'] & _).
  destruct (lt_eq_lt_dec (nlimbs v) k) as [[Hlt|Heq]|Hgt]; [|assumption|].
  - assert (Bn (nlimbs v) <= Bn (k - 1)) by (apply Bn_le; lia). lia.
  - assert (Bn k <= Bn (nlimbs v - 1)) by (apply Bn_le; lia). lia.
Qed.

Lemma nshift_unique v s : 0 < v -> 0 <= s ->
  Bn (nlimbs v) <= 2 * (v * 2 ^ s) -> v * 2 ^ s < Bn (nlimbs v) -> nshift v = s.
Proof.
  intros Hv Hs Hlo Hhi. destruct (nlimbs_spec v Hv) as (_ & Hs' & _ & _ & Hlo' & Hhi').
  set (t := nshift v) in *.
  assert (H1 : 2 ^ s < 2 ^ (t + 1)).
  { rewrite Z.pow_add_r, Z.pow_1_r by lia. apply (Z.mul_lt_mono_pos_l v); lia. }
  assert (H2 : 2 ^ t < 2 ^ (s + 1)).
  { rewrite Z.pow_add_r, Z.pow_1_r by lia. apply (Z.mul_lt_mono_pos_l v); lia. }
  apply Z.pow_lt_mono_r_iff in H1; [|lia|lia]. apply Z.pow_lt_mono_r_iff in H2; lia.
Qed.

(** a limb list with non-zero top limb t: significant limbs = all, shift = leading zeros of t *)
Lemma top_limb_facts l t : wf l -> 0 < t < B ->
  let v := eval (l ++ [t]) in let s := leading_zeros_word t in
  0 < v /\ 0 <= s < 64 /\ nlimbs v = S (length l) /\ nshift v = s /\
  Bn (length l) <= v /\ v * 2 ^ s < Bn (S (length l)) /\ Bn (S (length l)) <= 2 * (v * 2 ^ s).
Proof.
  intros Hw Ht v s. unfold v, s, leading_zeros_word.
  destruct (bits_of_spec t ltac:(lia)) as (Hb1 & Hlo & Hhi). set (b := bits_of t) in *.
  assert (Hb64 : b <= 64).
  { destruct (Z_lt_ge_dec 64 b); [|lia]. assert (2 ^ 64 <= 2 ^ (b - 1)) by (apply Z.pow_le_mono_r; lia).
    rewrite B_val in Ht. lia. }
  pose proof (eval_bounds l Hw) as Hbl. pose proof (Bn_pos (length l)) as Hp. pose proof B_half as Hh. pose proof p63_pos.
  rewrite eval_snoc. set (K := Bn (length l)) in *. rewrite Bn_S. fold K.
  assert (H2s : 0 < 2 ^ (64 - b)) by (apply Z.pow_pos_nonneg; lia).
  assert (Hp1 : 2 ^ 64 = 2 ^ b * 2 ^ (64 - b)) by (rewrite <- Z.pow_add_r by lia; f_equal; lia).
  assert (Hp2 : 2 ^ 63 = 2 ^ (b - 1) * 2 ^ (64 - b)) by (rewrite <- Z.pow_add_r by lia; f_equal; lia).
  assert (Hts1 : (t + 1) * 2 ^ (64 - b) <= B) by (rewrite B_val, Hp1; apply Z.mul_le_mono_nonneg_r; lia).
  assert (Hts2 : 2 ^ 63 <= t * 2 ^ (64 - b)) by (rewrite Hp2; apply Z.mul_le_mono_nonneg_r; lia).
  assert (HKt : K * 1 <= K * t) by (apply Z.mul_le_mono_nonneg_l; lia).
  assert (Hv0 : 0 < eval l + K * t) by lia.
  assert (Hhi' : (eval l + K * t) * 2 ^ (64 - b) < B * K).
  { assert ((eval l + K * t) * 2 ^ (64 - b) < (K * (t + 1)) * 2 ^ (64 - b)) by (apply Z.mul_lt_mono_pos_r; lia).
    assert (K * ((t + 1) * 2 ^ (64 - b)) <= K * B) by (apply Z.mul_le_mono_nonneg_l; lia). lia. }
  assert (Hlo' : B * K <= 2 * ((eval l + K * t) * 2 ^ (64 - b))).
  { assert (K * 2 ^ 63 <= K * (t * 2 ^ (64 - b))) by (apply Z.mul_le_mono_nonneg_l; lia).
    assert (0 <= eval l * 2 ^ (64 - b)) by (apply Z.mul_nonneg_nonneg; lia). lia. }
  assert (Hnl : nlimbs (eval l + K * t) = S (length l)).
  { apply nlimbs_unique; [lia| |lia]. replace (S (length l) - 1)%nat with (length l) by lia. fold K. rewrite Bn_S. fold K.
    split; [lia|]. assert (K * t <= K * (B - 1)) by (apply Z.mul_le_mono_nonneg_l; lia). lia. }
  split; [lia|]. split; [lia|]. split; [assumption|]. split.
  - apply nshift_unique; try lia; rewrite Hnl, Bn_S; fold K; lia.
  - split; [lia|]. split; lia.
Qed.

(* ---------- BoxedUint::div_rem_vartime_in_place ---------- *)
Theorem boxed_div_rem_in_place_correct x0 y0 q r :
  wf x0 -> wf y0 -> (2 <= length y0)%nat -> nthz y0 (length y0 - 1) <> 0 ->
  recip_ok (top64 (eval y0)) (reciprocal (top64 (eval y0))) ->
  boxed_div_rem_in_place x0 y0 = (q, r) ->
  eval x0 = eval q * eval y0 + eval r /\ 0 <= eval r < eval y0 /\
  length q = length x0 /\ length r = length y0 /\ wf q /\ wf r.
Proof.
  intros Hwx Hwy Hly Htop Hrec E.
  destruct (list_snoc y0 (length y0 - 1)) as (yl0 & t & Ey0 & Hlyl0); [lia|].
  assert (Ht : nthz y0 (length y0 - 1) = t).
  { rewrite Ey0 at 1. replace (yl0 ++ [t]) with (yl0 ++ t :: []) by reflexivity. apply nthz_app_mid. assumption. }
  rewrite Ht in Htop.
  assert (Hwy' : wf yl0 /\ is_word t).
  { rewrite Ey0 in Hwy. apply wf_app in Hwy. destruct Hwy as [H1 H2]. apply wf_cons in H2. tauto. }
  destruct Hwy' as [Hwyl0 Htw].
  assert (Ht0 : 0 < t < B) by (unfold is_word in Htw; lia).
  pose proof (top_limb_facts yl0 t Hwyl0 Ht0) as Hf. cbv zeta in Hf. rewrite <- Ey0 in Hf.
  destruct Hf as (Hyp & Hsh & Hnl & Hns & Hylo & Hnhi & Hnlo).
  rewrite Hlyl0 in *. replace (S (length y0 - 1)) with (length y0) in * by lia.
  set (s := leading_zeros_word t) in *.
  pose proof (eval_bounds x0 Hwx) as Hbx.
  unfold boxed_div_rem_in_place in E. rewrite Ht in E. fold s in E.
  set (n := length x0) in *. set (yc := length y0) in *.
  destruct (n =? 0)%nat eqn:E0.
  - apply Nat.eqb_eq in E0. inv_pair E. destruct x0; [|simpl in n; lia].
    rewrite eval_zeros. cbn [eval]. repeat split; auto using length_zeros, wf_zeros, wf_nil; lia.
  - apply Nat.eqb_neq in E0. destruct (n <? yc)%nat eqn:E2.
    + apply Nat.ltb_lt in E2. inv_pair E.
      assert (Bn n <= Bn (yc - 1)) by (apply Bn_le; lia).
      rewrite eval_app, !eval_zeros.
      repeat split; auto using length_zeros, wf_zeros; try lia.
      * rewrite app_length, length_zeros. lia.
      * apply wf_app. split; auto using wf_zeros.
    + apply Nat.ltb_ge in E2.
      pose proof (shl_limb_vartime_full x0 s Hwx Hsh) as Hx. fold n in Hx.
      destruct (shl_limb_vartime x0 s n) as [xs x_hi] eqn:Eshx. destruct Hx as (Hxe & Hwxs & Hlxs & Hxhi).
      destruct (shl_limb_vartime_low y0 s yc Hwy Hsh ltac:(lia) Hnhi) as (yw & yb & Hyw & Hlyw & Hwyw & Hwyb & Heyw & Heyb & Hlyy).
      destruct (shl_limb_vartime y0 s yc) as [y cy]. cbn [fst] in Hyw. subst y.
      destruct yc as [|[|k]] eqn:Eyc; [lia | lia |].
      assert (Hdtop : nthz yw (S k) = top64 (eval y0)).
      { rewrite top64_shifted by assumption. rewrite Hns, Hnl.
        destruct (list_snoc yw (S k) Hlyw) as (yw' & d & Eyw & Hlyw').
        assert (Hwyw' : wf yw') by (rewrite Eyw in Hwyw; apply wf_app in Hwyw; tauto).
        rewrite <- Heyw, Eyw. replace (S (S k) - 1)%nat with (length yw') by lia.
        rewrite top_limb_div by assumption.
        replace (yw' ++ [d]) with (yw' ++ d :: []) by reflexivity. apply nthz_app_mid. lia. }
      assert (Hrec' : recip_ok (nthz yw (S k)) (reciprocal (nthz yw (S k)))) by (rewrite Hdtop; assumption).
      assert (Hnlo' : Bn (S (S k)) <= 2 * eval yw) by (rewrite Heyw; assumption).
      destruct (vt_core k x0 xs x_hi yw yb s (eval y0) Hwxs Hlxs Hxe Hxhi Hsh E2 Hwyw Hlyw Heyw Hnlo' Hrec')
        as (rl & Qs & Hvx & Hlrl & HlQ & Hwrl & HwQ & Hrh & Hfin & Hfin2).
      fold n in Hvx, HlQ, Hrh, Hfin, Hfin2.
      set (st := div_vt_loop (n - S (S k) + 1) (n - 1) (S (S k)) (yw ++ yb)
                   (recip_new (nthz (yw ++ yb) (S (S k) - 1))) {| v_x := xs; v_xhi := x_hi |}) in *.
      rewrite Hvx in E. set (rh := v_xhi st) in *. inv_pair E.
      (* quotient *)
      replace (S (S k) - 1)%nat with (length rl) by lia.
      rewrite skipn_app, skipn_all, Nat.sub_diag. cbn [skipn app].
      rewrite <- HlQ, firstn_all.
      (* remainder *)
      rewrite firstn_app, Nat.sub_diag, firstn_all. cbn [firstn]. rewrite app_nil_r.
      assert (Hlr1 : length (rl ++ [rh]) = S (S k)) by (rewrite app_length; simpl; lia).
      assert (Hwr1 : wf (rl ++ [rh])) by (apply wf_app; split; [assumption | apply wf_cons; split; [assumption | apply wf_nil]]).
      pose proof (shr_limb_vartime_correct (rl ++ [rh]) [] s Hwr1 wf_nil eq_refl Hsh) as Hshr.
      rewrite Hlr1, app_nil_r in Hshr. cbv zeta in Hshr. destruct Hshr as (Hre & Hwr & Hlr).
      set (rr := shr_limb_vartime (rl ++ [rh]) s (S (S k))) in *.
      rewrite eval_app, eval_zeros, Hre. cbv zeta in Hfin, Hfin2.
      split; [lia|]. split; [assumption|].
      split; [rewrite app_length, length_zeros; lia|].
      split; [lia|].
      split; [apply wf_app; split; [assumption | apply wf_zeros] | assumption].
Qed.

(* ---------- the significant limbs of the divisor ---------- *)
Lemma significant_limbs y0 : wf y0 -> 0 < eval y0 ->
  let yc := nlimbs (eval y0) in
  (yc <= length y0)%nat /\ eval (firstn yc y0) = eval y0 /\ eval (skipn yc y0) = 0 /\
  nthz (firstn yc y0) (yc - 1) <> 0 /\ length (firstn yc y0) = yc.
Proof.
  intros Hw Hp yc. destruct (nlimbs_spec _ Hp) as (Hyc1 & _ & _ & [Hylo Hyhi] & _). fold yc in Hyc1, Hylo, Hyhi.
  pose proof (nlimbs_le_length y0 Hw Hp) as Hle. fold yc in Hle.
  pose proof (eval_firstn_skipn yc y0) as Hsplit. rewrite firstn_length_le in Hsplit by assumption.
  pose proof (eval_bounds _ (wf_firstn yc y0 Hw)) as Hbf. rewrite firstn_length_le in Hbf by assumption.
  pose proof (eval_nonneg _ (wf_skipn yc y0 Hw)) as Hbs. pose proof (Bn_pos yc) as HBk.
  assert (Hsk : eval (skipn yc y0) = 0).
  { destruct (Z.eq_dec (eval (skipn yc y0)) 0) as [|Hne]; [assumption|]. exfalso.
    assert (Bn yc * 1 <= Bn yc * eval (skipn yc y0)) by (apply Z.mul_le_mono_nonneg_l; lia). lia. }
  assert (Hfe : eval (firstn yc y0) = eval y0) by lia.
  split; [assumption|]. split; [assumption|]. split; [assumption|]. split; [|apply firstn_length_le; assumption].
  destruct (list_snoc (firstn yc y0) (yc - 1)) as (l & t & El & Hll); [rewrite firstn_length_le by assumption; lia|].
  rewrite El. replace (l ++ [t]) with (l ++ t :: []) by reflexivity. rewrite nthz_app_mid by assumption.
  intros ->. assert (Hwl : wf l) by (pose proof (wf_firstn yc y0 Hw) as Hff; rewrite El in Hff; apply wf_app in Hff; tauto).
  pose proof (eval_bounds l Hwl) as Hbl. rewrite Hll in Hbl.
  rewrite El, eval_snoc in Hfe. lia.
Qed.

(* ---------- BoxedUint::div_rem_vartime ---------- *)
Theorem boxed_div_rem_vartime_correct x0 y0 :
  wf x0 -> wf y0 -> eval y0 <> 0 ->
  recip_ok (top64 (eval y0)) (reciprocal (top64 (eval y0))) ->
  exists q r, boxed_div_rem_vartime x0 y0 = Some (q, r) /\
  eval x0 = eval q * eval y0 + eval r /\ 0 <= eval r < eval y0 /\
  length q = length x0 /\ length r = length y0 /\ wf q /\ wf r.
Proof.
  intros Hwx Hwy Hnz Hrec.
  pose proof (eval_nonneg y0 Hwy) as Hy0. assert (Hyp : 0 < eval y0) by lia.
  destruct (nlimbs_spec _ Hyp) as (Hyc1 & _ & _ & [Hylo Hyhi] & _).
  destruct (significant_limbs y0 Hwy Hyp) as (Hle & Hfe & Hsk & Htop & Hlf).
  unfold boxed_div_rem_vartime. fold (nlimbs (eval y0)).
  set (yc := nlimbs (eval y0)) in *. pose proof B_gt1 as HB.
  destruct yc as [|[|k]] eqn:Eyc; [lia| |].
  - rewrite Bn_1 in Hyhi.
    pose proof (eval_single_limb y0 Hwy Hyhi) as Hd. set (d := nthz y0 0) in *.
    assert (Hfor : recip_for d (recip_new d)).
    { apply recip_new_for; [lia|]. rewrite recip_new_top64 by lia. rewrite <- Hd. assumption. }
    pose proof (div_rem_limb_correct x0 d (recip_new d) Hwx ltac:(lia) Hfor) as H.
    destruct (div_rem_limb_with_reciprocal x0 (recip_new d)) as [q1 r1].
    destruct H as (He & Hr & Hwq & Hlq). exists q1, (resize (length y0) [r1]). split; [reflexivity|].
    assert (Hwr : wf [r1]) by (apply wf_cons; split; [unfold is_word; lia | apply wf_nil]).
    assert (Hev : eval (resize (length y0) [r1]) = r1).
    { rewrite eval_resize_ge by (auto; simpl; lia). cbn [eval]. lia. }
    rewrite Hev, Hd. repeat split; auto using length_resize, wf_resize; lia.
  - destruct (boxed_div_rem_in_place x0 (firstn (S (S k)) y0)) as [q r] eqn:E.
    exists q, (r ++ skipn (S (S k)) y0). split; [reflexivity|].
    pose proof (boxed_div_rem_in_place_correct x0 (firstn (S (S k)) y0) q r Hwx (wf_firstn _ _ Hwy)) as H.
    rewrite Hlf, Hfe in H. specialize (H ltac:(lia) Htop Hrec E).
    destruct H as (He & Hr & Hlq & Hlr & Hwq & Hwr).
    rewrite eval_app, Hsk. split; [lia|]. split; [lia|]. split; [assumption|].
    split; [rewrite app_length, skipn_length; lia|]. split; [assumption|].
    apply wf_app. split; [assumption | apply wf_skipn; assumption].
Qed.

Theorem boxed_div_rem_vartime_zero x0 y0 : wf y0 -> eval y0 = 0 -> boxed_div_rem_vartime x0 y0 = None.
Proof. intros _ Hz. unfold boxed_div_rem_vartime. rewrite Hz. reflexivity. Qed.

(* ---------- BoxedUint::rem_vartime ---------- *)
Theorem boxed_rem_vartime_correct x0 y0 :
  wf x0 -> wf y0 -> eval y0 <> 0 ->
  recip_ok (top64 (eval y0)) (reciprocal (top64 (eval y0))) ->
  exists r, boxed_rem_vartime x0 y0 = Some r /\
  eval r = eval x0 mod eval y0 /\ length r = length y0 /\ wf r.
Proof.
  intros Hwx Hwy Hnz Hrec.
  pose proof (eval_nonneg y0 Hwy) as Hy0. assert (Hyp : 0 < eval y0) by lia.
  destruct (nlimbs_spec _ Hyp) as (Hyc1 & _ & _ & [Hylo Hyhi] & _).
  destruct (significant_limbs y0 Hwy Hyp) as (Hle & Hfe & Hsk & Htop & Hlf).
  pose proof (eval_bounds x0 Hwx) as Hbx. pose proof (eval_bounds y0 Hwy) as Hby.
  unfold boxed_rem_vartime. fold (nlimbs (eval y0)).
  set (yc := nlimbs (eval y0)) in *. pose proof B_gt1 as HB.
  destruct yc as [|[|k]] eqn:Eyc; [lia| |].
  - rewrite Bn_1 in Hyhi.
    pose proof (eval_single_limb y0 Hwy Hyhi) as Hd. set (d := nthz y0 0) in *.
    assert (Hfor : recip_for d (recip_new d)).
    { apply recip_new_for; [lia|]. rewrite recip_new_top64 by lia. rewrite <- Hd. assumption. }
    pose proof (div_rem_limb_correct x0 d (recip_new d) Hwx ltac:(lia) Hfor) as H.
    unfold rem_limb_with_reciprocal.
    destruct (div_rem_limb_with_reciprocal x0 (recip_new d)) as [q1 r1]. cbn [snd].
    destruct H as (He & Hr & Hwq & Hlq). exists (resize (length y0) [r1]). split; [reflexivity|].
    assert (Hwr : wf [r1]) by (apply wf_cons; split; [unfold is_word; lia | apply wf_nil]).
    assert (Hev : eval (resize (length y0) [r1]) = r1).
    { rewrite eval_resize_ge by (auto; simpl; lia). cbn [eval]. lia. }
    rewrite Hev, Hd. split; [|split; auto using length_resize, wf_resize].
    apply (Z.mod_unique_pos _ _ (eval q1)); lia.
  - destruct (length x0 <? S (S k))%nat eqn:E2.
    + apply Nat.ltb_lt in E2. exists (resize (length y0) x0). split; [reflexivity|].
      assert (Bn (length x0) <= Bn (S (S k) - 1)) by (apply Bn_le; lia).
      rewrite eval_resize by assumption. rewrite (Z.mod_small (eval x0) (Bn (length y0))) by lia.
      split; [symmetry; apply Z.mod_small; lia|]. split; auto using length_resize, wf_resize.
    + destruct (boxed_div_rem_in_place x0 (firstn (S (S k)) y0)) as [q r] eqn:E.
      exists (r ++ skipn (S (S k)) y0). split; [reflexivity|].
      pose proof (boxed_div_rem_in_place_correct x0 (firstn (S (S k)) y0) q r Hwx (wf_firstn _ _ Hwy)) as H.
      rewrite Hlf, Hfe in H. specialize (H ltac:(lia) Htop Hrec E).
      destruct H as (He & Hr & Hlq & Hlr & Hwq & Hwr).
      rewrite eval_app, Hsk. split; [|split].
      * apply (Z.mod_unique_pos _ _ (eval q)); lia.
      * rewrite app_length, skipn_length. lia.
      * apply wf_app. split; [assumption | apply wf_skipn; assumption].
Qed.
