(** Lemmas about limb lists: eval, to_limbs, resize. *)
From CB Require Import Model.Limbs Proofs.WordP.
From Coq Require Import ZArith Lia List.
Open Scope Z_scope.

Lemma Bn_0 : Bn 0 = 1. Proof. reflexivity. Qed.
Lemma Bn_S n : Bn (S n) = B * Bn n.
Proof. unfold Bn. rewrite Nat2Z.inj_succ, Z.pow_succ_r by lia. reflexivity. Qed.
Lemma Bn_pos n : 0 < Bn n.
Proof. unfold Bn. pose proof B_pos. apply Z.pow_pos_nonneg; lia. Qed.
Lemma Bn_add n m : Bn (n + m) = Bn n * Bn m.
Proof. unfold Bn. rewrite Nat2Z.inj_add, Z.pow_add_r by lia. reflexivity. Qed.
Lemma Bn_1 : Bn 1 = B. Proof. unfold Bn. simpl. apply Z.pow_1_r. Qed.
Lemma Bn_le n m : (n <= m)%nat -> Bn n <= Bn m.
Proof. intros. unfold Bn. pose proof B_gt1. apply Z.pow_le_mono_r; lia. Qed.
Global Opaque Bn.

Lemma wf_cons x ls : wf (x :: ls) <-> is_word x /\ wf ls.
Proof. unfold wf. split; [intros H; inversion H; auto | intros [? ?]; constructor; auto]. Qed.
Lemma wf_nil : wf []. Proof. constructor. Qed.
Lemma wf_app a b : wf (a ++ b) <-> wf a /\ wf b.
Proof. unfold wf. apply Forall_app. Qed.

Lemma eval_bounds ls : wf ls -> 0 <= eval ls < Bn (length ls).
Proof.
  induction ls as [|x ls IH]; intros H; simpl.
  - rewrite Bn_0. lia.
  - apply wf_cons in H. destruct H as [Hx Hl]. specialize (IH Hl). rewrite Bn_S.
    unfold is_word in Hx. pose proof B_pos. nia.
Qed.

Lemma eval_nonneg ls : wf ls -> 0 <= eval ls.
Proof. intros H. apply eval_bounds in H. lia. Qed.

Lemma eval_app a b : eval (a ++ b) = eval a + Bn (length a) * eval b.
Proof.
  induction a as [|x a IH]; simpl.
  - rewrite Bn_0. lia.
  - rewrite IH, Bn_S. ring.
Qed.

Lemma eval_zeros n : eval (zeros n) = 0.
Proof. induction n; simpl; [reflexivity|]. unfold zeros in IHn. rewrite IHn. lia. Qed.
Lemma wf_zeros n : wf (zeros n).
Proof. unfold wf, zeros. apply Forall_forall. intros x Hx. apply repeat_spec in Hx. subst. unfold is_word. pose proof B_pos. lia. Qed.
Lemma length_zeros n : length (zeros n) = n. Proof. apply repeat_length. Qed.

Lemma length_to_limbs n x : length (to_limbs n x) = n.
Proof. revert x; induction n; intros; simpl; [reflexivity | rewrite IHn; reflexivity]. Qed.
Lemma wf_to_limbs n x : wf (to_limbs n x).
Proof. revert x; induction n; intros; simpl; [apply wf_nil | apply wf_cons; split; [apply is_word_mod | apply IHn]]. Qed.

Lemma eval_to_limbs n x : eval (to_limbs n x) = x mod Bn n.
Proof.
  revert x; induction n; intros x; simpl.
  - rewrite Bn_0, Z.mod_1_r. reflexivity.
  - rewrite IHn, Bn_S. pose proof B_pos. pose proof (Bn_pos n).
    rewrite Z.rem_mul_r by lia. reflexivity.
Qed.

Lemma to_limbs_eval ls : wf ls -> to_limbs (length ls) (eval ls) = ls.
Proof.
  induction ls as [|x ls IH]; intros H; simpl; [reflexivity|].
  apply wf_cons in H. destruct H as [Hx Hl]. unfold is_word in Hx. pose proof B_pos.
  assert (Hq : (x + B * eval ls) / B = eval ls /\ (x + B * eval ls) mod B = x).
  { apply div_mod_unique_pos; lia. }
  destruct Hq as [-> ->]. rewrite IH by assumption. reflexivity.
Qed.

Lemma to_limbs_small n x : 0 <= x < Bn n -> eval (to_limbs n x) = x.
Proof. intros. rewrite eval_to_limbs. apply Z.mod_small. assumption. Qed.

(** two well-formed lists of the same length with the same value are equal *)
Lemma eval_inj a b : wf a -> wf b -> length a = length b -> eval a = eval b -> a = b.
Proof.
  intros Ha Hb Hl He. rewrite <- (to_limbs_eval a Ha), <- (to_limbs_eval b Hb), Hl, He. reflexivity.
Qed.

Lemma to_limbs_unique n ls x : wf ls -> length ls = n -> eval ls = x mod Bn n -> ls = to_limbs n x.
Proof.
  intros Hw Hl He. apply eval_inj; auto using wf_to_limbs.
  - rewrite length_to_limbs. assumption.
  - rewrite eval_to_limbs. assumption.
Qed.

(* resize *)
Lemma length_resize n ls : length (resize n ls) = n.
Proof. unfold resize. rewrite firstn_length, app_length, length_zeros. lia. Qed.
Lemma wf_firstn n ls : wf ls -> wf (firstn n ls).
Proof. unfold wf. intros H. rewrite <- (firstn_skipn n ls) in H. apply Forall_app in H. tauto. Qed.
Lemma wf_skipn n ls : wf ls -> wf (skipn n ls).
Proof. unfold wf. intros H. rewrite <- (firstn_skipn n ls) in H. apply Forall_app in H. tauto. Qed.
Lemma wf_resize n ls : wf ls -> wf (resize n ls).
Proof. intros. unfold resize. apply wf_firstn. apply wf_app. split; [assumption | apply wf_zeros]. Qed.

Lemma eval_firstn_skipn n ls : eval ls = eval (firstn n ls) + Bn (length (firstn n ls)) * eval (skipn n ls).
Proof. rewrite <- eval_app, firstn_skipn. reflexivity. Qed.

Lemma eval_firstn n ls : wf ls -> (n <= length ls)%nat -> eval (firstn n ls) = eval ls mod Bn n.
Proof.
  intros Hw Hn. pose proof (eval_firstn_skipn n ls) as E. rewrite firstn_length_le in E by assumption.
  rewrite E. pose proof (Bn_pos n). rewrite (Z.mul_comm (Bn n)), Z.mod_add by lia.
  symmetry. apply Z.mod_small. pose proof (eval_bounds _ (wf_firstn n ls Hw)) as Hb.
  rewrite firstn_length_le in Hb by assumption. assumption.
Qed.

Lemma eval_resize n ls : wf ls -> eval (resize n ls) = eval ls mod Bn n.
Proof.
  intros Hw. unfold resize. rewrite eval_firstn.
  - rewrite eval_app, eval_zeros. f_equal. lia.
  - apply wf_app. split; [assumption | apply wf_zeros].
  - rewrite app_length, length_zeros. lia.
Qed.

Lemma eval_resize_ge n ls : wf ls -> (length ls <= n)%nat -> eval (resize n ls) = eval ls.
Proof.
  intros Hw Hn. rewrite eval_resize by assumption. apply Z.mod_small.
  pose proof (eval_bounds ls Hw). pose proof (Bn_le _ _ Hn). lia.
Qed.

Lemma resize_same ls : resize (length ls) ls = ls.
Proof. unfold resize. rewrite firstn_app, Nat.sub_diag, firstn_all. simpl. apply app_nil_r. Qed.
