(** C11, area modarith (Model/ModArith.v, owner C07). *)
From CB Require Import Model.Limbs Model.AddSub Model.Mul Model.Div Model.ModArith
  Proofs.WordP Proofs.WordPredP Proofs.LimbsP Proofs.TotalityP Proofs.TotalityDivP.
From Coq Require Import ZArith Lia List String Bool.
Open Scope Z_scope.
Notation length := List.length.

Lemma modarith_cover : covers modarith_keys ops_modarith_model = true.
Proof. vm_compute. reflexivity. Qed.
Lemma modarith_quiet : quiet_keys_ok ops_modarith_model ops_modarith_spec modarith_quiet_keys.
Proof. unfold modarith_quiet_keys. quiet_tac ops_modarith_model ops_modarith_spec. Qed.

(** anchor src/uint/mul_mod.rs:62-65, src/uint/boxed/mul_mod.rs:59-62 (finding F2, fixed: `carry + 1` is computed in
    the wide word): the model of the repaired reduction has no trap in either profile; its only panic is the division by
    the zero modulus 2^64 - c at one limb, i.e. c = 0 *)
Theorem mul_mod_special_none_iff dbg mulf a b c :
  mul_mod_special dbg mulf a b c = None <-> length a = 1%nat /\ wsub 0 c = 0.
Proof.
  unfold mul_mod_special. destruct (Nat.eqb_spec (length a) 1) as [H1|H1].
  - destruct (Z.eqb_spec (wsub 0 c) 0) as [E|E].
    + tauto.
    + destruct (mulhilo (nthz a 0) (nthz b 0)). split; [discriminate | tauto].
  - destruct (mulf a b) as [lo hi]. destruct (mac_by_limb lo hi c 0) as [lo' carry].
    destruct (adc_limbs lo' _ 0) as [lo'' carry']. split; [discriminate | tauto].
Qed.
Theorem mul_mod_special_never_panics dbg mulf a b c : 1 <= c < B -> mul_mod_special dbg mulf a b c <> None.
Proof.
  intros Hc E. apply mul_mod_special_none_iff in E. destruct E as [_ E].
  rewrite wsub_val in E by (unfold is_word; pose proof B_pos; lia).
  destruct (c <=? 0) eqn:Ec; [apply Z.leb_le in Ec; lia | lia].
Qed.

Local Ltac start := start_key ops_modarith_model ops_modarith_spec modarith_ty.

Lemma doms_dom a bin c o : doms a bin c o <> Unsupported -> 1 <= c < B.
Proof.
  unfold doms. destruct (1 <=? c) eqn:E1; cbn [andb]; [|intros H; contradiction H; reflexivity].
  destruct (c <? B) eqn:E2; cbn [andb]; [|intros H; contradiction H; reflexivity].
  intros _. apply Z.leb_le in E1. apply Z.ltb_lt in E2. lia.
Qed.
Lemma doms_np a bin c n x p : doms a bin c (rmod n x p) <> PanicV.
Proof. unfold doms, rmod. destruct (_ && _)%bool; discriminate. Qed.

Lemma key_uint_mul_mod_special : key_ok ops_modarith_model ops_modarith_spec modarith_ty "uint.mul_mod_special".
Proof.
  start. apply doms_dom in Hdom. split; intros HP.
  - exfalso. destruct (mul_mod_special dbg uint_split_mul (arg 0 a) (arg 1 a) (sarg 2 a)) eqn:E; [discriminate|].
    apply (mul_mod_special_never_panics _ _ _ _ _ Hdom E).
  - exfalso. exact (doms_np _ _ _ _ _ _ HP).
Qed.
Lemma key_boxed_mul_mod_special : key_ok ops_modarith_model ops_modarith_spec modarith_ty "boxed.mul_mod_special".
Proof.
  start. apply doms_dom in Hdom. split; intros HP.
  - exfalso. destruct (mul_mod_special dbg boxed_split_mul (arg 0 a) (arg 1 a) (sarg 2 a)) eqn:E; [discriminate|].
    apply (mul_mod_special_never_panics _ _ _ _ _ Hdom E).
  - exfalso. exact (doms_np _ _ _ _ _ _ HP).
Qed.
Lemma key_uint_mul_mod_trait : key_ok ops_modarith_model ops_modarith_spec modarith_ty "uint.mul_mod_trait".
Proof.
  start. change (forallb (fun x => x =? 0) (arg 2 a)) with (is_zero_l (arg 2 a)).
  rewrite is_zero_l_eqb by (apply wf_arg; assumption). unfold ev, rmod.
  destruct (eval (arg 2 a) =? 0); [tauto | split; discriminate].
Qed.
Lemma key_uint_mul_mod : key_ok ops_modarith_model ops_modarith_spec modarith_ty "uint.mul_mod".
Proof. start. unfold rmod in *. destruct (Z.even (ev 2 a)); [contradiction Hdom; reflexivity | split; discriminate]. Qed.
Lemma key_boxed_mul_mod : key_ok ops_modarith_model ops_modarith_spec modarith_ty "boxed.mul_mod".
Proof.
  start. unfold rmod in *. destruct (Z.even (ev 2 a)); [contradiction Hdom; reflexivity|].
  destruct (_ && _)%bool; split; discriminate.
Qed.
#[export] Hint Resolve key_uint_mul_mod_special key_boxed_mul_mod_special key_uint_mul_mod_trait key_uint_mul_mod
  key_boxed_mul_mod : c11keys.

Theorem modarith_panics_iff_documented :
  panics_iff_documented ops_modarith_model ops_modarith_spec modarith_keys modarith_ty.
Proof. apply panics_from_parts; [exact modarith_quiet | unfold modarith_panic_keys; by_keys]. Qed.
Theorem modarith_total_forms_never_panic :
  total_forms_never_panic ops_modarith_model modarith_total_keys modarith_total_ty.
Proof.
  apply (quiet_total _ ops_modarith_spec modarith_quiet_keys); [exact modarith_quiet|]. intros k H; exact H.
Qed.
