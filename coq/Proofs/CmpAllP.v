(** C06: the per-form lemmas of WordPredP / CmpWordP / CmpP / CmpIntP / CmpBoxedP grouped by type, so that
    Props/C06.v states one theorem per group (each [Print Assumptions] costs about half a second). *)
From CB Require Import Model.Limbs Model.AddSub Model.Cmp Proofs.WordP Proofs.LimbsP Proofs.AddSubP
  Proofs.CmpWordP Proofs.CmpP Proofs.CmpIntP Proofs.CmpBoxedP.
From Coq Require Import ZArith Lia List Bool.
Open Scope Z_scope.

Lemma word_predicates_spec x y : is_word x -> is_word y ->
  from_word_nonzero x = choice_of_bool (negb (x =? 0)) /\
  from_word_msb x = choice_of_bool (2 ^ 63 <=? x) /\
  from_word_eq x y = choice_of_bool (x =? y) /\
  from_word_lt x y = choice_of_bool (x <? y) /\
  from_word_gt x y = choice_of_bool (y <? x) /\
  from_word_le x y = choice_of_bool (x <=? y).
Proof.
  intros Hx Hy. repeat split.
  - apply from_word_nonzero_spec; assumption.
  - apply from_word_msb_spec; assumption.
  - apply from_word_eq_spec; assumption.
  - apply from_word_lt_spec; assumption.
  - apply from_word_gt_spec; assumption.
  - apply from_word_le_spec; assumption.
Qed.

Lemma limb_predicates_spec x y (c : bool) : is_word x -> is_word y ->
  limb_ct_eq x y = b2z (x =? y) /\ limb_ct_ne x y = b2z (negb (x =? y)) /\
  limb_ct_lt x y = b2z (x <? y) /\ limb_ct_gt x y = b2z (y <? x) /\
  limb_is_zero x = b2z (x =? 0) /\ limb_is_odd x = b2z (Z.odd x) /\
  st_select x y (b2z c) = (if c then y else x).
Proof.
  intros Hx Hy. repeat split.
  - apply limb_ct_eq_spec; assumption.
  - apply limb_ct_ne_spec; assumption.
  - apply limb_ct_lt_spec; assumption.
  - apply limb_ct_gt_spec; assumption.
  - apply limb_is_zero_spec; assumption.
  - apply limb_is_odd_spec; assumption.
  - apply st_select_spec; assumption.
Qed.

Lemma uint_order_spec a b : wf a -> wf b -> length a = length b ->
  uint_lt a b = choice_of_bool (eval a <? eval b) /\
  uint_gt a b = choice_of_bool (eval b <? eval a) /\
  uint_lte a b = choice_of_bool (eval a <=? eval b).
Proof.
  intros. repeat split; [apply uint_lt_spec | apply uint_gt_spec | apply uint_lte_spec]; assumption.
Qed.

Lemma uint_tests_spec a : wf a ->
  uint_is_nonzero a = choice_of_bool (negb (eval a =? 0)) /\
  uint_is_zero a = b2z (eval a =? 0) /\
  (a <> [] -> uint_is_one a = b2z (eval a =? 1)) /\
  integer_is_odd a = b2z (Z.odd (eval a)) /\
  uint_is_odd a = choice_of_bool (Z.odd (eval a)).
Proof.
  intros Ha. repeat split.
  - apply uint_is_nonzero_spec; assumption.
  - apply uint_is_zero_spec; assumption.
  - intros. apply uint_is_one_spec; assumption.
  - apply integer_is_odd_spec; assumption.
  - apply uint_is_odd_spec; assumption.
Qed.

Lemma int_order_spec a b : wf a -> wf b -> length a = length b -> a <> [] ->
  uint_eq a b = choice_of_bool (seval a =? seval b) /\
  int_lt a b = choice_of_bool (seval a <? seval b) /\
  int_gt a b = choice_of_bool (seval b <? seval a) /\
  int_cmp a b = ordz (seval a) (seval b) /\
  int_cmp_vartime a b = ordz (seval a) (seval b).
Proof.
  intros. repeat split;
    [apply int_eq_spec | apply int_lt_spec | apply int_gt_spec | apply int_cmp_spec | apply int_cmp_vartime_spec];
    assumption.
Qed.

Lemma int_tests_spec a : wf a -> a <> [] ->
  int_is_negative a = choice_of_bool (seval a <? 0) /\
  int_is_positive a = choice_of_bool (0 <? seval a) /\
  int_is_min a = choice_of_bool (seval a =? - half (length a)) /\
  int_is_max a = choice_of_bool (seval a =? half (length a) - 1) /\
  uint_is_nonzero a = choice_of_bool (negb (seval a =? 0)) /\
  uint_is_odd a = choice_of_bool (Z.odd (seval a)).
Proof.
  intros Ha Hn. repeat split.
  - apply int_is_negative_spec; assumption.
  - apply int_is_positive_spec; assumption.
  - apply int_is_min_spec; assumption.
  - apply int_is_max_spec; assumption.
  - apply int_to_nz_spec; assumption.
  - apply int_to_odd_spec; assumption.
Qed.

Lemma boxed_order_spec dbg a b : wf a -> wf b ->
  boxed_ct_eq a b = b2z (eval a =? eval b) /\
  boxed_ct_lt a b = b2z (eval a <? eval b) /\
  boxed_ct_gt a b = b2z (eval b <? eval a) /\
  boxed_cmp dbg a b = Some (ordz (eval a) (eval b)).
Proof.
  intros. repeat split;
    [apply boxed_ct_eq_spec | apply boxed_ct_lt_spec | apply boxed_ct_gt_spec | apply boxed_cmp_spec]; assumption.
Qed.

Lemma boxed_tests_spec a : wf a ->
  boxed_is_zero a = b2z (eval a =? 0) /\
  boxed_is_nonzero a = b2z (negb (eval a =? 0)) /\
  boxed_is_one a = b2z (eval a =? 1) /\
  integer_is_odd a = b2z (Z.odd (eval a)).
Proof.
  intros. repeat split;
    [apply boxed_is_zero_spec | apply boxed_is_nonzero_spec | apply boxed_is_one_spec | apply integer_is_odd_spec];
    assumption.
Qed.

Lemma boxed_select_swap_partial dbg a b (c : bool) : wf a -> wf b -> length a = length b ->
  boxed_ct_select dbg a b (b2z c) = Some (spec_select c a b) /\
  boxed_ct_swap dbg a b (b2z c) = Some (spec_select c a b, spec_select c b a).
Proof. intros. split; [apply boxed_ct_select_partial | apply boxed_ct_swap_partial]; assumption. Qed.
