(** C10: the headline statements, self-contained (no section context). *)
From CB Require Import Model.Limbs Model.AddSub Model.SafeGcd Proofs.WordP Proofs.LimbsP Proofs.BitsP
  Proofs.SafeGcdArithP Proofs.SafeGcdUnsatP Proofs.SafeGcdCoreP Proofs.InvMod2kP Proofs.LimbConvertP Proofs.SafeGcdInvP
  Proofs.SafeGcdConvP Proofs.SafeGcdUintP Proofs.SafeGcdWrapP.
From Coq Require Import ZArith Lia List Bool.
Open Scope Z_scope.

(** [converged] = the divsteps driver of this very call ended with g = 0 within iterations(f_bits, g_bits) jumps
    (for the vartime driver: it stopped within that many jumps) *)
Definition converged (vartime boxed : bool) (adj m a : list Z) : Prop :=
  let L := unsat_nlimbs (length m) in
  sg_conv vartime boxed (from_uint L adj) (from_uint L m) (from_uint L a) (inv_mod2_62 (hd 0 m)).

Theorem safegcd_inv_partial dbg vartime boxed adj m a n :
  wf m -> wf a -> wf adj -> length m = n -> length a = n -> length adj = n -> (0 < n)%nat -> Z.of_nat n <= 2 ^ 32 ->
  Z.odd (eval m) = true -> eval adj < eval m ->
  converged vartime boxed adj m a ->
  exists x is_some, sg_inv dbg vartime boxed adj m a = SgOk x is_some /\ wf x /\ length x = n /\
    (is_some = true <-> Z.gcd (eval a) (eval m) = 1) /\
    (is_some = true -> (eval a * eval x) mod eval m = eval adj mod eval m /\ 0 <= eval x < eval m).
Proof.
  intros Wm Wa Wadj Lm La Ladj Hn Hn32 Om HA Hc. unfold converged in Hc. rewrite Lm in Hc.
  pose proof (eval_bounds adj Wadj).
  destruct (sg_inv_partial m a adj n (eval m - 1) Wm Wa Wadj Lm La Ladj Hn Hn32 Om ltac:(lia) ltac:(lia) dbg vartime boxed Hc)
    as (x & some & E & Wx & Lx & Rx & Hs & Hv).
  exists x, some. repeat split; try assumption; try apply Hs; try lia. apply Hv. assumption.
Qed.

(** the same for modulus 1 and adjuster 1 <= m (every a is invertible modulo 1; the value is 0 or 1) *)
Theorem safegcd_inv_is_some_partial dbg vartime boxed adj m a n :
  wf m -> wf a -> wf adj -> length m = n -> length a = n -> length adj = n -> (0 < n)%nat -> Z.of_nat n <= 2 ^ 32 ->
  Z.odd (eval m) = true -> eval adj <= eval m ->
  converged vartime boxed adj m a ->
  exists x is_some, sg_inv dbg vartime boxed adj m a = SgOk x is_some /\ (is_some = true <-> Z.gcd (eval a) (eval m) = 1).
Proof.
  intros Wm Wa Wadj Lm La Ladj Hn Hn32 Om HA Hc. unfold converged in Hc. rewrite Lm in Hc.
  destruct (sg_inv_partial m a adj n (eval m) Wm Wa Wadj Lm La Ladj Hn Hn32 Om ltac:(lia) ltac:(lia) dbg vartime boxed Hc)
    as (x & some & E & Wx & Lx & Rx & Hs & Hv).
  exists x, some. split; assumption.
Qed.

(** no convergence assumption at all: a returned inverse IS an inverse, and it is returned only for coprime inputs *)
Theorem safegcd_inv_sound dbg vartime boxed adj m a n x :
  wf m -> wf a -> wf adj -> length m = n -> length a = n -> length adj = n -> (0 < n)%nat -> Z.of_nat n <= 2 ^ 32 ->
  Z.odd (eval m) = true -> eval adj < eval m ->
  sg_inv dbg vartime boxed adj m a = SgOk x true ->
  Z.gcd (eval a) (eval m) = 1 /\ (eval a * eval x) mod eval m = eval adj mod eval m /\ 0 <= eval x < eval m /\ wf x /\ length x = n.
Proof.
  intros Wm Wa Wadj Lm La Ladj Hn Hn32 Om HA E.
  pose proof (eval_bounds adj Wadj).
  destruct (sg_inv_sound m a adj n (eval m - 1) Wm Wa Wadj Lm La Ladj Hn Hn32 Om ltac:(lia) ltac:(lia) dbg vartime boxed x E)
    as (Wx & Lx & Rx & G & C).
  repeat split; try assumption; lia.
Qed.

Definition gcd_converged (vartime boxed : bool) (f g : list Z) : Prop :=
  let L := unsat_nlimbs (length f) in
  sg_conv vartime boxed (u_one L) (from_uint L f) (from_uint L g) (inv_mod2_62 (hd 0 f)).

(** SafeGcdInverter::gcd / gcd_vartime, safegcd::boxed::gcd / gcd_vartime: f odd, or g odd, or g = 0 *)
Theorem safegcd_gcd_partial dbg vartime boxed f g n :
  wf f -> wf g -> length f = n -> length g = n -> (0 < n)%nat -> Z.of_nat n <= 2 ^ 32 ->
  (Z.odd (eval f) = true \/ Z.odd (eval g) = true \/ eval g = 0) ->
  gcd_converged vartime boxed f g ->
  sg_gcd dbg vartime boxed f g = SgOk (to_limbs n (Z.gcd (eval f) (eval g))) true.
Proof.
  intros Wf Wg Lf Lg Hn Hn32 Hpre Hc. unfold gcd_converged in Hc. rewrite Lf in Hc.
  apply sg_gcd_partial; assumption.
Qed.

(** Uint::gcd / BoxedUint::gcd for ALL pairs (zeros, even/even, equal, powers of two) *)
Theorem gcd_partial dbg boxed a b n :
  wf a -> wf b -> length a = n -> length b = n -> (0 < n)%nat -> Z.of_nat n <= 2 ^ 32 ->
  uint_gcd_converged boxed a b = true ->
  uint_gcd dbg boxed a b = SgOk (to_limbs n (Z.gcd (eval a) (eval b))) true.
Proof. intros. apply uint_gcd_partial; assumption. Qed.

(** constant-time and vartime gcd return identical results *)
Theorem gcd_ct_vartime_agree_partial dbg boxed a b n :
  wf a -> wf b -> length a = n -> length b = n -> (0 < n)%nat -> Z.of_nat n <= 2 ^ 32 ->
  uint_gcd_converged boxed a b = true -> conv_gcd_vt boxed a b = true ->
  uint_gcd_vartime dbg boxed a b = uint_gcd dbg boxed a b.
Proof.
  intros Wa Wb La Lb Hn Hn32 H1 H2. unfold conv_gcd_vt in H2. rewrite La in H2.
  rewrite (uint_gcd_vartime_partial a b n dbg boxed Wa Wb La Lb Hn Hn32 H2).
  symmetry. apply uint_gcd_partial; assumption.
Qed.

(** Uint::inv_mod / BoxedUint::inv_mod, every modulus >= 1 (CRT over s 2^k) *)
Theorem inv_mod_partial dbg boxed a m n :
  wf a -> wf m -> length a = n -> length m = n -> (0 < n)%nat -> Z.of_nat n <= 2 ^ 32 -> 0 < eval m ->
  conv_inv boxed (odd_part m) a = true ->
  exists x is_some, uint_inv_mod dbg boxed a m = SgOk x is_some /\ wf x /\ length x = n /\
    (is_some = true <-> Z.gcd (eval a) (eval m) = 1) /\
    (is_some = true -> 2 <= eval m -> (eval a * eval x) mod eval m = 1 /\ 0 <= eval x < eval m).
Proof.
  intros Wa Wm La Lm Hn Hn32 Hm Hc. unfold conv_inv in Hc. rewrite (odd_part_eq m n Lm), length_to_limbs in Hc.
  destruct (uint_inv_mod_partial a m n Wa Wm La Lm Hn Hn32 Hm dbg boxed Hc) as (X & some & E & Hs & Hv).
  exists (to_limbs n X), some. split; [assumption|]. split; [apply wf_to_limbs|]. split; [apply length_to_limbs|]. split; [assumption|].
  intros S Hm2. rewrite (Hv S Hm2). pose proof (eval_bounds m Wm) as Bm. rewrite Lm in Bm.
  destruct (SafeGcdArithP.modinv_spec (eval a) (eval m) Hm) as (R & C).
  rewrite eval_to_limbs, (Z.mod_small (modinv _ _)) by lia. rewrite C, (proj1 Hs S). split; [apply Z.mod_small; lia | assumption].
Qed.

(** the reported flag is the hypothesis, for both drivers and any adjuster *)
Theorem converged_of_flag vartime boxed adj m a :
  sg_converged boxed m a (unsat_nlimbs (length m)) = true -> converged vartime boxed adj m a.
Proof. intros H. unfold converged. apply sg_converged_conv. assumption. Qed.
Theorem gcd_converged_of_flag vartime boxed f g :
  sg_converged boxed f g (unsat_nlimbs (length f)) = true -> gcd_converged vartime boxed f g.
Proof. intros H. unfold gcd_converged. apply sg_converged_conv. assumption. Qed.

(** limb conversion round trip (safegcd/macros.rs) *)
Theorem unsat_roundtrip x n : wf x -> length x = n -> to_uint n (from_uint (unsat_nlimbs n) x) = x.
Proof.
  intros W L. pose proof (unsat_nlimbs_ge n) as HL.
  destruct (from_uint_spec (unsat_nlimbs n) x W ltac:(unfold lenZ; rewrite L; lia)) as (W1 & L1 & E1).
  destruct (to_uint_spec n _ W1 ltac:(unfold lenZ; rewrite L1; lia)) as (W2 & L2 & E2).
  apply eval_inj; try assumption; [congruence|]. rewrite E2, E1. apply Z.mod_small. rewrite <- L. apply eval_bounds. assumption.
Qed.

(** F4: the original Uint::inv_mod panics for a zero modulus although gcd(2, 0) <> 1 calls for none *)
Theorem inv_mod_zero_modulus_original_refuted :
  exists a m, uint_inv_mod_original false false a m = SgPanic /\ out_sg (uint_inv_mod false false a m) = NoneV /\
              Z.gcd (eval a) (eval m) <> 1.
Proof. exists [2], [0]. vm_compute. repeat split; try reflexivity. discriminate. Qed.
