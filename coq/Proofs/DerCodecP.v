(** C18 proofs, part 2: the DER model (reader, tag, length, header, content, glue) against the specification. *)
From CB Require Import Model.Limbs Model.Conv Model.Der Proofs.WordP Proofs.LimbsP Proofs.ConvDigitsP Proofs.ConvBytesP
  Proofs.ConvCopyP Proofs.DerSpecP.
From Coq Require Import ZArith Lia List Bool.
Import ListNotations.
Open Scope Z_scope.
Open Scope list_scope.

(* ---------------------------------------------------------------- bind *)
Lemma bind_ok {A C} (r : res A) (f : A -> res C) y : bind r f = Ok y -> exists a, r = Ok a /\ f a = Ok y.
Proof. destruct r; cbn [bind]; intros H; try discriminate. exists a. split; [reflexivity | assumption]. Qed.
Lemma bind_nopn {A C} (r : res A) (f : A -> res C) : r <> Pn -> (forall a, r = Ok a -> f a <> Pn) -> bind r f <> Pn.
Proof. destruct r; cbn [bind]; intros H1 H2; [apply H2; reflexivity | discriminate | contradiction]. Qed.
Lemma bind_noOk {A C} (r : res A) (f : A -> res C) y : bind r f = Ok y -> r <> Pn.
Proof. destruct r; cbn [bind]; intros H; discriminate. Qed.
Lemma ok_inj {A} (a b : A) : Ok a = Ok b -> a = b. Proof. intros H. injection H. auto. Qed.
Lemma some_inj {A} (a b : A) : Some a = Some b -> a = b. Proof. intros H. injection H. auto. Qed.
Lemma pair_inj {A C} (a c : A) (b d : C) : (a, b) = (c, d) -> a = c /\ b = d. Proof. intros H. injection H. auto. Qed.
Ltac inv_bind H := let a := fresh "a" in let Ha := fresh "Ha" in
  apply bind_ok in H; destruct H as (a & Ha & H).

(* ---------------------------------------------------------------- reader *)
Lemma firstn_all_app {A} (a r : list A) : firstn (length a) (a ++ r) = a.
Proof. apply firstn_app_len. reflexivity. Qed.
Lemma skipn_all_app {A} (a r : list A) : skipn (length a) (a ++ r) = r.
Proof. apply skipn_app_len. reflexivity. Qed.

Lemma read_slice_app a r pos : read_slice (a ++ r, pos) (lenZ a) = Ok (a, (r, pos + lenZ a)).
Proof.
  unfold read_slice. rewrite lenZ_app. pose proof (lenZ_nonneg r).
  replace (lenZ a + lenZ r <? lenZ a) with false by (symmetry; apply Z.ltb_ge; lia).
  unfold lenZ. rewrite Nat2Z.id, firstn_all_app, skipn_all_app. reflexivity.
Qed.
Lemma read_slice_ok rest pos k a r' : 0 <= k -> read_slice (rest, pos) k = Ok (a, r') ->
  rest = a ++ fst r' /\ lenZ a = k /\ snd r' = pos + k.
Proof.
  intros Hk. unfold read_slice. destruct (Z.ltb_spec (lenZ rest) k); [discriminate|].
  intros E. injection E as <- <-. cbn [fst snd]. repeat split.
  - symmetry. apply firstn_skipn.
  - unfold lenZ in *. rewrite firstn_length. lia.
Qed.
Lemma read_slice_nopn r k : read_slice r k <> Pn.
Proof. destruct r as [rest pos]. unfold read_slice. destruct (lenZ rest <? k); discriminate. Qed.
Lemma read_byte_cons b r pos : read_byte (b :: r, pos) = Ok (b, (r, pos + 1)).
Proof.
  unfold read_byte. change (b :: r) with ([b] ++ r). change 1 with (lenZ [b]) at 1.
  rewrite read_slice_app. reflexivity.
Qed.
Lemma read_byte_nil pos : exists e, read_byte ([], pos) = Er e.
Proof. unfold read_byte, read_slice. cbn. eexists. reflexivity. Qed.
Lemma read_byte_ok rest pos b r' : read_byte (rest, pos) = Ok (b, r') -> rest = b :: fst r' /\ snd r' = pos + 1.
Proof.
  destruct rest as [|c r]; [destruct (read_byte_nil pos) as (e & ->); discriminate|].
  rewrite read_byte_cons. intros E. injection E as <- <-. split; reflexivity.
Qed.
Lemma read_byte_nopn r : read_byte r <> Pn.
Proof. unfold read_byte. apply bind_nopn; [apply read_slice_nopn | discriminate]. Qed.

(* ---------------------------------------------------------------- tag *)
Lemma tag_try_from_ok b t : tag_try_from b = Ok t -> t = b.
Proof.
  unfold tag_try_from. repeat match goal with |- context [if ?c then _ else _] => destruct c end;
    intros E; try discriminate; injection E as <-; reflexivity.
Qed.
Lemma tag_try_from_nopn b : tag_try_from b <> Pn.
Proof. unfold tag_try_from. repeat match goal with |- context [if ?c then _ else _] => destruct c end; discriminate. Qed.
Lemma tag_integer : tag_try_from 2 = Ok 2. Proof. reflexivity. Qed.

(* ---------------------------------------------------------------- length field *)
Lemma initial_octet_spec k : 128 <= k <= LEN_MAX -> initial_octet k = Some (128 + sp_octets k).
Proof.
  intros [Hl Hu]. unfold initial_octet, LEN_MAX in *.
  replace (k <? 128) with false by (symmetry; apply Z.ltb_ge; lia).
  destruct (Z.leb_spec k 255). { rewrite (sp_octets_unique k 1); [reflexivity | lia | lia | simpl; lia]. }
  destruct (Z.leb_spec k 65535). { rewrite (sp_octets_unique k 2); [reflexivity | lia | lia | simpl; lia]. }
  destruct (Z.leb_spec k 16777215). { rewrite (sp_octets_unique k 3); [reflexivity | lia | lia | simpl; lia]. }
  replace (k <=? 268435455) with true by (symmetry; apply Z.leb_le; lia).
  rewrite (sp_octets_unique k 4); [reflexivity | lia | lia | simpl; lia].
Qed.
Lemma initial_octet_some k t : initial_octet k = Some t -> 128 <= k <= LEN_MAX.
Proof.
  unfold initial_octet, LEN_MAX. destruct (Z.ltb_spec k 128); [discriminate|].
  repeat match goal with |- context [if ?a <=? ?b then _ else _] => destruct (Z.leb_spec a b) end; intros; try discriminate; lia.
Qed.

Lemma read_be_app ds rest pos acc : wfd 256 ds -> 0 <= acc -> (acc + 1) * 256 ^ Z.of_nat (length ds) <= 4294967296 ->
  read_be (length ds) (ds ++ rest, pos) acc = Ok (acc * 256 ^ Z.of_nat (length ds) + bev ds, (rest, pos + lenZ ds)).
Proof.
  revert pos acc. induction ds as [|d ds IH]; intros pos acc Hw Ha Hb.
  - cbn [length read_be app]. change (Z.of_nat 0) with 0. rewrite Z.pow_0_r, bev_nil. unfold lenZ. cbn [length].
    do 2 f_equal; [lia | f_equal; lia].
  - apply wfd_cons in Hw. destruct Hw as [Hd Hw].
    cbn [length read_be app]. rewrite read_byte_cons. cbn [bind fst snd].
    cbn [length] in Hb. rewrite Nat2Z.inj_succ, Z.pow_succ_r in Hb by lia.
    pose proof (pow256_pos (length ds)) as HP. set (P := 256 ^ Z.of_nat (length ds)) in *.
    assert (acc * 256 < 4294967296). { assert ((acc + 1) * 256 * 1 <= (acc + 1) * 256 * P) by (apply Z.mul_le_mono_nonneg_l; lia). lia. }
    rewrite Z.mod_small by lia. change 256 with (2 ^ 8) at 1. rewrite lor_shift_add by (change (2 ^ 8) with 256; lia).
    change (2 ^ 8) with 256. rewrite IH; try assumption; try lia.
    + rewrite bev_cons, Nat2Z.inj_succ, Z.pow_succ_r by lia. rewrite lenZ_cons. fold P.
      do 2 f_equal; [ring | f_equal; lia].
    + fold P. assert ((acc * 256 + d + 1) * P <= (acc + 1) * 256 * P) by (apply Z.mul_le_mono_nonneg_r; lia). lia.
Qed.
Lemma read_be_ok m bs pos acc v r' : read_be m (bs, pos) acc = Ok (v, r') ->
  exists ds, bs = ds ++ fst r' /\ length ds = m /\ snd r' = pos + Z.of_nat m.
Proof.
  revert bs pos acc. induction m as [|m IH]; intros bs pos acc H.
  - cbn [read_be] in H. injection H as <- <-. exists []. repeat split. cbn [snd]. lia.
  - cbn [read_be] in H. inv_bind H. destruct a as [b q]. destruct q as [bs1 p1].
    apply read_byte_ok in Ha. cbn [fst snd] in Ha, H. destruct Ha as [-> ->].
    apply IH in H. destruct H as (ds & E & L & Ps). exists (b :: ds). cbn [app length]. rewrite E at 1. repeat split; try lia.
Qed.
Lemma read_be_nopn m r acc : read_be m r acc <> Pn.
Proof. revert r acc. induction m as [|m IH]; intros r acc; cbn [read_be]; [discriminate|]. apply bind_nopn; [apply read_byte_nopn | intros; apply IH]. Qed.

Lemma length_decode_complete k rest pos : 0 <= k <= LEN_MAX ->
  length_decode (sp_der_length k ++ rest, pos) = Ok (k, (rest, pos + lenZ (sp_der_length k))).
Proof.
  intros Hk. unfold length_decode, sp_der_length. destruct (Z.ltb_spec k 128) as [Hs|Hs].
  - cbn [app]. rewrite read_byte_cons. cbn [bind fst snd].
    replace (k <? 128) with true by (symmetry; apply Z.ltb_lt; assumption). reflexivity.
  - pose proof (octets_ge128 k Hs) as Ho1. pose proof (octets_lenmax k Hk) as Ho4. set (o := sp_octets k) in *.
    cbn [app]. rewrite read_byte_cons. cbn [bind fst snd].
    replace (128 + o <? 128) with false by (symmetry; apply Z.ltb_ge; lia).
    replace (128 + o =? 128) with false by (symmetry; apply Z.eqb_neq; lia).
    replace (128 + o <=? 132) with true by (symmetry; apply Z.leb_le; lia).
    replace (128 + o - 128) with o by lia.
    pose proof (length_sp_be o k) as Hl. rewrite <- Hl.
    rewrite read_be_app.
    + cbn [bind fst snd]. rewrite Z.mul_0_l, Z.add_0_l. unfold o. rewrite bev_minimal by lia.
      replace (LEN_MAX <? k) with false by (symmetry; apply Z.ltb_ge; lia).
      rewrite initial_octet_spec by lia. rewrite Z.eqb_refl. rewrite lenZ_cons. do 3 f_equal. lia.
    + apply wfd_sp_be.
    + lia.
    + rewrite Hl, Z2Nat.id by lia. assert (256 ^ o <= 256 ^ 4) by (apply Z.pow_le_mono_r; lia). change (256 ^ 4) with 4294967296 in *. lia.
Qed.
Lemma length_decode_ok bs pos k r' : wfd 256 bs -> length_decode (bs, pos) = Ok (k, r') ->
  bs = sp_der_length k ++ fst r' /\ 0 <= k <= LEN_MAX /\ snd r' = pos + lenZ (sp_der_length k).
Proof.
  intros Hw H. unfold length_decode in H. inv_bind H. destruct a as [b q]. destruct q as [bs1 p1].
  apply read_byte_ok in Ha. cbn [fst snd] in Ha, H. destruct Ha as [-> ->].
  apply wfd_cons in Hw. destruct Hw as [Hb Hw].
  destruct (Z.ltb_spec b 128) as [Hs|Hs].
  - injection H as <- <-. cbn [fst snd]. unfold sp_der_length, LEN_MAX.
    replace (b <? 128) with true by (symmetry; apply Z.ltb_lt; assumption). cbn [app]. repeat split; try lia.
  - destruct (Z.eqb_spec b 128); [discriminate|]. destruct (Z.leb_spec b 132); [|discriminate].
    inv_bind H. destruct a as [len q]. cbn [fst snd] in H.
    destruct (Z.ltb_spec LEN_MAX len); [discriminate|].
    destruct (initial_octet len) as [t|] eqn:Ei; [|discriminate].
    destruct (Z.eqb_spec t b) as [->|]; [|discriminate]. injection H as <- <-.
    pose proof (initial_octet_some _ _ Ei) as Hr. rewrite initial_octet_spec in Ei by assumption. apply some_inj in Ei. rename Ei into Eb.
    pose proof Ha as Ha'. apply read_be_ok in Ha'. destruct Ha' as (ds & E & Ld & Ps).
    assert (Hwd : wfd 256 ds). { rewrite E in Hw. apply wfd_app in Hw. tauto. }
    rewrite E in Ha. rewrite <- Ld in Ha.
    rewrite read_be_app in Ha; [|assumption|lia|].
    + apply ok_inj, pair_inj in Ha. destruct Ha as [Ev _]. rewrite Z.mul_0_l, Z.add_0_l in Ev.
      assert (Eo : sp_octets len = lenZ ds). { unfold lenZ. rewrite Ld. lia. }
      unfold sp_der_length. replace (len <? 128) with false by (symmetry; apply Z.ltb_ge; lia).
      subst len. rewrite Eo. rewrite (sp_be_bev ds Hwd). cbn [app]. rewrite E at 1.
      assert (128 + lenZ ds = b) by lia. repeat split; try lia; try congruence.
      rewrite Ps, lenZ_cons. unfold lenZ. rewrite Ld. lia.
    + rewrite Ld. assert (256 ^ Z.of_nat (Z.to_nat (b - 128)) <= 256 ^ 4) by (apply Z.pow_le_mono_r; lia).
      change (256 ^ 4) with 4294967296 in *. lia.
Qed.
Lemma length_decode_nopn r : length_decode r <> Pn.
Proof.
  unfold length_decode. apply bind_nopn; [apply read_byte_nopn|]. intros [b q] _. cbn [fst snd].
  destruct (b <? 128); [discriminate|]. destruct (b =? 128); [discriminate|]. destruct (b <=? 132); [|discriminate].
  apply bind_nopn; [apply read_be_nopn|]. intros [len q'] _. cbn [fst snd].
  destruct (LEN_MAX <? len); [discriminate|]. destruct (initial_octet len); [|discriminate]. destruct (z =? b); discriminate.
Qed.

(* ---------------------------------------------------------------- header *)
Lemma header_decode_complete t k rest pos : tag_try_from t = Ok t -> 0 <= k <= LEN_MAX ->
  header_decode (t :: sp_der_length k ++ rest, pos) = Ok (t, k, (rest, pos + 1 + lenZ (sp_der_length k))).
Proof.
  intros Ht Hk. unfold header_decode. rewrite read_byte_cons. cbn [bind fst snd]. rewrite Ht. cbn [bind].
  rewrite length_decode_complete by assumption. cbn [fst snd]. reflexivity.
Qed.
Lemma header_decode_ok bs pos t k r' : wfd 256 bs -> header_decode (bs, pos) = Ok (t, k, r') ->
  bs = t :: sp_der_length k ++ fst r' /\ 0 <= k <= LEN_MAX /\ tag_try_from t = Ok t /\
  snd r' = pos + 1 + lenZ (sp_der_length k).
Proof.
  intros Hw H. unfold header_decode in H. inv_bind H. destruct a as [b q]. destruct q as [bs1 p1].
  apply read_byte_ok in Ha. cbn [fst snd] in Ha, H. destruct Ha as [-> ->].
  apply wfd_cons in Hw. destruct Hw as [Hb Hw].
  inv_bind H. pose proof (tag_try_from_ok _ _ Ha) as ->.
  destruct (length_decode (bs1, pos + 1)) as [[len q]| |] eqn:El; try discriminate.
  injection H as <- <- <-. apply length_decode_ok in El; [|assumption]. cbn [fst snd] in El. destruct El as (E & Hk & Ps).
  repeat split; try tauto; try lia. rewrite E at 1. reflexivity.
Qed.
Lemma header_decode_nopn r : header_decode r <> Pn.
Proof.
  unfold header_decode. apply bind_nopn; [apply read_byte_nopn|]. intros [b q] _. cbn [fst snd].
  apply bind_nopn; [apply tag_try_from_nopn|]. intros t _.
  pose proof (length_decode_nopn q). destruct (length_decode q); [discriminate | discriminate | contradiction].
Qed.

(* ---------------------------------------------------------------- content octets *)
(* the magnitude a canonical content denotes: without the sign pad *)
Definition unpad (c : list Z) : list Z :=
  match c with
  | b :: d :: r => if b =? 0 then d :: r else c
  | _ => c
  end.
Definition content_chain (c : list Z) (hlen : Z) : res (list Z) :=
  bind (decode_to_slice c) (fun sl =>
  bind (uintref_new sl) (fun u =>
  bind (uint_encoded_len u) (fun vl => if vl =? hlen then Ok u else Er E_Noncanonical))).
Lemma uintref_decode_value_eq r hlen :
  uintref_decode_value r hlen =
  bind (read_slice r hlen) (fun p => bind (content_chain (fst p) hlen) (fun u => Ok (u, snd p))).
Proof.
  unfold uintref_decode_value, content_chain. destruct (read_slice r hlen) as [p| |]; cbn [bind]; try reflexivity.
  destruct (decode_to_slice (fst p)); cbn [bind]; try reflexivity.
  destruct (uintref_new a); cbn [bind]; try reflexivity.
  destruct (uint_encoded_len a0); cbn [bind]; try reflexivity.
  destruct (a1 =? hlen); reflexivity.
Qed.

Lemma strip0_nz b r : b <> 0 -> strip_leading_zeroes (b :: r) = b :: r.
Proof. intros H. cbn [strip_leading_zeroes]. replace (b =? 0) with false by (symmetry; apply Z.eqb_neq; assumption). reflexivity. Qed.
Lemma ltb_false a b : b <= a -> (a <? b) = false. Proof. intros. apply Z.ltb_ge. assumption. Qed.
Lemma ltb_true a b : a < b -> (a <? b) = true. Proof. intros. apply Z.ltb_lt. assumption. Qed.
Lemma leb_true a b : a <= b -> (a <=? b) = true. Proof. intros. apply Z.leb_le. assumption. Qed.
Lemma leb_false a b : b < a -> (a <=? b) = false. Proof. intros. apply Z.leb_gt. assumption. Qed.
Lemma eqb_false a b : a <> b -> (a =? b) = false. Proof. intros. apply Z.eqb_neq. assumption. Qed.

(* a string that starts with a non-zero octet goes through UintRef::new and encoded_len unchanged *)
Lemma uintref_chain_nz b r hlen : b <> 0 -> lenZ (b :: r) + 1 <= LEN_MAX ->
  bind (uintref_new (b :: r)) (fun u => bind (uint_encoded_len u) (fun vl => if vl =? hlen then Ok u else Er E_Noncanonical))
  = if lenZ (b :: r) + b2z (128 <=? b) =? hlen then Ok (b :: r) else Er E_Noncanonical.
Proof.
  intros Hb Hl. unfold uintref_new, uint_encoded_len. rewrite strip0_nz by assumption.
  rewrite ltb_false by lia. cbn [bind]. rewrite strip0_nz by assumption. rewrite ltb_false by lia.
  unfold len_add. cbn [needs_leading_zero]. rewrite ltb_false by (destruct (128 <=? b); cbn [b2z]; lia).
  cbn [bind]. reflexivity.
Qed.

Lemma content_chain_spec c : wfd 256 c -> lenZ c <= LEN_MAX ->
  if der_canonb c then content_chain c (lenZ c) = Ok (unpad c) else exists e, content_chain c (lenZ c) = Er e.
Proof.
  intros Hw Hl. destruct c as [|b rest].
  - cbn. eexists. reflexivity.
  - pose proof Hw as Hw'. apply wfd_cons in Hw'. destruct Hw' as [Hb Hwr].
    unfold content_chain. cbn [decode_to_slice der_canonb].
    destruct (Z.eqb_spec b 0) as [->|Hnz].
    + destruct rest as [|d r].
      * reflexivity.
      * apply wfd_cons in Hwr. destruct Hwr as [Hd Hwr]. cbn [negb orb andb unpad]. rewrite Z.eqb_refl.
        change (0 <? 128) with true. cbn [andb].
        destruct (Z.ltb_spec d 128) as [Hs|Hs].
        -- rewrite leb_false by lia. cbn [bind]. eexists. reflexivity.
        -- rewrite leb_true by lia. cbn [bind]. rewrite lenZ_cons in Hl.
           rewrite uintref_chain_nz by lia. rewrite leb_true by lia. cbn [b2z].
           rewrite (lenZ_cons 0). replace (lenZ (d :: r) + 1 =? 1 + lenZ (d :: r)) with true by (symmetry; apply Z.eqb_eq; lia).
           reflexivity.
    + destruct (Z.leb_spec 128 b) as [Hs|Hs].
      * rewrite ltb_false by lia. cbn [andb bind]. eexists. reflexivity.
      * rewrite ltb_true by lia. cbn [andb bind].
        assert (Hc : forall (T : Type) (x y : T),
                  (if match rest with [] => true | d :: _ => negb false || (128 <=? d) end then x else y) = x).
        { intros. destruct rest; reflexivity. }
        rewrite Hc.
        assert (Hu : unpad (b :: rest) = b :: rest).
        { unfold unpad. destruct rest; [reflexivity|]. rewrite eqb_false by assumption. reflexivity. }
        rewrite Hu.
        destruct (Z.eq_dec (lenZ (b :: rest)) LEN_MAX) as [Emax|Nmax].
        -- (* exactly Length::MAX octets: still accepted, the pad bit is 0 *)
           unfold uintref_new, uint_encoded_len. rewrite strip0_nz by assumption. rewrite ltb_false by lia. cbn [bind].
           rewrite strip0_nz by assumption. rewrite ltb_false by lia. cbn [needs_leading_zero]. rewrite leb_false by lia.
           unfold len_add. cbn [b2z]. rewrite ltb_false by lia. cbn [bind]. rewrite Z.add_0_r, Z.eqb_refl. reflexivity.
        -- rewrite uintref_chain_nz by lia. rewrite leb_false by lia. cbn [b2z]. rewrite Z.add_0_r, Z.eqb_refl. reflexivity.
Qed.
Lemma content_chain_nopn c hlen : content_chain c hlen <> Pn.
Proof.
  unfold content_chain. apply bind_nopn.
  { unfold decode_to_slice. destruct c as [|b rest]; [discriminate|]. destruct (b =? 0); [destruct rest; [discriminate|]; destruct (z <? 128); discriminate|].
    destruct (128 <=? b); discriminate. }
  intros sl _. apply bind_nopn. { unfold uintref_new. destruct (LEN_MAX <? _); discriminate. }
  intros u _. apply bind_nopn. { unfold uint_encoded_len, len_add. destruct (LEN_MAX <? _); [discriminate|]. destruct (LEN_MAX <? _); discriminate. }
  intros vl _. destruct (vl =? hlen); discriminate.
Qed.

(** unpadding a canonical content: value unchanged, no leading zero unless it is the single octet 0 *)
Lemma unpad_spec c : wfd 256 c -> der_canonb c = true ->
  wfd 256 (unpad c) /\ bev (unpad c) = bev c /\ unpad c = mag0 (bev c).
Proof.
  intros Hw Hc. assert (Hx : 0 <= bev c) by (apply bev_bounds; assumption).
  pose proof (canon_unique c Hw Hc) as E. rewrite content_struct in E by assumption.
  (* c = der_pad (mag0 x) *)
  set (x := bev c) in *. pose proof (wfd_mag0 x) as Hm.
  assert (Hu : unpad (der_pad (mag0 x)) = mag0 x).
  { unfold mag0 in *. destruct (Z.eqb_spec x 0) as [E0|N0]; [reflexivity|].
    pose proof (minimal_no_lead0 x Hx) as Hn. destruct (sp_be (sp_octets x) x) as [|b r] eqn:Em.
    - reflexivity.
    - cbn [no_lead0] in Hn. unfold der_pad. cbn [needs_leading_zero]. destruct (128 <=? b).
      + cbn [unpad]. reflexivity.
      + unfold unpad. destruct r; [reflexivity|]. rewrite eqb_false by assumption. reflexivity. }
  rewrite <- E. rewrite Hu. repeat split; [assumption | apply bev_mag0; assumption].
Qed.

(* ---------------------------------------------------------------- UintRef::decode_value *)
Lemma uintref_decode_value_complete c rest pos : wfd 256 c -> der_canonb c = true -> lenZ c <= LEN_MAX ->
  uintref_decode_value (c ++ rest, pos) (lenZ c) = Ok (unpad c, (rest, pos + lenZ c)).
Proof.
  intros Hw Hc Hl. rewrite uintref_decode_value_eq, read_slice_app. cbn [bind fst snd].
  pose proof (content_chain_spec c Hw Hl) as H. rewrite Hc in H. rewrite H. reflexivity.
Qed.
Lemma uintref_decode_value_ok rest pos hlen u r' : wfd 256 rest -> 0 <= hlen <= LEN_MAX ->
  uintref_decode_value (rest, pos) hlen = Ok (u, r') ->
  exists c, rest = c ++ fst r' /\ lenZ c = hlen /\ wfd 256 c /\ der_canonb c = true /\ u = unpad c /\ snd r' = pos + hlen.
Proof.
  intros Hw Hh H. rewrite uintref_decode_value_eq in H. inv_bind H. destruct a as [c q].
  apply read_slice_ok in Ha; [|lia]. cbn [fst snd] in *. destruct Ha as (E & Lc & Ps).
  assert (Hwc : wfd 256 c). { rewrite E in Hw. apply wfd_app in Hw. tauto. }
  inv_bind H. apply ok_inj, pair_inj in H. destruct H as [<- <-].
  pose proof (content_chain_spec c Hwc ltac:(lia)) as Hs. rewrite Lc in Hs.
  destruct (der_canonb c) eqn:Ec.
  - rewrite Hs in Ha. apply ok_inj in Ha. exists c. repeat split; auto; try lia.
  - destruct Hs as (e & Hs). rewrite Hs in Ha. discriminate.
Qed.
Lemma uintref_decode_value_nopn r hlen : uintref_decode_value r hlen <> Pn.
Proof.
  rewrite uintref_decode_value_eq. apply bind_nopn; [apply read_slice_nopn|]. intros p _.
  apply bind_nopn; [apply content_chain_nopn | discriminate].
Qed.

(* ---------------------------------------------------------------- the glue: TryFrom<UintRef> *)
Lemma Bn_256_Z n : Bn n = 256 ^ Z.of_nat (8 * n). Proof. apply Bn_256. Qed.
Lemma from_be_pad n u : wfd 256 u -> (length u <= 8 * n)%nat ->
  from_be_array n (zeros (8 * n - length u) ++ u) = Ok (to_limbs n (bev u)) /\ 0 <= bev u < Bn n.
Proof.
  intros Hw Hl. set (arr := zeros (8 * n - length u) ++ u).
  assert (Hla : length arr = (8 * n)%nat) by (unfold arr; rewrite app_length, length_zeros; lia).
  assert (Hwa : wfd 256 arr) by (unfold arr; apply wfd_app; split; [apply wfd_zeros | assumption]).
  unfold from_be_array. destruct (uint_from_be_slice n arr) as [r|] eqn:E.
  - destruct (from_be_slice_spec n arr r Hwa E) as (_ & Hwr & Hlr & Her).
    change (evalb 256 (rev arr)) with (bev arr) in Her. unfold arr in Her. rewrite bev_zeros_app in Her.
    pose proof (eval_bounds r Hwr) as Hb. rewrite Hlr, Her in Hb. split; [|assumption].
    f_equal. apply to_limbs_unique; try assumption. rewrite Z.mod_small by assumption. assumption.
  - apply from_be_slice_len in E. contradiction.
Qed.
Lemma try_from_fits fx n u : wfd 256 u -> (length u <= 8 * n)%nat ->
  uint_try_from_uintref fx n u = Ok (to_limbs n (bev u)) /\ 0 <= bev u < Bn n.
Proof.
  intros Hw Hl. unfold uint_try_from_uintref.
  replace (Nat.ltb (8 * n) (length u)) with false by (symmetry; apply Nat.ltb_ge; assumption).
  rewrite andb_false_r. replace (Nat.eqb (8 * n - (8 * n - length u)) (length u)) with true by (symmetry; apply Nat.eqb_eq; lia).
  apply from_be_pad; assumption.
Qed.
Lemma try_from_over n u : (8 * n < length u)%nat ->
  uint_try_from_uintref true n u = Er E_Length /\ uint_try_from_uintref false n u = Pn.
Proof.
  intros Hl. unfold uint_try_from_uintref.
  replace (Nat.ltb (8 * n) (length u)) with true by (symmetry; apply Nat.ltb_lt; assumption).
  cbn [andb]. split; [reflexivity|].
  replace (Nat.eqb (8 * n - (8 * n - length u)) (length u)) with false by (symmetry; apply Nat.eqb_neq; lia). reflexivity.
Qed.
Lemma try_from_ok fx n u v : wfd 256 u -> uint_try_from_uintref fx n u = Ok v ->
  (length u <= 8 * n)%nat /\ v = to_limbs n (bev u) /\ 0 <= bev u < Bn n.
Proof.
  intros Hw H. destruct (Nat.le_gt_cases (length u) (8 * n)) as [Hl|Hl].
  - destruct (try_from_fits fx n u Hw Hl) as [E Hb]. rewrite E in H. apply ok_inj in H. auto.
  - destruct (try_from_over n u Hl) as [E1 E2]. destruct fx; [rewrite E1 in H | rewrite E2 in H]; discriminate.
Qed.
Lemma try_from_nopn n u : uint_try_from_uintref true n u <> Pn.
Proof.
  unfold uint_try_from_uintref. cbn [andb]. destruct (Nat.ltb_spec (8 * n) (length u)); [discriminate|].
  replace (Nat.eqb (8 * n - (8 * n - length u)) (length u)) with true by (symmetry; apply Nat.eqb_eq; lia).
  unfold from_be_array. destruct (uint_from_be_slice n _) eqn:E; [discriminate|].
  apply from_be_slice_len in E. exfalso. apply E. rewrite app_length, length_zeros. lia.
Qed.
(** the repair only turns the panic into an error *)
Lemma try_from_fix_conservative n u : uint_try_from_uintref false n u <> Pn ->
  uint_try_from_uintref true n u = uint_try_from_uintref false n u.
Proof.
  intros H. destruct (Nat.le_gt_cases (length u) (8 * n)) as [Hl|Hl].
  - unfold uint_try_from_uintref. replace (Nat.ltb (8 * n) (length u)) with false by (symmetry; apply Nat.ltb_ge; assumption).
    rewrite andb_false_r. reflexivity.
  - destruct (try_from_over n u Hl) as [_ E2]. contradiction.
Qed.

Lemma length_mag0_fits n x : 0 <= x < Bn n -> (1 <= n)%nat -> (length (mag0 x) <= 8 * n)%nat.
Proof.
  intros Hx Hn. unfold mag0. destruct (Z.eqb_spec x 0); [cbn [length]; lia|].
  rewrite length_sp_be. rewrite Bn_256_Z in Hx.
  pose proof (sp_octets_le x (Z.of_nat (8 * n)) ltac:(lia) ltac:(lia) ltac:(lia)). pose proof (sp_octets_nonneg x). lia.
Qed.
Lemma length_mag0_over n x : Bn n <= x -> (8 * n < length (mag0 x))%nat.
Proof.
  intros Hx. pose proof (Bn_pos n). unfold mag0. rewrite eqb_false by lia. rewrite length_sp_be.
  destruct (sp_octets_range x ltac:(lia)) as (H1 & _ & Hu). rewrite Bn_256_Z in Hx.
  destruct (Z.leb_spec (sp_octets x) (Z.of_nat (8 * n))); [|lia].
  assert (256 ^ sp_octets x <= 256 ^ Z.of_nat (8 * n)) by (apply Z.pow_le_mono_r; lia). lia.
Qed.

(* ---------------------------------------------------------------- Decode::from_der *)
Lemma finish_nil {A} pos (v : A) : finish ([], pos) v = Ok v. Proof. reflexivity. Qed.
Lemma finish_ok {A} r (v w : A) : finish r v = Ok w -> fst r = [] /\ w = v.
Proof. unfold finish. destruct (fst r); cbn [is_nil]; intros H; [apply ok_inj in H; auto | discriminate]. Qed.
Lemma finish_nopn {A} r (v : A) : finish r v <> Pn.
Proof. unfold finish. destruct (is_nil (fst r)); discriminate. Qed.
Lemma reader_new_ok bs : lenZ bs <= LEN_MAX -> reader_new bs = Ok (bs, 0).
Proof. intros. unfold reader_new. rewrite ltb_false by lia. reflexivity. Qed.
Lemma reader_new_inv bs r : reader_new bs = Ok r -> lenZ bs <= LEN_MAX /\ r = (bs, 0).
Proof. unfold reader_new. destruct (Z.ltb_spec LEN_MAX (lenZ bs)) as [Hc|Hc]; intros E; [discriminate|]. apply ok_inj in E. auto. Qed.
Lemma reader_new_nopn bs : reader_new bs <> Pn.
Proof. unfold reader_new. destruct (LEN_MAX <? lenZ bs); discriminate. Qed.

Lemma content_len_le_encode x : 0 <= x -> 1 <= sp_der_content_len x <= lenZ (sp_der_encode x).
Proof.
  intros Hx. pose proof (content_len_pos x). rewrite lenZ_sp_der_encode by assumption.
  destruct (sp_der_content_len x <? 128); [lia|]. pose proof (sp_octets_nonneg (sp_der_content_len x)). lia.
Qed.

(** on a canonical encoding every decoding route ends in the glue, applied to the minimal magnitude *)
Theorem der_decode_run fx n x : 0 <= x -> lenZ (sp_der_encode x) <= LEN_MAX ->
  der_decode fx n (sp_der_encode x) = uint_try_from_uintref fx n (mag0 x).
Proof.
  intros Hx Hl. pose proof (content_len_le_encode x Hx) as Hk.
  destruct (content_canon x Hx) as (Hwc & Hcc & Hbc & Hlc).
  unfold der_decode. rewrite reader_new_ok by assumption. cbn [bind]. unfold uint_decode.
  unfold sp_der_encode, sp_der_header. cbn [app].
  rewrite header_decode_complete by (apply tag_integer || lia). cbn [bind].
  change (2 =? TAG_INTEGER) with true. cbn iota. unfold uint_decode_value.
  rewrite <- (app_nil_r (sp_der_content x)) at 1. rewrite <- Hlc.
  rewrite uintref_decode_value_complete by (assumption || lia). cbn [bind fst snd].
  destruct (unpad_spec _ Hwc Hcc) as (_ & _ & ->). rewrite Hbc.
  destruct (uint_try_from_uintref fx n (mag0 x)); reflexivity.
Qed.
Theorem der_decode_ok fx n bs v : wfd 256 bs -> der_decode fx n bs = Ok v ->
  exists x, 0 <= x /\ bs = sp_der_encode x /\ lenZ bs <= LEN_MAX /\ uint_try_from_uintref fx n (mag0 x) = Ok v.
Proof.
  intros Hw H. unfold der_decode in H. inv_bind H. apply reader_new_inv in Ha. destruct Ha as [Hl ->].
  inv_bind H. destruct a as [v' r1]. cbn [fst snd] in H. apply finish_ok in H. destruct H as [Hr1 ->].
  unfold uint_decode in Ha. inv_bind Ha. destruct a as [[tag len] r2].
  apply header_decode_ok in Ha0; [|assumption]. destruct Ha0 as (E & Hk & _ & _).
  destruct (Z.eqb_spec tag TAG_INTEGER) as [->|]; [|discriminate].
  unfold uint_decode_value in Ha. inv_bind Ha. destruct a as [u r3]. destruct r2 as [rest2 pos2]. cbn [fst snd] in *.
  assert (Hw2 : wfd 256 rest2). { rewrite E in Hw. apply wfd_cons in Hw. destruct Hw as [_ Hw]. apply wfd_app in Hw. tauto. }
  apply uintref_decode_value_ok in Ha0; [|assumption|assumption].
  destruct Ha0 as (c & E2 & Lc & Hwc & Hcc & -> & _).
  inv_bind Ha. apply ok_inj, pair_inj in Ha. destruct Ha as [<- <-]. rewrite Hr1, app_nil_r in E2. subst rest2.
  destruct (unpad_spec c Hwc Hcc) as (_ & _ & Eu). rewrite Eu in Ha0.
  exists (bev c). assert (Hx : 0 <= bev c) by (apply bev_bounds; assumption).
  repeat split; try assumption.
  rewrite E. unfold sp_der_encode, sp_der_header. rewrite content_len_canon, canon_unique by assumption. rewrite Lc. reflexivity.
Qed.
Theorem der_decode_nopn n bs : der_decode true n bs <> Pn.
Proof.
  unfold der_decode. apply bind_nopn; [apply reader_new_nopn|]. intros r _.
  apply bind_nopn; [|intros; apply finish_nopn].
  unfold uint_decode. apply bind_nopn; [apply header_decode_nopn|]. intros [[tag len] r1] _.
  destruct (tag =? TAG_INTEGER); [|discriminate].
  unfold uint_decode_value. apply bind_nopn; [apply uintref_decode_value_nopn|]. intros p _.
  apply bind_nopn; [apply try_from_nopn | discriminate].
Qed.

(* ---------------------------------------------------------------- consequences *)
Theorem der_decode_complete fx n x : (1 <= n)%nat -> 0 <= x < Bn n -> lenZ (sp_der_encode x) <= LEN_MAX ->
  der_decode fx n (sp_der_encode x) = Ok (to_limbs n x).
Proof.
  intros Hn Hx Hl. rewrite der_decode_run by (assumption || lia).
  destruct (try_from_fits fx n (mag0 x) (wfd_mag0 x) (length_mag0_fits n x Hx Hn)) as [E _].
  rewrite E, bev_mag0 by lia. reflexivity.
Qed.
Theorem der_decode_oversize n x : Bn n <= x -> lenZ (sp_der_encode x) <= LEN_MAX ->
  der_decode true n (sp_der_encode x) = Er E_Length /\ der_decode false n (sp_der_encode x) = Pn.
Proof.
  intros Hx Hl. pose proof (Bn_pos n). rewrite !der_decode_run by (assumption || lia).
  apply try_from_over. apply length_mag0_over. assumption.
Qed.
Theorem der_decode_sound fx n bs v : wfd 256 bs -> der_decode fx n bs = Ok v ->
  wf v /\ length v = n /\ 0 <= eval v < Bn n /\ v = to_limbs n (eval v) /\ bs = sp_der_encode (eval v) /\ lenZ bs <= LEN_MAX.
Proof.
  intros Hw H. destruct (der_decode_ok fx n bs v Hw H) as (x & Hx & E & Hl & Ht).
  apply try_from_ok in Ht; [|apply wfd_mag0]. destruct Ht as (_ & -> & Hb). rewrite bev_mag0 in * by assumption.
  rewrite to_limbs_small by assumption. repeat split; try assumption; try lia.
  - apply wf_to_limbs.
  - apply length_to_limbs.
Qed.
(** fail closed (repaired code): a canonical encoding of a value that fits, or an error -- never a panic *)
Theorem der_fail_closed n bs : wfd 256 bs ->
  (exists v, der_decode true n bs = Ok v /\ wf v /\ length v = n /\ bs = sp_der_encode (eval v)) \/
  (exists e, der_decode true n bs = Er e).
Proof.
  intros Hw. destruct (der_decode true n bs) as [v|e|] eqn:E.
  - left. exists v. destruct (der_decode_sound true n bs v Hw E) as (A & B' & _ & _ & D & _). auto.
  - right. exists e. reflexivity.
  - exfalso. exact (der_decode_nopn n bs E).
Qed.
Theorem der_fix_conservative n bs : wfd 256 bs -> der_decode false n bs <> Pn -> der_decode true n bs = der_decode false n bs.
Proof.
  intros Hw H. unfold der_decode in *. destruct (reader_new bs) as [r| |]; cbn [bind] in *; try reflexivity.
  unfold uint_decode in *. destruct (header_decode r) as [[[tag len] r1]| |]; cbn [bind] in *; try reflexivity.
  destruct (tag =? TAG_INTEGER); [|reflexivity].
  unfold uint_decode_value in *. destruct (uintref_decode_value r1 len) as [p| |]; cbn [bind] in *; try reflexivity.
  rewrite try_from_fix_conservative; [reflexivity|].
  intros E. rewrite E in H. cbn [bind] in H. apply H. reflexivity.
Qed.
Theorem der_decode_injective fx n bs1 bs2 v : wfd 256 bs1 -> wfd 256 bs2 ->
  der_decode fx n bs1 = Ok v -> der_decode fx n bs2 = Ok v -> bs1 = bs2.
Proof.
  intros H1 H2 E1 E2. apply der_decode_sound in E1, E2; try assumption.
  destruct E1 as (_ & _ & _ & _ & -> & _). destruct E2 as (_ & _ & _ & _ & -> & _). reflexivity.
Qed.

(* ---------------------------------------------------------------- the encoder *)
Lemma uint_to_be_bytes_sp ls : wf ls -> uint_to_be_bytes ls = sp_be (Z.of_nat (8 * length ls)) (eval ls).
Proof. intros Hw. rewrite uint_to_be_bytes_rev, uint_to_le_bytes_digits by assumption. unfold sp_be. rewrite Nat2Z.id. reflexivity. Qed.
Lemma strip0_be K x : 1 <= K -> 0 <= x < 256 ^ K -> strip_leading_zeroes (sp_be K x) = mag0 x.
Proof.
  intros HK Hx. rewrite strip_leading_zeroes_spec, strip_all_sp_be by (assumption || lia). unfold mag0.
  destruct (Z.eqb_spec x 0) as [->|Hn].
  - rewrite sp_octets_0, sp_be_0. pose proof (length_sp_be K 0) as Hl. destruct (sp_be K 0); [cbn [length] in Hl; lia | reflexivity].
  - pose proof (bev_minimal x ltac:(lia)) as Hb. destruct (sp_be (sp_octets x) x); [rewrite bev_nil in Hb; lia | reflexivity].
Qed.
Lemma strip0_mag0 x : 0 <= x -> strip_leading_zeroes (mag0 x) = mag0 x.
Proof.
  intros Hx. unfold mag0. destruct (Z.eqb_spec x 0); [reflexivity|].
  pose proof (minimal_no_lead0 x Hx) as Hn. destruct (sp_be (sp_octets x) x); [reflexivity|]. cbn [no_lead0] in Hn. apply strip0_nz. assumption.
Qed.
Lemma lenZ_mag0_le K x : 1 <= K -> 0 <= x < 256 ^ K -> 1 <= lenZ (mag0 x) <= K.
Proof.
  intros HK Hx. unfold mag0. destruct (Z.eqb_spec x 0); [unfold lenZ; cbn [length]; lia|].
  rewrite lenZ_sp_be by apply sp_octets_nonneg. pose proof (sp_octets_le x K ltac:(lia) ltac:(lia) ltac:(lia)).
  pose proof (sp_octets_range x ltac:(lia)). lia.
Qed.
Lemma lenZ_der_pad m : lenZ (der_pad m) = lenZ m + b2z (needs_leading_zero m).
Proof. unfold der_pad. destruct (needs_leading_zero m); cbn [b2z]; [rewrite lenZ_cons|]; lia. Qed.
Lemma content_len_struct x : 0 <= x -> sp_der_content_len x = lenZ (mag0 x) + b2z (needs_leading_zero (mag0 x)).
Proof. intros Hx. destruct (content_canon x Hx) as (_ & _ & _ & <-). rewrite content_struct by assumption. apply lenZ_der_pad. Qed.

Lemma strip4 d0 d1 d2 d3 : ~ (d0 = 0 /\ d1 = 0 /\ d2 = 0 /\ d3 = 0) ->
  (if d0 =? 0 then if d1 =? 0 then if d2 =? 0 then [d3] else [d2; d3] else [d1; d2; d3] else [d0; d1; d2; d3])
  = strip_all_zeros [d0; d1; d2; d3].
Proof.
  intros H. cbn [strip_all_zeros]. destruct (Z.eqb_spec d0 0); [|reflexivity]. destruct (Z.eqb_spec d1 0); [|reflexivity].
  destruct (Z.eqb_spec d2 0); [|reflexivity]. destruct (Z.eqb_spec d3 0); [exfalso; auto | reflexivity].
Qed.
Lemma length_encode_spec k : 0 <= k <= LEN_MAX -> length_encode k = sp_der_length k.
Proof.
  intros Hk. unfold length_encode, sp_der_length. destruct (Z.ltb_spec k 128) as [Hs|Hs].
  - unfold initial_octet. rewrite ltb_true by assumption. rewrite Z.mod_small by lia. reflexivity.
  - rewrite initial_octet_spec by lia. f_equal.
    assert (Hr : 0 <= k < 256 ^ 4) by (unfold LEN_MAX in Hk; change (256 ^ 4) with 4294967296; lia).
    rewrite <- (strip_all_sp_be 4 k) by (lia || assumption). change (rev (digits 256 4 k)) with (sp_be 4 k).
    pose proof (length_sp_be 4 k) as Hl. pose proof (bev_sp_be_small 4 k ltac:(lia) Hr) as Hb. pose proof (wfd_sp_be 4 k) as Hw.
    destruct (sp_be 4 k) as [|d0 [|d1 [|d2 [|d3 [|]]]]]; try discriminate.
    cbn [nthz nth skipn]. 
    apply strip4. intros (-> & -> & -> & ->). vm_compute in Hb. lia.
Qed.

Section Encoder.
Variable ls : list Z.
Hypothesis Hw : wf ls.
Hypothesis Hn : (1 <= length ls)%nat.
(* the whole encoding is shorter than der's Length::MAX *)
Hypothesis Hb : lenZ (sp_der_encode (eval ls)) <= LEN_MAX.
Let x := eval ls.
Let K := Z.of_nat (8 * length ls).

Lemma enc_range : 0 <= x < 256 ^ K /\ 1 <= K.
Proof. unfold x, K. pose proof (eval_bounds ls Hw) as H. rewrite Bn_256_Z in H. repeat split; lia. Qed.
Lemma enc_lens : 1 <= lenZ (mag0 x) <= sp_der_content_len x /\ sp_der_content_len x + 2 <= LEN_MAX.
Proof.
  destruct enc_range as (Hx & HK). pose proof (lenZ_mag0_le K x HK Hx). fold x in Hb.
  rewrite lenZ_sp_der_encode in Hb by lia. rewrite content_len_struct in * by lia.
  set (k := lenZ (mag0 x) + b2z (needs_leading_zero (mag0 x))) in *.
  assert (lenZ (mag0 x) <= k) by (unfold k; destruct (needs_leading_zero (mag0 x)); cbn [b2z]; lia).
  destruct (k <? 128); [lia|]. pose proof (sp_octets_nonneg k). lia.
Qed.
Lemma enc_uintref_new : uintref_new (uint_to_be_bytes ls) = Ok (mag0 x).
Proof.
  destruct enc_range as (Hx & HK). destruct enc_lens as (Hm & Hc). unfold uintref_new. rewrite uint_to_be_bytes_sp by assumption. fold K x.
  rewrite strip0_be by assumption. rewrite ltb_false by lia. reflexivity.
Qed.
Lemma enc_encoded_len : uint_encoded_len (mag0 x) = Ok (sp_der_content_len x).
Proof.
  destruct enc_range as (Hx & HK). destruct enc_lens as (Hm & Hc). unfold uint_encoded_len. rewrite strip0_mag0 by lia.
  rewrite ltb_false by lia. unfold len_add. rewrite <- content_len_struct by lia. rewrite ltb_false by lia. reflexivity.
Qed.
Lemma der_value_len_spec : der_value_len ls = Ok (sp_der_content_len x).
Proof. unfold der_value_len. rewrite enc_uintref_new. cbn [bind]. apply enc_encoded_len. Qed.
Lemma der_encode_value_spec : der_encode_value ls = Ok (sp_der_content x).
Proof.
  destruct enc_range as (Hx & HK). unfold der_encode_value. rewrite enc_uintref_new. cbn [bind]. rewrite enc_encoded_len. cbn [bind].
  rewrite content_struct, content_len_struct by lia. unfold der_pad.
  destruct (needs_leading_zero (mag0 x)); cbn [b2z]; [rewrite ltb_true by lia | rewrite ltb_false by lia]; reflexivity.
Qed.
Lemma der_encoded_len_spec : der_encoded_len ls = Ok (lenZ (sp_der_encode x)).
Proof.
  destruct enc_range as (Hx & HK). destruct enc_lens as (Hm & Hc). fold x in Hb.
  unfold der_encoded_len. rewrite der_value_len_spec. cbn [bind]. rewrite lenZ_sp_der_encode in * by lia.
  set (k := sp_der_content_len x) in *. unfold for_tlv, length_encoded_len, len_add.
  assert (Ho : 128 <= k -> sp_octets k = if k <=? 255 then 1 else if k <=? 65535 then 2 else if k <=? 16777215 then 3 else 4).
  { intros H128. pose proof (initial_octet_spec k ltac:(lia)) as Hi. unfold initial_octet in Hi. rewrite ltb_false in Hi by lia.
    unfold LEN_MAX in *.
    destruct (k <=? 255); [apply some_inj in Hi; lia|]. destruct (k <=? 65535); [apply some_inj in Hi; lia|].
    destruct (k <=? 16777215); [apply some_inj in Hi; lia|]. destruct (Z.leb_spec k 268435455); [apply some_inj in Hi; lia | lia]. }
  destruct (Z.leb_spec k 127).
  - cbn [bind]. rewrite (ltb_true k 128) in * by lia. rewrite !ltb_false by lia. cbn [bind]. rewrite ltb_false by lia. reflexivity.
  - rewrite (ltb_false k 128) in * by lia. specialize (Ho ltac:(lia)). rewrite Ho in *. unfold LEN_MAX in *.
    destruct (Z.leb_spec k 255). { cbn [bind]. rewrite !ltb_false by lia. cbn [bind]. rewrite ltb_false by lia. do 2 f_equal. }
    destruct (Z.leb_spec k 65535). { cbn [bind]. rewrite !ltb_false by lia. cbn [bind]. rewrite ltb_false by lia. do 2 f_equal. }
    destruct (Z.leb_spec k 16777215). { cbn [bind]. rewrite !ltb_false by lia. cbn [bind]. rewrite ltb_false by lia. do 2 f_equal. }
    rewrite leb_true by lia. cbn [bind]. rewrite !ltb_false by lia. cbn [bind]. rewrite ltb_false by lia. do 2 f_equal.
Qed.
Lemma der_encode_tlv_spec : der_encode_tlv ls = Ok (sp_der_encode x).
Proof.
  destruct enc_lens as (Hm & Hc). destruct enc_range as (Hx & HK).
  unfold der_encode_tlv. rewrite der_value_len_spec. cbn [bind]. rewrite der_encode_value_spec. cbn [bind].
  rewrite length_encode_spec by lia. reflexivity.
Qed.
Theorem der_encode_spec : der_encode ls = Ok (sp_der_encode x).
Proof.
  unfold der_encode. rewrite der_encoded_len_spec. cbn [bind]. rewrite der_encode_tlv_spec. cbn [bind].
  rewrite Z.ltb_irrefl. reflexivity.
Qed.
Theorem der_roundtrip fx : der_decode fx (length ls) (sp_der_encode x) = Ok ls.
Proof.
  rewrite der_decode_complete; [|assumption| |assumption].
  - unfold x. rewrite to_limbs_eval by assumption. reflexivity.
  - unfold x. apply eval_bounds. assumption.
Qed.
End Encoder.

(** every width the der crate can frame at all: 1 + 5 + (8 N + 1) <= Length::MAX *)
Lemma width_total_len ls : wf ls -> 8 * Z.of_nat (length ls) + 7 <= LEN_MAX -> lenZ (sp_der_encode (eval ls)) <= LEN_MAX.
Proof.
  intros Hw Hb. pose proof (eval_bounds ls Hw) as Hx. rewrite lenZ_sp_der_encode by lia.
  assert (Hc : sp_der_content_len (eval ls) <= 8 * Z.of_nat (length ls) + 1).
  { rewrite content_len_struct by lia. destruct (Z.eq_dec (eval ls) 0) as [->|Hnz]; [change (lenZ (mag0 0) + b2z (needs_leading_zero (mag0 0))) with 1; lia|].
    unfold mag0. rewrite eqb_false by assumption. rewrite lenZ_sp_be by apply sp_octets_nonneg.
    rewrite Bn_256_Z in Hx. pose proof (sp_octets_le (eval ls) (Z.of_nat (8 * length ls)) ltac:(lia) ltac:(lia) ltac:(lia)).
    destruct (needs_leading_zero _); cbn [b2z]; lia. }
  pose proof (content_len_pos (eval ls)).
  destruct (Z.ltb_spec (sp_der_content_len (eval ls)) 128); [lia|].
  pose proof (octets_lenmax (sp_der_content_len (eval ls)) ltac:(lia)). lia.
Qed.

Lemma length_mag0_pos x : 0 <= x -> (1 <= length (mag0 x))%nat.
Proof.
  intros Hx. unfold mag0. destruct (Z.eqb_spec x 0); [cbn [length]; lia|]. rewrite length_sp_be.
  pose proof (sp_octets_range x ltac:(lia)). lia.
Qed.

(** decode bs = Ok v  ->  bs is THE encoding the encoder produces for v *)
Theorem der_canonical fx n bs v : wfd 256 bs -> der_decode fx n bs = Ok v -> der_encode v = Ok bs.
Proof.
  intros Hw H. pose proof (der_decode_ok fx n bs v Hw H) as (x & Hx & E & Hl & Ht).
  destruct (der_decode_sound fx n bs v Hw H) as (Hwv & Hlv & Hev & _ & Eb & _).
  assert (Hn : (1 <= n)%nat).
  { apply try_from_ok in Ht; [|apply wfd_mag0]. destruct Ht as (Hlm & _). pose proof (length_mag0_pos x Hx). lia. }
  rewrite Eb. apply der_encode_spec; try assumption; try lia. rewrite <- Eb. assumption.
Qed.
