(** C03 proofs, part 2: schoolbook squaring (half grid, doubling by shl1_go, diagonal). *)
From CB Require Import Model.Limbs Model.AddSub Model.Mul Proofs.WordP Proofs.LimbsP Proofs.AddSubP
  Proofs.BitsP Proofs.MulBaseP.
From Coq Require Import ZArith Lia List.
Open Scope Z_scope.

(** sum of the diagonal terms x_j^2 * B^(2j) *)
Fixpoint diag (l : list Z) : Z :=
  match l with [] => 0 | x :: r => x * x + B * B * diag r end.

Lemma diag_app a b : diag (a ++ b) = diag a + Bn (length a) * Bn (length a) * diag b.
Proof.
  induction a as [|x a IH]; cbn [app diag length].
  - rewrite Bn_0. ring.
  - rewrite IH, Bn_S. ring.
Qed.

Lemma zeros_app a b : zeros (a + b) = zeros a ++ zeros b.
Proof. unfold zeros. apply repeat_app. Qed.
Lemma zeros_S n : zeros (S n) = 0 :: zeros n.
Proof. reflexivity. Qed.

(* ---------------- the strictly-lower-triangle rows ---------------- *)
Lemma sq_rows_correct rest : forall done acc i,
  wf acc -> wf done -> wf rest -> length done = i -> (1 <= i)%nat -> length acc = (2 * i - 1)%nat ->
  2 * eval acc + diag done = eval done * eval done ->
  exists acc', sq_rows (acc ++ zeros (2 * length rest + 1)) i rest (done ++ rest) = acc' ++ [0] /\
    wf acc' /\ length acc' = (2 * (i + length rest) - 1)%nat /\
    2 * eval acc' + diag (done ++ rest) = eval (done ++ rest) * eval (done ++ rest).
Proof.
  induction rest as [|xi rest IH]; intros done acc i Ha Hd Hr Hld Hi Hla Hinv.
  - exists acc. cbn [sq_rows length Nat.mul Nat.add zeros repeat]. rewrite app_nil_r, Nat.add_0_r.
    auto.
  - apply wf_cons in Hr. destruct Hr as [Hxi Hr].
    cbn [sq_rows].
    replace (2 * length (xi :: rest) + 1)%nat with (S (S (2 * length rest + 1))) by (simpl; lia).
    rewrite !zeros_S.
    replace (acc ++ 0 :: 0 :: zeros (2 * length rest + 1))
      with ((acc ++ [0]) ++ 0 :: zeros (2 * length rest + 1)) by (rewrite <- app_assoc; reflexivity).
    assert (Hwz : wf (acc ++ [0])).
    { apply wf_app. split; [assumption|]. apply wf_cons. split; [apply is_word_0 | apply wf_nil]. }
    assert (Hez : eval (acc ++ [0]) = eval acc) by (rewrite eval_app; simpl; ring).
    assert (Hlz : length (acc ++ [0]) = (2 * i)%nat) by (rewrite app_length; simpl; lia).
    destruct (split3 (acc ++ [0]) i i ltac:(lia)) as (Hsp & Hl1 & Hl2).
    set (pre := firstn i (acc ++ [0])) in *. set (mid := slice (acc ++ [0]) i i) in *.
    rewrite skipn_all2 in Hsp by lia. rewrite app_nil_r in Hsp.
    clearbody pre mid. rewrite Hsp in *. clear Hsp.
    apply wf_app in Hwz. destruct Hwz as [Hwp Hwm].
    rewrite firstn_exact' by (symmetry; exact Hld).
    assert (Hlm : length mid = length done) by lia.
    destruct (mac_row_struct pre mid (0 :: zeros (2 * length rest + 1)) xi done 0 Hwm Hd Hlm Hxi is_word_0)
      as (r & c & Er & Hev & Hwr & Hlr & Hc).
    rewrite Hl1 in Er. rewrite <- app_assoc. rewrite Er.
    replace (pre ++ r ++ 0 :: zeros (2 * length rest + 1))
      with ((pre ++ r) ++ 0 :: zeros (2 * length rest + 1)) by (rewrite <- app_assoc; reflexivity).
    rewrite upd_mid' by (rewrite app_length; lia).
    replace ((pre ++ r) ++ c :: zeros (2 * length rest + 1))
      with ((pre ++ r ++ [c]) ++ zeros (2 * length rest + 1)) by (rewrite <- !app_assoc; reflexivity).
    replace (done ++ xi :: rest) with ((done ++ [xi]) ++ rest) by (rewrite <- app_assoc; reflexivity).
    assert (Hwa : wf (pre ++ r ++ [c])).
    { apply wf_app3. repeat split; auto. apply wf_cons. split; [assumption | apply wf_nil]. }
    assert (Hwd : wf (done ++ [xi])).
    { apply wf_app. split; [assumption|]. apply wf_cons. split; [assumption | apply wf_nil]. }
    assert (Hev' : eval (pre ++ r ++ [c]) = eval acc + Bn i * (xi * eval done)).
    { rewrite eval3, Hl1, Hlr, Hl2. rewrite eval_app, Hl1 in Hez. cbn [eval]. rewrite <- Hez.
      rewrite Hld in Hev.
      assert (eval r = eval mid + xi * eval done + 0 - Bn i * c) as -> by lia. ring. }
    destruct (IH (done ++ [xi]) (pre ++ r ++ [c]) (S i) Hwa Hwd Hr) as (acc' & E' & Hwa' & Hla' & Hinv').
    + rewrite app_length. simpl. lia.
    + lia.
    + rewrite !app_length. simpl. lia.
    + rewrite Hev', diag_app, eval_app, Hld. cbn [diag eval].
      assert (diag done = eval done * eval done - 2 * eval acc) as -> by lia. ring.
    + exists acc'. split; [exact E'|]. split; [assumption|]. split; [|assumption].
      rewrite Hla'. simpl. lia.
Qed.

(* ---------------- doubling ---------------- *)
Lemma shl1_go_correct l : forall carry r c, wf l -> 0 <= carry <= 1 -> shl1_go l carry = (r, c) ->
  eval r + Bn (length l) * c = 2 * eval l + carry /\ wf r /\ length r = length l /\ 0 <= c <= 1.
Proof.
  induction l as [|wd l IH]; intros carry r c Hl Hc E.
  - cbn [shl1_go] in E. inv_pair E. cbn [eval length]. rewrite Bn_0.
    split; [lia|]. split; [apply wf_nil|]. split; [reflexivity | lia].
  - apply wf_cons in Hl. destruct Hl as [Hwd Hl]. cbn [shl1_go] in E.
    destruct (shl1_go l (wd / 2 ^ 63)) as [r' c'] eqn:E'. inv_pair E.
    destruct (wshl_split wd 1 Hwd ltac:(lia)) as (Hs & Hq & k & Hk & Hk0).
    change (64 - 1) with 63 in *. change (2 ^ 1) with 2 in *.
    destruct (IH (wd / 2 ^ 63) r' c' Hl ltac:(lia) E') as (IH1 & IH2 & IH3 & IH4).
    assert (Hw : is_word (wshl wd 1)) by (unfold wshl, wrap; apply is_word_mod).
    assert (Hlor : Z.lor (wshl wd 1) carry = wshl wd 1 + carry).
    { rewrite Hk. apply (lor_disjoint k carry 1); [lia | change (2 ^ 1) with 2; lia]. }
    rewrite Hlor. cbn [eval length]. rewrite Bn_S.
    split; [|split; [|split]]; auto.
    + assert (eval r' = 2 * eval l + wd / 2 ^ 63 - Bn (length l) * c') as -> by lia.
      assert (wshl wd 1 = wd * 2 - wd / 2 ^ 63 * B) as -> by lia. ring.
    + apply wf_cons. split; [|assumption]. unfold is_word in *. pose proof B_half. lia.
Qed.

(* ---------------- the diagonal ---------------- *)
Lemma sq_diag_correct xs : forall pre rest i carry,
  wf rest -> wf xs -> length pre = (2 * i)%nat -> length rest = (2 * length xs)%nat -> 0 <= carry <= 1 ->
  exists r' c', sq_diag (pre ++ rest) i xs carry = pre ++ r' /\ wf r' /\ length r' = length rest /\
    0 <= c' <= 1 /\ eval r' + Bn (length rest) * c' = eval rest + diag xs + carry.
Proof.
  induction xs as [|xi xs IH]; intros pre rest i carry Hr Hx Hlp Hlr Hc.
  - destruct rest; [|discriminate]. exists [], carry. cbn [sq_diag length eval diag]. rewrite Bn_0.
    split; [reflexivity|]. split; [apply wf_nil|]. split; [reflexivity|]. split; lia.
  - destruct rest as [|a [|b rest]]; try (simpl in Hlr; lia).
    apply wf_cons in Hx. destruct Hx as [Hxi Hx].
    apply wf_cons in Hr. destruct Hr as [Ha Hr]. apply wf_cons in Hr. destruct Hr as [Hb Hr].
    cbn [sq_diag].
    rewrite nthz_mid' by lia.
    destruct (mac a xi xi carry) as [v c] eqn:Em.
    pose proof (mac_exact _ _ _ _ _ _ Ha Hxi Hxi (is_word_01 _ Hc) Em) as (Hm & Hv & Hcw).
    rewrite upd_mid' by lia.
    replace (pre ++ v :: b :: rest) with ((pre ++ [v]) ++ b :: rest) by (rewrite <- app_assoc; reflexivity).
    rewrite nthz_mid' by (rewrite app_length; simpl; lia).
    unfold overflowing_add.
    rewrite upd_mid' by (rewrite app_length; simpl; lia).
    replace ((pre ++ [v]) ++ (b + c) mod B :: rest) with ((pre ++ [v; (b + c) mod B]) ++ rest)
      by (rewrite <- !app_assoc; reflexivity).
    pose proof B_gt1 as HB.
    pose proof (Z.div_mod (b + c) B ltac:(lia)) as Hdm.
    pose proof (Z.mod_pos_bound (b + c) B ltac:(lia)) as Hmb.
    assert (Hc2 : 0 <= (b + c) / B <= 1).
    { unfold is_word in *. split; [apply Z.div_pos; lia | apply Z.lt_succ_r; apply Z.div_lt_upper_bound; lia]. }
    destruct (IH (pre ++ [v; (b + c) mod B]) rest (S i) ((b + c) / B) Hr Hx) as (r'' & c' & E & Hw & Hl & Hc' & He).
    + rewrite app_length. simpl. lia.
    + simpl in Hlr. lia.
    + assumption.
    + exists (v :: (b + c) mod B :: r''), c'. rewrite E.
      split; [rewrite <- app_assoc; reflexivity|].
      split; [apply wf_cons; split; [assumption|]; apply wf_cons; split; [apply is_word_mod | assumption]|].
      split; [simpl; lia|]. split; [assumption|].
      cbn [eval length diag]. rewrite !Bn_S.
      assert (eval r'' = eval rest + diag xs + (b + c) / B - Bn (length rest) * c') as -> by lia.
      assert (v = a + xi * xi + carry - B * c) as -> by lia.
      assert ((b + c) mod B = b + c - B * ((b + c) / B)) as -> by lia. ring.
Qed.

Lemma Bn_double n : Bn (2 * n) = Bn n * Bn n.
Proof. replace (2 * n)%nat with (n + n)%nat by lia. apply Bn_add. Qed.

(** GOAL 3 *)
Theorem schoolbook_sq_correct xs : wf xs ->
  eval (schoolbook_sq xs) = eval xs * eval xs /\ wf (schoolbook_sq xs) /\
  length (schoolbook_sq xs) = (2 * length xs)%nat.
Proof.
  intros Hx. destruct xs as [|x0 tl].
  - cbn. split; [reflexivity|]. split; [apply wf_nil | reflexivity].
  - unfold schoolbook_sq. cbv zeta.
    set (xs := x0 :: tl) in *.
    assert (Hn : length xs = S (length tl)) by reflexivity.
    pose proof Hx as Hx'. apply wf_cons in Hx'. destruct Hx' as [Hx0 Htl].
    replace (zeros (2 * length xs)) with ([0] ++ zeros (2 * length tl + 1)).
    2:{ change [0] with (zeros 1). rewrite <- zeros_app. f_equal. lia. }
    destruct (sq_rows_correct tl [x0] [0] 1) as (acc & E & Hwa & Hla & Hinv); auto.
    { apply wf_cons. split; [apply is_word_0 | apply wf_nil]. }
    { apply wf_cons. split; [assumption | apply wf_nil]. }
    { cbn [eval diag]. ring. }
    change ([x0] ++ tl) with xs in *. rewrite E.
    rewrite firstn_exact' by lia.
    destruct (shl1_go acc 0) as [dbl c] eqn:Es.
    destruct (shl1_go_correct acc 0 dbl c Hwa ltac:(lia) Es) as (Hd & Hwd & Hld & Hc).
    assert (Hwr : wf (dbl ++ [c])).
    { apply wf_app. split; [assumption|]. apply wf_cons. split; [apply is_word_01; assumption | apply wf_nil]. }
    assert (Hlr : length (dbl ++ [c]) = (2 * length xs)%nat) by (rewrite app_length; simpl; lia).
    destruct (sq_diag_correct xs [] (dbl ++ [c]) 0 0 Hwr Hx eq_refl Hlr ltac:(lia))
      as (r' & c' & Ed & Hwr' & Hlr' & Hc' & He).
    cbn [app] in Ed. rewrite Ed.
    rewrite eval_app in He. cbn [eval] in He. rewrite Hlr, Bn_double in He.
    pose proof (eval_bounds _ Hwr') as Hb. rewrite Hlr', Hlr, Bn_double in Hb.
    pose proof (eval_bounds _ Hx) as Hbx. pose proof (Bn_pos (length xs)) as Hp.
    assert (Hsq : eval xs * eval xs < Bn (length xs) * Bn (length xs)).
    { apply Z.mul_lt_mono_nonneg; lia. }
    rewrite Hld in He.
    assert (c' = 0 \/ c' = 1) as [-> | ->] by lia; [|exfalso; lia].
    split; [lia|]. split; [assumption|]. lia.
Qed.
