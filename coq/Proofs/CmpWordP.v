(** The `subtle` primitives (u64::ct_eq, u64::conditional_select, Choice operators) and the limb parity test
    used by the C06 model, for all words. *)
From CB Require Import Model.Word Model.Limbs Model.Cmp Proofs.WordP.
From CB Require Export Proofs.WordPredP.
From Coq Require Import ZArith Lia List Bool.
Open Scope Z_scope.

Lemma to_choice_choice b : to_choice (choice_of_bool b) = b2z b.
Proof. destruct b; reflexivity. Qed.

Lemma cc_true_choice b : cc_true (choice_of_bool b) = b.
Proof. destruct b; reflexivity. Qed.

(** subtle: u64::ct_eq *)
Lemma st_ct_eq_spec x y : is_word x -> is_word y -> st_ct_eq x y = b2z (x =? y).
Proof.
  intros Hx Hy. unfold st_ct_eq, wxor, wor. cbv zeta.
  assert (Hd := is_word_lxor x y Hx Hy).
  rewrite msb_div by (apply is_word_lor; auto using is_word_wneg).
  rewrite msbb_lor by auto using is_word_wneg. rewrite (wneg_val _ Hd).
  destruct (Z.eqb_spec x y) as [->|Hne].
  - rewrite Z.lxor_nilpotent. reflexivity.
  - assert (Hnz : Z.lxor x y <> 0) by (intros E; apply Z.lxor_eq in E; contradiction).
    destruct (Z.eqb_spec (Z.lxor x y) 0) as [|_]; [contradiction|].
    unfold is_word in Hd. word_facts. unfold msbb.
    destruct (Z.leb_spec (2 ^ 63) (Z.lxor x y)), (Z.leb_spec (2 ^ 63) (B - Z.lxor x y)); simpl; try reflexivity; lia.
Qed.

(** subtle: u64::conditional_select with a Choice 0 / 1 *)
Lemma st_select_spec a b (c : bool) : is_word a -> is_word b -> st_select a b (b2z c) = if c then b else a.
Proof.
  intros Ha Hb. unfold st_select.
  replace (wneg (b2z c)) with (choice_of_bool c) by (destruct c; reflexivity).
  apply select_word_choice; assumption.
Qed.

Lemma ch_not_b2z b : ch_not (b2z b) = b2z (negb b).
Proof. destruct b; reflexivity. Qed.

Lemma ch_and_b2z a b : ch_and (b2z a) (b2z b) = b2z (a && b).
Proof. destruct a, b; reflexivity. Qed.

(** parity of a limb: (x as u8) & 1 *)
Lemma limb_is_odd_spec x : is_word x -> limb_is_odd x = b2z (Z.odd x).
Proof.
  intros _. unfold limb_is_odd, wand. change 1 with (Z.ones 1). rewrite Z.land_ones by lia.
  change (2 ^ 1) with 2. change (2 ^ 8) with 256.
  rewrite <- (Znumtheory.Zmod_div_mod 2 256 x) by (try lia; exists 128; reflexivity).
  rewrite Zmod_odd. destruct (Z.odd x); reflexivity.
Qed.
