(** C02: the multiply-subtract / masked add-back step shared by all Knuth loops (mulsub_go, addback_go,
    knuth_step), reformulated on the window of limbs it touches, and the quotient-digit estimate lemma. *)
From CB Require Import Model.Limbs Model.Div Proofs.WordP Proofs.LimbsP Proofs.DivP Proofs.Div3by2P.
From Coq Require Import ZArith Lia List.
Open Scope Z_scope.

(* ---------- list helpers ---------- *)
Lemma nthz_app_mid (a : list Z) v b n : length a = n -> nthz (a ++ v :: b) n = v.
Proof. intros <-. unfold nthz. rewrite app_nth2 by lia. rewrite Nat.sub_diag. reflexivity. Qed.

Lemma upd_app_mid (a : list Z) v b n w : length a = n -> upd (a ++ v :: b) n w = a ++ w :: b.
Proof.
  intros <-. unfold upd. rewrite firstn_app, Nat.sub_diag, firstn_all. cbn [firstn]. rewrite app_nil_r.
  f_equal. f_equal.
  replace (S (length a)) with (length (a ++ [v])) by (rewrite app_length; simpl; lia).
  replace (a ++ v :: b) with ((a ++ [v]) ++ b) by (rewrite <- app_assoc; reflexivity).
  rewrite skipn_app, skipn_all, Nat.sub_diag. reflexivity.
Qed.

Lemma list_snoc {A} (l : list A) k : length l = S k -> exists a b, l = a ++ [b] /\ length a = k.
Proof.
  intros H. destruct (exists_last (l := l)) as (a & b & ->); [intros ->; discriminate|].
  exists a, b. split; [reflexivity|]. rewrite app_length in H. simpl in H. lia.
Qed.

Lemma mul_small_zero M k : 0 < M -> - M < M * k < M -> k = 0.
Proof.
  intros HM [H1 H2]. destruct (Z_lt_ge_dec k 0) as [Hn|Hp].
  - assert (M * k <= M * (-1)) by (apply Z.mul_le_mono_nonneg_l; lia). lia.
  - destruct (Z_lt_ge_dec 0 k) as [Hq|]; [|lia].
    assert (M * 1 <= M * k) by (apply Z.mul_le_mono_nonneg_l; lia). lia.
Qed.

Lemma is_borrow_word b : b = 0 \/ b = MAXW -> is_word b.
Proof. unfold is_word. pose proof B_gt1. pose proof MAXW_val. intros [->| ->]; lia. Qed.

(* ---------- window forms ---------- *)
Fixpoint mulsub_w (xw yw : list Z) (quo carry borrow : Z) : list Z * Z * Z :=
  match xw, yw with
  | xv :: xr, yv :: yr =>
      let '(tmp, carry') := mac 0 yv quo carry in
      let '(r, borrow') := sbb xv tmp borrow in
      let '(rs, c, b) := mulsub_w xr yr quo carry' borrow' in (r :: rs, c, b)
  | _, _ => ([], carry, borrow)
  end.

Fixpoint addback_w (xw yw : list Z) (mask : bool) (carry : Z) : list Z * Z :=
  match xw, yw with
  | xv :: xr, yv :: yr =>
      let '(r, carry') := adc xv (sel mask 0 yv) carry in
      let '(rs, c) := addback_w xr yr mask carry' in (r :: rs, c)
  | _, _ => ([], carry)
  end.

Lemma mulsub_go_window : forall cnt i x y base yoff quo c b xa xw xb ya yw yb,
  x = xa ++ xw ++ xb -> length xa = (base + i)%nat -> length xw = cnt ->
  y = ya ++ yw ++ yb -> length ya = (yoff + i)%nat -> length yw = cnt ->
  mulsub_go cnt i x y base yoff quo c b =
    let '(xw', c', b') := mulsub_w xw yw quo c b in (xa ++ xw' ++ xb, c', b').
Proof.
  induction cnt as [|cnt IH]; intros i x y base yoff quo c b xa xw xb ya yw yb Hx Hxa Hxw Hy Hya Hyw.
  - destruct xw; [|discriminate]. destruct yw; [|discriminate]. subst. reflexivity.
  - destruct xw as [|xv xr]; [discriminate|]. destruct yw as [|yv yr]; [discriminate|].
    cbn [mulsub_go mulsub_w]. subst x y. cbn [app].
    rewrite (nthz_app_mid ya yv (yr ++ yb) (yoff + i)) by assumption.
    rewrite (nthz_app_mid xa xv (xr ++ xb) (base + i)) by assumption.
    destruct (mac 0 yv quo c) as [tmp c1].
    destruct (sbb xv tmp b) as [r b1].
    rewrite (upd_app_mid xa xv (xr ++ xb) (base + i) r) by assumption.
    rewrite (IH (S i) (xa ++ r :: xr ++ xb) (ya ++ yv :: yr ++ yb) base yoff quo c1 b1
                (xa ++ [r]) xr xb (ya ++ [yv]) yr yb).
    + destruct (mulsub_w xr yr quo c1 b1) as [[rs c2] b2]. rewrite <- app_assoc. reflexivity.
    + rewrite <- app_assoc. reflexivity.
    + rewrite app_length. simpl. lia.
    + simpl in Hxw. lia.
    + rewrite <- app_assoc. reflexivity.
    + rewrite app_length. simpl. lia.
    + simpl in Hyw. lia.
Qed.

Lemma addback_go_window : forall cnt i x y base yoff mask c xa xw xb ya yw yb,
  x = xa ++ xw ++ xb -> length xa = (base + i)%nat -> length xw = cnt ->
  y = ya ++ yw ++ yb -> length ya = (yoff + i)%nat -> length yw = cnt ->
  addback_go cnt i x y base yoff mask c = xa ++ fst (addback_w xw yw mask c) ++ xb.
Proof.
  induction cnt as [|cnt IH]; intros i x y base yoff mask c xa xw xb ya yw yb Hx Hxa Hxw Hy Hya Hyw.
  - destruct xw; [|discriminate]. destruct yw; [|discriminate]. subst. reflexivity.
  - destruct xw as [|xv xr]; [discriminate|]. destruct yw as [|yv yr]; [discriminate|].
    cbn [addback_go addback_w]. subst x y. cbn [app].
    rewrite (nthz_app_mid ya yv (yr ++ yb) (yoff + i)) by assumption.
    rewrite (nthz_app_mid xa xv (xr ++ xb) (base + i)) by assumption.
    destruct (adc xv (sel mask 0 yv) c) as [r c1].
    rewrite (upd_app_mid xa xv (xr ++ xb) (base + i) r) by assumption.
    rewrite (IH (S i) (xa ++ r :: xr ++ xb) (ya ++ yv :: yr ++ yb) base yoff mask c1
                (xa ++ [r]) xr xb (ya ++ [yv]) yr yb).
    + destruct (addback_w xr yr mask c1) as [rs c2]. cbn [fst]. rewrite <- app_assoc. reflexivity.
    + rewrite <- app_assoc. reflexivity.
    + rewrite app_length. simpl. lia.
    + simpl in Hxw. lia.
    + rewrite <- app_assoc. reflexivity.
    + rewrite app_length. simpl. lia.
    + simpl in Hyw. lia.
Qed.

(* ---------- arithmetic of the window forms ---------- *)
Lemma mulsub_w_correct xw : forall yw quo c b xw' c' b',
  wf xw -> wf yw -> length xw = length yw -> is_word quo -> is_word c -> (b = 0 \/ b = MAXW) ->
  mulsub_w xw yw quo c b = (xw', c', b') ->
  wf xw' /\ length xw' = length xw /\ is_word c' /\ (b' = 0 \/ b' = MAXW) /\
  eval xw - quo * eval yw - c - bin b = eval xw' - Bn (length xw) * (c' + bin b').
Proof.
  induction xw as [|xv xr IH]; intros yw quo c b xw' c' b' Hx Hy Hl Hq Hc Hb E.
  - destruct yw; [|discriminate]. cbn [mulsub_w] in E.
    apply pair_equal_spec in E. destruct E as [E <-]. inv_pair E.
    cbn [eval length]. rewrite Bn_0. split; [apply wf_nil|]. split; [reflexivity|]. split; [assumption|].
    split; [assumption|]. lia.
  - destruct yw as [|yv yr]; [discriminate|]. simpl in Hl.
    apply wf_cons in Hx. destruct Hx as [Hxv Hxr]. apply wf_cons in Hy. destruct Hy as [Hyv Hyr].
    cbn [mulsub_w] in E.
    destruct (mac 0 yv quo c) as [tmp c1] eqn:E1.
    destruct (sbb xv tmp b) as [r b1] eqn:E2.
    destruct (mulsub_w xr yr quo c1 b1) as [[rs c2] b2] eqn:E3.
    apply pair_equal_spec in E. destruct E as [E <-]. inv_pair E.
    pose proof (mac_exact 0 yv quo c tmp c1 is_word_0' Hyv Hq Hc E1) as (Hm & Htmp & Hc1).
    pose proof (sbb_exact xv tmp b r b1 Hxv Htmp (is_borrow_word b Hb) E2) as (Hr & Hs).
    assert (Hb1 : b1 = 0 \/ b1 = MAXW) by (destruct Hs as [[-> _]|[-> _]]; auto).
    specialize (IH yr quo c1 b1 rs c2 b2 Hxr Hyr ltac:(lia) Hq Hc1 Hb1 E3).
    destruct IH as (Hwrs & Hlrs & Hc2 & Hb2 & IHe).
    cbn [eval length]. rewrite Bn_S.
    split; [apply wf_cons; split; assumption|]. split; [lia|]. split; [assumption|]. split; [assumption|].
    assert (Hbin1 : bin b1 * B = r - (xv - tmp - bin b)).
    { destruct Hs as [[-> Hv]|[-> Hv]]; rewrite ?bin_0, ?bin_MAXW; lia. }
    assert (Hmul : B * (eval xr - quo * eval yr - c1 - bin b1) = B * (eval rs - Bn (length xr) * (c2 + bin b2)))
      by (rewrite IHe; reflexivity).
    lia.
Qed.

Lemma addback_w_correct xw : forall yw mask c xw' c',
  wf xw -> wf yw -> length xw = length yw -> 0 <= c <= 1 ->
  addback_w xw yw mask c = (xw', c') ->
  wf xw' /\ length xw' = length xw /\ 0 <= c' <= 1 /\
  eval xw' + Bn (length xw) * c' = eval xw + (if mask then eval yw else 0) + c.
Proof.
  induction xw as [|xv xr IH]; intros yw mask c xw' c' Hx Hy Hl Hc E.
  - destruct yw; [|discriminate]. cbn [addback_w] in E. inv_pair E.
    cbn [eval length]. rewrite Bn_0. repeat split; auto using wf_nil; try lia. destruct mask; lia.
  - destruct yw as [|yv yr]; [discriminate|]. simpl in Hl.
    apply wf_cons in Hx. destruct Hx as [Hxv Hxr]. apply wf_cons in Hy. destruct Hy as [Hyv Hyr].
    cbn [addback_w] in E.
    destruct (adc xv (sel mask 0 yv) c) as [r c1] eqn:E1.
    destruct (addback_w xr yr mask c1) as [rs c2] eqn:E2. inv_pair E.
    assert (Hsel : is_word (sel mask 0 yv)) by (unfold sel; destruct mask; [assumption | apply is_word_0']).
    assert (Hcw : is_word c) by (unfold is_word; pose proof B_gt4; lia).
    pose proof (adc_exact _ _ _ _ _ Hxv Hsel Hcw E1) as (Ha & Hr & _).
    pose proof (adc_carry_small _ _ _ _ _ Hxv Hsel Hc E1) as Hc1.
    specialize (IH yr mask c1 rs c2 Hxr Hyr ltac:(lia) Hc1 E2). destruct IH as (Hwrs & Hlrs & Hc2 & IHe).
    cbn [eval length]. rewrite Bn_S.
    split; [apply wf_cons; split; assumption|]. split; [lia|]. split; [assumption|].
    assert (Hmul : B * (eval rs + Bn (length xr) * c2) = B * (eval xr + (if mask then eval yr else 0) + c1))
      by (rewrite IHe; reflexivity).
    unfold sel in Ha. destruct mask; lia.
Qed.

(* ---------- knuth_step on a window ----------
   x = xa ++ xw ++ xb, the window xw (cnt limbs) with x_hi on top holds W; y = ya ++ yw ++ yb, yw holds Y.
   For ANY word quo: the mask says whether quo * Y exceeds W, and the window afterwards holds
   W - quo*Y (+ Y if masked) modulo B^cnt. *)
Theorem knuth_step_window x y x_hi base yoff cnt quo xa xw xb ya yw yb :
  x = xa ++ xw ++ xb -> length xa = base -> length xw = cnt ->
  y = ya ++ yw ++ yb -> length ya = yoff -> length yw = cnt ->
  wf xw -> wf yw -> is_word x_hi -> is_word quo ->
  let W := eval xw + Bn cnt * x_hi in
  let Y := eval yw in
  let mask := W <? quo * Y in
  exists xw'', knuth_step x y x_hi base yoff cnt quo = (xa ++ xw'' ++ xb, mask) /\
    wf xw'' /\ length xw'' = cnt /\
    eval xw'' = (W - quo * Y + (if mask then Y else 0)) mod Bn cnt.
Proof.
  intros Hx Hxa Hxw Hy Hya Hyw Hwx Hwy Hxhi Hquo W Y mask.
  unfold knuth_step.
  rewrite (mulsub_go_window cnt 0 x y base yoff quo 0 0 xa xw xb ya yw yb) by (auto; lia).
  destruct (mulsub_w xw yw quo 0 0) as [[xw1 c1] b1] eqn:E1.
  pose proof (mulsub_w_correct xw yw quo 0 0 xw1 c1 b1 Hwx Hwy ltac:(lia) Hquo is_word_0' ltac:(auto) E1)
    as (Hw1 & Hl1 & Hc1 & Hb1 & He1).
  rewrite bin_0 in He1. rewrite Hxw in *.
  destruct (sbb x_hi c1 b1) as [r b2] eqn:E2.
  pose proof (sbb_exact x_hi c1 b1 r b2 Hxhi Hc1 (is_borrow_word b1 Hb1) E2) as (Hr & Hs).
  pose proof (Bn_pos cnt) as HBn. pose proof B_gt1 as HB.
  pose proof (eval_bounds xw1 Hw1) as Hbw1. rewrite Hl1 in Hbw1.
  pose proof (eval_bounds xw Hwx) as Hbw. rewrite Hxw in Hbw.
  pose proof (eval_bounds yw Hwy) as Hby. rewrite Hyw in Hby. fold Y in Hby.
  (* total: W - quo*Y = E - B^(cnt+1) * [b2 <> 0] *)
  set (E := eval xw1 + Bn cnt * r).
  assert (HE : 0 <= E < Bn cnt * B).
  { unfold E, is_word in *. assert (Bn cnt * r <= Bn cnt * (B - 1)) by (apply Z.mul_le_mono_nonneg_l; lia).
    assert (0 <= Bn cnt * r) by (apply Z.mul_nonneg_nonneg; lia). lia. }
  assert (Htot : (b2 = 0 /\ W - quo * Y = E) \/ (b2 = MAXW /\ W - quo * Y = E - Bn cnt * B)).
  { unfold W, Y, E. fold Y in He1.
    destruct Hs as [[-> Hv]|[-> Hv]]; [left|right]; (split; [reflexivity|]).
    - assert (Bn cnt * (x_hi - c1 - bin b1) = Bn cnt * r) by (rewrite Hv; reflexivity). lia.
    - assert (Bn cnt * (x_hi - c1 - bin b1) = Bn cnt * (r - B)) by (rewrite Hv; reflexivity). lia. }
  assert (Hmask : negb (b2 =? 0) = mask).
  { unfold mask. destruct Htot as [[-> Ht]|[-> Ht]].
    - change (0 =? 0) with true. cbn [negb]. symmetry. apply Z.ltb_ge. lia.
    - assert (MAXW =? 0 = false) as -> by (apply Z.eqb_neq; rewrite MAXW_val; lia).
      cbn [negb]. symmetry. apply Z.ltb_lt. lia. }
  rewrite Hmask.
  assert (Hx1 : xa ++ xw1 ++ xb = xa ++ xw1 ++ xb) by reflexivity.
  rewrite (addback_go_window cnt 0 (xa ++ xw1 ++ xb) y base yoff mask 0 xa xw1 xb ya yw yb) by (auto; lia).
  destruct (addback_w xw1 yw mask 0) as [xw2 c2] eqn:E3.
  pose proof (addback_w_correct xw1 yw mask 0 xw2 c2 Hw1 Hwy ltac:(lia) ltac:(lia) E3) as (Hw2 & Hl2 & Hc2 & He2).
  rewrite Hl1 in *. fold Y in He2.
  exists xw2. cbn [fst]. split; [reflexivity|]. split; [assumption|]. split; [assumption|].
  pose proof (eval_bounds xw2 Hw2) as Hbw2. rewrite Hl2 in Hbw2.
  apply (Z.mod_unique_pos _ _ (r - (if b2 =? 0 then 0 else B) + c2)); [lia|].
  clearbody mask. subst mask.
  destruct Htot as [[-> Ht]|[-> Ht]].
  - change (0 =? 0) with true in *. cbn [negb] in *. cbv iota in *. unfold E in Ht. lia.
  - assert (Hmz : MAXW =? 0 = false) by (apply Z.eqb_neq; rewrite MAXW_val; lia).
    rewrite Hmz in *. cbn [negb] in *. cbv iota in *. unfold E in Ht. lia.
Qed.

(** the intended use: quo is the true digit or one too large; the window then holds the exact partial
    remainder and the corrected digit is the true digit *)
Corollary knuth_step_exact x y x_hi base yoff cnt quo xa xw xb ya yw yb :
  x = xa ++ xw ++ xb -> length xa = base -> length xw = cnt ->
  y = ya ++ yw ++ yb -> length ya = yoff -> length yw = cnt ->
  wf xw -> wf yw -> is_word x_hi -> is_word quo ->
  let W := eval xw + Bn cnt * x_hi in
  let Y := eval yw in
  (quo - 1) * Y <= W < (quo + 1) * Y ->
  exists xw'' mask, knuth_step x y x_hi base yoff cnt quo = (xa ++ xw'' ++ xb, mask) /\
    wf xw'' /\ length xw'' = cnt /\
    let q := if mask then quo - 1 else quo in
    W = q * Y + eval xw'' /\ 0 <= eval xw'' < Y /\ q = W / Y /\ eval xw'' = W mod Y /\ 0 <= q /\
    sel mask quo (wsub quo 1) = q /\ sel mask quo (if quo =? 0 then 0 else quo - 1) = q.
Proof.
  intros Hx Hxa Hxw Hy Hya Hyw Hwx Hwy Hxhi Hquo W Y Hest.
  destruct (knuth_step_window x y x_hi base yoff cnt quo xa xw xb ya yw yb Hx Hxa Hxw Hy Hya Hyw Hwx Hwy Hxhi Hquo)
    as (xw2 & Hk & Hw2 & Hl2 & He2).
  fold W Y in Hk, He2. exists xw2, (W <? quo * Y). split; [assumption|]. split; [assumption|]. split; [assumption|].
  pose proof (eval_bounds yw Hwy) as Hby. rewrite Hyw in Hby. fold Y in Hby.
  pose proof (eval_bounds xw Hwx) as Hbw. rewrite Hxw in Hbw.
  pose proof (Bn_pos cnt). pose proof B_gt1 as HB. unfold is_word in Hxhi, Hquo.
  assert (HW0 : 0 <= W) by (unfold W; assert (0 <= Bn cnt * x_hi) by (apply Z.mul_nonneg_nonneg; lia); lia).
  cbv zeta.
  destruct (W <? quo * Y) eqn:Em.
  - apply Z.ltb_lt in Em.
    assert (Hq1 : 1 <= quo).
    { destruct (Z_lt_ge_dec quo 1); [|lia]. assert (quo = 0) by lia. subst quo. lia. }
    rewrite Z.mod_small in He2 by lia.
    assert (Hdm : W / Y = quo - 1 /\ W mod Y = eval xw2) by (apply div_mod_unique_pos; lia).
    destruct Hdm as [Hd Hm]. unfold sel, wsub, wrap.
    rewrite (Z.mod_small (quo - 1) B) by lia.
    assert (quo =? 0 = false) as -> by (apply Z.eqb_neq; lia).
    repeat split; lia.
  - apply Z.ltb_ge in Em.
    rewrite Z.mod_small in He2 by lia.
    assert (Hdm : W / Y = quo /\ W mod Y = eval xw2) by (apply div_mod_unique_pos; lia).
    destruct Hdm as [Hd Hm]. unfold sel.
    repeat split; lia.
Qed.

(** a zero digit leaves the window untouched (the masked iterations of the constant-time loop) *)
Corollary knuth_step_zero x y x_hi base yoff cnt xa xw xb ya yw yb :
  x = xa ++ xw ++ xb -> length xa = base -> length xw = cnt ->
  y = ya ++ yw ++ yb -> length ya = yoff -> length yw = cnt ->
  wf xw -> wf yw -> is_word x_hi ->
  knuth_step x y x_hi base yoff cnt 0 = (x, false).
Proof.
  intros Hx Hxa Hxw Hy Hya Hyw Hwx Hwy Hxhi.
  destruct (knuth_step_window x y x_hi base yoff cnt 0 xa xw xb ya yw yb Hx Hxa Hxw Hy Hya Hyw Hwx Hwy Hxhi is_word_0')
    as (xw2 & Hk & Hw2 & Hl2 & He2).
  pose proof (eval_bounds xw Hwx) as Hbw. rewrite Hxw in Hbw.
  pose proof (Bn_pos cnt). unfold is_word in Hxhi.
  assert (0 <= Bn cnt * x_hi) by (apply Z.mul_nonneg_nonneg; lia).
  cbv zeta in Hk, He2. rewrite Z.mul_0_l in *.
  assert (Em : eval xw + Bn cnt * x_hi <? 0 = false) by (apply Z.ltb_ge; lia).
  rewrite Em in *. rewrite Hk. f_equal. rewrite Hx. f_equal. f_equal.
  apply eval_inj; auto; [lia|]. rewrite He2.
  replace (eval xw + Bn cnt * x_hi - 0 + 0) with (eval xw + x_hi * Bn cnt) by ring.
  rewrite Z.mod_add by lia. apply Z.mod_small. lia.
Qed.

(* ---------- the digit estimate is the true digit or one more (Knuth, Theorem B + step D3) ---------- *)
Lemma knuth_estimate K xl yl U V W Y quo :
  0 < K -> 0 <= xl < K -> 0 <= yl < K -> 0 <= U -> B <= V ->
  W = xl + K * U -> Y = yl + K * V -> W < Y * B ->
  quo = Z.min (U / V) (B - 1) ->
  (quo - 1) * Y <= W < (quo + 1) * Y /\ 0 <= quo < B.
Proof.
  intros HK Hxl Hyl HU HV HW HY Hlt Hquo. pose proof B_gt1 as HB.
  assert (HVp : 0 < V) by lia.
  pose proof (Z.div_mod U V ltac:(lia)) as Hdm. pose proof (Z.mod_pos_bound U V HVp) as Hmb.
  assert (Hq0 : 0 <= U / V) by (apply Z.div_pos; lia).
  set (Q := U / V) in *.
  assert (Hquo0 : 0 <= quo < B) by lia.
  assert (HqV : quo * V <= U).
  { assert (quo * V <= Q * V) by (apply Z.mul_le_mono_nonneg_r; lia). lia. }
  assert (HKU : 0 <= K * U) by (apply Z.mul_nonneg_nonneg; lia).
  split; [split|assumption].
  - (* lower *)
    destruct (Z.eq_dec quo 0) as [->|Hnz].
    + assert (0 <= Y) by (subst Y; assert (0 <= K * V) by (apply Z.mul_nonneg_nonneg; lia); lia). lia.
    + assert (H1 : (quo - 1) * Y <= (quo - 1) * (K * V + K)).
      { apply Z.mul_le_mono_nonneg_l; lia. }
      assert (H2 : (quo - 1) * (K * V + K) = K * (quo * V + (quo - 1 - V))) by ring.
      assert (H3 : K * (quo * V + (quo - 1 - V)) <= K * U) by (apply Z.mul_le_mono_nonneg_l; lia).
      lia.
  - (* upper *)
    destruct (Z_lt_ge_dec Q (B - 1)) as [Hs|Hb].
    + assert (quo = Q) by lia. subst quo.
      assert (U + 1 <= (Q + 1) * V) by lia.
      assert (K * (U + 1) <= K * ((Q + 1) * V)) by (apply Z.mul_le_mono_nonneg_l; lia).
      assert ((Q + 1) * (K * V) <= (Q + 1) * Y) by (apply Z.mul_le_mono_nonneg_l; lia).
      lia.
    + assert (quo = B - 1) by lia. subst quo. lia.
Qed.
