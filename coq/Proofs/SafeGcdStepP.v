(** C10 proofs, part 5: one jump on the full integers ([divstep_gcd_inv]), [fg] and [de] on the unsaturated
    representation ([de_inv]), and the invariant of the divsteps loops for any number of jumps. *)
From CB Require Import Model.Limbs Model.AddSub Model.SafeGcd Proofs.WordP Proofs.LimbsP Proofs.BitsP
  Proofs.SafeGcdArithP Proofs.SafeGcdJumpP Proofs.SafeGcdUnsatP.
From Coq Require Import ZArith Lia List Bool Znumtheory Zdiv Setoid Morphisms.
Open Scope Z_scope.

Lemma abs_lin_s ta tb x y M : Z.abs x <= M -> Z.abs y <= M -> Z.abs (ta * x + tb * y) <= (Z.abs ta + Z.abs tb) * M.
Proof.
  intros Hx Hy.
  assert (A : Z.abs (ta * x) <= Z.abs ta * M) by (rewrite Z.abs_mul; apply Z.mul_le_mono_nonneg_l; lia).
  assert (C : Z.abs (tb * y) <= Z.abs tb * M) by (rewrite Z.abs_mul; apply Z.mul_le_mono_nonneg_l; lia).
  pose proof (Z.abs_triangle (ta * x) (tb * y)). lia.
Qed.
Lemma odd_add_even x y : Z.even y = true -> Z.odd (x + y) = Z.odd x.
Proof. intros H. rewrite Z.odd_add, <- (Z.negb_even y), H. cbn. apply xorb_false_r. Qed.
Lemma even_mul_l x y : Z.even x = true -> Z.even (x * y) = true.
Proof. intros H. rewrite Z.even_mul, H. reflexivity. Qed.
Lemma odd_mod_P62 x : Z.odd (x mod P62) = Z.odd x.
Proof. rewrite <- !Z.bit0_odd. rewrite P62_pow. apply Z.mod_pow2_bits_low. lia. Qed.

Lemma odd_not_div2 x : Z.odd x = true -> ~ (2 | x).
Proof. intros H [c Hc]. rewrite Hc, Z.odd_mul in H. cbn in H. rewrite andb_false_r in H. discriminate. Qed.
Lemma odd_gcd F G : Z.odd F = true \/ Z.odd G = true -> Z.odd (Z.gcd F G) = true.
Proof.
  intros H. destruct (Z.odd (Z.gcd F G)) eqn:OO; [reflexivity|]. exfalso.
  assert (D2 : (2 | Z.gcd F G)) by (exists (Z.gcd F G / 2); rewrite Z.mul_comm; apply even_div2; assumption).
  destruct H as [H|H]; apply (odd_not_div2 _ H); (eapply Z.divide_trans; [exact D2|]); [apply Z.gcd_divide_l | apply Z.gcd_divide_r].
Qed.

(** precondition of a jump on the full integers *)
Definition PRE (F G delta : Z) : Prop := Z.odd F = true \/ (0 < delta /\ Z.odd G = true) \/ G = 0.

(** lifting the relation on the low limbs to the full integers *)
Lemma lift_step F G Bd t00 t01 t10 t11 f' g' :
  Z.odd F = true \/ Z.odd G = true ->
  Z.abs F <= Bd -> Z.abs G <= Bd ->
  t00 * (F mod P62) + t01 * (G mod P62) = P62 * f' -> t10 * (F mod P62) + t11 * (G mod P62) = P62 * g' ->
  Z.abs t00 + Z.abs t01 <= P62 -> Z.abs t10 + Z.abs t11 <= P62 ->
  t00 * t11 - t01 * t10 = P62 -> Z.even t00 = true -> Z.even t01 = true -> Z.odd f' = true ->
  exists F' G',
    t00 * F + t01 * G = P62 * F' /\ t10 * F + t11 * G = P62 * G' /\
    Z.odd F' = true /\ Z.abs F' <= Bd /\ Z.abs G' <= Bd /\ Z.gcd F' G' = Z.gcd F G.
Proof.
  intros Ho HF HG E0 E1 R0 R1 Det Ev0 Ev1 Of'. pfacts.
  assert (Bd0 : 0 <= Bd) by lia.
  assert (OG : Z.odd (Z.gcd F G) = true) by (apply odd_gcd; assumption).
  pose proof (Z.div_mod F P62 ltac:(lia)) as DF. pose proof (Z.div_mod G P62 ltac:(lia)) as DG.
  remember (F / P62) as Fh. remember (G / P62) as Gh. remember (F mod P62) as f0. remember (G mod P62) as g0.
  clear HeqFh HeqGh Heqf0 Heqg0.
  exists (f' + t00 * Fh + t01 * Gh), (g' + t10 * Fh + t11 * Gh).
  remember (f' + t00 * Fh + t01 * Gh) as F'. remember (g' + t10 * Fh + t11 * Gh) as G'.
  assert (X0 : t00 * F + t01 * G = P62 * F').
  { subst F'. rewrite DF, DG. replace (t00 * (P62 * Fh + f0) + t01 * (P62 * Gh + g0)) with ((t00 * f0 + t01 * g0) + P62 * (t00 * Fh + t01 * Gh)) by ring.
    rewrite E0. ring. }
  assert (X1 : t10 * F + t11 * G = P62 * G').
  { subst G'. rewrite DF, DG. replace (t10 * (P62 * Fh + f0) + t11 * (P62 * Gh + g0)) with ((t10 * f0 + t11 * g0) + P62 * (t10 * Fh + t11 * Gh)) by ring.
    rewrite E1. ring. }
  assert (OF' : Z.odd F' = true).
  { subst F'. rewrite <- Z.add_assoc, odd_add_even; [exact Of'|]. rewrite Z.even_add, !even_mul_l by assumption. reflexivity. }
  clear HeqF' HeqG' DF DG E0 E1.
  assert (BF' : Z.abs F' <= Bd).
  { pose proof (abs_lin_s t00 t01 F G Bd HF HG) as A. rewrite X0, Z.abs_mul, (Z.abs_eq P62) in A by lia.
    assert (A2 : (Z.abs t00 + Z.abs t01) * Bd <= P62 * Bd) by (apply Z.mul_le_mono_nonneg_r; lia).
    assert (A3 : P62 * Z.abs F' <= P62 * Bd) by lia. apply Z.mul_le_mono_pos_l in A3; lia. }
  assert (BG' : Z.abs G' <= Bd).
  { pose proof (abs_lin_s t10 t11 F G Bd HF HG) as A. rewrite X1, Z.abs_mul, (Z.abs_eq P62) in A by lia.
    assert (A2 : (Z.abs t10 + Z.abs t11) * Bd <= P62 * Bd) by (apply Z.mul_le_mono_nonneg_r; lia).
    assert (A3 : P62 * Z.abs G' <= P62 * Bd) by lia. apply Z.mul_le_mono_pos_l in A3; lia. }
  assert (IF : F = t11 * F' - t01 * G').
  { apply (Z.mul_reg_l _ _ P62); [lia|].
    replace (P62 * (t11 * F' - t01 * G')) with (t11 * (P62 * F') - t01 * (P62 * G')) by ring. rewrite <- X0, <- X1, <- Det. ring. }
  assert (IG : G = t00 * G' - t10 * F').
  { apply (Z.mul_reg_l _ _ P62); [lia|].
    replace (P62 * (t00 * G' - t10 * F')) with (t00 * (P62 * G') - t10 * (P62 * F')) by ring. rewrite <- X0, <- X1, <- Det. ring. }
  assert (GC : Z.gcd F' G' = Z.gcd F G).
  { apply Z.divide_antisym_nonneg; try apply Z.gcd_nonneg.
    - apply Z.gcd_greatest.
      + assert (D1 : (Z.gcd F' G' | t11 * F' - t01 * G')) by (apply Z.divide_sub_r; apply Z.divide_mul_r; [apply Z.gcd_divide_l | apply Z.gcd_divide_r]).
        rewrite <- IF in D1. exact D1.
      + assert (D1 : (Z.gcd F' G' | t00 * G' - t10 * F')) by (apply Z.divide_sub_r; apply Z.divide_mul_r; [apply Z.gcd_divide_r | apply Z.gcd_divide_l]).
        rewrite <- IG in D1. exact D1.
    - apply Z.gcd_greatest; apply (gauss_pow2 _ 62); try assumption; try lia; rewrite <- P62_pow.
      + rewrite <- X0. apply Z.divide_add_r; apply Z.divide_mul_r; [apply Z.gcd_divide_l | apply Z.gcd_divide_r].
      + rewrite <- X1. apply Z.divide_add_r; apply Z.divide_mul_r; [apply Z.gcd_divide_l | apply Z.gcd_divide_r]. }
  repeat split; assumption.
Qed.

(** [divstep_gcd_inv]: one jump maps (F, G) to (F', G') with t (F, G) = 2^62 (F', G') exactly; the gcd and the
    bound are preserved and F' is odd (or G' = 0 in the degenerate start G = 0) *)
Theorem divstep_gcd_inv F G delta Bd : PRE F G delta -> Z.abs delta + 62 <= P62 ->
  Z.abs F <= Bd -> Z.abs G <= Bd ->
  let '(delta', (t00, t01, t10, t11)) := jump (F mod P62) (G mod P62) delta in
  exists F' G',
    t00 * F + t01 * G = P62 * F' /\ t10 * F + t11 * G = P62 * G' /\
    Z.abs t00 + Z.abs t01 <= P62 /\ Z.abs t10 + Z.abs t11 <= P62 /\
    (Z.odd F' = true \/ G' = 0) /\ Z.abs F' <= Bd /\ Z.abs G' <= Bd /\
    Z.gcd F' G' = Z.gcd F G /\ Z.abs delta' <= Z.abs delta + 62.
Proof.
  intros Hpre Hd HF HG. pfacts.
  pose proof (Z.mod_pos_bound F P62 ltac:(lia)) as Hf0. pose proof (Z.mod_pos_bound G P62 ltac:(lia)) as Hg0.
  assert (C : G = 0 \/ (Z.odd F = true \/ (0 < delta /\ Z.odd G = true))) by (unfold PRE in Hpre; tauto).
  destruct C as [HG0|Ho].
  { subst G. rewrite (Z.mod_0_l P62) by lia. rewrite jump_g0 by lia.
    exists F, 0. rewrite Z.gcd_0_r. repeat split; lia. }
  assert (Hpre' : Z.odd (F mod P62) = true \/ (0 < delta /\ Z.odd (G mod P62) = true)) by (rewrite !odd_mod_P62; exact Ho).
  destruct (jump (F mod P62) (G mod P62) delta) as [delta' [[[t00 t01] t10] t11]] eqn:EJ.
  destruct (jump_matrix_eq _ _ delta _ _ _ _ _ Hf0 Hg0 Hpre' Hd EJ) as (f' & g' & E0 & E1 & R0 & R1 & Det & Ev0 & Ev1 & Of' & Hd').
  destruct (lift_step F G Bd t00 t01 t10 t11 f' g' ltac:(tauto) HF HG E0 E1 R0 R1 Det Ev0 Ev1 Of') as (F' & G' & X0 & X1 & OF' & BF' & BG' & GC).
  exists F', G'. repeat split; try assumption. left. assumption.
Qed.
