(** C18: the defects of the code as found, as closed terms (vm_compute on the faithful model, fx = false). *)
From CB Require Import Model.Limbs Model.Conv Model.Der.
From Coq Require Import ZArith List.
Import ListNotations.
Open Scope Z_scope.

(** F8: U64::from_der of an INTEGER with nine significant octets (2^64) panics *)
Lemma der_oversize_refuted :
  exists n bs, Forall (fun c => 0 <= c < 256) bs /\ der_decode false n bs = Pn.
Proof.
  exists 1%nat, [2; 9; 1; 0; 0; 0; 0; 0; 0; 0; 0]. split.
  - repeat constructor; cbv; intuition discriminate.
  - vm_compute. reflexivity.
Qed.
Lemma der_from_any_oversize_refuted : der_from_any false 1 [2; 9; 1; 0; 0; 0; 0; 0; 0; 0; 0] = Pn.
Proof. vm_compute. reflexivity. Qed.
Lemma der_from_uintref_oversize_refuted : der_from_uintref false 1 [1; 0; 0; 0; 0; 0; 0; 0; 0] = Pn.
Proof. vm_compute. reflexivity. Qed.

(** F28a: a long-form prefix in front of a one-octet payload is accepted: two encodings decode to 5 *)
Lemma rlp_canonical_refuted_long_form :
  rlp_decode false 1 [184; 1; 5] = Ok [5] /\ rlp_encode [5] = [5] /\ rlp_decode false 1 [5] = Ok [5].
Proof. vm_compute. auto. Qed.
(** F28b: octets after the item are ignored *)
Lemma rlp_canonical_refuted_trailing :
  rlp_decode false 1 [5; 0] = Ok [5] /\ rlp_encode [5] = [5].
Proof. vm_compute. auto. Qed.
