(** C11, area div (Model/Div.v, owner C02): every panic of the model is the explicit zero-divisor test (or the
    equal-precision test of the boxed constant-time forms); for a non-zero divisor no entry panics, in either profile. *)
From CB Require Import Model.Limbs Model.Div Proofs.WordP Proofs.LimbsP Proofs.DivShiftP Proofs.TotalityP.
From Coq Require Import ZArith Lia List String Bool.
Open Scope Z_scope.
Notation length := List.length.

Lemma div_cover : covers div_keys ops_div_model = true.
Proof. vm_compute. reflexivity. Qed.
Lemma div_quiet : quiet_keys_ok ops_div_model ops_div_spec div_quiet_keys.
Proof. unfold div_quiet_keys. quiet_tac ops_div_model ops_div_spec. Qed.

(* ---- the zero tests ---- *)
Lemma is_zero_l_iff y : wf y -> (is_zero_l y = true <-> eval y = 0).
Proof.
  induction y as [|x y IH]; intros Hy; cbn [is_zero_l forallb eval].
  - tauto.
  - apply wf_cons in Hy. destruct Hy as [Hx Hy]. specialize (IH Hy). pose proof (eval_nonneg y Hy). pose proof B_pos.
    unfold is_word in Hx. assert (0 <= B * eval y) by (apply Z.mul_nonneg_nonneg; lia).
    rewrite andb_true_iff, Z.eqb_eq. unfold is_zero_l in IH. rewrite IH. split; [intros [-> ->]; lia | intros; split; nia].
Qed.
Lemma is_zero_l_eqb y : wf y -> is_zero_l y = (eval y =? 0).
Proof.
  intros Hy. pose proof (is_zero_l_iff y Hy) as H. destruct (is_zero_l y); destruct (Z.eqb_spec (eval y) 0); try reflexivity.
  - exfalso. apply n. apply H. reflexivity.
  - destruct H as [_ H]. specialize (H e). discriminate.
Qed.
Lemma bits_of_pos' v : 0 < v -> 0 < bits_of v.
Proof. intros H. pose proof (bits_of_spec v H). lia. Qed.
Lemma bits_of_nonneg v : 0 <= bits_of v.
Proof. unfold bits_of. destruct (v <=? 0) eqn:E; [lia|]. apply Z.leb_gt in E. pose proof (Z.log2_nonneg v). lia. Qed.
Lemma limb_count_zero_iff v : Z.to_nat ((bits_of v + 63) / 64) = 0%nat <-> v <= 0.
Proof.
  split; intros H.
  - destruct (Z.le_gt_cases v 0) as [|Hp]; [assumption|exfalso]. pose proof (bits_of_pos' v Hp).
    assert (1 <= (bits_of v + 63) / 64) by (apply Z.div_le_lower_bound; lia). lia.
  - rewrite bits_of_0 by assumption. reflexivity.
Qed.

(* ---- Uint::div_rem: None exactly for the zero divisor (the operands have one width) ---- *)
Lemma uint_div_rem_none_iff x y : wf y -> length x = length y -> (uint_div_rem x y = None <-> eval y = 0).
Proof.
  intros Hy Hl. unfold uint_div_rem. pose proof (eval_nonneg y Hy) as Hn.
  destruct (Nat.eqb_spec (length x) 1) as [H1|H1].
  - destruct y as [|d [|? ?]]; cbn [length] in Hl; try lia. cbn [nthz nth eval]. rewrite Z.mul_0_r, Z.add_0_r.
    destruct (Z.eqb_spec d 0) as [->|Hd]; [tauto|].
    destruct (div_rem_limb_with_reciprocal x (recip_new d)). split; [discriminate|contradiction].
  - destruct (Z.eqb_spec (bits_of (eval y)) 0) as [E|E].
    + split; [intros _|reflexivity]. destruct (Z.eq_dec (eval y) 0) as [|Hne]; [assumption|].
      pose proof (bits_of_pos' (eval y) ltac:(lia)). lia.
    + split; [discriminate|]. intros E0. rewrite E0 in E. contradiction E. reflexivity.
Qed.
Lemma boxed_div_rem_none_iff x y : wf y -> (boxed_div_rem x y = None <-> length x <> length y \/ eval y = 0).
Proof.
  intros Hy. unfold boxed_div_rem. destruct (Nat.eqb_spec (length x) (length y)) as [Hl|Hl]; cbn [negb].
  - rewrite (uint_div_rem_none_iff x y Hy Hl). tauto.
  - tauto.
Qed.
Lemma boxed_div_rem_vartime_none_iff x y : wf y -> (boxed_div_rem_vartime x y = None <-> eval y = 0).
Proof.
  intros Hy. unfold boxed_div_rem_vartime. pose proof (eval_nonneg y Hy) as Hn.
  pose proof (limb_count_zero_iff (eval y)) as Hz.
  destruct (Z.to_nat ((bits_of (eval y) + 63) / 64)) as [|[|k]].
  - split; [intros _; destruct Hz as [Hz _]; specialize (Hz eq_refl); lia | reflexivity].
  - destruct (div_rem_limb_with_reciprocal x (recip_new (nthz y 0))).
    split; [discriminate|]. intros E. destruct Hz as [_ Hz]. specialize (Hz ltac:(lia)). discriminate.
  - destruct (boxed_div_rem_in_place x (firstn (S (S k)) y)).
    split; [discriminate|]. intros E. destruct Hz as [_ Hz]. specialize (Hz ltac:(lia)). discriminate.
Qed.
Lemma boxed_rem_vartime_none_iff x y : wf y -> (boxed_rem_vartime x y = None <-> eval y = 0).
Proof.
  intros Hy. unfold boxed_rem_vartime. pose proof (eval_nonneg y Hy) as Hn.
  pose proof (limb_count_zero_iff (eval y)) as Hz.
  destruct (Z.to_nat ((bits_of (eval y) + 63) / 64)) as [|[|k]].
  - split; [intros _; destruct Hz as [Hz _]; specialize (Hz eq_refl); lia | reflexivity].
  - split; [discriminate|]. intros E. destruct Hz as [_ Hz]. specialize (Hz ltac:(lia)). discriminate.
  - assert (forall A (o : option A), o <> None -> (o = None <-> eval y = 0)) as K.
    { intros A o Ho. split; [contradiction|]. intros E. destruct Hz as [_ Hz]. specialize (Hz ltac:(lia)). discriminate. }
    apply K. destruct (length x <? S (S k))%nat; [discriminate|].
    destruct (boxed_div_rem_in_place x (firstn (S (S k)) y)). discriminate.
Qed.

Lemma o_qr_iff o : o_qr o = PanicV <-> o = None.
Proof. destruct o; cbn; split; intros H; try discriminate; reflexivity. Qed.
Lemma o_fst_iff o : o_fst o = PanicV <-> o = None.
Proof. destruct o; cbn; split; intros H; try discriminate; reflexivity. Qed.
Lemma o_snd_iff o : o_snd o = PanicV <-> o = None.
Proof. destruct o; cbn; split; intros H; try discriminate; reflexivity. Qed.

Local Ltac start := start_key ops_div_model ops_div_spec div_ty.
(* the spec's domain test [nz_dom] *)
Local Ltac in_dom := unfold nz_dom, ev in *;
  match goal with Hdom : (if ?c then _ else _) <> Unsupported |- _ =>
    let E := fresh "Enz" in destruct c eqn:E; [contradiction Hdom; reflexivity|]; apply Z.eqb_neq in E end.
Local Ltac never_spec := split; [intros HP | unfold sp_qr, sp_q, sp_r, spec_div_rem; intros HP; discriminate].
Local Ltac never_spec_k tac :=
  split; [let HP := fresh "HP" in intros HP; tac HP
         | let HP := fresh "HP" in unfold sp_qr, sp_q, sp_r, spec_div_rem; intros HP; discriminate].

Lemma key_uint_div_rem : key_ok ops_div_model ops_div_spec div_ty "uint.div_rem".
Proof. start. in_dom. never_spec. apply o_qr_iff, uint_div_rem_none_iff in HP; auto using wf_arg. contradiction. Qed.
Lemma key_uint_rem : key_ok ops_div_model ops_div_spec div_ty "uint.rem".
Proof. start. in_dom. never_spec. apply o_snd_iff, uint_div_rem_none_iff in HP; auto using wf_arg. contradiction. Qed.
Lemma key_uint_div : key_ok ops_div_model ops_div_spec div_ty "uint.div".
Proof. start. in_dom. never_spec. apply o_fst_iff, uint_div_rem_none_iff in HP; auto using wf_arg. contradiction. Qed.

Lemma key_uint_div_plain : key_ok ops_div_model ops_div_spec div_ty "uint.div_plain".
Proof.
  start. rewrite is_zero_l_eqb by (apply wf_arg; assumption). unfold ev.
  destruct (Z.eqb_spec (eval (arg 1 a)) 0) as [E|E]; [tauto|]. never_spec.
  apply o_fst_iff, uint_div_rem_none_iff in HP; auto using wf_arg. contradiction.
Qed.
Lemma key_uint_rem_plain : key_ok ops_div_model ops_div_spec div_ty "uint.rem_plain".
Proof.
  start. rewrite is_zero_l_eqb by (apply wf_arg; assumption). unfold ev.
  destruct (Z.eqb_spec (eval (arg 1 a)) 0) as [E|E]; [tauto|]. never_spec.
  apply o_snd_iff, uint_div_rem_none_iff in HP; auto using wf_arg. contradiction.
Qed.
Lemma key_uint_checked_div : key_ok ops_div_model ops_div_spec div_ty "uint.checked_div".
Proof.
  start. rewrite is_zero_l_eqb by (apply wf_arg; assumption). unfold ev.
  destruct (Z.eqb_spec (eval (arg 1 a)) 0) as [E|E]; [split; discriminate|]. never_spec.
  apply o_fst_iff, uint_div_rem_none_iff in HP; auto using wf_arg. contradiction.
Qed.
Lemma key_uint_checked_rem : key_ok ops_div_model ops_div_spec div_ty "uint.checked_rem".
Proof.
  start. rewrite is_zero_l_eqb by (apply wf_arg; assumption). unfold ev.
  destruct (Z.eqb_spec (eval (arg 1 a)) 0) as [E|E]; [split; discriminate|]. never_spec.
  apply o_snd_iff, uint_div_rem_none_iff in HP; auto using wf_arg. contradiction.
Qed.
Lemma key_uint_wrapping_rem_vartime : key_ok ops_div_model ops_div_spec div_ty "uint.wrapping_rem_vartime".
Proof.
  start. rewrite is_zero_l_eqb by (apply wf_arg; assumption). unfold ev.
  destruct (Z.eqb_spec (eval (arg 1 a)) 0) as [E|E]; [tauto|]. split; discriminate.
Qed.

(* boxed constant-time forms: the documented panic is the precision mismatch *)
Local Ltac boxed_ct lem :=
  start; in_dom; unfold ln;
  match goal with |- context[(length ?x =? length ?y)%nat] =>
    destruct (Nat.eqb_spec (length x) (length y)) as [Hl|Hl] end; cbn [negb];
  [ never_spec_k ltac:(fun HP => apply lem, boxed_div_rem_none_iff in HP; auto using wf_arg; destruct HP; contradiction)
  | split; [reflexivity|]; intros _; apply lem, boxed_div_rem_none_iff; auto using wf_arg ].
Lemma key_boxed_div_rem : key_ok ops_div_model ops_div_spec div_ty "boxed.div_rem".
Proof. boxed_ct o_qr_iff. Qed.
Lemma key_boxed_rem : key_ok ops_div_model ops_div_spec div_ty "boxed.rem".
Proof. boxed_ct o_snd_iff. Qed.
Lemma key_boxed_div : key_ok ops_div_model ops_div_spec div_ty "boxed.div".
Proof. boxed_ct o_fst_iff. Qed.
Lemma key_boxed_checked_div : key_ok ops_div_model ops_div_spec div_ty "boxed.checked_div".
Proof.
  start. unfold ln in *.
  destruct (Nat.eqb_spec (length (arg 0 a)) (length (arg 1 a))) as [Hl|Hl]; cbn [negb] in *;
    [|contradiction Hdom; reflexivity].
  rewrite is_zero_l_eqb by (apply wf_arg; assumption). unfold ev.
  destruct (Z.eqb_spec (eval (arg 1 a)) 0) as [E|E]; [split; discriminate|]. never_spec.
  apply o_fst_iff, boxed_div_rem_none_iff in HP; auto using wf_arg. destruct HP; contradiction.
Qed.
Lemma key_boxed_div_rem_vartime : key_ok ops_div_model ops_div_spec div_ty "boxed.div_rem_vartime".
Proof. start. in_dom. never_spec. apply o_qr_iff, boxed_div_rem_vartime_none_iff in HP; auto using wf_arg. contradiction. Qed.
Lemma key_boxed_div_vartime : key_ok ops_div_model ops_div_spec div_ty "boxed.div_vartime".
Proof. start. in_dom. never_spec. apply o_fst_iff, boxed_div_rem_vartime_none_iff in HP; auto using wf_arg. contradiction. Qed.
Lemma key_boxed_rem_vartime : key_ok ops_div_model ops_div_spec div_ty "boxed.rem_vartime".
Proof.
  start. in_dom. never_spec.
  destruct (boxed_rem_vartime (arg 0 a) (arg 1 a)) eqn:E; [discriminate|].
  apply boxed_rem_vartime_none_iff in E; auto using wf_arg. contradiction.
Qed.
#[export] Hint Resolve key_uint_div_rem key_uint_rem key_uint_div key_uint_div_plain key_uint_rem_plain
  key_uint_checked_div key_uint_checked_rem key_uint_wrapping_rem_vartime key_boxed_div_rem key_boxed_rem
  key_boxed_div key_boxed_checked_div key_boxed_div_rem_vartime key_boxed_rem_vartime key_boxed_div_vartime : c11keys.

Theorem div_panics_iff_documented : panics_iff_documented ops_div_model ops_div_spec div_keys div_ty.
Proof. apply panics_from_parts; [exact div_quiet | unfold div_panic_keys; by_keys]. Qed.

(** checked_div / checked_rem never panic, whatever the operand values (zero divisor included) *)
Theorem div_total_forms_never_panic : total_forms_never_panic ops_div_model div_total_keys div_total_ty.
Proof.
  intros k dbg a Hin Hty. cbn [In div_total_keys] in Hin.
  destruct Hin as [<-|[<-|[<-|[]]]]; open_typed div_total_ty Hty; destruct Hty as [Hw Hl]; unfold ln in Hl;
    open_tabs ops_div_model ops_div_spec; unfold ln.
  - rewrite is_zero_l_eqb by assumption. destruct (Z.eqb_spec (eval (arg 1 a)) 0) as [E|E]; [discriminate|].
    intros HP. apply o_fst_iff, uint_div_rem_none_iff in HP; auto.
  - rewrite is_zero_l_eqb by assumption. destruct (Z.eqb_spec (eval (arg 1 a)) 0) as [E|E]; [discriminate|].
    intros HP. apply o_snd_iff, uint_div_rem_none_iff in HP; auto.
  - rewrite Hl, Nat.eqb_refl. cbn [negb].
    rewrite is_zero_l_eqb by assumption. destruct (Z.eqb_spec (eval (arg 1 a)) 0) as [E|E]; [discriminate|].
    intros HP. apply o_fst_iff, boxed_div_rem_none_iff in HP; auto. destruct HP; contradiction.
Qed.

(** anchor src/uint/div_limb.rs:125-162, src/uint/div.rs:113-121: with a non-zero divisor (and, for the constant-time
    boxed forms, the documented equal precisions) no division entry of the model panics, in the release profile and in
    the debug-assertions profile alike *)
Definition div_divisor_keys : list string :=
  ["uint.div_rem"; "uint.rem"; "uint.div"; "uint.div_plain"; "uint.rem_plain"; "uint.checked_div"; "uint.checked_rem";
   "uint.div_rem_vartime"; "uint.rem_vartime"; "uint.div_vartime"; "uint.wrapping_rem_vartime";
   "uint.div_rem_limb"; "uint.rem_limb"; "uint.div_limb"; "boxed.div_rem_limb"; "boxed.rem_limb";
   "boxed.div_rem"; "boxed.rem"; "boxed.div"; "boxed.checked_div";
   "boxed.div_rem_vartime"; "boxed.rem_vartime"; "boxed.div_vartime"]%string.
Definition div_nz_ty : typing :=
  [("uint.div_rem", same_len); ("uint.rem", same_len); ("uint.div", same_len); ("uint.div_plain", same_len);
   ("uint.rem_plain", same_len); ("uint.checked_div", same_len); ("uint.checked_rem", same_len);
   ("boxed.div_rem", same_len); ("boxed.rem", same_len); ("boxed.div", same_len); ("boxed.checked_div", same_len)]%string.

Lemma div_divisor_keys_sub : sublist div_divisor_keys div_keys = true.
Proof. vm_compute. reflexivity. Qed.

Theorem div_nonzero_divisor_never_panics : forall k dbg a, In k div_divisor_keys ->
  wf_args a -> typed div_nz_ty k a -> eval (arg 1 a) <> 0 -> run_tab ops_div_model k dbg a <> PanicV.
Proof.
  intros k dbg a Hin Hwf Hty Hnz HP.
  assert (Enz : (ev 1 a =? 0) = false) by (apply Z.eqb_neq; exact Hnz).
  pose proof (sublist_In _ _ div_divisor_keys_sub k Hin) as Hk.
  assert (Hs : run_tab ops_div_spec k dbg a <> Unsupported /\ run_tab ops_div_spec k dbg a <> PanicV /\ typed div_ty k a).
  { clear HP Hk. cbn [In div_divisor_keys] in Hin.
    repeat (destruct Hin as [<- | Hin];
      [ open_typed div_nz_ty Hty; unfold typed; open_tabs ops_div_model ops_div_spec;
        lazy beta iota delta [lookup div_ty String.eqb Ascii.eqb Bool.eqb];
        unfold nz_dom; rewrite ?Enz; try (unfold same_len in Hty; rewrite ?Hty, ?Nat.eqb_refl; cbn [negb]);
        unfold sp_qr, sp_q, sp_r, spec_div_rem;
        repeat split; solve [discriminate | exact Hty | exact I] |]).
    contradiction. }
  destruct Hs as (Hs1 & Hs2 & Hs3).
  apply Hs2. exact (proj1 (div_panics_iff_documented k dbg a Hk Hwf Hs3 Hs1) HP).
Qed.
