(** C04 proofs: carry chains over limb lists of any length. *)
From CB Require Import Model.Limbs Model.AddSub Proofs.WordP Proofs.LimbsP.
From Coq Require Import ZArith Lia List.
Open Scope Z_scope.

(* ---- adc chain ---- *)
Lemma adc_limbs_correct a : forall b c r co,
  wf a -> wf b -> length a = length b -> is_word c ->
  adc_limbs a b c = (r, co) ->
  eval r + Bn (length a) * co = eval a + eval b + c /\ wf r /\ length r = length a /\ is_word co
  /\ (c <= 1 -> co <= 1).
Proof.
  induction a as [|x a IH]; intros b c r co Ha Hb Hl Hc E.
  - destruct b; [|discriminate]. simpl in E. inv_pair E. simpl. rewrite Bn_0.
    unfold is_word in *. pose proof B_gt1. repeat split; try lia. apply wf_nil.
  - destruct b as [|y b]; [discriminate|]. simpl in Hl.
    apply wf_cons in Ha. destruct Ha as [Hx Ha]. apply wf_cons in Hb. destruct Hb as [Hy Hb].
    cbn [adc_limbs] in E.
    destruct (adc x y c) as [wd c1] eqn:E1.
    destruct (adc_limbs a b c1) as [r' c2] eqn:E2.
    inv_pair E.
    pose proof (adc_exact _ _ _ _ _ Hx Hy Hc E1) as (H1 & Hwd & Hc1).
    assert (Hc1w : is_word c1) by (unfold is_word; pose proof B_gt4; lia).
    specialize (IH b c1 r' c2 Ha Hb ltac:(lia) Hc1w E2). destruct IH as (H2 & Hwr & Hlr & Hc2 & Hsm).
    cbn [eval length]. rewrite Bn_S. unfold is_word in Hc2.
    repeat split; try lia.
    + apply wf_cons. split; assumption.
    + intros Hle. apply Hsm.
      assert (0 <= c <= 1) by (unfold is_word in Hc; lia).
      pose proof (adc_carry_small _ _ _ _ _ Hx Hy H E1). lia.
Qed.

(* ---- sbb chain: borrow-out is 0 or MAXW ---- *)
Definition is_borrow (b : Z) : Prop := b = 0 \/ b = MAXW.
Definition bout (b : Z) : Z := if b =? 0 then 0 else 1.
Lemma bout_0 : bout 0 = 0. Proof. reflexivity. Qed.
Lemma bout_MAXW : bout MAXW = 1. Proof. vm_compute. reflexivity. Qed.

Lemma sbb_limbs_correct a : forall b bw r bo,
  wf a -> wf b -> length a = length b -> is_word bw ->
  sbb_limbs a b bw = (r, bo) ->
  wf r /\ length r = length a /\
  ((length a = 0%nat /\ bo = bw /\ r = []) \/
   (length a <> 0%nat /\ is_borrow bo /\ eval r - Bn (length a) * bout bo = eval a - eval b - bin bw)).
Proof.
  induction a as [|x a IH]; intros b bw r bo Ha Hb Hl Hbw E.
  - destruct b; [|discriminate]. simpl in E. inv_pair E. repeat split; auto using wf_nil.
  - destruct b as [|y b]; [discriminate|]. simpl in Hl.
    apply wf_cons in Ha. destruct Ha as [Hx Ha]. apply wf_cons in Hb. destruct Hb as [Hy Hb].
    cbn [sbb_limbs] in E.
    destruct (sbb x y bw) as [wd b1] eqn:E1.
    destruct (sbb_limbs a b b1) as [r' b2] eqn:E2.
    inv_pair E.
    pose proof (sbb_exact _ _ _ _ _ Hx Hy Hbw E1) as (Hwd & Hcase).
    assert (Hb1w : is_word b1).
    { unfold is_word. pose proof B_gt1. pose proof MAXW_val. destruct Hcase as [[-> _]|[-> _]]; lia. }
    specialize (IH b b1 r' b2 Ha Hb ltac:(lia) Hb1w E2). destruct IH as (Hwr & Hlr & IH).
    split; [apply wf_cons; split; assumption|]. split; [simpl; lia|].
    right. split; [simpl; lia|].
    cbn [eval length]. rewrite Bn_S.
    assert (Hb1 : bin b1 = bout b1 /\ is_borrow b1).
    { destruct Hcase as [[-> _]|[-> _]]; split; try reflexivity; [left|right]; reflexivity. }
    destruct Hb1 as [Hbb Hib].
    destruct IH as [(Hz & -> & ->)|(Hnz & Hib2 & IH)].
    + (* tail empty *)
      destruct a; [|discriminate]. destruct b; [|discriminate]. simpl.
      rewrite Bn_0. split; [assumption|].
      destruct Hcase as [[-> Hv]|[-> Hv]]; rewrite ?bout_0, ?bout_MAXW; lia.
    + split; [assumption|].
      rewrite Hbb in IH.
      destruct Hcase as [[-> Hv]|[-> Hv]]; rewrite ?bout_0, ?bout_MAXW in *; pose proof B_gt1; nia.
Qed.

(* ---- negation chain:  eval r + Bn * cout = (Bn - 1 - eval a) + cin ---- *)
Lemma neg_limbs_correct a : forall c r co,
  wf a -> 0 <= c <= 1 -> neg_limbs a c = (r, co) ->
  eval r + Bn (length a) * co = Bn (length a) - 1 - eval a + c /\ wf r /\ length r = length a /\ 0 <= co <= 1.
Proof.
  induction a as [|x a IH]; intros c r co Ha Hc E.
  - simpl in E. inv_pair E. simpl. rewrite Bn_0. repeat split; try lia. apply wf_nil.
  - apply wf_cons in Ha. destruct Ha as [Hx Ha]. cbn [neg_limbs] in E.
    destruct (neg_limbs a ((wnot x + c) / B)) as [rs c2] eqn:E2. inv_pair E.
    unfold wnot in *. pose proof MAXW_val. pose proof B_gt1. unfold is_word in Hx.
    set (s := MAXW - x + c) in *.
    pose proof (Z.div_mod s B ltac:(lia)). pose proof (Z.mod_pos_bound s B ltac:(lia)).
    assert (Hq : 0 <= s / B <= 1).
    { split; [apply Z.div_pos; unfold s; lia | apply Z.lt_succ_r; apply Z.div_lt_upper_bound; unfold s; lia]. }
    specialize (IH (s / B) rs c2 Ha Hq E2). destruct IH as (IHe & Hwr & Hlr & Hc2).
    cbn [eval length]. rewrite Bn_S. repeat split; try lia.
    apply wf_cons. split; [apply is_word_mod | assumption].
Qed.

(* ---- select ---- *)
Lemma select_limbs_choice c a b :
  wf a -> wf b -> length a = length b ->
  select_limbs (choice_of_bool c) a b = if c then b else a.
Proof.
  unfold select_limbs. revert b. induction a as [|x a IH]; intros b Ha Hb Hl.
  - destruct b; [|discriminate]. destruct c; reflexivity.
  - destruct b as [|y b]; [discriminate|].
    apply wf_cons in Ha. destruct Ha as [Hx Ha]. apply wf_cons in Hb. destruct Hb as [Hy Hb].
    simpl. rewrite select_word_choice by assumption. simpl in Hl.
    rewrite IH by (auto; lia). destruct c; reflexivity.
Qed.

Lemma wf_maxs n : wf (maxs n).
Proof. unfold wf, maxs. apply Forall_forall. intros x Hx. apply repeat_spec in Hx. subst. unfold is_word. pose proof MAXW_val. pose proof B_gt1. lia. Qed.
Lemma eval_maxs n : eval (maxs n) = Bn n - 1.
Proof.
  induction n; [reflexivity|]. unfold maxs in *. simpl. rewrite IHn, Bn_S. pose proof MAXW_val. lia.
Qed.
Lemma length_maxs n : length (maxs n) = n. Proof. apply repeat_length. Qed.

(* ================= API-level statements ================= *)
Lemma is_word_0 : is_word 0. Proof. unfold is_word. pose proof B_pos. lia. Qed.

Lemma uint_adc_spec a b c r co :
  wf a -> wf b -> length a = length b -> is_word c -> uint_adc a b c = (r, co) ->
  eval r + Bn (length a) * co = eval a + eval b + c /\ wf r /\ length r = length a /\ is_word co.
Proof.
  intros Ha Hb Hl Hc E. pose proof (adc_limbs_correct a b c r co Ha Hb Hl Hc E). tauto.
Qed.

Lemma uint_sbb_spec a b bw r bo :
  wf a -> wf b -> length a = length b -> length a <> 0%nat -> is_word bw -> uint_sbb a b bw = (r, bo) ->
  eval r - Bn (length a) * bout bo = eval a - eval b - bin bw /\ wf r /\ length r = length a /\ is_borrow bo.
Proof.
  intros Ha Hb Hl Hn Hc E. pose proof (sbb_limbs_correct a b bw r bo Ha Hb Hl Hc E) as (Hw & Hlr & [(Hz & _)|(_ & Hib & He)]);
    [contradiction | tauto].
Qed.

Lemma wrapping_add_spec a b :
  wf a -> wf b -> length a = length b ->
  eval (uint_wrapping_add a b) = (eval a + eval b) mod Bn (length a) /\ wf (uint_wrapping_add a b)
  /\ length (uint_wrapping_add a b) = length a.
Proof.
  intros Ha Hb Hl. unfold uint_wrapping_add. destruct (adc_limbs a b 0) as [r co] eqn:E. cbn [fst].
  pose proof (adc_limbs_correct a b 0 r co Ha Hb Hl is_word_0 E) as (He & Hw & Hlr & Hco & Hsm).
  repeat split; auto. pose proof (eval_bounds r Hw) as Hb'. rewrite Hlr in Hb'.
  pose proof (Bn_pos (length a)).
  apply (Z.mod_unique_pos _ _ co); unfold is_word in Hco; lia.
Qed.

Lemma checked_add_spec a b :
  wf a -> wf b -> length a = length b ->
  match uint_checked_add a b with
  | Some r => eval r = eval a + eval b /\ wf r /\ length r = length a
  | None => Bn (length a) <= eval a + eval b
  end.
Proof.
  intros Ha Hb Hl. unfold uint_checked_add. destruct (adc_limbs a b 0) as [r co] eqn:E.
  pose proof (adc_limbs_correct a b 0 r co Ha Hb Hl is_word_0 E) as (He & Hw & Hlr & Hco & Hsm).
  pose proof (eval_bounds r Hw) as Hb'. rewrite Hlr in Hb'. unfold is_word in Hco.
  destruct (co =? 0) eqn:Ez.
  - apply Z.eqb_eq in Ez. subst co. repeat split; auto. lia.
  - apply Z.eqb_neq in Ez. pose proof (Bn_pos (length a)). nia.
Qed.

Lemma checked_sub_spec a b :
  wf a -> wf b -> length a = length b ->
  match uint_checked_sub a b with
  | Some r => eval r = eval a - eval b /\ wf r /\ length r = length a
  | None => eval a < eval b
  end.
Proof.
  intros Ha Hb Hl. unfold uint_checked_sub. destruct (sbb_limbs a b 0) as [r bo] eqn:E.
  pose proof (sbb_limbs_correct a b 0 r bo Ha Hb Hl is_word_0 E) as (Hw & Hlr & [(Hz & -> & ->)|(Hnz & Hib & He)]).
  - destruct a; [|discriminate]. destruct b; [|discriminate]. simpl. repeat split; auto.
  - rewrite bin_0 in He. pose proof (eval_bounds r Hw) as Hb'. rewrite Hlr in Hb'.
    destruct Hib as [-> | ->].
    + rewrite bout_0 in He. change (0 =? 0) with true. cbv iota. repeat split; auto. lia.
    + rewrite bout_MAXW in He. change (MAXW =? 0) with false. cbv iota. lia.
Qed.

Lemma from_word_lsb_01 c : 0 <= c <= 1 -> from_word_lsb c = choice_of_bool (c =? 1).
Proof. intros H. assert (c = 0 \/ c = 1) as [-> | ->] by lia; reflexivity. Qed.

Lemma saturating_add_spec a b :
  wf a -> wf b -> length a = length b ->
  eval (uint_saturating_add a b) = Z.min (eval a + eval b) (Bn (length a) - 1).
Proof.
  intros Ha Hb Hl. unfold uint_saturating_add. destruct (adc_limbs a b 0) as [r co] eqn:E.
  pose proof (adc_limbs_correct a b 0 r co Ha Hb Hl is_word_0 E) as (He & Hw & Hlr & Hco & Hsm).
  unfold is_word in Hco. specialize (Hsm ltac:(lia)).
  rewrite from_word_lsb_01 by lia.
  rewrite select_limbs_choice; auto using wf_maxs; [|rewrite length_maxs; assumption].
  pose proof (eval_bounds r Hw) as Hb'. rewrite Hlr in Hb'. pose proof (Bn_pos (length a)).
  pose proof (eval_bounds a Ha). pose proof (eval_bounds b Hb). rewrite <- Hl in *.
  destruct (co =? 1) eqn:Ez.
  - apply Z.eqb_eq in Ez. subst co. rewrite eval_maxs. lia.
  - apply Z.eqb_neq in Ez. assert (co = 0) by lia. subst co. lia.
Qed.

Lemma borrow_choice bo : is_borrow bo -> bo = choice_of_bool (negb (bo =? 0)).
Proof. intros [-> | ->]; reflexivity. Qed.

Lemma saturating_sub_spec a b :
  wf a -> wf b -> length a = length b ->
  eval (uint_saturating_sub a b) = Z.max 0 (eval a - eval b).
Proof.
  intros Ha Hb Hl. unfold uint_saturating_sub. destruct (sbb_limbs a b 0) as [r bo] eqn:E.
  pose proof (sbb_limbs_correct a b 0 r bo Ha Hb Hl is_word_0 E) as (Hw & Hlr & [(Hz & -> & ->)|(Hnz & Hib & He)]).
  - destruct a; [|discriminate]. destruct b; [|discriminate]. reflexivity.
  - rewrite bin_0 in He. pose proof (eval_bounds r Hw) as Hb'. rewrite Hlr in Hb'.
    rewrite (borrow_choice bo Hib).
    rewrite select_limbs_choice; auto using wf_zeros; [|rewrite length_zeros; assumption].
    destruct Hib as [-> | ->].
    + rewrite bout_0 in He. change (negb (0 =? 0)) with false. cbv iota. lia.
    + rewrite bout_MAXW in He. change (negb (MAXW =? 0)) with true. cbv iota. rewrite eval_zeros. lia.
Qed.

Lemma carrying_neg_spec a r c :
  wf a -> uint_carrying_neg a = (r, c) ->
  eval r = (- eval a) mod Bn (length a) /\ wf r /\ length r = length a /\
  choice_to_bool c = (eval a =? 0).
Proof.
  intros Ha E. unfold uint_carrying_neg in E. destruct (neg_limbs a 1) as [r' co] eqn:E1. inv_pair E.
  pose proof (neg_limbs_correct a 1 r' co Ha ltac:(lia) E1) as (He & Hw & Hlr & Hco).
  pose proof (eval_bounds r' Hw) as Hb'. rewrite Hlr in Hb'. pose proof (eval_bounds a Ha).
  pose proof (Bn_pos (length a)).
  repeat split; auto.
  - assert (co = 0 \/ co = 1) as [-> | ->] by lia.
    + apply (Z.mod_unique_pos _ _ (-1)); lia.
    + apply (Z.mod_unique_pos _ _ 0); lia.
  - rewrite from_word_lsb_01 by lia.
    assert (co = 0 \/ co = 1) as [-> | ->] by lia.
    + change (choice_to_bool (choice_of_bool (0 =? 1))) with false. symmetry. apply Z.eqb_neq. lia.
    + change (choice_to_bool (choice_of_bool (1 =? 1))) with true. symmetry. apply Z.eqb_eq. lia.
Qed.

(* ---- boxed: operands of different precision ---- *)
Lemma boxed_adc_spec a b c r co :
  wf a -> wf b -> is_word c -> boxed_adc a b c = (r, co) ->
  let n := Nat.max (length a) (length b) in
  eval r + Bn n * co = eval a + eval b + c /\ wf r /\ length r = n /\ is_word co.
Proof.
  intros Ha Hb Hc E n. unfold boxed_adc in E. fold n in E.
  pose proof (adc_limbs_correct (resize n a) (resize n b) c r co
    (wf_resize n a Ha) (wf_resize n b Hb) ltac:(rewrite !length_resize; reflexivity) Hc E) as (He & Hw & Hlr & Hco & _).
  rewrite length_resize in *.
  rewrite !eval_resize_ge in He by (auto; unfold n; lia). tauto.
Qed.

Lemma boxed_sbb_spec a b bw r bo :
  wf a -> wf b -> is_word bw -> (length a <> 0 \/ length b <> 0)%nat -> boxed_sbb a b bw = (r, bo) ->
  let n := Nat.max (length a) (length b) in
  eval r - Bn n * bout bo = eval a - eval b - bin bw /\ wf r /\ length r = n /\ is_borrow bo.
Proof.
  intros Ha Hb Hc Hnz E n. unfold boxed_sbb in E. fold n in E.
  pose proof (sbb_limbs_correct (resize n a) (resize n b) bw r bo
    (wf_resize n a Ha) (wf_resize n b Hb) ltac:(rewrite !length_resize; reflexivity) Hc E) as (Hw & Hlr & Hcase).
  rewrite length_resize in *.
  destruct Hcase as [(Hz & _)|(_ & Hib & He)]; [unfold n in Hz; lia|].
  rewrite !eval_resize_ge in He by (auto; unfold n; lia). tauto.
Qed.
