(** C16 proofs, part 2: big / little endian byte encodings of limb lists (Uint, Int, BoxedUint). *)
From CB Require Import Model.Limbs Model.Conv Proofs.WordP Proofs.LimbsP Proofs.ConvDigitsP.
From Coq Require Import ZArith Lia List.
Import ListNotations.
Open Scope Z_scope.
Open Scope list_scope.

Lemma Z256_pos : 0 < 256. Proof. reflexivity. Qed.

(* ---- encoders ---- *)
Lemma uint_to_le_bytes_digits ls : wf ls ->
  uint_to_le_bytes ls = digits 256 (8 * length ls) (eval ls).
Proof. intros Hw. unfold uint_to_le_bytes, word_to_le_bytes. apply limbs_regroup; [reflexivity | apply B_256 | assumption]. Qed.

Lemma uint_to_be_bytes_rev ls : uint_to_be_bytes ls = rev (uint_to_le_bytes ls).
Proof. unfold uint_to_be_bytes, uint_to_le_bytes, word_to_be_bytes, word_to_le_bytes. rewrite flat_map_rev. reflexivity. Qed.

Lemma length_uint_to_le_bytes ls : wf ls -> length (uint_to_le_bytes ls) = (8 * length ls)%nat.
Proof. intros. rewrite uint_to_le_bytes_digits, length_digits by assumption. reflexivity. Qed.
Lemma length_uint_to_be_bytes ls : wf ls -> length (uint_to_be_bytes ls) = (8 * length ls)%nat.
Proof. intros. rewrite uint_to_be_bytes_rev, rev_length. apply length_uint_to_le_bytes. assumption. Qed.
Lemma wfd_uint_to_le_bytes ls : wf ls -> wfd 256 (uint_to_le_bytes ls).
Proof. intros. rewrite uint_to_le_bytes_digits by assumption. apply wfd_digits. reflexivity. Qed.
Lemma wfd_uint_to_be_bytes ls : wf ls -> wfd 256 (uint_to_be_bytes ls).
Proof. intros. rewrite uint_to_be_bytes_rev. apply wfd_rev, wfd_uint_to_le_bytes. assumption. Qed.

(** positional: little-endian byte i is floor(x / 256^i) mod 256 *)
Lemma le_positional ls i : wf ls -> (i < 8 * length ls)%nat ->
  nth i (uint_to_le_bytes ls) 0 = (eval ls / 256 ^ Z.of_nat i) mod 256.
Proof. intros Hw Hi. rewrite uint_to_le_bytes_digits by assumption. apply nth_digits; [reflexivity | assumption]. Qed.

(** positional: big-endian byte i of the n-byte value x is floor(x / 256^(n-1-i)) mod 256 *)
Lemma be_positional ls i : wf ls -> (i < 8 * length ls)%nat ->
  nth i (uint_to_be_bytes ls) 0 = (eval ls / 256 ^ (Z.of_nat (8 * length ls) - 1 - Z.of_nat i)) mod 256.
Proof.
  intros Hw Hi. rewrite uint_to_be_bytes_rev.
  pose proof (length_uint_to_le_bytes ls Hw) as Hl.
  rewrite nth_rev_lt by lia. rewrite Hl, le_positional by (assumption || lia).
  do 3 f_equal. lia.
Qed.

(* ---- decoders ---- *)
Lemma from_le_slice_len n bs : uint_from_le_slice n bs = None <-> length bs <> (8 * n)%nat.
Proof. unfold uint_from_le_slice. destruct (Nat.eqb_spec (length bs) (8 * n)); split; intros; (congruence || discriminate || tauto). Qed.
Lemma from_be_slice_len n bs : uint_from_be_slice n bs = None <-> length bs <> (8 * n)%nat.
Proof. unfold uint_from_be_slice. destruct (Nat.eqb_spec (length bs) (8 * n)); split; intros; (congruence || discriminate || tauto). Qed.

Lemma le_limbs_of_chunks n bs : wfd 256 bs -> length bs = (8 * n)%nat ->
  let r := map word_from_le_bytes (chunks 8 n bs) in
  wf r /\ length r = n /\ eval r = evalb 256 bs.
Proof.
  intros Hw Hl r. destruct (chunks_spec 8 n bs Hl) as (Hc & Hf & Hn).
  pose proof (wfd_chunks 256 8 n bs Hw) as Hwc.
  unfold r, word_from_le_bytes. repeat split.
  - apply (proj1 (wfd_wf _)). rewrite B_256. apply wfd_evalb_chunks; (reflexivity || assumption).
  - rewrite map_length. assumption.
  - rewrite eval_evalb, B_256, evalb_concat by (reflexivity || assumption). rewrite Hc. reflexivity.
Qed.

Lemma be_limbs_of_chunks n bs : wfd 256 bs -> length bs = (8 * n)%nat ->
  let r := rev (map word_from_be_bytes (chunks 8 n bs)) in
  wf r /\ length r = n /\ eval r = evalb 256 (rev bs).
Proof.
  intros Hw Hl r. destruct (chunks_spec 8 n bs Hl) as (Hc & Hf & Hn).
  pose proof (wfd_chunks 256 8 n bs Hw) as Hwc.
  assert (Er : r = map (evalb 256) (map (@rev Z) (rev (chunks 8 n bs)))).
  { unfold r, word_from_be_bytes. rewrite <- map_rev, map_map. reflexivity. }
  assert (Hf' : Forall (fun c => length c = 8%nat) (map (@rev Z) (rev (chunks 8 n bs)))).
  { apply Forall_forall. intros c Hin. apply in_map_iff in Hin. destruct Hin as (c' & <- & Hin').
    apply in_rev in Hin'. rewrite Forall_forall in Hf. rewrite rev_length. auto. }
  assert (Hw' : Forall (wfd 256) (map (@rev Z) (rev (chunks 8 n bs)))).
  { apply Forall_forall. intros c Hin. apply in_map_iff in Hin. destruct Hin as (c' & <- & Hin').
    apply in_rev in Hin'. rewrite Forall_forall in Hwc. apply wfd_rev. auto. }
  rewrite Er. repeat split.
  - apply (proj1 (wfd_wf _)). rewrite B_256. apply wfd_evalb_chunks; (reflexivity || assumption).
  - rewrite !map_length, rev_length. assumption.
  - rewrite eval_evalb, B_256, evalb_concat by (reflexivity || assumption).
    rewrite concat_map_rev, Hc. reflexivity.
Qed.

Lemma from_le_slice_spec n bs r : wfd 256 bs -> uint_from_le_slice n bs = Some r ->
  length bs = (8 * n)%nat /\ wf r /\ length r = n /\ eval r = evalb 256 bs.
Proof.
  unfold uint_from_le_slice. intros Hw E. destruct (Nat.eqb_spec (length bs) (8 * n)) as [Hl|]; [|discriminate].
  injection E as <-. split; [assumption|]. apply le_limbs_of_chunks; assumption.
Qed.
Lemma from_be_slice_spec n bs r : wfd 256 bs -> uint_from_be_slice n bs = Some r ->
  length bs = (8 * n)%nat /\ wf r /\ length r = n /\ eval r = evalb 256 (rev bs).
Proof.
  unfold uint_from_be_slice. intros Hw E. destruct (Nat.eqb_spec (length bs) (8 * n)) as [Hl|]; [|discriminate].
  injection E as <-. split; [assumption|]. apply be_limbs_of_chunks; assumption.
Qed.

(* ---- round trips ---- *)
Lemma le_roundtrip ls : wf ls -> uint_from_le_slice (length ls) (uint_to_le_bytes ls) = Some ls.
Proof.
  intros Hw. pose proof (length_uint_to_le_bytes ls Hw) as Hl.
  destruct (uint_from_le_slice (length ls) (uint_to_le_bytes ls)) as [r|] eqn:E.
  - destruct (from_le_slice_spec _ _ _ (wfd_uint_to_le_bytes ls Hw) E) as (_ & Hwr & Hlr & Her).
    f_equal. apply eval_inj; try assumption.
    rewrite Her, uint_to_le_bytes_digits, evalb_digits, <- Bn_256 by (assumption || reflexivity).
    apply Z.mod_small. apply eval_bounds. assumption.
  - apply from_le_slice_len in E. contradiction.
Qed.

Lemma le_roundtrip_bytes n bs r : wfd 256 bs -> uint_from_le_slice n bs = Some r -> uint_to_le_bytes r = bs.
Proof.
  intros Hw E. destruct (from_le_slice_spec _ _ _ Hw E) as (Hl & Hwr & Hlr & Her).
  rewrite uint_to_le_bytes_digits, Hlr, Her, <- Hl by assumption. apply digits_evalb; [reflexivity | assumption].
Qed.

Lemma be_roundtrip ls : wf ls -> uint_from_be_slice (length ls) (uint_to_be_bytes ls) = Some ls.
Proof.
  intros Hw. pose proof (length_uint_to_be_bytes ls Hw) as Hl.
  destruct (uint_from_be_slice (length ls) (uint_to_be_bytes ls)) as [r|] eqn:E.
  - destruct (from_be_slice_spec _ _ _ (wfd_uint_to_be_bytes ls Hw) E) as (_ & Hwr & Hlr & Her).
    f_equal. apply eval_inj; try assumption.
    rewrite Her, uint_to_be_bytes_rev, rev_involutive, uint_to_le_bytes_digits, evalb_digits, <- Bn_256 by (assumption || reflexivity).
    apply Z.mod_small. apply eval_bounds. assumption.
  - apply from_be_slice_len in E. contradiction.
Qed.

Lemma be_roundtrip_bytes n bs r : wfd 256 bs -> uint_from_be_slice n bs = Some r -> uint_to_be_bytes r = bs.
Proof.
  intros Hw E. destruct (from_be_slice_spec _ _ _ Hw E) as (Hl & Hwr & Hlr & Her).
  rewrite uint_to_be_bytes_rev, uint_to_le_bytes_digits, Hlr, Her by assumption.
  rewrite <- Hl, <- (rev_length bs), digits_evalb by (reflexivity || apply wfd_rev; assumption).
  apply rev_involutive.
Qed.

(** the two byte orders are mirror images *)
Lemma be_le_mirror ls : uint_to_be_bytes ls = rev (uint_to_le_bytes ls).
Proof. apply uint_to_be_bytes_rev. Qed.

(* the plain "value of a big-endian digit string" (Horner) used by the spec table *)
Lemma horner_fold b ds acc : fold_left (fun a d => a * b + d) ds acc = acc * b ^ Z.of_nat (length ds) + evalb b (rev ds).
Proof.
  revert acc; induction ds as [|d ds IH]; intros acc; cbn [fold_left rev length].
  - change (Z.of_nat 0) with 0. rewrite Z.pow_0_r. cbn [evalb]. lia.
  - rewrite IH, evalb_app, rev_length. cbn [evalb]. rewrite pow_S_nat. ring.
Qed.
Lemma horner_evalb b ds : horner b ds = evalb b (rev ds).
Proof. unfold horner. rewrite horner_fold. lia. Qed.

Lemma firstn_app_len {A} (l1 l2 : list A) n : length l1 = n -> firstn n (l1 ++ l2) = l1.
Proof. intros <-. induction l1 as [|x l1 IH]; cbn [length firstn app]; [destruct l2; reflexivity | rewrite IH; reflexivity]. Qed.
Lemma skipn_app_len {A} (l1 l2 : list A) n : length l1 = n -> skipn n (l1 ++ l2) = l2.
Proof. intros <-. induction l1 as [|x l1 IH]; cbn [length skipn app]; [reflexivity | assumption]. Qed.

(* serde payload: length prefix + little-endian bytes; the decoder inverts the encoder *)
Lemma serde_roundtrip ls : wf ls -> Z.of_nat (8 * length ls) < B ->
  uint_serde_de (length ls) (uint_serde_ser ls) = Val [ls].
Proof.
  intros Hw Hsz. unfold uint_serde_de, uint_serde_ser.
  pose proof (length_uint_to_le_bytes ls Hw) as Hl. rewrite Hl.
  set (hdr := digits 256 8 (Z.of_nat (8 * length ls))).
  assert (Hh : length hdr = 8%nat) by apply length_digits.
  rewrite app_length, Hh.
  destruct (Nat.ltb_spec (8 + 8 * length ls) 8) as [Hc|_]; [lia|].
  assert (F : firstn 8 (hdr ++ uint_to_le_bytes ls) = hdr) by (apply firstn_app_len; assumption).
  assert (S : skipn 8 (hdr ++ uint_to_le_bytes ls) = uint_to_le_bytes ls) by (apply skipn_app_len; assumption).
  rewrite F, S, Hl. unfold word_from_le_bytes, hdr. rewrite evalb_digits by reflexivity.
  rewrite <- B_256. rewrite Z.mod_small by lia.
  destruct (Z.ltb_spec (Z.of_nat (8 * length ls)) (Z.of_nat (8 * length ls))) as [Hc|_]; [lia|].
  rewrite Z.eqb_refl. cbn [negb].
  rewrite <- Hl, firstn_all, le_roundtrip by assumption. reflexivity.
Qed.
