(** C07 (tables, completed): the four table theorems of Proofs/ModArithTablesP.v that were stated GIVEN facts of other
    areas ([split_mul_ok]: the multiplication routine returns the double-width product; [recip_ok]: the 64-bit Newton
    reciprocal is exact; [rem_wide_ok]: the wide Knuth remainder is exact) are re-stated here WITHOUT those hypotheses.
    The facts are proved elsewhere in the development and are plugged in:
      - C03  Proofs/MulApiP.v    [uint_split_mul_correct] (schoolbook + fixed Karatsuba), [boxed_mul_wide] (boxed Karatsuba)
      - C02  Proofs/RecipP.v     [reciprocal_correct]  via  Proofs/DivFinalP.v [recip_ok_top64], DivShiftP.v [recip_new_top64]
      - C02  Proofs/RemWideP.v   [rem_wide_vartime_correct]  via  Proofs/DivFinalP.v [rem_wide_vartime_total]
    What remains in the statements is only the spec-domain hypothesis (spec entry <> Unsupported) and, for the two keys
    whose spec does not test it, the typing side condition "the three Uint<N> operands have one N" (boolean). *)
From CB Require Import Model.Limbs Model.AddSub Model.Mul Model.Div Model.ModArith
  Proofs.WordP Proofs.LimbsP Proofs.AddSubP Proofs.DivP Proofs.DivShiftP Proofs.DivFinalP Proofs.ModArithP
  Proofs.MulApiP Proofs.ModArithTablesP.
From Coq Require Import ZArith Lia List Bool String.
Open Scope Z_scope.
Notation length := List.length.

(* ------------------------------------------------------------------ the three facts, in the form the table lemmas ask for *)

(** C03: Uint::split_mul (schoolbook or Karatsuba, by width) returns the double-width product *)
Lemma uint_split_mul_ok x y : wf x -> wf y -> length x = length y -> split_mul_ok uint_split_mul x y.
Proof.
  intros Hx Hy Hl lo hi E. destruct (uint_split_mul_correct x y lo hi Hx Hy E) as (A & C & D & F & G).
  repeat split; auto. lia.
Qed.

(** C03: BoxedUint::mul (schoolbook or boxed Karatsuba) split at the receiver's precision *)
Lemma boxed_split_mul_ok x y : wf x -> wf y -> length x = length y -> split_mul_ok boxed_split_mul x y.
Proof.
  intros Hx Hy Hl lo hi E. unfold boxed_split_mul, split_at in E. inv_pair E.
  destruct (boxed_mul_wide x y Hx Hy) as (A & C & D & F & G).
  repeat split; auto. lia.
Qed.

(** C02: the reciprocal that mul_mod_special builds for d = 2^64 - c (one-limb branch) is exact *)
Lemma recip_new_special_ok c : 1 <= c < B ->
  recip_ok (r_d (recip_new (B - c))) (reciprocal (r_d (recip_new (B - c)))).
Proof. intros Hc. rewrite recip_new_top64 by lia. apply recip_ok_top64. lia. Qed.

(** C02: Uint::rem_wide_vartime is exact for every non-zero modulus *)
Lemma rem_wide_ok_nonzero p : wf p -> eval p <> 0 -> rem_wide_ok p.
Proof.
  intros Hp Hnz lo hi Hlo Hhi Ll Lh. cbv zeta.
  destruct (rem_wide_vartime_total lo hi p Hlo Hhi Hp ltac:(lia) ltac:(lia) Hnz) as (E & L & W).
  rewrite Ll in E, L. auto.
Qed.

(* ------------------------------------------------------------------ typing side condition (boolean) *)
(** self, rhs and p of Uint::mul_mod_vartime / MulMod::mul_mod are three Uint<LIMBS> of one LIMBS *)
Definition ty_same3 (a : list (list Z)) : bool := (ln 0 a =? ln 1 a)%nat && (ln 0 a =? ln 2 a)%nat.
Lemma ty_same3_inv a : ty_same3 a = true -> ln 0 a = ln 1 a /\ ln 0 a = ln 2 a.
Proof. unfold ty_same3. intros H. apply andb_prop in H. destruct H as [H0 H1]. apply Nat.eqb_eq in H0, H1. auto. Qed.

(** what the spec domain of a binary special-modulus form contains *)
Lemma doms_binary_defined a c o : doms a true c o <> Unsupported -> 1 <= c < B /\ ln 0 a = ln 1 a.
Proof.
  unfold doms. destruct (_ && _)%bool eqn:D; [intros _ | intros H; contradiction H; reflexivity].
  rewrite !andb_true_iff in D. destruct D as ((((D1 & D2) & D3) & D4) & (D5 & D6)).
  apply Z.leb_le in D1. apply Z.ltb_lt in D2. apply Nat.eqb_eq in D6. auto.
Qed.

(* ------------------------------------------------------------------ the four keys, hypothesis-free *)
Section Keys.
Variables (dbg : bool) (a : list (list Z)).
Hypothesis Hwf : wf_args a.

Lemma tbl_uint_mul_mod_special_full :
  S7 "uint.mul_mod_special" dbg a <> Unsupported ->
  M7 "uint.mul_mod_special" dbg a = S7 "uint.mul_mod_special" dbg a.
Proof.
  intros Hdom.
  assert (Hd : 1 <= sarg 2 a < B /\ ln 0 a = ln 1 a) by (revert Hdom; table_open; apply doms_binary_defined).
  destruct Hd as [Hc Hl]. unfold ln in Hl.
  apply tbl_uint_mul_mod_special_given_mul_recip; auto.
  - apply uint_split_mul_ok; auto using wf_arg.
  - apply recip_new_special_ok. exact Hc.
Qed.

Lemma tbl_boxed_mul_mod_special_full :
  S7 "boxed.mul_mod_special" dbg a <> Unsupported ->
  M7 "boxed.mul_mod_special" dbg a = S7 "boxed.mul_mod_special" dbg a.
Proof.
  intros Hdom.
  assert (Hd : 1 <= sarg 2 a < B /\ ln 0 a = ln 1 a) by (revert Hdom; table_open; apply doms_binary_defined).
  destruct Hd as [Hc Hl]. unfold ln in Hl.
  apply tbl_boxed_mul_mod_special_given_mul_recip; auto.
  - apply boxed_split_mul_ok; auto using wf_arg.
  - apply recip_new_special_ok. exact Hc.
Qed.

Lemma tbl_uint_mul_mod_vartime_full : ty_same3 a = true ->
  S7 "uint.mul_mod_vartime" dbg a <> Unsupported ->
  M7 "uint.mul_mod_vartime" dbg a = S7 "uint.mul_mod_vartime" dbg a.
Proof.
  intros Hty Hdom. destruct (ty_same3_inv a Hty) as [L1 L2].
  assert (Hnz : ev 2 a <> 0).
  { revert Hdom. table_open. destruct (ev 2 a =? 0) eqn:E; [intros H; contradiction H; reflexivity | intros _].
    apply Z.eqb_neq. exact E. }
  unfold ln in L1. unfold ev in Hnz.
  apply tbl_uint_mul_mod_vartime_given_mul_rem; auto.
  - apply uint_split_mul_ok; auto using wf_arg.
  - apply rem_wide_ok_nonzero; auto using wf_arg.
Qed.

(** the MulMod trait: panics exactly on p = 0, otherwise the canonical residue; no domain hypothesis at all *)
Lemma tbl_uint_mul_mod_trait_full : ty_same3 a = true ->
  M7 "uint.mul_mod_trait" dbg a = S7 "uint.mul_mod_trait" dbg a.
Proof.
  intros Hty. destruct (ty_same3_inv a Hty) as [L1 L2].
  destruct (Z.eq_dec (ev 2 a) 0) as [Hz | Hnz].
  - table_open. rewrite forallb_zero_eval by (apply wf_arg; assumption). fold (ev 2 a). rewrite Hz. reflexivity.
  - unfold ln in L1. unfold ev in Hnz.
    apply tbl_uint_mul_mod_trait_given_mul_rem; auto.
    + apply uint_split_mul_ok; auto using wf_arg.
    + apply rem_wide_ok_nonzero; auto using wf_arg.
Qed.
End Keys.

(* ------------------------------------------------------------------ the whole table of Model/ModArith.v *)
Definition btyping7 := list (string * (list (list Z) -> bool)).
Definition typedb7 (t : btyping7) (k : string) (a : list (list Z)) : bool :=
  match lookup k t with Some P => P a | None => true end.
Open Scope string_scope.
(** only the two keys whose spec entry does not itself test the widths carry a side condition *)
Definition modarith_tbl_ty : btyping7 := [("uint.mul_mod_vartime", ty_same3); ("uint.mul_mod_trait", ty_same3)].
Open Scope Z_scope.

Definition tbl7_ok (k : string) : Prop :=
  forall dbg a, wf_args a -> typedb7 modarith_tbl_ty k a = true ->
    S7 k dbg a <> Unsupported -> M7 k dbg a = S7 k dbg a.

Lemma modarith_table_keys_spec : map fst ops_modarith_spec = map fst ops_modarith_model.
Proof. reflexivity. Qed.
Lemma modarith_table_keys_count : length (map fst ops_modarith_model) = 19%nat.
Proof. reflexivity. Qed.

Lemma modarith_all_keys_ok : forall k, In k (map fst ops_modarith_model) -> tbl7_ok k.
Proof.
  intros k Hin dbg a Hwf Hty Hdom. cbn [map fst ops_modarith_model In] in Hin.
  repeat (destruct Hin as [<- | Hin];
    [first [ apply tbl_uint_add_mod | apply tbl_uint_double_mod | apply tbl_uint_add_mod_special | apply tbl_uint_sub_mod
           | apply tbl_uint_sub_mod_special | apply tbl_uint_neg_mod | apply tbl_uint_neg_mod_special
           | apply tbl_uint_mul_mod_special_full | apply tbl_uint_mul_mod_vartime_full | apply tbl_uint_mul_mod_trait_full
           | apply tbl_uint_mul_mod_value_level
           | apply tbl_boxed_add_mod | apply tbl_boxed_double_mod | apply tbl_boxed_sub_mod
           | apply tbl_boxed_sub_mod_special | apply tbl_boxed_neg_mod | apply tbl_boxed_neg_mod_special
           | apply tbl_boxed_mul_mod_special_full | apply tbl_boxed_mul_mod_value_level]; assumption |]).
  contradiction.
Qed.

(** every key of ops_modarith_model / ops_modarith_spec (19 of 19).  For "uint.mul_mod" / "boxed.mul_mod" the MODEL
    entry is value-level by design (the Montgomery route is C08's), so for these two keys the statement only says
    that the panic / unsupported split of the two tables is consistent. *)
Theorem modarith_tables_agree : forall k dbg a,
  In k (map fst ops_modarith_model) -> wf_args a -> typedb7 modarith_tbl_ty k a = true ->
  S7 k dbg a <> Unsupported -> M7 k dbg a = S7 k dbg a.
Proof. intros k dbg a Hin. exact (modarith_all_keys_ok k Hin dbg a). Qed.

Lemma modarith_key_set :
  map fst ops_modarith_spec = map fst ops_modarith_model /\ length (map fst ops_modarith_model) = 19%nat.
Proof. split; [exact modarith_table_keys_spec | exact modarith_table_keys_count]. Qed.

(** the typing side condition of the two keys is needed: a two-limb modulus against one-limb operands (not expressible
    in Rust: self, rhs and p are Uint<LIMBS> of one LIMBS) makes the two tables differ *)
Lemma modarith_typing_needed :
  M7 "uint.mul_mod_vartime" false [[MAXW]; [MAXW]; [7; 1]] <> S7 "uint.mul_mod_vartime" false [[MAXW]; [MAXW]; [7; 1]].
Proof. vm_compute. discriminate. Qed.
