(** C15 — where two DIFFERENT algorithms of the crate serve the same mathematical operation, they return the same limbs.
    Each statement is a corollary of the two algorithms' model = spec theorems (C02, C03, C05, C06, C20) plus uniqueness
    of the canonical limb representation ([eval_inj]): nothing is re-proved about the algorithms themselves. *)
From CB Require Import Model.Limbs Model.AddSub Model.Mul Model.Div Model.Sqrt Model.Cmp
  Proofs.WordP Proofs.LimbsP Proofs.AddSubP
  Proofs.MulBaseP Proofs.MulSqP Proofs.MulKaraP Proofs.MulBoxedP Proofs.MulApiP
  Proofs.DivP Proofs.DivFinalP Proofs.SqrtP Proofs.CmpP Proofs.CmpBoxedP Proofs.CmpAllP.
From Coq Require Import ZArith List Lia.
Open Scope Z_scope.
Notation length := List.length.

(** uniqueness of quotient and remainder, in limb form *)
Lemma divmod_limbs_unique x d q1 r1 q2 r2 :
  0 < d ->
  x = eval q1 * d + eval r1 -> 0 <= eval r1 < d ->
  x = eval q2 * d + eval r2 -> 0 <= eval r2 < d ->
  wf q1 -> wf q2 -> wf r1 -> wf r2 -> length q1 = length q2 -> length r1 = length r2 ->
  q1 = q2 /\ r1 = r2.
Proof.
  intros Hd E1 R1 E2 R2 Wq1 Wq2 Wr1 Wr2 Lq Lr.
  destruct (div_mod_unique_pos d (eval q1) (eval r1) x R1 E1) as [Q1 M1].
  destruct (div_mod_unique_pos d (eval q2) (eval r2) x R2 E2) as [Q2 M2].
  split; apply eval_inj; auto; congruence.
Qed.

(* ------------------------------------------------------------------ division *)

(** Uint::div_rem (constant time: fixed trip count, masked steps) = Uint::div_rem_vartime (Knuth D with early exits) *)
Lemma div_ct_eq_vartime x y : wf x -> wf y -> length y = length x -> eval y <> 0 ->
  uint_div_rem x y = Some (div_rem_vartime x y).
Proof.
  intros Hx Hy Hl Hn.
  destruct (uint_div_rem_total x y Hx Hy Hl Hn) as (q & r & E & Ev & Rr & Lq & Lr & Wq & Wr).
  destruct (div_rem_vartime x y) as [q2 r2] eqn:E2.
  destruct (div_rem_vartime_total x y q2 r2 Hx Hy Hn E2) as (Ev2 & Rr2 & Lq2 & Lr2 & Wq2 & Wr2).
  pose proof (eval_bounds y Hy) as By.
  destruct (divmod_limbs_unique (eval x) (eval y) q r q2 r2) as [-> ->]; auto; try lia; try congruence.
Qed.

(** BoxedUint::div_rem (constant time) = Uint::div_rem on equal precisions *)
Lemma boxed_div_eq_uint x y : wf x -> wf y -> length y = length x -> eval y <> 0 ->
  boxed_div_rem x y = uint_div_rem x y.
Proof.
  intros Hx Hy Hl Hn.
  destruct (uint_div_rem_total x y Hx Hy Hl Hn) as (q & r & E & Ev & Rr & Lq & Lr & Wq & Wr).
  destruct (boxed_div_rem_total x y Hx Hy Hl Hn) as (q2 & r2 & E2 & Ev2 & Rr2 & Lq2 & Lr2 & Wq2 & Wr2).
  pose proof (eval_bounds y Hy) as By.
  destruct (divmod_limbs_unique (eval x) (eval y) q r q2 r2) as [-> ->]; auto; try lia; try congruence.
Qed.

(** BoxedUint::div_rem_vartime (in-place Knuth on slices) = Uint::div_rem_vartime, every pair of widths *)
Lemma boxed_div_vartime_eq_uint x y : wf x -> wf y -> eval y <> 0 ->
  boxed_div_rem_vartime x y = Some (div_rem_vartime x y).
Proof.
  intros Hx Hy Hn.
  destruct (boxed_div_rem_vartime_total x y Hx Hy Hn) as (q & r & E & Ev & Rr & Lq & Lr & Wq & Wr).
  destruct (div_rem_vartime x y) as [q2 r2] eqn:E2.
  destruct (div_rem_vartime_total x y q2 r2 Hx Hy Hn E2) as (Ev2 & Rr2 & Lq2 & Lr2 & Wq2 & Wr2).
  pose proof (eval_bounds y Hy) as By.
  destruct (divmod_limbs_unique (eval x) (eval y) q r q2 r2) as [-> ->]; auto; try lia; try congruence.
Qed.

(** BoxedUint::rem_vartime = the remainder half of div_rem_vartime *)
Lemma boxed_rem_vartime_eq x y : wf x -> wf y -> eval y <> 0 ->
  boxed_rem_vartime x y = Some (snd (div_rem_vartime x y)).
Proof.
  intros Hx Hy Hn.
  destruct (boxed_rem_vartime_total x y Hx Hy Hn) as (r & E & Ev & Lr & Wr).
  destruct (div_rem_vartime x y) as [q2 r2] eqn:E2.
  destruct (div_rem_vartime_total x y q2 r2 Hx Hy Hn E2) as (Ev2 & Rr2 & Lq2 & Lr2 & Wq2 & Wr2).
  destruct (div_rem_vartime_divmod x y q2 r2 Hx Hy Hn E2) as (_ & M).
  rewrite E. f_equal. cbn [snd]. apply eval_inj; auto; congruence.
Qed.

(** Uint::rem_wide_vartime on (lo, 0) = the remainder of Uint::div_rem_vartime *)
Lemma rem_wide_zero_hi_eq lo y : wf lo -> wf y -> length y = length lo -> eval y <> 0 ->
  rem_wide_vartime lo (zeros (length lo)) y = snd (div_rem_vartime lo y).
Proof.
  intros Hx Hy Hl Hn.
  assert (Wz : wf (zeros (length lo))) by apply wf_zeros.
  assert (Lz : length (zeros (length lo)) = length lo) by apply length_zeros.
  destruct (rem_wide_vartime_total lo (zeros (length lo)) y Hx Wz Hy Lz Hl Hn) as (Ev & Lr & Wr).
  destruct (div_rem_vartime lo y) as [q2 r2] eqn:E2.
  destruct (div_rem_vartime_total lo y q2 r2 Hx Hy Hn E2) as (Ev2 & Rr2 & Lq2 & Lr2 & Wq2 & Wr2).
  destruct (div_rem_vartime_divmod lo y q2 r2 Hx Hy Hn E2) as (_ & M).
  cbn [snd]. apply eval_inj; auto; try congruence.
  rewrite Ev, eval_zeros, M. f_equal. lia.
Qed.

(* ------------------------------------------------------------------ multiplication *)

(** fixed-size Karatsuba (any level) = schoolbook multiplication, as (lo, hi) halves *)
Lemma kmul_eq_schoolbook l x y m : wf x -> wf y -> length x = (2 ^ l * m)%nat -> length y = length x ->
  kmul l x y = split_at (length x) (schoolbook_mul x y).
Proof.
  intros Hx Hy Hl Hly.
  destruct (kmul l x y) as [lo hi] eqn:E.
  destruct (kmul_correct l x y lo hi m Hx Hy Hl Hly E) as (Ev & Wlo & Whi & Llo & Lhi).
  destruct (split_at (length x) (schoolbook_mul x y)) as [lo2 hi2] eqn:E2.
  destruct (schoolbook_split_correct x y lo2 hi2 Hx Hy E2) as (Ev2 & Wlo2 & Whi2 & Llo2 & Lhi2).
  pose proof (eval_bounds lo Wlo) as B1. pose proof (eval_bounds lo2 Wlo2) as B2.
  rewrite Llo in B1. rewrite Llo2 in B2.
  assert (Hlo : eval lo = eval lo2 /\ eval hi = eval hi2).
  { pose proof (Bn_pos (length x)) as Bp.
    assert (A : eval x * eval y = eval hi * Bn (length x) + eval lo) by lia.
    assert (A2 : eval x * eval y = eval hi2 * Bn (length x) + eval lo2) by lia.
    destruct (div_mod_unique_pos (Bn (length x)) (eval hi) (eval lo) _ B1 A) as [Q1 M1].
    destruct (div_mod_unique_pos (Bn (length x)) (eval hi2) (eval lo2) _ B2 A2) as [Q2 M2].
    split; congruence. }
  destruct Hlo as [Hlo Hhi]. f_equal; apply eval_inj; auto; congruence.
Qed.

(** Uint::split_mul (whatever its Karatsuba dispatch chooses) = schoolbook *)
Lemma uint_split_mul_eq_schoolbook x y : wf x -> wf y ->
  uint_split_mul x y = split_at (length x) (schoolbook_mul x y).
Proof.
  intros Hx Hy.
  destruct (uint_split_mul x y) as [lo hi] eqn:E.
  destruct (uint_split_mul_eval x y lo hi Hx Hy E) as (Ev & Wlo & Whi & Llo & Lhi).
  destruct (split_at (length x) (schoolbook_mul x y)) as [lo2 hi2] eqn:E2.
  destruct (schoolbook_split_correct x y lo2 hi2 Hx Hy E2) as (Ev2 & Wlo2 & Whi2 & Llo2 & Lhi2).
  pose proof (eval_bounds lo Wlo) as B1. pose proof (eval_bounds lo2 Wlo2) as B2.
  rewrite Llo in B1. rewrite Llo2 in B2.
  assert (Hlo : eval lo = eval lo2 /\ eval hi = eval hi2).
  { pose proof (Bn_pos (length x)) as Bp.
    assert (A : eval x * eval y = eval hi * Bn (length x) + eval lo) by lia.
    assert (A2 : eval x * eval y = eval hi2 * Bn (length x) + eval lo2) by lia.
    destruct (div_mod_unique_pos (Bn (length x)) (eval hi) (eval lo) _ B1 A) as [Q1 M1].
    destruct (div_mod_unique_pos (Bn (length x)) (eval hi2) (eval lo2) _ B2 A2) as [Q2 M2].
    split; congruence. }
  destruct Hlo as [Hlo Hhi]. f_equal; apply eval_inj; auto; congruence.
Qed.

(** BoxedUint::mul (boxed Karatsuba with scratch space, any length pair) = schoolbook *)
Lemma boxed_mul_eq_schoolbook x y : wf x -> wf y -> boxed_mul x y = schoolbook_mul x y.
Proof.
  intros Hx Hy.
  destruct (boxed_mul_correct x y Hx Hy) as (E1 & W1 & L1).
  destruct (schoolbook_mul_correct x y Hx Hy) as (E2 & W2 & L2).
  apply eval_inj; auto; congruence.
Qed.

(** BoxedUint::mul = Uint::split_mul glued, i.e. fixed and boxed products are limb-for-limb equal *)
Lemma boxed_mul_eq_fixed x y lo hi : wf x -> wf y -> uint_split_mul x y = (lo, hi) ->
  boxed_mul x y = lo ++ hi.
Proof.
  intros Hx Hy E.
  destruct (boxed_mul_correct x y Hx Hy) as (E1 & W1 & L1).
  destruct (uint_split_mul_eval x y lo hi Hx Hy E) as (Ev & Wlo & Whi & Llo & Lhi).
  apply eval_inj; auto.
  - apply wf_app; auto.
  - rewrite app_length. lia.
  - rewrite eval_app, Llo. lia.
Qed.

(** squaring routes: schoolbook squaring, boxed squaring and multiplication by itself *)
Lemma squares_agree x : wf x ->
  schoolbook_sq x = schoolbook_mul x x /\ boxed_square x = schoolbook_mul x x.
Proof.
  intros Hx.
  destruct (schoolbook_sq_correct x Hx) as (E1 & W1 & L1).
  destruct (schoolbook_mul_correct x x Hx Hx) as (E2 & W2 & L2).
  destruct (boxed_square_correct x Hx) as (E3 & W3 & L3).
  split; apply eval_inj; auto; try congruence; lia.
Qed.

(* ------------------------------------------------------------------ square root *)

Lemma sqrt_routes_agree a : wf a -> length a <> 0%nat ->
  uint_sqrt_vartime a = uint_sqrt a /\ boxed_sqrt a = uint_sqrt a /\ boxed_sqrt_vartime a = uint_sqrt a.
Proof.
  intros Ha Hl.
  destruct (uint_sqrt_exact a Ha Hl) as (r1 & E1 & W1 & L1 & F1).
  destruct (uint_sqrt_vartime_exact a Ha Hl) as (r2 & E2 & W2 & L2 & F2).
  destruct (boxed_sqrt_exact a Ha Hl) as (r3 & E3 & W3 & L3 & F3).
  destruct (boxed_sqrt_vartime_exact a Ha Hl) as (r4 & E4 & W4 & L4 & F4).
  rewrite E1, E2, E3, E4.
  repeat split; f_equal; apply eval_inj; auto; try congruence;
    eapply is_floor_sqrt_unique; eassumption.
Qed.

(* ------------------------------------------------------------------ comparison *)

Lemma cmp_routes_agree a b : wf a -> wf b -> length a = length b ->
  uint_cmp_vartime a b = uint_cmp a b /\ boxed_cmp_vartime a b = uint_cmp a b.
Proof.
  intros Ha Hb Hl.
  rewrite (uint_cmp_spec a b Ha Hb Hl), (uint_cmp_vartime_spec a b Ha Hb Hl), (boxed_cmp_vartime_spec a b Ha Hb).
  split; reflexivity.
Qed.
